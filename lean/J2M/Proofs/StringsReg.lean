/-
  Helper lemmas for C09: first-match detection, `resolve`, `removeByName`.
-/
import J2M.Sem
namespace J2M.Strings

open J2M

/-! ## detectStr -/

theorem detectGo_some (acc : Accepts) (s : String) (k : String) :
    ∀ ks : List String, (∀ k' ∈ ks, ∃ b, acc k' s = some b) →
    (detectStr.go acc s ks = .ok (some k) ↔
      ∃ pre post, ks = pre ++ k :: post ∧ acc k s = some true ∧ ∀ k' ∈ pre, acc k' s = some false) := by
  intro ks
  induction ks with
  | nil => intro _; simp [detectStr.go]
  | cons x xs ih =>
    intro htot
    have hx := htot x (by simp)
    have ih' := ih (fun k' hk' => htot k' (by simp [hk']))
    obtain ⟨b, hb⟩ := hx
    cases b with
    | true =>
      simp only [detectStr.go, hb]
      constructor
      · intro h
        have : x = k := by simpa using h
        subst this
        exact ⟨[], xs, rfl, hb, by simp⟩
      · rintro ⟨pre, post, heq, hk, hpre⟩
        cases pre with
        | nil => simp at heq; rw [heq.1]
        | cons p ps =>
          simp at heq
          have := hpre p (by simp)
          rw [← heq.1, hb] at this
          cases this
    | false =>
      simp only [detectStr.go, hb]
      rw [ih']
      constructor
      · rintro ⟨pre, post, heq, hk, hpre⟩
        refine ⟨x :: pre, post, by simp [heq], hk, ?_⟩
        intro k' hk'
        rcases List.mem_cons.mp hk' with rfl | h
        · exact hb
        · exact hpre k' h
      · rintro ⟨pre, post, heq, hk, hpre⟩
        cases pre with
        | nil =>
          simp at heq
          rw [← heq.1, hb] at hk
          cases hk
        | cons p ps =>
          simp at heq
          exact ⟨ps, post, heq.2, hk, fun k' hk' => hpre k' (by simp [hk'])⟩

theorem detectGo_none (acc : Accepts) (s : String) :
    ∀ ks : List String, (∀ k' ∈ ks, ∃ b, acc k' s = some b) →
    (detectStr.go acc s ks = .ok none ↔ ∀ k ∈ ks, acc k s = some false) := by
  intro ks
  induction ks with
  | nil => intro _; simp [detectStr.go]
  | cons x xs ih =>
    intro htot
    have hx := htot x (by simp)
    have ih' := ih (fun k' hk' => htot k' (by simp [hk']))
    obtain ⟨b, hb⟩ := hx
    cases b with
    | true => simp [detectStr.go, hb]
    | false => simp [detectStr.go, hb, ih']

/-- whatever the oracle does (even partial), a detected kind is a registered one that accepted -/
theorem detectGo_mem (acc : Accepts) (s : String) (k : String) :
    ∀ ks : List String, detectStr.go acc s ks = .ok (some k) → k ∈ ks ∧ acc k s = some true := by
  intro ks
  induction ks with
  | nil => simp [detectStr.go]
  | cons x xs ih =>
    intro h
    simp only [detectStr.go] at h
    split at h
    · cases h
    · rename_i hx
      have : x = k := by simpa using h
      subst this; exact ⟨by simp, hx⟩
    · have := ih h
      exact ⟨by simp [this.1], this.2⟩


/-! ## dedupStr -/

private def dd (acc : List String) (x : String) : List String := if acc.contains x then acc else acc ++ [x]

theorem dedupStr_eq (xs : List String) : dedupStr xs = xs.foldl dd [] := rfl

theorem mem_foldl_dd (xs : List String) : ∀ (acc : List String) (x : String),
    x ∈ xs.foldl dd acc ↔ x ∈ acc ∨ x ∈ xs := by
  induction xs with
  | nil => simp
  | cons y ys ih =>
    intro acc x
    rw [List.foldl_cons, ih]
    unfold dd
    by_cases h : acc.contains y = true
    · rw [if_pos h]
      have hy : y ∈ acc := by simpa using h
      constructor
      · rintro (h | h) <;> simp [h]
      · rintro (h | h)
        · exact .inl h
        · rcases List.mem_cons.mp h with rfl | h
          · exact .inl hy
          · exact .inr h
    · rw [if_neg h]; simp [or_assoc]

theorem nodup_foldl_dd (xs : List String) : ∀ acc : List String, acc.Nodup → (xs.foldl dd acc).Nodup := by
  induction xs with
  | nil => simp
  | cons y ys ih =>
    intro acc hacc
    rw [List.foldl_cons]
    apply ih
    unfold dd
    by_cases h : acc.contains y = true
    · rw [if_pos h]; exact hacc
    · rw [if_neg h]
      have hy : y ∉ acc := by simpa using h
      rw [List.nodup_append]
      refine ⟨hacc, by simp, ?_⟩
      intro a ha b hb
      have : b = y := by simpa using hb
      subst this; intro e; subst e; exact hy ha

theorem foldl_dd_of_nodup (xs : List String) : ∀ acc : List String, (acc ++ xs).Nodup →
    xs.foldl dd acc = acc ++ xs := by
  induction xs with
  | nil => simp
  | cons y ys ih =>
    intro acc h
    have hy : y ∉ acc := by
      intro hy
      rw [List.nodup_append] at h
      exact h.2.2 y hy y (by simp) rfl
    have hc : ¬ acc.contains y = true := by simpa using hy
    rw [List.foldl_cons]
    have : dd acc y = acc ++ [y] := by unfold dd; rw [if_neg hc]
    rw [this, ih (acc ++ [y]) (by simpa using h)]
    simp

theorem mem_dedupStr {xs : List String} {x : String} : x ∈ dedupStr xs ↔ x ∈ xs := by
  rw [dedupStr_eq, mem_foldl_dd]; simp

theorem nodup_dedupStr (xs : List String) : (dedupStr xs).Nodup := by
  rw [dedupStr_eq]; exact nodup_foldl_dd xs [] (by simp)

theorem dedupStr_of_nodup {xs : List String} (h : xs.Nodup) : dedupStr xs = xs := by
  rw [dedupStr_eq, foldl_dd_of_nodup xs [] (by simpa using h)]; simp

/-! ## resolve: one round of removal is a fixpoint -/

theorem mem_replacedIn {reg : StrRegistry} {D : List String} {t : String} :
    t ∈ replacedIn reg D ↔ t ∈ D ∧ ∃ t2 ∈ D, t ≠ t2 ∧ (t, t2) ∈ reg.replaces := by
  simp [replacedIn]

/-- the members that no other member replaces -/
def survivors (reg : StrRegistry) (D : List String) : List String :=
  D.filter (fun t => !(replacedIn reg D).contains t)

theorem mem_survivors {reg : StrRegistry} {D : List String} {t : String} :
    t ∈ survivors reg D ↔ t ∈ D ∧ ∀ t2 ∈ D, t ≠ t2 → (t, t2) ∉ reg.replaces := by
  simp only [survivors, List.mem_filter, Bool.not_eq_true', List.contains_eq_mem, decide_eq_false_iff_not,
    mem_replacedIn]
  constructor
  · rintro ⟨h1, h2⟩
    exact ⟨h1, fun t2 ht2 hne hr => h2 ⟨h1, t2, ht2, hne, hr⟩⟩
  · rintro ⟨h1, h2⟩
    exact ⟨h1, fun ⟨_, t2, ht2, hne, hr⟩ => h2 t2 ht2 hne hr⟩

theorem replacedIn_survivors (reg : StrRegistry) (D : List String) :
    replacedIn reg (survivors reg D) = [] := by
  rw [List.eq_nil_iff_forall_not_mem]
  intro t ht
  rw [mem_replacedIn] at ht
  obtain ⟨h1, t2, ht2, hne, hr⟩ := ht
  rw [mem_survivors] at h1 ht2
  exact h1.2 t2 ht2.1 hne hr

theorem nodup_survivors {reg : StrRegistry} {D : List String} (h : D.Nodup) : (survivors reg D).Nodup :=
  List.Nodup.sublist List.filter_sublist h

theorem survivors_eq_self {reg : StrRegistry} {D : List String} (h : replacedIn reg D = []) :
    survivors reg D = D := by
  simp [survivors, h]

/-- `resolve` needs two rounds at most: the second one finds nothing to remove -/
theorem resolve_eq (reg : StrRegistry) (ts : List String) (fuel : Nat) :
    resolve reg ts (fuel + 2) = .ok (survivors reg (dedupStr ts)) := by
  rw [resolve]
  by_cases h : (replacedIn reg (dedupStr ts)).isEmpty = true
  · have h' : replacedIn reg (dedupStr ts) = [] := by simpa using h
    simp only [h, if_true]
    rw [survivors_eq_self h']
  · simp only [h]
    have e : (dedupStr ts).filter (fun t => !(replacedIn reg (dedupStr ts)).contains t)
        = survivors reg (dedupStr ts) := rfl
    rw [if_neg (by simp), e, resolve]
    rw [dedupStr_of_nodup (nodup_survivors (nodup_dedupStr ts)), replacedIn_survivors]
    simp

theorem resolve_fuel_one (reg : StrRegistry) (ts : List String) :
    resolve reg ts 1 = if (replacedIn reg (dedupStr ts)).isEmpty then .ok (dedupStr ts) else .error .outOfFuel := by
  rw [resolve]; split <;> simp_all [resolve]

/-- any successful run returns the survivors -/
theorem resolve_ok {reg : StrRegistry} {ts : List String} {fuel : Nat} {r : List String}
    (h : resolve reg ts fuel = .ok r) : r = survivors reg (dedupStr ts) := by
  match fuel with
  | 0 => simp [resolve] at h
  | 1 =>
    rw [resolve_fuel_one] at h
    split at h
    · rename_i he
      have : replacedIn reg (dedupStr ts) = [] := by simpa using he
      rw [survivors_eq_self this]
      cases h; rfl
    · cases h
  | n + 2 =>
    rw [resolve_eq] at h
    cases h; rfl

/-! ## chains of replacements -/

/-- one replacement step between two different members of `ts` -/
def Step (reg : StrRegistry) (ts : List String) (a b : String) : Prop :=
  a ∈ ts ∧ b ∈ ts ∧ a ≠ b ∧ (a, b) ∈ reg.replaces

/-- `Replaces⁺` restricted to members of `ts` -/
def ReplPlus (reg : StrRegistry) (ts : List String) : String → String → Prop :=
  Relation.TransGen (Step reg ts)

theorem ReplPlus.mono {reg : StrRegistry} {S T : List String} (hST : ∀ x ∈ S, x ∈ T) {a b : String}
    (h : ReplPlus reg S a b) : ReplPlus reg T a b := by
  induction h with
  | single h => exact .single ⟨hST _ h.1, hST _ h.2.1, h.2.2⟩
  | tail _ h ih => exact .tail ih ⟨hST _ h.1, hST _ h.2.1, h.2.2⟩

theorem ReplPlus.head {reg : StrRegistry} {S : List String} {a b c : String}
    (h : Step reg S a b) (h' : ReplPlus reg S b c) : ReplPlus reg S a c :=
  Relation.TransGen.trans (.single h) h'

/-- in a finite set without replacement cycles every member reaches a member nothing replaces -/
theorem exists_maximal (reg : StrRegistry) : ∀ (n : Nat) (S : List String), S.length ≤ n →
    (∀ a, ¬ ReplPlus reg S a a) → ∀ t ∈ S,
    ∃ u ∈ S, (t = u ∨ ReplPlus reg S t u) ∧ ∀ v ∈ S, u ≠ v → (u, v) ∉ reg.replaces := by
  intro n
  induction n with
  | zero =>
    intro S hS _ t ht
    have : S = [] := List.eq_nil_of_length_eq_zero (by omega)
    subst this; cases ht
  | succ n ih =>
    intro S hS hac t ht
    by_cases hsucc : ∃ t2 ∈ S, t ≠ t2 ∧ (t, t2) ∈ reg.replaces
    · obtain ⟨t2, ht2, hne, hr⟩ := hsucc
      let S' := S.filter (fun x => x != t)
      have hsub : ∀ x ∈ S', x ∈ S := fun x hx => (List.mem_filter.mp hx).1
      have hmem' : ∀ x, x ∈ S' ↔ x ∈ S ∧ x ≠ t := by intro x; simp [S']
      have hlen : S'.length ≤ n := by
        have h1 : S'.length < S.length := by
          apply List.length_filter_lt_length_iff_exists.mpr
          exact ⟨t, ht, by simp⟩
        omega
      have hac' : ∀ a, ¬ ReplPlus reg S' a a := fun a h => hac a (h.mono hsub)
      have ht2' : t2 ∈ S' := (hmem' t2).2 ⟨ht2, fun e => hne e.symm⟩
      obtain ⟨u, hu, hreach, hmax⟩ := ih S' hlen hac' t2 ht2'
      have hstep : Step reg S t t2 := ⟨ht, ht2, hne, hr⟩
      have htu : ReplPlus reg S t u := by
        rcases hreach with rfl | h
        · exact .single hstep
        · exact ReplPlus.head hstep (h.mono hsub)
      have hut : u ≠ t := ((hmem' u).1 hu).2
      refine ⟨u, hsub u hu, .inr htu, ?_⟩
      intro v hv hne' hr'
      by_cases hvt : v = t
      · subst hvt
        exact hac v (Relation.TransGen.tail htu ⟨hsub u hu, hv, hne', hr'⟩)
      · exact hmax v ((hmem' v).2 ⟨hv, hvt⟩) hne' hr'
    · refine ⟨t, ht, .inl rfl, ?_⟩
      intro v hv hne hr
      exact hsucc ⟨v, hv, hne, hr⟩

end J2M.Strings
