/-
  The hash string determines whether a type is a `DOptional` (first characters `DOptional/`).
-/
import J2M.Proofs.HashInj
namespace J2M

theorem isOpt_of_hashStr_eq {a b : Ty} (h : hashStr a = hashStr b) (ha : a.isOpt = true) : b.isOpt = true := by
  have hk := HashInj.kind_eq (a := a) (b := b) (r₁ := []) (r₂ := []) (by rw [h])
  cases a <;> simp [Ty.isOpt] at ha
  cases b <;> simp [HashInj.kind] at hk
  rfl

end J2M
