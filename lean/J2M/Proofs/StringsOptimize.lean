/-
  Helper lemmas for C09 (3): `optimize` never introduces a pseudo-type kind that was not in its input.
-/
import J2M.Proofs.StringsKinds
import J2M.Proofs.SplitWorklist
namespace J2M.Strings

open J2M

/-! ## small facts about kinds -/

theorem kinds_get? {fs : Fields} {n : String} {t : Ty} (h : Fields.get? fs n = some t) :
    ∀ k ∈ t.kinds, k ∈ Ty.kindsFields fs := by
  intro k hk
  unfold Fields.get? at h
  cases hf : fs.find? (·.1 == n) with
  | none => rw [hf] at h; cases h
  | some ft =>
    rw [hf] at h
    have : ft.2 = t := by simpa using h
    exact mem_kindsFields.mpr ⟨ft, List.mem_of_find?_eq_some hf, by rw [this]; exact hk⟩

theorem kinds_set (fs : Fields) (n : String) (v : Ty) :
    ∀ k ∈ Ty.kindsFields (Fields.set fs n v), k ∈ Ty.kindsFields fs ∨ k ∈ v.kinds := by
  induction fs with
  | nil => intro k hk; simpa [Fields.set, Ty.kindsFields] using hk
  | cons ft fs ih =>
    obtain ⟨n', v'⟩ := ft
    intro k hk
    unfold Fields.set at hk
    split at hk
    · simp only [Ty.kindsFields, List.mem_append] at hk ⊢
      rcases hk with h | h
      · exact .inr h
      · exact .inl (.inr h)
    · simp only [Ty.kindsFields, List.mem_append] at hk ⊢
      rcases hk with h | h
      · exact .inl (.inl h)
      · rcases ih k h with h | h
        · exact .inl (.inr h)
        · exact .inr h

theorem kinds_unionMembers (t : Ty) : ∀ k, k ∈ Ty.kindsList t.unionMembers ↔ k ∈ t.kinds := by
  intro k
  cases t <;> simp [Ty.unionMembers, Ty.kindsList, Ty.kinds]

/-- `x if len(u) == 1 else DUnion(*u)` -/
theorem kinds_collapse (c : LitCfg) (xs : List Ty) (y : Ty)
    (hy : mkUnionMembers c xs = [y] ∨ y = .union (mkUnionMembers c xs)) :
    ∀ k ∈ y.kinds, k ∈ Ty.kindsList xs := by
  intro k hk
  have hU := kinds_mkUnionMembers c xs
  rcases hy with hx | rfl
  · exact hU k (by rw [hx]; simp [Ty.kindsList, hk])
  · exact hU k (by simpa [Ty.kinds] using hk)

theorem kinds_removeFirst (p : Ty → Bool) (xs : List Ty) : ∀ t ∈ removeFirst p xs, t ∈ xs := by
  induction xs with
  | nil => intro t ht; simp [removeFirst] at ht
  | cons x xs ih =>
    intro t ht
    unfold removeFirst at ht
    split at ht
    · exact List.mem_cons_of_mem _ ht
    · rcases List.mem_cons.mp ht with e | h
      · exact e ▸ List.mem_cons_self
      · exact List.mem_cons_of_mem _ (ih t h)

theorem kindsList_mono {xs ys : List Ty} (h : ∀ t ∈ xs, t ∈ ys) : ∀ k ∈ Ty.kindsList xs, k ∈ Ty.kindsList ys := by
  intro k hk
  obtain ⟨t, ht, hkt⟩ := mem_kindsList.mp hk
  exact mem_kindsList.mpr ⟨t, h t ht, hkt⟩

theorem kindsList_append (xs ys : List Ty) (k : String) :
    k ∈ Ty.kindsList (xs ++ ys) ↔ k ∈ Ty.kindsList xs ∨ k ∈ Ty.kindsList ys := by
  simp only [mem_kindsList, List.mem_append]
  constructor
  · rintro ⟨t, h | h, hk⟩
    · exact .inl ⟨t, h, hk⟩
    · exact .inr ⟨t, h, hk⟩
  · rintro (⟨t, h, hk⟩ | ⟨t, h, hk⟩)
    · exact ⟨t, .inl h, hk⟩
    · exact ⟨t, .inr h, hk⟩

/-! ## merge_field_sets -/

theorem kinds_mergeOne (c : LitCfg) (e : EqEnv) (first : Bool) (fields : Fields) (name : String) (field : Ty)
    (r : Fields) (h : mergeOne c e first fields name field = .ok r) :
    ∀ k ∈ Ty.kindsFields r, k ∈ Ty.kindsFields fields ∨ k ∈ field.kinds := by
  -- the two "build a union of both" outcomes
  have hU : ∀ (orig y : Ty), (∀ k ∈ orig.kinds, k ∈ Ty.kindsFields fields) →
      (mkUnionMembers c (field.unionMembers ++ orig.unionMembers) = [y] ∨
        y = .union (mkUnionMembers c (field.unionMembers ++ orig.unionMembers))) →
      ∀ k ∈ y.kinds, k ∈ Ty.kindsFields fields ∨ k ∈ field.kinds := by
    intro orig y ho hy k hk
    have := kinds_collapse c _ y hy k hk
    rcases (kindsList_append _ _ k).mp this with h | h
    · exact .inr ((kinds_unionMembers field k).mp h)
    · exact .inl (ho k ((kinds_unionMembers orig k).mp h))
  unfold mergeOne at h
  split at h
  · -- new field
    simp only [pure, Except.pure] at h
    injection h with h; subst h
    intro k hk
    rcases kinds_set _ _ _ k hk with h | h
    · exact .inl h
    · right; split at h
      · exact h
      · simpa [Ty.kinds] using h
  · rename_i orig hget
    have ho := kinds_get? hget
    split at h
    · rename_i origInner
      have ho' : ∀ k ∈ origInner.kinds, k ∈ Ty.kindsFields fields := fun k hk => ho k (by simpa [Ty.kinds] using hk)
      obtain ⟨b1, _, h⟩ := bind_ok h
      split at h
      · simp only [pure, Except.pure] at h
        injection h with h; subst h; exact fun k hk => .inl hk
      obtain ⟨b2, _, h⟩ := bind_ok h
      split at h
      · simp only [pure, Except.pure] at h
        injection h with h; subst h; exact fun k hk => .inl hk
      · simp only [pure, Except.pure] at h
        injection h with h; subst h
        intro k hk
        rcases kinds_set _ _ _ k hk with h | h
        · exact .inl h
        · simp only [Ty.kinds] at h
          split at h
          · rename_i x hx; exact hU origInner x ho' (.inl hx) k h
          · exact hU origInner _ ho' (.inr rfl) k h
    · obtain ⟨b1, _, h⟩ := bind_ok h
      split at h
      · simp only [pure, Except.pure] at h
        injection h with h; subst h; exact fun k hk => .inl hk
      obtain ⟨b2, _, h⟩ := bind_ok h
      split at h
      · -- the incoming `Optional[T]` replaces the existing `T`
        simp only [pure, Except.pure] at h
        injection h with h; subst h
        intro k hk
        rcases kinds_set _ _ _ k hk with h | h
        · exact .inl h
        · exact .inr h
      · simp only [pure, Except.pure] at h
        injection h with h; subst h
        intro k hk
        rcases kinds_set _ _ _ k hk with h | h
        · exact .inl h
        · split at h
          · rename_i x hx; exact hU orig x ho (.inl hx) k h
          · exact hU orig _ ho (.inr rfl) k h


theorem foldlM_inv {ε α β : Type} (f : β → α → Except ε β) (I : β → Prop) :
    ∀ (xs : List α) (b0 r : β), (∀ b a b', a ∈ xs → I b → f b a = .ok b' → I b') →
      I b0 → xs.foldlM f b0 = .ok r → I r := by
  intro xs
  induction xs with
  | nil =>
    intro b0 r _ h0 h
    simp only [List.foldlM_nil, pure, Except.pure] at h
    injection h with h; subst h; exact h0
  | cons x xs ih =>
    intro b0 r hstep h0 h
    rw [List.foldlM_cons] at h
    obtain ⟨b1, hb1, h⟩ := bind_ok h
    exact ih b1 r (fun b a b' ha => hstep b a b' (List.mem_cons_of_mem _ ha))
      (hstep b0 x b1 List.mem_cons_self h0 hb1) h

theorem kinds_mergeStep (c : LitCfg) (e : EqEnv) (first : Bool) (fields model r : Fields)
    (h : mergeStep c e first fields model = .ok r) :
    ∀ k ∈ Ty.kindsFields r, k ∈ Ty.kindsFields fields ∨ k ∈ Ty.kindsFields model := by
  unfold mergeStep at h
  obtain ⟨fs, hfs, h⟩ := bind_ok h
  simp only [pure, Except.pure] at h
  injection h with h; subst h
  have hI := foldlM_inv (fun fs (kv : String × Ty) => mergeOne c e first fs kv.1 kv.2)
    (fun fs => ∀ k ∈ Ty.kindsFields fs, k ∈ Ty.kindsFields fields ∨ k ∈ Ty.kindsFields model)
    model fields fs
    (by
      intro b a b' ha hb hm k hk
      rcases kinds_mergeOne c e first b a.1 a.2 b' hm k hk with h | h
      · exact hb k h
      · exact .inr (mem_kindsFields.mpr ⟨a, ha, h⟩))
    (fun k hk => .inl hk) hfs
  intro k hk
  obtain ⟨ft, hft, hkt⟩ := mem_kindsFields.mp hk
  obtain ⟨kv, hkv, rfl⟩ := List.mem_map.mp hft
  apply hI k
  refine mem_kindsFields.mpr ⟨kv, hkv, ?_⟩
  split at hkt
  · simpa [Ty.kinds] using hkt
  · exact hkt

theorem kinds_mergeGo (c : LitCfg) (e : EqEnv) : ∀ (sets : List Fields) (first : Bool) (fields r : Fields),
    mergeFieldSets.go c e first fields sets = .ok r →
    ∀ k ∈ Ty.kindsFields r, k ∈ Ty.kindsFields fields ∨ ∃ m ∈ sets, k ∈ Ty.kindsFields m := by
  intro sets
  induction sets with
  | nil =>
    intro first fields r h
    simp only [mergeFieldSets.go, pure, Except.pure] at h
    injection h with h; subst h; exact fun k hk => .inl hk
  | cons m ms ih =>
    intro first fields r h
    rw [mergeFieldSets.go] at h
    obtain ⟨f1, hf1, h⟩ := bind_ok h
    intro k hk
    rcases ih false f1 r h k hk with h' | ⟨m', hm', hk'⟩
    · rcases kinds_mergeStep c e first fields m f1 hf1 k h' with h'' | h''
      · exact .inl h''
      · exact .inr ⟨m, by simp, h''⟩
    · exact .inr ⟨m', by simp [hm'], hk'⟩

theorem kinds_mergeFieldSets (c : LitCfg) (e : EqEnv) (sets : List Fields) (r : Fields)
    (h : mergeFieldSets c e sets = .ok r) :
    ∀ k ∈ Ty.kindsFields r, ∃ m ∈ sets, k ∈ Ty.kindsFields m := by
  intro k hk
  rcases kinds_mergeGo c e sets true [] r h k hk with h' | h'
  · simp [Ty.kindsFields] at h'
  · exact h'


/-! ## the category split -/

/-- kinds occurring anywhere in a split -/
def splitHas (s : Split) (k : String) : Prop :=
  k ∈ Ty.kindsList s.strTypes ∨ (∃ m ∈ s.toMerge, k ∈ Ty.kindsFields m) ∨ k ∈ Ty.kindsList s.lists ∨
  k ∈ Ty.kindsList s.dicts ∨ k ∈ Ty.kindsList s.other

open J2M.SplitW (splitStep)

theorem kindsList_snoc (xs : List Ty) (y : Ty) (k : String) :
    k ∈ Ty.kindsList (xs ++ [y]) ↔ k ∈ Ty.kindsList xs ∨ k ∈ y.kinds := by
  rw [kindsList_append]; simp [Ty.kindsList]

/-- what one step adds for a member that is not an optional -/
theorem splitStep_plain (reg : StrRegistry) (s : Split) (x : Ty) (k : String) (hx : x.isOpt = false)
    (h : splitHas (splitStep reg s x) k) : splitHas s k ∨ k ∈ x.kinds := by
  cases x with
  | opt y => simp [Ty.isOpt] at hx
  | ser k' =>
    simp only [splitStep] at h
    split at h
    · simp only [splitHas, kindsList_snoc] at h ⊢
      rcases h with (h | h) | h | h | h | h <;> simp [h]
    · simp only [splitHas, kindsList_snoc] at h ⊢
      rcases h with h | h | h | h | h | h <;> simp [h]
  | obj fs =>
    simp only [splitStep, splitHas, List.mem_append, List.mem_singleton] at h ⊢
    rcases h with h | ⟨m, hm | hm, hk⟩ | h | h | h
    · simp [h]
    · exact .inl (.inr (.inl ⟨m, hm, hk⟩))
    · subst hm; exact .inr (by simpa [Ty.kinds] using hk)
    · simp [h]
    · simp [h]
    · simp [h]
  | list y =>
    simp only [splitStep, splitHas, kindsList_snoc] at h ⊢
    rcases h with h | h | (h | h) | h | h <;> simp [h, Ty.kinds]
  | dict y =>
    simp only [splitStep, splitHas, kindsList_snoc] at h ⊢
    rcases h with h | h | h | (h | h) | h <;> simp [h, Ty.kinds]
  | str =>
    simp only [splitStep, splitHas, kindsList_snoc] at h ⊢
    rcases h with (h | h) | h | h | h | h <;> simp [h]
  | _ =>
    simp only [splitStep, splitHas, kindsList_snoc] at h ⊢
    rcases h with h | h | h | h | h | h <;> simp [h]


theorem splitStep_has (reg : StrRegistry) (s : Split) (item : Ty) (k : String)
    (h : splitHas (splitStep reg s item) k) : splitHas s k ∨ k ∈ item.kinds := by
  by_cases hi : item.isOpt = true
  · cases item with
    | opt x =>
      have hs' : ∀ k, splitHas { s with other := s.other ++ [Ty.null] } k → splitHas s k := by
        intro k h
        simp only [splitHas, kindsList_snoc, Ty.kinds] at h ⊢
        rcases h with h | h | h | h | (h | h) <;> simp_all
      by_cases hx : x.isOpt = true
      · cases x with
        | opt y =>
          simp only [splitStep, splitHas, kindsList_snoc, Ty.kinds] at h ⊢
          rcases h with h | h | h | h | ((h | h) | h) <;> simp_all
        | _ => simp [Ty.isOpt] at hx
      · have hx' : x.isOpt = false := by simpa using hx
        have e : splitStep reg s (.opt x) = splitStep reg { s with other := s.other ++ [Ty.null] } x := by
          cases x <;> first | rfl | (simp [Ty.isOpt] at hx')
        rw [e] at h
        rcases splitStep_plain reg _ x k hx' h with h | h
        · exact .inl (hs' k h)
        · exact .inr (by simpa [Ty.kinds] using h)
    | _ => simp [Ty.isOpt] at hi
  · exact splitStep_plain reg s item k (by simpa using hi) h

theorem foldl_splitStep_has (reg : StrRegistry) (ts : List Ty) : ∀ (s : Split) (k : String),
    splitHas (ts.foldl (splitStep reg) s) k → splitHas s k ∨ k ∈ Ty.kindsList ts := by
  induction ts with
  | nil => intro s k h; exact .inl h
  | cons t ts ih =>
    intro s k h
    rw [List.foldl_cons] at h
    simp only [Ty.kindsList, List.mem_append]
    rcases ih _ k h with h | h
    · rcases splitStep_has reg s t k h with h | h
      · exact .inl h
      · exact .inr (.inl h)
    · exact .inr (.inr h)

/-- the worklist's member list carries no kind that was not in the original members (splicing the members of a
    union hidden under an `Optional` only re-arranges sub-terms; the inserted `Null` has no kinds) -/
theorem kinds_expand : ∀ (fuel : Nat) (ts : List Ty) (k : String),
    k ∈ Ty.kindsList (SplitW.expand fuel ts) → k ∈ Ty.kindsList ts
  | 0, ts, k, h => by simp [Ty.kindsList] at h
  | fuel + 1, [], k, h => by simp [Ty.kindsList] at h
  | fuel + 1, item :: rest, k, h => by
    have hplain : SplitW.hidden item = false → k ∈ Ty.kindsList (item :: rest) := by
      intro hh
      rw [SplitW.expand_succ_plain fuel rest hh] at h
      simp only [Ty.kindsList, List.mem_append] at h ⊢
      rcases h with h | h
      · exact .inl h
      · exact .inr (kinds_expand fuel rest k h)
    cases item with
    | union ms =>
      rw [SplitW.expand_succ_union] at h
      have := kinds_expand fuel (ms ++ rest) k h
      simpa [Ty.kindsList, Ty.kinds, kindsList_append] using this
    | opt y =>
      cases y with
      | union ms =>
        rw [SplitW.expand_succ_opt_union] at h
        simp only [Ty.kindsList, Ty.kinds, List.nil_append] at h
        have := kinds_expand fuel (ms ++ rest) k h
        simpa [Ty.kindsList, Ty.kinds, kindsList_append] using this
      | _ => exact hplain rfl
    | _ => exact hplain rfl

theorem splitFold_has (reg : StrRegistry) (ts : List Ty) (k : String)
    (h : splitHas (SplitW.splitFold reg ts) k) : k ∈ Ty.kindsList ts := by
  rw [SplitW.splitFold_eq_foldl] at h
  rcases foldl_splitStep_has reg ts {} k h with h | h
  · simp [splitHas, Ty.kindsList] at h
  · exact h

theorem splitMembers_has (reg : StrRegistry) (ts : List Ty) (k : String)
    (h : splitHas (splitMembers reg ts) k) : k ∈ Ty.kindsList ts := by
  rw [SplitW.splitMembers_eq] at h
  exact kinds_expand _ ts k (splitFold_has reg _ k h)


/-! ## optimize -/

theorem mapM_kinds (f : Ty → Except PyErr Ty) (hf : ∀ x y, f x = .ok y → ∀ k ∈ y.kinds, k ∈ x.kinds) :
    ∀ xs ys, xs.mapM f = .ok ys → ∀ k ∈ Ty.kindsList ys, k ∈ Ty.kindsList xs := by
  intro xs
  induction xs with
  | nil =>
    intro ys h
    simp only [List.mapM_nil, pure, Except.pure] at h
    injection h with h; subst h; exact fun k hk => hk
  | cons x xs ih =>
    intro ys h
    rw [List.mapM_cons] at h
    obtain ⟨y, hy, h⟩ := bind_ok h
    obtain ⟨ys', hys', h⟩ := bind_ok h
    simp only [pure, Except.pure] at h
    injection h with h; subst h
    intro k hk
    simp only [Ty.kindsList, List.mem_append] at hk ⊢
    rcases hk with hk | hk
    · exact .inl (hf x y hy k hk)
    · exact .inr (ih ys' hys' k hk)

theorem mapM_kindsFields (f : Ty → Except PyErr Ty) (hf : ∀ x y, f x = .ok y → ∀ k ∈ y.kinds, k ∈ x.kinds) :
    ∀ (fs fs' : Fields), fs.mapM (fun (kv : String × Ty) => do let v ← f kv.2; pure (kv.1, v)) = .ok fs' →
      ∀ k ∈ Ty.kindsFields fs', k ∈ Ty.kindsFields fs := by
  intro fs
  induction fs with
  | nil =>
    intro fs' h
    simp only [List.mapM_nil, pure, Except.pure] at h
    injection h with h; subst h; exact fun k hk => hk
  | cons x xs ih =>
    obtain ⟨n, t⟩ := x
    intro fs' h
    rw [List.mapM_cons] at h
    obtain ⟨y, hy, h⟩ := bind_ok h
    obtain ⟨ys', hys', h⟩ := bind_ok h
    obtain ⟨v, hv, hy⟩ := bind_ok hy
    simp only [pure, Except.pure] at h hy
    injection h with h; subst h
    injection hy with hy; subst hy
    intro k hk
    simp only [Ty.kindsFields, List.mem_append] at hk ⊢
    rcases hk with hk | hk
    · exact .inl (hf t v hv k hk)
    · exact .inr (ih ys' hys' k hk)

theorem kinds_after_mkUnion (c : LitCfg) (xs : List Ty) (y : Ty)
    (hy : (mkUnionMembers c xs = [] ∧ y = .unknown) ∨ mkUnionMembers c xs = [y] ∨ y = .union (mkUnionMembers c xs)) :
    ∀ k ∈ y.kinds, k ∈ Ty.kindsList xs := by
  rcases hy with ⟨_, rfl⟩ | hy
  · intro k hk; simp [Ty.kinds] at hk
  · exact kinds_collapse c xs y hy

theorem kinds_optimizeUnion_step (cfg : GenCfg) (e : EqEnv) (fuel : Nat)
    (ih : ∀ t t', optimize cfg e fuel t = .ok t' → ∀ k ∈ t'.kinds, k ∈ t.kinds)
    (members : List Ty) (t' : Ty) (h : optimizeUnion cfg e (fuel + 1) members = .ok t') :
    ∀ k ∈ t'.kinds, k ∈ Ty.kindsList members := by
  unfold optimizeUnion at h
  dsimp only at h
  have hS := splitMembers_has cfg.reg members
  generalize splitMembers cfg.reg members = S at h hS
  -- the five categories
  have hOther : ∀ k ∈ Ty.kindsList S.other, k ∈ Ty.kindsList members := fun k hk =>
    hS k (.inr (.inr (.inr (.inr hk))))
  have hStr : ∀ k ∈ Ty.kindsList S.strTypes, k ∈ Ty.kindsList members := fun k hk => hS k (.inl hk)
  have hMerge : ∀ m ∈ S.toMerge, ∀ k ∈ Ty.kindsFields m, k ∈ Ty.kindsList members := fun m hm k hk =>
    hS k (.inr (.inl ⟨m, hm, hk⟩))
  have hLists : ∀ k ∈ Ty.kindsList S.lists, k ∈ Ty.kindsList members := fun k hk =>
    hS k (.inr (.inr (.inl hk)))
  have hDicts : ∀ k ∈ Ty.kindsList S.dicts, k ∈ Ty.kindsList members := fun k hk =>
    hS k (.inr (.inr (.inr (.inl hk))))
  -- `other` after the int/float rule
  have hO1 : ∀ k ∈ Ty.kindsList (if (S.other.any Ty.isInt && S.other.any Ty.isFloat) = true
      then removeFirst Ty.isInt S.other else S.other), k ∈ Ty.kindsList members := by
    intro k hk
    split at hk
    · exact hOther k (kindsList_mono (kinds_removeFirst _ _) k hk)
    · exact hOther k hk
  obtain ⟨o2, ho2, h⟩ := bind_ok h
  have hO2 : ∀ k ∈ Ty.kindsList o2, k ∈ Ty.kindsList members := by
    split at ho2
    · simp only [pure, Except.pure] at ho2
      injection ho2 with ho2; subst ho2; exact hO1
    · obtain ⟨m, hm, ho2⟩ := bind_ok ho2
      simp only [pure, Except.pure] at ho2
      injection ho2 with ho2; subst ho2
      intro k hk
      rcases (kindsList_snoc _ _ k).mp hk with hk | hk
      · exact hO1 k hk
      · obtain ⟨m', hm', hk'⟩ := kinds_mergeFieldSets cfg.lit e S.toMerge m hm k (by simpa [Ty.kinds] using hk)
        exact hMerge m' hm' k hk'
  -- `other` after the list / dict members
  have hO4 : ∀ k ∈ Ty.kindsList (if S.dicts.isEmpty = true then
        if S.lists.isEmpty = true then o2 else o2 ++ [(mkUnion cfg.lit S.lists).list]
      else (if S.lists.isEmpty = true then o2 else o2 ++ [(mkUnion cfg.lit S.lists).list]) ++
        [(mkUnion cfg.lit S.dicts).dict]), k ∈ Ty.kindsList members := by
    have hL : ∀ k ∈ Ty.kindsList (if S.lists.isEmpty = true then o2 else o2 ++ [(mkUnion cfg.lit S.lists).list]),
        k ∈ Ty.kindsList members := by
      intro k hk
      split at hk
      · exact hO2 k hk
      · rcases (kindsList_snoc _ _ k).mp hk with hk | hk
        · exact hO2 k hk
        · exact hLists k (kinds_mkUnionMembers cfg.lit S.lists k (by simpa [Ty.kinds, mkUnion] using hk))
    intro k hk
    split at hk
    · exact hL k hk
    · rcases (kindsList_snoc _ _ k).mp hk with hk | hk
      · exact hL k hk
      · exact hDicts k (kinds_mkUnionMembers cfg.lit S.dicts k (by simpa [Ty.kinds, mkUnion] using hk))
  obtain ⟨o5, ho5, h⟩ := bind_ok h
  have hO5 : ∀ k ∈ Ty.kindsList o5, k ∈ Ty.kindsList members := by
    split at ho5
    · simp only [pure, Except.pure] at ho5
      injection ho5 with ho5; subst ho5
      intro k hk
      rcases (kindsList_snoc _ _ k).mp hk with hk | hk
      · exact hO4 k hk
      · simp [Ty.kinds] at hk
    · split at ho5
      · simp only [pure, Except.pure] at ho5
        injection ho5 with ho5; subst ho5; exact hO4
      · obtain ⟨r, hr, ho5⟩ := bind_ok ho5
        split at ho5
        · rename_i k'
          simp only [pure, Except.pure] at ho5
          injection ho5 with ho5; subst ho5
          intro k hk
          rcases (kindsList_snoc _ _ k).mp hk with hk | hk
          · exact hO4 k hk
          · have hk1 : k = k' := by simpa [Ty.kinds] using hk
            subst hk1
            have hmem := (resolve_ok hr ▸ (List.mem_singleton_self k) : k ∈ survivors cfg.reg _)
            have hmem' := mem_dedupStr.mp (mem_survivors.mp hmem).1
            obtain ⟨t, ht, htk⟩ := List.mem_filterMap.mp hmem'
            apply hStr
            refine mem_kindsList.mpr ⟨t, ht, ?_⟩
            split at htk
            · injection htk with htk; subst htk; simp [Ty.kinds]
            · cases htk
        · cases ho5
        · simp only [pure, Except.pure] at ho5
          injection ho5 with ho5; subst ho5
          intro k hk
          rcases (kindsList_snoc _ _ k).mp hk with hk | hk
          · exact hO4 k hk
          · simp [Ty.kinds] at hk
  obtain ⟨types, htypes, h⟩ := bind_ok h
  have hT : ∀ k ∈ Ty.kindsList types, k ∈ Ty.kindsList members := fun k hk =>
    hO5 k (mapM_kinds _ ih o5 types htypes k hk)
  split at h
  · cases h
  · simp only [pure, Except.pure] at h
    injection h with h; subst h
    intro k hk; exact hT k (by simp [Ty.kindsList, hk])
  · simp only [pure, Except.pure] at h
    injection h with h; subst h
    have hT2 : ∀ t ∈ (if types.any Ty.isUnknown = true then removeFirst Ty.isUnknown types else types),
        t ∈ types := by
      intro t ht
      split at ht
      · exact kinds_removeFirst _ _ t ht
      · exact ht
    generalize (if types.any Ty.isUnknown = true then removeFirst Ty.isUnknown types else types) = T2 at hT2 ⊢
    have hT3 : ∀ k ∈ Ty.kindsList (List.filter (fun t => !t.isNull) T2), k ∈ Ty.kindsList members := by
      intro k hk
      apply hT
      exact kindsList_mono (fun t ht => hT2 t (List.mem_filter.mp ht).1) k hk
    intro k hk
    split at hk
    · simp only [Ty.kinds] at hk
      split at hk
      · simp [Ty.kinds] at hk
      · rename_i x hx; exact hT3 k (kinds_collapse _ _ x (.inl hx) k hk)
      · exact hT3 k (kinds_collapse _ _ _ (.inr rfl) k hk)
    · split at hk
      · simp [Ty.kinds] at hk
      · rename_i x hx; exact hT3 k (kinds_collapse _ _ x (.inl hx) k hk)
      · exact hT3 k (kinds_collapse _ _ _ (.inr rfl) k hk)


theorem kinds_optimize_step (cfg : GenCfg) (e : EqEnv) (fuel : Nat)
    (ih1 : ∀ t t', optimize cfg e fuel t = .ok t' → ∀ k ∈ t'.kinds, k ∈ t.kinds)
    (ih2 : ∀ ms t', optimizeUnion cfg e fuel ms = .ok t' → ∀ k ∈ t'.kinds, k ∈ Ty.kindsList ms)
    (t t' : Ty) (h : optimize cfg e (fuel + 1) t = .ok t') : ∀ k ∈ t'.kinds, k ∈ t.kinds := by
  unfold optimize at h
  split at h
  · -- obj
    obtain ⟨fs', hfs', h⟩ := bind_ok h
    simp only [pure, Except.pure] at h
    injection h with h; subst h
    intro k hk
    simp only [Ty.kinds] at hk ⊢
    exact mapM_kindsFields _ ih1 _ fs' hfs' k hk
  · -- union
    intro k hk
    simpa [Ty.kinds] using ih2 _ t' h k hk
  · -- opt
    obtain ⟨y, hy, h⟩ := bind_ok h
    have hyk := ih1 _ y hy
    split at h
    · simp only [pure, Except.pure] at h
      injection h with h; subst h
      intro k hk
      simp only [Ty.kinds] at hk ⊢
      exact hyk k (by simpa [Ty.kinds] using hk)
    · simp only [pure, Except.pure] at h
      injection h with h; subst h
      intro k hk
      simp only [Ty.kinds] at hk ⊢
      exact hyk k hk
  · -- list
    obtain ⟨y, hy, h⟩ := bind_ok h
    simp only [pure, Except.pure] at h
    injection h with h; subst h
    intro k hk
    simp only [Ty.kinds] at hk ⊢
    exact ih1 _ y hy k hk
  · -- dict
    obtain ⟨y, hy, h⟩ := bind_ok h
    simp only [pure, Except.pure] at h
    injection h with h; subst h
    intro k hk
    simp only [Ty.kinds] at hk ⊢
    exact ih1 _ y hy k hk
  · -- tuple
    obtain ⟨ys, hys, h⟩ := bind_ok h
    simp only [pure, Except.pure] at h
    injection h with h; subst h
    intro k hk
    simp only [Ty.kinds] at hk ⊢
    exact mapM_kinds _ ih1 _ ys hys k hk
  · -- lit
    split at h
    · simp only [pure, Except.pure] at h
      injection h with h; subst h
      intro k hk; simp [Ty.kinds] at hk
    · simp only [pure, Except.pure] at h
      injection h with h; subst h
      exact fun k hk => hk
  · simp only [pure, Except.pure] at h
    injection h with h; subst h
    exact fun k hk => hk

theorem kinds_optimize_both (cfg : GenCfg) (e : EqEnv) : ∀ fuel : Nat,
    (∀ t t', optimize cfg e fuel t = .ok t' → ∀ k ∈ t'.kinds, k ∈ t.kinds) ∧
    (∀ ms t', optimizeUnion cfg e fuel ms = .ok t' → ∀ k ∈ t'.kinds, k ∈ Ty.kindsList ms) := by
  intro fuel
  induction fuel with
  | zero =>
    constructor
    · intro t t' h; simp [optimize] at h
    · intro ms t' h; simp [optimizeUnion] at h
  | succ n ih =>
    exact ⟨kinds_optimize_step cfg e n ih.1 ih.2, kinds_optimizeUnion_step cfg e n ih.1⟩

/-- `optimize_type` never introduces a pseudo-type kind that was not in its input -/
theorem kinds_optimize (cfg : GenCfg) (e : EqEnv) (fuel : Nat) (t t' : Ty)
    (h : optimize cfg e fuel t = .ok t') : ∀ k ∈ t'.kinds, k ∈ t.kinds :=
  (kinds_optimize_both cfg e fuel).1 t t' h

theorem mapM_convert_kinds (cfg : GenCfg) (o : GenOracles) : ∀ (samples : List Json) (sets : List Fields),
    samples.mapM (convert cfg o) = .ok sets → ∀ m ∈ sets, ∀ k ∈ Ty.kindsFields m, k ∈ cfg.reg.types := by
  intro samples
  induction samples with
  | nil =>
    intro sets h
    simp only [List.mapM_nil, pure, Except.pure] at h
    injection h with h; subst h; intro m hm; cases hm
  | cons x xs ih =>
    intro sets h
    rw [List.mapM_cons] at h
    obtain ⟨y, hy, h⟩ := bind_ok h
    obtain ⟨ys, hys, h⟩ := bind_ok h
    simp only [pure, Except.pure] at h
    injection h with h; subst h
    intro m hm
    rcases List.mem_cons.mp hm with rfl | hm
    · cases x with
      | obj kvs => exact kinds_convertFields cfg o kvs m hy
      | _ => cases hy
    · exact ih ys hys m hm

/-- the whole generator stage: every kind in the generated model tree is a registered one -/
theorem kinds_generate (cfg : GenCfg) (o : GenOracles) (samples : List Json) (t : Ty)
    (h : generate cfg o samples = .ok t) : ∀ k ∈ t.kinds, k ∈ cfg.reg.types := by
  unfold generate at h
  obtain ⟨sets, hsets, h⟩ := bind_ok h
  obtain ⟨fields, hfields, h⟩ := bind_ok h
  intro k hk
  have h1 := kinds_optimize cfg _ _ _ t h k hk
  obtain ⟨m, hm, hkm⟩ := kinds_mergeFieldSets cfg.lit _ sets fields hfields k (by simpa [Ty.kinds] using h1)
  exact mapM_convert_kinds cfg o samples sets hsets m hm k hkm

end J2M.Strings
