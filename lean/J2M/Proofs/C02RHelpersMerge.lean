/-
  C02 at the registry stage, part 4: `_merge` + `optimize_type`, the fold over the groups and the final pass of
  `merge_models` keep every registered model (laxly) witnessed; the merged model is witnessed by the UNION of
  the objects of its members (`ObjMap`: the objects attributed to `j` go to the model `j` is renamed to).
-/
import J2M.Proofs.C02RHelpersOpt
namespace J2M.C02RH
open J2M J2M.C02T J2M.Reg

variable {acc : Accepts}

theorem SetL.mono {Obj : ObjRel} {fs : Fields} {vs vs' : List Json} (h : SetL Obj acc vs fs)
    (hs : ∀ v ∈ vs, v ∈ vs') : SetL Obj acc vs' fs :=
  ⟨h.1.mono hs (fun _ hk => hk),
   fun kv hkv => LWit.mono' (LacksKey.mono hs) id (fieldVals_mono hs) (h.2 kv hkv)⟩

/-- one object list for a whole group: the concatenation of the members' witness lists -/
theorem members_witness {Obj : ObjRel} {g : Graph} (h : TightL Obj acc g) :
    ∀ (ms : List Model), (∀ m ∈ ms, m ∈ g.models) →
      ∃ W : List Json, (∀ m ∈ ms, SetL Obj acc W m.fields) ∧ (∀ o ∈ W, ∃ m ∈ ms, Obj m.idx o)
  | [], _ => ⟨[], by simp, by simp⟩
  | m :: ms, hsub => by
    obtain ⟨ws, hw, ho⟩ := h m (hsub m (by simp))
    obtain ⟨W, hW, hO⟩ := members_witness h ms (fun x hx => hsub x (List.mem_cons_of_mem _ hx))
    refine ⟨ws ++ W, ?_, ?_⟩
    · intro x hx
      rcases List.mem_cons.1 hx with rfl | hx
      · exact hw.setL (fun v hv => List.mem_append_left _ hv)
      · exact (hW x hx).mono (fun v hv => List.mem_append_right _ hv)
    · intro o ho'
      rcases List.mem_append.1 ho' with h1 | h1
      · exact ⟨m, by simp, ho o h1⟩
      · obtain ⟨x, hx, hxo⟩ := hO o h1
        exact ⟨x, List.mem_cons_of_mem _ hx, hxo⟩

/-- **one group**: `_merge`, then the `optimize_type(model_meta)` call that follows it in `merge_models`.
    Every model of the new registry is (laxly) witnessed: a non-member by its own objects (its pointers to
    members are redirected), the merged model by the union of the members' objects. -/
theorem mergeStep_tight {Obj : ObjRel} {cfg : GenCfg} {so : StrOracle} {g g1 g2 : Graph}
    {members : List String} {idx : String}
    (wf : WF g) (ht : TightL Obj acc g) (hmem : memberModels g members ≠ [])
    (h1 : mergeGroup cfg so g members = .ok (g1, idx)) (h2 : optimizeModel cfg so g1 idx = .ok g2) :
    TightL (ObjMap (σOf members idx) Obj) acc g2 := by
  obtain ⟨F, nm, ng, hF, hidx, rfl⟩ := mergeGroup_eq h1
  subst hidx
  obtain ⟨W, hW, hO⟩ := members_witness ht (memberModels g members) (fun m hm => (memberModels_sub m hm).1)
  have hFw : LModel Obj acc F W := by
    refine mergeFieldSets_lwit hF (by simpa using hmem) ?_
    intro fs hfs
    obtain ⟨m, hm, rfl⟩ := List.mem_map.1 hfs
    exact hW m hm
  have hF'w : LModel (ObjMap (σOf members (indexOf g.counter)) Obj) acc
      (substFields (σOf members (indexOf g.counter)) F) W := hFw.subst (fun j o h => ObjMap.intro h)
  have hlook1 := look_merged_idx (members := members) (F := F) (nm := nm) (ng := ng) wf.bound
  rcases optimizeModel_eq h2 with ⟨hnone, _⟩ | ⟨m, fs', hm, ho, _, rfl⟩
  · unfold Graph.look at hlook1; rw [hnone] at hlook1; cases hlook1
  have hmf : m.fields = substFields (σOf members (indexOf g.counter)) F := by
    unfold Graph.look at hlook1; rw [hm] at hlook1; simpa using hlook1
  rw [hmf] at ho
  obtain ⟨F', hF', _, hF'w'⟩ := optimize_obj_lmodel hF'w ho
  have hfs' : fs' = F' := by injection hF'
  subst hfs'
  intro m' hm'
  rw [setFields_models] at hm'
  rcases mem_setF hm' with ⟨hm', hne⟩ | ⟨m0, _, hm0i, rfl⟩
  · simp only [mergedGraph, List.mem_append, List.mem_map, List.mem_filter, List.mem_singleton] at hm'
    rcases hm' with ⟨m0, ⟨hm0, hnm⟩, rfl⟩ | rfl
    · obtain ⟨ws, hw, hobj⟩ := ht m0 hm0
      refine ⟨ws, hw.subst (fun j o h => ObjMap.intro h), fun o hoo => ?_⟩
      have hσ : σOf members (indexOf g.counter) m0.idx = m0.idx := by
        unfold σOf
        have : members.contains m0.idx = false := by simpa using hnm
        rw [this]; rfl
      show ObjMap (σOf members (indexOf g.counter)) Obj m0.idx o
      rw [← hσ]
      exact ObjMap.intro (hobj o hoo)
    · exact absurd rfl hne
  · refine ⟨W, hF'w', fun o hoo => ?_⟩
    obtain ⟨mm, hmm, hobj⟩ := hO o hoo
    have hσ : σOf members (indexOf g.counter) mm.idx = indexOf g.counter := by
      unfold σOf
      rw [if_pos (by simpa using (memberModels_sub mm hmm).2)]
    exact ⟨mm.idx, hσ.trans hm0i.symm, hobj⟩

/-- `optimize_type(model_meta)` on one registered model keeps the registry (laxly) tight -/
theorem optimizeModel_tight {Obj : ObjRel} {cfg : GenCfg} {so : StrOracle} {g g' : Graph} {i : String}
    (wf : WF g) (ht : TightL Obj acc g) (h : optimizeModel cfg so g i = .ok g') : TightL Obj acc g' := by
  rcases optimizeModel_eq h with ⟨_, rfl⟩ | ⟨m, fs', hm, ho, _, rfl⟩
  · exact ht
  intro m' hm'
  rw [setFields_models] at hm'
  rcases mem_setF hm' with ⟨hm', _⟩ | ⟨m0, hm0, hm0i, rfl⟩
  · exact ht m' hm'
  · have hm0m : m0 = m := by
      have := find?_of_mem wf.nodup hm0
      rw [hm0i, hm] at this
      injection this with this
      exact this.symm
    subst hm0m
    obtain ⟨ws, hw, hobj⟩ := ht m0 hm0
    obtain ⟨F', hF', _, hF'w⟩ := optimize_obj_lmodel hw ho
    have hfs' : fs' = F' := by injection hF'
    subst hfs'
    exact ⟨ws, hF'w, hobj⟩

/-- the final `for model_meta in self.models: generator.optimize_type(model_meta)` pass -/
theorem finalPass_tight {Obj : ObjRel} {cfg : GenCfg} {so : StrOracle} :
    ∀ (is : List String) (g g' : Graph), WF g → TightL Obj acc g →
      is.foldlM (fun g i => optimizeModel cfg so g i) g = .ok g' → TightL Obj acc g'
  | [], g, g', _, ht, h => by
    simp only [List.foldlM_nil, pure, Except.pure, Except.ok.injEq] at h
    subst h; exact ht
  | i :: is, g, g', wf, ht, h => by
    rw [List.foldlM_cons] at h
    simp only [bind, Except.bind] at h
    split at h
    · simp at h
    · rename_i g1 hg1
      exact finalPass_tight is g1 g' (optimizeModel_WF wf hg1).1 (optimizeModel_tight wf ht hg1) h

/-- a registered first member makes the member-model list non-empty -/
theorem memberModels_ne_nil {g : Graph} {M : List String} (hM : M ≠ []) (hreg : ∀ i ∈ M, i ∈ idxs g) :
    memberModels g M ≠ [] := by
  obtain ⟨i, rest, rfl⟩ := List.exists_cons_of_ne_nil hM
  have := find?_isSome_iff.2 (hreg i (by simp))
  unfold memberModels
  rw [List.filterMap_cons]
  cases hf : g.find? i with
  | none => rw [hf] at this; cases this
  | some m => simp

/-- the fold over the groups -/
theorem groupsFold_tight {Obj0 : ObjRel} {cfg : GenCfg} {so : StrOracle} {g : Graph} (wfg : WF g) :
    ∀ (Ms done : List (List String)) (st st' : Graph × List (String × List String)),
      FoldInv g done st → (∀ M ∈ Ms, ∀ i ∈ M, i ∈ idxs g) → (∀ M ∈ Ms, M ≠ []) →
      (∀ M ∈ Ms, ∀ D ∈ done, ∀ i ∈ M, D.contains i = false) →
      (Ms.Pairwise (fun A B => ∀ i ∈ B, A.contains i = false)) →
      TightL (ObjMap (σFold st.2) Obj0) acc st.1 →
      Ms.foldlM (groupStepM cfg so) st = .ok st' →
      TightL (ObjMap (σFold st'.2) Obj0) acc st'.1 ∧ WF st'.1
  | [], done, st, st', inv, _, _, _, _, ht, h => by
    simp only [List.foldlM_nil, pure, Except.pure, Except.ok.injEq] at h
    subst h; exact ⟨ht, inv.wf⟩
  | M :: Ms, done, st, st', inv, hreg, hne, hdisj, hpw, ht, h => by
    rw [List.foldlM_cons] at h
    simp only [bind, Except.bind] at h
    split at h
    · simp at h
    · rename_i st1 hst1
      have inv1 := inv.step wfg (hreg M (by simp)) (hdisj M (by simp)) hst1
      obtain ⟨g1, idx, h1, h2, hrepl⟩ := groupStepM_ok hst1
      -- the members are still registered
      have hMreg : ∀ i ∈ M, i ∈ idxs st.1 := by
        intro i hi
        rw [inv.idxs]
        apply List.mem_append_left
        rw [List.mem_filter]
        refine ⟨hreg M (by simp) i hi, ?_⟩
        simp only [Bool.not_eq_true', List.any_eq_false]
        intro D hD
        simpa using hdisj M (by simp) D hD i hi
      have ht1 := mergeStep_tight inv.wf ht (memberModels_ne_nil (hne M (by simp)) hMreg) h1 h2
      have ht1' : TightL (ObjMap (σFold st1.2) Obj0) acc st1.1 := by
        refine ht1.mono ?_
        intro j o hjo
        rw [hrepl, σFold_append]
        exact ObjMap.comp hjo
      rw [List.pairwise_cons] at hpw
      exact groupsFold_tight wfg Ms (done ++ [M]) st1 st' inv1
        (fun M' hM' => hreg M' (List.mem_cons_of_mem _ hM'))
        (fun M' hM' => hne M' (List.mem_cons_of_mem _ hM'))
        (by
          intro M' hM' D hD i hi
          rcases List.mem_append.1 hD with hD | hD
          · exact hdisj M' (List.mem_cons_of_mem _ hM') D hD i hi
          · simp only [List.mem_singleton] at hD
            subst hD
            exact hpw.1 M' hM' i hi)
        hpw.2 ht1' h

/-- **`merge_models` keeps the registry (laxly) tight**: with the attribution moved along the replacement map
    `σFold repl` (a merged model gets the objects of all its members, any other model keeps its own) -/
theorem mergeModels_tight_core {Obj : ObjRel} {cfg : GenCfg} {so : StrOracle} {cmps : List Cmp} {g g' : Graph}
    {repl : List (String × List String)} (wf : WF g) (ht : TightL Obj acc g)
    (h : mergeModels cfg so cmps g = .ok (g', repl)) :
    TightL (ObjMap (σFold repl) Obj) acc g' := by
  obtain ⟨tbl, groups, gm, _, hgroups, hfold, hfinal⟩ := mergeModels_eq h
  obtain ⟨hreg, hpw⟩ := groups_members wf (simOfTbl_symm tbl) hgroups
  obtain ⟨_, hok, _, _⟩ := C05.closure_components (simOfTbl_symm tbl) hgroups
  have hne : ∀ M ∈ groups.map (memsOf (idxs g)), M ≠ [] := by
    intro M hM
    obtain ⟨grp, hgrp, rfl⟩ := List.mem_map.1 hM
    have := (hok grp hgrp).1
    intro e
    have hl : (memsOf (idxs g) grp).length = grp.length := by simp [memsOf]
    rw [e] at hl
    simp at hl
    omega
  rw [groupStep_eq, ← List.foldlM_map] at hfold
  have ht0 : TightL (ObjMap (σFold ([] : List (String × List String))) Obj) acc g :=
    ht.mono (fun j o hjo => ⟨j, rfl, hjo⟩)
  obtain ⟨htm, wfm⟩ := groupsFold_tight (acc := acc) (Obj0 := Obj) wf (groups.map (memsOf (idxs g))) []
    (g, []) (gm, repl) (FoldInv.init wf) hreg hne (by simp) hpw ht0 hfold
  exact finalPass_tight _ gm g' wfm htm hfinal


/-! ### running one step (for concrete instances) -/

theorem optimizeModel_of {cfg : GenCfg} {so : StrOracle} {g : Graph} {i : String} {m : Model} {fs' : Fields}
    (hf : g.find? i = some m)
    (ho : optimize cfg (g.eqEnv so) (Ty.fuelFor (.obj m.fields)) (.obj m.fields) = .ok (.obj fs')) :
    optimizeModel cfg so g i = .ok (g.setFields i fs') := by
  unfold optimizeModel
  simp only [hf, bind, Except.bind, ho, pure, Except.pure]

theorem mergeGroup_of {cfg : GenCfg} {so : StrOracle} {g : Graph} {members : List String} {F : Fields}
    (hF : mergeFieldSets cfg.lit (g.eqEnv so) ((memberModels g members).map (·.fields)) = .ok F) :
    ∃ nm ng, mergeGroup cfg so g members =
      .ok (mergedGraph g members (indexOf g.counter) F nm ng, indexOf g.counter) := by
  have : ∃ g1, mergeGroup cfg so g members = .ok (g1, indexOf g.counter) := by
    unfold mergeGroup
    unfold memberModels at hF
    simp only [bind, Except.bind, hF, pure, Except.pure]
    exact ⟨_, rfl⟩
  obtain ⟨g1, hm⟩ := this
  obtain ⟨F2, nm, ng, hF2, _, hg1⟩ := mergeGroup_eq hm
  rw [hF] at hF2
  injection hF2 with hF2
  subst hF2
  exact ⟨nm, ng, by rw [hm, hg1]⟩

/-- `_merge` + `optimize_type(model_meta)` succeed as soon as `merge_field_sets` and `optimize_type` of the
    merged dict do; the merged model of the result carries the optimised dict -/
theorem mergeStep_exists {cfg : GenCfg} {so : StrOracle} {g : Graph} {members : List String} {F F' : Fields}
    (wf : WF g)
    (hF : mergeFieldSets cfg.lit (g.eqEnv so) ((memberModels g members).map (·.fields)) = .ok F)
    (hO : ∀ e, optimize cfg e (Ty.fuelFor (.obj (substFields (σOf members (indexOf g.counter)) F)))
      (.obj (substFields (σOf members (indexOf g.counter)) F)) = .ok (.obj F')) :
    ∃ g1 g2 m, mergeGroup cfg so g members = .ok (g1, indexOf g.counter) ∧
      optimizeModel cfg so g1 (indexOf g.counter) = .ok g2 ∧
      m ∈ g2.models ∧ m.idx = indexOf g.counter ∧ m.fields = F' := by
  obtain ⟨nm, ng, hm⟩ := mergeGroup_of hF
  have hlook := look_merged_idx (members := members) (F := F) (nm := nm) (ng := ng) wf.bound
  cases hfind : (mergedGraph g members (indexOf g.counter) F nm ng).find? (indexOf g.counter) with
  | none => unfold Graph.look at hlook; rw [hfind] at hlook; cases hlook
  | some m =>
    have hmf : m.fields = substFields (σOf members (indexOf g.counter)) F := by
      unfold Graph.look at hlook; rw [hfind] at hlook; simpa using hlook
    have ho := optimizeModel_of (cfg := cfg) (so := so) (fs' := F') hfind (by rw [hmf]; exact hO _)
    obtain ⟨hm1, hm2⟩ := find?_eq_some hfind
    refine ⟨_, _, { m with fields := F' }, hm, ho, ?_, hm2, rfl⟩
    rw [setFields_models]
    unfold setF
    exact List.mem_map.2 ⟨m, hm1, by simp [hm2]⟩

end J2M.C02RH
