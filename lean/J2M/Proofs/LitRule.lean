/-
  Helper lemmas for C10R (the literal rule at one position, end to end), part 1:
  detection of one string, the observed plain strings / kinds of a sample list, `sortUniq`, the overflow
  rule on growing sets, and the member list of `DUnion(...)` on pseudo-types, literals and `str`.
-/
import J2M.Generator
import J2M.Proofs.StringsUnion
import J2M.Proofs.StringsReg
namespace J2M.LitRule

open J2M J2M.Strings

/-! ## detection of one string -/

/-- the `accepts` oracle answers for every registered kind on `s` -/
def TotalOn (reg : StrRegistry) (acc : Accepts) (s : String) : Prop :=
  ∀ k ∈ reg.types, ∃ b, acc k s = some b

/-- the first registered kind whose parser accepts `s` -/
def firstKind (reg : StrRegistry) (acc : Accepts) (s : String) : Option String :=
  reg.types.find? (fun k => acc k s == some true)

/-- no registered parser accepts `s` -/
def isPlain (reg : StrRegistry) (acc : Accepts) (s : String) : Bool :=
  reg.types.all (fun k => acc k s == some false)

theorem detectGo_total (acc : Accepts) (s : String) :
    ∀ ks : List String, (∀ k ∈ ks, ∃ b, acc k s = some b) →
      detectStr.go acc s ks = .ok (ks.find? (fun k => acc k s == some true)) := by
  intro ks
  induction ks with
  | nil => intro _; simp [detectStr.go]
  | cons x xs ih =>
    intro h
    obtain ⟨b, hb⟩ := h x (by simp)
    have ih' := ih (fun k hk => h k (by simp [hk]))
    cases b <;> simp [detectStr.go, hb, ih', List.find?]

theorem detectStr_total {reg : StrRegistry} {acc : Accepts} {s : String} (h : TotalOn reg acc s) :
    detectStr reg acc s = .ok (firstKind reg acc s) :=
  detectGo_total acc s reg.types h

theorem firstKind_mem {reg : StrRegistry} {acc : Accepts} {s k : String} (h : firstKind reg acc s = some k) :
    k ∈ reg.types ∧ acc k s = some true := by
  unfold firstKind at h
  exact ⟨List.mem_of_find?_eq_some h, by simpa using List.find?_some h⟩

theorem isPlain_iff {reg : StrRegistry} {acc : Accepts} {s : String} :
    isPlain reg acc s = true ↔ ∀ k ∈ reg.types, acc k s = some false := by
  simp [isPlain]

theorem firstKind_none_iff {reg : StrRegistry} {acc : Accepts} {s : String} (h : TotalOn reg acc s) :
    firstKind reg acc s = none ↔ isPlain reg acc s = true := by
  rw [isPlain_iff]
  unfold firstKind
  rw [List.find?_eq_none]
  constructor
  · intro hn k hk
    obtain ⟨b, hb⟩ := h k hk
    have := hn k hk
    cases b
    · exact hb
    · simp [hb] at this
  · intro hn k hk
    simp [hn k hk]

theorem isPlain_of_none {reg : StrRegistry} {acc : Accepts} {s : String} (h : TotalOn reg acc s)
    (hn : firstKind reg acc s = none) : isPlain reg acc s = true := (firstKind_none_iff h).1 hn

theorem isPlain_of_some {reg : StrRegistry} {acc : Accepts} {s k : String} (h : TotalOn reg acc s)
    (hk : firstKind reg acc s = some k) : isPlain reg acc s = false := by
  cases hp : isPlain reg acc s with
  | false => rfl
  | true => rw [(firstKind_none_iff h).2 hp] at hk; cases hk

/-! ## the observed strings of a sample list -/

/-- `P`: the strings no registered parser accepts, in sample order, with repetitions -/
def plainStrs (reg : StrRegistry) (acc : Accepts) (l : List String) : List String :=
  l.filter (isPlain reg acc)

/-- `Q`: the others -/
def pseudoStrs (reg : StrRegistry) (acc : Accepts) (l : List String) : List String :=
  l.filter (fun s => !isPlain reg acc s)

/-- the kind each member of `Q` is detected as (its first accepting kind), in sample order -/
def kindsOf (reg : StrRegistry) (acc : Accepts) (l : List String) : List String :=
  (pseudoStrs reg acc l).filterMap (firstKind reg acc)

theorem plainStrs_snoc (reg : StrRegistry) (acc : Accepts) (l : List String) (s : String) :
    plainStrs reg acc (l ++ [s]) = plainStrs reg acc l ++ (if isPlain reg acc s then [s] else []) := by
  simp [plainStrs, List.filter_append, List.filter_cons]

theorem kindsOf_snoc_plain (reg : StrRegistry) (acc : Accepts) (l : List String) (s : String)
    (h : isPlain reg acc s = true) : kindsOf reg acc (l ++ [s]) = kindsOf reg acc l := by
  simp [kindsOf, pseudoStrs, List.filter_append, h]

theorem kindsOf_snoc_kind (reg : StrRegistry) (acc : Accepts) (l : List String) (s k : String)
    (h : isPlain reg acc s = false) (hk : firstKind reg acc s = some k) :
    kindsOf reg acc (l ++ [s]) = kindsOf reg acc l ++ [k] := by
  simp [kindsOf, pseudoStrs, List.filter_append, h, List.filterMap_append, hk]

/-! ## `sortUniq` -/

theorem sortUniq_eq_addVals (xs : List String) : sortUniq xs = addVals [] xs := rfl

theorem mem_sortUniq {xs : List String} {s : String} : s ∈ sortUniq xs ↔ s ∈ xs := by
  rw [sortUniq_eq_addVals, mem_addVals]; simp

theorem sorted_sortUniq (xs : List String) : (sortUniq xs).Pairwise (· < ·) := by
  rw [sortUniq_eq_addVals]; exact sorted_addVals (by simp)

theorem nodup_sortUniq (xs : List String) : (sortUniq xs).Nodup := nodup_of_sorted (sorted_sortUniq xs)

theorem sortUniq_snoc (xs : List String) (s : String) : sortUniq (xs ++ [s]) = insertUniq s (sortUniq xs) := by
  simp [sortUniq, List.foldl_append]

theorem sortUniq_singleton (s : String) : sortUniq [s] = [s] := by simp [sortUniq, insertUniq]

theorem sortUniq_eq_nil {xs : List String} : sortUniq xs = [] ↔ xs = [] := by
  constructor
  · intro h
    cases xs with
    | nil => rfl
    | cons x xs =>
      have : x ∈ sortUniq (x :: xs) := mem_sortUniq.2 (by simp)
      rw [h] at this; cases this
  · rintro rfl; rfl

/-- a strictly increasing list is its own `sortUniq` -/
theorem sortUniq_of_sorted {xs : List String} (h : xs.Pairwise (· < ·)) : sortUniq xs = xs :=
  sorted_ext (sorted_sortUniq xs) h (fun _ => mem_sortUniq)

theorem sortUniq_idem (xs : List String) : sortUniq (sortUniq xs) = sortUniq xs :=
  sortUniq_of_sorted (sorted_sortUniq xs)

/-- `sortUniq` depends on the set of members only -/
theorem sortUniq_congr {xs ys : List String} (h : ∀ s, s ∈ xs ↔ s ∈ ys) : sortUniq xs = sortUniq ys :=
  sorted_ext (sorted_sortUniq xs) (sorted_sortUniq ys) (fun s => by rw [mem_sortUniq, mem_sortUniq, h])

theorem length_insertUniq_ge (x : String) (l : List String) : l.length ≤ (insertUniq x l).length := by
  induction l with
  | nil => simp [insertUniq]
  | cons y ys ih =>
    unfold insertUniq
    split
    · simp
    · split
      · simp
      · simp only [List.length_cons]; omega

/-! ## the overflow rule on growing sets -/

instance (c : LitCfg) (vs : List String) : Decidable (Overflows c vs) := by
  unfold Overflows; infer_instance

theorem overflows_mono {c : LitCfg} {V V' : List String} (h : Overflows c V)
    (hsub : ∀ s ∈ V, s ∈ V') (hlen : V.length ≤ V'.length) : Overflows c V' := by
  rcases h with h | ⟨s, hs, hl⟩
  · exact .inl (by omega)
  · exact .inr ⟨s, hsub s hs, hl⟩

theorem overflows_snoc {c : LitCfg} {P : List String} (s : String) (h : Overflows c (sortUniq P)) :
    Overflows c (sortUniq (P ++ [s])) := by
  rw [sortUniq_snoc]
  exact overflows_mono h (fun x hx => mem_insertUniq.2 (.inr hx)) (length_insertUniq_ge _ _)

/-- a value that overflows on its own makes every set containing it overflow -/
theorem overflows_of_single {c : LitCfg} {s : String} {V : List String} (h : Overflows c [s]) (hs : s ∈ V) :
    Overflows c V := by
  rcases h with h | ⟨x, hx, hl⟩
  · left
    have : 0 < V.length := List.length_pos_of_mem hs
    simp at h; omega
  · have : x = s := by simpa using hx
    subst this
    exact .inr ⟨x, hs, hl⟩

theorem not_overflows_single_of_mem {c : LitCfg} {s : String} {V : List String} (h : ¬ Overflows c V)
    (hs : s ∈ V) : ¬ Overflows c [s] := fun h' => h (overflows_of_single h' hs)

/-- the documented limits, spelled out -/
theorem not_overflows_iff {c : LitCfg} {V : List String} :
    ¬ Overflows c V ↔ V.length ≤ c.maxLiterals ∧ ∀ s ∈ V, s.length < c.maxStrLen := by
  unfold Overflows
  constructor
  · intro h
    refine ⟨by omega, fun s hs => ?_⟩
    have : ¬ s.length ≥ c.maxStrLen := fun hl => h (.inr ⟨s, hs, hl⟩)
    omega
  · rintro ⟨h1, h2⟩ (h | ⟨s, hs, hl⟩)
    · omega
    · have := h2 s hs; omega

/-! ## hash strings of pseudo-types -/

/-- `get_hash_string` of a pseudo-type class -/
def hs (k : String) : String := hashStr (.ser k)

theorem hs_inj {a b : String} (h : hs a = hs b) : a = b := by
  simp only [hs, hashStr] at h
  exact (String.append_right_inj _).1 ((String.append_left_inj _).1 h)

theorem hs_ne_str {k : String} (h : k ≠ "str") : hs k ≠ hashStr .str := by
  intro e
  have e' : hs k = hs "str" := by rw [e]; rfl
  exact h (hs_inj e')

theorem contains_map_hs (acc : List String) (k : String) : (acc.map hs).contains (hs k) = acc.contains k := by
  rw [Bool.eq_iff_iff, List.contains_iff_mem, List.contains_iff_mem, List.mem_map]
  constructor
  · rintro ⟨a, ha, e⟩
    rw [← hs_inj e]; exact ha
  · intro h; exact ⟨k, h, rfl⟩

theorem not_contains_str (acc : List String) (h : "str" ∉ acc) : (acc.map hs).contains (hashStr .str) = false := by
  have : hashStr .str = hs "str" := rfl
  rw [this, contains_map_hs]; simpa using h

/-! ## flattening -/

theorem flattenUnion_id : ∀ (F : List Ty), (∀ t ∈ F, t.isUnion = false) → flattenUnion F = F := by
  intro F
  induction F with
  | nil => intro _; simp [flattenUnion]
  | cons t F ih =>
    intro h
    have ih' := ih (fun t' ht' => h t' (by simp [ht']))
    have ht := h t (by simp)
    cases t <;> first | (simp [Ty.isUnion] at ht; done) | simp [flattenUnion, ih']

/-! ## the loop of `DUnion.__init__` over pseudo-types and literals -/

/-- remember a kind once -/
def pushK (acc : List String) (k : String) : List String := if acc.contains k then acc else k :: acc

/-- the kinds of the pseudo-type members -/
def kindOfTy : Ty → Option String
  | .ser k => some k
  | _ => none

def kindsL (F : List Ty) : List String := F.filterMap kindOfTy

/-- a pseudo-type or literal member -/
def isSerLit : Ty → Bool
  | .ser _ => true
  | .lit _ _ => true
  | _ => false

theorem isSerLit_not_union {t : Ty} (h : isSerLit t = true) : t.isUnion = false := by
  cases t <;> simp_all [isSerLit, Ty.isUnion]

theorem handleType_lit_unique (st : UState) (o : Bool) (vs : List String) :
    (handleType st (.lit o vs)).unique = st.unique ∧ (handleType st (.lit o vs)).hashes = st.hashes := by
  rw [handleType_lit]
  split
  · exact ⟨rfl, rfl⟩
  · split <;> exact ⟨rfl, rfl⟩

theorem handleType_ser_unique (st : UState) (acc : List String) (k : String)
    (hu : st.unique = acc.map .ser) (hh : st.hashes = acc.map hs) :
    (handleType st (.ser k)).unique = (pushK acc k).map .ser ∧
    (handleType st (.ser k)).hashes = (pushK acc k).map hs := by
  rw [handleType_nonlit st (.ser k) rfl]
  show (addUnique st (.ser k)).unique = _ ∧ (addUnique st (.ser k)).hashes = _
  unfold addUnique pushK
  have : st.hashes.contains (hashStr (.ser k)) = acc.contains k := by rw [hh]; exact contains_map_hs acc k
  rw [this]
  split
  · exact ⟨hu, hh⟩
  · simp [hu, hh, hs]

theorem fold_unique : ∀ (G : List Ty), (∀ t ∈ G, isSerLit t = true) → ∀ (st : UState) (acc : List String),
    st.unique = acc.map .ser → st.hashes = acc.map hs →
    (G.foldl handleType st).unique = ((kindsL G).foldl pushK acc).map .ser ∧
    (G.foldl handleType st).hashes = ((kindsL G).foldl pushK acc).map hs := by
  intro G
  induction G with
  | nil => intro _ st acc hu hh; exact ⟨hu, hh⟩
  | cons t G ih =>
    intro hG st acc hu hh
    have hG' : ∀ t' ∈ G, isSerLit t' = true := fun t' ht' => hG t' (by simp [ht'])
    have ht := hG t (by simp)
    cases t with
    | ser k =>
      obtain ⟨h1, h2⟩ := handleType_ser_unique st acc k hu hh
      have e : kindsL (Ty.ser k :: G) = k :: kindsL G := rfl
      rw [e, List.foldl_cons, List.foldl_cons]
      exact ih hG' (handleType st (.ser k)) (pushK acc k) h1 h2
    | lit o vs =>
      obtain ⟨h1, h2⟩ := handleType_lit_unique st o vs
      have e : kindsL (Ty.lit o vs :: G) = kindsL G := rfl
      rw [e, List.foldl_cons]
      exact ih hG' (handleType st (.lit o vs)) acc (by rw [h1, hu]) (by rw [h2, hh])
    | _ => simp [isSerLit] at ht

theorem foldl_pushK_reverse (ks : List String) : ∀ acc : List String,
    (ks.foldl pushK acc).reverse = ks.foldl (fun a x => if a.contains x then a else a ++ [x]) acc.reverse := by
  induction ks with
  | nil => intro acc; rfl
  | cons k ks ih =>
    intro acc
    rw [List.foldl_cons, List.foldl_cons, ih]
    congr 1
    unfold pushK
    have : acc.reverse.contains k = acc.contains k := by simp
    rw [this]
    split <;> simp

theorem foldl_pushK_nil (ks : List String) : (ks.foldl pushK []).reverse = dedupStr ks := by
  rw [foldl_pushK_reverse]; rfl

theorem mem_foldl_pushK (ks : List String) (k : String) : k ∈ ks.foldl pushK [] ↔ k ∈ ks := by
  rw [← List.mem_reverse, foldl_pushK_nil, mem_dedupStr]

/-- the loop state over a list of pseudo-types and literals: the remembered members are the pseudo-types,
    once each, in the order of their first occurrence -/
theorem loopState_serlit (G : List Ty) (hG : ∀ t ∈ G, isSerLit t = true) :
    (loopState G).unique.reverse = (dedupStr (kindsL G)).map .ser ∧
    (loopState G).hashes = ((kindsL G).foldl pushK []).map hs := by
  obtain ⟨h1, h2⟩ := fold_unique G hG ⟨[], [], true, []⟩ [] rfl rfl
  refine ⟨?_, h2⟩
  show (G.foldl handleType ⟨[], [], true, []⟩).unique.reverse = _
  rw [h1, ← List.map_reverse, foldl_pushK_nil]

/-- the same with `str` as last argument -/
theorem loopState_serlit_str (G : List Ty) (hG : ∀ t ∈ G, isSerLit t = true) (hk : "str" ∉ kindsL G) :
    (loopState (G ++ [.str])).unique.reverse = (dedupStr (kindsL G)).map .ser ++ [.str] ∧
    (loopState (G ++ [.str])).hashes.contains (hashStr .str) = true := by
  obtain ⟨h1, h2⟩ := loopState_serlit G hG
  have hst : loopState (G ++ [.str]) = handleType (loopState G) .str := by
    simp [loopState, List.foldl_append]
  have hnc : (loopState G).hashes.contains (hashStr .str) = false := by
    rw [h2]; apply not_contains_str
    rw [mem_foldl_pushK]; exact hk
  rw [hst, handleType_nonlit _ .str rfl]
  show (addUnique (loopState G) .str).unique.reverse = _ ∧ (addUnique (loopState G) .str).hashes.contains _ = true
  unfold addUnique
  rw [hnc]
  simp [h1]

/-! ## the member list of `DUnion(...)` on such arguments -/

/-- the folded literal: nothing without values, `str` when the set overflows, else the literal -/
def goodTail (c : LitCfg) (V : List String) : List Ty :=
  if V = [] then [] else if Overflows c V then [.str] else [.lit false V]

/-- what `DUnion.__init__` appends after the remembered members -/
def litOrStr (c : LitCfg) (F : List Ty) : List Ty :=
  if useFinal F = true then goodTail c (unionVals F) else [.str]

theorem mk_members_nostr (c : LitCfg) (G : List Ty) (hG : ∀ t ∈ G, isSerLit t = true)
    (hk : "str" ∉ kindsL G) :
    mkUnionMembers c G = (dedupStr (kindsL G)).map .ser ++ litOrStr c G := by
  have hflat : flattenUnion G = G := flattenUnion_id G (fun t ht => isSerLit_not_union (hG t ht))
  obtain ⟨h1, h2⟩ := loopState_serlit G hG
  have hnc : (loopState G).hashes.contains (hashStr .str) = false := by
    rw [h2]; apply not_contains_str
    rw [mem_foldl_pushK]; exact hk
  have key := mkUnionMembers_eq c G
  simp only [hflat] at key
  unfold litOrStr goodTail
  rcases key with ⟨he, hr⟩ | ⟨hf, hr⟩ | ⟨hu, hv, hr⟩
  · rw [hr, h1, if_pos he.1, if_neg he.2.1, if_neg he.2.2]
  · rw [hr, hnc, h1]
    rcases hf with hf | ⟨hf1, hf2⟩
    · simp [hf]
    · by_cases hu : useFinal G = true
      · rw [if_pos hu, if_neg hf1, if_pos hf2]; rfl
      · rw [if_neg hu]; rfl
  · rw [hr, h1, if_pos hu, if_pos hv]; simp

theorem mk_members_str (c : LitCfg) (G : List Ty) (hG : ∀ t ∈ G, isSerLit t = true)
    (hk : "str" ∉ kindsL G) :
    mkUnionMembers c (G ++ [.str]) = (dedupStr (kindsL G)).map .ser ++ [.str] := by
  have hflat : flattenUnion (G ++ [.str]) = G ++ [.str] := flattenUnion_id _ (fun t ht => by
    rcases List.mem_append.1 ht with h | h
    · exact isSerLit_not_union (hG t h)
    · have : t = .str := by simpa using h
      subst this; rfl)
  obtain ⟨h1, h2⟩ := loopState_serlit_str G hG hk
  have huf : useFinal (G ++ [.str]) = false := str_mem_imp_useFinal_false (by simp)
  have key := mkUnionMembers_eq c (G ++ [.str])
  simp only [hflat] at key
  rcases key with ⟨he, _⟩ | ⟨_, hr⟩ | ⟨hu, _, _⟩
  · rw [he.1] at huf; cases huf
  · rw [hr, h2, h1]; rfl
  · rw [hu] at huf; cases huf

/-- the tail `B` of the argument list: nothing, one literal, or `str` -/
def IsTail (B : List Ty) : Prop := B = [] ∨ (∃ o vs, B = [.lit o vs]) ∨ B = [.str]

/-- `DUnion(*A, *B)` for pseudo-types and literals `A` followed by a tail `B` -/
theorem mk_members (c : LitCfg) (A B : List Ty) (hA : ∀ t ∈ A, isSerLit t = true)
    (hk : "str" ∉ kindsL A) (hB : IsTail B) :
    mkUnionMembers c (A ++ B) = (dedupStr (kindsL A)).map .ser ++ litOrStr c (A ++ B) := by
  rcases hB with rfl | ⟨o, vs, rfl⟩ | rfl
  · simpa using mk_members_nostr c A hA hk
  · have hG : ∀ t ∈ A ++ [Ty.lit o vs], isSerLit t = true := by
      intro t ht
      rcases List.mem_append.1 ht with h | h
      · exact hA t h
      · have : t = .lit o vs := by simpa using h
        subst this; rfl
    have hkl : kindsL (A ++ [Ty.lit o vs]) = kindsL A := by simp [kindsL, List.filterMap_append, kindOfTy]
    have := mk_members_nostr c (A ++ [Ty.lit o vs]) hG (by rw [hkl]; exact hk)
    rw [hkl] at this; exact this
  · rw [mk_members_str c A hA hk]
    have huf : useFinal (A ++ [.str]) = false := str_mem_imp_useFinal_false (by simp)
    simp [litOrStr, huf]

end J2M.LitRule
