/-
  The nested structure of a tree-shaped registry (`LayoutP.Tree`) whose pointer records are acyclic (`Rooted`):
  it contains every model exactly once, and if the fields follow the pointer records every class refers only to
  classes nested in it.
-/
import J2M.Proofs.Render2Eval
import J2M.Proofs.Layout
namespace J2M.Rend2
open J2M.LayoutP

def Registered (g : Graph) (i : String) : Prop := ∃ m ∈ g.models, m.idx = i

/-- `Rooted g depth`: the parent relation of the pointer records is well-founded, with `depth` as a rank below the
    number of models: top-level models have depth 0, a model whose pointer is a field of `q` has depth
    `depth q + 1`, and `q` is registered.  (`Tree g` alone allows cycles that no top-level model reaches.) -/
structure Rooted (g : Graph) (depth : String → Nat) : Prop where
  bound : ∀ m ∈ g.models, depth m.idx < g.models.length
  root : ∀ m ∈ g.models, parentOf g m.idx = none → depth m.idx = 0
  step : ∀ m ∈ g.models, ∀ q, parentOf g m.idx = some q → Registered g q ∧ depth m.idx = depth q + 1

/-- `FieldsFollowPtrs g`: a field of model `m` refers only to registered models whose pointer record names `m` as
    parent (what `process_meta_data` / `_merge` maintain) -/
def FieldsFollowPtrs (g : Graph) : Prop :=
  ∀ m ∈ g.models, ∀ i ∈ fieldsRefs [] m.fields, Registered g i ∧ parentOf g i = some m.idx

/-- what `LayoutP.composeNested_tree` says about the state of `compose_models` on a tree -/
structure TreeState (g : Graph) (s : NestState) : Prop where
  roots : s.roots = (g.models.filter (fun m => (parentOf g m.idx).isNone)).map (·.idx)
  children : ∀ q, s.children q = (g.models.filter (fun m => parentOf g m.idx == some q)).map (·.idx)

section
variable {g : Graph} {s : NestState} {depth : String → Nat}

theorem mem_children (hs : TreeState g s) {c q : String} :
    c ∈ s.children q ↔ Registered g c ∧ parentOf g c = some q := by
  rw [hs.children q, List.mem_map]
  constructor
  · rintro ⟨m, hm, rfl⟩
    rw [List.mem_filter] at hm
    exact ⟨⟨m, hm.1, rfl⟩, by simpa using hm.2⟩
  · rintro ⟨⟨m, hm, rfl⟩, hp⟩
    exact ⟨m, List.mem_filter.mpr ⟨hm, by simp [hp]⟩, rfl⟩

theorem mem_roots (hs : TreeState g s) {r : String} :
    r ∈ s.roots ↔ Registered g r ∧ parentOf g r = none := by
  rw [hs.roots, List.mem_map]
  constructor
  · rintro ⟨m, hm, rfl⟩
    rw [List.mem_filter] at hm
    exact ⟨⟨m, hm.1, rfl⟩, by simpa using hm.2⟩
  · rintro ⟨⟨m, hm, rfl⟩, hp⟩
    exact ⟨m, List.mem_filter.mpr ⟨hm, by simp [hp]⟩, rfl⟩

theorem children_nodup (hs : TreeState g s) (hnd : (g.models.map (·.idx)).Nodup) (q : String) :
    (s.children q).Nodup := by
  rw [hs.children q]
  exact hnd.sublist (List.filter_sublist.map _)

theorem roots_nodup (hs : TreeState g s) (hnd : (g.models.map (·.idx)).Nodup) : s.roots.Nodup := by
  rw [hs.roots]
  exact hnd.sublist (List.filter_sublist.map _)

theorem mem_postL {ns : List Node} {x : String} : x ∈ postL ns ↔ ∃ n ∈ ns, x ∈ post n := by
  induction ns with
  | nil => simp
  | cons n ns ih => simp [postL, ih]

theorem post_zero (s : NestState) (k : String) : post (buildNodeE s 0 k) = [k] := by simp [buildNodeE, post]
theorem post_succ (s : NestState) (f : Nat) (k : String) :
    post (buildNodeE s (f + 1) k) = postL ((s.children k).map (buildNodeE s f)) ++ [k] := by
  simp [buildNodeE, post]

theorem self_mem_post (s : NestState) (f : Nat) (k : String) : k ∈ post (buildNodeE s f k) := by
  cases f <;> simp [post_zero, post_succ]

/-- an element of a subtree: registered, at least as deep as the top, and with fuel to spare accordingly -/
theorem mem_post_spec (hs : TreeState g s) (hr : Rooted g depth) :
    ∀ (f : Nat) (k x : String), Registered g k → x ∈ post (buildNodeE s f k) →
      Registered g x ∧ ∃ f', depth x + f' = depth k + f ∧ ∀ y ∈ post (buildNodeE s f' x), y ∈ post (buildNodeE s f k) := by
  intro f
  induction f with
  | zero =>
    intro k x hk hx
    simp only [post_zero, List.mem_singleton] at hx
    subst hx
    exact ⟨hk, 0, rfl, fun y hy => hy⟩
  | succ f ih =>
    intro k x hk hx
    rw [post_succ, List.mem_append, List.mem_singleton] at hx
    rcases hx with hx | rfl
    · rw [mem_postL] at hx
      obtain ⟨n, hn, hxn⟩ := hx
      obtain ⟨c, hc, rfl⟩ := List.mem_map.mp hn
      obtain ⟨hcr, hcp⟩ := (mem_children hs).mp hc
      obtain ⟨m, hm, rfl⟩ := hcr
      obtain ⟨hx1, f', hf', hsub⟩ := ih m.idx x ⟨m, hm, rfl⟩ hxn
      have hd := (hr.step m hm k hcp).2
      refine ⟨hx1, f', by omega, fun y hy => ?_⟩
      rw [post_succ]
      exact List.mem_append_left _ (mem_postL.mpr ⟨_, hn, hsub y hy⟩)
    · exact ⟨hk, f + 1, rfl, fun y hy => hy⟩

/-- every registered model occurs in the structure -/
theorem registered_mem_roots (hs : TreeState g s) (hr : Rooted g depth) :
    ∀ (d : Nat) (m : Model), m ∈ g.models → depth m.idx = d →
      m.idx ∈ postL (s.roots.map (buildNodeE s (g.models.length + 1))) := by
  intro d
  induction d with
  | zero =>
    intro m hm hd
    cases hp : parentOf g m.idx with
    | none =>
      exact mem_postL.mpr ⟨_, List.mem_map_of_mem ((mem_roots hs).mpr ⟨⟨m, hm, rfl⟩, hp⟩), self_mem_post _ _ _⟩
    | some q => have := (hr.step m hm q hp).2; omega
  | succ d ih =>
    intro m hm hd
    cases hp : parentOf g m.idx with
    | none => have := hr.root m hm hp; omega
    | some q =>
      obtain ⟨⟨mq, hmq, rfl⟩, hdq⟩ := hr.step m hm _ hp
      have hq := ih mq hmq (by omega)
      rw [mem_postL] at hq ⊢
      obtain ⟨n, hn, hqn⟩ := hq
      obtain ⟨r, hrt, rfl⟩ := List.mem_map.mp hn
      obtain ⟨⟨mr, hmr, rfl⟩, _⟩ := (mem_roots hs).mp hrt
      obtain ⟨_, f', hf', hsub⟩ := mem_post_spec hs hr _ _ _ ⟨mr, hmr, rfl⟩ hqn
      have hb := hr.bound mq hmq
      obtain ⟨f'', rfl⟩ : ∃ f'', f' = f'' + 1 := ⟨f' - 1, by omega⟩
      refine ⟨_, hn, hsub _ ?_⟩
      rw [post_succ]
      apply List.mem_append_left
      exact mem_postL.mpr ⟨_, List.mem_map_of_mem ((mem_children hs).mpr ⟨⟨m, hm, rfl⟩, hp⟩), self_mem_post _ _ _⟩

/-- the `j`-th ancestor along the pointer records -/
def ancN (g : Graph) : Nat → String → Option String
  | 0, x => some x
  | j + 1, x => (ancN g j x).bind (parentOf g)

/-- the top of a subtree is the ancestor of each of its elements, at the distance given by the depths -/
theorem anc_of_mem (hs : TreeState g s) (hr : Rooted g depth) :
    ∀ (f : Nat) (k x : String), Registered g k → x ∈ post (buildNodeE s f k) →
      depth k ≤ depth x ∧ ancN g (depth x - depth k) x = some k := by
  intro f
  induction f with
  | zero =>
    intro k x _ hx
    simp only [post_zero, List.mem_singleton] at hx
    subst hx; simp [ancN]
  | succ f ih =>
    intro k x hk hx
    rw [post_succ, List.mem_append, List.mem_singleton] at hx
    rcases hx with hx | rfl
    · rw [mem_postL] at hx
      obtain ⟨n, hn, hxn⟩ := hx
      obtain ⟨c, hc, rfl⟩ := List.mem_map.mp hn
      obtain ⟨⟨m, hm, rfl⟩, hcp⟩ := (mem_children hs).mp hc
      obtain ⟨h1, h2⟩ := ih m.idx x ⟨m, hm, rfl⟩ hxn
      have hd := (hr.step m hm k hcp).2
      refine ⟨by omega, ?_⟩
      have : depth x - depth k = (depth x - depth m.idx) + 1 := by omega
      rw [this]
      simp only [ancN, h2, Option.bind_some, hcp]
    · simp [ancN]

theorem post_nodup (hs : TreeState g s) (hr : Rooted g depth) (hnd : (g.models.map (·.idx)).Nodup) :
    ∀ (f : Nat) (k : String), Registered g k → (post (buildNodeE s f k)).Nodup := by
  intro f
  induction f with
  | zero => intro k _; simp [post_zero]
  | succ f ih =>
    intro k hk
    rw [post_succ]
    have hcs : ∀ c ∈ s.children k, Registered g c ∧ depth c = depth k + 1 := by
      intro c hc
      obtain ⟨⟨m, hm, rfl⟩, hcp⟩ := (mem_children hs).mp hc
      exact ⟨⟨m, hm, rfl⟩, (hr.step m hm k hcp).2⟩
    -- the subtrees of the children are pairwise disjoint
    have hdis : ∀ (cs : List String), cs.Nodup → (∀ c ∈ cs, Registered g c ∧ depth c = depth k + 1) →
        (postL (cs.map (buildNodeE s f))).Nodup := by
      intro cs
      induction cs with
      | nil => intro _ _; simp
      | cons c cs ihc =>
        intro hn hreg
        simp only [List.map_cons, postL]
        simp only [List.nodup_cons] at hn
        rw [List.nodup_append]
        refine ⟨ih c (hreg c (by simp)).1, ihc hn.2 (fun c' hc' => hreg c' (by simp [hc'])), ?_⟩
        intro x hx y hy hxy
        subst hxy
        rw [mem_postL] at hy
        obtain ⟨n, hn', hxn⟩ := hy
        obtain ⟨c', hc', rfl⟩ := List.mem_map.mp hn'
        obtain ⟨r1, d1⟩ := hreg c (by simp)
        obtain ⟨r2, d2⟩ := hreg c' (by simp [hc'])
        obtain ⟨_, a1⟩ := anc_of_mem hs hr f c x r1 hx
        obtain ⟨_, a2⟩ := anc_of_mem hs hr f c' x r2 hxn
        rw [d1] at a1; rw [d2] at a2
        have : c = c' := Option.some.inj (a1.symm.trans a2)
        exact hn.1 (this ▸ hc')
    rw [List.nodup_append]
    refine ⟨hdis _ (children_nodup hs hnd k) hcs, by simp, ?_⟩
    intro x hx y hy hxy
    simp only [List.mem_singleton] at hy
    subst hy; subst hxy
    rw [mem_postL] at hx
    obtain ⟨n, hn', hxn⟩ := hx
    obtain ⟨c, hc, rfl⟩ := List.mem_map.mp hn'
    obtain ⟨rc, dc⟩ := hcs c hc
    have := (anc_of_mem hs hr f c x rc hxn).1
    omega

theorem roots_post_nodup (hs : TreeState g s) (hr : Rooted g depth) (hnd : (g.models.map (·.idx)).Nodup) (f : Nat) :
    (postL (s.roots.map (buildNodeE s f))).Nodup := by
  have hreg : ∀ r ∈ s.roots, Registered g r ∧ depth r = 0 := by
    intro r hrt
    obtain ⟨⟨m, hm, rfl⟩, hp⟩ := (mem_roots hs).mp hrt
    exact ⟨⟨m, hm, rfl⟩, hr.root m hm hp⟩
  have : ∀ (cs : List String), cs.Nodup → (∀ c ∈ cs, Registered g c ∧ depth c = 0) →
      (postL (cs.map (buildNodeE s f))).Nodup := by
    intro cs
    induction cs with
    | nil => intro _ _; simp
    | cons c cs ihc =>
      intro hn hreg
      simp only [List.map_cons, postL]
      simp only [List.nodup_cons] at hn
      rw [List.nodup_append]
      refine ⟨post_nodup hs hr hnd f c (hreg c (by simp)).1, ihc hn.2 (fun c' hc' => hreg c' (by simp [hc'])), ?_⟩
      intro x hx y hy hxy
      subst hxy
      rw [mem_postL] at hy
      obtain ⟨n, hn', hxn⟩ := hy
      obtain ⟨c', hc', rfl⟩ := List.mem_map.mp hn'
      obtain ⟨r1, d1⟩ := hreg c (by simp)
      obtain ⟨r2, d2⟩ := hreg c' (by simp [hc'])
      obtain ⟨_, a1⟩ := anc_of_mem hs hr f c x r1 hx
      obtain ⟨_, a2⟩ := anc_of_mem hs hr f c' x r2 hxn
      rw [d1] at a1; rw [d2] at a2
      have : c = c' := Option.some.inj (a1.symm.trans a2)
      exact hn.1 (this ▸ hc')
  exact this _ (roots_nodup hs hnd) hreg

/-- **tree_cover**: the nested structure of a rooted tree contains every model exactly once -/
theorem tree_cover (hs : TreeState g s) (hr : Rooted g depth) (hnd : (g.models.map (·.idx)).Nodup) :
    (postL (s.roots.map (buildNodeE s (g.models.length + 1)))).Perm (g.models.map (·.idx)) := by
  apply (List.perm_ext_iff_of_nodup (roots_post_nodup hs hr hnd _) hnd).mpr
  intro x
  constructor
  · intro hx
    rw [mem_postL] at hx
    obtain ⟨n, hn, hxn⟩ := hx
    obtain ⟨r, hrt, rfl⟩ := List.mem_map.mp hn
    obtain ⟨⟨m, hm, e⟩, _⟩ := mem_post_spec hs hr _ _ _ ((mem_roots hs).mp hrt).1 hxn
    exact List.mem_map.mpr ⟨m, hm, e⟩
  · intro hx
    obtain ⟨m, hm, rfl⟩ := List.mem_map.mp hx
    exact registered_mem_roots hs hr _ m hm rfl

theorem subRefsL_map {refs : String → List String} {T : String → Node} :
    ∀ (cs : List String), (∀ c ∈ cs, SubRefsN refs (T c)) → SubRefsL refs (cs.map T)
  | [], _ => by simp [SubRefsL]
  | c :: cs, h => by
    simp only [List.map_cons, SubRefsL]
    exact ⟨h c (by simp), subRefsL_map cs (fun c' hc' => h c' (by simp [hc']))⟩

/-- with enough fuel, every class of the structure refers only to itself and to the classes nested in it -/
theorem subRefsN_tree (hs : TreeState g s) (hr : Rooted g depth) (hff : FieldsFollowPtrs g) :
    ∀ (f : Nat) (k : String), Registered g k → g.models.length + 1 ≤ depth k + f →
      SubRefsN (refsOf g []) (buildNodeE s f k) := by
  intro f
  induction f with
  | zero =>
    intro k hk hb
    obtain ⟨m, hm, rfl⟩ := hk
    have := hr.bound m hm
    omega
  | succ f ih =>
    intro k hk hb
    simp only [buildNodeE, SubRefsN]
    constructor
    · apply subRefsL_map
      intro c hc
      obtain ⟨⟨m, hm, rfl⟩, hcp⟩ := (mem_children hs).mp hc
      have := (hr.step m hm k hcp).2
      exact ih m.idx ⟨m, hm, rfl⟩ (by omega)
    · intro i hi
      simp only [refsOf, List.mem_cons] at hi
      rcases hi with rfl | hi
      · simp
      · apply List.mem_append_left
        obtain ⟨mk, hmk, rfl⟩ := hk
        unfold Graph.find? at hi
        cases hfind : g.models.find? (·.idx == mk.idx) with
        | none =>
          have := List.find?_eq_none.mp hfind mk hmk
          simp at this
        | some m' =>
          rw [hfind] at hi
          simp only [Option.getD_some] at hi
          have hm' := List.mem_of_find?_eq_some hfind
          have he : m'.idx = mk.idx := by simpa using List.find?_some hfind
          obtain ⟨hri, hpi⟩ := hff m' hm' i hi
          rw [he] at hpi
          exact mem_postL.mpr ⟨_, List.mem_map_of_mem ((mem_children hs).mpr ⟨hri, hpi⟩), self_mem_post _ _ _⟩

/-- **tree_subRefs** -/
theorem tree_subRefs (hs : TreeState g s) (hr : Rooted g depth) (hff : FieldsFollowPtrs g) :
    SubRefsL (refsOf g []) (s.roots.map (buildNodeE s (g.models.length + 1))) := by
  apply subRefsL_map
  intro r hrt
  exact subRefsN_tree hs hr hff _ r ((mem_roots hs).mp hrt).1 (by omega)

end

/-- the structure computed by `compose_models` on a tree-shaped registry -/
theorem composeNested_tree_state {g : Graph} (hT : Tree g) {roots : List Node} {inj : List (String × String)}
    (h : composeNested g = .ok (roots, inj)) :
    ∃ s, TreeState g s ∧ roots = s.roots.map (buildNodeE s (g.models.length + 1)) ∧ inj = [] := by
  obtain ⟨s, hs, r1, r2, r3⟩ := composeNested_tree hT
  rw [composeNested_evaluable] at h
  unfold composeNestedE at h
  rw [hs] at h
  have := Except.ok.inj h
  injection this with e1 e2
  exact ⟨s, ⟨r1, r2⟩, e1.symm, by rw [← e2, r3]⟩

end J2M.Rend2
