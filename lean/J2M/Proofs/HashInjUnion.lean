/-
  `DUnion.__init__` (model `mkUnionMembers`) never drops a non-literal member except as an exact duplicate:
  fold invariants of `handleType`, using injectivity of `hashStr`.
-/
import J2M.Union
import J2M.Proofs.HashInj
namespace J2M.HashInj

theorem handleType_lit (st : UState) (o : Bool) (vs : List String) :
    (handleType st (.lit o vs)).unique = st.unique ∧ (handleType st (.lit o vs)).hashes = st.hashes := by
  obtain ⟨u, h, ul, l⟩ := st
  cases ul <;> cases o <;> simp [handleType, Ty.isStr]

theorem handleType_nonlit (st : UState) (t : Ty) (h : t.isLit = false) :
    (handleType st t).unique = (if st.hashes.contains (hashStr t) then st.unique else t :: st.unique) ∧
    (handleType st t).hashes = (if st.hashes.contains (hashStr t) then st.hashes else hashStr t :: st.hashes) := by
  cases t <;> simp [Ty.isLit] at h <;> (unfold handleType; simp only []; constructor <;> split <;> rfl)

/-- fold invariant: `done` is the list of members processed so far -/
structure Inv (st : UState) (done : List Ty) : Prop where
  hashes : ∀ h ∈ st.hashes, ∃ u ∈ st.unique, hashStr u = h
  sub : ∀ u ∈ st.unique, u ∈ done
  keep : ∀ t ∈ done, t.isLit = false → t ∈ st.unique

theorem inv_step {st : UState} {done : List Ty} (t : Ty) (wf : ∀ u ∈ done ++ [t], u.WFHash)
    (inv : Inv st done) : Inv (handleType st t) (done ++ [t]) := by
  by_cases hl : t.isLit = true
  · cases t <;> simp [Ty.isLit] at hl
    rename_i o vs
    obtain ⟨hu, hh⟩ := handleType_lit st o vs
    refine ⟨?_, ?_, ?_⟩
    · rw [hu, hh]; exact inv.hashes
    · rw [hu]; intro u hu'; simp [inv.sub u hu']
    · rw [hu]; intro u hu' hul
      simp only [List.mem_append, List.mem_singleton] at hu'
      rcases hu' with hu' | rfl
      · exact inv.keep u hu' hul
      · simp [Ty.isLit] at hul
  · have hl : t.isLit = false := by simpa using hl
    obtain ⟨hu, hh⟩ := handleType_nonlit st t hl
    by_cases hc : st.hashes.contains (hashStr t) = true
    · rw [if_pos hc] at hu hh
      refine ⟨?_, ?_, ?_⟩
      · rw [hu, hh]; exact inv.hashes
      · rw [hu]; intro u hu'; simp [inv.sub u hu']
      · rw [hu]; intro u hu' hul
        simp only [List.mem_append, List.mem_singleton] at hu'
        rcases hu' with hu' | rfl
        · exact inv.keep u hu' hul
        · obtain ⟨v, hv, hvh⟩ := inv.hashes (hashStr u) (by simpa using hc)
          have wv : v.WFHash := wf v (by simp [inv.sub v hv])
          have wu : u.WFHash := wf u (by simp)
          have : v = u := hashStr_inj_core v u wv wu hvh
          exact this ▸ hv
    · rw [if_neg hc] at hu hh
      refine ⟨?_, ?_, ?_⟩
      · rw [hu, hh]; intro h hh'
        simp only [List.mem_cons] at hh'
        rcases hh' with rfl | hh'
        · exact ⟨t, by simp, rfl⟩
        · obtain ⟨v, hv, hvh⟩ := inv.hashes h hh'
          exact ⟨v, by simp [hv], hvh⟩
      · rw [hu]; intro u hu'
        simp only [List.mem_cons] at hu'
        rcases hu' with rfl | hu'
        · simp
        · simp [inv.sub u hu']
      · rw [hu]; intro u hu' hul
        simp only [List.mem_append, List.mem_singleton] at hu'
        rcases hu' with hu' | rfl
        · simp [inv.keep u hu' hul]
        · simp

theorem inv_fold : ∀ (l : List Ty) (st : UState) (done : List Ty), (∀ u ∈ done ++ l, u.WFHash) →
    Inv st done → Inv (l.foldl handleType st) (done ++ l)
  | [], st, done, _, inv => by simpa using inv
  | t :: l, st, done, wf, inv => by
      have h1 := inv_step t (fun u hu => wf u (by
        simp only [List.mem_append, List.mem_singleton] at hu
        rcases hu with hu | rfl <;> simp [*])) inv
      have := inv_fold l (handleType st t) (done ++ [t]) (by simpa using wf) h1
      simpa using this

theorem inv_init : Inv ⟨[], [], true, []⟩ [] := ⟨by simp, by simp, by simp⟩

/-- everything the fold kept is in the final member list -/
theorem fold_unique_sub_members (c : LitCfg) (ts : List Ty) (t : Ty)
    (h : t ∈ ((flattenUnion ts).foldl handleType ⟨[], [], true, []⟩).unique) : t ∈ mkUnionMembers c ts := by
  unfold mkUnionMembers
  simp only []
  generalize (flattenUnion ts).foldl handleType ⟨[], [], true, []⟩ = st at h
  split
  · split <;> (try split) <;> (try split) <;> simp_all
  · split <;> (try split) <;> simp_all

end J2M.HashInj
