/-
  `hashStr` (the repaired, delimited `get_hash_string`) is uniquely decodable on well-formed types.
  Technique: prefix statement `hc a ++ r₁ = hc b ++ r₂ → a = b ∧ r₁ = r₂` by mutual structural
  recursion over `Ty` / `List Ty` / `List (String × Ty)`, on `List Char`.
-/
import J2M.Hash
import J2M.Proofs.HashInjJson
namespace J2M

/-! ### well-formedness needed by the encoding -/

/-- identifier character: ASCII letter, digit or underscore -/
def identChar (c : Char) : Bool := c.isAlphanum || c == '_'

/-- class name of a registered pseudo-type: non-empty identifier, not one of the builtin class names -/
def wfSerName (k : String) : Bool :=
  !k.toList.isEmpty && k.toList.all identChar && k != "int" && k != "float" && k != "bool" && k != "str"

mutual
def wfHash : Ty → Bool
  | .ser k => wfSerName k
  | .ptr i => i.toList.all Char.isAlphanum
  | .lit o vs => !o || vs.isEmpty
  | .list t | .dict t | .opt t => wfHash t
  | .union ts | .tuple ts => wfHashs ts
  | .obj fs => wfHashF fs
  | _ => true
def wfHashs : List Ty → Bool
  | [] => true
  | t :: ts => wfHash t && wfHashs ts
def wfHashF : List (String × Ty) → Bool
  | [] => true
  | (_, t) :: fs => wfHash t && wfHashF fs
end

/-- what `hashStr` needs to be injective: class names are identifiers other than `int/float/bool/str`,
    model indices are alphanumeric, an overflowed literal carries no values. Nothing is required of
    literal values or field keys. -/
def Ty.WFHash (t : Ty) : Prop := wfHash t = true

instance (t : Ty) : Decidable t.WFHash := inferInstanceAs (Decidable (wfHash t = true))

theorem wfHashs_iff (ts : List Ty) : wfHashs ts = true ↔ ∀ t ∈ ts, t.WFHash := by
  induction ts with
  | nil => simp [wfHashs]
  | cons t ts ih => simp [wfHashs, ih, Ty.WFHash]

theorem wfHashF_iff (fs : List (String × Ty)) : wfHashF fs = true ↔ ∀ kt ∈ fs, kt.2.WFHash := by
  induction fs with
  | nil => simp [wfHashF]
  | cons kt fs ih => obtain ⟨k, t⟩ := kt; simp [wfHashF, ih, Ty.WFHash]

namespace HashInj

/-! ### comma-separated lists on `List Char` -/

/-- `,s` repeated -/
def ctl : List String → List Char
  | [] => []
  | s :: ss => ',' :: s.toList ++ ctl ss

/-- `",".intercalate` on characters -/
def cl : List String → List Char
  | [] => []
  | s :: ss => s.toList ++ ctl ss

theorem intercalate_ctl (s : String) (ss : List String) :
    List.intercalate [','] ((s :: ss).map String.toList) = s.toList ++ ctl ss := by
  induction ss generalizing s with
  | nil => simp [ctl]
  | cons w ws ih =>
    simp only [List.map_cons] at ih ⊢
    rw [List.intercalate_cons_cons, ih w]
    simp [ctl]

theorem intercalate_cl (ss : List String) : List.intercalate [','] (ss.map String.toList) = cl ss := by
  cases ss with
  | nil => simp [cl]
  | cons s ss => simpa [cl] using intercalate_ctl s ss

theorem toList_intercalate_comma (ss : List String) : (",".intercalate ss).toList = cl ss := by
  simp [String.toList_intercalate, intercalate_cl]

/-- delimiters that may follow a hash string in context -/
def Delim (r : List Char) : Prop := ∀ c ∈ r.head?, c = ',' ∨ c = ']' ∨ c = '}'

theorem delim_nil : Delim [] := by simp [Delim]

theorem delim_ctl (ss : List String) (e : Char) (he : e = ']' ∨ e = '}') (r : List Char) :
    Delim (ctl ss ++ e :: r) := by
  cases ss with
  | nil => rcases he with rfl | rfl <;> simp [Delim, ctl]
  | cons s ss => simp [Delim, ctl]

/-- first character exists and is not a delimiter -/
def headOK : List Char → Bool
  | [] => false
  | c :: _ => c != ',' && c != ']' && c != '}'

theorem cl_to_ctl {ss₁ ss₂ : List String} {e : Char} (he : e = ']' ∨ e = '}') {r₁ r₂ : List Char}
    (h1 : ∀ s ∈ ss₁, headOK s.toList = true) (h2 : ∀ s ∈ ss₂, headOK s.toList = true)
    (h : cl ss₁ ++ e :: r₁ = cl ss₂ ++ e :: r₂) : ctl ss₁ ++ e :: r₁ = ctl ss₂ ++ e :: r₂ := by
  cases ss₁ with
  | nil =>
    cases ss₂ with
    | nil => simpa [cl, ctl] using h
    | cons s ss =>
      have hs := h2 s (by simp)
      cases hst : s.toList with
      | nil => simp [hst, headOK] at hs
      | cons c cs =>
        simp only [cl, hst, List.nil_append, List.cons_append, List.cons.injEq] at h
        obtain ⟨rfl, _⟩ := h
        rcases he with rfl | rfl <;> simp [hst, headOK] at hs
  | cons s ss =>
    cases ss₂ with
    | nil =>
      have hs := h1 s (by simp)
      cases hst : s.toList with
      | nil => simp [hst, headOK] at hs
      | cons c cs =>
        simp only [cl, hst, List.nil_append, List.cons_append, List.cons.injEq] at h
        obtain ⟨rfl, _⟩ := h
        rcases he with rfl | rfl <;> simp [hst, headOK] at hs
    | cons s' ss' =>
      simp only [cl] at h
      simp only [ctl, List.cons_append, List.cons.injEq, true_and]
      exact h

/-! ### character-level equations of `hashStr` -/

theorem hc_int : (hashStr .int).toList = "<class '".toList ++ "int".toList ++ ['\'', '>'] := by simp [hashStr]
theorem hc_float : (hashStr .float).toList = "<class '".toList ++ "float".toList ++ ['\'', '>'] := by simp [hashStr]
theorem hc_bool : (hashStr .bool).toList = "<class '".toList ++ "bool".toList ++ ['\'', '>'] := by simp [hashStr]
theorem hc_str : (hashStr .str).toList = "<class '".toList ++ "str".toList ++ ['\'', '>'] := by simp [hashStr]
theorem hc_ser (k : String) : (hashStr (.ser k)).toList = "<class '".toList ++ k.toList ++ ['\'', '>'] := by simp [hashStr]
theorem hc_null : (hashStr .null).toList = "NoneType".toList := by simp [hashStr]
theorem hc_unknown : (hashStr .unknown).toList = "Unknown".toList := by simp [hashStr]
theorem hc_lit_ov (vs : List String) : (hashStr (.lit true vs)).toList = "StringLiteral/...".toList := by
  simp [hashStr, litRepr]
theorem hc_lit (vs : List String) :
    (hashStr (.lit false vs)).toList = "StringLiteral/".toList ++ (jsonDumpsList true vs).toList := by
  simp [hashStr, litRepr]
theorem hc_list (t : Ty) : (hashStr (.list t)).toList = "DList/".toList ++ (hashStr t).toList := by simp [hashStr]
theorem hc_dict (t : Ty) : (hashStr (.dict t)).toList = "DDict/".toList ++ (hashStr t).toList := by simp [hashStr]
theorem hc_opt (t : Ty) : (hashStr (.opt t)).toList = "DOptional/".toList ++ (hashStr t).toList := by simp [hashStr]
theorem hc_union (ts : List Ty) :
    (hashStr (.union ts)).toList = "DUnion/[".toList ++ (cl (hashStrs ts) ++ [']']) := by
  simp [hashStr, intercalate_cl]
theorem hc_tuple (ts : List Ty) :
    (hashStr (.tuple ts)).toList = "DTuple/[".toList ++ (cl (hashStrs ts) ++ [']']) := by
  simp [hashStr, intercalate_cl]
theorem hc_obj (fs : List (String × Ty)) :
    (hashStr (.obj fs)).toList = '{' :: (cl (hashFields fs) ++ ['}']) := by
  simp [hashStr, intercalate_cl]
theorem hc_ptr (i : String) : (hashStr (.ptr i)).toList = "ModelPtr_#".toList ++ i.toList := by simp [hashStr]

/-! ### the constructor is determined by the first characters -/

def kind : Ty → Nat
  | .int | .float | .bool | .str | .ser _ => 0
  | .null => 1 | .unknown => 2 | .lit _ _ => 3
  | .list _ => 4 | .dict _ => 5 | .opt _ => 6 | .union _ => 7 | .tuple _ => 8
  | .obj _ => 9 | .ptr _ => 10

def tagOf : List Char → Nat
  | [] => 99
  | c :: rest =>
    if c = '<' then 0 else if c = 'N' then 1 else if c = 'U' then 2 else if c = 'S' then 3
    else if c = '{' then 9 else if c = 'M' then 10
    else if c = 'D' then
      match rest with
      | [] => 99
      | d :: _ => if d = 'L' then 4 else if d = 'D' then 5 else if d = 'O' then 6 else if d = 'U' then 7
                  else if d = 'T' then 8 else 99
    else 99

theorem tagOf_hc (a : Ty) (r : List Char) : tagOf ((hashStr a).toList ++ r) = kind a := by
  cases a with
  | lit o vs => cases o <;> simp [hc_lit, hc_lit_ov, tagOf, kind]
  | _ => simp [hc_int, hc_float, hc_bool, hc_str, hc_ser, hc_null, hc_unknown, hc_list, hc_dict, hc_opt,
      hc_union, hc_tuple, hc_obj, hc_ptr, tagOf, kind]

theorem kind_eq {a b : Ty} {r₁ r₂ : List Char} (h : (hashStr a).toList ++ r₁ = (hashStr b).toList ++ r₂) :
    kind a = kind b := by
  rw [← tagOf_hc a r₁, ← tagOf_hc b r₂, h]

theorem headOK_hc (a : Ty) : headOK (hashStr a).toList = true := by
  cases a with
  | lit o vs => cases o <;> simp [hc_lit, hc_lit_ov, headOK]
  | _ => simp [hc_int, hc_float, hc_bool, hc_str, hc_ser, hc_null, hc_unknown, hc_list, hc_dict, hc_opt,
      hc_union, hc_tuple, hc_obj, hc_ptr, headOK]

theorem headOK_hashStrs (ts : List Ty) : ∀ s ∈ hashStrs ts, headOK s.toList = true := by
  induction ts with
  | nil => simp [hashStrs]
  | cons t ts ih =>
    intro s hs
    simp only [hashStrs, List.mem_cons] at hs
    rcases hs with rfl | hs
    · exact headOK_hc t
    · exact ih s hs

theorem headOK_hashFields (fs : List (String × Ty)) : ∀ s ∈ hashFields fs, headOK s.toList = true := by
  induction fs with
  | nil => simp [hashFields]
  | cons kt fs ih =>
    obtain ⟨k, t⟩ := kt
    obtain ⟨rest, hr⟩ := jsonDumps_head k
    intro s hs
    simp only [hashFields, List.mem_cons] at hs
    rcases hs with rfl | hs
    · simp [hr, headOK]
    · exact ih s hs

/-! ### the `<class '…'>` group -/

def cname : Ty → List Char
  | .int => "int".toList | .float => "float".toList | .bool => "bool".toList | .str => "str".toList
  | .ser k => k.toList
  | _ => []

theorem hc_class {a : Ty} (h : kind a = 0) :
    (hashStr a).toList = "<class '".toList ++ (cname a ++ ['\'', '>']) := by
  cases a <;> simp [kind] at h <;> simp [hc_int, hc_float, hc_bool, hc_str, hc_ser, cname]

theorem identChar_ne_quote {c : Char} (h : identChar c = true) : (c != '\'') = true := by
  rw [bne_iff_ne]; rintro rfl; revert h; decide

theorem cname_noquote {a : Ty} (h : kind a = 0) (w : a.WFHash) : ∀ c ∈ cname a, (c != '\'') = true := by
  cases a <;> simp [kind] at h
  case ser k =>
    simp only [Ty.WFHash, wfHash, wfSerName, Bool.and_eq_true, List.all_eq_true] at w
    intro c hc
    exact identChar_ne_quote (w.1.1.1.1.2 c hc)
  all_goals simp [cname]

theorem cname_inj {a b : Ty} (ha : kind a = 0) (hb : kind b = 0) (wa : a.WFHash) (wb : b.WFHash)
    (h : cname a = cname b) : a = b := by
  cases a <;> simp [kind] at ha <;> cases b <;> simp [kind] at hb <;> simp [cname] at h
  case int.ser k =>
    have : k = "int" := String.toList_inj.mp (by simpa using h.symm)
    simp [Ty.WFHash, wfHash, wfSerName, this] at wb
  case float.ser k =>
    have : k = "float" := String.toList_inj.mp (by simpa using h.symm)
    simp [Ty.WFHash, wfHash, wfSerName, this] at wb
  case bool.ser k =>
    have : k = "bool" := String.toList_inj.mp (by simpa using h.symm)
    simp [Ty.WFHash, wfHash, wfSerName, this] at wb
  case str.ser k =>
    have : k = "str" := String.toList_inj.mp (by simpa using h.symm)
    simp [Ty.WFHash, wfHash, wfSerName, this] at wb
  case ser.int k =>
    have : k = "int" := String.toList_inj.mp (by simpa using h)
    simp [Ty.WFHash, wfHash, wfSerName, this] at wa
  case ser.float k =>
    have : k = "float" := String.toList_inj.mp (by simpa using h)
    simp [Ty.WFHash, wfHash, wfSerName, this] at wa
  case ser.bool k =>
    have : k = "bool" := String.toList_inj.mp (by simpa using h)
    simp [Ty.WFHash, wfHash, wfSerName, this] at wa
  case ser.str k =>
    have : k = "str" := String.toList_inj.mp (by simpa using h)
    simp [Ty.WFHash, wfHash, wfSerName, this] at wa
  case ser.ser k k' =>
    exact congrArg _ (String.toList_inj.mp h)
  all_goals rfl

theorem class_unique {a b : Ty} {r₁ r₂ : List Char} (ha : kind a = 0) (hb : kind b = 0)
    (wa : a.WFHash) (wb : b.WFHash)
    (h : (hashStr a).toList ++ r₁ = (hashStr b).toList ++ r₂) : a = b ∧ r₁ = r₂ := by
  rw [hc_class ha, hc_class hb] at h
  simp only [List.append_assoc] at h
  have h := List.append_cancel_left h
  have := span_unique (fun c => c != '\'') (cname a) (cname b) _ _ (cname_noquote ha wa) (cname_noquote hb wb)
    (stops_cons (by decide)) (stops_cons (by decide)) h
  refine ⟨cname_inj ha hb wa wb this.1, ?_⟩
  simpa using this.2

/-! ### model pointers -/

theorem delim_stops_alnum {r : List Char} (h : Delim r) : Stops Char.isAlphanum r := by
  intro c hc
  rcases h c hc with rfl | rfl | rfl <;> decide

theorem ptr_unique {i j : String} {r₁ r₂ : List Char}
    (wi : (Ty.ptr i).WFHash) (wj : (Ty.ptr j).WFHash) (d₁ : Delim r₁) (d₂ : Delim r₂)
    (h : (hashStr (.ptr i)).toList ++ r₁ = (hashStr (.ptr j)).toList ++ r₂) : Ty.ptr i = Ty.ptr j ∧ r₁ = r₂ := by
  rw [hc_ptr, hc_ptr] at h
  simp only [List.append_assoc] at h
  have h := List.append_cancel_left h
  simp only [Ty.WFHash, wfHash, List.all_eq_true] at wi wj
  have := span_unique Char.isAlphanum i.toList j.toList r₁ r₂ wi wj (delim_stops_alnum d₁) (delim_stops_alnum d₂) h
  exact ⟨congrArg _ (String.toList_inj.mp this.1), this.2⟩

/-! ### literals -/

theorem lit_unique {o₁ o₂ : Bool} {vs ws : List String} {r₁ r₂ : List Char}
    (w₁ : (Ty.lit o₁ vs).WFHash) (w₂ : (Ty.lit o₂ ws).WFHash)
    (h : (hashStr (.lit o₁ vs)).toList ++ r₁ = (hashStr (.lit o₂ ws)).toList ++ r₂) :
    Ty.lit o₁ vs = Ty.lit o₂ ws ∧ r₁ = r₂ := by
  cases o₁ <;> cases o₂
  · rw [hc_lit, hc_lit] at h
    simp only [List.append_assoc] at h
    have h := List.append_cancel_left h
    obtain ⟨rfl, rfl⟩ := jsonDumpsList_unique h
    exact ⟨rfl, rfl⟩
  · rw [hc_lit, hc_lit_ov, toList_jsonDumpsList] at h
    simp at h
  · rw [hc_lit, hc_lit_ov, toList_jsonDumpsList] at h
    simp at h
  · simp [Ty.WFHash, wfHash] at w₁ w₂
    subst w₁ w₂
    rw [hc_lit_ov] at h
    exact ⟨rfl, List.append_cancel_left h⟩

/-! ### the unique-decoding theorem -/

theorem hashStrs_nil_iff {ts : List Ty} : hashStrs ts = [] ↔ ts = [] := by
  cases ts <;> simp [hashStrs]

mutual
/-- a hash string followed by a delimiter (or the end) determines the type and the remainder -/
theorem dec_ty : (a : Ty) → ∀ (b : Ty) (r₁ r₂ : List Char), a.WFHash → b.WFHash → Delim r₁ → Delim r₂ →
    (hashStr a).toList ++ r₁ = (hashStr b).toList ++ r₂ → a = b ∧ r₁ = r₂
  | .int, b, r₁, r₂, wa, wb, _, _, h => by
      have hk := kind_eq h
      exact class_unique rfl hk.symm wa wb h
  | .float, b, r₁, r₂, wa, wb, _, _, h => by
      have hk := kind_eq h
      exact class_unique rfl hk.symm wa wb h
  | .bool, b, r₁, r₂, wa, wb, _, _, h => by
      have hk := kind_eq h
      exact class_unique rfl hk.symm wa wb h
  | .str, b, r₁, r₂, wa, wb, _, _, h => by
      have hk := kind_eq h
      exact class_unique rfl hk.symm wa wb h
  | .ser k, b, r₁, r₂, wa, wb, _, _, h => by
      have hk := kind_eq h
      exact class_unique rfl hk.symm wa wb h
  | .null, b, r₁, r₂, _, _, _, _, h => by
      have hk := kind_eq h
      cases b <;> simp [kind] at hk
      rw [hc_null] at h
      exact ⟨rfl, List.append_cancel_left h⟩
  | .unknown, b, r₁, r₂, _, _, _, _, h => by
      have hk := kind_eq h
      cases b <;> simp [kind] at hk
      rw [hc_unknown] at h
      exact ⟨rfl, List.append_cancel_left h⟩
  | .lit o vs, b, r₁, r₂, wa, wb, _, _, h => by
      have hk := kind_eq h
      cases b <;> simp [kind] at hk
      exact lit_unique wa wb h
  | .ptr i, b, r₁, r₂, wa, wb, d₁, d₂, h => by
      have hk := kind_eq h
      cases b <;> simp [kind] at hk
      exact ptr_unique wa wb d₁ d₂ h
  | .list t, b, r₁, r₂, wa, wb, d₁, d₂, h => by
      have hk := kind_eq h
      cases b <;> simp [kind] at hk
      rename_i u
      rw [hc_list, hc_list] at h
      simp only [List.append_assoc] at h
      have h := List.append_cancel_left h
      obtain ⟨rfl, rfl⟩ := dec_ty t u r₁ r₂ (by simpa [Ty.WFHash, wfHash] using wa)
        (by simpa [Ty.WFHash, wfHash] using wb) d₁ d₂ h
      exact ⟨rfl, rfl⟩
  | .dict t, b, r₁, r₂, wa, wb, d₁, d₂, h => by
      have hk := kind_eq h
      cases b <;> simp [kind] at hk
      rename_i u
      rw [hc_dict, hc_dict] at h
      simp only [List.append_assoc] at h
      have h := List.append_cancel_left h
      obtain ⟨rfl, rfl⟩ := dec_ty t u r₁ r₂ (by simpa [Ty.WFHash, wfHash] using wa)
        (by simpa [Ty.WFHash, wfHash] using wb) d₁ d₂ h
      exact ⟨rfl, rfl⟩
  | .opt t, b, r₁, r₂, wa, wb, d₁, d₂, h => by
      have hk := kind_eq h
      cases b <;> simp [kind] at hk
      rename_i u
      rw [hc_opt, hc_opt] at h
      simp only [List.append_assoc] at h
      have h := List.append_cancel_left h
      obtain ⟨rfl, rfl⟩ := dec_ty t u r₁ r₂ (by simpa [Ty.WFHash, wfHash] using wa)
        (by simpa [Ty.WFHash, wfHash] using wb) d₁ d₂ h
      exact ⟨rfl, rfl⟩
  | .union ts, b, r₁, r₂, wa, wb, _, _, h => by
      have hk := kind_eq h
      cases b <;> simp [kind] at hk
      rename_i us
      rw [hc_union, hc_union] at h
      simp only [List.append_assoc] at h
      have h := List.append_cancel_left h
      have h := cl_to_ctl (Or.inl rfl) (headOK_hashStrs ts) (headOK_hashStrs us) h
      obtain ⟨rfl, rfl⟩ := dec_tys ts us r₁ r₂ (by simpa [Ty.WFHash, wfHash] using wa)
        (by simpa [Ty.WFHash, wfHash] using wb) h
      exact ⟨rfl, rfl⟩
  | .tuple ts, b, r₁, r₂, wa, wb, _, _, h => by
      have hk := kind_eq h
      cases b <;> simp [kind] at hk
      rename_i us
      rw [hc_tuple, hc_tuple] at h
      simp only [List.append_assoc] at h
      have h := List.append_cancel_left h
      have h := cl_to_ctl (Or.inl rfl) (headOK_hashStrs ts) (headOK_hashStrs us) h
      obtain ⟨rfl, rfl⟩ := dec_tys ts us r₁ r₂ (by simpa [Ty.WFHash, wfHash] using wa)
        (by simpa [Ty.WFHash, wfHash] using wb) h
      exact ⟨rfl, rfl⟩
  | .obj fs, b, r₁, r₂, wa, wb, _, _, h => by
      have hk := kind_eq h
      cases b <;> simp [kind] at hk
      rename_i gs
      rw [hc_obj, hc_obj] at h
      simp only [List.cons_append, List.append_assoc, List.cons.injEq, true_and] at h
      have h := cl_to_ctl (Or.inr rfl) (headOK_hashFields fs) (headOK_hashFields gs) h
      obtain ⟨rfl, rfl⟩ := dec_fields fs gs r₁ r₂ (by simpa [Ty.WFHash, wfHash] using wa)
        (by simpa [Ty.WFHash, wfHash] using wb) h
      exact ⟨rfl, rfl⟩
/-- `,h₁,h₂…]` determines the member list -/
theorem dec_tys : (as : List Ty) → ∀ (bs : List Ty) (r₁ r₂ : List Char), wfHashs as = true → wfHashs bs = true →
    ctl (hashStrs as) ++ ']' :: r₁ = ctl (hashStrs bs) ++ ']' :: r₂ → as = bs ∧ r₁ = r₂
  | [], [], r₁, r₂, _, _, h => by simpa [hashStrs, ctl] using h
  | [], u :: us, r₁, r₂, _, _, h => by simp [hashStrs, ctl] at h
  | t :: ts, [], r₁, r₂, _, _, h => by simp [hashStrs, ctl] at h
  | t :: ts, u :: us, r₁, r₂, wa, wb, h => by
      simp only [hashStrs, ctl, List.cons_append, List.append_assoc, List.cons.injEq, true_and] at h
      simp only [wfHashs, Bool.and_eq_true] at wa wb
      obtain ⟨rfl, h'⟩ := dec_ty t u _ _ wa.1 wb.1 (delim_ctl _ _ (Or.inl rfl) _) (delim_ctl _ _ (Or.inl rfl) _) h
      obtain ⟨rfl, rfl⟩ := dec_tys ts us r₁ r₂ wa.2 wb.2 h'
      exact ⟨rfl, rfl⟩
/-- `,"k₁":h₁,"k₂":h₂…}` determines the field list -/
theorem dec_fields : (fs : List (String × Ty)) → ∀ (gs : List (String × Ty)) (r₁ r₂ : List Char),
    wfHashF fs = true → wfHashF gs = true →
    ctl (hashFields fs) ++ '}' :: r₁ = ctl (hashFields gs) ++ '}' :: r₂ → fs = gs ∧ r₁ = r₂
  | [], [], r₁, r₂, _, _, h => by simpa [hashFields, ctl] using h
  | [], (k', u) :: gs, r₁, r₂, _, _, h => by simp [hashFields, ctl] at h
  | (k, t) :: fs, [], r₁, r₂, _, _, h => by simp [hashFields, ctl] at h
  | (k, t) :: fs, (k', u) :: gs, r₁, r₂, wa, wb, h => by
      simp only [hashFields, ctl, String.toList_append, List.cons_append, List.append_assoc,
        List.cons.injEq, true_and] at h
      simp only [wfHashF, Bool.and_eq_true] at wa wb
      obtain ⟨rfl, h1⟩ := jsonDumps_unique h
      have hc : ":".toList = [':'] := by simp
      simp only [hc, List.cons_append, List.nil_append, List.cons.injEq, true_and] at h1
      obtain ⟨rfl, h'⟩ := dec_ty t u _ _ wa.1 wb.1 (delim_ctl _ _ (Or.inr rfl) _) (delim_ctl _ _ (Or.inr rfl) _) h1
      obtain ⟨rfl, rfl⟩ := dec_fields fs gs r₁ r₂ wa.2 wb.2 h'
      exact ⟨rfl, rfl⟩
end

/-- `hashStr` is injective on well-formed types (restated as `hashStr_inj` in `J2M/Props/HashInj.lean`) -/
theorem hashStr_inj_core (a b : Ty) (wa : a.WFHash) (wb : b.WFHash) (h : hashStr a = hashStr b) : a = b :=
  (dec_ty a b [] [] wa wb delim_nil delim_nil (by rw [h])).1

end HashInj
end J2M
