/-
  Analysis of `DUnion.__init__` (`mkUnionMembers`): normal form of the tail, invariants of the
  `handle_type` loop, which members can appear (C02.2), which members are represented (C13.3 / C01),
  permutation invariance (C07.3).
-/
import J2M.Sem
import Batteries.Data.List.Basic
namespace J2M

/-- an overflowed literal (`StringLiteral.overflowed`) -/
def Ty.isOvLit : Ty → Bool | .lit true _ => true | _ => false

def U0 : UState := ⟨[], [], true, []⟩

def litOverflows (c : LitCfg) (vals : List String) : Bool :=
  vals.length > c.maxLiterals || vals.any (fun s => s.length ≥ c.maxStrLen)

theorem mkLit_eq (c : LitCfg) (vals : List String) :
    mkLit c vals = if litOverflows c vals then .lit true [] else .lit false vals := rfl

def addStr (st : UState) : List Ty :=
  if st.hashes.contains (hashStr .str) then st.unique else .str :: st.unique

/-- the tail of `DUnion.__init__` after the `handle_type` loop -/
def finishUnion (c : LitCfg) (st : UState) : List Ty :=
  if st.useLit then
    if st.lits.isEmpty then st.unique.reverse
    else if litOverflows c st.lits then (addStr st).reverse
    else (.lit false st.lits :: st.unique).reverse
  else (addStr st).reverse

def unionTail (c : LitCfg) (st : UState) : List Ty :=
  let (st, useLit) :=
    if !st.lits.isEmpty && st.useLit then
      match mkLit c st.lits with
      | .lit true _ => (st, false)
      | l => ({ st with unique := l :: st.unique }, true)
    else (st, st.useLit)
  let st := if !useLit then
      (if st.hashes.contains (hashStr .str) then st else { st with unique := .str :: st.unique })
    else st
  st.unique.reverse

theorem unionTail_eq (c : LitCfg) (st : UState) : unionTail c st = finishUnion c st := by
  unfold unionTail finishUnion addStr
  rw [mkLit_eq]
  cases h1 : st.useLit <;> cases h2 : st.lits.isEmpty <;> cases h3 : litOverflows c st.lits <;> simp <;> split <;> rfl

theorem mkUnionMembers_eq (c : LitCfg) (ts : List Ty) :
    mkUnionMembers c ts = finishUnion c ((flattenUnion ts).foldl handleType U0) := by
  rw [← unionTail_eq]; rfl

/-! ### `handle_type` field by field -/

theorem mem_insertUniq {s x : String} {l : List String} : s ∈ insertUniq x l ↔ s = x ∨ s ∈ l := by
  induction l with
  | nil => simp [insertUniq]
  | cons y ys ih =>
    unfold insertUniq
    split
    · simp
    · split
      · rename_i h; have : x = y := by simpa using h
        subst this; simp
      · simp [ih]; grind

theorem mem_foldl_insertUniq {s : String} {vs l : List String} :
    s ∈ vs.foldl (fun acc x => insertUniq x acc) l ↔ s ∈ l ∨ s ∈ vs := by
  induction vs generalizing l with
  | nil => simp
  | cons v vs ih => simp [ih, mem_insertUniq]; grind

theorem handleType_lit (st : UState) (ov : Bool) (vs : List String) :
    handleType st (.lit ov vs) =
      if st.useLit && !ov then
        { st with useLit := true, lits := vs.foldl (fun acc x => insertUniq x acc) st.lits }
      else { st with useLit := false } := by
  unfold handleType
  cases h1 : st.useLit <;> cases ov <;> simp [Ty.isStr]

theorem handleType_nonlit (st : UState) (t : Ty) (h : t.isLit = false) :
    handleType st t =
      { unique := if st.hashes.contains (hashStr t) then st.unique else t :: st.unique,
        hashes := if st.hashes.contains (hashStr t) then st.hashes else hashStr t :: st.hashes,
        useLit := !t.isStr && st.useLit, lits := st.lits } := by
  unfold handleType
  cases t <;> simp [Ty.isLit] at h <;> simp [Ty.isStr] <;> split <;> simp_all

theorem handleType_useLit (st : UState) (t : Ty) :
    (handleType st t).useLit = (st.useLit && !t.isStr && !t.isOvLit) := by
  cases hl : t.isLit
  · rw [handleType_nonlit st t hl]
    cases t <;> simp [Ty.isLit] at hl <;> simp [Ty.isStr, Ty.isOvLit]
  · cases t <;> simp [Ty.isLit] at hl
    rename_i ov vs
    rw [handleType_lit]
    cases st.useLit <;> cases ov <;> simp [Ty.isStr, Ty.isOvLit]

theorem fold_useLit (st : UState) (fl : List Ty) :
    (fl.foldl handleType st).useLit = (st.useLit && fl.all (fun t => !t.isStr && !t.isOvLit)) := by
  induction fl generalizing st with
  | nil => simp
  | cons t fl ih => rw [List.foldl_cons, ih, handleType_useLit]; simp [Bool.and_assoc]

theorem handleType_hashes_inv {st : UState} (t : Ty) (h : st.hashes = st.unique.map hashStr) :
    (handleType st t).hashes = (handleType st t).unique.map hashStr := by
  cases hl : t.isLit
  · rw [handleType_nonlit st t hl]
    dsimp only
    split <;> simp [h]
  · cases t <;> simp [Ty.isLit] at hl
    rw [handleType_lit]
    split <;> exact h

theorem fold_hashes_inv {st : UState} (fl : List Ty) (h : st.hashes = st.unique.map hashStr) :
    (fl.foldl handleType st).hashes = (fl.foldl handleType st).unique.map hashStr := by
  induction fl generalizing st with
  | nil => exact h
  | cons t fl ih => exact ih (handleType_hashes_inv t h)

theorem handleType_unique_sub {st : UState} {t u : Ty} (h : u ∈ (handleType st t).unique) :
    u ∈ st.unique ∨ (u = t ∧ t.isLit = false ∧ hashStr t ∉ st.hashes) := by
  cases hl : t.isLit
  · rw [handleType_nonlit st t hl] at h
    dsimp only at h
    split at h
    · exact .inl h
    · rename_i hc
      rcases List.mem_cons.1 h with h | h
      · exact .inr ⟨h, rfl, by simpa using hc⟩
      · exact .inl h
  · cases t <;> simp [Ty.isLit] at hl
    rw [handleType_lit] at h
    split at h <;> exact .inl h

theorem handleType_unique_mono {st : UState} {t u : Ty} (h : u ∈ st.unique) :
    u ∈ (handleType st t).unique := by
  cases hl : t.isLit
  · rw [handleType_nonlit st t hl]
    dsimp only
    split
    · exact h
    · exact List.mem_cons_of_mem _ h
  · cases t <;> simp [Ty.isLit] at hl
    rw [handleType_lit]
    split <;> exact h

theorem fold_unique_mono {st : UState} {fl : List Ty} {u : Ty} (h : u ∈ st.unique) :
    u ∈ (fl.foldl handleType st).unique := by
  induction fl generalizing st with
  | nil => exact h
  | cons t fl ih => exact ih (handleType_unique_mono h)

theorem fold_unique_sub {st : UState} {fl : List Ty} {u : Ty} (h : u ∈ (fl.foldl handleType st).unique) :
    u ∈ st.unique ∨ (u ∈ fl ∧ u.isLit = false) := by
  induction fl generalizing st with
  | nil => exact .inl h
  | cons t fl ih =>
    rcases ih h with h1 | ⟨h1, h2⟩
    · rcases handleType_unique_sub h1 with h3 | ⟨h3, h4, _⟩
      · exact .inl h3
      · subst h3; exact .inr ⟨List.mem_cons_self .., h4⟩
    · exact .inr ⟨List.mem_cons_of_mem _ h1, h2⟩

theorem handleType_hash_mem (st : UState) {t : Ty} (hl : t.isLit = false) :
    hashStr t ∈ (handleType st t).hashes := by
  rw [handleType_nonlit st t hl]
  dsimp only
  split
  · rename_i h; simpa using h
  · exact List.mem_cons_self ..

theorem handleType_hashes_mono {st : UState} {t : Ty} {x : String} (h : x ∈ st.hashes) :
    x ∈ (handleType st t).hashes := by
  cases hl : t.isLit
  · rw [handleType_nonlit st t hl]
    dsimp only
    split
    · exact h
    · exact List.mem_cons_of_mem _ h
  · cases t <;> simp [Ty.isLit] at hl
    rw [handleType_lit]
    split <;> exact h

theorem fold_hashes_mono {st : UState} {fl : List Ty} {x : String} (h : x ∈ st.hashes) :
    x ∈ (fl.foldl handleType st).hashes := by
  induction fl generalizing st with
  | nil => exact h
  | cons t fl ih => exact ih (handleType_hashes_mono h)

theorem fold_hash_mem {st : UState} {fl : List Ty} {t : Ty} (ht : t ∈ fl) (hl : t.isLit = false) :
    hashStr t ∈ (fl.foldl handleType st).hashes := by
  induction fl generalizing st with
  | nil => simp at ht
  | cons t' fl ih =>
    rcases List.mem_cons.1 ht with h | h
    · subst h; exact fold_hashes_mono (st := handleType st t) (handleType_hash_mem st hl)
    · exact ih h

theorem handleType_lits_sub {st : UState} {t : Ty} {s : String} (h : s ∈ (handleType st t).lits) :
    s ∈ st.lits ∨ ∃ vs, t = .lit false vs ∧ s ∈ vs := by
  cases hl : t.isLit
  · rw [handleType_nonlit st t hl] at h; exact .inl h
  · cases t <;> simp [Ty.isLit] at hl
    rename_i ov vs
    rw [handleType_lit] at h
    split at h
    · rename_i hc
      have hov : ov = false := by cases ov <;> simp_all
      subst hov
      rcases mem_foldl_insertUniq.1 h with h | h
      · exact .inl h
      · exact .inr ⟨vs, rfl, h⟩
    · exact .inl h

theorem fold_lits_sub {st : UState} {fl : List Ty} {s : String} (h : s ∈ (fl.foldl handleType st).lits) :
    s ∈ st.lits ∨ ∃ vs, .lit false vs ∈ fl ∧ s ∈ vs := by
  induction fl generalizing st with
  | nil => exact .inl h
  | cons t fl ih =>
    rcases ih h with h1 | ⟨vs, h1, h2⟩
    · rcases handleType_lits_sub h1 with h3 | ⟨vs, h3, h4⟩
      · exact .inl h3
      · subst h3; exact .inr ⟨vs, List.mem_cons_self .., h4⟩
    · exact .inr ⟨vs, List.mem_cons_of_mem _ h1, h2⟩

theorem handleType_lits_sup {st : UState} {t : Ty} {s : String} (hu : (handleType st t).useLit = true)
    (h : s ∈ st.lits ∨ ∃ vs, t = .lit false vs ∧ s ∈ vs) : s ∈ (handleType st t).lits := by
  rw [handleType_useLit] at hu
  cases hl : t.isLit
  · rw [handleType_nonlit st t hl]
    rcases h with h | ⟨vs, h, _⟩
    · exact h
    · subst h; simp [Ty.isLit] at hl
  · cases t <;> simp [Ty.isLit] at hl
    rename_i ov vs
    have hov : ov = false := by cases ov <;> simp_all [Ty.isOvLit]
    subst hov
    rw [handleType_lit]
    have : st.useLit = true := by simp_all
    simp only [this, Bool.not_false, Bool.and_self, if_true]
    apply mem_foldl_insertUniq.2
    rcases h with h | ⟨ws, h, h2⟩
    · exact .inl h
    · cases h; exact .inr h2

theorem fold_lits_sup {st : UState} {fl : List Ty} {s : String}
    (hu : (fl.foldl handleType st).useLit = true)
    (h : s ∈ st.lits ∨ ∃ vs, .lit false vs ∈ fl ∧ s ∈ vs) : s ∈ (fl.foldl handleType st).lits := by
  induction fl generalizing st with
  | nil => simpa using h
  | cons t fl ih =>
    have hu' : (handleType st t).useLit = true := by
      rw [List.foldl_cons, fold_useLit] at hu
      simp only [Bool.and_eq_true] at hu
      exact hu.1
    apply ih hu
    rcases h with h | ⟨vs, h, h2⟩
    · exact .inl (handleType_lits_sup hu' (.inl h))
    · rcases List.mem_cons.1 h with h | h
      · exact .inl (handleType_lits_sup hu' (.inr ⟨vs, h.symm, h2⟩))
      · exact .inr ⟨vs, h, h2⟩

/-! ### the members of `DUnion(*ts)` -/

/-- no `str` member and no overflowed literal among the flattened members -/
def NoStrNoOv (fl : List Ty) : Prop := ∀ t ∈ fl, t.isStr = false ∧ t.isOvLit = false

/-- `vs` is exactly the union of the value sets of the (non-overflowed) literal members -/
def LitFold (fl : List Ty) (vs : List String) : Prop :=
  ∀ s, s ∈ vs ↔ ∃ ws, Ty.lit false ws ∈ fl ∧ s ∈ ws

/-- why `str` may be a member: a `str` member, an overflowed literal member, or an overflowing fold -/
def StrCause (c : LitCfg) (fl : List Ty) : Prop :=
  Ty.str ∈ fl ∨ (∃ vs, Ty.lit true vs ∈ fl) ∨
    (NoStrNoOv fl ∧ ∃ vs, LitFold fl vs ∧ litOverflows c vs = true)

theorem fold_useLit_true_iff (fl : List Ty) :
    (fl.foldl handleType U0).useLit = true ↔ NoStrNoOv fl := by
  rw [fold_useLit]
  simp [U0, NoStrNoOv]

theorem fold_litFold {fl : List Ty} (hu : (fl.foldl handleType U0).useLit = true) :
    LitFold fl (fl.foldl handleType U0).lits := by
  intro s
  constructor
  · intro h
    rcases fold_lits_sub h with h | h
    · simp [U0] at h
    · exact h
  · intro h; exact fold_lits_sup hu (.inr h)

theorem not_noStrNoOv {fl : List Ty} (h : ¬ NoStrNoOv fl) :
    Ty.str ∈ fl ∨ ∃ vs, Ty.lit true vs ∈ fl := by
  have h : ∃ t, t ∈ fl ∧ ¬ (t.isStr = false ∧ t.isOvLit = false) := by
    apply Classical.byContradiction
    intro hc
    apply h
    intro t ht
    apply Classical.byContradiction
    intro hn
    exact hc ⟨t, ht, hn⟩
  obtain ⟨t, ht, hn⟩ := h
  cases t <;> simp [Ty.isStr, Ty.isOvLit] at hn
  · exact .inl ht
  · rename_i ov vs
    cases ov <;> simp at hn
    exact .inr ⟨vs, ht⟩

theorem litOverflows_ne_nil {c : LitCfg} {vs : List String} (h : litOverflows c vs = true) : vs ≠ [] := by
  rintro rfl
  simp [litOverflows] at h

theorem mem_addStr {st : UState} {u : Ty} (h : u ∈ addStr st) : u = .str ∨ u ∈ st.unique := by
  unfold addStr at h
  split at h
  · exact .inr h
  · simpa using h

/--
  **C02.2** every member of `DUnion(*ts)` is a non-literal flattened member of `ts`, or the folded
  literal (value set = exactly the union of the members' value sets, no `str`/overflowed member,
  fold within limits), or `str` with one of the three documented causes.
-/
theorem mkUnion_members_subset (c : LitCfg) (ts : List Ty) :
    ∀ u ∈ mkUnionMembers c ts,
      (u ∈ flattenUnion ts ∧ u.isLit = false) ∨
      (∃ vs, u = .lit false vs ∧ vs ≠ [] ∧ LitFold (flattenUnion ts) vs ∧ NoStrNoOv (flattenUnion ts) ∧
          litOverflows c vs = false) ∨
      (u = .str ∧ StrCause c (flattenUnion ts)) := by
  intro u hu
  rw [mkUnionMembers_eq] at hu
  generalize hfl : flattenUnion ts = fl at hu ⊢
  have hsub : ∀ u, u ∈ (fl.foldl handleType U0).unique → u ∈ fl ∧ u.isLit = false := by
    intro u h
    rcases fold_unique_sub h with h | h
    · simp [U0] at h
    · exact h
  unfold finishUnion at hu
  split at hu
  · rename_i hul
    have hns := (fold_useLit_true_iff fl).1 hul
    have hlf := fold_litFold hul
    split at hu
    · exact .inl (hsub u (by simpa using hu))
    · rename_i hne
      split at hu
      · rename_i hov
        rcases mem_addStr (List.mem_reverse.1 hu) with h | h
        · exact .inr (.inr ⟨h, .inr (.inr ⟨hns, _, hlf, hov⟩)⟩)
        · exact .inl (hsub u h)
      · rename_i hov
        rcases List.mem_cons.1 (List.mem_reverse.1 hu) with h | h
        · exact .inr (.inl ⟨_, h, by simpa [List.isEmpty_iff] using hne, hlf, hns, by simpa using hov⟩)
        · exact .inl (hsub u h)
  · rename_i hul
    rcases mem_addStr (List.mem_reverse.1 hu) with h | h
    · refine .inr (.inr ⟨h, ?_⟩)
      have : ¬ NoStrNoOv fl := fun hn => hul ((fold_useLit_true_iff fl).2 hn)
      rcases not_noStrNoOv this with h | h
      · exact .inl h
      · exact .inr (.inl h)
    · exact .inl (hsub u h)

/-- something hash-equal to `str` is among `addStr` -/
theorem addStr_has_str {st : UState} (hinv : st.hashes = st.unique.map hashStr) :
    ∃ u ∈ addStr st, (u = .str ∨ u ∈ st.unique) ∧ hashStr u = hashStr .str := by
  unfold addStr
  split
  · rename_i h
    have : hashStr .str ∈ st.unique.map hashStr := by rw [← hinv]; simpa using h
    obtain ⟨u, hu, he⟩ := List.mem_map.1 this
    exact ⟨u, hu, .inr hu, he⟩
  · exact ⟨.str, List.mem_cons_self .., .inl rfl, rfl⟩

theorem unique_sub_addStr {st : UState} {u : Ty} (h : u ∈ st.unique) : u ∈ addStr st := by
  unfold addStr; split
  · exact h
  · exact List.mem_cons_of_mem _ h

theorem unique_sub_finish (c : LitCfg) {st : UState} {u : Ty} (h : u ∈ st.unique) :
    u ∈ finishUnion c st := by
  unfold finishUnion
  split
  · split
    · simpa using h
    · split
      · exact List.mem_reverse.2 (unique_sub_addStr h)
      · exact List.mem_reverse.2 (List.mem_cons_of_mem _ h)
  · exact List.mem_reverse.2 (unique_sub_addStr h)

/--
  Converse of C02.2 ("nothing is lost"): every non-literal flattened member has a hash-equal
  representative among the members; every value of a literal member is in the folded literal,
  or a member hash-equal to `str` is present.
-/
theorem mkUnion_members_cover (c : LitCfg) (ts : List Ty) :
    ∀ t ∈ flattenUnion ts,
      (t.isLit = false → ∃ u ∈ mkUnionMembers c ts,
          u ∈ flattenUnion ts ∧ u.isLit = false ∧ hashStr u = hashStr t) ∧
      (∀ ov vs, t = .lit ov vs → ∀ s ∈ vs,
          (∃ ws, .lit false ws ∈ mkUnionMembers c ts ∧ s ∈ ws) ∨
          (∃ u ∈ mkUnionMembers c ts, (u = .str ∨ u ∈ flattenUnion ts) ∧ hashStr u = hashStr .str)) := by
  intro t ht
  rw [mkUnionMembers_eq]
  generalize hfl : flattenUnion ts = fl at ht ⊢
  have hinv : (fl.foldl handleType U0).hashes = (fl.foldl handleType U0).unique.map hashStr :=
    fold_hashes_inv fl rfl
  have hsub : ∀ u, u ∈ (fl.foldl handleType U0).unique → u ∈ fl ∧ u.isLit = false := by
    intro u h
    rcases fold_unique_sub h with h | h
    · simp [U0] at h
    · exact h
  constructor
  · intro hl
    have := fold_hash_mem (st := U0) ht hl
    rw [hinv] at this
    obtain ⟨u, hu, he⟩ := List.mem_map.1 this
    exact ⟨u, unique_sub_finish c hu, (hsub u hu).1, (hsub u hu).2, he⟩
  · intro ov vs he s hs
    subst he
    have hstr : ∃ u ∈ (addStr (fl.foldl handleType U0)).reverse,
        (u = .str ∨ u ∈ fl) ∧ hashStr u = hashStr .str := by
      obtain ⟨u, h1, h2, h3⟩ := addStr_has_str hinv
      refine ⟨u, List.mem_reverse.2 h1, ?_, h3⟩
      rcases h2 with h2 | h2
      · exact .inl h2
      · exact .inr (hsub u h2).1
    unfold finishUnion
    split
    · rename_i hul
      have hns := (fold_useLit_true_iff fl).1 hul
      have hov : ov = false := by
        have := (hns _ ht).2
        cases ov <;> simp_all [Ty.isOvLit]
      subst hov
      have hmem : s ∈ (fl.foldl handleType U0).lits := fold_lits_sup hul (.inr ⟨vs, ht, hs⟩)
      split
      · rename_i he; simp [List.isEmpty_iff] at he; rw [he] at hmem; simp at hmem
      · split
        · exact .inr hstr
        · exact .inl ⟨_, List.mem_reverse.2 (List.mem_cons_self ..), hmem⟩
    · exact .inr hstr

/-! ### inhabitation through `DUnion(*ts)` and `wrapElems` (for C13.3) -/

/-- "equal hash strings ⇒ same inhabitants" on the listed types (DESIGN §8.1-2) -/
def HashSound (acc : Accepts) (g : ModelLookup) (ts : List Ty) : Prop :=
  ∀ a ∈ ts, ∀ b ∈ ts, hashStr a = hashStr b → ∀ v, Inh acc g a v → Inh acc g b v

theorem inh_flatten {acc : Accepts} {g : ModelLookup} {v : Json} :
    ∀ ts : List Ty, (∃ t ∈ ts, Inh acc g t v) → ∃ t' ∈ flattenUnion ts, Inh acc g t' v := by
  intro ts
  induction ts using flattenUnion.induct with
  | case1 => simp
  | case2 ms rest ih1 ih2 =>
    rintro ⟨t, ht, hi⟩
    rw [flattenUnion]
    rcases List.mem_cons.1 ht with h | h
    · subst h
      cases hi with
      | union hm him =>
        obtain ⟨t', h1, h2⟩ := ih1 ⟨_, hm, him⟩
        exact ⟨t', List.mem_append_left _ h1, h2⟩
    · obtain ⟨t', h1, h2⟩ := ih2 ⟨t, h, hi⟩
      exact ⟨t', List.mem_append_right _ h1, h2⟩
  | case3 t0 rest hnu ih =>
    rintro ⟨t, ht, hi⟩
    rw [flattenUnion.eq_3 _ _ hnu]
    rcases List.mem_cons.1 ht with h | h
    · subst h; exact ⟨t, List.mem_cons_self .., hi⟩
    · obtain ⟨t', h1, h2⟩ := ih ⟨t, h, hi⟩
      exact ⟨t', List.mem_cons_of_mem _ h1, h2⟩

/-- `DUnion(*ts)` keeps every inhabitant of every member, given hash soundness on the members and `str` -/
theorem mkUnion_inh {acc : Accepts} {g : ModelLookup} {c : LitCfg} {ts : List Ty} {t : Ty} {v : Json}
    (HS : HashSound acc g (.str :: flattenUnion ts)) (ht : t ∈ flattenUnion ts) (hi : Inh acc g t v) :
    ∃ u ∈ mkUnionMembers c ts, Inh acc g u v := by
  obtain ⟨h1, h2⟩ := mkUnion_members_cover c ts t ht
  cases hl : t.isLit
  · obtain ⟨u, hu, hfu, _, he⟩ := h1 hl
    exact ⟨u, hu, HS t (List.mem_cons_of_mem _ ht) u (List.mem_cons_of_mem _ hfu) he.symm v hi⟩
  · cases t <;> simp [Ty.isLit] at hl
    rename_i ov vs
    cases hi with
    | lit hs =>
      rename_i s
      rcases h2 _ _ rfl s hs with ⟨ws, hw, hsw⟩ | ⟨u, hu, hmem, he⟩
      · exact ⟨_, hw, .lit hsw⟩
      · refine ⟨u, hu, HS .str (List.mem_cons_self ..) u ?_ he.symm _ .str⟩
        rcases hmem with h | h
        · subst h; exact List.mem_cons_self ..
        · exact List.mem_cons_of_mem _ h

/-- the element type built by `wrapElems` admits every value admitted by one of the element types -/
theorem wrapElems_inh {acc : Accepts} {g : ModelLookup} {c : LitCfg} {wrap : Ty → Ty} {ts : List Ty}
    {t : Ty} {v : Json}
    (HS : HashSound acc g (.str :: flattenUnion ts)) (ht : t ∈ ts) (hi : Inh acc g t v) :
    ∃ T, wrapElems c wrap ts = wrap T ∧ Inh acc g T v := by
  unfold wrapElems
  split
  · rename_i t'
    have : t = t' := by simpa using ht
    subst this; exact ⟨t, rfl, hi⟩
  · obtain ⟨t', h1, h2⟩ := inh_flatten ts ⟨t, ht, hi⟩
    obtain ⟨u, hu, hiu⟩ := mkUnion_inh (c := c) HS h1 h2
    split
    · rename_i u' he
      rw [he] at hu
      have : u = u' := by simpa using hu
      subst this; exact ⟨u, rfl, hiu⟩
    · exact ⟨_, rfl, .union hu hiu⟩

/-! ### permutation invariance (for C07.3) -/

theorem flattenUnion_cons (t : Ty) (rest : List Ty) :
    flattenUnion (t :: rest) = flattenUnion [t] ++ flattenUnion rest := by
  by_cases h : ∃ ms, t = .union ms
  · obtain ⟨ms, rfl⟩ := h
    simp [flattenUnion]
  · have hnu : ∀ ms, t = .union ms → False := fun ms e => h ⟨ms, e⟩
    rw [flattenUnion.eq_3 _ _ hnu, flattenUnion.eq_3 _ _ hnu]
    simp [flattenUnion]

theorem flattenUnion_perm {ts₁ ts₂ : List Ty} (h : ts₁.Perm ts₂) :
    (flattenUnion ts₁).Perm (flattenUnion ts₂) := by
  induction h with
  | nil => exact .refl _
  | cons x _ ih =>
    rename_i l1 l2 _
    rw [flattenUnion_cons x l1, flattenUnion_cons x l2]; exact ih.append_left _
  | swap x y l =>
    rw [flattenUnion_cons y (x :: l), flattenUnion_cons x l, flattenUnion_cons x (y :: l),
      flattenUnion_cons y l, ← List.append_assoc, ← List.append_assoc]
    exact List.perm_append_comm.append_right _
  | trans _ _ ih1 ih2 => exact ih1.trans ih2

theorem handleType_hashes_nodup {st : UState} (t : Ty) (h : st.hashes.Nodup) :
    (handleType st t).hashes.Nodup := by
  cases hl : t.isLit
  · rw [handleType_nonlit st t hl]
    dsimp only
    split
    · exact h
    · rename_i hc
      exact List.nodup_cons.2 ⟨by simpa using hc, h⟩
  · cases t <;> simp [Ty.isLit] at hl
    rw [handleType_lit]
    split <;> exact h

theorem fold_hashes_nodup {st : UState} (fl : List Ty) (h : st.hashes.Nodup) :
    (fl.foldl handleType st).hashes.Nodup := by
  induction fl generalizing st with
  | nil => exact h
  | cons t fl ih => exact ih (handleType_hashes_nodup t h)

/-- the hash string separates the listed types -/
def HashInj (fl : List Ty) : Prop := ∀ a ∈ fl, ∀ b ∈ fl, hashStr a = hashStr b → a = b

/-- no `str` and no literal among the listed types -/
def NoStrNoLit (fl : List Ty) : Prop := ∀ t ∈ fl, t.isStr = false ∧ t.isLit = false

/-- without `str`/literal members, `DUnion(*ts)` is the flattened member list de-duplicated by hash:
    duplicate-free, and (hash strings being injective on the members) with exactly the same elements -/
theorem mkUnionMembers_plain {c : LitCfg} {ts : List Ty} (hn : NoStrNoLit (flattenUnion ts))
    (hi : HashInj (flattenUnion ts)) :
    (mkUnionMembers c ts).Nodup ∧ ∀ u, u ∈ mkUnionMembers c ts ↔ u ∈ flattenUnion ts := by
  rw [mkUnionMembers_eq]
  generalize flattenUnion ts = fl at hn hi
  have hul : (fl.foldl handleType U0).useLit = true := by
    rw [fold_useLit_true_iff]
    intro t ht
    refine ⟨(hn t ht).1, ?_⟩
    have := (hn t ht).2
    cases t <;> simp [Ty.isLit] at this <;> rfl
  have hle : (fl.foldl handleType U0).lits = [] := by
    apply List.eq_nil_iff_forall_not_mem.2
    intro s hs
    rcases fold_lits_sub hs with h | ⟨vs, h, _⟩
    · simp [U0] at h
    · have := (hn _ h).2; simp [Ty.isLit] at this
  have hinv : (fl.foldl handleType U0).hashes = (fl.foldl handleType U0).unique.map hashStr :=
    fold_hashes_inv fl rfl
  have hnd : (fl.foldl handleType U0).hashes.Nodup := fold_hashes_nodup fl (by simp [U0])
  have hfin : finishUnion c (fl.foldl handleType U0) = (fl.foldl handleType U0).unique.reverse := by
    unfold finishUnion; simp [hul, hle]
  rw [hfin]
  have hsub : ∀ u, u ∈ (fl.foldl handleType U0).unique → u ∈ fl := by
    intro u h
    rcases fold_unique_sub h with h | h
    · simp [U0] at h
    · exact h.1
  constructor
  · rw [(List.reverse_perm _).nodup_iff]
    rw [hinv] at hnd
    exact List.Pairwise.of_map hashStr (fun a b h e => h (e ▸ rfl)) hnd
  · intro u
    rw [List.mem_reverse]
    constructor
    · exact hsub u
    · intro hu
      have := fold_hash_mem (st := U0) hu (hn u hu).2
      rw [hinv] at this
      obtain ⟨u', hu', he⟩ := List.mem_map.1 this
      have : u' = u := hi u' (hsub u' hu') u hu he
      exact this ▸ hu'

/-- **C07.3** `DUnion` of a permuted argument list has the same members up to order
    (no `str`, no literals; hash strings injective on the flattened members). -/
theorem mkUnionMembers_perm {c : LitCfg} {ts₁ ts₂ : List Ty} (hp : ts₁.Perm ts₂)
    (hn : NoStrNoLit (flattenUnion ts₁)) (hi : HashInj (flattenUnion ts₁)) :
    (mkUnionMembers c ts₁).Perm (mkUnionMembers c ts₂) := by
  have hfp := flattenUnion_perm hp
  have hn2 : NoStrNoLit (flattenUnion ts₂) := fun t ht => hn t (hfp.mem_iff.2 ht)
  have hi2 : HashInj (flattenUnion ts₂) :=
    fun a ha b hb => hi a (hfp.mem_iff.2 ha) b (hfp.mem_iff.2 hb)
  obtain ⟨nd1, m1⟩ := mkUnionMembers_plain (c := c) hn hi
  obtain ⟨nd2, m2⟩ := mkUnionMembers_plain (c := c) hn2 hi2
  rw [List.perm_ext_iff_of_nodup nd1 nd2]
  intro u
  rw [m1, m2]
  exact hfp.mem_iff

end J2M
