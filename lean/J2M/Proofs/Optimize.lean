/-
  Canonical normal form `nfc` (C08), the restructured `_optimize_union`, and the proof that
  `optimize` is the identity on canonical normal forms.
-/
import J2M.Proofs.Union
import J2M.Proofs.SplitWorklist
namespace J2M.C08P

/-! ### the canonical normal form -/

/-- a literal set that `StringLiteral(...)`/`DUnion` reproduce unchanged: sorted, duplicate-free,
    non-empty, within the limits -/
def litStable (c : LitCfg) (vs : List String) : Bool :=
  (vs.foldl (fun acc x => insertUniq x acc) [] == vs) && !vs.isEmpty &&
  !(vs.length > c.maxLiterals || vs.any (fun s => s.length ≥ c.maxStrLen))

/-- the category `_optimize_union` puts a member into, numbered in the order of re-assembly:
    0 other, 1 object, 2 list, 3 dict, 4 str / pseudo-type, 5 string literal (moved last by `DUnion`) -/
def _root_.J2M.Ty.cls : Ty → Nat
  | .obj _ => 1 | .list _ => 2 | .dict _ => 3 | .str => 4 | .ser _ => 4 | .lit _ _ => 5
  | _ => 0

/-- members are in re-assembly order and every category except "other" occurs at most once -/
def canonOrder : List Ty → Bool
  | [] => true
  | t :: ts => ts.all (fun u => decide (t.cls < u.cls) || (t.cls == 0 && u.cls == 0)) && canonOrder ts

/-- `Optional[None]` -/
def _root_.J2M.Ty.isOptNull : Ty → Bool | .opt .null => true | _ => false

mutual
/--
  Canonical normal form = `nf` of `Sem.lean` plus
  * union members are in the canonical order of `_optimize_union`/`DUnion`,
  * every pseudo-type is registered,
  * literal sets are sorted/duplicate-free/within limits (`litStable`),
  * inline objects have distinct keys,
  * `Optional[None]` (which `merge_field_sets` produces for a field that is `null` or missing) is not
    the element type of a list/dict (there it would be rewritten to `Optional[Unknown]`).
  `unknown` is allowed under `list`/`dict` (empty container) and under `opt` (`Optional[Unknown]`:
  the repaired result for "only empty containers and nulls seen"), never as a union member.
-/
def nfc (cfg : GenCfg) : Ty → Bool
  | .ser k => cfg.reg.types.contains k
  | .lit ov vs => !ov && litStable cfg.lit vs
  | .list t | .dict t => !t.isOptNull && nfc cfg t
  | .opt t => !t.isOpt && nfc cfg t
  | .union ts => nfUnionMembers ts && canonOrder ts && nfcList cfg ts
  | .tuple ts => nfcList cfg ts
  | .obj fs => nodupStr (fs.map (·.1)) && nfcFields cfg fs
  | _ => true
def nfcList (cfg : GenCfg) : List Ty → Bool
  | [] => true
  | t :: ts => nfc cfg t && nfcList cfg ts
def nfcFields (cfg : GenCfg) : List (String × Ty) → Bool
  | [] => true
  | (_, t) :: fs => nfc cfg t && nfcFields cfg fs
end

theorem litStable_spec {c : LitCfg} {vs : List String} (h : litStable c vs = true) :
    vs.foldl (fun acc x => insertUniq x acc) [] = vs ∧ vs ≠ [] ∧ mkLit c vs = .lit false vs := by
  unfold litStable at h
  simp only [Bool.and_eq_true, beq_iff_eq, Bool.not_eq_true'] at h
  obtain ⟨⟨h1, h2⟩, h3⟩ := h
  refine ⟨h1, by simpa using h2, ?_⟩
  unfold mkLit; rw [h3]; simp

mutual
theorem nfc_nf (cfg : GenCfg) : ∀ t, nfc cfg t = true → nf t = true
  | .int, _ | .float, _ | .bool, _ | .str, _ | .null, _ | .unknown, _ | .ser _, _ | .ptr _, _ => by simp [nf]
  | .lit ov vs, h => by
    simp only [nfc, Bool.and_eq_true, Bool.not_eq_true'] at h
    have := litStable_spec h.2
    simp [nf, h.1, this.2.1]
  | .list t, h | .dict t, h => by
    simp only [nfc, Bool.and_eq_true] at h
    simpa [nf] using nfc_nf cfg t h.2
  | .opt t, h => by
    simp only [nfc, Bool.and_eq_true] at h
    simp only [nf, Bool.and_eq_true]; exact ⟨h.1, nfc_nf cfg t h.2⟩
  | .union ts, h => by
    simp only [nfc, Bool.and_eq_true] at h
    simp only [nf, Bool.and_eq_true]; exact ⟨h.1.1, nfcList_nfList cfg ts h.2⟩
  | .tuple ts, h => by
    simp only [nfc] at h
    simpa [nf] using nfcList_nfList cfg ts h
  | .obj fs, h => by
    simp only [nfc, Bool.and_eq_true] at h
    simpa [nf] using nfcFields_nfFields cfg fs h.2
theorem nfcList_nfList (cfg : GenCfg) : ∀ ts, nfcList cfg ts = true → nfList ts = true
  | [], _ => by simp [nfList]
  | t :: ts, h => by
    simp only [nfcList, Bool.and_eq_true] at h
    simp only [nfList, Bool.and_eq_true]; exact ⟨nfc_nf cfg t h.1, nfcList_nfList cfg ts h.2⟩
theorem nfcFields_nfFields (cfg : GenCfg) : ∀ fs, nfcFields cfg fs = true → nfFields fs = true
  | [], _ => by simp [nfFields]
  | (_, t) :: fs, h => by
    simp only [nfcFields, Bool.and_eq_true] at h
    simp only [nfFields, Bool.and_eq_true]; exact ⟨nfc_nf cfg t h.1, nfcFields_nfFields cfg fs h.2⟩
end

theorem nfcList_iff (cfg : GenCfg) (ts : List Ty) : nfcList cfg ts = true ↔ ∀ t ∈ ts, nfc cfg t = true := by
  induction ts <;> simp_all [nfcList]

theorem nfcFields_iff (cfg : GenCfg) (fs : List (String × Ty)) :
    nfcFields cfg fs = true ↔ ∀ kv ∈ fs, nfc cfg kv.2 = true := by
  induction fs with
  | nil => simp [nfcFields]
  | cons kv fs ih => obtain ⟨k, t⟩ := kv; simp_all [nfcFields]

/-! ### `DUnion` is the identity on canonical member lists (up to moving the literal last) -/

theorem fold_nonlit (ts : List Ty) (st : UState)
    (hl : ∀ t ∈ ts, t.isLit = false)
    (hn : (ts.map hashStr).Nodup) (hd : ∀ t ∈ ts, hashStr t ∉ st.hashes) :
    ts.foldl handleType st =
      { unique := ts.reverse ++ st.unique, hashes := (ts.map hashStr).reverse ++ st.hashes,
        useLit := st.useLit && !ts.any Ty.isStr, lits := st.lits } := by
  induction ts generalizing st with
  | nil => simp
  | cons t ts ih =>
    have hl' : t.isLit = false := hl t (by simp)
    have hf : hashStr t ∉ st.hashes := hd t (by simp)
    rw [List.map_cons, List.nodup_cons] at hn
    rw [List.foldl_cons, handleType_nonlit st t hl']
    simp only [List.contains_eq_mem, hf, decide_false, Bool.false_eq_true, ↓reduceIte]
    rw [ih]
    · cases hs : t.isStr <;> cases hu : st.useLit <;> simp [hs]
    · intro u hu; exact hl u (by simp [hu])
    · exact hn.2
    · intro u hu
      simp only [List.mem_cons, not_or]
      refine ⟨?_, hd u (by simp [hu])⟩
      intro e; exact hn.1 (e ▸ List.mem_map_of_mem hu)

theorem handleType_lit_ok (st : UState) (vs : List String) (h : st.useLit = true) :
    handleType st (.lit false vs) = { st with lits := vs.foldl (fun acc x => insertUniq x acc) st.lits } := by
  cases st; simp_all [handleType, Ty.isStr]

theorem mkUM_canon (c : LitCfg) (A B T : List Ty)
    (hA : ∀ t ∈ A ++ B, t.isLit = false ∧ t.isUnion = false) (hn : ((A ++ B).map hashStr).Nodup)
    (hT : T = [] ∨ ∃ vs, T = [.lit false vs] ∧ litStable c vs = true ∧ ∀ t ∈ A ++ B, t.isStr = false) :
    mkUnionMembers c (A ++ T ++ B) = A ++ B ++ T := by
  rw [mkUnionMembers_eq, foldSt]
  rcases hT with rfl | ⟨vs, rfl, hst, hns⟩
  · rw [List.append_nil, List.append_nil,
      flattenUnion_of_flat _ (fun t ht => (hA t ht).2),
      fold_nonlit _ _ (fun t ht => (hA t ht).1) hn (by simp)]
    rcases finishU_cases c ⟨(A ++ B).reverse ++ [], (List.map hashStr (A ++ B)).reverse ++ [],
        true && !(A ++ B).any Ty.isStr, []⟩ with ⟨h, _⟩ | ⟨h, _⟩ | ⟨h, hns, h3⟩
    · simp at h
    · simpa using h
    · exfalso
      rcases h3 with h3 | h3
      · simp only [Bool.true_and, Bool.not_eq_false', List.any_eq_true] at h3
        obtain ⟨u, hu, hs⟩ := h3
        cases u <;> simp [Ty.isStr] at hs
        apply hns
        simp only [List.append_nil, List.mem_reverse, List.mem_map]
        exact ⟨_, hu, rfl⟩
      · simp [mkLit] at h3
  · obtain ⟨h1, h2, h3⟩ := litStable_spec hst
    have hflat : flattenUnion (A ++ [Ty.lit false vs] ++ B) = A ++ [Ty.lit false vs] ++ B := by
      apply flattenUnion_of_flat
      intro t ht
      simp only [List.append_assoc, List.mem_append, List.mem_cons, List.not_mem_nil, or_false] at ht
      rcases ht with h | rfl | h
      · exact (hA t (by simp [h])).2
      · rfl
      · exact (hA t (by simp [h])).2
    rw [List.map_append, List.nodup_append] at hn
    obtain ⟨hnA, hnB, hdis⟩ := hn
    have hsA : A.any Ty.isStr = false := by
      rw [List.any_eq_false]; intro t ht; simp [hns t (by simp [ht])]
    have hsB : B.any Ty.isStr = false := by
      rw [List.any_eq_false]; intro t ht; simp [hns t (by simp [ht])]
    rw [hflat, List.foldl_append, List.foldl_append,
      fold_nonlit A _ (fun t ht => (hA t (by simp [ht])).1) hnA (by simp)]
    simp only [List.foldl_cons, List.foldl_nil]
    rw [handleType_lit_ok _ _ (by simp [hsA])]
    rw [fold_nonlit B _ (fun t ht => (hA t (by simp [ht])).1) hnB]
    · simp only [h1, hsA, hsB]
      rcases finishU_cases c ⟨B.reverse ++ (A.reverse ++ []), (List.map hashStr B).reverse ++ ((List.map hashStr A).reverse ++ []),
        (true && !false) && !false, vs⟩ with ⟨_, _, _, h⟩ | ⟨_, h⟩ | ⟨_, _, h⟩
      · simpa using h
      · simp [h2, h3] at h
      · simp [h3] at h
    · intro t ht
      simp only [List.append_nil, List.mem_reverse]
      intro hm
      exact hdis _ hm _ (List.mem_map_of_mem ht) rfl

/-! ### `_optimize_union` in stages -/

/-- one iteration of the category loop of `_optimize_union` -/
def splitStep (reg : StrRegistry) (s : Split) (item : Ty) : Split :=
    let (item, s) := match item with
      | .opt x => (x, { s with other := s.other ++ [Ty.null] })
      | x => (x, s)
    match item with
    | .obj fs => { s with toMerge := s.toMerge ++ [fs] }
    | .str => { s with strTypes := s.strTypes ++ [item] }
    | .ser k => if reg.types.contains k then { s with strTypes := s.strTypes ++ [item] }
                else { s with other := s.other ++ [item] }
    | .list x => { s with lists := s.lists ++ [x] }
    | .dict x => { s with dicts := s.dicts ++ [x] }
    | x => { s with other := s.other ++ [x] }

theorem splitStep_eq_W (reg : StrRegistry) : splitStep reg = SplitW.splitStep reg := rfl

/-- a member the worklist of `_optimize_union` splices: a union, or an optional union -/
abbrev hidden := SplitW.hidden

/-- without hidden unions among the members (`.union _` / `.opt (.union _)`), the worklist split is the
    category fold -/
theorem splitMembers_eq (reg : StrRegistry) (ts : List Ty) (h : ∀ t ∈ ts, hidden t = false) :
    splitMembers reg ts = ts.foldl (splitStep reg) {} := by
  rw [SplitW.splitMembers_eq_foldl h]; rfl

theorem hidden_false_of {t : Ty} (hu : t.isUnion = false) (ho : t.isOpt = false) : hidden t = false := by
  cases t <;> simp_all [hidden, SplitW.hidden, Ty.isUnion, Ty.isOpt]

theorem hidden_false_opt {y : Ty} (hu : y.isUnion = false) : hidden (.opt y) = false := by
  cases y <;> simp_all [hidden, SplitW.hidden, Ty.isUnion]

def stageInt (other : List Ty) : List Ty :=
  if other.any Ty.isInt && other.any Ty.isFloat then removeFirst Ty.isInt other else other

def stageMerge (c : LitCfg) (e : EqEnv) (other : List Ty) (toMerge : List Fields) : Except PyErr (List Ty) :=
  if toMerge.isEmpty then pure other else do
    let m ← mergeFieldSets c e toMerge
    pure (other ++ [.obj m])

def stageList (c : LitCfg) (other : List Ty) (lists : List Ty) : List Ty :=
  if lists.isEmpty then other else other ++ [.list (mkUnion c lists)]

def stageDict (c : LitCfg) (other : List Ty) (dicts : List Ty) : List Ty :=
  if dicts.isEmpty then other else other ++ [.dict (mkUnion c dicts)]

def stageStr (reg : StrRegistry) (other : List Ty) (strTypes : List Ty) : Except PyErr (List Ty) :=
  if strTypes.any Ty.isStr then pure (other ++ [.str])
  else if strTypes.isEmpty then pure other
  else do
    let kinds := strTypes.filterMap (fun t => match t with | .ser k => some k | _ => none)
    let r ← resolve reg kinds (kinds.length + 2)
    match r with
    | [k] => pure (other ++ [.ser k])
    | [] => .error .stopIteration
    | _ => pure (other ++ [.str])

def finishOpt (c : LitCfg) (types : List Ty) : Except PyErr Ty :=
  match types with
  | [] => .error .indexError
  | [t] => pure t
  | types =>
    let types := if types.any Ty.isUnknown then removeFirst Ty.isUnknown types else types
    let optional := types.any Ty.isNull
    let types := types.filter (fun t => !t.isNull)
    let mt := match mkUnionMembers c types with
      | [] => .unknown
      | [t] => t
      | us => .union us
    pure (if optional then .opt mt else mt)

theorem optimizeUnion_eq (cfg : GenCfg) (e : EqEnv) (f : Nat) (ms : List Ty) :
    optimizeUnion cfg e (f + 1) ms = (do
      let s := splitMembers cfg.reg ms
      let other ← stageMerge cfg.lit e (stageInt s.other) s.toMerge
      let other ← stageStr cfg.reg (stageDict cfg.lit (stageList cfg.lit other s.lists) s.dicts) s.strTypes
      let types ← other.mapM (optimize cfg e f)
      finishOpt cfg.lit types) := by
  rw [optimizeUnion]
  rfl
/-! ### canonical decomposition of a member list -/

def objFs (J : List Ty) : List Fields := J.filterMap (fun t => match t with | .obj fs => some fs | _ => none)
def listEs (L : List Ty) : List Ty := L.filterMap (fun t => match t with | .list x => some x | _ => none)
def dictEs (L : List Ty) : List Ty := L.filterMap (fun t => match t with | .dict x => some x | _ => none)

/-- canonical decomposition of a member list -/
structure Canon (ms O J L D S T : List Ty) : Prop where
  eq : ms = O ++ J ++ L ++ D ++ S ++ T
  hO : ∀ t ∈ O, t.cls = 0
  hJ : J = [] ∨ ∃ fs, J = [.obj fs]
  hL : L = [] ∨ ∃ x, L = [.list x]
  hD : D = [] ∨ ∃ x, D = [.dict x]
  hS : S = [] ∨ S = [.str] ∨ ∃ k, S = [.ser k]
  hT : T = [] ∨ ∃ o vs, T = [.lit o vs]

theorem Canon.nil : Canon [] [] [] [] [] [] [] := by
  constructor <;> simp

theorem canon_decomp (ms : List Ty) (h : canonOrder ms = true) :
    ∃ O J L D S T, Canon ms O J L D S T := by
  induction ms with
  | nil => exact ⟨[], [], [], [], [], [], Canon.nil⟩
  | cons t ts ih =>
    simp only [canonOrder, Bool.and_eq_true, List.all_eq_true, Bool.or_eq_true, decide_eq_true_eq,
      beq_iff_eq] at h
    obtain ⟨O, J, L, D, S, T, c⟩ := ih h.2
    have hall := h.1
    have key : ∀ (X : List Ty) (n : Nat), 0 < t.cls → (∀ u ∈ X, u.cls ≤ t.cls) → (∀ u ∈ X, u ∈ ts) → X = [] := by
      intro X n hpos hle hsub
      cases X with
      | nil => rfl
      | cons u X =>
        have h1 := hle u (by simp)
        rcases hall u (hsub u (by simp)) with h2 | h2 <;> omega
    have memO : ∀ u ∈ O, u ∈ ts := fun u hu => by rw [c.eq]; simp [hu]
    have memJ : ∀ u ∈ J, u ∈ ts := fun u hu => by rw [c.eq]; simp [hu]
    have memL : ∀ u ∈ L, u ∈ ts := fun u hu => by rw [c.eq]; simp [hu]
    have memD : ∀ u ∈ D, u ∈ ts := fun u hu => by rw [c.eq]; simp [hu]
    have memS : ∀ u ∈ S, u ∈ ts := fun u hu => by rw [c.eq]; simp [hu]
    have memT : ∀ u ∈ T, u ∈ ts := fun u hu => by rw [c.eq]; simp [hu]
    have clsJ : ∀ u ∈ J, u.cls = 1 := by
      intro u hu; rcases c.hJ with h | ⟨fs, h⟩ <;> simp_all [Ty.cls]
    have clsL : ∀ u ∈ L, u.cls = 2 := by
      intro u hu; rcases c.hL with h | ⟨fs, h⟩ <;> simp_all [Ty.cls]
    have clsD : ∀ u ∈ D, u.cls = 3 := by
      intro u hu; rcases c.hD with h | ⟨fs, h⟩ <;> simp_all [Ty.cls]
    have clsS : ∀ u ∈ S, u.cls = 4 := by
      intro u hu; rcases c.hS with h | h | ⟨fs, h⟩ <;> simp_all [Ty.cls]
    have clsT : ∀ u ∈ T, u.cls = 5 := by
      intro u hu; rcases c.hT with h | ⟨o, vs, h⟩ <;> simp_all [Ty.cls]
    by_cases h0 : t.cls = 0
    · refine ⟨t :: O, J, L, D, S, T, ?_⟩
      constructor
      · rw [c.eq]; simp
      · intro u hu; rcases List.mem_cons.mp hu with rfl | hu
        · exact h0
        · exact c.hO u hu
      all_goals first | exact c.hJ | exact c.hL | exact c.hD | exact c.hS | exact c.hT
    · have hpos : 0 < t.cls := by omega
      have eO : O = [] := key O 0 hpos (fun u hu => by rw [c.hO u hu]; omega) memO
      cases t with
      | obj fs =>
        have eJ : J = [] := key J 0 hpos (fun u hu => by rw [clsJ u hu]; simp [Ty.cls]) memJ
        refine ⟨[], [.obj fs], L, D, S, T, ?_⟩
        constructor
        · rw [c.eq, eO, eJ]; simp
        · simp
        · exact Or.inr ⟨fs, rfl⟩
        all_goals first | exact c.hL | exact c.hD | exact c.hS | exact c.hT
      | list x =>
        have eJ : J = [] := key J 0 hpos (fun u hu => by rw [clsJ u hu]; simp [Ty.cls]) memJ
        have eL : L = [] := key L 0 hpos (fun u hu => by rw [clsL u hu]; simp [Ty.cls]) memL
        refine ⟨[], [], [.list x], D, S, T, ?_⟩
        constructor
        · rw [c.eq, eO, eJ, eL]; simp
        · simp
        · simp
        · exact Or.inr ⟨x, rfl⟩
        all_goals first | exact c.hD | exact c.hS | exact c.hT
      | dict x =>
        have eJ : J = [] := key J 0 hpos (fun u hu => by rw [clsJ u hu]; simp [Ty.cls]) memJ
        have eL : L = [] := key L 0 hpos (fun u hu => by rw [clsL u hu]; simp [Ty.cls]) memL
        have eD : D = [] := key D 0 hpos (fun u hu => by rw [clsD u hu]; simp [Ty.cls]) memD
        refine ⟨[], [], [], [.dict x], S, T, ?_⟩
        constructor
        · rw [c.eq, eO, eJ, eL, eD]; simp
        · simp
        · simp
        · simp
        · exact Or.inr ⟨x, rfl⟩
        all_goals first | exact c.hS | exact c.hT
      | str =>
        have eJ : J = [] := key J 0 hpos (fun u hu => by rw [clsJ u hu]; simp [Ty.cls]) memJ
        have eL : L = [] := key L 0 hpos (fun u hu => by rw [clsL u hu]; simp [Ty.cls]) memL
        have eD : D = [] := key D 0 hpos (fun u hu => by rw [clsD u hu]; simp [Ty.cls]) memD
        have eS : S = [] := key S 0 hpos (fun u hu => by rw [clsS u hu]; simp [Ty.cls]) memS
        refine ⟨[], [], [], [], [.str], T, ?_⟩
        constructor
        · rw [c.eq, eO, eJ, eL, eD, eS]; simp
        · simp
        · simp
        · simp
        · simp
        · simp
        · exact c.hT
      | ser k =>
        have eJ : J = [] := key J 0 hpos (fun u hu => by rw [clsJ u hu]; simp [Ty.cls]) memJ
        have eL : L = [] := key L 0 hpos (fun u hu => by rw [clsL u hu]; simp [Ty.cls]) memL
        have eD : D = [] := key D 0 hpos (fun u hu => by rw [clsD u hu]; simp [Ty.cls]) memD
        have eS : S = [] := key S 0 hpos (fun u hu => by rw [clsS u hu]; simp [Ty.cls]) memS
        refine ⟨[], [], [], [], [.ser k], T, ?_⟩
        constructor
        · rw [c.eq, eO, eJ, eL, eD, eS]; simp
        · simp
        · simp
        · simp
        · simp
        · simp
        · exact c.hT
      | lit o vs =>
        have eJ : J = [] := key J 0 hpos (fun u hu => by rw [clsJ u hu]; simp [Ty.cls]) memJ
        have eL : L = [] := key L 0 hpos (fun u hu => by rw [clsL u hu]; simp [Ty.cls]) memL
        have eD : D = [] := key D 0 hpos (fun u hu => by rw [clsD u hu]; simp [Ty.cls]) memD
        have eS : S = [] := key S 0 hpos (fun u hu => by rw [clsS u hu]; simp [Ty.cls]) memS
        have eT : T = [] := key T 0 hpos (fun u hu => by rw [clsT u hu]; simp [Ty.cls]) memT
        refine ⟨[], [], [], [], [], [.lit o vs], ?_⟩
        constructor
        · rw [c.eq, eO, eJ, eL, eD, eS, eT]; rfl
        · simp
        · simp
        · simp
        · simp
        · simp
        · exact Or.inr ⟨o, vs, rfl⟩
      | _ => simp [Ty.cls] at h0
end J2M.C08P
