/-
  C07 (generator level), part 10: the tail of `_optimize_union` (`unionFinish`: drop one `Unknown`, turn
  `Null` into `Optional`, rebuild with `DUnion`) depends on the optimised members only up to order.
-/
import J2M.Proofs.PermOther
namespace J2M.Perm
open J2M

theorem mapM_forall₂ {α β ε} {f : α → Except ε β} {xs : List α} {ys : List β} (h : xs.mapM f = .ok ys) :
    List.Forall₂ (fun x y => f x = .ok y) xs ys := by
  induction xs generalizing ys with
  | nil => simp [pure, Except.pure] at h; subst h; exact .nil
  | cons x xs ih =>
    rw [List.mapM_cons] at h
    cases hx : f x with
    | error err => rw [hx] at h; simp [bind, Except.bind] at h
    | ok y =>
      rw [hx] at h
      cases hxs : xs.mapM f with
      | error err => rw [hxs] at h; simp [bind, Except.bind] at h
      | ok ys' =>
        rw [hxs] at h
        simp [bind, Except.bind, pure, Except.pure] at h
        subst h
        exact .cons hx (ih hxs)

theorem forall₂_countP_le {α β} {R : α → β → Prop} {p : α → Bool} {q : β → Bool} {l₁ : List α} {l₂ : List β}
    (h : List.Forall₂ R l₁ l₂) (hpq : ∀ a ∈ l₁, ∀ b, R a b → q b = true → p a = true) :
    l₂.countP q ≤ l₁.countP p := by
  induction h with
  | nil => simp
  | @cons a b l₁ l₂ hr _ ih =>
    have ih' := ih (fun a' ha' => hpq a' (List.mem_cons_of_mem _ ha'))
    by_cases hq : q b = true
    · rw [List.countP_cons_of_pos hq, List.countP_cons_of_pos (hpq a (List.mem_cons_self ..) b hr hq)]; omega
    · rw [List.countP_cons_of_neg hq]
      by_cases hp : p a = true
      · rw [List.countP_cons_of_pos hp]; omega
      · rw [List.countP_cons_of_neg hp]; exact ih'

/-! ## the pieces of `unionFinish` -/

def dropUnknown (T : List Ty) : List Ty := if T.any Ty.isUnknown then removeFirst Ty.isUnknown T else T

theorem mem_dropUnknown {T : List Ty} (h : T.countP Ty.isUnknown ≤ 1) {x : Ty} :
    x ∈ dropUnknown T ↔ x ∈ T ∧ x.isUnknown = false := by
  unfold dropUnknown
  split
  · rw [removeFirst_eq_filter h]; simp
  · rename_i hn
    constructor
    · intro hx
      refine ⟨hx, ?_⟩
      cases hu : x.isUnknown
      · rfl
      · exact absurd (List.any_eq_true.2 ⟨x, hx, hu⟩) hn
    · exact fun hx => hx.1

def mtOf (c : LitCfg) (L : List Ty) : Ty :=
  match mkUnionMembers c L with
  | [] => .unknown
  | [t] => t
  | us => .union us

theorem unionFinish_big {cfg : GenCfg} {T : List Ty} (h : T.length ≥ 2) :
    unionFinish cfg T = .ok (if (dropUnknown T).any Ty.isNull then
      .opt (mtOf cfg.lit ((dropUnknown T).filter (fun t => !t.isNull)))
      else mtOf cfg.lit ((dropUnknown T).filter (fun t => !t.isNull))) := by
  match T, h with
  | a :: b :: rest, _ => rfl

theorem unionMembers_mtOf {c : LitCfg} {L : List Ty} (hne : mkUnionMembers c L ≠ []) :
    (mtOf c L).unionMembers = mkUnionMembers c L := by
  unfold mtOf
  have hf := mkUnionMembers_nonunion c L
  split
  · rename_i e; exact absurd e hne
  · rename_i t e
    rw [e]
    exact unionMembers_of_nonunion (hf t (by rw [e]; simp))
  · rfl

theorem mtOf_nil {c : LitCfg} {L : List Ty} (h : mkUnionMembers c L = []) : mtOf c L = .unknown := by
  unfold mtOf; rw [h]

theorem asim_isNull {a b : Ty} (h : ASim a b) : a.isNull = b.isNull := by
  cases a <;> first
    | (have := (asim_leaf (by rfl)).1 h; subst this; rfl)
    | (have hb : b.isNull = false := by
        first
          | (obtain ⟨_, rfl, _⟩ := asim_list.1 h; rfl)
          | (obtain ⟨_, rfl, _⟩ := asim_dict.1 h; rfl)
          | (obtain ⟨_, rfl, _⟩ := asim_opt.1 h; rfl)
          | (obtain ⟨_, rfl, _⟩ := asim_union.1 h; rfl)
          | (obtain ⟨_, rfl, _⟩ := asim_obj.1 h; rfl)
       rw [hb]; rfl)

theorem asim_isUnknown {a b : Ty} (h : ASim a b) : a.isUnknown = b.isUnknown := by
  cases a <;> first
    | (have := (asim_leaf (by rfl)).1 h; subst this; rfl)
    | (have hb : b.isUnknown = false := by
        first
          | (obtain ⟨_, rfl, _⟩ := asim_list.1 h; rfl)
          | (obtain ⟨_, rfl, _⟩ := asim_dict.1 h; rfl)
          | (obtain ⟨_, rfl, _⟩ := asim_opt.1 h; rfl)
          | (obtain ⟨_, rfl, _⟩ := asim_union.1 h; rfl)
          | (obtain ⟨_, rfl, _⟩ := asim_obj.1 h; rfl)
       rw [hb]; rfl)

theorem flatWF_filter {D : List Ty} (h : FlatWF D) (p : Ty → Bool) : FlatWF (D.filter p) :=
  ⟨fun t ht => h.flat t (List.mem_filter.1 ht).1, fun t ht => h.wf t (List.mem_filter.1 ht).1⟩

theorem finish_core {c : LitCfg} {D₁ D₂ : List Ty} (fD₁ : FlatWF D₁) (fD₂ : FlatWF D₂) (hD : SetA D₁ D₂) :
    NSim (if D₁.any Ty.isNull then .opt (mtOf c (D₁.filter (fun t => !t.isNull)))
            else mtOf c (D₁.filter (fun t => !t.isNull)))
         (if D₂.any Ty.isNull then .opt (mtOf c (D₂.filter (fun t => !t.isNull)))
            else mtOf c (D₂.filter (fun t => !t.isNull))) := by
  have hany : D₁.any Ty.isNull = D₂.any Ty.isNull := by
    rw [Bool.eq_iff_iff, List.any_eq_true, List.any_eq_true]
    constructor
    · rintro ⟨x, hx, hn⟩
      obtain ⟨y, hy, hxy⟩ := hD.1 x hx
      exact ⟨y, hy, by rw [← asim_isNull hxy]; exact hn⟩
    · rintro ⟨y, hy, hn⟩
      obtain ⟨x, hx, hxy⟩ := hD.2 y hy
      exact ⟨x, hx, by rw [asim_isNull hxy]; exact hn⟩
  have hF : SetA (D₁.filter (fun t => !t.isNull)) (D₂.filter (fun t => !t.isNull)) := by
    constructor
    · intro x hx
      obtain ⟨h1, h2⟩ := List.mem_filter.1 hx
      obtain ⟨y, hy, hxy⟩ := hD.1 x h1
      exact ⟨y, List.mem_filter.2 ⟨hy, by rw [← asim_isNull hxy]; exact h2⟩, hxy⟩
    · intro y hy
      obtain ⟨h1, h2⟩ := List.mem_filter.1 hy
      obtain ⟨x, hx, hxy⟩ := hD.2 y h1
      exact ⟨x, List.mem_filter.2 ⟨hx, by rw [asim_isNull hxy]; exact h2⟩, hxy⟩
  have hM : SetA (mkUnionMembers c (D₁.filter (fun t => !t.isNull)))
      (mkUnionMembers c (D₂.filter (fun t => !t.isNull))) :=
    mkUM_congr_set leafEq_asim (flatWF_filter fD₁ _) (flatWF_filter fD₂ _) hF
  have hmt : NSim (mtOf c (D₁.filter (fun t => !t.isNull))) (mtOf c (D₂.filter (fun t => !t.isNull))) := by
    by_cases e1 : mkUnionMembers c (D₁.filter (fun t => !t.isNull)) = []
    · have e2 : mkUnionMembers c (D₂.filter (fun t => !t.isNull)) = [] := by
        cases h : mkUnionMembers c (D₂.filter (fun t => !t.isNull)) with
        | nil => rfl
        | cons y ys =>
          obtain ⟨x, hx, _⟩ := hM.2 y (by rw [h]; simp)
          rw [e1] at hx; simp at hx
      rw [mtOf_nil e1, mtOf_nil e2]; exact NSim.refl _
    · have e2 : mkUnionMembers c (D₂.filter (fun t => !t.isNull)) ≠ [] := by
        intro e2
        obtain ⟨x, hx⟩ := List.exists_mem_of_ne_nil _ e1
        obtain ⟨y, hy, _⟩ := hM.1 x hx
        rw [e2] at hy; simp at hy
      rw [nsim_iff, unionMembers_mtOf e1, unionMembers_mtOf e2]; exact hM
  rw [hany]
  split
  · exact nsim_of_asim' (asim_opt_opt.2 hmt)
  · exact hmt

/-- **the tail of `_optimize_union` respects "same members up to order"** -/
theorem unionFinish_congr {cfg : GenCfg} {T₁ T₂ : List Ty} {u₁ u₂ : Ty}
    (f₁ : FlatWF T₁) (f₂ : FlatWF T₂) (hs : SetA T₁ T₂) (hl : T₁.length = T₂.length)
    (k₁ : T₁.countP Ty.isUnknown ≤ 1) (k₂ : T₂.countP Ty.isUnknown ≤ 1)
    (h₁ : unionFinish cfg T₁ = .ok u₁) (h₂ : unionFinish cfg T₂ = .ok u₂) : NSim u₁ u₂ := by
  match T₁, T₂, hl with
  | [], _, _ => simp [unionFinish] at h₁
  | [t₁], [t₂], _ =>
    simp only [unionFinish, pure, Except.pure, Except.ok.injEq] at h₁ h₂
    subst h₁ h₂
    obtain ⟨y, hy, hxy⟩ := hs.1 t₁ (by simp)
    simp at hy; subst hy
    exact nsim_of_asim' hxy
  | a :: b :: r, a' :: b' :: r', _ =>
    rw [unionFinish_big (by simp)] at h₁ h₂
    cases h₁; cases h₂
    have hD : SetA (dropUnknown (a :: b :: r)) (dropUnknown (a' :: b' :: r')) := by
      constructor
      · intro x hx
        obtain ⟨h1, h2⟩ := (mem_dropUnknown k₁).1 hx
        obtain ⟨y, hy, hxy⟩ := hs.1 x h1
        exact ⟨y, (mem_dropUnknown k₂).2 ⟨hy, by rw [← asim_isUnknown hxy]; exact h2⟩, hxy⟩
      · intro y hy
        obtain ⟨h1, h2⟩ := (mem_dropUnknown k₂).1 hy
        obtain ⟨x, hx, hxy⟩ := hs.2 y h1
        exact ⟨x, (mem_dropUnknown k₁).2 ⟨hx, by rw [asim_isUnknown hxy]; exact h2⟩, hxy⟩
    have fD₁ : FlatWF (dropUnknown (a :: b :: r)) :=
      ⟨fun t ht => f₁.flat t ((mem_dropUnknown k₁).1 ht).1, fun t ht => f₁.wf t ((mem_dropUnknown k₁).1 ht).1⟩
    have fD₂ : FlatWF (dropUnknown (a' :: b' :: r')) :=
      ⟨fun t ht => f₂.flat t ((mem_dropUnknown k₂).1 ht).1, fun t ht => f₂.wf t ((mem_dropUnknown k₂).1 ht).1⟩
    exact finish_core fD₁ fD₂ hD

end J2M.Perm
