/-
  Helper development for property C19: the repaired header always lexes as exactly one raw triple-quoted
  string.  Ported from notes/spikes/Spike4_HeaderLexer.lean and extended with the fixed prefix lines.
  Core Lean only.
-/
import J2M.Header
namespace J2M.Header

/-! ### stepping lemmas for `lexRaw` and `fixQ` -/

theorem lexRaw_bs (c : Char) (rest acc : List Char) :
    lexRaw ('\\' :: c :: rest) acc = lexRaw rest (c :: '\\' :: acc) := by
  simp [lexRaw]

theorem lexRaw_triple (rest acc : List Char) :
    lexRaw ('"' :: '"' :: '"' :: rest) acc = some (acc.reverse, rest) := by
  simp [lexRaw]

/-- a head that is neither a backslash-with-successor nor the start of `"""` is just consumed -/
theorem lexRaw_plain (c : Char) (rest acc : List Char)
    (h1 : c ≠ '\\' ∨ rest = [])
    (h2 : ¬ (c = '"' ∧ ∃ r, rest = '"' :: '"' :: r)) :
    lexRaw (c :: rest) acc = lexRaw rest (c :: acc) := by
  conv => lhs; unfold lexRaw
  split
  · rename_i heq
    injection heq with hc hr
    rcases h1 with h1 | h1
    · exact absurd hc.symm (by simpa using h1 ∘ Eq.symm)
    · subst h1; cases hr
  · rename_i heq
    injection heq with hc hr
    exact absurd ⟨hc, _, hr⟩ h2
  · rename_i heq
    injection heq with hc hr
    subst hc; subst hr; rfl
  · rename_i heq; cases heq

theorem fixQ_triple (r : List Char) :
    fixQ ('"' :: '"' :: '"' :: r) = '"' :: '"' :: '\\' :: '"' :: fixQ r := by
  simp [fixQ, pyReplaceTriple]

theorem fixQ_nil : fixQ [] = [] := by simp [fixQ, pyReplaceTriple]

theorem fixQ_plain (c : Char) (r : List Char) (h : ¬ (c = '"' ∧ ∃ r', r = '"' :: '"' :: r')) :
    fixQ (c :: r) = c :: fixQ r := by
  show pyReplaceTriple (c :: r) = c :: pyReplaceTriple r
  conv => lhs; unfold pyReplaceTriple
  split
  · rename_i heq
    injection heq with hc hr
    exact absurd ⟨hc, _, hr⟩ h
  · rename_i heq
    injection heq with hc hr
    subst hc; subst hr; rfl
  · rename_i heq; cases heq

/-- `fixQ` output never starts with two quotes unless the input did (then it continues `""\"` or `""x`). -/
theorem fixQ_two_quotes {t r : List Char} (h : fixQ t = '"' :: '"' :: r) :
    (∃ t', t = '"' :: '"' :: '"' :: t') ∨ (∃ t', t = '"' :: '"' :: t' ∧ ¬ ∃ t'', t' = '"' :: t'') := by
  match t with
  | [] => simp [fixQ_nil] at h
  | [c] =>
    rw [fixQ_plain _ _ (by rintro ⟨_, _, h⟩; cases h), fixQ_nil] at h
    cases h
  | c :: d :: t' =>
    by_cases hc : c = '"'
    · subst hc
      by_cases hd : d = '"'
      · subst hd
        by_cases ht : ∃ t'', t' = '"' :: t''
        · obtain ⟨t'', rfl⟩ := ht; exact Or.inl ⟨_, rfl⟩
        · exact Or.inr ⟨_, rfl, ht⟩
      · rw [fixQ_plain] at h
        · injection h with _ h
          have : ¬ (d = '"' ∧ ∃ r', t' = '"' :: '"' :: r') := fun hh => hd hh.1
          rw [fixQ_plain _ _ this] at h
          injection h with h _; exact absurd h hd
        · rintro ⟨_, r', hr⟩; injection hr with h1 _; exact hd h1
    · rw [fixQ_plain] at h
      · injection h with h _; exact absurd h hc
      · rintro ⟨h1, _⟩; exact hc h1

/-! ### the command line followed by the closing quotes -/

/-- newline + closing quotes -/
def term : List Char := ['\n', '"', '"', '"']

theorem lex_term (rest acc : List Char) :
    lexRaw (term ++ rest) acc = some (acc.reverse ++ ['\n'], rest) := by
  simp [term, lexRaw]

/-- Main lemma: the repaired command line followed by `\n"""` is consumed up to exactly those quotes. -/
theorem header_one_string : ∀ (n : Nat) (body : List Char), body.length ≤ n → ∀ acc rest,
    lexRaw (fixQ body ++ (term ++ rest)) acc = some (acc.reverse ++ (fixQ body ++ ['\n']), rest) := by
  intro n
  induction n with
  | zero =>
    intro body hb acc rest
    have : body = [] := List.eq_nil_of_length_eq_zero (Nat.le_zero.mp hb)
    subst this; simp [fixQ_nil, lex_term]
  | succ n ih =>
    intro body hb acc rest
    match body, hb with
    | [], _ => simp [fixQ_nil, lex_term]
    | c :: r, hb =>
      have hr : r.length ≤ n := by simpa using hb
      by_cases htri : c = '"' ∧ ∃ r', r = '"' :: '"' :: r'
      · -- body starts with `"""`
        obtain ⟨rfl, r', rfl⟩ := htri
        have hr' : r'.length ≤ n := by simp at hr; omega
        rw [fixQ_triple]
        simp only [List.cons_append]
        rw [lexRaw_plain _ _ _ (Or.inl (by decide))
          (by rintro ⟨_, r2, h⟩; injection h with _ h; injection h with h _; exact absurd h (by decide))]
        rw [lexRaw_plain _ _ _ (Or.inl (by decide))
          (by rintro ⟨_, r2, h⟩; injection h with h _; exact absurd h (by decide))]
        rw [lexRaw_bs, ih r' hr']
        simp
      · rw [fixQ_plain _ _ htri]
        by_cases hbs : c = '\\'
        · subst hbs
          -- a backslash swallows the next character of the *output*
          match r, hr with
          | [], _ => simp [fixQ_nil, term, lexRaw]
          | d :: r2, hr =>
            have hr2 : r2.length ≤ n := by simp at hr; omega
            by_cases htri2 : d = '"' ∧ ∃ r', r2 = '"' :: '"' :: r'
            · obtain ⟨rfl, r', rfl⟩ := htri2
              have hr' : r'.length ≤ n := by simp at hr2; omega
              rw [fixQ_triple]
              simp only [List.cons_append]
              rw [lexRaw_bs]
              rw [lexRaw_plain _ _ _ (Or.inl (by decide))
                (by rintro ⟨_, r3, h⟩; injection h with h _; exact absurd h (by decide))]
              rw [lexRaw_bs, ih r' hr']
              simp
            · rw [fixQ_plain _ _ htri2]
              simp only [List.cons_append]
              rw [lexRaw_bs, ih r2 hr2]
              simp
        · simp only [List.cons_append]
          rw [lexRaw_plain _ _ _ (Or.inl hbs)]
          · rw [ih r hr]; simp
          · -- the output after `c` cannot start with two quotes when c = '"'
            rintro ⟨rfl, r3, h3⟩
            match hfr : fixQ r with
            | [] => rw [hfr] at h3; simp [term] at h3
            | [q] =>
              rw [hfr] at h3; simp [term] at h3
            | q1 :: q2 :: qs =>
              rw [hfr] at h3
              simp only [List.cons_append] at h3
              injection h3 with h31 h3; injection h3 with h32 _
              subst h31; subst h32
              rcases fixQ_two_quotes hfr with ⟨t', rfl⟩ | ⟨t', rfl, _⟩
              · exact htri ⟨rfl, _, rfl⟩
              · exact htri ⟨rfl, _, rfl⟩

theorem header_cmd (body acc rest : List Char) :
    lexRaw (fixQ body ++ (term ++ rest)) acc = some (acc.reverse ++ (fixQ body ++ ['\n']), rest) :=
  header_one_string body.length body (Nat.le_refl _) acc rest

/-! ### clean prefixes -/

theorem Clean.append {a b : List Char} (ha : Clean a) (hb : Clean b) : Clean (a ++ b) := by
  intro c hc
  rcases List.mem_append.mp hc with h | h
  · exact ha c h
  · exact hb c h

theorem Clean.cons {c : Char} {a : List Char} (hc : c ≠ '"' ∧ c ≠ '\\') (ha : Clean a) : Clean (c :: a) := by
  intro d hd
  rcases List.mem_cons.mp hd with rfl | h
  · exact hc
  · exact ha d h

/-- a prefix without quotes and backslashes is consumed verbatim -/
theorem lexRaw_clean (pre rest acc : List Char) (h : Clean pre) :
    lexRaw (pre ++ rest) acc = lexRaw rest (pre.reverse ++ acc) := by
  induction pre generalizing acc with
  | nil => rfl
  | cons c pre ih =>
    have hc := h c List.mem_cons_self
    have hpre : Clean pre := fun d hd => h d (List.mem_cons_of_mem _ hd)
    simp only [List.cons_append]
    rw [lexRaw_plain _ _ _ (Or.inl hc.2) (fun hh => hc.1 hh.1), ih _ hpre]
    simp

/-! ### `joinArgv` -/

theorem joinArgv_nil : joinArgv [] = [] := rfl
theorem joinArgv_single (a : List Char) : joinArgv [a] = a := rfl
theorem joinArgv_cons (a b : List Char) (rest : List (List Char)) :
    joinArgv (a :: b :: rest) = a ++ ' ' :: joinArgv (b :: rest) := rfl

/-- the joined command line is the concatenation of the arguments with one space before each but the first -/
theorem joinArgv_cons_eq (a : List Char) (rest : List (List Char)) :
    joinArgv (a :: rest) = a ++ (rest.map (fun b => ' ' :: b)).flatten := by
  induction rest generalizing a with
  | nil => simp [joinArgv]
  | cons b rest ih => rw [joinArgv_cons, ih b]; simp

theorem joinArgv_length (a : List Char) (rest : List (List Char)) :
    (joinArgv (a :: rest)).length = a.length + (rest.map (fun b => b.length + 1)).sum := by
  induction rest generalizing a with
  | nil => simp [joinArgv]
  | cons b rest ih => rw [joinArgv_cons]; simp [ih b]; omega

end J2M.Header
