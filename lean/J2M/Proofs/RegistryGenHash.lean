/-
  Registry-stage types (`GoodP K I`) are well-formed for the hash-string injectivity theorem, hence hash
  strings are sound on them (for any lookup).
-/
import J2M.Proofs.RegistryDefs
import J2M.Proofs.InhHash
namespace J2M.Reg
open J2M

theorem GoodP.toWFHash {K I : String → Prop} (hK : ∀ k, K k → wfSerName k = true) (hI : IdxAlnum I) {t : Ty}
    (h : GoodP K I t) : t.WFHash := by
  have key : ∀ n (t : Ty), t.size ≤ n → GoodP K I t → wfHash t = true := by
    intro n
    induction n with
    | zero => intro t ht; cases t <;> simp [Ty.size] at ht
    | succ n ih =>
      intro t ht h
      cases t <;> try (simp [J2M.wfHash]; done)
      case ser k => simpa [J2M.wfHash] using hK k (by simpa using h)
      case lit o vs =>
        simp only [goodP_lit] at h
        cases o <;> simp_all [J2M.wfHash]
      case list x => simp only [J2M.wfHash]; exact ih x (by simp [Ty.size] at ht; omega) (by simpa using h)
      case dict x => simp only [J2M.wfHash]; exact ih x (by simp [Ty.size] at ht; omega) (by simpa using h)
      case opt x => simp only [J2M.wfHash]; exact ih x (by simp [Ty.size] at ht; omega) (by simpa using h)
      case union ts =>
        simp only [J2M.wfHash, wfHashs_iff]
        intro u hu
        have := Ty.size_le_sizeList hu
        exact ih u (by simp [Ty.size] at ht; omega) (goodP_union.1 h u hu)
      case tuple ts => simp at h
      case ptr i => simpa [J2M.wfHash] using hI i (by simpa using h)
      case obj fs => simp at h
  exact key t.size t (Nat.le_refl _) h

/-- hash strings are injective on registry-stage types -/
theorem hashStr_inj_goodP {K I : String → Prop} (hK : ∀ k, K k → wfSerName k = true) (hI : IdxAlnum I)
    {a b : Ty} (ha : GoodP K I a) (hb : GoodP K I b) (e : hashStr a = hashStr b) : a = b :=
  HashInj.hashStr_inj_core a b (ha.toWFHash hK hI) (hb.toWFHash hK hI) e

/-- hash strings are sound (for either relation, any lookup) on registry-stage types -/
theorem hashSoundOn_goodP {ov : Bool} {acc : Accepts} {g : ModelLookup} {K I : String → Prop}
    (hK : ∀ k, K k → wfSerName k = true) (hI : IdxAlnum I) : HashSoundOn ov acc g (GoodP K I) :=
  HashSoundOn.of_inj (fun _ _ ha hb e => hashStr_inj_goodP hK hI ha hb e)

end J2M.Reg
