/-
  Basic facts about Python `==` on metadata (`pyEq`): the two guarded folds (`eqListF`, `eqFieldsF`),
  list helpers, sorting keeps membership.  Independent of the inhabitation relation (shared by the C01 and
  the C02/C07 developments).
-/
import J2M.Generator
namespace J2M

/-! ## list facts -/

theorem subset_of_nodup_length {α} [DecidableEq α] :
    ∀ (l1 l2 : List α), l1.Nodup → l1 ⊆ l2 → l2.length ≤ l1.length → l2 ⊆ l1 := by
  intro l1
  induction l1 with
  | nil =>
    intro l2 _ _ hl
    have : l2 = [] := by simpa using hl
    simp [this]
  | cons a l1 ih =>
    intro l2 nd sub hl
    simp only [List.nodup_cons] at nd
    have ha : a ∈ l2 := sub List.mem_cons_self
    have sub' : l1 ⊆ l2.erase a := by
      intro x hx
      have hne : x ≠ a := fun e => nd.1 (e ▸ hx)
      exact (List.mem_erase_of_ne hne).2 (sub (List.mem_cons_of_mem _ hx))
    have hl' : (l2.erase a).length ≤ l1.length := by
      rw [List.length_erase_of_mem ha]; simp at hl; omega
    have := ih (l2.erase a) nd.2 sub' hl'
    intro x hx
    by_cases e : x = a
    · simp [e]
    · exact List.mem_cons_of_mem _ (this ((List.mem_erase_of_ne e).2 hx))

theorem exists_zip_left {α β} : ∀ (xs : List α) (ys : List β), xs.length ≤ ys.length →
    ∀ x ∈ xs, ∃ y, (x, y) ∈ xs.zip ys := by
  intro xs
  induction xs with
  | nil => simp
  | cons a xs ih =>
    intro ys hl x hx
    cases ys with
    | nil => simp at hl
    | cons b ys =>
      rcases List.mem_cons.1 hx with e | hx
      · exact ⟨b, by simp [e]⟩
      · obtain ⟨y, hy⟩ := ih ys (by simpa using hl) x hx
        exact ⟨y, by simp [hy]⟩

theorem exists_zip_right {α β} : ∀ (xs : List α) (ys : List β), ys.length ≤ xs.length →
    ∀ y ∈ ys, ∃ x, (x, y) ∈ xs.zip ys := by
  intro xs
  induction xs with
  | nil => intro ys hl y hy; have : ys = [] := by simpa using hl
           simp [this] at hy
  | cons a xs ih =>
    intro ys hl y hy
    cases ys with
    | nil => simp at hy
    | cons b ys =>
      rcases List.mem_cons.1 hy with e | hy
      · exact ⟨a, by simp [e]⟩
      · obtain ⟨x, hx⟩ := ih ys (by simpa using hl) y hy
        exact ⟨x, by simp [hx]⟩

theorem mem_insertByKey {α} {key : α → String} {x a : α} {ys : List α} :
    a ∈ insertByKey key x ys ↔ a = x ∨ a ∈ ys := by
  induction ys with
  | nil => simp [insertByKey]
  | cons y ys ih =>
    unfold insertByKey
    split
    · simp
    · simp only [List.mem_cons, ih]
      constructor
      · rintro (h | h | h) <;> simp [h]
      · rintro (h | h | h) <;> simp [h]

theorem mem_sortByKey {α} {key : α → String} {a : α} {xs : List α} : a ∈ sortByKey key xs ↔ a ∈ xs := by
  have : ∀ (xs init : List α), a ∈ xs.foldl (fun acc x => insertByKey key x acc) init ↔ a ∈ init ∨ a ∈ xs := by
    intro xs
    induction xs with
    | nil => simp
    | cons x xs ih =>
      intro init
      simp only [List.foldl_cons, ih, mem_insertByKey, List.mem_cons]
      constructor
      · rintro ((h | h) | h) <;> simp [h]
      · rintro (h | h | h) <;> simp [h]
  simpa [sortByKey] using this xs []

/-! ## the two guarded folds of `pyEq` -/

/-- a fold that keeps going only while the accumulator is `some true` -/
theorem guardFold_true {α} (step : Option Bool → α → Option Bool) (f : α → Option Bool)
    (h1 : ∀ x, step (some true) x = f x) (h2 : ∀ r x, r ≠ some true → step r x = r) :
    ∀ (l : List α) (init : Option Bool), l.foldl step init = some true →
      init = some true ∧ ∀ x ∈ l, f x = some true := by
  intro l
  induction l with
  | nil => intro init h; exact ⟨by simpa using h, by simp⟩
  | cons a l ih =>
    intro init h
    rw [List.foldl_cons] at h
    obtain ⟨hs, hl⟩ := ih _ h
    by_cases hi : init = some true
    · subst hi
      rw [h1] at hs
      exact ⟨rfl, by
        intro x hx
        rcases List.mem_cons.1 hx with e | hx
        · rw [e]; exact hs
        · exact hl x hx⟩
    · rw [h2 _ _ hi] at hs
      exact absurd hs hi

def eqListF (f : Ty → Ty → Option Bool) (xs ys : List Ty) : Option Bool :=
  if xs.length != ys.length then some false else
  (xs.zip ys).foldl (fun acc (p : Ty × Ty) =>
    match acc with
    | some true => f p.1 p.2
    | r => r) (some true)

def eqFieldsF (f : Ty → Ty → Option Bool) (fa fb : Fields) : Option Bool :=
  if fa.length != fb.length then some false else
  fa.foldl (fun acc (kv : String × Ty) =>
    match acc with
    | some true =>
      match fb.get? kv.1 with
      | none => some false
      | some tb => f kv.2 tb
    | r => r) (some true)

theorem eqListF_true {f xs ys} (h : eqListF f xs ys = some true) :
    xs.length = ys.length ∧ ∀ p ∈ xs.zip ys, f p.1 p.2 = some true := by
  unfold eqListF at h
  split at h
  · simp at h
  · rename_i hl
    refine ⟨by simpa using hl, ?_⟩
    exact (guardFold_true _ (fun p : Ty × Ty => f p.1 p.2) (fun _ => rfl)
      (fun r x hr => by
        cases r with
        | none => rfl
        | some b => cases b <;> simp_all) _ _ h).2

theorem eqFieldsF_true {f fa fb} (h : eqFieldsF f fa fb = some true) :
    fa.length = fb.length ∧ ∀ kv ∈ fa, ∃ tb, Fields.get? fb kv.1 = some tb ∧ f kv.2 tb = some true := by
  unfold eqFieldsF at h
  split at h
  · simp at h
  · rename_i hl
    refine ⟨by simpa using hl, ?_⟩
    have := (guardFold_true _ (fun kv : String × Ty =>
        match fb.get? kv.1 with
        | none => some false
        | some tb => f kv.2 tb) (fun _ => rfl)
      (fun r x hr => by
        cases r with
        | none => rfl
        | some b => cases b <;> simp_all) _ _ h).2
    intro kv hkv
    have h' := this kv hkv
    cases hg : Fields.get? fb kv.1 with
    | none => simp [hg] at h'
    | some tb => simp only [hg] at h'; exact ⟨tb, rfl, h'⟩

/-! ## `pyEq` on unions and inline objects -/

theorem pyEq_union_eq {so ms g fuel xs ys} :
    pyEq so ms g (fuel + 1) (.union xs) (.union ys) =
      eqListF (pyEq so ms g fuel) (sortedMembers so ms xs) (sortedMembers so ms ys) := rfl

theorem pyEq_obj_eq {so ms g fuel fa fb} :
    pyEq so ms g (fuel + 1) (.obj fa) (.obj fb) = eqFieldsF (pyEq so ms g fuel) fa fb := rfl

end J2M
