/-
  Two structures over the same models: the final names coincide; the text of a structure in terms of the class
  heads (`classParts` with the final names) and the nested insertion.
-/
import J2M.Proofs.Render2Twice
import J2M.Proofs.Names
namespace J2M.Rend2

/-! ## 14. the final names do not depend on the order in which the structure lists the models
  (`ext_of_lookup`, `convAll_spec`, `convAll_perm`: Render2Level.lean §13; `prepareNames_perm`: PrepNames.lean) -/

/-- **names_layout_indep**: two renderings of one registry with structures over the same models (and
    configurations with the same class-name conversion) leave the same names behind -/
theorem names_layout_indep {c₁ c₂ : RenderCfg} {o : RenderOracles} {g : Graph} {roots₁ roots₂ : List Node}
    {inj₁ inj₂ : List (String × String)} {pre₁ pre₂ : Option String} {t₁ t₂ : String} {F₁ F₂ : NameMap}
    (hconv : convertClassName c₁ o = convertClassName c₂ o)
    (hnd : (g.models.map (·.idx)).Nodup) (hp : (postL roots₁).Perm (postL roots₂)) (hpn : (postL roots₁).Nodup)
    (h₁ : generateCode c₁ o g roots₁ inj₁ pre₁ = .ok (t₁, F₁))
    (h₂ : generateCode c₂ o g roots₂ inj₂ pre₂ = .ok (t₂, F₂)) : F₁ = F₂ := by
  rw [generateCode_ok] at h₁ h₂
  obtain ⟨M₁, _, _, _, p₁, r₁, _, _⟩ := h₁
  obtain ⟨M₂, _, _, _, p₂, r₂, _, _⟩ := h₂
  have hk0 : ((names0 g).map (·.1)).Nodup := by rw [names0_keys]; exact hnd
  have e : M₁ = M₂ := PrepNames.prepareNames_perm hconv hk0 hp p₁ p₂
  subst e
  have e₁ := renderLevel_names _ _ _ _ _ _ _ _ _ _ r₁
  have e₂ := renderLevel_names _ _ _ _ _ _ _ _ _ _ r₂
  rw [convAll_congr hconv] at e₁
  exact convAll_perm (by rw [PrepNames.prepareNames_same_keys p₁]; exact hk0) hp hpn e₁ e₂

/-! ## 15. the text of a structure from the class heads -/

/-- the parts of the class of index `i`, rendered with the names `F`: (imports, head up to `:`, field part) -/
def headOf (c : RenderCfg) (o : RenderOracles) (g : Graph) (inj : List (String × String)) (F : NameMap) (i : String) :
    Except PyErr (List Imp × String × String) :=
  classParts c o ⟨F, inj⟩ (modelAt g F i)

mutual
/-- the text of a class with its nested classes inserted between head and fields (all with the names `F`) -/
def nodeText (c : RenderCfg) (o : RenderOracles) (g : Graph) (inj : List (String × String)) (F : NameMap) :
    Node → Except PyErr (List Imp × String)
  | .mk idx nested => do
    let rs ← nodesText c o g inj F nested
    let p ← headOf c o g inj F idx
    pure (rs.flatMap (·.1) ++ p.1, p.2.1 ++ nestedPart (rs.map (·.2)) ++ p.2.2)
def nodesText (c : RenderCfg) (o : RenderOracles) (g : Graph) (inj : List (String × String)) (F : NameMap) :
    List Node → Except PyErr (List (List Imp × String))
  | [] => pure []
  | n :: ns => do
    let r ← nodeText c o g inj F n
    let rs ← nodesText c o g inj F ns
    pure (r :: rs)
end

theorem renderGens_cons_ok {c : RenderCfg} {o : RenderOracles} {g : Graph} {inj : List (String × String)} {F : NameMap}
    {p : String × List String} {gens : List (String × List String)} {rs : List (List Imp × String)} :
    renderGens c o g inj F (p :: gens) = .ok rs ↔
      ∃ r rs', genClass c o ⟨F, inj⟩ (modelAt g F p.1) p.2 = .ok r ∧ renderGens c o g inj F gens = .ok rs' ∧
        rs = r :: rs' := by
  unfold renderGens
  simp only [List.mapM_cons, bind_eq_ok]
  constructor
  · rintro ⟨r, h1, rs', h2, h3⟩
    simp only [pure, Except.pure] at h3
    exact ⟨r, rs', h1, h2, (Except.ok.inj h3).symm⟩
  · rintro ⟨r, rs', h1, h2, rfl⟩
    exact ⟨r, h1, rs', h2, rfl⟩

theorem genClass_ok_parts {c : RenderCfg} {o : RenderOracles} {e : RefEnv} {m : Model} {nested : List String}
    {r : List Imp × String} (h : genClass c o e m nested = .ok r) :
    ∃ p, classParts c o e m = .ok p ∧ r = (p.1, p.2.1 ++ nestedPart nested ++ p.2.2) := by
  rw [genClass_parts] at h
  cases hp : classParts c o e m with
  | error err => rw [hp] at h; cases h
  | ok p => rw [hp] at h; exact ⟨p, rfl, (Except.ok.inj h).symm⟩

/-- **renderPure_nodesText**: what `_generate_code` produces with fixed names is, class by class, the head of the
    class with the texts of its nested classes inserted; the imports are the same up to order -/
theorem renderPure_nodesText (c : RenderCfg) (o : RenderOracles) (g : Graph) (inj : List (String × String)) (F : NameMap) :
    ∀ (fuel : Nat) (nodes : List Node) (imps : List Imp) (gens : List (String × List String))
      (rs : List (List Imp × String)),
      renderPure c o g inj F fuel nodes = .ok (imps, gens) → renderGens c o g inj F gens = .ok rs →
      ∃ rs', nodesText c o g inj F nodes = .ok rs' ∧ rs'.map (·.2) = rs.map (·.2) ∧
        (imps ++ rs.flatMap (·.1)).Perm (rs'.flatMap (·.1)) := by
  intro fuel
  induction fuel with
  | zero => intro nodes imps gens rs h; simp [renderPure] at h
  | succ fuel ih =>
    intro nodes imps gens rs h hg
    cases nodes with
    | nil =>
      simp only [renderPure, pure, Except.pure] at h
      injection h with h; injection h with h1 h2
      subst h1; subst h2
      simp only [renderGens, List.mapM_nil, pure, Except.pure] at hg
      injection hg with hg; subst hg
      exact ⟨[], by simp [nodesText, pure, Except.pure], rfl, by simp⟩
    | cons n rest =>
      obtain ⟨idx, nested⟩ := n
      rw [renderPure_cons_ok] at h
      obtain ⟨imps1, gens1, rs1, imps3, restR, h1, h2, h4, h5⟩ := h
      injection h5 with e1 e2
      subst e1; subst e2
      rw [renderGens_cons_ok] at hg
      obtain ⟨r, rsR, hr, hrR, rfl⟩ := hg
      obtain ⟨rs1', t1, m1, p1⟩ := ih _ _ _ _ h1 h2
      obtain ⟨rsR', t4, m4, p4⟩ := ih _ _ _ _ h4 hrR
      obtain ⟨p, hp, rfl⟩ := genClass_ok_parts hr
      refine ⟨(rs1'.flatMap (·.1) ++ p.1, p.2.1 ++ nestedPart (rs1'.map (·.2)) ++ p.2.2) :: rsR', ?_, ?_, ?_⟩
      · simp only [nodesText, nodeText, t1, t4, headOf, hp, bind, Except.bind, pure, Except.pure]
      · simp only [List.map_cons, m1, m4]
      · simp only [List.flatMap_cons]
        -- (imps1 ++ rs1.imps ++ imps3) ++ (p.1 ++ rsR.imps)  ~  (rs1'.imps ++ p.1) ++ rsR'.imps
        have q1 : (imps1 ++ rs1.flatMap (·.1) ++ imps3 ++ (p.1 ++ rsR.flatMap (·.1))).Perm
            ((imps1 ++ rs1.flatMap (·.1)) ++ p.1 ++ (imps3 ++ rsR.flatMap (·.1))) := by
          simp only [List.append_assoc]
          apply List.Perm.append_left
          apply List.Perm.append_left
          rw [← List.append_assoc, ← List.append_assoc]
          exact List.Perm.append_right _ List.perm_append_comm
        exact q1.trans ((p1.append_right _).append p4)

/-! ## 16. the module text -/

theorem compileImports_perm' {i₁ i₂ : List Imp} (h : i₁.Perm i₂) : compileImports i₁ = compileImports i₂ := by
  unfold compileImports
  have e1 : sortUniq ((i₁.filter (·.names.isNone)).map (·.module)) =
      sortUniq ((i₂.filter (·.names.isNone)).map (·.module)) := NamesP.sortUniq_perm ((h.filter _).map _)
  have e2 : sortUniq ((i₁.filter (·.names.isSome)).map (·.module)) =
      sortUniq ((i₂.filter (·.names.isSome)).map (·.module)) := NamesP.sortUniq_perm ((h.filter _).map _)
  have e3 : ∀ m : String, sortUniq ((i₁.filter (fun i => i.module == m)).flatMap (fun i => i.names.getD [])) =
      sortUniq ((i₂.filter (fun i => i.module == m)).flatMap (fun i => i.names.getD [])) :=
    fun m => NamesP.sortUniq_perm ((h.filter _).flatMap_right _)
  simp only [e1, e2, e3]

/-- the module: compiled imports, preamble, the top-level class texts joined by two empty lines -/
def moduleText (preamble : Option String) (rs : List (List Imp × String)) : String := finishText preamble [] rs

theorem finishText_perm (pre : Option String) (imps1 : List Imp) (rs rs' : List (List Imp × String))
    (ht : rs'.map (·.2) = rs.map (·.2)) (hp : (imps1 ++ rs.flatMap (·.1)).Perm (rs'.flatMap (·.1))) :
    finishText pre imps1 rs = moduleText pre rs' := by
  unfold moduleText finishText
  simp only [List.nil_append, ht]
  rw [compileImports_perm' hp]
  have : (imps1 ++ rs.flatMap (·.1)).isEmpty = (rs'.flatMap (·.1)).isEmpty := by
    rw [Bool.eq_iff_iff, List.isEmpty_iff_length_eq_zero, List.isEmpty_iff_length_eq_zero, hp.length_eq]
  rw [this]

/-- **generateCode_text**: the text of a successful rendering of a ready structure is the module assembled from the
    class heads computed with the *final* names -/
theorem generateCode_text {c : RenderCfg} {o : RenderOracles} {g : Graph} {roots : List Node}
    {inj : List (String × String)} {pre : Option String} {text : String} {F : NameMap}
    (h : generateCode c o g roots inj pre = .ok (text, F)) (hready : ReadyL (refsOf g inj) [] roots) :
    ∃ rs, nodesText c o g inj F roots = .ok rs ∧ text = moduleText pre rs := by
  rw [generateCode_ok] at h
  obtain ⟨N0, imps1, gens, rs, _, h1, h2, h3⟩ := h
  have hp := renderLevel_ready c o g inj F _ _ _ [] _ _ _ h1 hready (fun _ _ => rfl)
  obtain ⟨rs', t, m, p⟩ := renderPure_nodesText c o g inj F _ _ _ _ _ hp h2
  exact ⟨rs', t, by rw [h3, finishText_perm pre imps1 rs rs' m p]⟩

/-- the class text without nested classes -/
def classHead (c : RenderCfg) (o : RenderOracles) (e : RefEnv) (m : Model) : Except PyErr (List Imp × String) :=
  genClass c o e m []

theorem nestedPart_nil : nestedPart [] = "" := by simp [nestedPart, nestedPartI]

theorem classHead_parts (c : RenderCfg) (o : RenderOracles) (e : RefEnv) (m : Model) :
    classHead c o e m = (classParts c o e m).map (fun p => (p.1, p.2.1 ++ p.2.2)) := by
  unfold classHead
  rw [genClass_parts, nestedPart_nil]
  simp

/-- in a flat structure the class texts are the class heads -/
theorem nodesText_flat (c : RenderCfg) (o : RenderOracles) (g : Graph) (inj : List (String × String)) (F : NameMap)
    (l : List String) :
    nodesText c o g inj F (l.map (fun i => Node.mk i [])) =
      l.mapM (fun i => classHead c o ⟨F, inj⟩ (modelAt g F i)) := by
  induction l with
  | nil => simp [nodesText]
  | cons i l ih =>
    simp only [List.map_cons, nodesText, nodeText, ih, List.mapM_cons, classHead_parts, headOf]
    cases classParts c o ⟨F, inj⟩ (modelAt g F i) with
    | error e => rfl
    | ok p => simp [bind, Except.bind, pure, Except.pure, Except.map, nestedPart_nil]

end J2M.Rend2
