/-
  C07 (generator level), part 6: `merge_field_sets` respects "same field sets up to order"
  (`mergeFieldSets_congr`): raw field sets that correspond up to `NSim` (in any order, with any
  repetition) merge to field dicts that correspond key by key up to `NSim`.
-/
import J2M.Proofs.PermRaw
import J2M.Proofs.InhMerge
import J2M.Proofs.Merge
namespace J2M.Perm
open J2M

/-- the types seen for key `k` in a list of processed `(key, type)` items (newest first) -/
def typesOf (k : String) (items : List (String × Ty)) : List Ty := (items.filter (·.1 == k)).map (·.2)

theorem mem_typesOf {k : String} {items : List (String × Ty)} {d : Ty} : d ∈ typesOf k items ↔ (k, d) ∈ items := by
  simp only [typesOf, List.mem_map, List.mem_filter, beq_iff_eq]
  constructor
  · rintro ⟨kv, ⟨h1, h2⟩, h3⟩; obtain ⟨k', t⟩ := kv; simp at h2 h3; subst h2 h3; exact h1
  · intro h; exact ⟨(k, d), ⟨h, rfl⟩, rfl⟩

theorem typesOf_cons_eq (k : String) (t : Ty) (items : List (String × Ty)) :
    typesOf k ((k, t) :: items) = t :: typesOf k items := by simp [typesOf]

theorem typesOf_cons_ne {k k' : String} (h : k' ≠ k) (t : Ty) (items : List (String × Ty)) :
    typesOf k ((k', t) :: items) = typesOf k items := by simp [typesOf, h]

theorem KInv.congr {c : LitCfg} {cur : Ty} {P P' : List Ty} (h : ∀ d, d ∈ P ↔ d ∈ P') (inv : KInv c cur P) :
    KInv c cur P' := by
  refine ⟨inv.raw, ?_, ?_, ?_, ?_, ?_, inv.stable⟩
  · intro e
    apply inv.ne
    cases hP : P with
    | nil => rfl
    | cons d P0 => have := (h d).1 (by rw [hP]; simp); rw [e] at this; simp at this
  · exact SetA.trans inv.plain (setR_NL leafEq_asim (SetA.of_mem_iff h))
  · rw [inv.eff]; exact eff_mem_congr h
  · intro e d hd; exact inv.ov1 e d ((h d).2 hd)
  · intro hh; exact inv.ov2 (fun d hd => hh d ((h d).1 hd))

/-- invariant of the accumulated field dict: every key holds `cur` or `Optional[cur]` with `KInv` -/
def FInvN (c : LitCfg) (fs : Fields) (items : List (String × Ty)) : Prop :=
  ∀ k, (fs.get? k = none → typesOf k items = []) ∧
    ∀ t, fs.get? k = some t → ∃ cur, (t = cur ∨ t = .opt cur) ∧ KInv c cur (typesOf k items)

theorem collapseU_eq (us : List Ty) : collapseU us = collapse us := rfl

theorem unionMembers_rawF {c : LitCfg} {d : Ty} (h : RawF c d) : d.unionMembers = [d] :=
  unionMembers_of_nonunion h.2

theorem FInvN.set {c : LitCfg} {fs : Fields} {items : List (String × Ty)} {name : String} {field v cur : Ty}
    (inv : FInvN c fs items) (hv : v = cur ∨ v = .opt cur)
    (hk : KInv c cur (typesOf name ((name, field) :: items))) :
    FInvN c (fs.set name v) ((name, field) :: items) := by
  intro k
  rw [Fields.get?_set']
  by_cases hkn : name = k
  · subst hkn
    simp only [if_true]
    refine ⟨fun h => (by cases h), fun t ht => ?_⟩
    cases ht
    exact ⟨cur, hv, hk⟩
  · simp only [hkn, if_false]
    rw [typesOf_cons_ne hkn]
    exact inv k

theorem FInvN.keep {c : LitCfg} {fs : Fields} {items : List (String × Ty)} {name : String} {field orig cur : Ty}
    (inv : FInvN c fs items) (hg : fs.get? name = some orig) (hv : orig = cur ∨ orig = .opt cur)
    (hk : KInv c cur (typesOf name ((name, field) :: items))) :
    FInvN c fs ((name, field) :: items) := by
  intro k
  by_cases hkn : name = k
  · subst hkn
    refine ⟨fun h => (by rw [hg] at h; cases h), fun t ht => ?_⟩
    rw [hg] at ht; cases ht
    exact ⟨cur, hv, hk⟩
  · rw [typesOf_cons_ne hkn]
    exact inv k

theorem field_not_opt_eq {c : LitCfg} {e : EqEnv} {cur field : Ty} (hc : RawN c cur) (hf : RawF c field)
    (h : e.eq (.opt cur) field = .ok true) : False := by
  have hs := eq_asim (K := KWf) (by simpa using hc.good) hf.1.good h
  have := asim_isOpt hs
  rw [hf.1.not_opt] at this
  simp [Ty.isOpt] at this

/-- one `(name, field)` of an incoming model -/
theorem mergeOne_finv {c : LitCfg} {e : EqEnv} {first : Bool} {fs fs' : Fields} {items : List (String × Ty)}
    {name : String} {field : Ty} (inv : FInvN c fs items) (hf : RawF c field)
    (h : mergeOne c e first fs name field = .ok fs') : FInvN c fs' ((name, field) :: items) := by
  have hfo : field.isOpt = false := hf.1.not_opt
  cases hg : fs.get? name with
  | none =>
    rw [mergeOne_none hg, Except.pure_eq_ok] at h
    subst h
    have hP : typesOf name ((name, field) :: items) = [field] := by
      rw [typesOf_cons_eq, (inv name).1 hg]
    apply inv.set (cur := field)
    · rw [hfo]; cases first <;> simp
    · rw [hP]; exact KInv.init hf
  | some orig =>
    obtain ⟨cur, hv, hk⟩ := (inv name).2 orig hg
    have hstep_skip : ASim cur field → KInv c cur (typesOf name ((name, field) :: items)) := by
      intro hs; rw [typesOf_cons_eq]; exact hk.skip hf hs
    have hstep_merge : e.eq cur field = .ok false →
        KInv c (mergeNew c field cur) (typesOf name ((name, field) :: items)) := by
      intro he
      rw [typesOf_cons_eq]
      unfold mergeNew
      rw [collapseU_eq, unionMembers_rawF hf]
      apply hk.merge hf
      rintro ⟨e1, e2⟩
      rw [e1, e2] at he
      have := eq_ovlit he
      cases this
    have hco : cur.isOpt = false := hk.raw.not_opt
    rcases hv with hv | hv
    · -- the existing type is not optional
      subst hv
      rw [mergeOne_some_other hg hco, Except.bind_eq_ok] at h
      obtain ⟨same, hsame, h⟩ := h
      cases same with
      | true =>
        simp only [if_true, Except.pure_eq_ok] at h
        subst h
        exact inv.keep hg (.inl rfl) (hstep_skip (eq_asim hk.raw.good hf.1.good hsame))
      | false =>
        simp only [Bool.false_eq_true, if_false] at h
        rw [Except.bind_eq_ok] at h
        obtain ⟨si, hsi, h⟩ := h
        have : si = false := by
          cases field <;> simp_all [Ty.isOpt, pure, Except.pure]
        subst this
        simp only [Bool.false_eq_true, if_false, Except.pure_eq_ok] at h
        subst h
        exact inv.set (.inl rfl) (hstep_merge hsame)
    · -- the existing type is `Optional[cur]`
      subst hv
      rw [mergeOne_some_opt hg, Except.bind_eq_ok] at h
      obtain ⟨b1, hb1, h⟩ := h
      cases b1 with
      | true => exact absurd (field_not_opt_eq hk.raw hf hb1) id
      | false =>
        simp only [Bool.false_eq_true, if_false] at h
        rw [Except.bind_eq_ok] at h
        obtain ⟨b2, hb2, h⟩ := h
        cases b2 with
        | true =>
          simp only [if_true, Except.pure_eq_ok] at h
          subst h
          exact inv.keep hg (.inr rfl) (hstep_skip (eq_asim hk.raw.good hf.1.good hb2))
        | false =>
          simp only [Bool.false_eq_true, if_false, Except.pure_eq_ok] at h
          subst h
          exact inv.set (.inr rfl) (hstep_merge hb2)

theorem mergeItems_finv {c : LitCfg} {e : EqEnv} {first : Bool} {m : Fields} :
    ∀ {fs r : Fields} {items : List (String × Ty)}, FInvN c fs items → (∀ kv ∈ m, RawF c kv.2) →
      mergeItems c e first fs m = .ok r → FInvN c r (m.reverse ++ items) := by
  induction m with
  | nil => intro fs r items inv _ h; rw [mergeItems_nil, Except.ok.injEq] at h; subst h; simpa using inv
  | cons kv m ih =>
    intro fs r items inv hm h
    obtain ⟨fs', h1, h2⟩ := mergeItems_cons.1 h
    have := ih (mergeOne_finv inv (hm kv (List.mem_cons_self ..)) h1)
      (fun kv' h' => hm kv' (List.mem_cons_of_mem _ h')) h2
    simpa using this

theorem finv_map_wrapMissing {c : LitCfg} {fs : Fields} {items : List (String × Ty)} (before : List String)
    (m : Fields) (inv : FInvN c fs items) : FInvN c (fs.map (wrapMissing before m)) items := by
  intro k
  rw [get?_map_wrapMissing]
  constructor
  · intro h
    cases hg : fs.get? k with
    | none => exact (inv k).1 hg
    | some t => rw [hg] at h; cases h
  · intro t ht
    cases hg : fs.get? k with
    | none => rw [hg] at ht; cases ht
    | some t0 =>
      rw [hg] at ht
      simp only [Option.map_some, Option.some.injEq] at ht
      obtain ⟨cur, hv, hk⟩ := (inv k).2 t0 hg
      refine ⟨cur, ?_, hk⟩
      subst ht
      unfold wrapMissing
      split
      · rename_i hc
        have hno : t0.isOpt = false := by
          cases hh : t0.isOpt
          · rfl
          · simp [hh] at hc
        rcases hv with hv | hv
        · subst hv; exact .inr rfl
        · subst hv; simp [Ty.isOpt] at hno
      · exact hv

theorem mergeStep_finv {c : LitCfg} {e : EqEnv} {first : Bool} {fs r m : Fields} {items : List (String × Ty)}
    (inv : FInvN c fs items) (hm : ∀ kv ∈ m, RawF c kv.2) (h : mergeStep c e first fs m = .ok r) :
    FInvN c r (m.reverse ++ items) := by
  obtain ⟨fs1, h1, h2⟩ := mergeStep_eq.1 h
  subst h2
  exact finv_map_wrapMissing _ _ (mergeItems_finv inv hm h1)

theorem go_finv {c : LitCfg} {e : EqEnv} {sets : List Fields} :
    ∀ {first : Bool} {fs r : Fields} {items : List (String × Ty)}, FInvN c fs items →
      (∀ m ∈ sets, ∀ kv ∈ m, RawF c kv.2) → mergeFieldSets.go c e first fs sets = .ok r →
      ∃ items', FInvN c r items' ∧ ∀ kv, kv ∈ items' ↔ kv ∈ items ∨ ∃ m ∈ sets, kv ∈ m := by
  induction sets with
  | nil =>
    intro first fs r items inv _ h
    simp [mergeFieldSets.go, pure, Except.pure] at h
    subst h
    exact ⟨items, inv, by simp⟩
  | cons m ms ih =>
    intro first fs r items inv hs h
    rw [mergeFieldSets.go, Except.bind_ok_iff] at h
    obtain ⟨f1, h1, h2⟩ := h
    obtain ⟨items', hinv, hmem⟩ := ih (mergeStep_finv inv (hs m (List.mem_cons_self ..)) h1)
      (fun m' h' => hs m' (List.mem_cons_of_mem _ h')) h2
    refine ⟨items', hinv, fun kv => ?_⟩
    rw [hmem]
    simp only [List.mem_append, List.mem_reverse, List.mem_cons, exists_eq_or_imp]
    constructor
    · rintro ((h | h) | h)
      · exact .inr (.inl h)
      · exact .inl h
      · exact .inr (.inr h)
    · rintro (h | h | h)
      · exact .inl (.inr h)
      · exact .inl (.inl h)
      · exact .inr h

/-- the per-key description of `merge_field_sets` on raw field sets -/
theorem mergeFieldSets_finv {c : LitCfg} {e : EqEnv} {sets : List Fields} {r : Fields}
    (hs : ∀ m ∈ sets, ∀ kv ∈ m, RawF c kv.2) (h : mergeFieldSets c e sets = .ok r) :
    ∃ items, FInvN c r items ∧ ∀ kv, kv ∈ items ↔ ∃ m ∈ sets, kv ∈ m := by
  unfold mergeFieldSets at h
  have inv0 : FInvN c [] [] := fun k => ⟨fun _ => rfl, fun t ht => by simp [Fields.get?] at ht⟩
  obtain ⟨items, hinv, hmem⟩ := go_finv inv0 hs h
  exact ⟨items, hinv, fun kv => by rw [hmem]; simp⟩

/-- two lists of field sets with the same sets up to order (any order, any repetition) -/
def SetsN (sets₁ sets₂ : List Fields) : Prop :=
  (∀ fs ∈ sets₁, ∃ gs ∈ sets₂, FieldsN fs gs) ∧ (∀ gs ∈ sets₂, ∃ fs ∈ sets₁, FieldsN fs gs)

theorem SetsN.of_same {sets₁ sets₂ : List Fields} (h : ∀ fs, fs ∈ sets₁ ↔ fs ∈ sets₂) : SetsN sets₁ sets₂ :=
  ⟨fun fs hfs => ⟨fs, (h fs).1 hfs, FieldsN.refl fs⟩, fun gs hgs => ⟨gs, (h gs).2 hgs, FieldsN.refl gs⟩⟩

theorem SetsN.symm {sets₁ sets₂ : List Fields} (h : SetsN sets₁ sets₂) : SetsN sets₂ sets₁ :=
  ⟨fun gs hgs => by obtain ⟨fs, hfs, hh⟩ := h.2 gs hgs; exact ⟨fs, hfs, hh.symm⟩,
   fun fs hfs => by obtain ⟨gs, hgs, hh⟩ := h.1 fs hfs; exact ⟨gs, hgs, hh.symm⟩⟩

/-- raw field sets -/
def RawSets (c : LitCfg) (sets : List Fields) : Prop := ∀ m ∈ sets, ∀ kv ∈ m, RawF c kv.2

theorem RawSets.optFree {c : LitCfg} {sets : List Fields} (h : RawSets c sets) : OptFree sets := by
  intro fs hfs kv hkv
  have := h fs hfs kv hkv
  rw [hasOptMember_nonunion this.2, this.1.not_opt]
  simp

theorem fieldsN_keys {fs gs : Fields} (h : FieldsN fs gs) (k : String) : k ∈ fs.keys ↔ k ∈ gs.keys := by
  simp only [Fields.keys, List.mem_map]
  constructor
  · rintro ⟨kv, hkv, rfl⟩
    obtain ⟨u, hu, _⟩ := h.1 kv hkv
    exact ⟨_, hu, rfl⟩
  · rintro ⟨kv, hkv, rfl⟩
    obtain ⟨t, ht, _⟩ := h.2 kv hkv
    exact ⟨_, ht, rfl⟩

theorem mergeFieldSets_congr_half {c : LitCfg} {e : EqEnv} {sets₁ sets₂ : List Fields} {r₁ r₂ : Fields}
    (hr₁ : RawSets c sets₁) (hr₂ : RawSets c sets₂) (hs : SetsN sets₁ sets₂)
    (h₁ : mergeFieldSets c e sets₁ = .ok r₁) (h₂ : mergeFieldSets c e sets₂ = .ok r₂) :
    ∀ kv ∈ r₁, ∃ u, (kv.1, u) ∈ r₂ ∧ NSim kv.2 u := by
  intro kv hkv
  obtain ⟨k, t⟩ := kv
  obtain ⟨items₁, inv₁, mem₁⟩ := mergeFieldSets_finv hr₁ h₁
  obtain ⟨items₂, inv₂, mem₂⟩ := mergeFieldSets_finv hr₂ h₂
  have nd₁ : r₁.keys.Nodup := by rw [mergeFieldSets_keys h₁]; exact nodup_dedupStr _
  have nd₂ : r₂.keys.Nodup := by rw [mergeFieldSets_keys h₂]; exact nodup_dedupStr _
  -- the key is a key of the other result
  have hk₁ : k ∈ r₁.keys := List.mem_map.2 ⟨_, hkv, rfl⟩
  have hk₂ : k ∈ r₂.keys := by
    rw [mergeFieldSets_keys h₁, mem_dedupStr, List.mem_flatMap] at hk₁
    obtain ⟨fs, hfs, hk⟩ := hk₁
    obtain ⟨gs, hgs, hfg⟩ := hs.1 fs hfs
    rw [mergeFieldSets_keys h₂, mem_dedupStr, List.mem_flatMap]
    exact ⟨gs, hgs, (fieldsN_keys hfg k).1 hk⟩
  obtain ⟨u, hu⟩ := mem_keys_iff.1 hk₂
  refine ⟨u, hu, ?_⟩
  have g₁ := Fields.get?_of_mem_nodup nd₁ hkv
  have g₂ := Fields.get?_of_mem_nodup nd₂ hu
  obtain ⟨cur₁, hv₁, k₁⟩ := (inv₁ k).2 t g₁
  obtain ⟨cur₂, hv₂, k₂⟩ := (inv₂ k).2 u g₂
  -- the same types were seen, up to order
  have hP : SetA (typesOf k items₁) (typesOf k items₂) := by
    constructor
    · intro d hd
      obtain ⟨fs, hfs, hin⟩ := (mem₁ _).1 (mem_typesOf.1 hd)
      obtain ⟨gs, hgs, hfg⟩ := hs.1 fs hfs
      obtain ⟨d', hd', hn⟩ := hfg.1 _ hin
      exact ⟨d', mem_typesOf.2 ((mem₂ _).2 ⟨gs, hgs, hd'⟩),
        asim_of_nsim (hr₁ fs hfs _ hin).2 (hr₂ gs hgs _ hd').2 hn⟩
    · intro d' hd'
      obtain ⟨gs, hgs, hin⟩ := (mem₂ _).1 (mem_typesOf.1 hd')
      obtain ⟨fs, hfs, hfg⟩ := hs.2 gs hgs
      obtain ⟨d, hd, hn⟩ := hfg.2 _ hin
      exact ⟨d, mem_typesOf.2 ((mem₁ _).2 ⟨fs, hfs, hd⟩),
        asim_of_nsim (hr₁ fs hfs _ hd).2 (hr₂ gs hgs _ hin).2 hn⟩
  have hcur : NSim cur₁ cur₂ := KInv.final k₁ k₂ hP
  -- same optional status
  have ho₁ := mergeFieldSets_opt_iff_of_optFree h₁ hr₁.optFree hkv
  have ho₂ := mergeFieldSets_opt_iff_of_optFree h₂ hr₂.optFree hu
  have habs : AbsentIn sets₁ k ↔ AbsentIn sets₂ k := by
    constructor
    · rintro ⟨fs, hfs, hk⟩
      obtain ⟨gs, hgs, hfg⟩ := hs.1 fs hfs
      exact ⟨gs, hgs, fun hk' => hk ((fieldsN_keys hfg k).2 hk')⟩
    · rintro ⟨gs, hgs, hk⟩
      obtain ⟨fs, hfs, hfg⟩ := hs.2 gs hgs
      exact ⟨fs, hfs, fun hk' => hk ((fieldsN_keys hfg k).1 hk')⟩
  have hopt : t.isOpt = true ↔ u.isOpt = true := by rw [ho₁, ho₂, habs]
  have c₁ := k₁.raw.not_opt
  have c₂ := k₂.raw.not_opt
  rcases hv₁ with rfl | rfl <;> rcases hv₂ with rfl | rfl
  · exact hcur
  · have := hopt.2 rfl; rw [c₁] at this; cases this
  · have := hopt.1 rfl; rw [c₂] at this; cases this
  · exact nsim_of_asim' (asim_opt_opt.2 hcur)

/-- **`merge_field_sets` respects "the same field sets up to order".**  For raw field sets (what the
    generator stage passes: no `DOptional`, field types not unions) that correspond up to `NSim` — in any
    order and with any repetition — the merged dicts have the same keys, and for each key the same
    optional status and the same member set up to order. -/
theorem mergeFieldSets_congr {c : LitCfg} {e : EqEnv} {sets₁ sets₂ : List Fields} {r₁ r₂ : Fields}
    (hr₁ : RawSets c sets₁) (hr₂ : RawSets c sets₂) (hs : SetsN sets₁ sets₂)
    (h₁ : mergeFieldSets c e sets₁ = .ok r₁) (h₂ : mergeFieldSets c e sets₂ = .ok r₂) :
    FieldsN r₁ r₂ := by
  refine ⟨mergeFieldSets_congr_half hr₁ hr₂ hs h₁ h₂, ?_⟩
  intro kv hkv
  obtain ⟨t, ht, hn⟩ := mergeFieldSets_congr_half hr₂ hr₁ hs.symm h₂ h₁ kv hkv
  exact ⟨t, ht, hn.symm⟩

/-- what the merge builds: every field is a raw type or `Optional[raw type]` -/
theorem mergeFieldSets_rawT {c : LitCfg} {e : EqEnv} {sets : List Fields} {r : Fields}
    (hr : RawSets c sets) (h : mergeFieldSets c e sets = .ok r) :
    r.keys.Nodup ∧ ∀ kv ∈ r, RawN c kv.2 ∨ ∃ x, kv.2 = .opt x ∧ RawN c x := by
  have nd : r.keys.Nodup := by rw [mergeFieldSets_keys h]; exact nodup_dedupStr _
  refine ⟨nd, fun kv hkv => ?_⟩
  obtain ⟨items, inv, _⟩ := mergeFieldSets_finv hr h
  obtain ⟨cur, hv, hk⟩ := (inv kv.1).2 kv.2 (Fields.get?_of_mem_nodup nd hkv)
  rcases hv with hv | hv
  · exact .inl (hv ▸ hk.raw)
  · exact .inr ⟨cur, hv, hk.raw⟩

/-- comparing one key of two dicts that satisfy the per-key invariant -/
theorem finv_nsim {c : LitCfg} {r₁ r₂ : Fields} {items₁ items₂ : List (String × Ty)} {k : String} {t u : Ty}
    (inv₁ : FInvN c r₁ items₁) (inv₂ : FInvN c r₂ items₂)
    (g₁ : r₁.get? k = some t) (g₂ : r₂.get? k = some u)
    (hP : SetA (typesOf k items₁) (typesOf k items₂)) (hopt : t.isOpt = true ↔ u.isOpt = true) : NSim t u := by
  obtain ⟨cur₁, hv₁, k₁⟩ := (inv₁ k).2 t g₁
  obtain ⟨cur₂, hv₂, k₂⟩ := (inv₂ k).2 u g₂
  have hcur : NSim cur₁ cur₂ := KInv.final k₁ k₂ hP
  have c₁ := k₁.raw.not_opt
  have c₂ := k₂.raw.not_opt
  rcases hv₁ with rfl | rfl <;> rcases hv₂ with rfl | rfl
  · exact hcur
  · have := hopt.2 rfl; rw [c₁] at this; cases this
  · have := hopt.1 rfl; rw [c₂] at this; cases this
  · exact nsim_of_asim' (asim_opt_opt.2 hcur)

/-- a raw dict with distinct keys satisfies the invariant with itself as the list of processed items -/
theorem finv_self {c : LitCfg} {A : Fields} (nd : A.keys.Nodup) (hA : ∀ kv ∈ A, RawF c kv.2) : FInvN c A A := by
  intro k
  constructor
  · intro hg
    have hk : k ∉ A.keys := Fields.get?_eq_none.1 hg
    cases h : typesOf k A with
    | nil => rfl
    | cons d ds =>
      have : d ∈ typesOf k A := by rw [h]; simp
      exact absurd (List.mem_map.2 ⟨_, mem_typesOf.1 this, rfl⟩) hk
  · intro t ht
    have hm := Fields.get?_mem ht
    refine ⟨t, .inl rfl, KInv.congr ?_ (KInv.init (hA _ hm))⟩
    intro d
    rw [mem_typesOf]
    constructor
    · intro hd; simp at hd; subst hd; exact hm
    · intro hd
      have := Fields.get?_of_mem_nodup nd hd
      rw [ht] at this; cases this; simp

end J2M.Perm
