/-
  Helper development for C04 / C10b: annotation terms `Ann`, their printer, the denotation `tyAnn` of an IR type
  under a framework's style, and the correspondence with `typingCode`.
-/
import J2M.Render
namespace J2M.Rend

open J2M

/-! ## annotation expressions -/

/-- abstract syntax of the annotation expressions the generators write -/
inductive Ann where
  | int | float | bool | str | none | any            -- the names `int float bool str None Any`
  | cls (module name : String)                        -- a class referred to by its bare name, imported from `module`
  | fwd (ref : String)                                -- quoted forward reference `'Outer.Inner'`
  | list (a : Ann) | dict (a : Ann) | opt (a : Ann)   -- `List[a]`, `Dict[str, a]`, `Optional[a]`
  | union (as : List Ann) | tuple (as : List Ann)     -- `Union[a, ...]`, `Tuple[a, ...]`
  | literal (vals : List String)                      -- `Literal["v", ...]`
  deriving Repr, Inhabited

mutual
def Ann.print : Ann → String
  | .int => "int" | .float => "float" | .bool => "bool" | .str => "str" | .none => "None" | .any => "Any"
  | .cls _ n => n
  | .fwd r => "'" ++ r ++ "'"
  | .list a => "List[" ++ a.print ++ "]"
  | .dict a => "Dict[str, " ++ a.print ++ "]"
  | .opt a => "Optional[" ++ a.print ++ "]"
  | .union as => "Union[" ++ ", ".intercalate (Ann.printList as) ++ "]"
  | .tuple as => "Tuple[" ++ ", ".intercalate (Ann.printList as) ++ "]"
  | .literal vs => "Literal[" ++ ", ".intercalate (vs.map (jsonDumps false)) ++ "]"
def Ann.printList : List Ann → List String
  | [] => []
  | a :: as => a.print :: Ann.printList as
end

theorem Ann.printList_eq (as : List Ann) : Ann.printList as = as.map Ann.print := by
  induction as with
  | nil => rfl
  | cons a as ih => simp [Ann.printList, ih]

mutual
/-- the imports an annotation term needs, in the order the generator collects them
    (`lm` = the module `Literal` comes from) -/
def Ann.needs (lm : String) : Ann → List Imp
  | .int | .float | .bool | .str | .none => []
  | .any => [⟨"typing", some ["Any"]⟩]
  | .cls m n => if m != "builtins" then [⟨m, some [n]⟩] else []
  | .fwd _ => []
  | .list a => a.needs lm ++ [⟨"typing", some ["List"]⟩]
  | .dict a => a.needs lm ++ [⟨"typing", some ["Dict"]⟩]
  | .opt a => a.needs lm ++ [⟨"typing", some ["Optional"]⟩]
  | .union as => Ann.needsList lm as ++ [⟨"typing", some ["Union"]⟩]
  | .tuple as => Ann.needsList lm as ++ [⟨"typing", some ["Tuple"]⟩]
  | .literal _ => [⟨lm, some ["Literal"]⟩]
def Ann.needsList (lm : String) : List Ann → List Imp
  | [] => []
  | a :: as => a.needs lm ++ Ann.needsList lm as
end

mutual
/-- the term contains a `Literal[...]` node -/
def Ann.hasLiteral : Ann → Bool
  | .literal _ => true
  | .list a | .dict a | .opt a => a.hasLiteral
  | .union as | .tuple as => Ann.hasLiteralList as
  | _ => false
def Ann.hasLiteralList : List Ann → Bool
  | [] => false
  | a :: as => a.hasLiteral || Ann.hasLiteralList as
end

/-! ## the typing term an IR type denotes -/

/-- text of a pointer: `'Root.Child'` with path injection, `'Child'` without -/
def ptrRef (e : RefEnv) (i n : String) : String :=
  let path := match e.pathInj.find? (·.1 == i) with
    | some (_, r) => (e.name? r).getD ""
    | none => ""
  ".".intercalate ([path, n].filter (fun s => !s.isEmpty))

mutual
/-- the typing term the IR denotes under the framework's style; `none` where `metadata_to_typing` raises -/
def tyAnn (c : RenderCfg) (e : RefEnv) : Ty → Option Ann
  | .int => some .int | .float => some .float | .bool => some .bool | .str => some .str
  | .null => some .none
  | .unknown => some .any
  | .ser k =>
    if c.useActual then
      match c.serInfo.find? (·.1 == k) with
      | some (_, an, am) => some (.cls am an)
      | none => none
    else some (.cls "json_to_models.dynamic_typing" k)
  | .lit _ vs =>
    if c.useLiterals && decide ((vs.length : Int) < c.maxLiterals) then some (.literal vs) else some .str
  | .list t => (tyAnn c e t).map .list
  | .dict t => (tyAnn c e t).map .dict
  | .opt t => (tyAnn c e t).map .opt
  | .union ts => if ts.isEmpty then none else (tyAnns c e ts).map .union
  | .tuple ts => if ts.isEmpty then none else (tyAnns c e ts).map .tuple
  | .obj _ => none
  | .ptr i => (e.name? i).map (fun n => .fwd (ptrRef e i n))
def tyAnns (c : RenderCfg) (e : RefEnv) : List Ty → Option (List Ann)
  | [] => some []
  | t :: ts =>
    match tyAnn c e t, tyAnns c e ts with
    | some a, some as => some (a :: as)
    | _, _ => none
end

/-! ## `typingCode` prints `tyAnn` and collects `needs` -/

mutual
theorem typingCode_ok (c : RenderCfg) (e : RefEnv) :
    ∀ (t : Ty) (imps : List Imp) (s : String), typingCode c e t = .ok (imps, s) →
      ∃ a, tyAnn c e t = some a ∧ s = a.print ∧ imps = a.needs c.literalModule
  | .int, imps, s, h | .float, imps, s, h | .bool, imps, s, h | .str, imps, s, h
  | .null, imps, s, h | .unknown, imps, s, h => by
    simp [typingCode, pure, Except.pure] at h
    obtain ⟨rfl, rfl⟩ := h
    exact ⟨_, rfl, rfl, rfl⟩
  | .ser k, imps, s, h => by
    simp only [typingCode] at h
    simp only [tyAnn]
    split at h
    · split at h
      · rename_i an am hf
        simp [pure, Except.pure] at h
        obtain ⟨rfl, rfl⟩ := h
        exact ⟨.cls am an, by simp [*], rfl, by simp [Ann.needs]⟩
      · cases h
    · simp [pure, Except.pure] at h
      obtain ⟨rfl, rfl⟩ := h
      exact ⟨.cls "json_to_models.dynamic_typing" k, by simp [*], rfl, by simp [Ann.needs]⟩
  | .lit o vs, imps, s, h => by
    simp only [typingCode] at h
    simp only [tyAnn]
    split at h
    · simp [pure, Except.pure] at h
      obtain ⟨rfl, rfl⟩ := h
      exact ⟨.literal vs, by simp [*], rfl, rfl⟩
    · simp [pure, Except.pure] at h
      obtain ⟨rfl, rfl⟩ := h
      exact ⟨.str, by simp [*], rfl, rfl⟩
  | .list t, imps, s, h => by
    simp only [typingCode, bind, Except.bind] at h
    split at h
    · cases h
    · rename_i r hr
      obtain ⟨i, s'⟩ := r
      obtain ⟨a, ha, rfl, rfl⟩ := typingCode_ok c e t i s' hr
      simp [pure, Except.pure] at h
      obtain ⟨rfl, rfl⟩ := h
      exact ⟨.list a, by simp [tyAnn, ha], rfl, rfl⟩
  | .dict t, imps, s, h => by
    simp only [typingCode, bind, Except.bind] at h
    split at h
    · cases h
    · rename_i r hr
      obtain ⟨i, s'⟩ := r
      obtain ⟨a, ha, rfl, rfl⟩ := typingCode_ok c e t i s' hr
      simp [pure, Except.pure] at h
      obtain ⟨rfl, rfl⟩ := h
      exact ⟨.dict a, by simp [tyAnn, ha], rfl, rfl⟩
  | .opt t, imps, s, h => by
    simp only [typingCode, bind, Except.bind] at h
    split at h
    · cases h
    · rename_i r hr
      obtain ⟨i, s'⟩ := r
      obtain ⟨a, ha, rfl, rfl⟩ := typingCode_ok c e t i s' hr
      simp [pure, Except.pure] at h
      obtain ⟨rfl, rfl⟩ := h
      exact ⟨.opt a, by simp [tyAnn, ha], rfl, rfl⟩
  | .union ts, imps, s, h => by
    simp only [typingCode, bind, Except.bind] at h
    split at h
    · cases h
    · rename_i r hr
      obtain ⟨i, ss⟩ := r
      obtain ⟨as, has, rfl, rfl⟩ := typingCodes_ok c e ts i ss hr
      split at h
      · cases h
      · rename_i hne
        simp [pure, Except.pure] at h
        obtain ⟨rfl, rfl⟩ := h
        exact ⟨.union as, by simp [tyAnn, has, hne], rfl, rfl⟩
  | .tuple ts, imps, s, h => by
    simp only [typingCode, bind, Except.bind] at h
    split at h
    · cases h
    · rename_i r hr
      obtain ⟨i, ss⟩ := r
      obtain ⟨as, has, rfl, rfl⟩ := typingCodes_ok c e ts i ss hr
      split at h
      · cases h
      · rename_i hne
        simp [pure, Except.pure] at h
        obtain ⟨rfl, rfl⟩ := h
        exact ⟨.tuple as, by simp [tyAnn, has, hne], rfl, rfl⟩
  | .obj fs, imps, s, h => by simp [typingCode] at h
  | .ptr i, imps, s, h => by
    simp only [typingCode] at h
    split at h
    · cases h
    · rename_i n hn
      simp [pure, Except.pure] at h
      obtain ⟨rfl, rfl⟩ := h
      exact ⟨.fwd (ptrRef e i n), by simp [tyAnn, hn], rfl, rfl⟩
theorem typingCodes_ok (c : RenderCfg) (e : RefEnv) :
    ∀ (ts : List Ty) (imps : List Imp) (ss : List String), typingCodes c e ts = .ok (imps, ss) →
      ∃ as, tyAnns c e ts = some as ∧ ss = Ann.printList as ∧ imps = Ann.needsList c.literalModule as
  | [], imps, ss, h => by
    simp [typingCodes, pure, Except.pure] at h
    obtain ⟨rfl, rfl⟩ := h
    exact ⟨[], rfl, rfl, rfl⟩
  | t :: ts, imps, ss, h => by
    simp only [typingCodes, bind, Except.bind] at h
    split at h
    · cases h
    · rename_i r hr
      obtain ⟨i, s⟩ := r
      obtain ⟨a, ha, rfl, rfl⟩ := typingCode_ok c e t i s hr
      split at h
      · cases h
      · rename_i r2 hr2
        obtain ⟨is, ss'⟩ := r2
        obtain ⟨as, has, rfl, rfl⟩ := typingCodes_ok c e ts is ss' hr2
        simp [pure, Except.pure] at h
        obtain ⟨rfl, rfl⟩ := h
        exact ⟨a :: as, by simp [tyAnns, ha, has], rfl, rfl⟩
end

/-! ## converse: wherever the denotation exists, `typingCode` succeeds with its print -/

mutual
theorem typingCode_complete (c : RenderCfg) (e : RefEnv) :
    ∀ (t : Ty) (a : Ann), tyAnn c e t = some a →
      typingCode c e t = .ok (a.needs c.literalModule, a.print)
  | .int, a, h | .float, a, h | .bool, a, h | .str, a, h | .null, a, h | .unknown, a, h => by
    simp [tyAnn] at h; subst h; rfl
  | .ser k, a, h => by
    simp only [tyAnn] at h
    simp only [typingCode]
    split at h
    · split at h
      · rename_i an am hf
        cases h
        simp [*, pure, Except.pure, Ann.needs, Ann.print]
      · cases h
    · cases h
      simp [*, pure, Except.pure, Ann.needs, Ann.print]
  | .lit o vs, a, h => by
    simp only [tyAnn] at h
    simp only [typingCode]
    split at h <;> cases h <;> simp [*, pure, Except.pure, Ann.needs, Ann.print]
  | .list t, a, h => by
    simp only [tyAnn, Option.map_eq_some_iff] at h
    obtain ⟨a', ha', rfl⟩ := h
    simp [typingCode, typingCode_complete c e t a' ha', bind, Except.bind, pure, Except.pure, Ann.needs, Ann.print]
  | .dict t, a, h => by
    simp only [tyAnn, Option.map_eq_some_iff] at h
    obtain ⟨a', ha', rfl⟩ := h
    simp [typingCode, typingCode_complete c e t a' ha', bind, Except.bind, pure, Except.pure, Ann.needs, Ann.print]
  | .opt t, a, h => by
    simp only [tyAnn, Option.map_eq_some_iff] at h
    obtain ⟨a', ha', rfl⟩ := h
    simp [typingCode, typingCode_complete c e t a' ha', bind, Except.bind, pure, Except.pure, Ann.needs, Ann.print]
  | .union ts, a, h => by
    simp only [tyAnn] at h
    split at h
    · cases h
    · rename_i hne
      simp only [Option.map_eq_some_iff] at h
      obtain ⟨as, has, rfl⟩ := h
      simp [typingCode, typingCodes_complete c e ts as has, bind, Except.bind, pure, Except.pure, Ann.needs,
        Ann.print, hne]
  | .tuple ts, a, h => by
    simp only [tyAnn] at h
    split at h
    · cases h
    · rename_i hne
      simp only [Option.map_eq_some_iff] at h
      obtain ⟨as, has, rfl⟩ := h
      simp [typingCode, typingCodes_complete c e ts as has, bind, Except.bind, pure, Except.pure, Ann.needs,
        Ann.print, hne]
  | .obj fs, a, h => by simp [tyAnn] at h
  | .ptr i, a, h => by
    simp only [tyAnn, Option.map_eq_some_iff] at h
    obtain ⟨n, hn, rfl⟩ := h
    simp only [typingCode, hn]
    rfl
theorem typingCodes_complete (c : RenderCfg) (e : RefEnv) :
    ∀ (ts : List Ty) (as : List Ann), tyAnns c e ts = some as →
      typingCodes c e ts = .ok (Ann.needsList c.literalModule as, Ann.printList as)
  | [], as, h => by simp [tyAnns] at h; subst h; rfl
  | t :: ts, as, h => by
    simp only [tyAnns] at h
    split at h
    · rename_i a as' ha has
      cases h
      simp [typingCodes, typingCode_complete c e t a ha, typingCodes_complete c e ts as' has, bind, Except.bind,
        pure, Except.pure, Ann.needsList, Ann.printList]
    · cases h
end

/-- `metadata_to_typing` raises exactly where there is no denotation -/
theorem typingCode_error_iff (c : RenderCfg) (e : RefEnv) (t : Ty) :
    (∃ err, typingCode c e t = .error err) ↔ tyAnn c e t = none := by
  constructor
  · rintro ⟨err, h⟩
    cases ha : tyAnn c e t with
    | none => rfl
    | some a => rw [typingCode_complete c e t a ha] at h; cases h
  · intro h
    cases hc : typingCode c e t with
    | error err => exact ⟨err, rfl⟩
    | ok r =>
      obtain ⟨a, ha, _⟩ := typingCode_ok c e t r.1 r.2 hc
      rw [h] at ha; cases ha

/-! ## where `Literal[...]` nodes come from -/

/-- the rule of `StringLiteral.to_typing_code` -/
def litShown (c : RenderCfg) (vs : List String) : Bool :=
  c.useLiterals && decide ((vs.length : Int) < c.maxLiterals)

mutual
/-- the IR type has a literal member that the style shows as `Literal[...]` -/
def litPos (c : RenderCfg) : Ty → Bool
  | .lit _ vs => litShown c vs
  | .list t | .dict t | .opt t => litPos c t
  | .union ts | .tuple ts => litPosList c ts
  | _ => false
def litPosList (c : RenderCfg) : List Ty → Bool
  | [] => false
  | t :: ts => litPos c t || litPosList c ts
end

mutual
theorem hasLiteral_eq (c : RenderCfg) (e : RefEnv) :
    ∀ (t : Ty) (a : Ann), tyAnn c e t = some a → a.hasLiteral = litPos c t
  | .int, a, h | .float, a, h | .bool, a, h | .str, a, h | .null, a, h | .unknown, a, h => by
    simp [tyAnn] at h; subst h; rfl
  | .ser k, a, h => by
    simp only [tyAnn] at h
    split at h
    · split at h <;> cases h; rfl
    · cases h; rfl
  | .lit o vs, a, h => by
    simp only [tyAnn] at h
    split at h <;> cases h <;> simp_all [Ann.hasLiteral, litPos, litShown]
  | .list t, a, h => by
    simp only [tyAnn, Option.map_eq_some_iff] at h
    obtain ⟨a', ha', rfl⟩ := h
    simpa [Ann.hasLiteral, litPos] using hasLiteral_eq c e t a' ha'
  | .dict t, a, h => by
    simp only [tyAnn, Option.map_eq_some_iff] at h
    obtain ⟨a', ha', rfl⟩ := h
    simpa [Ann.hasLiteral, litPos] using hasLiteral_eq c e t a' ha'
  | .opt t, a, h => by
    simp only [tyAnn, Option.map_eq_some_iff] at h
    obtain ⟨a', ha', rfl⟩ := h
    simpa [Ann.hasLiteral, litPos] using hasLiteral_eq c e t a' ha'
  | .union ts, a, h => by
    simp only [tyAnn] at h
    split at h
    · cases h
    · simp only [Option.map_eq_some_iff] at h
      obtain ⟨as, has, rfl⟩ := h
      simpa [Ann.hasLiteral, litPos] using hasLiteralList_eq c e ts as has
  | .tuple ts, a, h => by
    simp only [tyAnn] at h
    split at h
    · cases h
    · simp only [Option.map_eq_some_iff] at h
      obtain ⟨as, has, rfl⟩ := h
      simpa [Ann.hasLiteral, litPos] using hasLiteralList_eq c e ts as has
  | .obj fs, a, h => by simp [tyAnn] at h
  | .ptr i, a, h => by
    simp only [tyAnn, Option.map_eq_some_iff] at h
    obtain ⟨n, _, rfl⟩ := h
    rfl
theorem hasLiteralList_eq (c : RenderCfg) (e : RefEnv) :
    ∀ (ts : List Ty) (as : List Ann), tyAnns c e ts = some as → Ann.hasLiteralList as = litPosList c ts
  | [], as, h => by simp [tyAnns] at h; subst h; rfl
  | t :: ts, as, h => by
    simp only [tyAnns] at h
    split at h
    · rename_i a as' ha has
      cases h
      simp [Ann.hasLiteralList, litPosList, hasLiteral_eq c e t a ha, hasLiteralList_eq c e ts as' has]
    · cases h
end

/-- the style never shows a literal: attrs (`use_literals = False`) or a non-positive `max_literals` -/
def NoLit (c : RenderCfg) : Prop := c.useLiterals = false ∨ c.maxLiterals ≤ 0

theorem litShown_false {c : RenderCfg} (h : NoLit c) (vs : List String) : litShown c vs = false := by
  unfold litShown
  rcases h with h | h
  · simp [h]
  · have : ¬ ((vs.length : Int) < c.maxLiterals) := by omega
    simp [this]

mutual
theorem litPos_false {c : RenderCfg} (h : NoLit c) : ∀ t : Ty, litPos c t = false
  | .lit _ vs => by simp [litPos, litShown_false h]
  | .list t | .dict t | .opt t => by simp [litPos, litPos_false h t]
  | .union ts | .tuple ts => by simp [litPos, litPosList_false h ts]
  | .int | .float | .bool | .str | .null | .unknown | .ser _ | .obj _ | .ptr _ => by simp [litPos]
theorem litPosList_false {c : RenderCfg} (h : NoLit c) : ∀ ts : List Ty, litPosList c ts = false
  | [] => rfl
  | t :: ts => by simp [litPosList, litPos_false h t, litPosList_false h ts]
end

theorem noLit_of_attrs {c : RenderCfg} (h : c.fw = .attrs) : NoLit c := by
  left; simp [RenderCfg.useLiterals, h]; decide

end J2M.Rend
