/-
  Helper development for C04 / C10b: annotation terms `Ann`, their printer, the denotation `tyAnn` of an IR type
  under a framework's style, and the correspondence with `typingCode`.
-/
import J2M.Render
import J2M.LexRepr
import J2M.Proofs.StringsLex
namespace J2M.Rend

open J2M

/-! ## annotation expressions -/

/-- abstract syntax of the annotation expressions the generators write -/
inductive Ann where
  | int | float | bool | str | none | any            -- the names `int float bool str None Any`
  | cls (module name : String)                        -- a class referred to by its bare name, imported from `module`
  | fwd (ref : String)                                -- quoted forward reference `'Outer.Inner'`
  | list (a : Ann) | dict (a : Ann) | opt (a : Ann)   -- `List[a]`, `Dict[str, a]`, `Optional[a]`
  | union (as : List Ann) | tuple (as : List Ann)     -- `Union[a, ...]`, `Tuple[a, ...]`
  | literal (vals : List String)                      -- `Literal["v", ...]`
  deriving Repr, Inhabited

mutual
def Ann.print : Ann → String
  | .int => "int" | .float => "float" | .bool => "bool" | .str => "str" | .none => "None" | .any => "Any"
  | .cls _ n => n
  | .fwd r => "'" ++ r ++ "'"
  | .list a => "List[" ++ a.print ++ "]"
  | .dict a => "Dict[str, " ++ a.print ++ "]"
  | .opt a => "Optional[" ++ a.print ++ "]"
  | .union as => "Union[" ++ ", ".intercalate (Ann.printList as) ++ "]"
  | .tuple as => "Tuple[" ++ ", ".intercalate (Ann.printList as) ++ "]"
  | .literal vs => "Literal[" ++ ", ".intercalate (vs.map (jsonDumps false)) ++ "]"
def Ann.printList : List Ann → List String
  | [] => []
  | a :: as => a.print :: Ann.printList as
end

theorem Ann.printList_eq (as : List Ann) : Ann.printList as = as.map Ann.print := by
  induction as with
  | nil => rfl
  | cons a as ih => simp [Ann.printList, ih]

mutual
/-- the imports an annotation term needs, in the order the generator collects them
    (`lm` = the module `Literal` comes from) -/
def Ann.needs (lm : String) : Ann → List Imp
  | .int | .float | .bool | .str | .none => []
  | .any => [⟨"typing", some ["Any"]⟩]
  | .cls m n => if m != "builtins" then [⟨m, some [n]⟩] else []
  | .fwd _ => []
  | .list a => a.needs lm ++ [⟨"typing", some ["List"]⟩]
  | .dict a => a.needs lm ++ [⟨"typing", some ["Dict"]⟩]
  | .opt a => a.needs lm ++ [⟨"typing", some ["Optional"]⟩]
  | .union as => Ann.needsList lm as ++ [⟨"typing", some ["Union"]⟩]
  | .tuple as => Ann.needsList lm as ++ [⟨"typing", some ["Tuple"]⟩]
  | .literal _ => [⟨lm, some ["Literal"]⟩]
def Ann.needsList (lm : String) : List Ann → List Imp
  | [] => []
  | a :: as => a.needs lm ++ Ann.needsList lm as
end

mutual
/-- the term contains a `Literal[...]` node -/
def Ann.hasLiteral : Ann → Bool
  | .literal _ => true
  | .list a | .dict a | .opt a => a.hasLiteral
  | .union as | .tuple as => Ann.hasLiteralList as
  | _ => false
def Ann.hasLiteralList : List Ann → Bool
  | [] => false
  | a :: as => a.hasLiteral || Ann.hasLiteralList as
end

/-! ## the typing term an IR type denotes -/

/-- text of a pointer: `'Root.Child'` with path injection, `'Child'` without -/
def ptrRef (e : RefEnv) (i n : String) : String :=
  let path := match e.pathInj.find? (·.1 == i) with
    | some (_, r) => (e.name? r).getD ""
    | none => ""
  ".".intercalate ([path, n].filter (fun s => !s.isEmpty))

mutual
/-- the typing term the IR denotes under the framework's style; `none` where `metadata_to_typing` raises -/
def tyAnn (c : RenderCfg) (e : RefEnv) : Ty → Option Ann
  | .int => some .int | .float => some .float | .bool => some .bool | .str => some .str
  | .null => some .none
  | .unknown => some .any
  | .ser k =>
    if c.useActual then
      match c.serInfo.find? (·.1 == k) with
      | some (_, an, am) => some (.cls am an)
      | none => none
    else some (.cls "json_to_models.dynamic_typing" k)
  | .lit _ vs =>
    if c.useLiterals && decide ((vs.length : Int) < c.maxLiterals) then some (.literal vs) else some .str
  | .list t => (tyAnn c e t).map .list
  | .dict t => (tyAnn c e t).map .dict
  | .opt t => (tyAnn c e t).map .opt
  | .union ts => if ts.isEmpty then none else (tyAnns c e ts).map .union
  | .tuple ts => if ts.isEmpty then none else (tyAnns c e ts).map .tuple
  | .obj _ => none
  | .ptr i => (e.name? i).map (fun n => .fwd (ptrRef e i n))
def tyAnns (c : RenderCfg) (e : RefEnv) : List Ty → Option (List Ann)
  | [] => some []
  | t :: ts =>
    match tyAnn c e t, tyAnns c e ts with
    | some a, some as => some (a :: as)
    | _, _ => none
end

/-! ## `typingCode` prints `tyAnn` and collects `needs` -/

mutual
theorem typingCode_ok (c : RenderCfg) (e : RefEnv) :
    ∀ (t : Ty) (imps : List Imp) (s : String), typingCode c e t = .ok (imps, s) →
      ∃ a, tyAnn c e t = some a ∧ s = a.print ∧ imps = a.needs c.literalModule
  | .int, imps, s, h | .float, imps, s, h | .bool, imps, s, h | .str, imps, s, h
  | .null, imps, s, h | .unknown, imps, s, h => by
    simp [typingCode, pure, Except.pure] at h
    obtain ⟨rfl, rfl⟩ := h
    exact ⟨_, rfl, rfl, rfl⟩
  | .ser k, imps, s, h => by
    simp only [typingCode] at h
    simp only [tyAnn]
    split at h
    · split at h
      · rename_i an am hf
        simp [pure, Except.pure] at h
        obtain ⟨rfl, rfl⟩ := h
        exact ⟨.cls am an, by simp [*], rfl, by simp [Ann.needs]⟩
      · cases h
    · simp [pure, Except.pure] at h
      obtain ⟨rfl, rfl⟩ := h
      exact ⟨.cls "json_to_models.dynamic_typing" k, by simp [*], rfl, by simp [Ann.needs]⟩
  | .lit o vs, imps, s, h => by
    simp only [typingCode] at h
    simp only [tyAnn]
    split at h
    · simp [pure, Except.pure] at h
      obtain ⟨rfl, rfl⟩ := h
      exact ⟨.literal vs, by simp [*], rfl, rfl⟩
    · simp [pure, Except.pure] at h
      obtain ⟨rfl, rfl⟩ := h
      exact ⟨.str, by simp [*], rfl, rfl⟩
  | .list t, imps, s, h => by
    simp only [typingCode, bind, Except.bind] at h
    split at h
    · cases h
    · rename_i r hr
      obtain ⟨i, s'⟩ := r
      obtain ⟨a, ha, rfl, rfl⟩ := typingCode_ok c e t i s' hr
      simp [pure, Except.pure] at h
      obtain ⟨rfl, rfl⟩ := h
      exact ⟨.list a, by simp [tyAnn, ha], rfl, rfl⟩
  | .dict t, imps, s, h => by
    simp only [typingCode, bind, Except.bind] at h
    split at h
    · cases h
    · rename_i r hr
      obtain ⟨i, s'⟩ := r
      obtain ⟨a, ha, rfl, rfl⟩ := typingCode_ok c e t i s' hr
      simp [pure, Except.pure] at h
      obtain ⟨rfl, rfl⟩ := h
      exact ⟨.dict a, by simp [tyAnn, ha], rfl, rfl⟩
  | .opt t, imps, s, h => by
    simp only [typingCode, bind, Except.bind] at h
    split at h
    · cases h
    · rename_i r hr
      obtain ⟨i, s'⟩ := r
      obtain ⟨a, ha, rfl, rfl⟩ := typingCode_ok c e t i s' hr
      simp [pure, Except.pure] at h
      obtain ⟨rfl, rfl⟩ := h
      exact ⟨.opt a, by simp [tyAnn, ha], rfl, rfl⟩
  | .union ts, imps, s, h => by
    simp only [typingCode, bind, Except.bind] at h
    split at h
    · cases h
    · rename_i r hr
      obtain ⟨i, ss⟩ := r
      obtain ⟨as, has, rfl, rfl⟩ := typingCodes_ok c e ts i ss hr
      split at h
      · cases h
      · rename_i hne
        simp [pure, Except.pure] at h
        obtain ⟨rfl, rfl⟩ := h
        exact ⟨.union as, by simp [tyAnn, has, hne], rfl, rfl⟩
  | .tuple ts, imps, s, h => by
    simp only [typingCode, bind, Except.bind] at h
    split at h
    · cases h
    · rename_i r hr
      obtain ⟨i, ss⟩ := r
      obtain ⟨as, has, rfl, rfl⟩ := typingCodes_ok c e ts i ss hr
      split at h
      · cases h
      · rename_i hne
        simp [pure, Except.pure] at h
        obtain ⟨rfl, rfl⟩ := h
        exact ⟨.tuple as, by simp [tyAnn, has, hne], rfl, rfl⟩
  | .obj fs, imps, s, h => by simp [typingCode] at h
  | .ptr i, imps, s, h => by
    simp only [typingCode] at h
    split at h
    · cases h
    · rename_i n hn
      simp [pure, Except.pure] at h
      obtain ⟨rfl, rfl⟩ := h
      exact ⟨.fwd (ptrRef e i n), by simp [tyAnn, hn], rfl, rfl⟩
theorem typingCodes_ok (c : RenderCfg) (e : RefEnv) :
    ∀ (ts : List Ty) (imps : List Imp) (ss : List String), typingCodes c e ts = .ok (imps, ss) →
      ∃ as, tyAnns c e ts = some as ∧ ss = Ann.printList as ∧ imps = Ann.needsList c.literalModule as
  | [], imps, ss, h => by
    simp [typingCodes, pure, Except.pure] at h
    obtain ⟨rfl, rfl⟩ := h
    exact ⟨[], rfl, rfl, rfl⟩
  | t :: ts, imps, ss, h => by
    simp only [typingCodes, bind, Except.bind] at h
    split at h
    · cases h
    · rename_i r hr
      obtain ⟨i, s⟩ := r
      obtain ⟨a, ha, rfl, rfl⟩ := typingCode_ok c e t i s hr
      split at h
      · cases h
      · rename_i r2 hr2
        obtain ⟨is, ss'⟩ := r2
        obtain ⟨as, has, rfl, rfl⟩ := typingCodes_ok c e ts is ss' hr2
        simp [pure, Except.pure] at h
        obtain ⟨rfl, rfl⟩ := h
        exact ⟨a :: as, by simp [tyAnns, ha, has], rfl, rfl⟩
end

/-! ## converse: wherever the denotation exists, `typingCode` succeeds with its print -/

mutual
theorem typingCode_complete (c : RenderCfg) (e : RefEnv) :
    ∀ (t : Ty) (a : Ann), tyAnn c e t = some a →
      typingCode c e t = .ok (a.needs c.literalModule, a.print)
  | .int, a, h | .float, a, h | .bool, a, h | .str, a, h | .null, a, h | .unknown, a, h => by
    simp [tyAnn] at h; subst h; rfl
  | .ser k, a, h => by
    simp only [tyAnn] at h
    simp only [typingCode]
    split at h
    · split at h
      · rename_i an am hf
        cases h
        simp [*, pure, Except.pure, Ann.needs, Ann.print]
      · cases h
    · cases h
      simp [*, pure, Except.pure, Ann.needs, Ann.print]
  | .lit o vs, a, h => by
    simp only [tyAnn] at h
    simp only [typingCode]
    split at h <;> cases h <;> simp [*, pure, Except.pure, Ann.needs, Ann.print]
  | .list t, a, h => by
    simp only [tyAnn, Option.map_eq_some_iff] at h
    obtain ⟨a', ha', rfl⟩ := h
    simp [typingCode, typingCode_complete c e t a' ha', bind, Except.bind, pure, Except.pure, Ann.needs, Ann.print]
  | .dict t, a, h => by
    simp only [tyAnn, Option.map_eq_some_iff] at h
    obtain ⟨a', ha', rfl⟩ := h
    simp [typingCode, typingCode_complete c e t a' ha', bind, Except.bind, pure, Except.pure, Ann.needs, Ann.print]
  | .opt t, a, h => by
    simp only [tyAnn, Option.map_eq_some_iff] at h
    obtain ⟨a', ha', rfl⟩ := h
    simp [typingCode, typingCode_complete c e t a' ha', bind, Except.bind, pure, Except.pure, Ann.needs, Ann.print]
  | .union ts, a, h => by
    simp only [tyAnn] at h
    split at h
    · cases h
    · rename_i hne
      simp only [Option.map_eq_some_iff] at h
      obtain ⟨as, has, rfl⟩ := h
      simp [typingCode, typingCodes_complete c e ts as has, bind, Except.bind, pure, Except.pure, Ann.needs,
        Ann.print, hne]
  | .tuple ts, a, h => by
    simp only [tyAnn] at h
    split at h
    · cases h
    · rename_i hne
      simp only [Option.map_eq_some_iff] at h
      obtain ⟨as, has, rfl⟩ := h
      simp [typingCode, typingCodes_complete c e ts as has, bind, Except.bind, pure, Except.pure, Ann.needs,
        Ann.print, hne]
  | .obj fs, a, h => by simp [tyAnn] at h
  | .ptr i, a, h => by
    simp only [tyAnn, Option.map_eq_some_iff] at h
    obtain ⟨n, hn, rfl⟩ := h
    simp only [typingCode, hn]
    rfl
theorem typingCodes_complete (c : RenderCfg) (e : RefEnv) :
    ∀ (ts : List Ty) (as : List Ann), tyAnns c e ts = some as →
      typingCodes c e ts = .ok (Ann.needsList c.literalModule as, Ann.printList as)
  | [], as, h => by simp [tyAnns] at h; subst h; rfl
  | t :: ts, as, h => by
    simp only [tyAnns] at h
    split at h
    · rename_i a as' ha has
      cases h
      simp [typingCodes, typingCode_complete c e t a ha, typingCodes_complete c e ts as' has, bind, Except.bind,
        pure, Except.pure, Ann.needsList, Ann.printList]
    · cases h
end

/-- `metadata_to_typing` raises exactly where there is no denotation -/
theorem typingCode_error_iff (c : RenderCfg) (e : RefEnv) (t : Ty) :
    (∃ err, typingCode c e t = .error err) ↔ tyAnn c e t = none := by
  constructor
  · rintro ⟨err, h⟩
    cases ha : tyAnn c e t with
    | none => rfl
    | some a => rw [typingCode_complete c e t a ha] at h; cases h
  · intro h
    cases hc : typingCode c e t with
    | error err => exact ⟨err, rfl⟩
    | ok r =>
      obtain ⟨a, ha, _⟩ := typingCode_ok c e t r.1 r.2 hc
      rw [h] at ha; cases ha

/-! ## where `Literal[...]` nodes come from -/

/-- the rule of `StringLiteral.to_typing_code` -/
def litShown (c : RenderCfg) (vs : List String) : Bool :=
  c.useLiterals && decide ((vs.length : Int) < c.maxLiterals)

mutual
/-- the IR type has a literal member that the style shows as `Literal[...]` -/
def litPos (c : RenderCfg) : Ty → Bool
  | .lit _ vs => litShown c vs
  | .list t | .dict t | .opt t => litPos c t
  | .union ts | .tuple ts => litPosList c ts
  | _ => false
def litPosList (c : RenderCfg) : List Ty → Bool
  | [] => false
  | t :: ts => litPos c t || litPosList c ts
end

mutual
theorem hasLiteral_eq (c : RenderCfg) (e : RefEnv) :
    ∀ (t : Ty) (a : Ann), tyAnn c e t = some a → a.hasLiteral = litPos c t
  | .int, a, h | .float, a, h | .bool, a, h | .str, a, h | .null, a, h | .unknown, a, h => by
    simp [tyAnn] at h; subst h; rfl
  | .ser k, a, h => by
    simp only [tyAnn] at h
    split at h
    · split at h <;> cases h; rfl
    · cases h; rfl
  | .lit o vs, a, h => by
    simp only [tyAnn] at h
    split at h <;> cases h <;> simp_all [Ann.hasLiteral, litPos, litShown]
  | .list t, a, h => by
    simp only [tyAnn, Option.map_eq_some_iff] at h
    obtain ⟨a', ha', rfl⟩ := h
    simpa [Ann.hasLiteral, litPos] using hasLiteral_eq c e t a' ha'
  | .dict t, a, h => by
    simp only [tyAnn, Option.map_eq_some_iff] at h
    obtain ⟨a', ha', rfl⟩ := h
    simpa [Ann.hasLiteral, litPos] using hasLiteral_eq c e t a' ha'
  | .opt t, a, h => by
    simp only [tyAnn, Option.map_eq_some_iff] at h
    obtain ⟨a', ha', rfl⟩ := h
    simpa [Ann.hasLiteral, litPos] using hasLiteral_eq c e t a' ha'
  | .union ts, a, h => by
    simp only [tyAnn] at h
    split at h
    · cases h
    · simp only [Option.map_eq_some_iff] at h
      obtain ⟨as, has, rfl⟩ := h
      simpa [Ann.hasLiteral, litPos] using hasLiteralList_eq c e ts as has
  | .tuple ts, a, h => by
    simp only [tyAnn] at h
    split at h
    · cases h
    · simp only [Option.map_eq_some_iff] at h
      obtain ⟨as, has, rfl⟩ := h
      simpa [Ann.hasLiteral, litPos] using hasLiteralList_eq c e ts as has
  | .obj fs, a, h => by simp [tyAnn] at h
  | .ptr i, a, h => by
    simp only [tyAnn, Option.map_eq_some_iff] at h
    obtain ⟨n, _, rfl⟩ := h
    rfl
theorem hasLiteralList_eq (c : RenderCfg) (e : RefEnv) :
    ∀ (ts : List Ty) (as : List Ann), tyAnns c e ts = some as → Ann.hasLiteralList as = litPosList c ts
  | [], as, h => by simp [tyAnns] at h; subst h; rfl
  | t :: ts, as, h => by
    simp only [tyAnns] at h
    split at h
    · rename_i a as' ha has
      cases h
      simp [Ann.hasLiteralList, litPosList, hasLiteral_eq c e t a ha, hasLiteralList_eq c e ts as' has]
    · cases h
end

/-- the style never shows a literal: attrs (`use_literals = False`) or a non-positive `max_literals` -/
def NoLit (c : RenderCfg) : Prop := c.useLiterals = false ∨ c.maxLiterals ≤ 0

theorem litShown_false {c : RenderCfg} (h : NoLit c) (vs : List String) : litShown c vs = false := by
  unfold litShown
  rcases h with h | h
  · simp [h]
  · have : ¬ ((vs.length : Int) < c.maxLiterals) := by omega
    simp [this]

mutual
theorem litPos_false {c : RenderCfg} (h : NoLit c) : ∀ t : Ty, litPos c t = false
  | .lit _ vs => by simp [litPos, litShown_false h]
  | .list t | .dict t | .opt t => by simp [litPos, litPos_false h t]
  | .union ts | .tuple ts => by simp [litPos, litPosList_false h ts]
  | .int | .float | .bool | .str | .null | .unknown | .ser _ | .obj _ | .ptr _ => by simp [litPos]
theorem litPosList_false {c : RenderCfg} (h : NoLit c) : ∀ ts : List Ty, litPosList c ts = false
  | [] => rfl
  | t :: ts => by simp [litPosList, litPos_false h t, litPosList_false h ts]
end

theorem noLit_of_attrs {c : RenderCfg} (h : c.fw = .attrs) : NoLit c := by
  left; simp [RenderCfg.useLiterals, h]; decide

/-! ## field lines -/

/-- `meta.type` of an `Optional`, the type itself otherwise -/
def optInner : Ty → Ty
  | .opt x => x
  | x => x

/-- which default a field gets -/
inductive DefaultKind where
  | none | emptyList | emptyDict
  deriving Repr, DecidableEq

/-- a default exactly for optional fields; the empty-container factories exactly for list / dict inner types -/
def defaultKind (optional : Bool) (t : Ty) : Option DefaultKind :=
  if optional then
    some (if (optInner t).isList then .emptyList else if (optInner t).isDict then .emptyDict else .none)
  else Option.none

/-- the keyword arguments naming the original key, where the framework writes one (attrs/dataclasses `meta`) -/
def metaKw (c : RenderCfg) (o : RenderOracles) (key name : String) : List (String × String) :=
  if c.withMeta && key != name then
    [("metadata", "{" ++ pyRepr o.isPrintable c.metadataFieldName ++ ": " ++ pyRepr o.isPrintable key ++ "}")]
  else []

/-! ### pydantic / sqlmodel -/

def pydDefaultText : DefaultKind → String
  | .none => "None" | .emptyList => "[]" | .emptyDict => "{}"

def pydAliasKw (key name : String) : List (String × String) :=
  if key != name then [("alias", jsonDumps false key)] else []

def sqlPkKw (c : RenderCfg) (name : String) (t : Ty) : List (String × String) :=
  if c.fw == .sqlmodel && (name == "id" || name == "pk") && t.isInt then [("primary_key", "True")] else []

/-- right-hand side of a pydantic/sqlmodel field -/
def pydBody (d : Option String) (kw : List (String × String)) : String :=
  if kw.isEmpty then (match d with | some d => " = " ++ d | Option.none => "")
  else " = Field(" ++ d.getD "..." ++ ", " ++ renderKwargs kw ++ ")"

/-- the pydantic/sqlmodel branch of `fieldLine`, with the two `Except` steps resolved -/
theorem fieldLine_pyd_raw {c : RenderCfg} {o : RenderOracles} {e : RefEnv} {key : String} {t : Ty} {optional : Bool}
    {imps : List Imp} {typing name : String}
    (hfw : c.fw = .pydantic ∨ c.fw = .sqlmodel)
    (hty : typingCode c e t = .ok (imps, typing)) (hn : convertFieldName c o key = .ok name) :
    fieldLine c o e key t optional =
      (let inner := optInner t
       let line := name ++ ": " ++ typing
       let default : Option String :=
         if optional then some (if inner.isList then "[]" else if inner.isDict then "{}" else "None") else Option.none
       let kw := (if key != name then [("alias", jsonDumps false key)] else []) ++
         (if c.fw == .sqlmodel && (name == "id" || name == "pk") && t.isInt then [("primary_key", "True")] else [])
       if !kw.isEmpty then
         .ok (imps, line ++ " = Field(" ++ default.getD "..." ++ ", " ++ renderKwargs kw ++ ")")
       else match default with
         | some d => .ok (imps, line ++ " = " ++ d)
         | Option.none => .ok (imps, line)) := by
  rcases hfw with hfw | hfw
  · simp only [fieldLine, hty, hn, bind, Except.bind, hfw]; rfl
  · simp only [fieldLine, hty, hn, bind, Except.bind, hfw]; rfl

theorem pydDefault_eq (optional : Bool) (t : Ty) :
    (if optional then some (if (optInner t).isList then "[]" else if (optInner t).isDict then "{}" else "None")
      else Option.none) = (defaultKind optional t).map pydDefaultText := by
  unfold defaultKind
  cases optional
  · rfl
  · by_cases h1 : (optInner t).isList = true
    · simp [h1, pydDefaultText]
    · by_cases h2 : (optInner t).isDict = true <;> simp [h1, h2, pydDefaultText]

theorem fieldLine_pyd {c : RenderCfg} {o : RenderOracles} {e : RefEnv} {key : String} {t : Ty} {optional : Bool}
    {imps : List Imp} {typing name : String}
    (hfw : c.fw = .pydantic ∨ c.fw = .sqlmodel)
    (hty : typingCode c e t = .ok (imps, typing)) (hn : convertFieldName c o key = .ok name) :
    fieldLine c o e key t optional =
      .ok (imps, name ++ ": " ++ typing ++
        pydBody ((defaultKind optional t).map pydDefaultText) (pydAliasKw key name ++ sqlPkKw c name t)) := by
  rw [fieldLine_pyd_raw hfw hty hn]
  simp only [pydDefault_eq]
  rw [show ((if (key != name) = true then [("alias", jsonDumps false key)] else []) ++
        (if (c.fw == Framework.sqlmodel && (name == "id" || name == "pk") && t.isInt) = true
          then [("primary_key", "True")] else [])) = pydAliasKw key name ++ sqlPkKw c name t from rfl]
  unfold pydBody
  cases hk : (pydAliasKw key name ++ sqlPkKw c name t).isEmpty
  · simp [String.append_assoc]
  · cases (defaultKind optional t).map pydDefaultText <;> simp [String.append_assoc]


/-! ### attrs -/

def attrsDefaultKw : Option DefaultKind → List (String × String)
  | Option.none => []
  | some .none => [("default", "None")]
  | some .emptyList => [("factory", "list")]
  | some .emptyDict => [("factory", "dict")]

/-- the per-field converter of attrs classes generated without post-init converters -/
def attrsConvKw (c : RenderCfg) (optional : Bool) (t : Ty) : List (String × String) :=
  if c.postInitEff then [] else
    if optional then (match optInner t with | .ser k => [("converter", "optional(" ++ k ++ ")")] | _ => [])
    else (match t with | .ser k => [("converter", k)] | _ => [])

def attrsConvImps (c : RenderCfg) (optional : Bool) (t : Ty) : List Imp :=
  if c.postInitEff then [] else
    if optional then (match optInner t with | .ser _ => [⟨"attr.converters", some ["optional"]⟩] | _ => [])
    else []

/-- the keyword/import computation of the attrs `field_data`, verbatim -/
def attrsKwRaw (c : RenderCfg) (imps : List Imp) (optional : Bool) (t : Ty) : List (String × String) × List Imp :=
  let inner := optInner t
  if optional then
    if inner.isList then ([("factory", "list")], imps)
    else if inner.isDict then ([("factory", "dict")], imps)
    else match inner with
      | .ser k => if !c.postInitEff then
          ([("default", "None"), ("converter", "optional(" ++ k ++ ")")], imps ++ [⟨"attr.converters", some ["optional"]⟩])
        else ([("default", "None")], imps)
      | _ => ([("default", "None")], imps)
  else match t with
    | .ser k => if !c.postInitEff then ([("converter", k)], imps) else ([], imps)
    | _ => ([], imps)

theorem fieldLine_attrs_raw {c : RenderCfg} {o : RenderOracles} {e : RefEnv} {key : String} {t : Ty} {optional : Bool}
    {imps : List Imp} {typing name : String}
    (hfw : c.fw = .attrs)
    (hty : typingCode c e t = .ok (imps, typing)) (hn : convertFieldName c o key = .ok name) :
    fieldLine c o e key t optional =
      .ok ((attrsKwRaw c imps optional t).2, name ++ ": " ++ typing ++ " = attr.ib(" ++
        renderKwargs (sortKwargs ((attrsKwRaw c imps optional t).1 ++ metaKw c o key name)
          ["default", "converter", "factory"] ["metadata"]) ++ ")") := by
  simp only [fieldLine, hty, hn, bind, Except.bind, hfw]; rfl

theorem attrsKwRaw_eq (c : RenderCfg) (imps : List Imp) (optional : Bool) (t : Ty) :
    attrsKwRaw c imps optional t =
      (attrsDefaultKw (defaultKind optional t) ++ attrsConvKw c optional t, imps ++ attrsConvImps c optional t) := by
  unfold attrsKwRaw defaultKind attrsConvKw attrsConvImps
  cases optional
  · cases hp : c.postInitEff <;> cases t <;> simp [attrsDefaultKw]
  · generalize optInner t = inner
    cases hp : c.postInitEff <;> cases inner <;> simp [attrsDefaultKw, Ty.isList, Ty.isDict]

theorem sortKwargs_attrs (c : RenderCfg) (o : RenderOracles) (key name : String) (optional : Bool) (t : Ty) :
    sortKwargs (attrsDefaultKw (defaultKind optional t) ++ attrsConvKw c optional t ++ metaKw c o key name)
        ["default", "converter", "factory"] ["metadata"]
      = attrsDefaultKw (defaultKind optional t) ++ attrsConvKw c optional t ++ metaKw c o key name := by
  unfold defaultKind attrsConvKw metaKw
  cases optional
  · cases hp : c.postInitEff <;> cases hm : (c.withMeta && key != name) <;> cases t <;>
      simp [attrsDefaultKw, sortKwargs]
  · generalize optInner t = inner
    cases hp : c.postInitEff <;> cases hm : (c.withMeta && key != name) <;> cases inner <;>
      simp [attrsDefaultKw, sortKwargs, Ty.isList, Ty.isDict]

theorem fieldLine_attrs {c : RenderCfg} {o : RenderOracles} {e : RefEnv} {key : String} {t : Ty} {optional : Bool}
    {imps : List Imp} {typing name : String}
    (hfw : c.fw = .attrs)
    (hty : typingCode c e t = .ok (imps, typing)) (hn : convertFieldName c o key = .ok name) :
    fieldLine c o e key t optional =
      .ok (imps ++ attrsConvImps c optional t, name ++ ": " ++ typing ++ " = attr.ib(" ++
        renderKwargs (attrsDefaultKw (defaultKind optional t) ++ attrsConvKw c optional t ++ metaKw c o key name)
          ++ ")") := by
  rw [fieldLine_attrs_raw hfw hty hn, attrsKwRaw_eq, sortKwargs_attrs]

/-! ### dataclasses -/

def dcDefaultKw : Option DefaultKind → List (String × String)
  | Option.none => []
  | some .none => [("default", "None")]
  | some .emptyList => [("default_factory", "list")]
  | some .emptyDict => [("default_factory", "dict")]

/-- right-hand side of a dataclass field -/
def dcBody (kw : List (String × String)) : String :=
  match kw with
  | [] => ""
  | [("default", d)] => " = " ++ d
  | kw => " = field(" ++ renderKwargs kw ++ ")"

/-- the keyword computation of the dataclasses `field_data`, verbatim -/
def dcKwRaw (optional : Bool) (t : Ty) : List (String × String) :=
  let inner := optInner t
  if optional then
    if inner.isList then [("default_factory", "list")]
    else if inner.isDict then [("default_factory", "dict")]
    else [("default", "None")]
  else []

def dcLineRaw (imps : List Imp) (line : String) (kw : List (String × String)) : Except PyErr (List Imp × String) :=
  match kw with
  | [] => pure (imps, line)
  | [("default", d)] => pure (imps, line ++ " = " ++ d)
  | kw => pure (imps, line ++ " = field(" ++ renderKwargs (sortKwargs kw ["default", "default_factory"] ["metadata"]) ++ ")")

theorem fieldLine_dc_raw {c : RenderCfg} {o : RenderOracles} {e : RefEnv} {key : String} {t : Ty} {optional : Bool}
    {imps : List Imp} {typing name : String}
    (hfw : c.fw = .dataclasses)
    (hty : typingCode c e t = .ok (imps, typing)) (hn : convertFieldName c o key = .ok name) :
    fieldLine c o e key t optional =
      dcLineRaw imps (name ++ ": " ++ typing) (dcKwRaw optional t ++ metaKw c o key name) := by
  simp only [fieldLine, hty, hn, bind, Except.bind, hfw]; rfl

theorem dcKwRaw_eq (optional : Bool) (t : Ty) : dcKwRaw optional t = dcDefaultKw (defaultKind optional t) := by
  unfold dcKwRaw defaultKind
  cases optional
  · rfl
  · by_cases h1 : (optInner t).isList = true
    · simp [h1, dcDefaultKw]
    · by_cases h2 : (optInner t).isDict = true <;> simp [h1, h2, dcDefaultKw]

theorem dcLineRaw_eq (c : RenderCfg) (o : RenderOracles) (key name : String) (imps : List Imp) (line : String)
    (d : Option DefaultKind) :
    dcLineRaw imps line (dcDefaultKw d ++ metaKw c o key name)
      = .ok (imps, line ++ dcBody (dcDefaultKw d ++ metaKw c o key name)) := by
  unfold metaKw
  cases hm : (c.withMeta && key != name) <;> rcases d with _ | _ | _ | _ <;>
    simp [dcDefaultKw, dcLineRaw, dcBody, sortKwargs, pure, Except.pure, String.append_assoc]

theorem fieldLine_dc {c : RenderCfg} {o : RenderOracles} {e : RefEnv} {key : String} {t : Ty} {optional : Bool}
    {imps : List Imp} {typing name : String}
    (hfw : c.fw = .dataclasses)
    (hty : typingCode c e t = .ok (imps, typing)) (hn : convertFieldName c o key = .ok name) :
    fieldLine c o e key t optional =
      .ok (imps, name ++ ": " ++ typing ++ dcBody (dcDefaultKw (defaultKind optional t) ++ metaKw c o key name)) := by
  rw [fieldLine_dc_raw hfw hty hn, dcKwRaw_eq, dcLineRaw_eq]

theorem fieldLine_base {c : RenderCfg} {o : RenderOracles} {e : RefEnv} {key : String} {t : Ty} {optional : Bool}
    {imps : List Imp} {typing name : String}
    (hfw : c.fw = .base)
    (hty : typingCode c e t = .ok (imps, typing)) (hn : convertFieldName c o key = .ok name) :
    fieldLine c o e key t optional = .ok (imps, name ++ ": " ++ typing) := by
  simp only [fieldLine, hty, hn, bind, Except.bind, hfw]; rfl

/-- `fieldLine` fails exactly when the annotation or the field name does -/
theorem fieldLine_error {c : RenderCfg} {o : RenderOracles} {e : RefEnv} {key : String} {t : Ty} {optional : Bool}
    {err : PyErr} (h : fieldLine c o e key t optional = .error err) :
    typingCode c e t = .error err ∨ convertFieldName c o key = .error err := by
  cases hty : typingCode c e t with
  | error e1 => simp [fieldLine, hty, bind, Except.bind] at h; exact .inl (by rw [h])
  | ok r =>
    obtain ⟨imps, typing⟩ := r
    cases hn : convertFieldName c o key with
    | error e2 => simp [fieldLine, hty, hn, bind, Except.bind] at h; exact .inr (by rw [h])
    | ok name =>
      exfalso
      cases hfw : c.fw
      · rw [fieldLine_base hfw hty hn] at h; cases h
      · rw [fieldLine_pyd (.inl hfw) hty hn] at h; cases h
      · rw [fieldLine_pyd (.inr hfw) hty hn] at h; cases h
      · rw [fieldLine_attrs hfw hty hn] at h; cases h
      · rw [fieldLine_dc hfw hty hn] at h; cases h

section Repr
open J2M.Strings

/-! ## `repr(str)` read back by the Python string-literal reader -/

theorem char_toNat_le (c : Char) : c.toNat ≤ 0x10FFFF := by
  have := c.valid
  unfold UInt32.isValidChar Nat.isValidChar at this
  show c.val.toNat ≤ _
  omega

theorem lexGoQ_esc_x2 (q : Char) (hq : q ≠ '\\') {n : Nat} (h : n < 256) (rest : List Char) :
    lexGoQ q .normal ('\\' :: 'x' :: hexPad 2 n ++ rest) = lexCons n (lexGoQ q .normal rest) := by
  have e : n / 16 % 16 * 16 + n % 16 = n := by omega
  have h1 : n / 16 % 16 < 16 := Nat.mod_lt _ (by decide)
  have h2 : n % 16 < 16 := Nat.mod_lt _ (by decide)
  have hle : n ≤ 1114111 := by omega
  have hb : ¬ ('\\' = q) := fun e => hq e.symm
  simp only [hexPad_two, List.cons_append, List.nil_append, lexGoQ, hexVal_hexDigit h1, hexVal_hexDigit h2, hb]
  simp only [Nat.zero_mul, Nat.zero_add, e]
  simp [hle]

theorem lexGoQ_esc_u4 (q : Char) (hq : q ≠ '\\') {n : Nat} (h : n < 65536) (rest : List Char) :
    lexGoQ q .normal ('\\' :: 'u' :: hexPad 4 n ++ rest) = lexCons n (lexGoQ q .normal rest) := by
  have e : (((n / 16 / 16 / 16 % 16 * 16 + n / 16 / 16 % 16) * 16 + n / 16 % 16) * 16 + n % 16) = n := by
    omega
  have hd : ∀ m : Nat, m % 16 < 16 := fun m => Nat.mod_lt _ (by decide)
  have hle : n ≤ 1114111 := by omega
  have hb : ¬ ('\\' = q) := fun e => hq e.symm
  simp only [hexPad_four, List.cons_append, List.nil_append, lexGoQ, hexVal_hexDigit (hd _), hb]
  simp only [Nat.zero_mul, Nat.zero_add, e]
  simp [hle]

theorem lexGoQ_esc_U8 (q : Char) (hq : q ≠ '\\') {n : Nat} (h : n ≤ 0x10FFFF) (rest : List Char) :
    lexGoQ q .normal ('\\' :: 'U' :: hexPad 8 n ++ rest) = lexCons n (lexGoQ q .normal rest) := by
  have e : (((((((n / 16 / 16 / 16 / 16 / 16 / 16 / 16 % 16) * 16 + n / 16 / 16 / 16 / 16 / 16 / 16 % 16) * 16 +
      n / 16 / 16 / 16 / 16 / 16 % 16) * 16 + n / 16 / 16 / 16 / 16 % 16) * 16 + n / 16 / 16 / 16 % 16) * 16 +
      n / 16 / 16 % 16) * 16 + n / 16 % 16) * 16 + n % 16 = n := by omega
  have hd : ∀ m : Nat, m % 16 < 16 := fun m => Nat.mod_lt _ (by decide)
  have hle : n ≤ 1114111 := h
  have hb : ¬ ('\\' = q) := fun e => hq e.symm
  simp only [hexPad_eight, List.cons_append, List.nil_append, lexGoQ, hexVal_hexDigit (hd _), hb]
  simp only [Nat.zero_mul, Nat.zero_add, e]
  simp [hle]

/-- a character `repr` leaves as it is reads back as itself -/
theorem lexGoQ_plain (q : Char) {c : Char} (h1 : c ≠ q) (h2 : c ≠ '\\') (h3 : ¬ c.toNat < 32) (rest : List Char) :
    lexGoQ q .normal (c :: rest) = lexCons c.toNat (lexGoQ q .normal rest) := by
  have hn : c ≠ '\n' := by intro h; subst h; exact h3 (by decide)
  have hr : c ≠ '\r' := by intro h; subst h; exact h3 (by decide)
  have h0 : c.toNat ≠ 0 := by omega
  simp [lexGoQ, h1, h2, hn, hr, h0]

/-- the escapes `repr` writes are read back with the same meaning -/
theorem lexGoQ_reprEscChar (ip : Char → Bool) (q : Char) (hq : q = '\'' ∨ q = '"') (c : Char) (rest : List Char) :
    lexGoQ q .normal (reprEscChar ip q c ++ rest) = lexCons c.toNat (lexGoQ q .normal rest) := by
  have hqb : q ≠ '\\' := by rcases hq with rfl | rfl <;> decide
  by_cases q1 : c = q
  · subst q1
    rcases hq with rfl | rfl <;> simp [reprEscChar, lexGoQ] <;> rfl
  by_cases q2 : c = '\\'
  · subst q2
    have : ¬ ('\\' = q) := fun e => hqb e.symm
    simp [reprEscChar, lexGoQ, this]
  by_cases q3 : c = '\t'
  · subst q3
    have : ¬ ('\\' = q) := fun e => hqb e.symm
    simp [reprEscChar, lexGoQ, q1, this]
  by_cases q4 : c = '\n'
  · subst q4
    have : ¬ ('\\' = q) := fun e => hqb e.symm
    simp [reprEscChar, lexGoQ, q1, this]
  by_cases q5 : c = '\r'
  · subst q5
    have : ¬ ('\\' = q) := fun e => hqb e.symm
    simp [reprEscChar, lexGoQ, q1, this]
  by_cases q6 : c.toNat < 32 ∨ c.toNat = 127
  · have : reprEscChar ip q c = '\\' :: 'x' :: hexPad 2 c.toNat := by
      simp only [reprEscChar, q1, q2, q3, q4, q5, q6, false_or, if_false, if_true]
    rw [this]; exact lexGoQ_esc_x2 q hqb (by omega) rest
  have q6a : ¬ c.toNat < 32 := fun h => q6 (.inl h)
  by_cases q7 : c.toNat < 127
  · have : reprEscChar ip q c = [c] := by
      simp only [reprEscChar, q1, q2, q3, q4, q5, q6, q7, false_or, if_false, if_true]
    rw [this]; exact lexGoQ_plain q q1 q2 q6a rest
  by_cases q8 : ip c = true
  · have : reprEscChar ip q c = [c] := by
      simp only [reprEscChar, q1, q2, q3, q4, q5, q6, q7, q8, false_or, if_false, if_true]
    rw [this]; exact lexGoQ_plain q q1 q2 q6a rest
  by_cases q9 : c.toNat < 256
  · have : reprEscChar ip q c = '\\' :: 'x' :: hexPad 2 c.toNat := by
      simp only [reprEscChar, q1, q2, q3, q4, q5, q6, q7, q8, q9, false_or, if_false, if_true]
      simp
    rw [this]; exact lexGoQ_esc_x2 q hqb q9 rest
  by_cases q10 : c.toNat < 0x10000
  · have : reprEscChar ip q c = '\\' :: 'u' :: hexPad 4 c.toNat := by
      simp only [reprEscChar, q1, q2, q3, q4, q5, q6, q7, q8, q9, q10, false_or, if_false, if_true]
      simp
    rw [this]; exact lexGoQ_esc_u4 q hqb q10 rest
  · have : reprEscChar ip q c = '\\' :: 'U' :: hexPad 8 c.toNat := by
      simp only [reprEscChar, q1, q2, q3, q4, q5, q6, q7, q8, q9, q10, false_or, if_false]
      simp
    rw [this]; exact lexGoQ_esc_U8 q hqb (char_toNat_le c) rest

theorem lexGoQ_body (ip : Char → Bool) (q : Char) (hq : q = '\'' ∨ q = '"') (s : List Char) (rest : List Char) :
    lexGoQ q .normal (s.flatMap (reprEscChar ip q) ++ q :: rest) = some (s.map Char.toNat, rest) := by
  induction s with
  | nil => simp [lexGoQ]
  | cons c cs ih =>
    rw [List.flatMap_cons, List.append_assoc, lexGoQ_reprEscChar ip q hq, ih]
    simp [lexCons]

theorem reprQuote_cases (s : List Char) : reprQuote s = '\'' ∨ reprQuote s = '"' := by
  unfold reprQuote; split <;> simp

/-- a `repr` token followed by anything: the reader returns the string and that rest -/
theorem lexReprTok_pyRepr (ip : Char → Bool) (s : List Char) (rest : List Char) :
    lexReprTok (pyReprChars ip s ++ rest) = some (s.map Char.toNat, rest) := by
  have hq := reprQuote_cases s
  simp only [pyReprChars, List.cons_append, List.append_assoc, List.nil_append, lexReprTok]
  rw [if_pos hq]
  exact lexGoQ_body ip _ hq s rest

theorem pyLexSingleOrDouble_pyRepr (ip : Char → Bool) (s : List Char) :
    pyLexSingleOrDouble (pyReprChars ip s) = some (s.map Char.toNat) := by
  have := lexReprTok_pyRepr ip s []
  rw [List.append_nil] at this
  simp [pyLexSingleOrDouble, this]

end Repr

end J2M.Rend
