/-
  C07 (generator level), part 12: the mutual congruence statements for `optimize` / `optimizeUnion`
  (`Cong`), by induction on the total fuel.
-/
import J2M.Proofs.PermOpt
namespace J2M.Perm
open J2M

/-- the three congruence statements, for total fuel at most `n` -/
structure Cong (cfg : GenCfg) (e : EqEnv) (n : Nat) : Prop where
  oc : ∀ f₁ f₂ t₁ t₂ u₁ u₂, f₁ + f₂ ≤ n → GPair cfg.lit t₁ t₂ → NSim t₁ t₂ →
    optimize cfg e f₁ t₁ = .ok u₁ → optimize cfg e f₂ t₂ = .ok u₂ → NSim u₁ u₂
  uc : ∀ f₁ f₂ ms₁ ms₂ u₁ u₂, f₁ + f₂ ≤ n → RawN cfg.lit (.union ms₁) → RawN cfg.lit (.union ms₂) →
    SetA ms₁ ms₂ → optimizeUnion cfg e f₁ ms₁ = .ok u₁ → optimizeUnion cfg e f₂ ms₂ = .ok u₂ → NSim u₁ u₂
  tc : ∀ f₁ f₂ x ms u₁ u₂, f₁ + f₂ ≤ n → RawN cfg.lit x → x.isUnion = false → RawN cfg.lit (.union ms) →
    SetA [x] ms → optimize cfg e f₁ x = .ok u₁ → optimizeUnion cfg e f₂ ms = .ok u₂ → NSim u₁ u₂

variable {cfg : GenCfg} {e : EqEnv}

theorem forall₂_length {α β} {R : α → β → Prop} {l₁ : List α} {l₂ : List β} (h : List.Forall₂ R l₁ l₂) :
    l₁.length = l₂.length := by
  induction h with
  | nil => rfl
  | cons _ _ ih => simp [ih]

/-! ## unions -/

/-- the optimised member lists of two corresponding `other` lists -/
theorem types_rel {n g₁ g₂ : Nat} (ih : Cong cfg e n) (hg : g₁ + g₂ ≤ n) {o₁ o₂ T₁ T₂ : List Ty}
    (hrel : OtherRel cfg.lit o₁ o₂) (h₁ : o₁.mapM (optimize cfg e g₁) = .ok T₁)
    (h₂ : o₂.mapM (optimize cfg e g₂) = .ok T₂) :
    FlatWF T₁ ∧ FlatWF T₂ ∧ SetA T₁ T₂ ∧ T₁.length = T₂.length ∧
    T₁.countP Ty.isUnknown ≤ 1 ∧ T₂.countP Ty.isUnknown ≤ 1 := by
  have F₁ := mapM_forall₂ h₁
  have F₂ := mapM_forall₂ h₂
  have p₁ : ∀ y ∈ T₁, y.WFHash ∧ y.isUnion = false := by
    intro y hy
    obtain ⟨x, hx, hxy⟩ := forall₂_mem_right F₁ hy
    obtain ⟨_, _, r⟩ := hrel.rel.fwd x hx
    exact ⟨(optimize_out g₁ x y r.pair.left hxy).1, (optimize_shape r.ux r.ox hxy).1⟩
  have p₂ : ∀ y ∈ T₂, y.WFHash ∧ y.isUnion = false := by
    intro y hy
    obtain ⟨x, hx, hxy⟩ := forall₂_mem_right F₂ hy
    obtain ⟨_, _, r⟩ := hrel.rel.bwd x hx
    exact ⟨(optimize_out g₂ x y r.pair.right hxy).1, (optimize_shape r.uy r.oy hxy).1⟩
  refine ⟨⟨fun t ht => (p₁ t ht).2, fun t ht => (p₁ t ht).1⟩, ⟨fun t ht => (p₂ t ht).2, fun t ht => (p₂ t ht).1⟩,
    ⟨?_, ?_⟩, ?_, ?_, ?_⟩
  · intro y₁ hy₁
    obtain ⟨x₁, hx₁, e₁⟩ := forall₂_mem_right F₁ hy₁
    obtain ⟨x₂, hx₂, r⟩ := hrel.rel.fwd x₁ hx₁
    obtain ⟨y₂, hy₂, e₂⟩ := forall₂_mem_left F₂ hx₂
    exact ⟨y₂, hy₂, asim_of_nsim (p₁ y₁ hy₁).2 (p₂ y₂ hy₂).2 (ih.oc g₁ g₂ x₁ x₂ y₁ y₂ hg r.pair r.sim e₁ e₂)⟩
  · intro y₂ hy₂
    obtain ⟨x₂, hx₂, e₂⟩ := forall₂_mem_right F₂ hy₂
    obtain ⟨x₁, hx₁, r⟩ := hrel.rel.bwd x₂ hx₂
    obtain ⟨y₁, hy₁, e₁⟩ := forall₂_mem_left F₁ hx₁
    exact ⟨y₁, hy₁, asim_of_nsim (p₁ y₁ hy₁).2 (p₂ y₂ hy₂).2 (ih.oc g₁ g₂ x₁ x₂ y₁ y₂ hg r.pair r.sim e₁ e₂)⟩
  · rw [← forall₂_length F₁, ← forall₂_length F₂]; exact hrel.rel.len
  · refine Nat.le_trans (forall₂_countP_le (p := Ty.isUnknown) F₁ ?_) hrel.unk₁
    intro a ha b hab hb
    obtain ⟨_, _, r⟩ := hrel.rel.fwd a ha
    exact (optimize_shape r.ux r.ox hab).2.2 hb
  · refine Nat.le_trans (forall₂_countP_le (p := Ty.isUnknown) F₂ ?_) hrel.unk₂
    intro a ha b hab hb
    obtain ⟨_, _, r⟩ := hrel.rel.bwd a ha
    exact (optimize_shape r.uy r.oy hab).2.2 hb

theorem uc_step {n : Nat} (ih : Cong cfg e n) :
    ∀ f₁ f₂ ms₁ ms₂ u₁ u₂, f₁ + f₂ ≤ n + 1 → RawN cfg.lit (.union ms₁) → RawN cfg.lit (.union ms₂) →
    SetA ms₁ ms₂ → optimizeUnion cfg e f₁ ms₁ = .ok u₁ → optimizeUnion cfg e f₂ ms₂ = .ok u₂ → NSim u₁ u₂ := by
  intro f₁ f₂ ms₁ ms₂ u₁ u₂ hf r₁ r₂ hs h₁ h₂
  cases f₁ with
  | zero => exact absurd h₁ (fun h => optimizeUnion_zero h)
  | succ g₁ =>
  cases f₂ with
  | zero => exact absurd h₂ (fun h => optimizeUnion_zero h)
  | succ g₂ =>
    rw [optimizeUnion_eq, Except.bind_ok_iff] at h₁ h₂
    obtain ⟨o₁, ho₁, h₁⟩ := h₁
    obtain ⟨o₂, ho₂, h₂⟩ := h₂
    rw [Except.bind_ok_iff] at h₁ h₂
    obtain ⟨T₁, ht₁, h₁⟩ := h₁
    obtain ⟨T₂, ht₂, h₂⟩ := h₂
    obtain ⟨w₁, w₂, hS, hl, k₁, k₂⟩ := types_rel ih (by omega) (other_rel r₁ r₂ hs ho₁ ho₂) ht₁ ht₂
    exact unionFinish_congr w₁ w₂ hS hl k₁ k₂ h₁ h₂

/-! ## objects -/

theorem gpair_ft {c : LitCfg} {t u : Ty} (ht : FT c t) (hu : FT c u) (h : NSim t u) : GPair c t u := by
  rcases ht with ht | ⟨a, rfl, ha⟩ <;> rcases hu with hu | ⟨b, rfl, hb⟩
  · exact .inl ⟨ht, hu⟩
  · exfalso
    obtain ⟨x, hx, hxy⟩ := (nsim_iff.1 h).2 (.opt b) (by simp [Ty.unionMembers])
    have := asim_isOpt hxy
    rw [(ht.members x hx).1.not_opt] at this
    simp [Ty.isOpt] at this
  · exfalso
    obtain ⟨y, hy, hxy⟩ := (nsim_iff.1 h).1 (.opt a) (by simp [Ty.unionMembers])
    have := asim_isOpt hxy
    rw [(hu.members y hy).1.not_opt] at this
    simp [Ty.isOpt] at this
  · exact .inr (.inl ⟨a, b, rfl, rfl, ha, hb⟩)

theorem obj_step {n g₁ g₂ : Nat} (ih : Cong cfg e n) (hg : g₁ + g₂ ≤ n) {fs gs : Fields} {u₁ u₂ : Ty}
    (mf : MObj cfg.lit fs) (mg : MObj cfg.lit gs) (hN : FieldsN fs gs)
    (h₁ : optimize cfg e (g₁ + 1) (.obj fs) = .ok u₁) (h₂ : optimize cfg e (g₂ + 1) (.obj gs) = .ok u₂) :
    NSim u₁ u₂ := by
  obtain ⟨m₁, fs', e₁, rfl, _, F₁⟩ := optimize_obj h₁
  obtain ⟨m₂, gs', e₂, rfl, _, F₂⟩ := optimize_obj h₂
  cases e₁; cases e₂
  apply nsim_of_asim'
  apply asim_obj_obj.2
  constructor
  · intro kv' hkv'
    obtain ⟨kv, hkv, ek, eo⟩ := forall₂_mem_right F₁ hkv'
    obtain ⟨u, hu, hs⟩ := hN.1 kv hkv
    obtain ⟨b', hb', ek', eo'⟩ := forall₂_mem_left F₂ hu
    refine ⟨b'.2, ?_, ih.oc g₁ g₂ kv.2 u kv'.2 b'.2 hg (gpair_ft (mf.2 kv hkv) (mg.2 _ hu) hs) hs eo eo'⟩
    rw [ek, ← ek']; exact hb'
  · intro kv' hkv'
    obtain ⟨kv, hkv, ek, eo⟩ := forall₂_mem_right F₂ hkv'
    obtain ⟨t, ht, hs⟩ := hN.2 kv hkv
    obtain ⟨a', ha', ek', eo'⟩ := forall₂_mem_left F₁ ht
    refine ⟨a'.2, ?_, ih.oc g₁ g₂ t kv.2 a'.2 kv'.2 hg (gpair_ft (mf.2 _ ht) (mg.2 kv hkv) hs) hs eo' eo⟩
    rw [ek, ← ek']; exact ha'

theorem mobj_of_raw {c : LitCfg} {fs : Fields} (h : RawN c (.obj fs)) : MObj c fs :=
  ⟨(rawN_obj.1 h).1, fun kv hkv => .inl ((rawN_obj.1 h).2 kv hkv).1⟩

/-! ## `Optional` -/

theorem strip_congr {y₁ y₂ : Ty} (o₁ : OutOK y₁) (o₂ : OutOK y₂) (h : NSim y₁ y₂) :
    NSim (.opt (stripOpt y₁)) (.opt (stripOpt y₂)) := by
  have key : ∀ {a z : Ty}, OutOK z → NSim (.opt a) z → ∃ b, z = .opt b := by
    intro a z oz hz
    obtain ⟨m, hm, ham⟩ := (nsim_iff.1 hz).1 (.opt a) (by simp [Ty.unionMembers])
    obtain ⟨b, rfl, _⟩ := asim_opt.1 ham
    by_cases hu : z.isUnion = true
    · cases z <;> simp [Ty.isUnion] at hu
      have := oz.2 _ rfl _ hm
      simp [Ty.isOpt] at this
    · rw [unionMembers_of_nonunion (by simpa using hu)] at hm
      simp at hm
      exact ⟨b, hm.symm⟩
  by_cases h1 : y₁.isOpt = true
  · cases y₁ <;> simp [Ty.isOpt] at h1
    obtain ⟨b, rfl⟩ := key o₂ h
    exact h
  · by_cases h2 : y₂.isOpt = true
    · cases y₂ <;> simp [Ty.isOpt] at h2
      obtain ⟨b, rfl⟩ := key o₁ h.symm
      simp [Ty.isOpt] at h1
    · have e₁ : stripOpt y₁ = y₁ := by cases y₁ <;> first | rfl | simp [Ty.isOpt] at h1
      have e₂ : stripOpt y₂ = y₂ := by cases y₂ <;> first | rfl | simp [Ty.isOpt] at h2
      rw [e₁, e₂]
      exact nsim_of_asim' (asim_opt_opt.2 h)

/-! ## the general case -/

theorem oc_step {n : Nat} (ih : Cong cfg e n) :
    ∀ f₁ f₂ t₁ t₂ u₁ u₂, f₁ + f₂ ≤ n + 1 → GPair cfg.lit t₁ t₂ → NSim t₁ t₂ →
    optimize cfg e f₁ t₁ = .ok u₁ → optimize cfg e f₂ t₂ = .ok u₂ → NSim u₁ u₂ := by
  intro f₁ f₂ t₁ t₂ u₁ u₂ hf hp hs h₁ h₂
  cases f₁ with
  | zero => exact absurd h₁ (fun h => optimize_zero h)
  | succ g₁ =>
  cases f₂ with
  | zero => exact absurd h₂ (fun h => optimize_zero h)
  | succ g₂ =>
  have hg : g₁ + g₂ ≤ n := by omega
  rcases hp with ⟨r₁, r₂⟩ | ⟨a, b, rfl, rfl, ra, rb⟩ | ⟨fs, gs, rfl, rfl, mf, mg⟩
  · by_cases hu₁ : t₁.isUnion = true
    · cases t₁ <;> simp [Ty.isUnion] at hu₁
      rename_i ms₁
      rw [optimize_union] at h₁
      by_cases hu₂ : t₂.isUnion = true
      · cases t₂ <;> simp [Ty.isUnion] at hu₂
        rename_i ms₂
        rw [optimize_union] at h₂
        exact ih.uc g₁ g₂ ms₁ ms₂ u₁ u₂ hg r₁ r₂ (nsim_union_union.1 hs) h₁ h₂
      · have hu₂' : t₂.isUnion = false := by simpa using hu₂
        have hS : SetA [t₂] ms₁ := by
          have := nsim_iff.1 hs.symm
          rwa [unionMembers_of_nonunion hu₂'] at this
        exact (ih.tc (g₂ + 1) g₁ t₂ ms₁ u₂ u₁ (by omega) r₂ hu₂' r₁ hS h₂ h₁).symm
    · have hu₁' : t₁.isUnion = false := by simpa using hu₁
      by_cases hu₂ : t₂.isUnion = true
      · cases t₂ <;> simp [Ty.isUnion] at hu₂
        rename_i ms₂
        rw [optimize_union] at h₂
        have hS : SetA [t₁] ms₂ := by
          have := nsim_iff.1 hs
          rwa [unionMembers_of_nonunion hu₁'] at this
        exact ih.tc (g₁ + 1) g₂ t₁ ms₂ u₁ u₂ (by omega) r₁ hu₁' r₂ hS h₁ h₂
      · have hu₂' : t₂.isUnion = false := by simpa using hu₂
        have hA : ASim t₁ t₂ := asim_of_nsim hu₁' hu₂' hs
        cases t₁
        case list a =>
          obtain ⟨b, rfl, hab⟩ := asim_list.1 hA
          obtain ⟨y₁, e₁, rfl⟩ := optimize_list.1 h₁
          obtain ⟨y₂, e₂, rfl⟩ := optimize_list.1 h₂
          exact nsim_of_asim' (asim_list_list.2
            (ih.oc g₁ g₂ a b y₁ y₂ hg (.inl ⟨by simpa using r₁, by simpa using r₂⟩) hab e₁ e₂))
        case dict a =>
          obtain ⟨b, rfl, hab⟩ := asim_dict.1 hA
          obtain ⟨y₁, e₁, rfl⟩ := optimize_dict.1 h₁
          obtain ⟨y₂, e₂, rfl⟩ := optimize_dict.1 h₂
          exact nsim_of_asim' (asim_dict_dict.2
            (ih.oc g₁ g₂ a b y₁ y₂ hg (.inl ⟨by simpa using r₁, by simpa using r₂⟩) hab e₁ e₂))
        case obj fs =>
          obtain ⟨gs, rfl, hN⟩ := asim_obj.1 hA
          exact obj_step ih hg (mobj_of_raw r₁) (mobj_of_raw r₂) hN h₁ h₂
        case opt a => simp at r₁
        case tuple ts => simp at r₁
        case ptr i => simp at r₁
        case union ms => simp [Ty.isUnion] at hu₁'
        case lit o vs =>
          have := (asim_leaf (by rfl)).1 hA
          subst this
          rw [optimize_lit] at h₁ h₂
          cases h₁; cases h₂; exact NSim.refl _
        all_goals
          have := (asim_leaf (by rfl)).1 hA
          subst this
          rw [optimize_leaf rfl rfl (fun _ hh => by cases hh)] at h₁ h₂
          cases h₁; cases h₂; exact NSim.refl _
  · obtain ⟨y₁, e₁, rfl⟩ := optimize_opt.1 h₁
    obtain ⟨y₂, e₂, rfl⟩ := optimize_opt.1 h₂
    have hab : NSim a b := by
      have := asim_of_nsim (a := .opt a) (b := .opt b) rfl rfl hs
      simpa using this
    exact strip_congr (optimize_out g₁ a y₁ (.of_raw ra) e₁) (optimize_out g₂ b y₂ (.of_raw rb) e₂)
      (ih.oc g₁ g₂ a b y₁ y₂ hg (.inl ⟨ra, rb⟩) hab e₁ e₂)
  · have hN : FieldsN fs gs := asim_obj_obj.1 (asim_of_nsim (a := .obj fs) (b := .obj gs) rfl rfl hs)
    exact obj_step ih hg mf mg hN h₁ h₂

end J2M.Perm
