/-
  C07 (generator level), part 7: everything `detect` returns on well-formed JSON is a raw field type
  (`RawF`: `RawN` and not a union), provided the registered kind names are well-formed.
-/
import J2M.Proofs.PermMerge
import J2M.Proofs.MergeRaw
import J2M.Proofs.InhDetect
namespace J2M.Perm
open J2M

theorem rawF_mkLit (c : LitCfg) (s : String) : RawF c (mkLit c [s]) := by
  rcases Strings.mkLit_cases' c [s] with ⟨_, h⟩ | ⟨hno, h⟩
  · rw [h]; exact ⟨by simp only [rawN_lit]; exact .inl ⟨rfl, rfl⟩, rfl⟩
  · rw [h]
    exact ⟨by simp only [rawN_lit]; exact .inr ⟨rfl, by simp, by simp, hno⟩, rfl⟩

theorem wrapElems_rawN {c : LitCfg} {wrap : Ty → Ty} {ts : List Ty} (h : ∀ t ∈ ts, RawF c t) :
    ts = [] ∨ ∃ T, wrapElems c wrap ts = wrap T ∧ RawN c T := by
  unfold wrapElems
  split
  · rename_i t; exact .inr ⟨t, rfl, (h t (List.mem_cons_self ..)).1⟩
  · have hm := rawN_mkUM (c := c) (L := ts) h
    split
    · rename_i u he; exact .inr ⟨u, rfl, (hm u (by rw [he]; exact List.mem_cons_self ..)).1⟩
    · exact .inr ⟨_, rfl, rawN_union.2 ⟨hm, nodup_mkUM _ _,
        mstable_mkUM ⟨fun t ht => (h t ht).2, fun t ht => (h t ht).1.wf⟩⟩⟩

/-- **everything `detect` returns on well-formed JSON is a raw field type** -/
theorem detect_rawF (cfg : GenCfg) (o : GenOracles) (hnames : ∀ k ∈ cfg.reg.types, wfSerName k = true) :
    ∀ (cd : Bool) (v : Json) (t : Ty), Json.WF v → detect cfg o cd v = .ok t → RawF cfg.lit t := by
  intro cd v
  induction cd, v using detect.induct cfg
    (motive_2 := fun kvs => ∀ ts, Json.WFKvs kvs → detectVals cfg o kvs = .ok ts → ∀ t ∈ ts, RawF cfg.lit t)
    (motive_3 := fun kvs => ∀ fs, Json.WFKvs kvs → convertFields cfg o kvs = .ok fs →
      ∀ kv ∈ fs, RawF cfg.lit kv.2)
    (motive_4 := fun xs => ∀ ts, Json.WFList xs → detectList cfg o xs = .ok ts → ∀ t ∈ ts, RawF cfg.lit t) with
  | case1 cd b => intro t _ h; simp [detect, pure, Except.pure] at h; subst h; exact ⟨by simp, rfl⟩
  | case2 cd i => intro t _ h; simp [detect, pure, Except.pure] at h; subst h; exact ⟨by simp, rfl⟩
  | case3 cd x => intro t _ h; simp [detect, pure, Except.pure] at h; subst h; exact ⟨by simp, rfl⟩
  | case4 cd => intro t _ h; simp [detect, pure, Except.pure] at h; subst h; exact ⟨by simp, rfl⟩
  | case5 cd => intro t _ h; simp [detect, pure, Except.pure] at h; subst h; exact ⟨by simp, rfl⟩
  | case6 cd x xs ih =>
    intro t wf h
    obtain ⟨ts, h1, h2⟩ := detect_arr_cons h
    rcases wrapElems_rawN (c := cfg.lit) (wrap := .list) (ih ts (by simpa [Json.WF] using wf) h1) with e | ⟨T, hw, hT⟩
    · exact absurd e (forall₂_ne_nil (detectList_ok h1))
    · rw [h2, hw]; exact ⟨by simpa using hT, rfl⟩
  | case7 cd => intro t _ h; simp [detect, pure, Except.pure] at h; subst h; exact ⟨by simp, rfl⟩
  | case8 cd kv kvs ih3 ih2 =>
    intro t wf h
    have wf' : ((kv :: kvs).map (·.1)).Nodup ∧ Json.WFKvs (kv :: kvs) := by simpa [Json.WF] using wf
    obtain ⟨rx, _, hcase⟩ := detect_obj_cons h
    rcases hcase with ⟨_, _, fs, hfs, ht⟩ | ⟨_, ts, hts, ht⟩
    · subst ht
      refine ⟨rawN_obj.2 ⟨?_, fun kv' hkv' => ih3 fs wf'.2 hfs kv' hkv'⟩, rfl⟩
      have := convertFields_keys hfs
      unfold Fields.keys at this
      rw [this]; exact wf'.1
    · rcases wrapElems_rawN (c := cfg.lit) (wrap := .dict) (ih2 ts wf'.2 hts) with e | ⟨T, hw, hT⟩
      · exact absurd e (forall₂_ne_nil (detectVals_ok hts))
      · rw [ht, hw]; exact ⟨by simpa using hT, rfl⟩
  | case9 cd s =>
    intro t _ h
    rw [detect, Except.bind_ok_iff] at h
    obtain ⟨r, hr, h⟩ := h
    cases r with
    | none => rw [Except.pure_ok_iff] at h; subst h; exact rawF_mkLit ..
    | some k =>
      rw [Except.pure_ok_iff] at h; subst h
      obtain ⟨hk, _⟩ := detectStr_go_some (by simpa [detectStr] using hr)
      exact ⟨by simpa using hnames k hk, rfl⟩
  | case10 => rename_i ts _ h t ht; simp [detectList, pure, Except.pure] at h; subst h; simp at ht
  | case11 x xs ih1 ih4 =>
    rename_i ts wf h t ht
    obtain ⟨t0, ts0, h1, h2, rfl⟩ := detectList_cons_ok h
    simp only [Json.WFList] at wf
    rcases List.mem_cons.1 ht with h3 | h3
    · subst h3; exact ih1 _ wf.1 h1
    · exact ih4 ts0 wf.2 h2 t h3
  | case12 => rename_i ts _ h t ht; simp [detectVals, pure, Except.pure] at h; subst h; simp at ht
  | case13 k x xs ih1 ih2 =>
    rename_i ts wf h t ht
    obtain ⟨t0, ts0, h1, h2, rfl⟩ := detectVals_cons_ok h
    simp only [Json.WFKvs] at wf
    rcases List.mem_cons.1 ht with h3 | h3
    · subst h3; exact ih1 _ wf.1 h1
    · exact ih2 ts0 wf.2 h2 t h3
  | case14 => rename_i fs _ h kv hkv; simp [convertFields, pure, Except.pure] at h; subst h; simp at hkv
  | case15 k x xs ih1 ih3 =>
    rename_i fs wf h kv hkv
    obtain ⟨t0, fs0, h1, h2, rfl⟩ := convertFields_cons_ok h
    simp only [Json.WFKvs] at wf
    rcases List.mem_cons.1 hkv with h3 | h3
    · subst h3; exact ih1 _ wf.1 h1
    · exact ih3 fs0 wf.2 h2 kv h3

/-- the field sets `generate` merges are raw -/
theorem convert_rawSets {cfg : GenCfg} {o : GenOracles} (hnames : ∀ k ∈ cfg.reg.types, wfSerName k = true)
    {samples : List Json} {sets : List Fields} (wf : ∀ s ∈ samples, Json.WF s)
    (h : samples.mapM (convert cfg o) = .ok sets) : RawSets cfg.lit sets := by
  intro fs hfs kv hkv
  obtain ⟨v, hv, hc⟩ := mapM_ok_mem h hfs
  obtain ⟨kvs, rfl, hc'⟩ := convert_ok hc
  have wfv : Json.WFKvs kvs := by have := wf _ hv; simp only [Json.WF] at this; exact this.2
  obtain ⟨a, ha, _, hd⟩ := forall₂_mem_right (convertFields_ok hc') hkv
  exact detect_rawF cfg o hnames _ _ _ (Json.wfKvs_iff.1 wfv a ha) hd

/-- every field set of a sample is a dict with distinct keys -/
theorem convert_keys_nodup {cfg : GenCfg} {o : GenOracles}
    {samples : List Json} {sets : List Fields} (wf : ∀ s ∈ samples, Json.WF s)
    (h : samples.mapM (convert cfg o) = .ok sets) : ∀ fs ∈ sets, fs.keys.Nodup := by
  intro fs hfs
  obtain ⟨v, hv, hc⟩ := mapM_ok_mem h hfs
  obtain ⟨kvs, rfl, hc'⟩ := convert_ok hc
  rw [convertFields_keys hc']
  have := wf _ hv; simp only [Json.WF] at this; exact this.1

end J2M.Perm
