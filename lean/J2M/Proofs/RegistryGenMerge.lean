/-
  `merge_field_sets` on registry-stage field dicts (`GoodPF K I`: model pointers, no inline dicts), compared with
  `==` through the registry lookup: the copy of the `Ty.Good`-specific part of Proofs/InhMerge.lean for a class
  `P` on which hash strings and `==` are sound, instantiated with `P := GoodP K I`.
-/
import J2M.Proofs.RegistryDefs
import J2M.Proofs.RegistryGenHash
import J2M.Proofs.RegistryGenEq
import J2M.Proofs.InhMerge
namespace J2M.Reg
open J2M

/-- a class of types closed under what `merge_field_sets` builds (`MergeClosed` without the link to `Ty.Good`) -/
structure MergeClosedP (P : Ty → Prop) : Prop where
  str : P .str
  lit : ∀ vs, vs ≠ [] → P (.lit false vs)
  unionMem : ∀ us, P (.union us) → ∀ u ∈ us, P u
  union : ∀ us, (∀ u ∈ us, P u) → P (.union us)
  opt : ∀ t, P t ↔ P (.opt t)

theorem mergeClosedP_goodP {K I : String → Prop} : MergeClosedP (GoodP K I) :=
  ⟨by simp, by simp, fun _ h => goodP_union.1 h, fun _ h => goodP_union.2 h, by simp⟩

theorem closed_unionMembersP {P} (cl : MergeClosedP P) {t : Ty} (h : P t) : ∀ m ∈ t.unionMembers, P m := by
  cases t with
  | union ts => exact cl.unionMem _ h
  | _ => simpa [Ty.unionMembers] using h

theorem closed_flattenP {P} (cl : MergeClosedP P) {ts : List Ty} (h : ∀ t ∈ ts, P t) :
    ∀ t ∈ flattenUnion ts, P t :=
  flattenUnion_forall (P := P) cl.unionMem h

theorem closed_collapseP {P} (cl : MergeClosedP P) {us : List Ty} (h : ∀ u ∈ us, P u) : P (collapseU us) := by
  unfold collapseU
  split
  · exact h _ (by simp)
  · exact cl.union _ h


section
variable {ov : Bool} {acc : Accepts} {g : ModelLookup} {P : Ty → Prop}

theorem closed_mergeNewP (cl : MergeClosedP P) {c : LitCfg} {a b : Ty} (ha : P a) (hb : P b) :
    P (mergeNew c a b) := by
  apply closed_collapseP cl
  apply mkUnionMembers_forall _ cl.str cl.lit
  apply closed_flattenP cl
  intro t ht
  rcases List.mem_append.1 ht with ht | ht
  · exact closed_unionMembersP cl ha t ht
  · exact closed_unionMembersP cl hb t ht

theorem covers_mergeNewP (cl : MergeClosedP P) (hs : HashSoundOn ov acc g P) {c : LitCfg} {a b : Ty}
    (ha : P a) (hb : P b) : Covers ov acc g a (mergeNew c a b) ∧ Covers ov acc g b (mergeNew c a b) := by
  have hall : ∀ t ∈ a.unionMembers ++ b.unionMembers, P t := by
    intro t ht
    rcases List.mem_append.1 ht with ht | ht
    · exact closed_unionMembersP cl ha t ht
    · exact closed_unionMembersP cl hb t ht
  have hsnd : HashSoundX ov acc g (a.unionMembers ++ b.unionMembers) :=
    HashSoundX.of_on hs cl.str (closed_flattenP cl hall)
  constructor
  · intro v hv
    obtain ⟨m, hm, hi⟩ := inh_unionMembers hv
    exact inh_collapse (mkUnion_sound' hsnd (List.mem_append_left _ hm) hi)
  · intro v hv
    obtain ⟨m, hm, hi⟩ := inh_unionMembers hv
    exact inh_collapse (mkUnion_sound' hsnd (List.mem_append_right _ hm) hi)

/-- one incoming `(name, field)` -/
theorem mergeOne_specP (cl : MergeClosedP P) (hs : HashSoundOn ov acc g P)
    {e : EqEnv} (he : EqSoundOn ov acc g e P) {c : LitCfg} {first : Bool}
    {F F' : Fields} {name : String} {field : Ty}
    (inv : FInv P F) (hf : P field) (h : mergeOne c e first F name field = .ok F') :
    FInv P F' ∧
    (∀ k, k ≠ name → Fields.get? F' k = Fields.get? F k) ∧
    ∃ t', Fields.get? F' name = some t' ∧
      (∀ orig, Fields.get? F name = some orig →
        Covers ov acc g orig t' ∧ (orig.isOpt = true → t'.isOpt = true) ∧
        (orig.optLike = true → t'.optLike = true)) ∧
      (Fields.get? F name = none → first = false → t'.isOpt = true) ∧
      Covers ov acc g field t' ∧ (field.optLike = true → t'.optLike = true) := by
  cases hg : Fields.get? F name with
  | none =>
    rw [mergeOne_none hg, Except.pure_eq_ok] at h
    subst h
    have hP : P (if first || field.isOpt then field else .opt field) := by
      split
      · exact hf
      · exact (cl.opt _).1 hf
    refine ⟨inv.set hP, ?_, (if first || field.isOpt then field else .opt field),
      by simp [Fields.get?_set], ?_, ?_, ?_, ?_⟩
    · intro k hk
      have : ¬ name = k := fun e => hk e.symm
      simp [Fields.get?_set, this]
    · intro orig ho; simp at ho
    · intro _ hfirst
      subst hfirst
      cases hfo : field.isOpt <;> simp [Ty.isOpt]
      exact hfo
    · split
      · exact Covers.refl
      · exact Covers.toOpt
    · intro hol
      split
      · exact hol
      · exact Ty.optLike_opt
  | some orig =>
    have hPo : P orig := inv.2 _ _ hg
    cases hio : orig.isOpt with
    | true =>
      obtain ⟨oi, rfl⟩ : ∃ oi, orig = .opt oi := by
        cases orig <;> simp [Ty.isOpt] at hio; exact ⟨_, rfl⟩
      have hPoi : P oi := (cl.opt _).2 hPo
      rw [mergeOne_some_opt hg, Except.bind_eq_ok] at h
      obtain ⟨b1, hb1, h⟩ := h
      have keep : F' = F → FInv P F' ∧
          (∀ k, k ≠ name → Fields.get? F' k = Fields.get? F k) ∧
          ∃ t', Fields.get? F' name = some t' ∧
            (∀ orig, some (Ty.opt oi) = some orig →
              Covers ov acc g orig t' ∧ (orig.isOpt = true → t'.isOpt = true) ∧
              (orig.optLike = true → t'.optLike = true)) ∧
            (some (Ty.opt oi) = none → first = false → t'.isOpt = true) ∧
            (Covers ov acc g field (.opt oi) → Covers ov acc g field t') ∧
            (field.optLike = true → t'.optLike = true) := by
        intro e; subst e
        refine ⟨inv, fun _ _ => rfl, _, hg, ?_, by simp, fun h => h, fun _ => Ty.optLike_opt⟩
        intro orig' ho; cases ho; exact ⟨Covers.refl, fun _ => rfl, fun _ => Ty.optLike_opt⟩
      split at h
      · rename_i hb
        rw [Except.pure_eq_ok] at h
        obtain ⟨i1, i2, t', i3, i4, i5, i6, i7⟩ := keep h.symm
        refine ⟨i1, i2, t', i3, i4, i5, i6 ?_, i7⟩
        intro v hv
        subst hb
        exact (he _ _ hPo hf hb1 v).2 hv
      · rw [Except.bind_eq_ok] at h
        obtain ⟨b2, hb2, h⟩ := h
        split at h
        · rename_i hb
          rw [Except.pure_eq_ok] at h
          obtain ⟨i1, i2, t', i3, i4, i5, i6, i7⟩ := keep h.symm
          refine ⟨i1, i2, t', i3, i4, i5, i6 ?_, i7⟩
          intro v hv
          subst hb
          exact InhX.optSome ((he _ _ hPoi hf hb2 v).2 hv)
        · rw [Except.pure_eq_ok] at h; subst h
          have hPn : P (mergeNew c field oi) := closed_mergeNewP cl hf hPoi
          obtain ⟨cv1, cv2⟩ := covers_mergeNewP (c := c) cl hs hf hPoi
          refine ⟨inv.set ((cl.opt _).1 hPn), ?_, .opt (mergeNew c field oi), by simp [Fields.get?_set], ?_,
            by simp, ?_, fun _ => Ty.optLike_opt⟩
          · intro k hk
            have : ¬ name = k := fun e => hk e.symm
            simp [Fields.get?_set, this]
          · intro orig' ho; cases ho
            refine ⟨?_, fun _ => rfl, fun _ => Ty.optLike_opt⟩
            intro v hv
            rcases inh_opt_iff.1 hv with rfl | hv
            · exact InhX.optNull
            · exact InhX.optSome (cv2 v hv)
          · intro v hv; exact InhX.optSome (cv1 v hv)
    | false =>
      rw [mergeOne_some_other hg hio, Except.bind_eq_ok] at h
      obtain ⟨b1, hb1, h⟩ := h
      split at h
      · rename_i hb
        rw [Except.pure_eq_ok] at h; subst h
        subst hb
        obtain ⟨_, hol⟩ := EqEnv.eq_optLike hb1
        refine ⟨inv, fun _ _ => rfl, _, hg, ?_, by simp, ?_, fun h => by rw [hol]; exact h⟩
        · intro orig' ho; cases ho; exact ⟨Covers.refl, fun h => h, fun h => h⟩
        · intro v hv
          exact (he _ _ hPo hf hb1 v).2 hv
      · rw [Except.bind_eq_ok] at h
        obtain ⟨b2, hb2, h⟩ := h
        split at h
        · rename_i hb
          rw [Except.pure_eq_ok] at h; subst h
          subst hb
          -- the incoming field is `Optional[T]` for the existing `T`: it replaces the existing one
          obtain ⟨fi, rfl⟩ : ∃ fi, field = .opt fi := by
            cases field <;> first | exact ⟨_, rfl⟩ | (simp [pure, Except.pure] at hb2)
          have hPfi : P fi := (cl.opt _).2 hf
          refine ⟨inv.set hf, ?_, .opt fi, by simp [Fields.get?_set], ?_, by simp, Covers.refl, fun h => h⟩
          · intro k hk
            have : ¬ name = k := fun e => hk e.symm
            simp [Fields.get?_set, this]
          · intro orig' ho; cases ho
            refine ⟨?_, fun _ => rfl, fun _ => Ty.optLike_opt⟩
            intro v hv
            exact InhX.optSome ((he _ _ hPo hPfi hb2 v).1 hv)
        · rw [Except.pure_eq_ok] at h; subst h
          have hPn : P (mergeNew c field orig) := closed_mergeNewP cl hf hPo
          obtain ⟨cv1, cv2⟩ := covers_mergeNewP (c := c) cl hs hf hPo
          refine ⟨inv.set hPn, ?_, mergeNew c field orig, by simp [Fields.get?_set], ?_, by simp, cv1,
            fun h => optLike_mergeNew (Or.inl h)⟩
          · intro k hk
            have : ¬ name = k := fun e => hk e.symm
            simp [Fields.get?_set, this]
          · intro orig' ho; cases ho
            exact ⟨cv2, fun h => by rw [hio] at h; simp at h, fun h => optLike_mergeNew (Or.inr h)⟩

/-- the inner loop `for name, field in model.items()` -/
theorem mergeFold_specP (cl : MergeClosedP P) (hs : HashSoundOn ov acc g P)
    {e : EqEnv} (he : EqSoundOn ov acc g e P) {c : LitCfg} {first : Bool} :
    ∀ (m : Fields) (F F1 : Fields), FInv P F → (∀ f ∈ m, P f.2) →
      m.foldlM (fun fs (kv : String × Ty) => mergeOne c e first fs kv.1 kv.2) F = .ok F1 →
      FInv P F1 ∧
      (∀ k, k ∈ F1.map (·.1) ↔ k ∈ F.map (·.1) ∨ k ∈ m.map (·.1)) ∧
      (∀ k orig, Fields.get? F k = some orig → ∃ t1, Fields.get? F1 k = some t1 ∧
        Covers ov acc g orig t1 ∧ (orig.isOpt = true → t1.isOpt = true) ∧
        (orig.optLike = true → t1.optLike = true)) ∧
      (first = false → ∀ k, Fields.get? F k = none → ∀ t1, Fields.get? F1 k = some t1 → t1.isOpt = true) ∧
      (∀ k t0, Fields.get? m k = some t0 →
        ∃ t1, Fields.get? F1 k = some t1 ∧ Covers ov acc g t0 t1 ∧ (t0.optLike = true → t1.optLike = true)) := by
  intro m
  induction m with
  | nil =>
    intro F F1 inv _ h
    simp only [List.foldlM_nil, Except.pure_eq_ok] at h
    subst h
    exact ⟨inv, by simp, fun k orig ho => ⟨orig, ho, Covers.refl, fun h => h, fun h => h⟩,
      fun _ k hk t1 ht => by rw [hk] at ht; simp at ht, fun k t0 hk => by simp at hk⟩
  | cons kv m ih =>
    obtain ⟨name, field⟩ := kv
    intro F F1 inv hm h
    rw [List.foldlM_cons, Except.bind_eq_ok] at h
    obtain ⟨F', hF', h⟩ := h
    obtain ⟨inv', hother, t', ht', hc1, hc2, hc3, hc4⟩ :=
      mergeOne_specP cl hs he inv (hm _ List.mem_cons_self) hF'
    obtain ⟨inv1, hkeys, hwid, hnew, hcov⟩ := ih F' F1 inv' (fun f hf => hm f (List.mem_cons_of_mem _ hf)) h
    have hkeys' : ∀ k, k ∈ F'.map (·.1) ↔ k = name ∨ k ∈ F.map (·.1) := by
      intro k
      by_cases hk : k = name
      · subst hk
        simp only [true_or, iff_true]
        rw [← Fields.get?_isSome_iff, ht']; rfl
      · rw [← Fields.get?_isSome_iff, hother k hk, Fields.get?_isSome_iff]; simp [hk]
    refine ⟨inv1, ?_, ?_, ?_, ?_⟩
    · intro k
      rw [hkeys k, hkeys' k]
      simp only [List.map_cons, List.mem_cons]
      constructor
      · rintro ((h | h) | h) <;> simp [h]
      · rintro (h | h | h) <;> simp [h]
    · intro k orig ho
      by_cases hk : k = name
      · subst hk
        obtain ⟨cv, hopt, hol⟩ := hc1 orig ho
        obtain ⟨t1, ht1, cv1, hopt1, hol1⟩ := hwid k t' ht'
        exact ⟨t1, ht1, cv.trans cv1, fun h => hopt1 (hopt h), fun h => hol1 (hol h)⟩
      · exact hwid k orig (by rw [hother k hk]; exact ho)
    · intro hfirst k hk t1 ht1
      by_cases hkn : k = name
      · subst hkn
        obtain ⟨t1', ht1', _, hopt1, _⟩ := hwid k t' ht'
        rw [ht1] at ht1'; cases ht1'
        exact hopt1 (hc2 hk hfirst)
      · exact hnew hfirst k (by rw [hother k hkn]; exact hk) t1 ht1
    · intro k t0 hk
      rw [Fields.get?_consI] at hk
      split at hk
      · rename_i hkn
        subst hkn
        cases hk
        obtain ⟨t1, ht1, cv1, _, hol1⟩ := hwid name t' ht'
        exact ⟨t1, ht1, hc3.trans cv1, fun h => hol1 (hc4 h)⟩
      · exact hcov k t0 hk

/-- one `for model in field_sets` iteration -/
theorem mergeStep_specP (cl : MergeClosedP P) (hs : HashSoundOn ov acc g P)
    {e : EqEnv} (he : EqSoundOn ov acc g e P) {c : LitCfg} {first : Bool}
    {m F F2 : Fields} (inv : FInv P F) (hm : ∀ f ∈ m, P f.2)
    (h : mergeStep c e first F m = .ok F2) :
    FInv P F2 ∧
    (first = false → ∀ kvs, InhF ov acc g F kvs → InhF ov acc g F2 kvs) ∧
    (first = false → ∀ kvs, InhFL ov acc g F kvs → InhFL ov acc g F2 kvs) ∧
    ((∀ f ∈ m, f.2.isOpt = false) → ∀ kvs, InhF ov acc g m kvs → InhF ov acc g F2 kvs) ∧
    (∀ kvs, InhFL ov acc g m kvs → InhFL ov acc g F2 kvs) := by
  unfold mergeStep at h
  simp only at h
  rw [Except.bind_eq_ok] at h
  obtain ⟨F1, hF1, h⟩ := h
  rw [Except.pure_eq_ok] at h
  obtain ⟨inv1, hkeys, hwid, hnew, hcov⟩ := mergeFold_specP cl hs he m F F1 inv hm hF1
  -- the final pass only wraps some types in `DOptional`
  let wrap : String → Ty → Ty := fun k t =>
    if (F.keys.contains k && !m.has k && !t.isOpt) = true then Ty.opt t else t
  have hwrap : ∀ k t, wrap k t = t ∨ wrap k t = .opt t := by
    intro k t; simp only [wrap]; split <;> simp
  have hget : ∀ k, Fields.get? F2 k = (Fields.get? F1 k).map (wrap k) := by
    intro k
    rw [← h, Fields.get?_map (f := fun kv : String × Ty =>
      if (F.keys.contains kv.1 && !m.has kv.1 && !kv.2.isOpt) = true then (kv.1, Ty.opt kv.2) else kv)]
    · cases Fields.get? F1 k with
      | none => rfl
      | some t => simp only [Option.map_some, wrap]; split <;> rfl
    · intro kv; split <;> rfl
  have hget' : ∀ k t2, Fields.get? F2 k = some t2 → ∃ t1, Fields.get? F1 k = some t1 ∧ t2 = wrap k t1 := by
    intro k t2 hk
    rw [hget k] at hk
    cases h1 : Fields.get? F1 k with
    | none => rw [h1] at hk; simp at hk
    | some t1 => rw [h1] at hk; simp only [Option.map_some, Option.some.injEq] at hk; exact ⟨t1, rfl, hk.symm⟩
  have hkeys2 : F2.map (·.1) = F1.map (·.1) := by
    rw [← h]; apply Fields.keys_map; intro kv; split <;> rfl
  have hcovwrap : ∀ k t, Covers ov acc g t (wrap k t) := by
    intro k t
    rcases hwrap k t with e | e <;> rw [e]
    · exact Covers.refl
    · exact Covers.toOpt
  -- a key that is not in this model is optional afterwards
  have hmissing : ∀ k t1, Fields.get? F1 k = some t1 → k ∉ m.map (·.1) → (wrap k t1).isOpt = true := by
    intro k t1 h1 hmk
    have hk1 : k ∈ F1.map (·.1) := by rw [← Fields.get?_isSome_iff, h1]; rfl
    have hbefore : k ∈ F.map (·.1) := by
      rcases (hkeys k).1 hk1 with h | h
      · exact h
      · exact absurd h hmk
    have hc1 : F.keys.contains k = true := by simpa [Fields.keys] using hbefore
    have hc2 : m.has k = false := by
      cases hh : m.has k with
      | false => rfl
      | true => exact absurd (Fields.has_iffI.1 hh) hmk
    cases ho : t1.isOpt with
    | true =>
      have hw : wrap k t1 = t1 := by simp only [wrap, hc1, hc2, ho]; rfl
      rw [hw, ho]
    | false =>
      have hw : wrap k t1 = .opt t1 := by simp only [wrap, hc1, hc2, ho]; rfl
      rw [hw]; rfl
  -- the two inclusions, for any "may be absent" test `ρ` that holds of every `DOptional`
  have coreB : ∀ ρ : Ty → Bool, (∀ t, t.isOpt = true → ρ t = true) →
      (∀ k orig, Fields.get? F k = some orig → ∃ t1, Fields.get? F1 k = some t1 ∧
        Covers ov acc g orig t1 ∧ (ρ orig = true → ρ t1 = true)) →
      first = false → ∀ kvs, InhFG ρ ov acc g F kvs → InhFG ρ ov acc g F2 kvs := by
    intro ρ hρ hw hfirst kvs hin
    refine ⟨?_, ?_⟩
    · intro kv hkv
      obtain ⟨t, ht, hi⟩ := hin.1 kv hkv
      obtain ⟨t1, ht1, cv, _⟩ := hw _ _ ht
      exact ⟨wrap kv.1 t1, by rw [hget, ht1]; rfl, hcovwrap _ _ _ (cv _ hi)⟩
    · intro k t2 hk hno
      obtain ⟨t1, h1, rfl⟩ := hget' k t2 hk
      have ht1 : ρ t1 = false := by
        rcases hwrap k t1 with e | e <;> rw [e] at hno
        · exact hno
        · rw [hρ _ rfl] at hno; cases hno
      cases h0 : Fields.get? F k with
      | none =>
        have := hρ _ (hnew hfirst k h0 t1 h1)
        rw [ht1] at this; cases this
      | some orig =>
        obtain ⟨t1', ht1', _, hopt⟩ := hw k orig h0
        rw [h1] at ht1'; cases ht1'
        have horig : ρ orig = false := by
          cases ho : ρ orig with
          | false => rfl
          | true => have := hopt ho; rw [ht1] at this; cases this
        exact hin.2 k orig h0 horig
  have coreA : ∀ ρ : Ty → Bool, (∀ t, t.isOpt = true → ρ t = true) →
      (∀ k t0, Fields.get? m k = some t0 → ∃ t1, Fields.get? F1 k = some t1 ∧
        Covers ov acc g t0 t1 ∧ (ρ t0 = true → ρ t1 = true)) →
      ∀ kvs, InhFG ρ ov acc g m kvs → InhFG ρ ov acc g F2 kvs := by
    intro ρ hρ hc kvs hin
    refine ⟨?_, ?_⟩
    · intro kv hkv
      obtain ⟨t0, ht0, hi⟩ := hin.1 kv hkv
      obtain ⟨t1, ht1, cv, _⟩ := hc _ _ ht0
      exact ⟨wrap kv.1 t1, by rw [hget, ht1]; rfl, hcovwrap _ _ _ (cv _ hi)⟩
    · intro k t2 hk hno2
      obtain ⟨t1, h1, rfl⟩ := hget' k t2 hk
      have ht1 : ρ t1 = false := by
        rcases hwrap k t1 with e | e <;> rw [e] at hno2
        · exact hno2
        · rw [hρ _ rfl] at hno2; cases hno2
      by_cases hmk : k ∈ m.map (·.1)
      · rw [← Fields.get?_isSome_iff] at hmk
        cases h0 : Fields.get? m k with
        | none => rw [h0] at hmk; simp at hmk
        | some t0 =>
          obtain ⟨t1', ht1', _, hopt⟩ := hc k t0 h0
          rw [h1] at ht1'; cases ht1'
          have h00 : ρ t0 = false := by
            cases ho : ρ t0 with
            | false => rfl
            | true => have := hopt ho; rw [ht1] at this; cases this
          exact hin.2 k t0 h0 h00
      · -- not a key of this model: it was there before, so the final pass made it optional
        have := hρ _ (hmissing k t1 h1 hmk)
        rw [hno2] at this; cases this
  refine ⟨⟨by rw [hkeys2]; exact inv1.1, ?_⟩, ?_, ?_, ?_, ?_⟩
  · intro k t hk
    obtain ⟨t1, h1, rfl⟩ := hget' k t hk
    have := inv1.2 k t1 h1
    rcases hwrap k t1 with e | e <;> rw [e]
    · exact this
    · exact (cl.opt _).1 this
  · exact coreB Ty.isOpt (fun _ h => h) (fun k orig ho => by
      obtain ⟨t1, a, b, c, _⟩ := hwid k orig ho; exact ⟨t1, a, b, c⟩)
  · exact coreB Ty.optLike (fun _ h => Ty.optLike_of_isOpt h) (fun k orig ho => by
      obtain ⟨t1, a, b, _, d⟩ := hwid k orig ho; exact ⟨t1, a, b, d⟩)
  · intro hno
    exact coreA Ty.isOpt (fun _ h => h) (fun k t0 h0 => by
      obtain ⟨t1, a, b, _⟩ := hcov k t0 h0
      refine ⟨t1, a, b, fun h => ?_⟩
      rw [hno _ (Fields.mem_of_get? h0)] at h; cases h)
  · exact coreA Ty.optLike (fun _ h => Ty.optLike_of_isOpt h) hcov

/-- the outer loop -/
theorem mergeGo_specP (cl : MergeClosedP P) (hs : HashSoundOn ov acc g P)
    {e : EqEnv} (he : EqSoundOn ov acc g e P) {c : LitCfg} :
    ∀ (sets : List Fields) (first : Bool) (F F' : Fields), FInv P F →
      (∀ m ∈ sets, ∀ f ∈ m, P f.2) →
      mergeFieldSets.go c e first F sets = .ok F' →
      FInv P F' ∧
      (first = false → ∀ kvs, InhF ov acc g F kvs → InhF ov acc g F' kvs) ∧
      (first = false → ∀ kvs, InhFL ov acc g F kvs → InhFL ov acc g F' kvs) ∧
      ((∀ m ∈ sets, ∀ f ∈ m, f.2.isOpt = false) →
        ∀ m ∈ sets, ∀ kvs, InhF ov acc g m kvs → InhF ov acc g F' kvs) ∧
      (∀ m ∈ sets, ∀ kvs, InhFL ov acc g m kvs → InhFL ov acc g F' kvs) := by
  intro sets
  induction sets with
  | nil =>
    intro first F F' inv _ h
    simp only [mergeFieldSets.go, Except.pure_eq_ok] at h
    subst h
    exact ⟨inv, fun _ _ h => h, fun _ _ h => h, by simp, by simp⟩
  | cons m ms ih =>
    intro first F F' inv hsets h
    rw [mergeFieldSets.go, Except.bind_eq_ok] at h
    obtain ⟨F1, hF1, h⟩ := h
    have hm := hsets m List.mem_cons_self
    obtain ⟨inv1, hB, hBL, hA, hAL⟩ := mergeStep_specP cl hs he inv hm hF1
    obtain ⟨inv', hB', hBL', hA', hAL'⟩ :=
      ih false F1 F' inv1 (fun m' hm' => hsets m' (List.mem_cons_of_mem _ hm')) h
    refine ⟨inv', ?_, ?_, ?_, ?_⟩
    · intro hfirst kvs hin
      exact hB' rfl kvs (hB hfirst kvs hin)
    · intro hfirst kvs hin
      exact hBL' rfl kvs (hBL hfirst kvs hin)
    · intro hno m' hm' kvs hin
      rcases List.mem_cons.1 hm' with e | hm'
      · subst e
        exact hB' rfl kvs (hA (hno _ List.mem_cons_self) kvs hin)
      · exact hA' (fun m'' hm'' => hno m'' (List.mem_cons_of_mem _ hm'')) m' hm' kvs hin
    · intro m' hm' kvs hin
      rcases List.mem_cons.1 hm' with e | hm'
      · subst e
        exact hBL' rfl kvs (hAL kvs hin)
      · exact hAL' m' hm' kvs hin

/-- `merge_field_sets` for input sets whose fields lie in `P` (a `DOptional` field is allowed): every object
    of an input set lies in the merge, under the lax reading of required fields -/
theorem mergeFieldSets_spec_laxP (cl : MergeClosedP P) (hs : HashSoundOn ov acc g P)
    {e : EqEnv} (he : EqSoundOn ov acc g e P) {c : LitCfg} {sets : List Fields} {F : Fields}
    (hsets : ∀ m ∈ sets, ∀ f ∈ m, P f.2)
    (h : mergeFieldSets c e sets = .ok F) :
    (F.map (·.1)).Nodup ∧ (∀ f ∈ F, P f.2) ∧
    ∀ m ∈ sets, ∀ kvs, InhFieldsLX ov acc g m kvs → InhFieldsLX ov acc g F kvs := by
  unfold mergeFieldSets at h
  obtain ⟨inv, _, _, _, hAL⟩ := mergeGo_specP cl hs he sets true [] F ⟨by simp, by simp⟩ hsets h
  refine ⟨inv.1, fun f hf => inv.2 f.1 f.2 (Fields.get?_of_mem inv.1 hf), ?_⟩
  intro m hm kvs hin
  exact (hAL m hm kvs hin.toInhFL).toInhFieldsLX inv.1

end

/-- **`mergeSoundP`**: `merge_field_sets` on registry-stage field dicts, with `==` evaluated through the
    (registry-stage) lookup itself: the merge is a registry-stage field dict and holds, laxly, every object of
    every input dict. -/
theorem mergeSoundP {ov : Bool} {acc : Accepts} {K I : String → Prop}
    (hK : ∀ k, K k → wfSerName k = true) (hI : IdxAlnum I) : MergeSoundP ov acc K I := by
  intro L e c sets F heL hL hsets h
  obtain ⟨nd, hP, hin⟩ :=
    mergeFieldSets_spec_laxP (ov := ov) (acc := acc) (g := L) (P := GoodP K I) mergeClosedP_goodP
      (hashSoundOn_goodP hK hI) (pyEq_soundP e heL hL) (c := c) (sets := sets) (F := F)
      (fun m hm f hf => (hsets m hm).2 f hf) h
  exact ⟨⟨nd, hP⟩, hin⟩

/-! ### non-vacuity: a lookup with a cyclic model, two models that are `==` only through the lookup -/

namespace Ex
def K : String → Prop := fun k => k = "IsoDateString"
def I : String → Prop := fun i => i = "1" ∨ i = "2" ∨ i = "3"
/-- models `1` and `2` have equal field dicts (`next` points back to model `1`: a cycle) -/
def L : ModelLookup := fun i =>
  if i = "1" then some [("a", .int), ("next", .opt (.ptr "1"))]
  else if i = "2" then some [("a", .int), ("next", .opt (.ptr "1"))]
  else if i = "3" then some [("b", .ser "IsoDateString")]
  else none
def E : EqEnv := { so := StrOracle.default, ms := fun i => "Model#" ++ i, look := L, fuel := 10 }
def sets : List Fields := [[("x", .ptr "1")], [("x", .ptr "2"), ("y", .ptr "3")]]

/-- `ModelPtr 1 == ModelPtr 2` is decided by descending into the two models: `x` keeps its type -/
theorem merge_eq : mergeFieldSets ⟨10, 20⟩ E sets = .ok [("x", .ptr "1"), ("y", .opt (.ptr "3"))] := by rfl

theorem lookGood : LookGood K I L := by
  intro i fs h
  unfold L at h
  split at h
  · cases h; exact ⟨by decide, by simp [I]⟩
  · split at h
    · cases h; exact ⟨by decide, by simp [I]⟩
    · split at h
      · cases h; exact ⟨by decide, by simp [K]⟩
      · cases h
theorem hK : ∀ k, K k → wfSerName k = true := by intro k h; cases h; decide
theorem hI : IdxAlnum I := by intro i h; rcases h with rfl | rfl | rfl <;> decide
theorem setsGood : ∀ m ∈ sets, GoodPF K I m := by
  intro m hm
  simp only [sets, List.mem_cons, List.not_mem_nil, or_false] at hm
  rcases hm with rfl | rfl <;> exact ⟨by decide, by simp [I]⟩

/-- all hypotheses of `mergeSoundP` / `MergeSoundP` hold for this instance -/
example {ov acc} : GoodPF K I [("x", .ptr "1"), ("y", .opt (.ptr "3"))] ∧
    ∀ fs ∈ sets, ∀ kvs, InhFieldsLX ov acc L fs kvs →
      InhFieldsLX ov acc L [("x", .ptr "1"), ("y", .opt (.ptr "3"))] kvs :=
  mergeSoundP hK hI L E ⟨10, 20⟩ sets _ rfl lookGood setsGood merge_eq
end Ex

end J2M.Reg
