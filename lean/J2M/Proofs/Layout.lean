/-
  Helper lemmas about the layout functions of `Structure.lean`: `sortFields`, `listInsert`, `composeFlat`,
  `composeNestedState`.
-/
import J2M.Structure
import J2M.Proofs.Names
namespace J2M
namespace LayoutP

/-! ## `sort_fields` -/

/-- the pairs behind the two key lists of `sort_fields` -/
def reqPairs (fs : Fields) (uf : Bool) : Fields :=
  fs.filter (fun kv => !kv.2.isOpt && !(uf && mentionsModel kv.2)) ++
  fs.filter (fun kv => !kv.2.isOpt && uf && mentionsModel kv.2)
def optPairs (fs : Fields) : Fields := fs.filter (fun kv => kv.2.isOpt)

theorem sortFields_eq (fs : Fields) (uf : Bool) :
    sortFields fs uf = ((reqPairs fs uf).keys, (optPairs fs).keys) := by
  simp [sortFields, reqPairs, optPairs, Fields.keys]

theorem reqPairs_perm (fs : Fields) (uf : Bool) : (reqPairs fs uf).Perm (fs.filter (fun kv => !kv.2.isOpt)) := by
  unfold reqPairs
  have := List.filter_append_perm (fun kv : String × Ty => !(uf && mentionsModel kv.2))
    (fs.filter (fun kv => !kv.2.isOpt))
  simp only [List.filter_filter] at this
  refine List.Perm.trans ?_ this
  apply List.Perm.of_eq
  congr 1
  · apply List.filter_congr; intro x _; cases x.2.isOpt <;> cases uf <;> cases mentionsModel x.2 <;> rfl
  · apply List.filter_congr; intro x _; cases x.2.isOpt <;> cases uf <;> cases mentionsModel x.2 <;> rfl

theorem req_opt_perm (fs : Fields) (uf : Bool) : (reqPairs fs uf ++ optPairs fs).Perm fs := by
  refine (List.Perm.append_right _ (reqPairs_perm fs uf)).trans ?_
  refine List.perm_append_comm.trans ?_
  exact List.filter_append_perm (fun kv : String × Ty => kv.2.isOpt) fs

theorem mem_optPairs {fs : Fields} {kv : String × Ty} : kv ∈ optPairs fs ↔ kv ∈ fs ∧ kv.2.isOpt = true := by
  simp [optPairs]

theorem mem_reqPairs {fs : Fields} {uf : Bool} {kv : String × Ty} :
    kv ∈ reqPairs fs uf ↔ kv ∈ fs ∧ kv.2.isOpt = false := by
  rw [(reqPairs_perm fs uf).mem_iff]; simp

/-! ## `list.insert` -/

theorem listInsert_length {α} (xs : List α) (pos : Nat) (x : α) : (listInsert xs pos x).length = xs.length + 1 := by
  simp [listInsert]; omega

theorem listInsert_perm {α} (xs : List α) (pos : Nat) (x : α) : (listInsert xs pos x).Perm (x :: xs) := by
  unfold listInsert
  refine (List.perm_middle).trans ?_
  rw [List.take_append_drop]

theorem mem_listInsert {α} {xs : List α} {pos : Nat} {x a : α} : a ∈ listInsert xs pos x ↔ a = x ∨ a ∈ xs := by
  rw [(listInsert_perm xs pos x).mem_iff]; simp

theorem listInsert_zero {α} (xs : List α) (x : α) : listInsert xs 0 x = x :: xs := by simp [listInsert]

theorem listInsert_ge {α} (xs : List α) {pos : Nat} (x : α) (h : xs.length ≤ pos) : listInsert xs pos x = xs ++ [x] := by
  simp [listInsert, List.take_of_length_le h, List.drop_eq_nil_of_le h]

theorem listInsert_head_pos {α} (xs : List α) {pos : Nat} (x : α) (hp : 0 < pos) (hx : xs ≠ []) :
    (listInsert xs pos x).head? = xs.head? := by
  cases xs with
  | nil => exact absurd rfl hx
  | cons y ys =>
    cases pos with
    | zero => omega
    | succ p => simp [listInsert]


/-! ## `compose_models_flat` -/

abbrev FlatState := List String × Positions × List String

/-- position for a model with several parents / a root user: after the last of them -/
def flatPosMulti (rootModels : List String) (positions : Positions) (parents : List String) : Int :=
  let pps := parents.filterMap (fun p => positions.get? p)
  let joined := "#".intercalate (sortStrings parents)
  let pps := match positions.get? joined with | some v => v :: pps | none => pps
  match maxInt pps with | some v => v | none => rootModels.length

/-- position for a model with a single parent -/
def flatPosSingle (rootModels : List String) (positions : Positions) (parent : String) : Int :=
  match positions.get? parent with | some v => v | none => rootModels.length

/-- the position and position table chosen for a model that has parent pointers -/
def flatPlace (g : Graph) (key : String) (hasRoot : Bool) (st : FlatState) : Int × Positions :=
  let (rootModels, positions, topLevel) := st
  let pointers := filterPointers g key
  let parents := parentsOf pointers
  let roots := extractRoot g key
  if hasRoot || (parents.length > 1 && roots.length ≥ 1) then
    let parents := if parents.any (fun p => topLevel.contains p) then insUniqStr "root" parents else parents
    let pos := flatPosMulti rootModels positions parents
    (pos, positions.update ("#".intercalate (sortStrings parents)) (pos + 1))
  else
    let parent := (sortStrings parents).headD ""
    let pos := flatPosSingle rootModels positions parent
    (pos, positions.update parent (pos + 1))

/-- one iteration of the loop of `compose_models_flat` -/
def flatStep (g : Graph) (st : FlatState) (m : Model) : Except PyErr FlatState :=
  let (rootModels, positions, topLevel) := st
  let key := m.idx
  let pointers := filterPointers g key
  let hasRoot := pointers.length != (allPointers g key).length
  if pointers.isEmpty then
    if !hasRoot then throw PyErr.noPointers else
    let positions := if (positions.get? "root").isSome then positions else positions ++ [("root", 0)]
    let pos := (positions.get? "root").getD 0
    let rootModels := listInsert rootModels pos.toNat key
    let positions := positions.update "root" (pos + 1)
    pure (rootModels, positions, topLevel ++ [key])
  else
    let (pos, positions) := flatPlace g key hasRoot st
    let positions := positions.update key (pos + 1)
    pure (listInsert rootModels pos.toNat key, positions, topLevel)

theorem composeFlat_eq (g : Graph) :
    composeFlat g = (g.models.foldlM (flatStep g) ([], [], [])).map (·.1) := by
  unfold composeFlat
  have : ∀ (st : FlatState) (ms : List Model) (f : FlatState → Model → Except PyErr FlatState),
      (∀ st m, f st m = flatStep g st m) →
      (do let (rootModels, _, _) ← ms.foldlM f st; pure rootModels) = (ms.foldlM (flatStep g) st).map (·.1) := by
    intro st ms f hf
    have : f = flatStep g := by funext a b; exact hf a b
    subst this
    cases ms.foldlM (flatStep g) st <;> rfl
  apply this
  intro st m
  obtain ⟨rootModels, positions, topLevel⟩ := st
  unfold flatStep flatPlace flatPosMulti flatPosSingle
  simp only
  split
  · rfl
  · split <;> rfl


/-- every successful iteration performs exactly one `list.insert` of the model's index -/
theorem flatStep_insert {g : Graph} {st st' : FlatState} {m : Model} (h : flatStep g st m = .ok st') :
    ∃ pos, st'.1 = listInsert st.1 pos m.idx := by
  obtain ⟨rootModels, positions, topLevel⟩ := st
  unfold flatStep at h
  simp only at h
  split at h
  · split at h
    · cases h
    · injection h with h; subst h; exact ⟨_, rfl⟩
  · injection h with h; subst h; exact ⟨_, rfl⟩

theorem flatFold_perm {g : Graph} : ∀ (ms : List Model) (st st' : FlatState),
    ms.foldlM (flatStep g) st = .ok st' → st'.1.Perm (st.1 ++ ms.map (·.idx)) := by
  intro ms
  induction ms with
  | nil => intro st st' h; simp [List.foldlM, pure, Except.pure] at h; subst h; simp
  | cons m ms ih =>
    intro st st' h
    rw [List.foldlM_cons] at h
    cases h1 : flatStep g st m with
    | error e => rw [h1] at h; cases h
    | ok st1 =>
      rw [h1] at h
      obtain ⟨pos, hp⟩ := flatStep_insert h1
      refine (ih st1 st' h).trans ?_
      rw [hp]
      refine (List.Perm.append_right _ (listInsert_perm st.1 pos m.idx)).trans ?_
      simpa using (List.perm_middle (a := m.idx) (l₁ := st.1) (l₂ := ms.map (·.idx))).symm

theorem composeFlat_perm {g : Graph} {l : List String} (h : composeFlat g = .ok l) :
    l.Perm (g.models.map (·.idx)) := by
  rw [composeFlat_eq] at h
  cases h1 : g.models.foldlM (flatStep g) ([], [], []) with
  | error e => rw [h1] at h; cases h
  | ok st =>
    rw [h1] at h
    injection h with h
    have := flatFold_perm g.models _ _ h1
    simpa [← h] using this

/-- `compose_models_flat` fails only with the "model has no pointers" error -/
theorem flatStep_error {g : Graph} {st : FlatState} {m : Model} {e : PyErr} (h : flatStep g st m = .error e) :
    e = .noPointers ∧ (allPointers g m.idx) = [] := by
  obtain ⟨rootModels, positions, topLevel⟩ := st
  unfold flatStep at h
  simp only at h
  split at h
  · rename_i hemp
    split at h
    · rename_i hr
      injection h with h
      refine ⟨h.symm, ?_⟩
      have : (filterPointers g m.idx).length = 0 := by simpa using hemp
      simp [this] at hr
      exact List.length_eq_zero_iff.mp hr.symm
    · cases h
  · cases h

open NamesP

/-! ## `parents` sets -/

theorem mem_insUniqStr {x a : String} {xs : List String} : a ∈ insUniqStr x xs ↔ a = x ∨ a ∈ xs := by
  unfold insUniqStr; split
  · rename_i h; have : x ∈ xs := by simpa using h
    constructor
    · exact Or.inr
    · rintro (h | h); exact h ▸ this; exact h
  · simp; exact Or.comm

theorem insUniqStr_nodup {x : String} {xs : List String} (h : xs.Nodup) : (insUniqStr x xs).Nodup := by
  unfold insUniqStr; split
  · exact h
  · rename_i hh
    have : x ∉ xs := by simpa using hh
    rw [List.nodup_append]; refine ⟨h, by simp, ?_⟩
    intro a ha b hb; simp at hb; subst hb; intro e; exact this (e ▸ ha)

theorem parentsFold_spec : ∀ (ptrs : List PtrRec) (acc : List String), acc.Nodup →
    (ptrs.foldl (fun acc p => match p.parent with | some q => insUniqStr q acc | none => acc) acc).Nodup ∧
    ∀ q, q ∈ ptrs.foldl (fun acc p => match p.parent with | some q => insUniqStr q acc | none => acc) acc ↔
      q ∈ acc ∨ ∃ p ∈ ptrs, p.parent = some q := by
  intro ptrs
  induction ptrs with
  | nil => intro acc h; simp [h]
  | cons p ps ih =>
    intro acc h
    simp only [List.foldl_cons]
    cases hp : p.parent with
    | none =>
      obtain ⟨a, b⟩ := ih acc h
      refine ⟨a, fun q => ?_⟩
      rw [b q]; simp [hp]
    | some q0 =>
      obtain ⟨a, b⟩ := ih (insUniqStr q0 acc) (insUniqStr_nodup h)
      refine ⟨a, fun q => ?_⟩
      rw [b q, mem_insUniqStr]; simp only [List.mem_cons, exists_eq_or_imp, hp, Option.some.injEq]
      constructor
      · rintro ((h | h) | h)
        · right; left; exact h.symm
        · left; exact h
        · right; right; exact h
      · rintro (h | h | h)
        · left; right; exact h
        · left; left; exact h.symm
        · right; exact h

theorem mem_parentsOf {ptrs : List PtrRec} {q : String} : q ∈ parentsOf ptrs ↔ ∃ p ∈ ptrs, p.parent = some q := by
  exact ((parentsFold_spec ptrs [] List.nodup_nil).2 q).trans (by simp)

theorem parentsOf_nodup (ptrs : List PtrRec) : (parentsOf ptrs).Nodup :=
  (parentsFold_spec ptrs [] List.nodup_nil).1

/-- the sorted `parents` set does not depend on the order in which the pointers are visited -/
theorem sort_parentsOf_perm {p₁ p₂ : List PtrRec} (h : p₁.Perm p₂) :
    sortStrings (parentsOf p₁) = sortStrings (parentsOf p₂) := by
  apply sortStrings_ext_of_nodup (parentsOf_nodup _) (parentsOf_nodup _)
  intro x; rw [mem_parentsOf, mem_parentsOf]
  constructor
  · rintro ⟨p, hp, e⟩; exact ⟨p, h.mem_iff.mp hp, e⟩
  · rintro ⟨p, hp, e⟩; exact ⟨p, h.mem_iff.mpr hp, e⟩

theorem parentsOf_length_perm {p₁ p₂ : List PtrRec} (h : p₁.Perm p₂) :
    (parentsOf p₁).length = (parentsOf p₂).length := by
  rw [← sortStrings_length, sort_parentsOf_perm h, sortStrings_length]


/-! ## `compose_models` (nested) -/

/-- one iteration of the loop of `compose_models` -/
def nestStep (g : Graph) (s : NestState) (m : Model) : Except PyErr NestState :=
    let key := m.idx
    let pointers := filterPointers g key
    let hasRoot := pointers.length != (allPointers g key).length
    if pointers.isEmpty then
      if !hasRoot then throw PyErr.noPointers else pure { s with roots := s.roots ++ [key] }
    else
      let parents := parentsOf pointers
      let roots := extractRoot g key
      if hasRoot || (parents.length > 1 && roots.length > 1) then
        let ixs := roots.filterMap (indexOfStr s.roots)
        match ixs with
        | [] => pure { s with roots := listInsert s.roots s.rootNestedIx key, rootNestedIx := s.rootNestedIx + 1 }
        | i :: is => pure { s with roots := listInsert s.roots (is.foldl min i) key }
      else if parents.length > 1 && roots.length == 1 then
        let parent := roots.headD ""
        pure { (s.setChildren parent (key :: s.children parent)) with pathInj := (key, parent) :: s.pathInj.filter (·.1 != key) }
      else
        let parent := (sortStrings parents).headD ""
        pure (s.setChildren parent (s.children parent ++ [key]))

theorem composeNestedState_eq (g : Graph) : composeNestedState g = g.models.foldlM (nestStep g) {} := by
  unfold composeNestedState
  congr 1

/-- all indices placed so far: the top-level list and every `nested` list -/
def placed (s : NestState) : List String := s.roots ++ s.nested.flatMap (·.2)

def KeysNodup (s : NestState) : Prop := (s.nested.map (·.1)).Nodup

theorem children_perm : ∀ (nested : List (String × List String)) (k : String), (nested.map (·.1)).Nodup →
    (nested.flatMap (·.2)).Perm
      ((((nested.find? (·.1 == k)).map (·.2)).getD []) ++ (nested.filter (·.1 != k)).flatMap (·.2)) := by
  intro nested k
  induction nested with
  | nil => intro _; simp
  | cons kv rest ih =>
    intro hnd
    simp only [List.map_cons, List.nodup_cons] at hnd
    by_cases h : kv.1 = k
    · have hrest : rest.filter (·.1 != k) = rest := by
        apply List.filter_eq_self.mpr
        intro x hx
        have : x.1 ≠ k := fun e => hnd.1 (h ▸ e ▸ List.mem_map_of_mem (f := (·.1)) hx)
        simp [this]
      simp [hrest, h]
    · have hk : (kv.1 == k) = false := by simp [h]
      have hk' : (kv.1 != k) = true := by simp [h]
      simp only [List.find?_cons, hk, List.filter_cons, hk', if_true, List.flatMap_cons]
      refine (List.Perm.append_left kv.2 (ih hnd.2)).trans ?_
      simp only [← List.append_assoc]
      exact List.Perm.append_right _ List.perm_append_comm

theorem setChildren_keys {s : NestState} (k : String) (cs : List String) (h : KeysNodup s) :
    KeysNodup (s.setChildren k cs) := by
  unfold KeysNodup NestState.setChildren at *
  simp only [List.map_cons, List.nodup_cons]
  refine ⟨?_, ?_⟩
  · intro hmem
    obtain ⟨x, hx, e⟩ := List.mem_map.mp hmem
    have := (List.mem_filter.mp hx).2
    simp at this; exact this e
  · exact (List.filter_sublist.map _).nodup h

theorem setChildren_placed {s : NestState} (k : String) (x : String) (cs : List String) (h : KeysNodup s)
    (hcs : cs.Perm (x :: s.children k)) : (placed (s.setChildren k cs)).Perm (x :: placed s) := by
  unfold placed
  have hp := children_perm s.nested k h
  have e : (s.setChildren k cs).nested = (k, cs) :: s.nested.filter (·.1 != k) := rfl
  have er : (s.setChildren k cs).roots = s.roots := rfl
  rw [e, er, List.flatMap_cons]
  refine List.Perm.trans ?_ (List.perm_middle)
  refine List.Perm.append_left _ ?_
  refine (List.Perm.append_right _ hcs).trans ?_
  exact List.Perm.cons x hp.symm

/-- every successful iteration places the model in exactly one list -/
theorem nestStep_placed {g : Graph} {s s' : NestState} {m : Model} (h : nestStep g s m = .ok s')
    (hk : KeysNodup s) : KeysNodup s' ∧ (placed s').Perm (m.idx :: placed s) := by
  unfold nestStep at h
  simp only at h
  split at h
  · split at h
    · cases h
    · injection h with h; subst h
      refine ⟨hk, ?_⟩
      unfold placed; simp only
      simp
  · split at h
    · split at h
      · injection h with h; subst h
        refine ⟨hk, ?_⟩
        unfold placed; simp only
        exact (List.Perm.append_right _ (listInsert_perm _ _ _))
      · injection h with h; subst h
        refine ⟨hk, ?_⟩
        unfold placed; simp only
        exact (List.Perm.append_right _ (listInsert_perm _ _ _))
    · split at h
      · injection h with h; subst h
        exact ⟨setChildren_keys _ _ hk, setChildren_placed _ _ _ hk (List.Perm.refl _)⟩
      · injection h with h; subst h
        refine ⟨setChildren_keys _ _ hk, setChildren_placed _ _ _ hk ?_⟩
        simp

theorem nestFold_placed {g : Graph} : ∀ (ms : List Model) (s s' : NestState),
    ms.foldlM (nestStep g) s = .ok s' → KeysNodup s →
    KeysNodup s' ∧ (placed s').Perm (placed s ++ ms.map (·.idx)) := by
  intro ms
  induction ms with
  | nil => intro s s' h hk; simp [List.foldlM, pure, Except.pure] at h; subst h; simp [hk]
  | cons m ms ih =>
    intro s s' h hk
    rw [List.foldlM_cons] at h
    cases h1 : nestStep g s m with
    | error e => rw [h1] at h; cases h
    | ok s1 =>
      rw [h1] at h
      obtain ⟨hk1, hp1⟩ := nestStep_placed h1 hk
      obtain ⟨hk', hp'⟩ := ih s1 s' h hk1
      refine ⟨hk', hp'.trans ?_⟩
      refine (List.Perm.append_right _ hp1).trans ?_
      simpa using (List.perm_middle (a := m.idx) (l₁ := placed s) (l₂ := ms.map (·.idx))).symm

/-- **nested_once**: in the nested layout, too, every model is placed exactly once (top level or in exactly one
    `nested` list) — for all graphs on which `compose_models` does not raise -/
theorem composeNested_placed {g : Graph} {s : NestState} (h : composeNestedState g = .ok s) :
    (s.nested.map (·.1)).Nodup ∧ (placed s).Perm (g.models.map (·.idx)) := by
  rw [composeNestedState_eq] at h
  have := nestFold_placed g.models {} s h (by simp [KeysNodup])
  exact ⟨this.1, by simpa [placed] using this.2⟩


/-! ### tree-shaped registries -/

/-- the (first) pointer's parent, for a model that is referred to by exactly one pointer -/
def parentOf (g : Graph) (i : String) : Option String := ((allPointers g i).head?).bind (·.parent)

/-- `Tree g`: every registered model is referred to by exactly one pointer — a root pointer (`parent = None`,
    the model is a top-level model) or a field of exactly one other model -/
def Tree (g : Graph) : Prop := ∀ m ∈ g.models, ∃ p, allPointers g m.idx = [p]

theorem filterPointers_eq (g : Graph) (i : String) :
    filterPointers g i = (allPointers g i).filter (fun p => p.parent.isSome) := by
  unfold filterPointers allPointers; rw [List.filter_filter]
  apply List.filter_congr; intro x _; exact Bool.and_comm _ _

theorem children_setChildren (s : NestState) (k q : String) (cs : List String) :
    (s.setChildren k cs).children q = if q = k then cs else s.children q := by
  unfold NestState.children NestState.setChildren
  simp only
  by_cases h : q = k
  · subst h; simp
  · have hk : (k == q) = false := by simp [Ne.symm h]
    simp only [List.find?_cons, hk, h, if_false]
    congr 2
    induction s.nested with
    | nil => simp
    | cons kv rest ih =>
      simp only [List.filter_cons]
      by_cases h1 : kv.1 = k
      · have : (kv.1 == q) = false := by simp [h1, Ne.symm h]
        simp [h1, hk, ih]
      · simp only [bne_iff_ne, ne_eq, h1, not_false_eq_true, if_true, List.find?_cons]
        split
        · rfl
        · exact ih

/-- the step on a model with a single root pointer / a single parent pointer -/
theorem nestStep_tree {g : Graph} {s : NestState} {m : Model} {p : PtrRec} (h : allPointers g m.idx = [p]) :
    nestStep g s m = .ok (match p.parent with
      | none => { s with roots := s.roots ++ [m.idx] }
      | some q => s.setChildren q (s.children q ++ [m.idx])) := by
  unfold nestStep
  simp only [filterPointers_eq, h]
  cases hp : p.parent with
  | none => simp [hp, pure, Except.pure]
  | some q =>
    have hs : sortStrings [q] = [q] := by simp [sortStrings, insertSorted]
    simp [hp, pure, Except.pure, parentsOf, insUniqStr, hs]

/-- result of the nested composition on (a part of) a tree-shaped registry -/
theorem nestFold_tree {g : Graph} : ∀ (ms : List Model) (s : NestState),
    (∀ m ∈ ms, ∃ p, allPointers g m.idx = [p]) →
    ∃ s', ms.foldlM (nestStep g) s = .ok s' ∧
      s'.roots = s.roots ++ (ms.filter (fun m => (parentOf g m.idx).isNone)).map (·.idx) ∧
      (∀ q, s'.children q = s.children q ++ (ms.filter (fun m => parentOf g m.idx == some q)).map (·.idx)) ∧
      s'.pathInj = s.pathInj := by
  intro ms
  induction ms with
  | nil => intro s _; exact ⟨s, rfl, by simp, by simp, rfl⟩
  | cons m ms ih =>
    intro s hT
    obtain ⟨p, hp⟩ := hT m List.mem_cons_self
    have hpar : parentOf g m.idx = p.parent := by simp [parentOf, hp]
    rw [List.foldlM_cons, nestStep_tree hp]
    simp only [bind, Except.bind]
    cases hq : p.parent with
    | none =>
      obtain ⟨s', e, r1, r2, r3⟩ := ih { s with roots := s.roots ++ [m.idx] }
        (fun x hx => hT x (List.mem_cons_of_mem _ hx))
      refine ⟨s', e, ?_, ?_, r3⟩
      · rw [r1]; simp [hpar, hq]
      · intro q; rw [r2 q]; simp [hpar, hq, NestState.children]
    | some q0 =>
      obtain ⟨s', e, r1, r2, r3⟩ := ih (s.setChildren q0 (s.children q0 ++ [m.idx]))
        (fun x hx => hT x (List.mem_cons_of_mem _ hx))
      refine ⟨s', e, ?_, ?_, ?_⟩
      · rw [r1]; simp [hpar, hq, NestState.setChildren]
      · intro q; rw [r2 q, children_setChildren]
        by_cases hqq : q = q0
        · subst hqq; simp [hpar, hq]
        · have : (q0 == q) = false := by simp [Ne.symm hqq]
          simp [hpar, hq, hqq, this]
      · rw [r3]; rfl

/-- **nested_tree**: on a tree-shaped registry `compose_models` succeeds; the top-level list consists of the
    models with a root pointer in registry order, the `nested` list of a model `q` of the models whose only
    pointer is a field of `q` in registry order, and no reference path is injected. -/
theorem composeNested_tree {g : Graph} (hT : Tree g) :
    ∃ s, composeNestedState g = .ok s ∧
      s.roots = (g.models.filter (fun m => (parentOf g m.idx).isNone)).map (·.idx) ∧
      (∀ q, s.children q = (g.models.filter (fun m => parentOf g m.idx == some q)).map (·.idx)) ∧
      s.pathInj = [] := by
  obtain ⟨s, e, r1, r2, r3⟩ := nestFold_tree g.models {} hT
  refine ⟨s, by rw [composeNestedState_eq]; exact e, by simpa using r1, ?_, r3⟩
  intro q; rw [r2 q]; simp [NestState.children]


/-! ## `PositionsDict` invariants and the head of the flat layout -/

/-- every stored position is at least 1 -/
def AllGe1 (p : Positions) : Prop := ∀ kv ∈ p, kv.2 ≥ 1

def HasKey (p : Positions) (k : String) : Prop := ∃ kv ∈ p, kv.1 = k

theorem get?_some_mem {p : Positions} {k : String} {v : Int} (h : p.get? k = some v) : (k, v) ∈ p := by
  unfold Positions.get? at h
  cases hf : p.find? (·.1 == k) with
  | none => simp [hf] at h
  | some kv =>
    simp [hf] at h
    have hm := List.mem_of_find?_eq_some hf
    have hk := List.find?_some hf
    have : kv.1 = k := by simpa using hk
    rw [← this, ← h]; exact hm

theorem get?_ge1 {p : Positions} {k : String} {v : Int} (hp : AllGe1 p) (h : p.get? k = some v) : v ≥ 1 :=
  hp _ (get?_some_mem h)

theorem hasKey_get? {p : Positions} {k : String} (h : HasKey p k) : ∃ v, p.get? k = some v := by
  obtain ⟨kv, hkv, e⟩ := h
  unfold Positions.get?
  cases hf : p.find? (·.1 == k) with
  | none =>
    have := List.find?_eq_none.mp hf kv hkv
    simp [e] at this
  | some kv' => exact ⟨kv'.2, rfl⟩

theorem update_allGe1 {p : Positions} {key : String} {value : Int} (hp : AllGe1 p) (hv : value ≥ 1) :
    AllGe1 (p.update key value) := by
  unfold Positions.update
  cases hg : p.get? key with
  | some old =>
    simp only
    intro kv hkv
    obtain ⟨x, hx, e⟩ := List.mem_map.mp hkv
    have hx1 := hp x hx
    subst e
    split
    · exact hv
    · split
      · rename_i hge; simp only; omega
      · exact hx1
  | none =>
    simp only
    intro kv hkv
    rcases List.mem_append.mp hkv with h | h
    · obtain ⟨x, hx, e⟩ := List.mem_map.mp h
      have hx1 := hp x hx
      subst e
      split
      · simp only; omega
      · exact hx1
    · simp at h; subst h; exact hv

theorem update_hasKey {p : Positions} {key k : String} {value : Int} (h : HasKey p k) :
    HasKey (p.update key value) k := by
  obtain ⟨kv, hkv, e⟩ := h
  unfold Positions.update
  cases hg : p.get? key with
  | some old =>
    simp only
    refine ⟨_, List.mem_map_of_mem hkv, ?_⟩
    split
    · rename_i hh; have : kv.1 = key := by simpa using hh
      simp [← this, e]
    · split <;> exact e
  | none =>
    simp only
    refine ⟨_, List.mem_append_left _ (List.mem_map_of_mem hkv), ?_⟩
    split <;> exact e

theorem hasKey_self_update (p : Positions) (key : String) (value : Int) : HasKey (p.update key value) key := by
  unfold Positions.update
  cases hg : p.get? key with
  | some old =>
    simp only
    obtain hm := get?_some_mem hg
    refine ⟨_, List.mem_map_of_mem hm, ?_⟩
    simp
  | none =>
    simp only
    exact ⟨(key, value), by simp, rfl⟩

theorem maxInt_mem : ∀ {l : List Int} {v : Int}, maxInt l = some v → v ∈ l := by
  intro l v h
  cases l with
  | nil => simp [maxInt] at h
  | cons x xs =>
    simp only [maxInt, Option.some.injEq] at h
    have : ∀ (ys : List Int) (a : Int), ys.foldl (fun a b => if b > a then b else a) a = a ∨
        ys.foldl (fun a b => if b > a then b else a) a ∈ ys := by
      intro ys
      induction ys with
      | nil => intro a; left; rfl
      | cons y ys ih =>
        intro a
        simp only [List.foldl_cons]
        rcases ih (if y > a then y else a) with h | h
        · rw [h]; split
          · right; exact List.mem_cons_self
          · left; rfl
        · right; exact List.mem_cons_of_mem _ h
    rcases this xs x with h' | h'
    · rw [h'] at h; rw [← h]; exact List.mem_cons_self
    · rw [← h]; exact List.mem_cons_of_mem _ h'

/-- invariant of the flat loop once a pure top-level model has been emitted first -/
def HeadInv (r : String) (st : FlatState) : Prop :=
  st.1.head? = some r ∧ AllGe1 st.2.1 ∧ HasKey st.2.1 "root"

theorem int_toNat_pos {z : Int} (h : z ≥ 1) : 0 < z.toNat := by omega

theorem flatPosMulti_ge1 {rootModels : List String} {positions : Positions} (parents : List String)
    (hlen : (rootModels.length : Int) ≥ 1) (h2 : AllGe1 positions) :
    flatPosMulti rootModels positions parents ≥ 1 := by
  unfold flatPosMulti
  simp only
  have hfm : ∀ v ∈ parents.filterMap (fun p => positions.get? p), v ≥ 1 := by
    intro v hv
    obtain ⟨p, _, hp⟩ := List.mem_filterMap.mp hv
    exact get?_ge1 h2 hp
  cases hj : positions.get? ("#".intercalate (sortStrings parents)) with
  | none =>
    simp only
    cases hm : maxInt (parents.filterMap (fun p => positions.get? p)) with
    | none => exact hlen
    | some v => exact hfm v (maxInt_mem hm)
  | some w =>
    simp only
    cases hm : maxInt (w :: parents.filterMap (fun p => positions.get? p)) with
    | none => exact hlen
    | some v =>
      rcases List.mem_cons.mp (maxInt_mem hm) with rfl | hv
      · exact get?_ge1 h2 hj
      · exact hfm v hv

theorem flatPosSingle_ge1 {rootModels : List String} {positions : Positions} (parent : String)
    (hlen : (rootModels.length : Int) ≥ 1) (h2 : AllGe1 positions) :
    flatPosSingle rootModels positions parent ≥ 1 := by
  unfold flatPosSingle
  cases hj : positions.get? parent with
  | none => exact hlen
  | some w => exact get?_ge1 h2 hj

theorem flatPlace_ge1 {g : Graph} {key : String} {hasRoot : Bool} {st : FlatState} {r : String}
    (hI : HeadInv r st) :
    (flatPlace g key hasRoot st).1 ≥ 1 ∧ AllGe1 (flatPlace g key hasRoot st).2 ∧
      HasKey (flatPlace g key hasRoot st).2 "root" := by
  obtain ⟨rootModels, positions, topLevel⟩ := st
  obtain ⟨h1, h2, h3⟩ := hI
  simp only at h1 h2 h3
  have hlen : (rootModels.length : Int) ≥ 1 := by
    cases rootModels with
    | nil => simp at h1
    | cons a b => simp; omega
  unfold flatPlace
  simp only
  split
  · have := flatPosMulti_ge1 (rootModels := rootModels) (positions := positions)
      (if (parentsOf (filterPointers g key)).any (fun p => topLevel.contains p)
        then insUniqStr "root" (parentsOf (filterPointers g key)) else parentsOf (filterPointers g key)) hlen h2
    exact ⟨this, update_allGe1 h2 (by omega), update_hasKey h3⟩
  · have := flatPosSingle_ge1 (rootModels := rootModels) (positions := positions)
      ((sortStrings (parentsOf (filterPointers g key))).headD "") hlen h2
    exact ⟨this, update_allGe1 h2 (by omega), update_hasKey h3⟩

theorem flatStep_headInv {g : Graph} {st st' : FlatState} {m : Model} {r : String}
    (hI : HeadInv r st) (h : flatStep g st m = .ok st') : HeadInv r st' := by
  have hI' := hI
  obtain ⟨rootModels, positions, topLevel⟩ := st
  obtain ⟨h1, h2, h3⟩ := hI
  simp only at h1 h2 h3
  have hne : rootModels ≠ [] := by intro e; rw [e] at h1; simp at h1
  unfold flatStep at h
  simp only at h
  split at h
  · split at h
    · cases h
    · injection h with h; subst h
      obtain ⟨v, hv⟩ := hasKey_get? h3
      simp only [hv, Option.isSome_some, if_true, Option.getD_some]
      have hv1 := get?_ge1 h2 hv
      refine ⟨?_, update_allGe1 h2 (by omega), update_hasKey h3⟩
      simp only
      rw [listInsert_head_pos _ _ (int_toNat_pos hv1) hne]; exact h1
  · injection h with h; subst h
    obtain ⟨p1, p2, p3⟩ := flatPlace_ge1 (g := g) (key := m.idx)
      (hasRoot := (filterPointers g m.idx).length != (allPointers g m.idx).length) hI'
    refine ⟨?_, update_allGe1 p2 (by omega), update_hasKey p3⟩
    simp only
    rw [listInsert_head_pos _ _ (int_toNat_pos p1) hne]; exact h1

theorem flatFold_headInv {g : Graph} {r : String} : ∀ (ms : List Model) (st st' : FlatState),
    HeadInv r st → ms.foldlM (flatStep g) st = .ok st' → HeadInv r st' := by
  intro ms
  induction ms with
  | nil => intro st st' hI h; simp [List.foldlM, pure, Except.pure] at h; subst h; exact hI
  | cons m ms ih =>
    intro st st' hI h
    rw [List.foldlM_cons] at h
    cases h1 : flatStep g st m with
    | error e => rw [h1] at h; cases h
    | ok st1 => rw [h1] at h; exact ih st1 st' (flatStep_headInv hI h1) h

/-- the first iteration, on a model without parent pointers -/
theorem flatStep_first {g : Graph} {m : Model} {st' : FlatState} (hp : filterPointers g m.idx = [])
    (h : flatStep g ([], [], []) m = .ok st') : HeadInv m.idx st' := by
  unfold flatStep at h
  simp only [hp, List.isEmpty_nil, if_true] at h
  split at h
  · cases h
  · injection h with h
    have e : st' = ([m.idx], [("root", 1)], [m.idx]) := by
      rw [← h]; simp [Positions.get?, Positions.update, listInsert]
    subst e
    refine ⟨rfl, ?_, ⟨("root", 1), by simp, rfl⟩⟩
    intro kv hkv; simp at hkv; subst hkv; simp

/-- **flat_root_first**: if the first model of the registry has no parent pointers (a pure top-level model), it is
    the first class of the flat layout — for ALL graphs, tree-shaped or not. -/
theorem composeFlat_head {g : Graph} {m : Model} {ms : List Model} {l : List String}
    (hm : g.models = m :: ms) (hp : filterPointers g m.idx = []) (h : composeFlat g = .ok l) :
    l.head? = some m.idx := by
  rw [composeFlat_eq, hm, List.foldlM_cons] at h
  cases h1 : flatStep g ([], [], []) m with
  | error e => rw [h1] at h; cases h
  | ok st1 =>
    rw [h1] at h
    simp only [bind, Except.bind] at h
    cases h2 : ms.foldlM (flatStep g) st1 with
    | error e => rw [h2] at h; cases h
    | ok st2 =>
      rw [h2] at h
      injection h with h
      have := flatFold_headInv ms st1 st2 (flatStep_first hp h1) h2
      rw [← h]; exact this.1

end LayoutP
end J2M
