/-
  Helper development for C01S (DESIGN §8.1, theorems 6 `render_sound` and 7 `C01_pipeline_sound`):
  a semantics `AnnInh` of the annotation terms the generators write, the field table of a rendered class
  (`tableOf`, mirroring `genClass`: `sort_fields`, `_filter_fields`, one annotated field per kept key), and the
  theorem that the rendered view only widens: `Inh … t v → AnnInh … (tyAnn c e t) v`.
-/
import J2M.Proofs.RSoundRefs
namespace J2M.RSound
open J2M J2M.Rend J2M.Reg

/-! ## 1. what an annotation admits -/

/-- the field table of a rendered class: the declared fields (JSON key, annotation, "has a default") in the order of
    the class body, and the keys of the model that the generator left out (`_filter_fields`) -/
structure ClsTab where
  fields : List (String × Ann × Bool)
  dropped : List String

/-- how a bare class name in an annotation is read: a pseudo-type class `K` of `json_to_models.dynamic_typing` admits
    the strings `K`'s parser accepts (`K.to_internal_value` does not raise); every other name — `date`, `int`, … written
    by pydantic/sqlmodel in place of a pseudo-type — is read by the parameter `pyd` (module, name, value) -/
def nameSem (acc : Accepts) (pyd : String → String → Json → Prop) (m n : String) (v : Json) : Prop :=
  if m = "json_to_models.dynamic_typing" then ∃ s, v = .str s ∧ acc n s = some true else pyd m n v

/-- **AnnInh**: the JSON values an annotation admits, the way the frameworks / `typing` read it.
    `cls` resolves a quoted class reference to the field table of that class.  An object is admitted by a class iff
    every key is a declared field whose annotation admits the value — or one of the class's `dropped` keys carrying
    `null` — and every field without default is present.  (This is stricter than pydantic, which ignores every
    undeclared key; the theorems below therefore also hold for pydantic's reading.) -/
inductive AnnInh (acc : Accepts) (pyd : String → String → Json → Prop) (cls : String → Option ClsTab) :
    Ann → Json → Prop
  | int {i} : AnnInh acc pyd cls .int (.int i)
  | floatF {x} : AnnInh acc pyd cls .float (.float x)
  | floatI {i} : AnnInh acc pyd cls .float (.int i)
  | bool {b} : AnnInh acc pyd cls .bool (.bool b)
  | str {s} : AnnInh acc pyd cls .str (.str s)
  | none : AnnInh acc pyd cls .none .null
  | any {v} : AnnInh acc pyd cls .any v
  | cls {m n v} : nameSem acc pyd m n v → AnnInh acc pyd cls (.cls m n) v
  | literal {vs s} : s ∈ vs → AnnInh acc pyd cls (.literal vs) (.str s)
  | list {a xs} : (∀ x ∈ xs, AnnInh acc pyd cls a x) → AnnInh acc pyd cls (.list a) (.arr xs)
  | dict {a kvs} : (∀ kv ∈ kvs, AnnInh acc pyd cls a kv.2) → AnnInh acc pyd cls (.dict a) (.obj kvs)
  | optNull {a} : AnnInh acc pyd cls (.opt a) .null
  | optSome {a v} : AnnInh acc pyd cls a v → AnnInh acc pyd cls (.opt a) v
  | union {as a v} : a ∈ as → AnnInh acc pyd cls a v → AnnInh acc pyd cls (.union as) v
  | fwd {r tab kvs} : cls r = some tab →
      (∀ kv ∈ kvs, (∃ e ∈ tab.fields, e.1 = kv.1) ∨ (kv.1 ∈ tab.dropped ∧ kv.2 = .null)) →
      (∀ kv ∈ kvs, ∀ e ∈ tab.fields, e.1 = kv.1 → AnnInh acc pyd cls e.2.1 kv.2) →
      (∀ e ∈ tab.fields, e.2.2 = false → ∃ kv ∈ kvs, kv.1 = e.1) →
      AnnInh acc pyd cls (.fwd r) (.obj kvs)

/-- "object `kvs` is accepted by the class with field table `tab`" -/
def TabAccepts (acc : Accepts) (pyd : String → String → Json → Prop) (cls : String → Option ClsTab)
    (tab : ClsTab) (kvs : List (String × Json)) : Prop :=
  (∀ kv ∈ kvs, (∃ e ∈ tab.fields, e.1 = kv.1) ∨ (kv.1 ∈ tab.dropped ∧ kv.2 = .null)) ∧
  (∀ kv ∈ kvs, ∀ e ∈ tab.fields, e.1 = kv.1 → AnnInh acc pyd cls e.2.1 kv.2) ∧
  (∀ e ∈ tab.fields, e.2.2 = false → ∃ kv ∈ kvs, kv.1 = e.1)

theorem annInh_fwd_iff {acc : Accepts} {pyd : String → String → Json → Prop} {cls : String → Option ClsTab}
    {r : String} {v : Json} :
    AnnInh acc pyd cls (.fwd r) v ↔ ∃ tab kvs, cls r = some tab ∧ v = .obj kvs ∧ TabAccepts acc pyd cls tab kvs := by
  constructor
  · intro h
    cases h with
    | fwd h0 h1 h2 h3 => exact ⟨_, _, h0, rfl, h1, h2, h3⟩
  · rintro ⟨tab, kvs, h0, rfl, h1, h2, h3⟩
    exact .fwd h0 h1 h2 h3

/-! ## 2. `_filter_fields` -/

/-- the field `k` of the model is left out of the class: pydantic / sqlmodel, and its type is exactly `Null` or
    `Unknown` -/
def Dropped (c : RenderCfg) (fs : Fields) (k : String) : Prop :=
  c.useActual = true ∧ (fs.get? k = some .null ∨ fs.get? k = some .unknown)

/-- **fields_kept** (the iff): `_filter_fields` removes exactly the keys whose field is `Dropped`, keeping order and
    multiplicity of the others -/
theorem mem_filterFields {c : RenderCfg} {fs : Fields} {keys : List String} {k : String} :
    k ∈ filterFields c fs keys ↔ k ∈ keys ∧ ¬ Dropped c fs k := by
  unfold filterFields Dropped RenderCfg.useActual
  split
  · rename_i h
    rw [List.mem_filter]
    simp only [h, true_and]
    constructor
    · rintro ⟨hk, hm⟩
      refine ⟨hk, ?_⟩
      rintro (e | e) <;> simp [e] at hm
    · rintro ⟨hk, hm⟩
      refine ⟨hk, ?_⟩
      split
      · rename_i e; exact absurd (Or.inl e) hm
      · rename_i e; exact absurd (Or.inr e) hm
      · rfl
  · rename_i h
    simp [h]

theorem useActual_iff (c : RenderCfg) : c.useActual = true ↔ c.fw = .pydantic ∨ c.fw = .sqlmodel := by
  unfold RenderCfg.useActual
  cases h : c.fw <;> decide

theorem useActual_false {c : RenderCfg} (h : c.fw = .base ∨ c.fw = .attrs ∨ c.fw = .dataclasses) :
    c.useActual = false := by
  unfold RenderCfg.useActual
  rcases h with h | h | h <;> rw [h] <;> rfl

/-- every framework other than pydantic / sqlmodel keeps all fields -/
theorem filterFields_other {c : RenderCfg} (h : c.useActual = false) (fs : Fields) (keys : List String) :
    filterFields c fs keys = keys := by
  unfold filterFields
  unfold RenderCfg.useActual at h
  simp [h]

theorem filterFields_sublist (c : RenderCfg) (fs : Fields) (keys : List String) :
    (filterFields c fs keys).Sublist keys := by
  unfold filterFields
  split
  · exact List.filter_sublist
  · exact List.Sublist.refl _

/-! ## 3. `sort_fields` (membership only; order facts are in `Props/C12.lean`) -/

theorem mem_sortFields_fst {fs : Fields} {uf : Bool} {k : String} :
    k ∈ (sortFields fs uf).1 ↔ ∃ t, (k, t) ∈ fs ∧ t.isOpt = false := by
  unfold sortFields
  simp only [List.map_append, List.mem_append, List.mem_map, List.mem_filter]
  constructor
  · rintro (⟨⟨k', t⟩, ⟨hm, hc⟩, rfl⟩ | ⟨⟨k', t⟩, ⟨hm, hc⟩, rfl⟩)
    · exact ⟨t, hm, by revert hc; cases t.isOpt <;> simp⟩
    · exact ⟨t, hm, by revert hc; cases t.isOpt <;> simp⟩
  · rintro ⟨t, hm, ho⟩
    by_cases hx : (uf && mentionsModel t) = true
    · right; exact ⟨(k, t), ⟨hm, by simp [ho, hx]⟩, rfl⟩
    · left; exact ⟨(k, t), ⟨hm, by simp [ho, hx]⟩, rfl⟩

theorem mem_sortFields_snd {fs : Fields} {uf : Bool} {k : String} :
    k ∈ (sortFields fs uf).2 ↔ ∃ t, (k, t) ∈ fs ∧ t.isOpt = true := by
  unfold sortFields
  simp only [List.mem_map, List.mem_filter]
  constructor
  · rintro ⟨⟨k', t⟩, ⟨hm, hc⟩, rfl⟩
    exact ⟨t, hm, hc⟩
  · rintro ⟨t, hm, ho⟩
    exact ⟨(k, t), ⟨hm, ho⟩, rfl⟩

theorem get?_mem {fs : Fields} {k : String} {t : Ty} (h : Fields.get? fs k = some t) : (k, t) ∈ fs := by
  unfold Fields.get? at h
  cases hf : fs.find? (·.1 == k) with
  | none => simp [hf] at h
  | some p =>
    simp only [hf, Option.map_some, Option.some.injEq] at h
    have h1 := List.mem_of_find?_eq_some hf
    have h2 : p.1 = k := by simpa using List.find?_some hf
    obtain ⟨k', t'⟩ := p
    simp only at h h2
    subst h; subst h2
    exact h1

/-! ## 4. the field table of a class -/

/-- the keys of the class body in order, with the "optional" flag `genClass` passes to `field_data`:
    required fields first (`sort_fields`), each list filtered by `_filter_fields` -/
def keptKeys (c : RenderCfg) (fs : Fields) : List (String × Bool) :=
  (filterFields c fs (sortFields fs (!c.convertUnicode)).1).map (fun k => (k, false)) ++
  (filterFields c fs (sortFields fs (!c.convertUnicode)).2).map (fun k => (k, true))

/-- the keys of the model that `_filter_fields` leaves out -/
def droppedKeys (c : RenderCfg) (fs : Fields) : List String :=
  fs.keys.filter (fun k => !(filterFields c fs fs.keys).contains k)

/-- one table entry per key: the annotation of the type `genClass` looks up for the key -/
def annEntries (c : RenderCfg) (e : RefEnv) (fs : Fields) : List (String × Bool) → Option (List (String × Ann × Bool))
  | [] => some []
  | (k, b) :: rest =>
    match tyAnn c e ((fs.get? k).getD .unknown), annEntries c e fs rest with
    | some a, some es => some ((k, a, b) :: es)
    | _, _ => none

/-- the field table of the class rendered for a model with field dict `fs` (`none` if an annotation does not exist,
    i.e. `genClass` raises) -/
def tableOf (c : RenderCfg) (e : RefEnv) (fs : Fields) : Option ClsTab :=
  (annEntries c e fs (keptKeys c fs)).map (fun es => ⟨es, droppedKeys c fs⟩)

theorem annEntries_spec {c : RenderCfg} {e : RefEnv} {fs : Fields} :
    ∀ {ks : List (String × Bool)} {es : List (String × Ann × Bool)}, annEntries c e fs ks = some es →
      (∀ x ∈ es, (x.1, x.2.2) ∈ ks ∧ tyAnn c e ((fs.get? x.1).getD .unknown) = some x.2.1) ∧
      (∀ kb ∈ ks, ∃ a, (kb.1, a, kb.2) ∈ es)
  | [], es, h => by simp [annEntries] at h; subst h; simp
  | (k, b) :: rest, es, h => by
    simp only [annEntries] at h
    split at h
    · rename_i a es' ha hes
      cases h
      obtain ⟨i1, i2⟩ := annEntries_spec hes
      constructor
      · intro x hx
        rcases List.mem_cons.1 hx with rfl | hx
        · exact ⟨by simp, ha⟩
        · exact ⟨List.mem_cons_of_mem _ (i1 x hx).1, (i1 x hx).2⟩
      · intro kb hkb
        rcases List.mem_cons.1 hkb with rfl | hkb
        · exact ⟨a, by simp⟩
        · obtain ⟨a', ha'⟩ := i2 kb hkb
          exact ⟨a', List.mem_cons_of_mem _ ha'⟩
    · cases h

theorem annEntries_isSome {c : RenderCfg} {e : RefEnv} {fs : Fields} :
    ∀ {ks : List (String × Bool)}, (∀ kb ∈ ks, (tyAnn c e ((fs.get? kb.1).getD .unknown)).isSome = true) →
      (annEntries c e fs ks).isSome = true
  | [], _ => rfl
  | (k, b) :: rest, h => by
    have h1 := h (k, b) (by simp)
    have h2 := annEntries_isSome (fs := fs) (ks := rest) (fun kb hkb => h kb (List.mem_cons_of_mem _ hkb))
    obtain ⟨a, ha⟩ := Option.isSome_iff_exists.1 h1
    obtain ⟨es, hes⟩ := Option.isSome_iff_exists.1 h2
    simp only at ha
    simp [annEntries, ha, hes]

theorem mem_keptKeys {c : RenderCfg} {fs : Fields} {k : String} {b : Bool} :
    (k, b) ∈ keptKeys c fs ↔ ¬ Dropped c fs k ∧ ∃ t, (k, t) ∈ fs ∧ t.isOpt = b := by
  unfold keptKeys
  simp only [List.mem_append, List.mem_map, Prod.mk.injEq]
  constructor
  · rintro (⟨k', hk', rfl, rfl⟩ | ⟨k', hk', rfl, rfl⟩)
    · obtain ⟨h1, h2⟩ := mem_filterFields.1 hk'
      exact ⟨h2, mem_sortFields_fst.1 h1⟩
    · obtain ⟨h1, h2⟩ := mem_filterFields.1 hk'
      exact ⟨h2, mem_sortFields_snd.1 h1⟩
  · rintro ⟨h2, t, hm, ho⟩
    cases b
    · left; exact ⟨k, mem_filterFields.2 ⟨mem_sortFields_fst.2 ⟨t, hm, ho⟩, h2⟩, rfl, rfl⟩
    · right; exact ⟨k, mem_filterFields.2 ⟨mem_sortFields_snd.2 ⟨t, hm, ho⟩, h2⟩, rfl, rfl⟩

theorem mem_droppedKeys {c : RenderCfg} {fs : Fields} {k : String} :
    k ∈ droppedKeys c fs ↔ k ∈ fs.keys ∧ Dropped c fs k := by
  unfold droppedKeys
  rw [List.mem_filter]
  constructor
  · rintro ⟨hk, hc⟩
    refine ⟨hk, ?_⟩
    have : k ∉ filterFields c fs fs.keys := by simpa using hc
    rw [mem_filterFields] at this
    exact Classical.byContradiction fun hn => this ⟨hk, hn⟩
  · rintro ⟨hk, hd⟩
    refine ⟨hk, ?_⟩
    have : k ∉ filterFields c fs fs.keys := fun h => (mem_filterFields.1 h).2 hd
    simpa using this

/-- frameworks that keep all fields have no dropped keys -/
theorem droppedKeys_other {c : RenderCfg} (h : c.useActual = false) (fs : Fields) : droppedKeys c fs = [] := by
  apply List.eq_nil_iff_forall_not_mem.2
  intro k hk
  have := (mem_droppedKeys.1 hk).2.1
  rw [h] at this
  cases this

/-! ## 5. the class table of a registry -/

/-- the text by which model `i` is referred to (`'Name'`, with path injection `'Root.Name'`) -/
def refText (e : RefEnv) (i : String) : Option String := (e.name? i).map (ptrRef e i)

/-- the class a quoted reference denotes: the registered model referred to by this text, with the field table of its
    rendered class -/
def clsOf (c : RenderCfg) (e : RefEnv) (g : Graph) (r : String) : Option ClsTab :=
  (g.models.find? (fun m => refText e m.idx == some r)).bind (fun m => tableOf c e m.fields)

/-- distinct registered models are referred to by distinct texts (class names — with their path prefix — are
    pairwise distinct; C03/C11's `names_unique_class`) -/
def RefsDistinct (e : RefEnv) (g : Graph) : Prop :=
  ∀ m ∈ g.models, ∀ m' ∈ g.models, ∀ r, refText e m.idx = some r → refText e m'.idx = some r → m = m'

/-- every registered model has a class table: the annotations of its kept fields exist (`genClass` does not raise
    in `metadata_to_typing`) -/
def Typed (c : RenderCfg) (e : RefEnv) (g : Graph) : Prop := ∀ m ∈ g.models, (tableOf c e m.fields).isSome = true

/-- **PydBridge** (DESIGN §8.1 hypotheses): where pydantic / sqlmodel write the actual type of a pseudo-type field
    (`int`, `float`, `bool`, `date`, …), that type — as the framework reads it — admits every string the pseudo-type's
    parser accepts -/
def PydBridge (acc : Accepts) (pyd : String → String → Json → Prop) (c : RenderCfg) : Prop :=
  ∀ k p, c.serInfo.find? (·.1 == k) = some p → ∀ s, acc k s = some true → nameSem acc pyd p.2.2 p.2.1 (.str s)

theorem clsOf_of_mem {c : RenderCfg} {e : RefEnv} {g : Graph} (hd : RefsDistinct e g) {m : Model}
    (hm : m ∈ g.models) {r : String} (hr : refText e m.idx = some r) :
    clsOf c e g r = tableOf c e m.fields := by
  unfold clsOf
  cases hf : g.models.find? (fun m => refText e m.idx == some r) with
  | none =>
    have := List.find?_eq_none.1 hf m hm
    simp [hr] at this
  | some m' =>
    have h1 := List.mem_of_find?_eq_some hf
    have h2 : refText e m'.idx = some r := by simpa using List.find?_some hf
    rw [hd m hm m' h1 r hr h2]
    rfl

theorem tyAnns_mem {c : RenderCfg} {e : RefEnv} :
    ∀ {ts : List Ty} {as : List Ann}, tyAnns c e ts = some as → ∀ t ∈ ts, ∃ a ∈ as, tyAnn c e t = some a
  | [], as, h, t, ht => by simp at ht
  | t0 :: ts, as, h, t, ht => by
    simp only [tyAnns] at h
    split at h
    · rename_i a as' ha has
      cases h
      rcases List.mem_cons.1 ht with rfl | ht
      · exact ⟨a, by simp, ha⟩
      · obtain ⟨a', ha', e'⟩ := tyAnns_mem has t ht
        exact ⟨a', List.mem_cons_of_mem _ ha', e'⟩
    · cases h

/-! ## 6. an object of the model is accepted by the class table -/

theorem inh_null {acc : Accepts} {L : ModelLookup} {v : Json} (h : Inh acc L .null v) : v = .null := by
  cases h; rfl

theorem inh_unknown {acc : Accepts} {L : ModelLookup} {v : Json} (h : Inh acc L .unknown v) : False := by
  cases h

/-- the core of `class_accepts`: given, for the field values, both the model-side fact and the annotation-side fact -/
theorem tab_accepts_core {acc : Accepts} {pyd : String → String → Json → Prop} {cls : String → Option ClsTab}
    {L : ModelLookup} {c : RenderCfg} {e : RefEnv} {fs : Fields} {tab : ClsTab} {kvs : List (String × Json)}
    (ht : tableOf c e fs = some tab)
    (h1 : ∀ kv ∈ kvs, (Fields.get? fs kv.1).isSome = true)
    (h2 : ∀ kv ∈ kvs, ∀ t, Fields.get? fs kv.1 = some t → Inh acc L t kv.2)
    (h2' : ∀ kv ∈ kvs, ∀ t, Fields.get? fs kv.1 = some t → ∀ a, tyAnn c e t = some a → AnnInh acc pyd cls a kv.2)
    (h3 : ∀ ft ∈ fs, ft.2.isOpt = false → ∃ kv ∈ kvs, kv.1 = ft.1) :
    TabAccepts acc pyd cls tab kvs := by
  unfold tableOf at ht
  obtain ⟨es, hes, rfl⟩ := Option.map_eq_some_iff.1 ht
  obtain ⟨i1, i2⟩ := annEntries_spec hes
  refine ⟨?_, ?_, ?_⟩
  · intro kv hkv
    obtain ⟨t, hg⟩ := Option.isSome_iff_exists.1 (h1 kv hkv)
    have hmem := get?_mem hg
    by_cases hd : Dropped c fs kv.1
    · right
      refine ⟨mem_droppedKeys.2 ⟨List.mem_map.2 ⟨_, hmem, rfl⟩, hd⟩, ?_⟩
      rcases hd.2 with e1 | e1
      · rw [hg] at e1
        have := h2 kv hkv t hg
        injection e1 with e1; subst e1
        exact inh_null this
      · rw [hg] at e1
        have := h2 kv hkv t hg
        injection e1 with e1; subst e1
        exact (inh_unknown this).elim
    · left
      obtain ⟨a, ha⟩ := i2 (kv.1, t.isOpt) (mem_keptKeys.2 ⟨hd, t, hmem, rfl⟩)
      exact ⟨_, ha, rfl⟩
  · intro kv hkv x hx hxe
    obtain ⟨t, hg⟩ := Option.isSome_iff_exists.1 (h1 kv hkv)
    have := (i1 x hx).2
    rw [hxe, hg] at this
    exact h2' kv hkv t hg _ this
  · intro x hx hxo
    have := (i1 x hx).1
    rw [hxo] at this
    obtain ⟨_, t, hm, ho⟩ := mem_keptKeys.1 this
    exact h3 (x.1, t) hm ho

/-! ## 7. `typing_widens` -/

/-- **typing_widens**: whatever the inferred type admits, the rendered annotation admits — for every framework
    style and every layout.  Hypotheses: the bridge where actual types are written, distinct reference texts, and
    existence of the class tables. -/
theorem typing_widens {acc : Accepts} {pyd : String → String → Json → Prop} {c : RenderCfg} {e : RefEnv} {g : Graph}
    (hb : c.useActual = true → PydBridge acc pyd c) (hd : RefsDistinct e g) (ht : Typed c e g)
    {t : Ty} {v : Json} (h : Inh acc g.look t v) :
    ∀ a, tyAnn c e t = some a → AnnInh acc pyd (clsOf c e g) a v := by
  induction h with
  | int => intro a ha; simp [tyAnn] at ha; subst ha; exact .int
  | floatF => intro a ha; simp [tyAnn] at ha; subst ha; exact .floatF
  | floatI => intro a ha; simp [tyAnn] at ha; subst ha; exact .floatI
  | bool => intro a ha; simp [tyAnn] at ha; subst ha; exact .bool
  | str => intro a ha; simp [tyAnn] at ha; subst ha; exact .str
  | null => intro a ha; simp [tyAnn] at ha; subst ha; exact .none
  | @ser k s hs =>
    intro a ha
    simp only [tyAnn] at ha
    split at ha
    · rename_i hu
      split at ha
      · rename_i k' an am hf
        cases ha
        exact .cls (hb hu k _ hf s hs)
      · cases ha
    · cases ha
      exact .cls (by unfold nameSem; rw [if_pos rfl]; exact ⟨s, rfl, hs⟩)
  | @lit vs s hs =>
    intro a ha
    simp only [tyAnn] at ha
    split at ha
    · cases ha; exact .literal hs
    · cases ha; exact .str
  | list _ ih =>
    intro a ha
    simp only [tyAnn, Option.map_eq_some_iff] at ha
    obtain ⟨a', ha', rfl⟩ := ha
    exact .list (fun x hx => ih x hx a' ha')
  | dict _ ih =>
    intro a ha
    simp only [tyAnn, Option.map_eq_some_iff] at ha
    obtain ⟨a', ha', rfl⟩ := ha
    exact .dict (fun kv hkv => ih kv hkv a' ha')
  | optNull =>
    intro a ha
    simp only [tyAnn, Option.map_eq_some_iff] at ha
    obtain ⟨a', _, rfl⟩ := ha
    exact .optNull
  | optSome _ ih =>
    intro a ha
    simp only [tyAnn, Option.map_eq_some_iff] at ha
    obtain ⟨a', ha', rfl⟩ := ha
    exact .optSome (ih a' ha')
  | @union ts t v hm _ ih =>
    intro a ha
    simp only [tyAnn] at ha
    split at ha
    · cases ha
    · simp only [Option.map_eq_some_iff] at ha
      obtain ⟨as, has, rfl⟩ := ha
      obtain ⟨a', ha', e'⟩ := tyAnns_mem has t hm
      exact .union ha' (ih a' e')
  | obj => intro a ha; simp [tyAnn] at ha
  | @ptr i fs kvs hg h1 h2 h3 ih =>
    intro a ha
    simp only [tyAnn, Option.map_eq_some_iff] at ha
    obtain ⟨n, hn, rfl⟩ := ha
    obtain ⟨m, hm, hi, hf⟩ := look_eq_some hg
    subst hi; subst hf
    have hr : refText e m.idx = some (ptrRef e m.idx n) := by simp [refText, hn]
    obtain ⟨tab, htab⟩ := Option.isSome_iff_exists.1 (ht m hm)
    have hcls := clsOf_of_mem (c := c) hd hm hr
    rw [htab] at hcls
    obtain ⟨a1, a2, a3⟩ := tab_accepts_core (acc := acc) (pyd := pyd) (cls := clsOf c e g) htab h1 h2 ih h3
    exact .fwd hcls a1 a2 a3

/-- **class_accepts**: an object that lies in the field dict of a registered model is accepted by the field table of
    the class rendered for that model -/
theorem class_accepts {acc : Accepts} {pyd : String → String → Json → Prop} {c : RenderCfg} {e : RefEnv} {g : Graph}
    (hb : c.useActual = true → PydBridge acc pyd c) (hd : RefsDistinct e g) (ht : Typed c e g)
    {m : Model} (hm : m ∈ g.models) {kvs : List (String × Json)} (h : InhFields acc g.look m.fields kvs) :
    ∃ tab, tableOf c e m.fields = some tab ∧ TabAccepts acc pyd (clsOf c e g) tab kvs := by
  obtain ⟨tab, htab⟩ := Option.isSome_iff_exists.1 (ht m hm)
  exact ⟨tab, htab, tab_accepts_core htab h.1 h.2.1
    (fun kv hkv t hg a ha => typing_widens hb hd ht (h.2.1 kv hkv t hg) a ha) h.2.2⟩

/-- a field of type exactly `Unknown` cannot occur in an object of the model at all (`Unknown` admits nothing), and a
    key whose field has type exactly `Null` carries `null` -/
theorem dropped_key_facts {acc : Accepts} {L : ModelLookup} {fs : Fields} {kvs : List (String × Json)}
    (h : InhFields acc L fs kvs) :
    (∀ kv ∈ kvs, Fields.get? fs kv.1 ≠ some .unknown) ∧ (∀ kv ∈ kvs, Fields.get? fs kv.1 = some .null → kv.2 = .null) := by
  refine ⟨fun kv hkv e => ?_, fun kv hkv e => ?_⟩
  · exact inh_unknown (h.2.1 kv hkv _ e)
  · exact inh_null (h.2.1 kv hkv _ e)

/-- an object of a model with a REQUIRED field of type exactly `Unknown` does not exist -/
theorem no_object_of_unknown_field {acc : Accepts} {L : ModelLookup} {fs : Fields} {kvs : List (String × Json)}
    {k : String} (hk : Fields.get? fs k = some .unknown) (h : InhFields acc L fs kvs) : False := by
  obtain ⟨kv, hkv, e⟩ := h.2.2 (k, .unknown) (get?_mem hk) rfl
  simp only at e
  exact (dropped_key_facts h).1 kv hkv (e ▸ hk)

/-! ## 8. sufficient conditions for the hypotheses -/

theorem typed_of_fields {c : RenderCfg} {e : RefEnv} {g : Graph}
    (h : ∀ m ∈ g.models, ∀ f ∈ m.fields, (tyAnn c e f.2).isSome = true) : Typed c e g := by
  intro m hm
  unfold tableOf
  rw [Option.isSome_map]
  apply annEntries_isSome
  intro kb hkb
  obtain ⟨_, t, hmem, _⟩ := mem_keptKeys.1 (show (kb.1, kb.2) ∈ keptKeys c m.fields from hkb)
  -- the type looked up for the key is the type of a field of the model
  have : ∃ t', Fields.get? m.fields kb.1 = some t' := by
    unfold Fields.get?
    cases hf : m.fields.find? (·.1 == kb.1) with
    | none => exact absurd (List.find?_eq_none.1 hf _ hmem) (by simp)
    | some p => exact ⟨p.2, rfl⟩
  obtain ⟨t', ht'⟩ := this
  rw [ht']
  exact h m hm (kb.1, t') (get?_mem ht')

/-- in a well-formed registry whose models all have a name in the table, class tables exist as soon as every field
    type is `typable` -/
theorem typed_of_WF {c : RenderCfg} {e : RefEnv} {g : Graph} (wf : WF g)
    (hn : ∀ m ∈ g.models, (e.name? m.idx).isSome = true)
    (hty : ∀ m ∈ g.models, ∀ f ∈ m.fields, typable c f.2 = true) : Typed c e g := by
  apply typed_of_fields
  intro m hm f hf
  rw [tyAnn_isSome_iff]
  refine ⟨hty m hm f hf, fun i hi => ?_⟩
  have hreg : i ∈ idxs g := wf.fields m hm i (mem_ptrsOfFields.2 ⟨f, hf, hi⟩)
  obtain ⟨m', hm', rfl⟩ := List.mem_map.1 hreg
  exact hn m' hm'

/-- flat layout: the reference text of a model is its recorded name -/
theorem refText_flat (names : List (String × Option String)) (i : String) :
    refText ⟨names, []⟩ i = RefEnv.name? ⟨names, []⟩ i := by
  unfold refText
  cases h : RefEnv.name? ⟨names, []⟩ i with
  | none => rfl
  | some n => simp [ptrRef_flat]

/-- flat layout: `RefsDistinct` says that registered models have pairwise distinct recorded names -/
theorem refsDistinct_flat {names : List (String × Option String)} {g : Graph} (nd : (idxs g).Nodup)
    (h : ∀ m ∈ g.models, ∀ m' ∈ g.models, ∀ r, RefEnv.name? ⟨names, []⟩ m.idx = some r →
      RefEnv.name? ⟨names, []⟩ m'.idx = some r → m.idx = m'.idx) : RefsDistinct ⟨names, []⟩ g := by
  intro m hm m' hm' r h1 h2
  rw [refText_flat] at h1 h2
  have hi := h m hm m' hm' r h1 h2
  have e1 := find?_of_mem nd hm
  have e2 := find?_of_mem nd hm'
  rw [hi, e2] at e1
  exact (Option.some.inj e1).symm

end J2M.RSound
