/-
  C08, identity of a further pass at the registry stage — part A.
  The representation invariant of literal sets (`C08P.rawK`: a non-overflowed `StringLiteral` holds a sorted,
  duplicate-free list within the limits — the model keeps a Python `set` as a sorted list) is kept by
  `optimize_type` on admissible metadata (`TwoPass.adm`), whatever the fuel and the comparison environment.
-/
import J2M.Proofs.TwoPassA
namespace J2M.ThirdPass
open J2M J2M.C08P J2M.TwoPass

/-! ## 1. `rawK` through the worklist and through `DUnion` -/

theorem rawK_union {cfg : GenCfg} {ms : List Ty} (h : rawK cfg (.union ms) = true) :
    ∀ t ∈ ms, rawK cfg t = true := by
  simp only [rawK] at h
  exact (rawKList_iff cfg ms).mp h

theorem rawK_union_of {cfg : GenCfg} {ms : List Ty} (h : ∀ t ∈ ms, rawK cfg t = true) :
    rawK cfg (.union ms) = true := by
  simp only [rawK]
  exact (rawKList_iff cfg ms).mpr h

/-- every member the worklist really folds over has sorted literal sets -/
theorem expand_rawK {cfg : GenCfg} : ∀ (fuel : Nat) (ts : List Ty), (∀ t ∈ ts, rawK cfg t = true) →
    ∀ x ∈ SplitW.expand fuel ts, rawK cfg x = true
  | 0, ts, _ => by simp
  | fuel + 1, [], _ => by simp
  | fuel + 1, t :: rest, h => by
    have hrest : ∀ u ∈ rest, rawK cfg u = true := fun u hu => h u (by simp [hu])
    by_cases hh : hidden t = true
    · cases t with
      | union ms =>
        rw [SplitW.expand_succ_union]
        apply expand_rawK fuel
        intro u hu
        rcases List.mem_append.mp hu with hu | hu
        · exact rawK_union (h _ (by simp)) u hu
        · exact hrest u hu
      | opt y =>
        cases y with
        | union ms =>
          rw [SplitW.expand_succ_opt_union]
          intro x hx
          rcases List.mem_cons.mp hx with rfl | hx
          · rfl
          · apply expand_rawK fuel _ _ x hx
            intro u hu
            rcases List.mem_append.mp hu with hu | hu
            · have h0 : rawK cfg (.opt (.union ms)) = true := h _ (by simp)
              exact rawK_union (by simpa [rawK] using h0) u hu
            · exact hrest u hu
        | _ => simp [hidden, SplitW.hidden] at hh
      | _ => simp [hidden, SplitW.hidden] at hh
    · have hh' : hidden t = false := by simpa using hh
      rw [SplitW.expand_succ_plain fuel rest hh']
      intro x hx
      rcases List.mem_cons.mp hx with rfl | hx
      · exact h _ (by simp)
      · exact expand_rawK fuel rest hrest x hx

theorem unwrapE_rawK {cfg : GenCfg} {E : List Ty} (h : ∀ x ∈ E, rawK cfg x = true) :
    ∀ t ∈ unwrapE E, rawK cfg t = true := by
  intro t ht
  rcases mem_unwrapE ht with rfl | ⟨h1, _⟩ | h1
  · rfl
  · exact h t h1
  · have := h _ h1
    simpa [rawK] using this

/-- `TwoPass.optimizeUnion_adm`, carrying `rawK` to the unwrapped expansion -/
theorem optimizeUnion_admK {cfg : GenCfg} {e : EqEnv} {f : Nat} {ms : List Ty}
    (h : ∀ t ∈ ms, adm cfg t = true) (hk : ∀ t ∈ ms, rawK cfg t = true) :
    ∃ E, AdmE cfg E ∧ (∀ t ∈ E, rawK cfg t = true) ∧
      optimizeUnion cfg e (f + 1) ms = unionBody cfg e f (E.foldl (splitStep cfg.reg) {}) := by
  obtain ⟨hE, hopt⟩ := admE_unwrap (expand_adm (cfg := cfg) (SplitW.fuelOf ms) ms h)
  refine ⟨_, hE, unwrapE_rawK (expand_rawK _ ms hk), ?_⟩
  rw [optimizeUnion_split, SplitW.splitMembers_eq, ← fold_unwrapE cfg.reg _ _ hopt]
  rfl

theorem collapse_rawK {cfg : GenCfg} (ts : List Ty) (h : ∀ t ∈ ts, rawK cfg t = true) :
    rawK cfg (collapse (mkUnionMembers cfg.lit ts)) = true := by
  have hm := mkUM_rawK ts h
  generalize mkUnionMembers cfg.lit ts = us at hm
  match us, hm with
  | [], _ => rfl
  | [x], hm => exact hm x (by simp)
  | a :: b :: rest, hm => exact rawK_union_of hm

/-- the tail of `_optimize_union` keeps `rawK` -/
theorem finish_rawK {cfg : GenCfg} {T : List Ty} {t' : Ty} (hT : ∀ t ∈ T, rawK cfg t = true)
    (h : finishOpt cfg.lit T = .ok t') : rawK cfg t' = true := by
  match T, h with
  | [], h => simp [finishOpt] at h
  | [t], h =>
    simp only [finishOpt, pure, Except.pure, Except.ok.injEq] at h
    subst h; exact hT _ (by simp)
  | a :: b :: rest, h =>
    rw [finishOpt_ge2 _ _ (by simp)] at h
    simp only [Except.ok.injEq] at h
    have hsub : ((dropUnknown (a :: b :: rest)).filter (fun t => !t.isNull)).Sublist (a :: b :: rest) :=
      (List.filter_sublist).trans (dropUnknown_sublist _)
    have hc := collapse_rawK (cfg := cfg) _ (fun t ht => hT t (hsub.subset ht))
    subst h
    split
    · simpa [rawK] using hc
    · exact hc

/-! ## 2. the induction on fuel -/

/-- the claim for a type, at fuel `f` -/
def RawKAt (cfg : GenCfg) (e : EqEnv) (f : Nat) : Prop :=
  ∀ t t', adm cfg t = true → rawK cfg t = true → optimize cfg e f t = .ok t' → rawK cfg t' = true

theorem rawK_union_step {cfg : GenCfg} {e : EqEnv} {f : Nat} (ih : ∀ f', f' < f → RawKAt cfg e f')
    {ms : List Ty} {t' : Ty} (hms : ∀ t ∈ ms, adm cfg t = true) (hmk : ∀ t ∈ ms, rawK cfg t = true)
    (h : optimizeUnion cfg e f ms = .ok t') : rawK cfg t' = true := by
  cases f with
  | zero => simp [optimizeUnion] at h
  | succ f2 =>
  obtain ⟨E, hE, hEk, heq⟩ := optimizeUnion_admK (e := e) (f := f2) hms hmk
  rw [heq] at h
  obtain ⟨Sx, To, Tl, Td, Ts, hSx, hTo, hTl, hTd, hTs, hfin⟩ := body_inv hE.plain h
  have hsubO : (stageInt (E.filter isOtherCls)).Sublist E := (stageInt_sublist _).trans List.filter_sublist
  apply finish_rawK _ hfin
  intro t ht
  simp only [List.mem_append] at ht
  rcases ht with ((h1 | h1) | h1) | h1
  · obtain ⟨m, hm, hmy⟩ := mapM_mem_inv _ _ _ hTo t h1
    have hmE := hsubO.subset hm
    have hc : isOtherCls m = true := (List.mem_filter.mp ((stageInt_sublist _).subset hm)).2
    rcases optimize_other hc (hE.noOpt m hmE) (hE.flat m hmE) (adm_not_tuple (hE.adm m hmE)) hmy with
      ⟨rfl, _⟩ | ⟨rfl, _⟩
    · exact hEk _ hmE
    · rfl
  · obtain ⟨m, hm, hmy⟩ := mapM_mem_inv _ _ _ hTl t h1
    split at hm
    · cases hm
    · simp at hm; subst hm
      cases f2 with
      | zero => simp [optimize] at hmy
      | succ f3 =>
        rw [optimize] at hmy
        simp only [bind, Except.bind] at hmy
        split at hmy
        · cases hmy
        · rename_i z hz
          simp only [pure, Except.pure, Except.ok.injEq] at hmy; subst hmy
          have hz' := ih f3 (by omega) _ z
            (mkUnion_adm (listEs E) (fun t ht => by
              have := hE.adm _ (mem_listEs ht); simpa [adm] using this))
            (mkUnion_rawK (listEs E) (fun t ht => by
              have := hEk _ (mem_listEs ht); simpa [rawK] using this)) hz
          simpa [rawK] using hz'
  · obtain ⟨m, hm, hmy⟩ := mapM_mem_inv _ _ _ hTd t h1
    split at hm
    · cases hm
    · simp at hm; subst hm
      cases f2 with
      | zero => simp [optimize] at hmy
      | succ f3 =>
        rw [optimize] at hmy
        simp only [bind, Except.bind] at hmy
        split at hmy
        · cases hmy
        · rename_i z hz
          simp only [pure, Except.pure, Except.ok.injEq] at hmy; subst hmy
          have hz' := ih f3 (by omega) _ z
            (mkUnion_adm (dictEs E) (fun t ht => by
              have := hE.adm _ (mem_dictEs ht); simpa [adm] using this))
            (mkUnion_rawK (dictEs E) (fun t ht => by
              have := hEk _ (mem_dictEs ht); simpa [rawK] using this)) hz
          simpa [rawK] using hz'
  · obtain ⟨m, hm, hmy⟩ := mapM_mem_inv _ _ _ hTs t h1
    cases f2 with
    | zero => simp [optimize] at hmy
    | succ f3 =>
      rcases hSx with rfl | rfl | ⟨k, rfl, _⟩
      · cases hm
      · simp at hm; subst hm
        simp [optimize, pure, Except.pure] at hmy; subst hmy; rfl
      · simp at hm; subst hm
        simp [optimize, pure, Except.pure] at hmy; subst hmy; rfl

theorem rawK_step {cfg : GenCfg} {e : EqEnv} {f : Nat} (ih : ∀ f', f' < f → RawKAt cfg e f') :
    RawKAt cfg e f := by
  intro t t' ht hk h
  cases f with
  | zero => simp [optimize] at h
  | succ f1 =>
  cases t with
  | int | float | bool | str | null | unknown | ptr _ | ser _ =>
    simp [optimize, pure, Except.pure] at h; subst h; rfl
  | tuple _ | obj _ => simp [adm] at ht
  | lit ov vs =>
    rw [optimize] at h
    split at h
    · simp only [pure, Except.pure, Except.ok.injEq] at h; subst h; rfl
    · simp only [pure, Except.pure, Except.ok.injEq] at h; subst h; exact hk
  | list x =>
    rw [optimize] at h
    simp only [bind, Except.bind] at h
    split at h
    · cases h
    · rename_i y hy
      simp only [pure, Except.pure, Except.ok.injEq] at h; subst h
      simp only [rawK]
      exact ih f1 (by omega) x y (by simpa [adm] using ht) (by simpa [rawK] using hk) hy
  | dict x =>
    rw [optimize] at h
    simp only [bind, Except.bind] at h
    split at h
    · cases h
    · rename_i y hy
      simp only [pure, Except.pure, Except.ok.injEq] at h; subst h
      simp only [rawK]
      exact ih f1 (by omega) x y (by simpa [adm] using ht) (by simpa [rawK] using hk) hy
  | opt x =>
    rw [optimize] at h
    simp only [bind, Except.bind] at h
    split at h
    · cases h
    · rename_i y hy
      have hy' := ih f1 (by omega) x y (adm_opt ht).2 (by simpa [rawK] using hk) hy
      split at h
      · simp only [pure, Except.pure, Except.ok.injEq] at h; subst h; exact hy'
      · simp only [pure, Except.pure, Except.ok.injEq] at h; subst h
        simpa [rawK] using hy'
  | union ms =>
    rw [optimize] at h
    exact rawK_union_step (fun f' hf' => ih f' (by omega)) (adm_union ht) (rawK_union hk) h

theorem rawK_all (cfg : GenCfg) (e : EqEnv) : ∀ f, RawKAt cfg e f := by
  intro f
  induction f using Nat.strongRecOn with
  | ind f ih => exact rawK_step ih

/-- **`optimize_type` keeps literal sets sorted** (on admissible metadata; any fuel, any environment) -/
theorem optimize_adm_rawK (cfg : GenCfg) (e : EqEnv) (f : Nat) (t t' : Ty) (ht : adm cfg t = true)
    (hk : rawK cfg t = true) (h : optimize cfg e f t = .ok t') : rawK cfg t' = true :=
  rawK_all cfg e f t t' ht hk h

end J2M.ThirdPass
