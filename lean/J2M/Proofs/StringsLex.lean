/-
  Helper lemmas for C10: `json.dumps` output read back by the Python string-literal reader.
-/
import J2M.PyStr
import J2M.Lex
namespace J2M.Strings

open J2M

/-! ## hex digits -/

theorem hexVal_hexDigit {d : Nat} (h : d < 16) : hexVal (hexDigit d) = some d := by
  have key : ∀ d : Fin 16, hexVal (hexDigit d.val) = some d.val := by decide
  exact key ⟨d, h⟩

theorem hexPad_four (n : Nat) :
    hexPad 4 n = [hexDigit (n / 16 / 16 / 16 % 16), hexDigit (n / 16 / 16 % 16),
                  hexDigit (n / 16 % 16), hexDigit (n % 16)] := by
  simp [hexPad, hexPad.go]

theorem lexGo_esc_u4 {n : Nat} (h : n < 65536) (rest : List Char) :
    lexGo .normal (u4 n ++ rest) = lexCons n (lexGo .normal rest) := by
  have e : (((n / 16 / 16 / 16 % 16 * 16 + n / 16 / 16 % 16) * 16 + n / 16 % 16) * 16 + n % 16) = n := by
    omega
  have h1 : n / 16 / 16 / 16 % 16 < 16 := Nat.mod_lt _ (by decide)
  have h2 : n / 16 / 16 % 16 < 16 := Nat.mod_lt _ (by decide)
  have h3 : n / 16 % 16 < 16 := Nat.mod_lt _ (by decide)
  have h4 : n % 16 < 16 := Nat.mod_lt _ (by decide)
  have hle : n ≤ 1114111 := by omega
  simp only [u4, hexPad_four, List.cons_append, List.nil_append, lexGo,
    hexVal_hexDigit h1, hexVal_hexDigit h2, hexVal_hexDigit h3, hexVal_hexDigit h4]
  simp only [Nat.zero_mul, Nat.zero_add, e]
  simp [hle]


theorem hexPad_two (n : Nat) : hexPad 2 n = [hexDigit (n / 16 % 16), hexDigit (n % 16)] := by
  simp [hexPad, hexPad.go]

/-- `\xHH` as `repr` writes it -/
theorem lexGo_esc_x2 {n : Nat} (h : n < 256) (rest : List Char) :
    lexGo .normal ('\\' :: 'x' :: hexPad 2 n ++ rest) = lexCons n (lexGo .normal rest) := by
  have e : n / 16 % 16 * 16 + n % 16 = n := by omega
  have h1 : n / 16 % 16 < 16 := Nat.mod_lt _ (by decide)
  have h2 : n % 16 < 16 := Nat.mod_lt _ (by decide)
  have hle : n ≤ 1114111 := by omega
  simp only [hexPad_two, List.cons_append, List.nil_append, lexGo, hexVal_hexDigit h1, hexVal_hexDigit h2]
  simp only [Nat.zero_mul, Nat.zero_add, e]
  simp [hle]

theorem hexPad_eight (n : Nat) :
    hexPad 8 n = [hexDigit (n / 16 / 16 / 16 / 16 / 16 / 16 / 16 % 16), hexDigit (n / 16 / 16 / 16 / 16 / 16 / 16 % 16),
                  hexDigit (n / 16 / 16 / 16 / 16 / 16 % 16), hexDigit (n / 16 / 16 / 16 / 16 % 16),
                  hexDigit (n / 16 / 16 / 16 % 16), hexDigit (n / 16 / 16 % 16),
                  hexDigit (n / 16 % 16), hexDigit (n % 16)] := by
  simp [hexPad, hexPad.go]

/-- `\UHHHHHHHH` as `repr` writes it (any scalar value) -/
theorem lexGo_esc_U8 {n : Nat} (h : n ≤ 0x10FFFF) (rest : List Char) :
    lexGo .normal ('\\' :: 'U' :: hexPad 8 n ++ rest) = lexCons n (lexGo .normal rest) := by
  have e : (((((((n / 16 / 16 / 16 / 16 / 16 / 16 / 16 % 16) * 16 + n / 16 / 16 / 16 / 16 / 16 / 16 % 16) * 16 +
      n / 16 / 16 / 16 / 16 / 16 % 16) * 16 + n / 16 / 16 / 16 / 16 % 16) * 16 + n / 16 / 16 / 16 % 16) * 16 +
      n / 16 / 16 % 16) * 16 + n / 16 % 16) * 16 + n % 16 = n := by omega
  have hd : ∀ m : Nat, m % 16 < 16 := fun m => Nat.mod_lt _ (by decide)
  have hle : n ≤ 1114111 := h
  simp only [hexPad_eight, List.cons_append, List.nil_append, lexGo, hexVal_hexDigit (hd _)]
  simp only [Nat.zero_mul, Nat.zero_add, e]
  simp [hle]

/-! ## one character -/

/-- a character that `json.dumps` leaves as it is reads back as itself -/
theorem lexGo_plain {c : Char} (h1 : c ≠ '"') (h2 : c ≠ '\\') (h3 : ¬ c.toNat < 32) (rest : List Char) :
    lexGo .normal (c :: rest) = lexCons c.toNat (lexGo .normal rest) := by
  have hn : c ≠ '\n' := by intro h; subst h; exact h3 (by decide)
  have hr : c ≠ '\r' := by intro h; subst h; exact h3 (by decide)
  have h0 : c.toNat ≠ 0 := by omega
  simp [lexGo, h1, h2, hn, hr, h0]

/-- the escapes `json.dumps` writes are Python escapes with the same meaning -/
theorem lexGo_jsonEscChar (ascii : Bool) (c : Char) (hc : ascii = true → c.toNat < 0x10000)
    (rest : List Char) :
    lexGo .normal (jsonEscChar ascii c ++ rest) = lexCons c.toNat (lexGo .normal rest) := by
  by_cases q1 : c = '"'
  · subst q1; simp [jsonEscChar, lexGo]
  by_cases q2 : c = '\\'
  · subst q2; simp [jsonEscChar, lexGo]
  by_cases q3 : c = '\n'
  · subst q3; simp [jsonEscChar, lexGo]
  by_cases q4 : c = '\r'
  · subst q4; simp [jsonEscChar, lexGo]
  by_cases q5 : c = '\t'
  · subst q5; simp [jsonEscChar, lexGo]
  by_cases q6 : c.toNat = 8
  · simp [jsonEscChar, lexGo, q1, q2, q3, q4, q5, q6]
  by_cases q7 : c.toNat = 12
  · simp [jsonEscChar, lexGo, q1, q2, q3, q4, q5, q7]
  by_cases q8 : c.toNat < 32
  · have : jsonEscChar ascii c = u4 c.toNat := by
      simp [jsonEscChar, q1, q2, q3, q4, q5, q6, q7, q8]
    rw [this]; exact lexGo_esc_u4 (by omega) rest
  by_cases q9 : c.toNat < 127 ∨ c.toNat = 127
  · have : jsonEscChar ascii c = [c] := by
      simp only [jsonEscChar, q1, q2, q3, q4, q5, q6, q7, q8, q9, if_true, if_false]
    rw [this]; exact lexGo_plain q1 q2 q8 rest
  cases ascii with
  | false =>
    have : jsonEscChar false c = [c] := by
      simp only [jsonEscChar, q1, q2, q3, q4, q5, q6, q7, q8, q9, if_false]
      simp
    rw [this]; exact lexGo_plain q1 q2 q8 rest
  | true =>
    have hlt := hc rfl
    have : jsonEscChar true c = u4 c.toNat := by
      simp only [jsonEscChar, q1, q2, q3, q4, q5, q6, q7, q8, q9, if_false]
      simp [hlt]
    rw [this]; exact lexGo_esc_u4 hlt rest

/-! ## whole tokens -/

theorem lexGo_body (ascii : Bool) (s : List Char) (hs : ascii = true → ∀ c ∈ s, c.toNat < 0x10000)
    (rest : List Char) :
    lexGo .normal (s.flatMap (jsonEscChar ascii) ++ '"' :: rest) = some (s.map Char.toNat, rest) := by
  induction s with
  | nil => simp [lexGo]
  | cons c cs ih =>
    have hc : ascii = true → c.toNat < 0x10000 := fun h => hs h c (by simp)
    have hcs : ascii = true → ∀ c ∈ cs, c.toNat < 0x10000 := fun h c' hc' => hs h c' (by simp [hc'])
    rw [List.flatMap_cons, List.append_assoc, lexGo_jsonEscChar ascii c hc, ih hcs]
    simp [lexCons]

/-- a `json.dumps` token followed by anything: the reader returns the string and that rest -/
theorem lexStrTok_jsonDumps (ascii : Bool) (s : List Char)
    (hs : ascii = true → ∀ c ∈ s, c.toNat < 0x10000) (rest : List Char) :
    lexStrTok (jsonDumpsChars ascii s ++ rest) = some (s.map Char.toNat, rest) := by
  simp only [jsonDumpsChars, List.cons_append, List.append_assoc, List.nil_append, lexStrTok]
  exact lexGo_body ascii s hs rest

theorem pyLexStr_jsonDumps (ascii : Bool) (s : List Char)
    (hs : ascii = true → ∀ c ∈ s, c.toNat < 0x10000) :
    pyLexStr (jsonDumpsChars ascii s) = some (s.map Char.toNat) := by
  have := lexStrTok_jsonDumps ascii s hs []
  rw [List.append_nil] at this
  simp [pyLexStr, this]


/-! ## token lists: the inside of `Literal[...]` -/

theorem length_jsonDumpsChars_pos (ascii : Bool) (s : List Char) : 0 < (jsonDumpsChars ascii s).length := by
  simp [jsonDumpsChars]

theorem length_le_intercalate (sep : List Char) (ts : List (List Char)) (h : ∀ t ∈ ts, 0 < t.length) :
    ts.length ≤ (sep.intercalate ts).length := by
  induction ts with
  | nil => simp
  | cons a l ih =>
    cases l with
    | nil =>
      have := h a (by simp)
      simp [List.intercalate]; omega
    | cons b l =>
      have ha := h a (by simp)
      have ih' := ih (fun t ht => h t (by simp [ht]))
      have e : sep.intercalate (a :: b :: l) = a ++ sep ++ sep.intercalate (b :: l) := by
        simp [List.intercalate]
      rw [e]; simp only [List.length_append, List.length_cons] at *; omega

theorem lexArgsGo_join (xs : List (List Char)) (hne : xs ≠ []) :
    ∀ fuel, xs.length ≤ fuel →
    lexArgsGo fuel ([',', ' '].intercalate (xs.map (jsonDumpsChars false)))
      = some (xs.map (·.map Char.toNat)) := by
  induction xs with
  | nil => exact absurd rfl hne
  | cons a l ih =>
    intro fuel hf
    cases fuel with
    | zero => simp at hf
    | succ fuel =>
      cases l with
      | nil =>
        have := lexStrTok_jsonDumps false a (by simp) []
        rw [List.append_nil] at this
        simp [List.intercalate, lexArgsGo, this]
      | cons b l =>
        have e : [',', ' '].intercalate ((a :: b :: l).map (jsonDumpsChars false))
            = jsonDumpsChars false a ++ (',' :: ' ' :: [',', ' '].intercalate ((b :: l).map (jsonDumpsChars false))) := by
          simp [List.intercalate]
        have ih' := ih (by simp) fuel (by simp at hf ⊢; omega)
        rw [e]
        simp only [lexArgsGo, lexStrTok_jsonDumps false a (by simp), ih']
        simp

theorem lexLiteralArgs_join (xs : List (List Char)) (hne : xs ≠ []) :
    lexLiteralArgs ([',', ' '].intercalate (xs.map (jsonDumpsChars false)))
      = some (xs.map (·.map Char.toNat)) := by
  unfold lexLiteralArgs
  apply lexArgsGo_join xs hne
  have := length_le_intercalate [',', ' '] (xs.map (jsonDumpsChars false))
    (by intro t ht; simp only [List.mem_map] at ht; obtain ⟨s, _, rfl⟩ := ht
        exact length_jsonDumpsChars_pos false s)
  simpa using this

end J2M.Strings
