/-
  C08 at the registry stage (repaired `_optimize_union`: members of a union hidden under an `Optional` member
  take part in the category split).  Definitions:
  * `adm`  — admissible registry-stage metadata (what a field of a registered model may hold while
             `merge_models` runs): no inline dict, no tuple, registered pseudo-types, no `Optional` directly inside
             `Optional`.  Any nesting of unions, `Optional` members, `null`/`Unknown` members is allowed.
  * `out`  — "one pass from normal": the shape of every `optimize_type` result on admissible input.  Unions are
             flat, without `Optional`/`null` members, with at most one `int`, one `Unknown`, one list, one dict, one
             (within-limits) literal; what may remain: `int` next to `float`, an `Unknown` member, several string
             types.  No condition mentions hash strings, so `out` is invariant under pointer retargeting.
  and the skeleton `body_inv` of `_optimize_union` on an expanded, `Optional`-free member list.
-/
import J2M.Proofs.OptimizeNFC
namespace J2M.TwoPass
open J2M J2M.C08P

/-! ## 1. the two classes -/

mutual
/-- admissible registry-stage metadata -/
def adm (cfg : GenCfg) : Ty → Bool
  | .ser k => cfg.reg.types.contains k
  | .list t | .dict t => adm cfg t
  | .opt t => !t.isOpt && adm cfg t
  | .union ts => admList cfg ts
  | .lit ov vs => litRawOk cfg.lit ov vs
  | .tuple _ | .obj _ => false
  | _ => true
def admList (cfg : GenCfg) : List Ty → Bool
  | [] => true
  | t :: ts => adm cfg t && admList cfg ts
end

/-- the union-level conditions of `out` -/
def outU (ms : List Ty) : Bool :=
  !ms.isEmpty &&
  ms.all (fun t => !t.isUnion && !t.isOpt && !t.isNull) &&
  decide ((ms.filter Ty.isInt).length ≤ 1) && decide ((ms.filter Ty.isUnknown).length ≤ 1) &&
  decide ((ms.filter Ty.isList).length ≤ 1) && decide ((ms.filter Ty.isDict).length ≤ 1) &&
  decide ((ms.filter Ty.isLit).length ≤ 1)

mutual
/-- one pass from normal -/
def out (cfg : GenCfg) : Ty → Bool
  | .ser k => cfg.reg.types.contains k
  | .lit ov vs => !ov && litRawOk cfg.lit false vs
  | .list t | .dict t => out cfg t
  | .opt t => !t.isOpt && out cfg t
  | .union ts => outU ts && outList cfg ts
  | .tuple _ | .obj _ => false
  | _ => true
def outList (cfg : GenCfg) : List Ty → Bool
  | [] => true
  | t :: ts => out cfg t && outList cfg ts
end

theorem admList_iff (cfg : GenCfg) (ts : List Ty) : admList cfg ts = true ↔ ∀ t ∈ ts, adm cfg t = true := by
  induction ts <;> simp_all [admList]

theorem outList_iff (cfg : GenCfg) (ts : List Ty) : outList cfg ts = true ↔ ∀ t ∈ ts, out cfg t = true := by
  induction ts <;> simp_all [outList]

/-- the union-level conditions, as a structure -/
structure OutU (ms : List Ty) : Prop where
  ne : ms ≠ []
  flat : ∀ t ∈ ms, t.isUnion = false
  noOpt : ∀ t ∈ ms, t.isOpt = false
  noNull : ∀ t ∈ ms, t.isNull = false
  oneInt : (ms.filter Ty.isInt).length ≤ 1
  oneUnknown : (ms.filter Ty.isUnknown).length ≤ 1
  oneList : (ms.filter Ty.isList).length ≤ 1
  oneDict : (ms.filter Ty.isDict).length ≤ 1
  oneLit : (ms.filter Ty.isLit).length ≤ 1

theorem outU_iff (ms : List Ty) : outU ms = true ↔ OutU ms := by
  unfold outU
  simp only [Bool.and_eq_true, Bool.not_eq_true', List.isEmpty_eq_false_iff, List.all_eq_true,
    decide_eq_true_eq]
  constructor
  · rintro ⟨⟨⟨⟨⟨⟨h0, h1⟩, h2⟩, h3⟩, h4⟩, h5⟩, h6⟩
    exact ⟨h0, fun t ht => (h1 t ht).1.1, fun t ht => (h1 t ht).1.2, fun t ht => (h1 t ht).2, h2, h3, h4, h5, h6⟩
  · intro h
    exact ⟨⟨⟨⟨⟨⟨h.ne, fun t ht => ⟨⟨h.flat t ht, h.noOpt t ht⟩, h.noNull t ht⟩⟩, h.oneInt⟩, h.oneUnknown⟩,
      h.oneList⟩, h.oneDict⟩, h.oneLit⟩

/-- a literal that is `out`: not overflowed, non-empty, within the limits -/
theorem out_lit {cfg : GenCfg} {o : Bool} {vs : List String} (h : out cfg (.lit o vs) = true) :
    o = false ∧ vs ≠ [] ∧ goodLits cfg.lit vs := by
  simp only [out, Bool.and_eq_true, Bool.not_eq_true'] at h
  exact ⟨h.1, litRawOk_good h.2⟩

theorem out_lit_of {cfg : GenCfg} {vs : List String} (hne : vs ≠ []) (hg : goodLits cfg.lit vs) :
    out cfg (.lit false vs) = true := by
  simp only [out, litRawOk, Bool.not_false, Bool.false_eq_true, ↓reduceIte, gt_iff_lt, ge_iff_le, Bool.true_and,
    Bool.and_eq_true, Bool.not_eq_true', List.isEmpty_eq_false_iff, Bool.or_eq_false_iff,
    decide_eq_false_iff_not, Nat.not_lt, List.any_eq_false, decide_eq_true_eq, Nat.not_le]
  exact ⟨hne, hg.1, hg.2⟩

theorem out_union {cfg : GenCfg} {ms : List Ty} (h : out cfg (.union ms) = true) :
    OutU ms ∧ ∀ t ∈ ms, out cfg t = true := by
  simp only [out, Bool.and_eq_true] at h
  exact ⟨(outU_iff _).mp h.1, (outList_iff cfg ms).mp h.2⟩

mutual
theorem out_adm (cfg : GenCfg) : ∀ t, out cfg t = true → adm cfg t = true
  | .int, _ | .float, _ | .bool, _ | .str, _ | .null, _ | .unknown, _ | .ptr _, _ => by simp [adm]
  | .lit o vs, h => by
    simp only [out, Bool.and_eq_true, Bool.not_eq_true'] at h
    obtain ⟨rfl, h2⟩ := h
    simpa [adm] using h2
  | .ser k, h => by simpa [out, adm] using h
  | .list t, h | .dict t, h => by
    simp only [out] at h; simp only [adm]; exact out_adm cfg t h
  | .opt t, h => by
    simp only [out, Bool.and_eq_true] at h
    simp only [adm, Bool.and_eq_true]; exact ⟨h.1, out_adm cfg t h.2⟩
  | .union ts, h => by
    simp only [out, Bool.and_eq_true] at h
    simp only [adm]; exact outList_admList cfg ts h.2
  | .tuple _, h | .obj _, h => by simp [out] at h
theorem outList_admList (cfg : GenCfg) : ∀ ts, outList cfg ts = true → admList cfg ts = true
  | [], _ => by simp [admList]
  | t :: ts, h => by
    simp only [outList, Bool.and_eq_true] at h
    simp only [admList, Bool.and_eq_true]; exact ⟨out_adm cfg t h.1, outList_admList cfg ts h.2⟩
end

/-! ## 2. leaves of the "other" category -/

/-- `optimize_type` on a member of the "other" category that is not `Optional`, union, tuple: the identity,
    except for an overflowed/empty literal (which becomes `str`) -/
theorem optimize_other {cfg : GenCfg} {e : EqEnv} {f : Nat} {m y : Ty} (hc : isOtherCls m = true)
    (ho : m.isOpt = false) (hu : m.isUnion = false) (ht : m.isTuple = false)
    (h : optimize cfg e f m = .ok y) : (y = m ∧ m.isBadLit = false) ∨ (y = .str ∧ m.isBadLit = true) := by
  cases f with
  | zero => simp [optimize] at h
  | succ f =>
    cases m with
    | int | float | bool | null | unknown | ptr _ | ser _ =>
      simp [optimize, pure, Except.pure] at h; subst h; exact Or.inl ⟨rfl, rfl⟩
    | lit o vs =>
      rw [optimize] at h
      split at h
      · rename_i hb
        simp only [pure, Except.pure, Except.ok.injEq] at h; subst h
        exact Or.inr ⟨rfl, by simpa [Ty.isBadLit] using hb⟩
      · rename_i hb
        simp only [pure, Except.pure, Except.ok.injEq] at h; subst h
        exact Or.inl ⟨rfl, by simpa [Ty.isBadLit] using hb⟩
    | str | list _ | dict _ | obj _ => simp [isOtherCls, Ty.cls] at hc
    | opt _ => simp [Ty.isOpt] at ho
    | union _ => simp [Ty.isUnion] at hu
    | tuple _ => simp [Ty.isTuple] at ht

/-! ## 3. the skeleton of `_optimize_union` on an expanded, `Optional`-free, dict-free member list -/

/-- what `body_inv` needs of the (expanded) member list -/
structure Plain (cfg : GenCfg) (E : List Ty) : Prop where
  noOpt : ∀ t ∈ E, t.isOpt = false
  noObj : ∀ t ∈ E, t.isObj = false
  reg : ∀ t ∈ E, ∀ k, t = .ser k → cfg.reg.types.contains k = true

theorem objFs_nil {E : List Ty} (h : ∀ t ∈ E, t.isObj = false) : objFs E = [] := by
  unfold objFs
  rw [List.filterMap_eq_nil_iff]
  intro t ht
  have := h t ht
  cases t <;> simp_all [Ty.isObj]

/-- `_optimize_union` on a plain member list, in stages: the surviving "other" members, at most one rebuilt
    list, one rebuilt dict, one string type, each mapped through `optimize_type`, then the tail -/
theorem body_inv {cfg : GenCfg} {e : EqEnv} {f : Nat} {E : List Ty} {t' : Ty} (hE : Plain cfg E)
    (h : unionBody cfg e f (E.foldl (splitStep cfg.reg) {}) = .ok t') :
    ∃ Sx To Tl Td Ts,
      (Sx = [] ∨ Sx = [.str] ∨ ∃ k, Sx = [.ser k] ∧ cfg.reg.types.contains k = true) ∧
      (stageInt (E.filter isOtherCls)).mapM (optimize cfg e f) = .ok To ∧
      (if (listEs E).isEmpty then [] else [Ty.list (mkUnion cfg.lit (listEs E))]).mapM (optimize cfg e f) = .ok Tl ∧
      (if (dictEs E).isEmpty then [] else [Ty.dict (mkUnion cfg.lit (dictEs E))]).mapM (optimize cfg e f) = .ok Td ∧
      Sx.mapM (optimize cfg e f) = .ok Ts ∧
      finishOpt cfg.lit (To ++ Tl ++ Td ++ Ts) = .ok t' := by
  rw [split_optFree cfg.reg E {} (fun t ht => ⟨hE.noOpt t ht, hE.reg t ht⟩)] at h
  unfold unionBody at h
  simp only [List.nil_append, bind, Except.bind, objFs_nil hE.noObj] at h
  simp only [stageMerge, List.isEmpty_nil, ↓reduceIte, pure, Except.pure] at h
  split at h
  · cases h
  · rename_i o4 hstr
    split at h
    · cases h
    · rename_i types hmap
      rw [stageList_eq, stageDict_eq] at hstr
      have hSreg : ∀ k, Ty.ser k ∈ E.filter isStrCls → cfg.reg.types.contains k = true := by
        intro k hk
        exact hE.reg _ (List.mem_filter.mp hk).1 k rfl
      obtain ⟨Sx, ho4, hSx⟩ : ∃ Sx, o4 = stageInt (E.filter isOtherCls) ++
            (if (listEs E).isEmpty then [] else [.list (mkUnion cfg.lit (listEs E))])
            ++ (if (dictEs E).isEmpty then [] else [.dict (mkUnion cfg.lit (dictEs E))]) ++ Sx ∧
            (Sx = [] ∨ Sx = [.str] ∨ ∃ k, Sx = [.ser k] ∧ cfg.reg.types.contains k = true) := by
        rcases stageStr_inv_reg hSreg hstr with h1 | h1 | ⟨k, h1, hk⟩
        · exact ⟨[], by simpa using h1, Or.inl rfl⟩
        · exact ⟨[.str], h1, Or.inr (Or.inl rfl)⟩
        · exact ⟨[.ser k], h1, Or.inr (Or.inr ⟨k, rfl, hk⟩)⟩
      subst ho4
      obtain ⟨T4, Ts, hT4, hTs, rfl⟩ := mapM_append_inv _ _ _ _ hmap
      obtain ⟨T3, Td, hT3, hTd, rfl⟩ := mapM_append_inv _ _ _ _ hT4
      obtain ⟨To, Tl, hTo, hTl, rfl⟩ := mapM_append_inv _ _ _ _ hT3
      exact ⟨Sx, To, Tl, Td, Ts, hSx, hTo, hTl, hTd, hTs, h⟩

end J2M.TwoPass
