/-
  The lax reading of required fields with a *refined* "this field may be absent" test.

  `Ty.optLike` (Proofs/InhMerge.lean: a `DOptional`, or a `DUnion` with a `DOptional` member) is too coarse
  since `_optimize_union` splices the unions hidden under `Optional` members: `Union[Optional[Union[]]]` is
  `Ty.optLike`, yet it is optimised to `Null`, not to a `DOptional`.  The refined test `Ty.optLikeS` asks, for a
  `DUnion`, for a `DOptional` member, at least two members and no direct `DUnion` member — what
  `merge_field_sets` really builds (`mergeNew`), invariant under `==`, and always optimised to a `DOptional`.

  This file transports the lax reading along `merge_field_sets` for any test `ρ` with these three properties
  (`RhoOK`), generically in the class of field types: the semantic facts about the inner loop are taken as
  hypotheses (`FoldOK`) and supplied by `mergeFold_spec` (Proofs/InhMerge.lean) or `mergeFold_specP`
  (Proofs/RegistryGenMerge.lean).
-/
import J2M.Proofs.InhMerge
namespace J2M

/-! ## the refined test -/

/-- a `DOptional`, or a `DUnion` with a `DOptional` member, at least two members and no `DUnion` member -/
def Ty.optLikeS (t : Ty) : Bool :=
  t.isOpt || (match t with
    | .union ts => ts.any Ty.isOpt && decide (2 ≤ ts.length) && ts.all (fun u => !u.isUnion)
    | _ => false)

theorem Ty.optLikeS_of_isOpt {t : Ty} (h : t.isOpt = true) : t.optLikeS = true := by
  simp [Ty.optLikeS, h]

@[simp] theorem Ty.optLikeS_opt {t : Ty} : (Ty.opt t).optLikeS = true := Ty.optLikeS_of_isOpt rfl

theorem Ty.optLikeS_union {ts : List Ty} : (Ty.union ts).optLikeS = true ↔
    (∃ m ∈ ts, m.isOpt = true) ∧ 2 ≤ ts.length ∧ ∀ u ∈ ts, u.isUnion = false := by
  simp [Ty.optLikeS, Ty.isOpt, and_assoc]

theorem Ty.optLikeS_eq_isOpt {t : Ty} (h : t.isUnion = false) : t.optLikeS = t.isOpt := by
  cases t <;> first | rfl | simp [Ty.isUnion] at h

theorem Ty.optLike_of_optLikeS {t : Ty} (h : t.optLikeS = true) : t.optLike = true := by
  cases t with
  | union ts => exact Ty.optLike_union.2 (Ty.optLikeS_union.1 h).1
  | opt x => exact Ty.optLike_opt
  | _ => simp [Ty.optLikeS, Ty.isOpt] at h

theorem Ty.isOpt_false_of_optLikeS {t : Ty} (h : t.optLikeS = false) : t.isOpt = false := by
  cases ho : t.isOpt with
  | false => rfl
  | true => rw [Ty.optLikeS_of_isOpt ho] at h; cases h

/-- the degenerate type that separates the two tests -/
example : (Ty.union [.opt (.union [])]).optLike = true ∧ (Ty.union [.opt (.union [])]).optLikeS = false := by
  decide

example : (Ty.union [.opt .str, .int]).optLikeS = true := by decide

/-! ## what a test must satisfy -/

structure RhoOK (ρ : Ty → Bool) : Prop where
  opt : ∀ t : Ty, t.isOpt = true → ρ t = true
  eq : ∀ (e : EqEnv) (a b : Ty), e.eq a b = .ok true → ρ a = ρ b
  mergeNew : ∀ (c : LitCfg) (a b : Ty), ρ a = true ∨ ρ b = true → ρ (mergeNew c a b) = true

theorem rhoOK_optLike : RhoOK Ty.optLike :=
  ⟨fun _ h => Ty.optLike_of_isOpt h, fun _ _ _ h => (EqEnv.eq_optLike h).2, fun _ _ _ h => optLike_mergeNew h⟩

/-! ### `Ty.optLikeS` is such a test -/

theorem length_insertByKey {α} (key : α → String) (x : α) (ys : List α) :
    (insertByKey key x ys).length = ys.length + 1 := by
  induction ys with
  | nil => simp [insertByKey]
  | cons y ys ih =>
    unfold insertByKey
    split
    · simp
    · simp [ih]

theorem length_sortByKey {α} (key : α → String) (xs : List α) : (sortByKey key xs).length = xs.length := by
  have : ∀ (xs init : List α),
      (xs.foldl (fun acc x => insertByKey key x acc) init).length = init.length + xs.length := by
    intro xs
    induction xs with
    | nil => simp
    | cons x xs ih => intro init; simp only [List.foldl_cons, ih, length_insertByKey, List.length_cons]; omega
  simpa [sortByKey] using this xs []

theorem pyEq_isUnion {so ms g} (fuel : Nat) (x y : Ty) (h : pyEq so ms g fuel x y = some true) :
    x.isUnion = y.isUnion := by
  cases fuel with
  | zero => simp [pyEq] at h
  | succ n => cases x <;> cases y <;> first | rfl | (simp [pyEq] at h; done)

theorem pyEq_isOpt' {so ms g} (fuel : Nat) (x y : Ty) (h : pyEq so ms g fuel x y = some true) :
    x.isOpt = y.isOpt := by
  cases fuel with
  | zero => simp [pyEq] at h
  | succ n => cases x <;> cases y <;> first | rfl | (simp [pyEq] at h; done)

theorem pyEq_optLikeS {so ms g} (fuel : Nat) (a b : Ty) (h : pyEq so ms g fuel a b = some true) :
    a.optLikeS = b.optLikeS := by
  cases fuel with
  | zero => simp [pyEq] at h
  | succ fuel =>
    cases a <;> cases b <;> try (first | rfl | (simp [pyEq] at h; done))
    case union.union xs ys =>
      rw [pyEq_union_eq] at h
      obtain ⟨hlen, hall⟩ := eqListF_true h
      have hlen' : xs.length = ys.length := by
        simpa [sortedMembers, length_sortByKey] using hlen
      have hiff : (Ty.union xs).optLikeS = true ↔ (Ty.union ys).optLikeS = true := by
        rw [Ty.optLikeS_union, Ty.optLikeS_union]
        constructor
        · rintro ⟨⟨m, hm, ho⟩, h2, hflat⟩
          refine ⟨?_, by omega, ?_⟩
          · obtain ⟨y, hy⟩ := exists_zip_left (sortedMembers so ms xs) (sortedMembers so ms ys) (by omega) m
              (mem_sortByKey.2 hm)
            have := pyEq_isOpt' _ _ _ (hall _ hy)
            exact ⟨y, mem_sortByKey.1 (List.of_mem_zip hy).2, by rw [← this]; exact ho⟩
          · intro u hu
            obtain ⟨x, hx⟩ := exists_zip_right (sortedMembers so ms xs) (sortedMembers so ms ys) (by omega) u
              (mem_sortByKey.2 hu)
            have := pyEq_isUnion _ _ _ (hall _ hx)
            rw [← this]; exact hflat x (mem_sortByKey.1 (List.of_mem_zip hx).1)
        · rintro ⟨⟨m, hm, ho⟩, h2, hflat⟩
          refine ⟨?_, by omega, ?_⟩
          · obtain ⟨x, hx⟩ := exists_zip_right (sortedMembers so ms xs) (sortedMembers so ms ys) (by omega) m
              (mem_sortByKey.2 hm)
            have := pyEq_isOpt' _ _ _ (hall _ hx)
            exact ⟨x, mem_sortByKey.1 (List.of_mem_zip hx).1, by rw [this]; exact ho⟩
          · intro u hu
            obtain ⟨y, hy⟩ := exists_zip_left (sortedMembers so ms xs) (sortedMembers so ms ys) (by omega) u
              (mem_sortByKey.2 hu)
            have := pyEq_isUnion _ _ _ (hall _ hy)
            rw [this]; exact hflat y (mem_sortByKey.1 (List.of_mem_zip hy).2)
      cases h1 : (Ty.union xs).optLikeS <;> cases h2 : (Ty.union ys).optLikeS <;> simp_all

theorem EqEnv.eq_optLikeS {e : EqEnv} {a b : Ty} (h : e.eq a b = .ok true) : a.optLikeS = b.optLikeS := by
  unfold EqEnv.eq at h
  split at h
  · rename_i r hr
    simp only [pure, Except.pure, Except.ok.injEq] at h
    subst h
    exact pyEq_optLikeS _ _ _ hr
  · cases h

theorem optLikeS_collapse {us : List Ty} (h : ∃ u ∈ us, u.isOpt = true) (hflat : ∀ u ∈ us, u.isUnion = false) :
    (collapseU us).optLikeS = true := by
  unfold collapseU
  split
  · obtain ⟨u, hu, ho⟩ := h
    simp at hu; subst hu; exact Ty.optLikeS_of_isOpt ho
  · rename_i hne
    refine Ty.optLikeS_union.2 ⟨h, ?_, hflat⟩
    obtain ⟨u, hu, _⟩ := h
    match us, hu, hne with
    | [x], _, hne => exact absurd rfl (hne x)
    | _ :: _ :: _, _, _ => simp

theorem optLikeS_mergeNew {c : LitCfg} {a b : Ty} (h : a.optLikeS = true ∨ b.optLikeS = true) :
    (mergeNew c a b).optLikeS = true := by
  have : ∃ m ∈ a.unionMembers ++ b.unionMembers, m.isOpt = true := by
    rcases h with h | h
    · obtain ⟨m, hm, ho⟩ := Ty.optLike_iff.1 (Ty.optLike_of_optLikeS h); exact ⟨m, List.mem_append_left _ hm, ho⟩
    · obtain ⟨m, hm, ho⟩ := Ty.optLike_iff.1 (Ty.optLike_of_optLikeS h); exact ⟨m, List.mem_append_right _ hm, ho⟩
  obtain ⟨m, hm, ho⟩ := this
  have hnu : m.isUnion = false := by cases m <;> first | rfl | simp [Ty.isOpt] at ho
  refine optLikeS_collapse (mkUnionMembers_opt (mem_flattenUnion_of_mem hm hnu) ho) ?_
  exact mkUnionMembers_forall (P := fun t => t.isUnion = false) flattenUnion_not_union rfl (fun _ _ => rfl)

theorem rhoOK_optLikeS : RhoOK Ty.optLikeS :=
  ⟨fun _ h => Ty.optLikeS_of_isOpt h, fun _ _ _ h => EqEnv.eq_optLikeS h, fun _ _ _ h => optLikeS_mergeNew h⟩

/-! ## one incoming `(name, field)`, syntactically -/

theorem mergeOne_rho {ρ : Ty → Bool} (hρ : RhoOK ρ) {c : LitCfg} {e : EqEnv} {first : Bool}
    {F F' : Fields} {name : String} {field : Ty} (h : mergeOne c e first F name field = .ok F') :
    (∀ k, k ≠ name → Fields.get? F' k = Fields.get? F k) ∧
    ∃ t', Fields.get? F' name = some t' ∧
      (∀ orig, Fields.get? F name = some orig → ρ orig = true → ρ t' = true) ∧
      (ρ field = true → ρ t' = true) := by
  have hset : ∀ t, ∀ k, k ≠ name → Fields.get? (F.set name t) k = Fields.get? F k := by
    intro t k hk
    have : ¬ name = k := fun e => hk e.symm
    simp [Fields.get?_set, this]
  cases hg : Fields.get? F name with
  | none =>
    rw [mergeOne_none hg, Except.pure_eq_ok] at h
    subst h
    refine ⟨hset _, (if first || field.isOpt then field else .opt field), by simp [Fields.get?_set],
      fun orig ho => by simp at ho, ?_⟩
    intro hf
    split
    · exact hf
    · exact hρ.opt _ rfl
  | some orig =>
    cases hio : orig.isOpt with
    | true =>
      obtain ⟨oi, rfl⟩ : ∃ oi, orig = .opt oi := by
        cases orig <;> simp [Ty.isOpt] at hio; exact ⟨_, rfl⟩
      rw [mergeOne_some_opt hg, Except.bind_eq_ok] at h
      obtain ⟨b1, _, h⟩ := h
      have keep : F' = F → (∀ k, k ≠ name → Fields.get? F' k = Fields.get? F k) ∧
          ∃ t', Fields.get? F' name = some t' ∧
            (∀ orig, some (Ty.opt oi) = some orig → ρ orig = true → ρ t' = true) ∧
            (ρ field = true → ρ t' = true) := by
        intro e; subst e
        exact ⟨fun _ _ => rfl, _, hg, fun _ _ _ => hρ.opt _ rfl, fun _ => hρ.opt _ rfl⟩
      split at h
      · rw [Except.pure_eq_ok] at h; exact keep h.symm
      · rw [Except.bind_eq_ok] at h
        obtain ⟨b2, _, h⟩ := h
        split at h
        · rw [Except.pure_eq_ok] at h; exact keep h.symm
        · rw [Except.pure_eq_ok] at h; subst h
          exact ⟨hset _, .opt (mergeNew c field oi), by simp [Fields.get?_set], fun _ _ _ => hρ.opt _ rfl,
            fun _ => hρ.opt _ rfl⟩
    | false =>
      rw [mergeOne_some_other hg hio, Except.bind_eq_ok] at h
      obtain ⟨b1, hb1, h⟩ := h
      split at h
      · rename_i hb
        rw [Except.pure_eq_ok] at h; subst h
        subst hb
        have := hρ.eq _ _ _ hb1
        refine ⟨fun _ _ => rfl, _, hg, ?_, fun h => by rw [this]; exact h⟩
        intro orig' ho; cases ho; exact fun h => h
      · rw [Except.bind_eq_ok] at h
        obtain ⟨b2, hb2, h⟩ := h
        split at h
        · rename_i hb
          rw [Except.pure_eq_ok] at h; subst h
          subst hb
          obtain ⟨fi, rfl⟩ : ∃ fi, field = .opt fi := by
            cases field <;> first | exact ⟨_, rfl⟩ | (simp [pure, Except.pure] at hb2)
          exact ⟨hset _, .opt fi, by simp [Fields.get?_set], fun _ _ _ => hρ.opt _ rfl, fun _ => hρ.opt _ rfl⟩
        · rw [Except.pure_eq_ok] at h; subst h
          refine ⟨hset _, mergeNew c field orig, by simp [Fields.get?_set], ?_,
            fun h => hρ.mergeNew _ _ _ (Or.inl h)⟩
          intro orig' ho; cases ho
          exact fun h => hρ.mergeNew _ _ _ (Or.inr h)

/-- the inner loop `for name, field in model.items()`, syntactically -/
theorem mergeFold_rho {ρ : Ty → Bool} (hρ : RhoOK ρ) {c : LitCfg} {e : EqEnv} {first : Bool} :
    ∀ (m : Fields) (F F1 : Fields),
      m.foldlM (fun fs (kv : String × Ty) => mergeOne c e first fs kv.1 kv.2) F = .ok F1 →
      (∀ k orig, Fields.get? F k = some orig → ρ orig = true → ∀ t1, Fields.get? F1 k = some t1 → ρ t1 = true) ∧
      (∀ k t0, Fields.get? m k = some t0 → ρ t0 = true → ∀ t1, Fields.get? F1 k = some t1 → ρ t1 = true) := by
  intro m
  induction m with
  | nil =>
    intro F F1 h
    simp only [List.foldlM_nil, Except.pure_eq_ok] at h
    subst h
    exact ⟨fun k orig ho hr t1 h1 => by rw [ho] at h1; cases h1; exact hr, fun k t0 hk => by simp at hk⟩
  | cons kv m ih =>
    obtain ⟨name, field⟩ := kv
    intro F F1 h
    rw [List.foldlM_cons, Except.bind_eq_ok] at h
    obtain ⟨F', hF', h⟩ := h
    obtain ⟨hother, t', ht', hc1, hc2⟩ := mergeOne_rho hρ hF'
    obtain ⟨ihA, ihB⟩ := ih F' F1 h
    refine ⟨?_, ?_⟩
    · intro k orig ho hr t1 h1
      by_cases hk : k = name
      · subst hk
        exact ihA k t' ht' (hc1 orig ho hr) t1 h1
      · exact ihA k orig (by rw [hother k hk]; exact ho) hr t1 h1
    · intro k t0 hk hr t1 h1
      rw [Fields.get?_consI] at hk
      split at hk
      · rename_i hkn
        subst hkn
        cases hk
        exact ihA name t' ht' (hc2 hr) t1 h1
      · exact ihB k t0 hk hr t1 h1

/-! ## one `for model in field_sets` iteration -/

/-- the semantic facts about the inner loop (the conclusions of `mergeFold_spec` that do not mention the class
    of field types) -/
def FoldOK (ov : Bool) (acc : Accepts) (g : ModelLookup) (first : Bool) (m F F1 : Fields) : Prop :=
  (∀ k, k ∈ F1.map (·.1) ↔ k ∈ F.map (·.1) ∨ k ∈ m.map (·.1)) ∧
  (∀ k orig, Fields.get? F k = some orig → ∃ t1, Fields.get? F1 k = some t1 ∧ Covers ov acc g orig t1) ∧
  (first = false → ∀ k, Fields.get? F k = none → ∀ t1, Fields.get? F1 k = some t1 → t1.isOpt = true) ∧
  (∀ k t0, Fields.get? m k = some t0 → ∃ t1, Fields.get? F1 k = some t1 ∧ Covers ov acc g t0 t1)

section
variable {ov : Bool} {acc : Accepts} {g : ModelLookup}

theorem mergeStep_rho {ρ : Ty → Bool} (hρ : RhoOK ρ) {e : EqEnv} {c : LitCfg} {first : Bool}
    {m F F2 : Fields}
    (hfold : ∀ F1, m.foldlM (fun fs (kv : String × Ty) => mergeOne c e first fs kv.1 kv.2) F = .ok F1 →
      FoldOK ov acc g first m F F1)
    (h : mergeStep c e first F m = .ok F2) :
    (first = false → ∀ kvs, InhFG ρ ov acc g F kvs → InhFG ρ ov acc g F2 kvs) ∧
    (∀ kvs, InhFG ρ ov acc g m kvs → InhFG ρ ov acc g F2 kvs) := by
  unfold mergeStep at h
  simp only at h
  rw [Except.bind_eq_ok] at h
  obtain ⟨F1, hF1, h⟩ := h
  rw [Except.pure_eq_ok] at h
  obtain ⟨hkeys, hwid0, hnew, hcov0⟩ := hfold F1 hF1
  obtain ⟨rA, rB⟩ := mergeFold_rho hρ m F F1 hF1
  have hwid : ∀ k orig, Fields.get? F k = some orig → ∃ t1, Fields.get? F1 k = some t1 ∧
      Covers ov acc g orig t1 ∧ (ρ orig = true → ρ t1 = true) := by
    intro k orig ho
    obtain ⟨t1, h1, cv⟩ := hwid0 k orig ho
    exact ⟨t1, h1, cv, fun hr => rA k orig ho hr t1 h1⟩
  have hcov : ∀ k t0, Fields.get? m k = some t0 → ∃ t1, Fields.get? F1 k = some t1 ∧
      Covers ov acc g t0 t1 ∧ (ρ t0 = true → ρ t1 = true) := by
    intro k t0 h0
    obtain ⟨t1, h1, cv⟩ := hcov0 k t0 h0
    exact ⟨t1, h1, cv, fun hr => rB k t0 h0 hr t1 h1⟩
  -- the final pass only wraps some types in `DOptional`
  let wrap : String → Ty → Ty := fun k t =>
    if (F.keys.contains k && !m.has k && !t.isOpt) = true then Ty.opt t else t
  have hwrap : ∀ k t, wrap k t = t ∨ wrap k t = .opt t := by
    intro k t; simp only [wrap]; split <;> simp
  have hget : ∀ k, Fields.get? F2 k = (Fields.get? F1 k).map (wrap k) := by
    intro k
    rw [← h, Fields.get?_map (f := fun kv : String × Ty =>
      if (F.keys.contains kv.1 && !m.has kv.1 && !kv.2.isOpt) = true then (kv.1, Ty.opt kv.2) else kv)]
    · cases Fields.get? F1 k with
      | none => rfl
      | some t => simp only [Option.map_some, wrap]; split <;> rfl
    · intro kv; split <;> rfl
  have hget' : ∀ k t2, Fields.get? F2 k = some t2 → ∃ t1, Fields.get? F1 k = some t1 ∧ t2 = wrap k t1 := by
    intro k t2 hk
    rw [hget k] at hk
    cases h1 : Fields.get? F1 k with
    | none => rw [h1] at hk; simp at hk
    | some t1 => rw [h1] at hk; simp only [Option.map_some, Option.some.injEq] at hk; exact ⟨t1, rfl, hk.symm⟩
  have hcovwrap : ∀ k t, Covers ov acc g t (wrap k t) := by
    intro k t
    rcases hwrap k t with e | e <;> rw [e]
    · exact Covers.refl
    · exact Covers.toOpt
  -- a key that is not in this model is optional afterwards
  have hmissing : ∀ k t1, Fields.get? F1 k = some t1 → k ∉ m.map (·.1) → (wrap k t1).isOpt = true := by
    intro k t1 h1 hmk
    have hk1 : k ∈ F1.map (·.1) := by rw [← Fields.get?_isSome_iff, h1]; rfl
    have hbefore : k ∈ F.map (·.1) := by
      rcases (hkeys k).1 hk1 with h | h
      · exact h
      · exact absurd h hmk
    have hc1 : F.keys.contains k = true := by simpa [Fields.keys] using hbefore
    have hc2 : m.has k = false := by
      cases hh : m.has k with
      | false => rfl
      | true => exact absurd (Fields.has_iffI.1 hh) hmk
    cases ho : t1.isOpt with
    | true =>
      have hw : wrap k t1 = t1 := by simp only [wrap, hc1, hc2, ho]; rfl
      rw [hw, ho]
    | false =>
      have hw : wrap k t1 = .opt t1 := by simp only [wrap, hc1, hc2, ho]; rfl
      rw [hw]; rfl
  refine ⟨?_, ?_⟩
  · intro hfirst kvs hin
    refine ⟨?_, ?_⟩
    · intro kv hkv
      obtain ⟨t, ht, hi⟩ := hin.1 kv hkv
      obtain ⟨t1, ht1, cv, _⟩ := hwid _ _ ht
      exact ⟨wrap kv.1 t1, by rw [hget, ht1]; rfl, hcovwrap _ _ _ (cv _ hi)⟩
    · intro k t2 hk hno
      obtain ⟨t1, h1, rfl⟩ := hget' k t2 hk
      have ht1 : ρ t1 = false := by
        rcases hwrap k t1 with e | e <;> rw [e] at hno
        · exact hno
        · rw [hρ.opt _ rfl] at hno; cases hno
      cases h0 : Fields.get? F k with
      | none =>
        have := hρ.opt _ (hnew hfirst k h0 t1 h1)
        rw [ht1] at this; cases this
      | some orig =>
        obtain ⟨t1', ht1', _, hopt⟩ := hwid k orig h0
        rw [h1] at ht1'; cases ht1'
        have horig : ρ orig = false := by
          cases ho : ρ orig with
          | false => rfl
          | true => have := hopt ho; rw [ht1] at this; cases this
        exact hin.2 k orig h0 horig
  · intro kvs hin
    refine ⟨?_, ?_⟩
    · intro kv hkv
      obtain ⟨t0, ht0, hi⟩ := hin.1 kv hkv
      obtain ⟨t1, ht1, cv, _⟩ := hcov _ _ ht0
      exact ⟨wrap kv.1 t1, by rw [hget, ht1]; rfl, hcovwrap _ _ _ (cv _ hi)⟩
    · intro k t2 hk hno2
      obtain ⟨t1, h1, rfl⟩ := hget' k t2 hk
      have ht1 : ρ t1 = false := by
        rcases hwrap k t1 with e | e <;> rw [e] at hno2
        · exact hno2
        · rw [hρ.opt _ rfl] at hno2; cases hno2
      by_cases hmk : k ∈ m.map (·.1)
      · rw [← Fields.get?_isSome_iff] at hmk
        cases h0 : Fields.get? m k with
        | none => rw [h0] at hmk; simp at hmk
        | some t0 =>
          obtain ⟨t1', ht1', _, hopt⟩ := hcov k t0 h0
          rw [h1] at ht1'; cases ht1'
          have h00 : ρ t0 = false := by
            cases ho : ρ t0 with
            | false => rfl
            | true => have := hopt ho; rw [ht1] at this; cases this
          exact hin.2 k t0 h0 h00
      · -- not a key of this model: it was there before, so the final pass made it optional
        have := hρ.opt _ (hmissing k t1 h1 hmk)
        rw [hno2] at this; cases this

/-- the outer loop; `Hstep`/`Hfold` are `mergeStep_spec`/`mergeFold_spec` for the class `P` at hand -/
theorem mergeGo_rho {ρ : Ty → Bool} (hρ : RhoOK ρ) {P : Ty → Prop} {e : EqEnv} {c : LitCfg}
    (Hstep : ∀ (first : Bool) (F m F2 : Fields), FInv P F → (∀ f ∈ m, P f.2) →
      mergeStep c e first F m = .ok F2 → FInv P F2)
    (Hfold : ∀ (first : Bool) (F m F1 : Fields), FInv P F → (∀ f ∈ m, P f.2) →
      m.foldlM (fun fs (kv : String × Ty) => mergeOne c e first fs kv.1 kv.2) F = .ok F1 →
      FoldOK ov acc g first m F F1) :
    ∀ (sets : List Fields) (first : Bool) (F F' : Fields), FInv P F →
      (∀ m ∈ sets, ∀ f ∈ m, P f.2) →
      mergeFieldSets.go c e first F sets = .ok F' →
      (first = false → ∀ kvs, InhFG ρ ov acc g F kvs → InhFG ρ ov acc g F' kvs) ∧
      (∀ m ∈ sets, ∀ kvs, InhFG ρ ov acc g m kvs → InhFG ρ ov acc g F' kvs) := by
  intro sets
  induction sets with
  | nil =>
    intro first F F' _ _ h
    simp only [mergeFieldSets.go, Except.pure_eq_ok] at h
    subst h
    exact ⟨fun _ _ h => h, by simp⟩
  | cons m ms ih =>
    intro first F F' inv hsets h
    rw [mergeFieldSets.go, Except.bind_eq_ok] at h
    obtain ⟨F1, hF1, h⟩ := h
    have hm := hsets m List.mem_cons_self
    have inv1 := Hstep first F m F1 inv hm hF1
    obtain ⟨hB, hA⟩ := mergeStep_rho (ov := ov) (acc := acc) (g := g) hρ
      (fun F1 hF1 => Hfold first F m F1 inv hm hF1) hF1
    obtain ⟨hB', hA'⟩ := ih false F1 F' inv1 (fun m' hm' => hsets m' (List.mem_cons_of_mem _ hm')) h
    refine ⟨?_, ?_⟩
    · intro hfirst kvs hin
      exact hB' rfl kvs (hB hfirst kvs hin)
    · intro m' hm' kvs hin
      rcases List.mem_cons.1 hm' with e | hm'
      · subst e
        exact hB' rfl kvs (hA kvs hin)
      · exact hA' m' hm' kvs hin

theorem mergeFieldSets_rho {ρ : Ty → Bool} (hρ : RhoOK ρ) {P : Ty → Prop} {e : EqEnv} {c : LitCfg}
    (Hstep : ∀ (first : Bool) (F m F2 : Fields), FInv P F → (∀ f ∈ m, P f.2) →
      mergeStep c e first F m = .ok F2 → FInv P F2)
    (Hfold : ∀ (first : Bool) (F m F1 : Fields), FInv P F → (∀ f ∈ m, P f.2) →
      m.foldlM (fun fs (kv : String × Ty) => mergeOne c e first fs kv.1 kv.2) F = .ok F1 →
      FoldOK ov acc g first m F F1)
    {sets : List Fields} {F : Fields} (hsets : ∀ m ∈ sets, ∀ f ∈ m, P f.2)
    (h : mergeFieldSets c e sets = .ok F) :
    ∀ m ∈ sets, ∀ kvs, InhFG ρ ov acc g m kvs → InhFG ρ ov acc g F kvs := by
  unfold mergeFieldSets at h
  exact (mergeGo_rho hρ Hstep Hfold sets true [] F ⟨by simp, by simp⟩ hsets h).2

/-! ## the refined lax reading -/

/-- lax reading of "object `kvs` lies in field dict `fs`" with the refined test: as `InhFieldsX`, but a field
    may also be absent when its type is `Ty.optLikeS` -/
def InhFieldsLXS (ov : Bool) (acc : Accepts) (g : ModelLookup) (fs : Fields) (kvs : List (String × Json)) : Prop :=
  (∀ kv ∈ kvs, (Fields.get? fs kv.1).isSome = true) ∧
  (∀ kv ∈ kvs, ∀ t, Fields.get? fs kv.1 = some t → InhX ov acc g t kv.2) ∧
  (∀ ft ∈ fs, ft.2.optLikeS = false → ∃ kv ∈ kvs, kv.1 = ft.1)

abbrev InhFLS (ov : Bool) (acc : Accepts) (g : ModelLookup) (fs : Fields) (kvs : List (String × Json)) : Prop :=
  InhFG Ty.optLikeS ov acc g fs kvs

theorem InhFieldsX.toLaxS {fs : Fields} {kvs} (h : InhFieldsX ov acc g fs kvs) : InhFieldsLXS ov acc g fs kvs :=
  ⟨h.1, h.2.1, fun ft hft hno => h.2.2 ft hft (Ty.isOpt_false_of_optLikeS hno)⟩

/-- the refined lax reading is stronger than the one with `Ty.optLike` -/
theorem InhFieldsLXS.toLX {fs : Fields} {kvs} (h : InhFieldsLXS ov acc g fs kvs) : InhFieldsLX ov acc g fs kvs := by
  refine ⟨h.1, h.2.1, fun ft hft hno => h.2.2 ft hft ?_⟩
  cases hl : ft.2.optLikeS with
  | false => rfl
  | true => rw [Ty.optLike_of_optLikeS hl] at hno; cases hno

theorem InhFieldsLXS.toStrict {fs : Fields} {kvs} (hopt : ∀ f ∈ fs, f.2.optLikeS = true → f.2.isOpt = true)
    (h : InhFieldsLXS ov acc g fs kvs) : InhFieldsX ov acc g fs kvs := by
  refine ⟨h.1, h.2.1, fun ft hft hno => h.2.2 ft hft ?_⟩
  cases hl : ft.2.optLikeS with
  | false => rfl
  | true => have := hopt ft hft hl; rw [hno] at this; cases this

theorem InhFieldsLXS.toInhFLS {fs : Fields} {kvs} (h : InhFieldsLXS ov acc g fs kvs) : InhFLS ov acc g fs kvs := by
  obtain ⟨h1, h2, h3⟩ := h
  refine ⟨?_, ?_⟩
  · intro kv hkv
    have := h1 kv hkv
    cases hg : Fields.get? fs kv.1 with
    | none => simp [hg] at this
    | some t => exact ⟨t, rfl, h2 kv hkv t hg⟩
  · intro k t hg hno
    exact h3 (k, t) (Fields.mem_of_get? hg) hno

theorem InhFLS.toInhFieldsLXS {fs : Fields} {kvs} (nd : (fs.map (·.1)).Nodup) (h : InhFLS ov acc g fs kvs) :
    InhFieldsLXS ov acc g fs kvs := by
  obtain ⟨h1, h2⟩ := h
  refine ⟨?_, ?_, ?_⟩
  · intro kv hkv; obtain ⟨t, ht, _⟩ := h1 kv hkv; simp [ht]
  · intro kv hkv t ht; obtain ⟨t', ht', hi⟩ := h1 kv hkv
    rw [ht] at ht'; cases ht'; exact hi
  · intro ft hft hno
    exact h2 ft.1 ft.2 (Fields.get?_of_mem nd hft) hno

variable {K : String → Prop} {P : Ty → Prop}

/-- `merge_field_sets` for input sets whose fields lie in `P` (a `DOptional` field is allowed): every object
    of an input set lies in the merge, under the *refined* lax reading of required fields -/
theorem mergeFieldSets_spec_laxS (cl : MergeClosed K P) (hs : HashSoundOn ov acc g (Ty.Good K))
    {e : EqEnv} (he : EqSoundOn ov acc g e (Ty.Good K)) {c : LitCfg} {sets : List Fields} {F : Fields}
    (hsets : ∀ m ∈ sets, ∀ f ∈ m, P f.2)
    (h : mergeFieldSets c e sets = .ok F) :
    (F.map (·.1)).Nodup ∧ (∀ f ∈ F, P f.2) ∧
    ∀ m ∈ sets, ∀ kvs, InhFieldsLXS ov acc g m kvs → InhFieldsLXS ov acc g F kvs := by
  obtain ⟨nd, hP, _⟩ := mergeFieldSets_spec_lax cl hs he hsets h
  refine ⟨nd, hP, ?_⟩
  intro m hm kvs hin
  refine InhFLS.toInhFieldsLXS nd (mergeFieldSets_rho (ov := ov) (acc := acc) (g := g) rhoOK_optLikeS
    (P := P) (e := e) (c := c) ?_ ?_ hsets h m hm kvs hin.toInhFLS)
  · intro first F m F2 inv hm h
    exact (mergeStep_spec cl hs he inv hm h).1
  · intro first F m F1 inv hm h
    obtain ⟨_, a, b, c', d⟩ := mergeFold_spec cl hs he m F F1 inv hm h
    exact ⟨a, fun k orig ho => by obtain ⟨t1, x, y, _⟩ := b k orig ho; exact ⟨t1, x, y⟩, c',
      fun k t0 h0 => by obtain ⟨t1, x, y, _⟩ := d k t0 h0; exact ⟨t1, x, y⟩⟩

end

end J2M
