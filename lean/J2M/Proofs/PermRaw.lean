/-
  C07 (generator level), part 5: raw generator-stage types (`RawN`) and the per-key state of
  `merge_field_sets` (`KInv`): after the types `P` of one key have been processed, the current type
  `cur` has the plain members of `P` (up to order) and the literal state of `P`.
-/
import J2M.Proofs.PermUnion
import J2M.Proofs.PermEq
import J2M.Proofs.InhHash
import J2M.Proofs.Union
namespace J2M.Perm
open J2M

/-- the member list reproduces itself under `DUnion(*ts)` (as a set) -/
def MStable (c : LitCfg) (ts : List Ty) : Prop := ∀ u, u ∈ mkUnionMembers c ts ↔ u ∈ ts

theorem mstable_mkUM {c : LitCfg} {L : List Ty} (h : FlatWF L) : MStable c (mkUnionMembers c L) := by
  intro u
  have fM := mkUM_flatWF (c := c) h
  by_cases hl : u.isLit = true
  · cases u <;> simp [Ty.isLit] at hl
    rw [lit_mem_mkUM_iff fM, lit_mem_mkUM_iff h, eff_mkUM h]
  · have hl' : u.isLit = false := by simpa using hl
    by_cases hs : u.isStr = true
    · cases u <;> simp [Ty.isStr] at hs
      rw [str_mem_mkUM_iff fM, str_mem_mkUM_iff h, eff_mkUM h]
    · exact plain_mem_mkUM_iff fM hl' (by simpa using hs)

mutual
/-- what the generator stage builds before `optimize_type`: no `DOptional`, no pointer/tuple, normal
    literals, well-formed kind names, distinct keys, unions flat and without overflowed literal -/
def RawN (c : LitCfg) : Ty → Prop
  | .lit o vs => LitN c o vs
  | .ser k => wfSerName k = true
  | .list t | .dict t => RawN c t
  | .union ts => RawNU c ts ∧ ts.Nodup ∧ MStable c ts
  | .obj fs => (fs.map (·.1)).Nodup ∧ RawNF c fs
  | .opt _ | .tuple _ | .ptr _ => False
  | _ => True
def RawNU (c : LitCfg) : List Ty → Prop
  | [] => True
  | t :: ts => (RawN c t ∧ t.isUnion = false ∧ t.isOvLit = false) ∧ RawNU c ts
def RawNF (c : LitCfg) : List (String × Ty) → Prop
  | [] => True
  | (_, t) :: fs => (RawN c t ∧ t.isUnion = false) ∧ RawNF c fs
end

theorem rawNU_iff {c ts} : RawNU c ts ↔ ∀ t ∈ ts, RawN c t ∧ t.isUnion = false ∧ t.isOvLit = false := by
  induction ts with
  | nil => simp [RawNU]
  | cons t ts ih => simp [RawNU, ih]

theorem rawNF_iff {c fs} : RawNF c fs ↔ ∀ kv ∈ fs, RawN c kv.2 ∧ kv.2.isUnion = false := by
  induction fs with
  | nil => simp [RawNF]
  | cons f fs ih => obtain ⟨k, t⟩ := f; simp [RawNF, ih]

@[simp] theorem rawN_lit {c o vs} : RawN c (.lit o vs) ↔ LitN c o vs := by rw [RawN]
@[simp] theorem rawN_ser {c k} : RawN c (.ser k) ↔ wfSerName k = true := by rw [RawN]
@[simp] theorem rawN_list {c t} : RawN c (.list t) ↔ RawN c t := by rw [RawN]
@[simp] theorem rawN_dict {c t} : RawN c (.dict t) ↔ RawN c t := by rw [RawN]
@[simp] theorem rawN_opt {c t} : RawN c (.opt t) ↔ False := by rw [RawN]
@[simp] theorem rawN_tuple {c ts} : RawN c (.tuple ts) ↔ False := by rw [RawN]
@[simp] theorem rawN_ptr {c i} : RawN c (.ptr i) ↔ False := by rw [RawN]
@[simp] theorem rawN_int {c} : RawN c .int := by simp [RawN]
@[simp] theorem rawN_float {c} : RawN c .float := by simp [RawN]
@[simp] theorem rawN_bool {c} : RawN c .bool := by simp [RawN]
@[simp] theorem rawN_str {c} : RawN c .str := by simp [RawN]
@[simp] theorem rawN_null {c} : RawN c .null := by simp [RawN]
@[simp] theorem rawN_unknown {c} : RawN c .unknown := by simp [RawN]
theorem rawN_union {c ts} : RawN c (.union ts) ↔
    (∀ t ∈ ts, RawN c t ∧ t.isUnion = false ∧ t.isOvLit = false) ∧ ts.Nodup ∧ MStable c ts := by
  rw [RawN, rawNU_iff]
theorem rawN_obj {c fs} : RawN c (.obj fs) ↔
    (fs.map (·.1)).Nodup ∧ ∀ kv ∈ fs, RawN c kv.2 ∧ kv.2.isUnion = false := by
  rw [RawN, rawNF_iff]

/-- the kind names allowed in `RawN` types -/
abbrev KWf : String → Prop := fun k => wfSerName k = true

theorem rawN_good {c : LitCfg} : ∀ n (t : Ty), t.size ≤ n → RawN c t → Ty.Good KWf t := by
  intro n
  induction n with
  | zero => intro t h; cases t <;> simp [Ty.size] at h
  | succ n ih =>
    intro t hsz h
    cases t <;> try (simp; done)
    case ser k => simpa using h
    case lit o vs =>
      simp only [rawN_lit] at h
      simp only [Ty.good_lit]
      rcases h with ⟨h1, h2⟩ | ⟨h1, h2, _⟩
      · simp [h1, h2]
      · simp [h1, h2]
    case list x => simp only [rawN_list] at h; simpa using ih x (by simp [Ty.size] at hsz; omega) h
    case dict x => simp only [rawN_dict] at h; simpa using ih x (by simp [Ty.size] at hsz; omega) h
    case opt x => simp at h
    case union ts =>
      rw [rawN_union] at h
      rw [Ty.good_union]
      intro t ht
      have := Ty.size_le_sizeList ht
      exact ih t (by simp [Ty.size] at hsz; omega) (h.1 t ht).1
    case tuple ts => simp at h
    case ptr i => simp at h
    case obj fs =>
      rw [rawN_obj] at h
      rw [Ty.good_obj]
      refine ⟨h.1, fun f hf => ?_⟩
      have := Ty.size_le_sizeFields hf
      exact ih f.2 (by simp [Ty.size] at hsz; omega) (h.2 f hf).1

theorem RawN.good {c : LitCfg} {t : Ty} (h : RawN c t) : Ty.Good KWf t := rawN_good t.size t (Nat.le_refl _) h

theorem RawN.wf {c : LitCfg} {t : Ty} (h : RawN c t) : t.WFHash := h.good.toWFHash (fun _ hk => hk)

theorem RawN.not_opt {c : LitCfg} {t : Ty} (h : RawN c t) : t.isOpt = false := by
  cases t <;> simp [Ty.isOpt] at *

/-- a raw type that may stand as a field of an input field set: not a union itself -/
def RawF (c : LitCfg) (t : Ty) : Prop := RawN c t ∧ t.isUnion = false

theorem RawN.members {c : LitCfg} {t : Ty} (h : RawN c t) :
    ∀ m ∈ t.unionMembers, RawN c m ∧ m.isUnion = false := by
  by_cases hu : t.isUnion = true
  · cases t <;> simp [Ty.isUnion] at hu
    intro m hm
    exact ⟨((rawN_union.1 h).1 m hm).1, ((rawN_union.1 h).1 m hm).2.1⟩
  · have hu' : t.isUnion = false := by simpa using hu
    rw [unionMembers_of_nonunion hu']
    intro m hm
    simp at hm; subst hm; exact ⟨h, hu'⟩

theorem RawN.members_flatWF {c : LitCfg} {t : Ty} (h : RawN c t) : FlatWF t.unionMembers :=
  ⟨fun m hm => (h.members m hm).2, fun m hm => (h.members m hm).1.wf⟩

theorem flatWF_cons {d : Ty} {L : List Ty} (hd : d.isUnion = false) (hw : d.WFHash) (h : FlatWF L) :
    FlatWF (d :: L) :=
  ⟨fun t ht => by rcases List.mem_cons.1 ht with e | e; exact e ▸ hd; exact h.flat t e,
   fun t ht => by rcases List.mem_cons.1 ht with e | e; exact e ▸ hw; exact h.wf t e⟩

/-- members of `DUnion(*L)` for raw, flat `L` are raw -/
theorem rawN_mkUM {c : LitCfg} {L : List Ty} (hL : ∀ t ∈ L, RawN c t ∧ t.isUnion = false) :
    ∀ u ∈ mkUnionMembers c L, RawN c u ∧ u.isUnion = false ∧ u.isOvLit = false := by
  have f : FlatWF L := ⟨fun t ht => (hL t ht).2, fun t ht => (hL t ht).1.wf⟩
  intro u hu
  refine ⟨?_, mkUnionMembers_nonunion c L u hu, ?_⟩
  · by_cases hl : u.isLit = true
    · cases u <;> simp [Ty.isLit] at hl
      rename_i o vs
      obtain ⟨hE, hne, ho⟩ := (lit_mem_mkUM_iff f).1 hu
      obtain ⟨_, hov, hV⟩ := eff_some_iff.1 hE
      subst ho
      simp only [rawN_lit]
      exact .inr ⟨rfl, hne, hV ▸ Strings.sorted_unionVals L, hV ▸ hov⟩
    · have hl' : u.isLit = false := by simpa using hl
      by_cases hs : u.isStr = true
      · cases u <;> simp [Ty.isStr] at hs; simp
      · exact (hL u ((plain_mem_mkUM_iff f hl' (by simpa using hs)).1 hu)).1
  · cases u <;> try rfl
    rename_i o vs
    cases o
    · rfl
    · exact absurd hu (no_ovlit_mkUM vs)

theorem nodup_mkUM (c : LitCfg) (L : List Ty) : (mkUnionMembers c L).Nodup :=
  List.Pairwise.of_map hashStr (fun _ _ h e => h (e ▸ rfl)) (C08P.mkUnionMembers_out c L).nodup

theorem rawN_collapse {c : LitCfg} {us : List Ty}
    (h : ∀ u ∈ us, RawN c u ∧ u.isUnion = false ∧ u.isOvLit = false) (nd : us.Nodup) (st : MStable c us) :
    RawN c (collapse us) := by
  unfold collapse
  split
  · exact (h _ (by simp)).1
  · exact rawN_union.2 ⟨h, nd, st⟩

theorem collapse_ne_ovlit {us : List Ty} (h : ∀ u ∈ us, u.isOvLit = false) : collapse us ≠ .lit true [] := by
  unfold collapse
  split
  · rename_i x
    intro e; have := h x (by simp); rw [e] at this; simp [Ty.isOvLit] at this
  · intro e; cases e

/-! ## the per-key state -/

/-- state of one key after the types `P` (newest first) have been merged into `cur` -/
structure KInv (c : LitCfg) (cur : Ty) (P : List Ty) : Prop where
  raw : RawN c cur
  ne : P ≠ []
  plain : SetA (NL cur.unionMembers) (NL P)
  eff : Eff c cur.unionMembers = Eff c P
  ov1 : cur = .lit true [] → ∀ d ∈ P, d = .lit true []
  ov2 : (∀ d ∈ P, d = .lit true []) → cur = .lit true []
  stable : cur ≠ .lit true [] → SetA cur.unionMembers (mkUnionMembers c cur.unionMembers)

theorem rawN_ovlit {c : LitCfg} {vs : List String} (h : RawN c (.lit true vs)) : vs = [] := by
  simp only [rawN_lit] at h
  rcases h with ⟨_, h⟩ | ⟨h, _⟩
  · exact h
  · cases h

theorem KInv.init {c : LitCfg} {d : Ty} (h : RawF c d) : KInv c d [d] := by
  have hm : d.unionMembers = [d] := unionMembers_of_nonunion h.2
  refine ⟨h.1, by simp, by rw [hm]; exact SetA.refl _, by rw [hm], by simp, by simp, ?_⟩
  intro hne
  rw [hm]
  have hov : d.isOvLit = false := by
    cases d <;> try rfl
    rename_i o vs
    cases o
    · rfl
    · exact absurd (by rw [rawN_ovlit h.1]) hne
  refine SetA.of_mem_iff (fun t => ?_)
  rw [mem_mkUM_single h.2 h.1.wf hov (fun vs e => by subst e; simpa using h.1)]
  simp

theorem nl_cons_plain {d : Ty} {L : List Ty} (hl : d.isLit = false) (hs : d.isStr = false) :
    NL (d :: L) = d :: NL L := by simp [NL, hl, hs]

theorem nl_cons_leaf {d : Ty} {L : List Ty} (h : d.isLit = true ∨ d.isStr = true) :
    NL (d :: L) = NL L := by
  rcases h with h | h <;> simp [NL, h]

theorem setA_NL_cons {d : Ty} {L L' : List Ty} (h : SetA (NL L) (NL L')) : SetA (NL (d :: L)) (NL (d :: L')) := by
  by_cases hl : d.isLit = true
  · rw [nl_cons_leaf (.inl hl), nl_cons_leaf (.inl hl)]; exact h
  · by_cases hs : d.isStr = true
    · rw [nl_cons_leaf (.inr hs), nl_cons_leaf (.inr hs)]; exact h
    · rw [nl_cons_plain (by simpa using hl) (by simpa using hs), nl_cons_plain (by simpa using hl) (by simpa using hs)]
      exact SetA.append (as := [d]) (bs := [d]) (SetA.refl _) h

/-- an incoming type equal (up to order) to the current single type is skipped -/
theorem KInv.skip {c : LitCfg} {cur d : Ty} {P : List Ty} (inv : KInv c cur P) (hd : RawF c d)
    (hs : ASim cur d) : KInv c cur (d :: P) := by
  have hcu : cur.isUnion = false := by rw [asim_isUnion hs]; exact hd.2
  have hm : cur.unionMembers = [cur] := unionMembers_of_nonunion hcu
  refine ⟨inv.raw, by simp, ?_, ?_, ?_, ?_, inv.stable⟩
  · by_cases hl : d.isLit = true ∨ d.isStr = true
    · rw [nl_cons_leaf hl]; exact inv.plain
    · have hl' : d.isLit = false ∧ d.isStr = false := by
        constructor
        · cases h : d.isLit <;> simp_all
        · cases h : d.isStr <;> simp_all
      rw [nl_cons_plain hl'.1 hl'.2]
      have hc : cur ∈ NL cur.unionMembers := by
        rw [hm, mem_NL]
        exact ⟨by simp, by rw [asim_isLit hs]; exact hl'.1, by rw [leafEq_asim.str hs]; exact hl'.2⟩
      constructor
      · intro a ha
        obtain ⟨b, hb, hab⟩ := inv.plain.1 a ha
        exact ⟨b, List.mem_cons_of_mem _ hb, hab⟩
      · intro b hb
        rcases List.mem_cons.1 hb with e | e
        · subst e; exact ⟨cur, hc, hs⟩
        · exact inv.plain.2 b e
  · by_cases hl : d.isLit = true ∨ d.isStr = true
    · have hdc : d = cur := by
        rcases hl with hl | hl
        · cases d <;> simp [Ty.isLit] at hl
          exact (asim_lit_right hs).symm
        · cases d <;> simp [Ty.isStr] at hl
          exact (asim_str_right hs).symm
      subst hdc
      rw [eff_cons_congr (L' := [d]) (by rw [← inv.eff, hm]), eff_cons_mem (by simp), ← hm, inv.eff]
    · have hl' : d.isLit = false ∧ d.isStr = false := by
        constructor
        · cases h : d.isLit <;> simp_all
        · cases h : d.isStr <;> simp_all
      rw [eff_cons_plain hl'.1 hl'.2]; exact inv.eff
  · intro e x hx
    rcases List.mem_cons.1 hx with h | h
    · subst h; subst e; exact asim_lit_left hs
    · exact inv.ov1 e x h
  · intro h
    apply inv.ov2
    intro x hx; exact h x (List.mem_cons_of_mem _ hx)

/-- an incoming type that differs is merged by `DUnion(incoming, *current members)` -/
theorem KInv.merge {c : LitCfg} {cur d : Ty} {P : List Ty} (inv : KInv c cur P) (hd : RawF c d)
    (hne : ¬ (cur = .lit true [] ∧ d = .lit true [])) :
    KInv c (collapse (mkUnionMembers c ([d] ++ cur.unionMembers))) (d :: P) := by
  have fm := inv.raw.members_flatWF
  have f : FlatWF ([d] ++ cur.unionMembers) := flatWF_cons hd.2 hd.1.wf fm
  have hraw : ∀ t ∈ [d] ++ cur.unionMembers, RawN c t ∧ t.isUnion = false := by
    intro t ht
    rcases List.mem_cons.1 ht with e | e
    · subst e; exact hd
    · exact inv.raw.members t e
  have hus := rawN_mkUM hraw
  have hmem : (collapse (mkUnionMembers c ([d] ++ cur.unionMembers))).unionMembers =
      mkUnionMembers c ([d] ++ cur.unionMembers) :=
    unionMembers_collapse (fun u hu => (hus u hu).2.1)
  have hcne : collapse (mkUnionMembers c ([d] ++ cur.unionMembers)) ≠ .lit true [] :=
    collapse_ne_ovlit (fun u hu => (hus u hu).2.2)
  refine ⟨rawN_collapse hus (nodup_mkUM _ _) (mstable_mkUM f), by simp, ?_, ?_, fun e => absurd e hcne, ?_, ?_⟩
  · rw [hmem]
    exact SetA.trans (SetA.of_mem_iff (fun t => mem_NL_mkUM f)) (setA_NL_cons inv.plain)
  · rw [hmem, eff_mkUM f]
    exact eff_cons_congr inv.eff
  · intro h
    exfalso
    apply hne
    refine ⟨inv.ov2 (fun x hx => h x (List.mem_cons_of_mem _ hx)), h d (by simp)⟩
  · intro _
    rw [hmem]
    exact mkUM_stable f

/-- two runs over type lists with the same members (up to order) end in `NSim`-equal types -/
theorem KInv.final {c : LitCfg} {cur₁ cur₂ : Ty} {P₁ P₂ : List Ty} (i₁ : KInv c cur₁ P₁) (i₂ : KInv c cur₂ P₂)
    (h : SetA P₁ P₂) : NSim cur₁ cur₂ := by
  by_cases h1 : cur₁ = .lit true []
  · have : cur₂ = .lit true [] := by
      apply i₂.ov2
      intro d hd
      obtain ⟨a, ha, hs⟩ := h.2 d hd
      rw [i₁.ov1 h1 a ha] at hs
      exact asim_lit_left hs
    rw [h1, this]; exact NSim.refl _
  · have h2 : cur₂ ≠ .lit true [] := by
      intro e
      apply h1
      apply i₁.ov2
      intro d hd
      obtain ⟨b, hb, hs⟩ := h.1 d hd
      rw [i₂.ov1 e b hb] at hs
      exact asim_lit_right hs
    rw [nsim_iff]
    have hN : SetR ASim (NL cur₁.unionMembers) (NL cur₂.unionMembers) :=
      SetA.trans i₁.plain (SetA.trans (setR_NL leafEq_asim h) (SetA.symm i₂.plain))
    have hE : Eff c cur₁.unionMembers = Eff c cur₂.unionMembers := by
      rw [i₁.eff, i₂.eff]; exact setR_eff leafEq_asim h
    have := mkUM_congr (r := ASim) ASim.refl i₁.raw.members_flatWF i₂.raw.members_flatWF hN hE
    exact SetA.trans (i₁.stable h1) (SetA.trans this (SetA.symm (i₂.stable h2)))

end J2M.Perm
