/-
  C08 at the registry stage: the pipeline (`buildGraph` + `merge_models`) on concrete JSON documents, by evaluation.
-/
import J2M.Proofs.TwoPassWitness
import J2M.Proofs.RegistryModels
namespace J2M.TwoPass.W
open J2M

set_option maxRecDepth 100000
set_option linter.unusedSimpArgs false

/-! ## 1. the document of the defect report -/

def oW : GenOracles := ⟨fun _ _ => some false, fun _ _ => some false, StrOracle.default⟩

/-- `{"p": {"g": 1, "f": [1.5]}, "q": [{"g": 1, "f": [1, "a", null]}, {"g": 1, "f": true}, {"g": 1}]}` -/
def sW : Json :=
  .obj [("p", .obj [("g", .int 1), ("f", .arr [.float 0])]),
        ("q", .arr [.obj [("g", .int 1), ("f", .arr [.int 1, .str "a", .null])],
                    .obj [("g", .int 1), ("f", .bool true)],
                    .obj [("g", .int 1)]])]

def o1 : Fields := [("g", .int), ("f", .list (.union [.int, .null, .lit false ["a"]]))]
def o2 : Fields := [("g", .int), ("f", .bool)]
def o3 : Fields := [("g", .int)]
def cW : Fields := [("p", .obj [("g", .int), ("f", .list .float)]), ("q", .list (.union [.obj o1, .obj o2, .obj o3]))]

theorem convertW : convert cfgW oW sW = .ok cW := by
  simp +decide [sW, cW, o1, o2, o3, convert, detect, detectList, convertFields, anyRegexMatches, allKeysMatch,
    cfgW, oW, detectStr, detectStr.go, wrapElems, mkLit, mkUnionMembers, flattenUnion, handleType, hashStr,
    hashStrs, hashFields, insertUniq, bind, Except.bind, pure, Except.pure, List.foldlM]

/-- the comparison environment of `generate` -/
def eW : EqEnv := ⟨oW.str, fun i => "Model#" ++ i, fun _ => none, 1000000⟩
theorem eqW1 : eW.eq .int .int = .ok true := by rfl
theorem eqW2 : eW.eq (.list (.union [.int, .null, .lit false ["a"]])) .bool = .ok false := by rfl

theorem mergeTop : mergeFieldSets cfgW.lit eW [cW] = .ok cW := by
  simp +decide [cW, mergeFieldSets, mergeFieldSets.go, mergeStep, mergeOne, Fields.get?, Fields.set,
    Fields.keys, Fields.has, Ty.isOpt, bind, Except.bind, pure, Except.pure]

theorem mergeQ : mergeFieldSets cfgW.lit eW [o1, o2, o3] =
    .ok [("g", .int), ("f", .opt (.union [.bool, .list (.union [.int, .null, .lit false ["a"]])]))] := by
  simp +decide [o1, o2, o3, mergeFieldSets, mergeFieldSets.go, mergeStep, mergeOne, Fields.get?, Fields.set,
    Fields.keys, Fields.has, Ty.isOpt, eqW1, eqW2, bind, Except.bind, pure, Except.pure, Ty.unionMembers,
    mkUnionMembers, flattenUnion, handleType, hashStr, Ty.isStr, cfgW]

theorem opt_p (e : EqEnv) (n : Nat) :
    optimize cfgW e (n + 4) (.obj [("g", .int), ("f", .list .float)]) = .ok (.obj [("g", .int), ("f", .list .float)]) := by
  simp +decide [optimize, bind, Except.bind, pure, Except.pure]

theorem opt_f (e : EqEnv) (n : Nat) :
    optimize cfgW e (n + 12) (.opt (.union [.bool, .list (.union [.int, .null, .lit false ["a"]])])) = .ok fA := by
  simp +decide [fA, optimize, optimizeUnion, splitMembers, splitMembersAux, Ty.size, Ty.sizeList, Ty.isInt,
    Ty.isFloat, Ty.isStr, Ty.isUnknown, Ty.isNull, bind, Except.bind, pure, Except.pure, mkUnion, mkUnionMembers,
    flattenUnion, handleType, hashStr, hashStrs, removeFirst, cfgW, insertUniq, mkLit]

theorem opt_obj (n : Nat) :
    optimize cfgW eW (n + 14)
      (.obj [("g", .int), ("f", .opt (.union [.bool, .list (.union [.int, .null, .lit false ["a"]])]))]) =
      .ok (.obj [("g", .int), ("f", fA)]) := by
  rw [optimize]
  simp only [List.mapM_cons, List.mapM_nil, bind, Except.bind, pure, Except.pure, opt_f eW (n + 1)]
  simp [optimize, pure, Except.pure]

theorem opt_q (n : Nat) :
    optimize cfgW eW (n + 20) (.list (.union [.obj o1, .obj o2, .obj o3])) = .ok (.list (.obj [("g", .int), ("f", fA)])) := by
  rw [optimize]
  simp only [bind, Except.bind]
  rw [optimize, optimizeUnion]
  have hs : splitMembers cfgW.reg [.obj o1, .obj o2, .obj o3] = { toMerge := [o1, o2, o3] } := by
    simp [splitMembers, splitMembersAux]
  simp only [hs, bind, Except.bind, mergeQ, pure, Except.pure]
  simp +decide only [List.isEmpty_nil, List.isEmpty_cons, List.any_nil, List.nil_append, Bool.false_and, if_true,
    if_false, Bool.false_eq_true, List.mapM_cons, List.mapM_nil, bind, Except.bind, pure, Except.pure,
    opt_obj (n + 3)]

/-- `generate` on the document -/
def gW : Fields := [("p", .obj [("g", .int), ("f", fB)]), ("q", .list (.obj [("g", .int), ("f", fA)]))]

theorem generateW : generate cfgW oW [sW] = .ok (.obj gW) := by
  unfold generate
  simp only [List.mapM_cons, List.mapM_nil, convertW, bind, Except.bind, pure, Except.pure]
  have := mergeTop
  simp only [eW] at this
  rw [this]
  show optimize cfgW _ (Ty.fuelFor (.obj cW)) (.obj cW) = _
  have hf : Ty.fuelFor (.obj cW) = 199 + 1 := by
    simp [Ty.fuelFor, Ty.size, Ty.sizeFields, Ty.sizeList, cW, o1, o2, o3]
  rw [hf, optimize]
  simp only [cW, List.mapM_cons, List.mapM_nil, bind, Except.bind, pure, Except.pure]
  have h1 := opt_p eW 195
  have h2 := opt_q 179
  simp only [eW] at h1 h2
  rw [h1, h2]
  rfl

/-- the registry after `process_meta_data`: `1B = {g: int, f: List[float]}`,
    `1C = {g: int, f: Optional[Union[bool, List[Optional[Union[int, 'a']]]]]}` -/
def g0W : Graph :=
  { models := [{ idx := "1A", fields := [("p", .ptr "1B"), ("q", .list (.ptr "1C"))], name := some "Root",
                 nameGen := some false },
               { idx := "1B", fields := [("g", .int), ("f", fB)] },
               { idx := "1C", fields := [("g", .int), ("f", fA)] }],
    ptrs := [⟨"1A", none, none⟩, ⟨"1B", some "1A", some "p"⟩, ⟨"1C", some "1A", some "q"⟩],
    counter := 3 }

theorem buildW : buildGraph cfgW oW [("Root", [sW])] = .ok g0W := by
  unfold buildGraph
  simp only [List.foldlM_cons, List.foldlM_nil, generateW, bind, Except.bind, pure, Except.pure]
  rfl

/-! ### `merge_models`, assembled from its stages (converse of `Reg.mergeModels_eq`) -/

theorem mergeModels_of {cfg : GenCfg} {so : StrOracle} {cmps : List Cmp} {g gm g' : Graph}
    {tbl : List (List Bool)} {groups : List (List Nat)} {repl : List (String × List String)}
    (htbl : simTable cmps g = .ok tbl)
    (hgr : Closure.mergeGroups (Reg.simOfTbl tbl) g.models.length = some groups)
    (hfold : groups.foldlM (Reg.groupStep cfg so (Reg.idxs g)) (g, []) = .ok (gm, repl))
    (hfin : (Reg.idxs gm).foldlM (fun g i => optimizeModel cfg so g i) gm = .ok g') :
    mergeModels cfg so cmps g = .ok (g', repl) := by
  have key : mergeModels cfg so cmps g = (do
      let tbl ← simTable cmps g
      match Closure.mergeGroups (Reg.simOfTbl tbl) g.models.length with
      | none => .error .outOfFuel
      | some groups => do
        let r ← groups.foldlM (Reg.groupStep cfg so (Reg.idxs g)) (g, [])
        let g2 ← (Reg.idxs r.1).foldlM (fun g i => optimizeModel cfg so g i) r.1
        pure (g2, r.2)) := rfl
  rw [key]
  simp only [bind, Except.bind, htbl, hgr, hfold, hfin, pure, Except.pure]

/-! ### `merge_models` with the default merge policy of the CLI (`percent_70`, `number_10`) -/

def cmpsW : List Cmp := [.percent 7 10, .number 10]

theorem simW : simTable cmpsW g0W = .ok [[false, false, false], [false, false, true], [false, false, false]] := by rfl

theorem groupsW : Closure.mergeGroups (Reg.simOfTbl [[false, false, false], [false, false, true], [false, false, false]])
    g0W.models.length = some [[1, 2]] := by rfl

theorem eqG1 (so : StrOracle) : (g0W.eqEnv so).eq .int .int = .ok true := by rfl
theorem eqG2 (so : StrOracle) : (g0W.eqEnv so).eq fB fA = .ok false := by rfl
theorem eqG3 (so : StrOracle) :
    (g0W.eqEnv so).eq fB (.union [.bool, .list (.opt (.union [.int, .lit false ["a"]]))]) = .ok false := by rfl

/-- `_merge` of `1B`, `1C`: `f : Union[Optional[Union[bool, List[Optional[Union[int, 'a']]]]], List[float]]` -/
theorem mergeFieldsW (so : StrOracle) :
    mergeFieldSets cfgW.lit (g0W.eqEnv so) [[("g", .int), ("f", fB)], [("g", .int), ("f", fA)]] =
      .ok [("g", .int), ("f", tW)] := by
  have h2 := eqG2 so
  have h3 := eqG3 so
  simp only [fA, fB] at h2 h3
  simp +decide [tW, fA, fB, mergeFieldSets, mergeFieldSets.go, mergeStep, mergeOne, Fields.get?, Fields.set,
    Fields.keys, Fields.has, Ty.isOpt, eqG1, h2, h3, bind, Except.bind, pure, Except.pure, Ty.unionMembers,
    mkUnionMembers, flattenUnion, handleType, hashStr, hashStrs, Ty.isStr, cfgW]

/-- the registry after `_merge` of the group -/
def g1W : Graph :=
  { models := [{ idx := "1A", fields := [("p", .ptr "1D"), ("q", .list (.ptr "1D"))], name := some "Root",
                 nameGen := some false },
               { idx := "1D", fields := [("g", .int), ("f", tW)] }],
    ptrs := [⟨"1A", none, none⟩, ⟨"1D", some "1A", some "p"⟩, ⟨"1D", some "1A", some "q"⟩],
    counter := 4 }

theorem mergeGroupW (so : StrOracle) : mergeGroup cfgW so g0W ["1B", "1C"] = .ok (g1W, "1D") := by
  have h := mergeFieldsW so
  unfold mergeGroup
  simp only [bind, Except.bind]
  have hm : List.map (fun (x : Model) => x.fields) (List.filterMap g0W.find? ["1B", "1C"]) =
      [[("g", .int), ("f", fB)], [("g", .int), ("f", fA)]] := rfl
  rw [hm, h]
  rfl

theorem fix_tW3 (e : EqEnv) (n : Nat) : optimize cfgW e (n + 16) tW3 = .ok tW3 := by
  simp +decide [tW3, optimize, optimizeUnion, splitMembers, splitMembersAux, Ty.size, Ty.sizeList,
    Ty.isInt, Ty.isFloat, Ty.isStr, Ty.isUnknown, Ty.isNull, bind, Except.bind, pure, Except.pure, mkUnion,
    mkUnionMembers, flattenUnion, handleType, hashStr, hashStrs, removeFirst, cfgW, insertUniq, mkLit]

theorem opt_1D (e : EqEnv) (n : Nat) :
    optimize cfgW e (n + 18) (.obj [("g", .int), ("f", tW)]) = .ok (.obj [("g", .int), ("f", tW3)]) := by
  rw [optimize]
  simp only [List.mapM_cons, List.mapM_nil, bind, Except.bind, pure, Except.pure, new_pass1 e (n + 1)]
  simp [optimize, pure, Except.pure]

theorem opt_1D' (e : EqEnv) (n : Nat) :
    optimize cfgW e (n + 18) (.obj [("g", .int), ("f", tW3)]) = .ok (.obj [("g", .int), ("f", tW3)]) := by
  rw [optimize]
  simp only [List.mapM_cons, List.mapM_nil, bind, Except.bind, pure, Except.pure, fix_tW3 e (n + 1)]
  simp [optimize, pure, Except.pure]

theorem opt_1A (e : EqEnv) (n : Nat) :
    optimize cfgW e (n + 4) (.obj [("p", .ptr "1D"), ("q", .list (.ptr "1D"))]) =
      .ok (.obj [("p", .ptr "1D"), ("q", .list (.ptr "1D"))]) := by
  simp +decide [optimize, bind, Except.bind, pure, Except.pure]

/-- the registry after `merge_models`: `f : Optional[Union[bool, List[Optional[Union[float, 'a']]]]]` -/
def g2W : Graph :=
  { models := [{ idx := "1A", fields := [("p", .ptr "1D"), ("q", .list (.ptr "1D"))], name := some "Root",
                 nameGen := some false },
               { idx := "1D", fields := [("g", .int), ("f", tW3)] }],
    ptrs := [⟨"1A", none, none⟩, ⟨"1D", some "1A", some "p"⟩, ⟨"1D", some "1A", some "q"⟩],
    counter := 4 }

theorem optimizeModelW1 (so : StrOracle) : optimizeModel cfgW so g1W "1D" = .ok g2W := by
  unfold optimizeModel
  have hf : g1W.find? "1D" = some { idx := "1D", fields := [("g", .int), ("f", tW)] } := rfl
  simp only [hf, bind, Except.bind]
  have hfuel : Ty.fuelFor (.obj [("g", Ty.int), ("f", tW)]) = 122 + 18 := by
    simp [Ty.fuelFor, Ty.size, Ty.sizeFields, Ty.sizeList, tW, fA, fB]
  rw [hfuel, opt_1D]
  rfl

def m1A : Model :=
  { idx := "1A", fields := [("p", .ptr "1D"), ("q", .list (.ptr "1D"))], name := some "Root", nameGen := some false }

theorem optimizeModelW2 (so : StrOracle) : optimizeModel cfgW so g2W "1A" = .ok g2W := by
  unfold optimizeModel
  have hf : g2W.find? "1A" = some m1A := rfl
  simp only [hf, bind, Except.bind, m1A]
  have hfuel : Ty.fuelFor (.obj [("p", Ty.ptr "1D"), ("q", .list (.ptr "1D"))]) = 46 + 4 := by
    simp [Ty.fuelFor, Ty.size, Ty.sizeFields]
  rw [hfuel, opt_1A]
  rfl

theorem optimizeModelW3 (so : StrOracle) : optimizeModel cfgW so g2W "1D" = .ok g2W := by
  unfold optimizeModel
  have hf : g2W.find? "1D" = some { idx := "1D", fields := [("g", .int), ("f", tW3)] } := rfl
  simp only [hf, bind, Except.bind]
  have hfuel : Ty.fuelFor (.obj [("g", Ty.int), ("f", tW3)]) = 92 + 18 := by
    simp [Ty.fuelFor, Ty.size, Ty.sizeFields, Ty.sizeList, tW3]
  rw [hfuel, opt_1D']
  rfl

/-- **`merge_models` on the document of the defect report**, default merge policy: the merged model ends with
    `f : Optional[Union[bool, List[Optional[Union[float, 'a']]]]]` -/
theorem mergeW (so : StrOracle) : mergeModels cfgW so cmpsW g0W = .ok (g2W, [("1D", ["1B", "1C"])]) := by
  apply mergeModels_of simW groupsW (gm := g2W)
  · simp only [List.foldlM_cons, List.foldlM_nil, Reg.groupStep, bind, Except.bind]
    have hm : Reg.memsOf (Reg.idxs g0W) [1, 2] = ["1B", "1C"] := rfl
    rw [hm, mergeGroupW]
    simp only [optimizeModelW1, pure, Except.pure]
    rfl
  · have hi : Reg.idxs g2W = ["1A", "1D"] := rfl
    rw [hi]
    simp only [List.foldlM_cons, List.foldlM_nil, bind, Except.bind, optimizeModelW2, optimizeModelW3]
    rfl

/-! ## 2. both passes are needed: `[{"p": {"x": [null]}, "q": {"x": []}, "r": {"x": [1]}},
      {"p": {"x": []}, "q": {"x": []}, "r": {"x": [1]}}]` -/

/-- `merge_models` without its final `optimize_type` pass over all models -/
def mergeModelsNoFinal (cfg : GenCfg) (so : StrOracle) (cmps : List Cmp) (g : Graph) :
    Except PyErr (Graph × List (String × List String)) := do
  let tbl ← simTable cmps g
  match Closure.mergeGroups (Reg.simOfTbl tbl) g.models.length with
  | none => .error .outOfFuel
  | some groups => groups.foldlM (Reg.groupStep cfg so (Reg.idxs g)) (g, [])

/-- the registry after `process_meta_data` of the two samples (`C02RH.ExP.exP_build`):
    `1B = {x: List[Optional[Any]]}`, `1C = {x: List[Any]}`, `1D = {x: List[int]}` -/
def g0U : Graph :=
  { models := [{ idx := "1A", fields := [("p", .ptr "1B"), ("q", .ptr "1C"), ("r", .ptr "1D")],
                 name := some "Root", nameGen := some false },
               { idx := "1B", fields := [("x", .list (.opt .unknown))] },
               { idx := "1C", fields := [("x", .list .unknown)] },
               { idx := "1D", fields := [("x", .list .int)] }],
    ptrs := [⟨"1A", none, none⟩, ⟨"1B", some "1A", some "p"⟩, ⟨"1C", some "1A", some "q"⟩,
             ⟨"1D", some "1A", some "r"⟩],
    counter := 4 }

theorem simU : simTable cmpsW g0U = .ok [[false, false, false, false], [false, false, true, true],
    [false, false, false, true], [false, false, false, false]] := by rfl

theorem groupsU : Closure.mergeGroups (Reg.simOfTbl [[false, false, false, false], [false, false, true, true],
    [false, false, false, true], [false, false, false, false]]) g0U.models.length = some [[1, 2, 3]] := by rfl

theorem eqU1 (so : StrOracle) : (g0U.eqEnv so).eq (.list (.opt .unknown)) (.list .unknown) = .ok false := by rfl
theorem eqU2 (so : StrOracle) :
    (g0U.eqEnv so).eq (.union [.list .unknown, .list (.opt .unknown)]) (.list .int) = .ok false := by rfl

theorem mergeFieldsU (so : StrOracle) :
    mergeFieldSets cfgW.lit (g0U.eqEnv so) [[("x", .list (.opt .unknown))], [("x", .list .unknown)],
      [("x", .list .int)]] = .ok [("x", tU)] := by
  simp +decide [tU, mergeFieldSets, mergeFieldSets.go, mergeStep, mergeOne, Fields.get?, Fields.set, Fields.keys,
    Fields.has, Ty.isOpt, eqU1, eqU2, bind, Except.bind, pure, Except.pure, Ty.unionMembers,
    mkUnionMembers, flattenUnion, handleType, hashStr, Ty.isStr, cfgW]

def mRoot (i : String) : Model :=
  { idx := "1A", fields := [("p", .ptr i), ("q", .ptr i), ("r", .ptr i)], name := some "Root", nameGen := some false }

/-- after `_merge` of the group / after its `optimize_type` / after the final pass -/
def gU (t : Ty) : Graph :=
  { models := [mRoot "1E", { idx := "1E", fields := [("x", t)] }],
    ptrs := [⟨"1A", none, none⟩, ⟨"1E", some "1A", some "p"⟩, ⟨"1E", some "1A", some "q"⟩,
             ⟨"1E", some "1A", some "r"⟩],
    counter := 5 }

theorem mergeGroupU (so : StrOracle) : mergeGroup cfgW so g0U ["1B", "1C", "1D"] = .ok (gU tU, "1E") := by
  have h := mergeFieldsU so
  unfold mergeGroup
  simp only [bind, Except.bind]
  have hm : List.map (fun (x : Model) => x.fields) (List.filterMap g0U.find? ["1B", "1C", "1D"]) =
      [[("x", .list (.opt .unknown))], [("x", .list .unknown)], [("x", .list .int)]] := rfl
  rw [hm, h]
  rfl

theorem opt_xU (e : EqEnv) (n : Nat) (t t' : Ty) (h : ∀ m, optimize cfgW e (m + 9) t = .ok t') :
    optimize cfgW e (n + 10) (.obj [("x", t)]) = .ok (.obj [("x", t')]) := by
  rw [optimize]
  simp only [List.mapM_cons, List.mapM_nil, bind, Except.bind, pure, Except.pure, h n]

theorem opt_rootU (e : EqEnv) (n : Nat) :
    optimize cfgW e (n + 4) (.obj (mRoot "1E").fields) = .ok (.obj (mRoot "1E").fields) := by
  simp +decide [mRoot, optimize, bind, Except.bind, pure, Except.pure]

theorem optimizeModelU (so : StrOracle) (t t' : Ty) (h : ∀ e m, optimize cfgW e (m + 9) t = .ok t')
    (hf : ∃ k, Ty.fuelFor (.obj [("x", t)]) = k + 10) :
    optimizeModel cfgW so (gU t) "1E" = .ok (gU t') := by
  unfold optimizeModel
  have hfind : (gU t).find? "1E" = some { idx := "1E", fields := [("x", t)] } := rfl
  simp only [hfind, bind, Except.bind]
  obtain ⟨k, hk⟩ := hf
  rw [hk, opt_xU _ _ _ _ (h _)]
  rfl

theorem optimizeModelURoot (so : StrOracle) (t : Ty) : optimizeModel cfgW so (gU t) "1A" = .ok (gU t) := by
  unfold optimizeModel
  have hfind : (gU t).find? "1A" = some (mRoot "1E") := rfl
  simp only [hfind, bind, Except.bind]
  have hfuel : Ty.fuelFor (.obj (mRoot "1E").fields) = 46 + 4 := by
    simp [Ty.fuelFor, Ty.size, Ty.sizeFields, mRoot]
  rw [hfuel, opt_rootU]
  rfl

/-- without the final pass the merged model keeps `x : List[Optional[Union[int, Any]]]` … -/
theorem noFinalU (so : StrOracle) :
    mergeModelsNoFinal cfgW so cmpsW g0U = .ok (gU tU1, [("1E", ["1B", "1C", "1D"])]) := by
  unfold mergeModelsNoFinal
  simp only [bind, Except.bind, simU, groupsU]
  simp only [List.foldlM_cons, List.foldlM_nil, Reg.groupStep, bind, Except.bind]
  have hm : Reg.memsOf (Reg.idxs g0U) [1, 2, 3] = ["1B", "1C", "1D"] := rfl
  rw [hm, mergeGroupU]
  simp only [optimizeModelU so tU tU1 (fun e m => tU_pass1 e m) ⟨90, by decide⟩, pure, Except.pure]
  rfl

/-- … which the final pass turns into `x : List[Optional[int]]` -/
theorem mergeU (so : StrOracle) :
    mergeModels cfgW so cmpsW g0U = .ok (gU tU2, [("1E", ["1B", "1C", "1D"])]) := by
  apply mergeModels_of simU groupsU (gm := gU tU1)
  · have := noFinalU so
    unfold mergeModelsNoFinal at this
    simpa only [bind, Except.bind, simU, groupsU] using this
  · have hi : Reg.idxs (gU tU1) = ["1A", "1E"] := rfl
    rw [hi]
    simp only [List.foldlM_cons, List.foldlM_nil, bind, Except.bind, optimizeModelURoot,
      optimizeModelU so tU1 tU2 (fun e m => tU_pass2 e m) ⟨60, by decide⟩]
    rfl

end J2M.TwoPass.W
