/-
  C07 (generator level), part 4: Python `==` on pointer-free generator-stage metadata implies
  "equal up to order" (`ASim`), so skipping an incoming type that is `==` to the current one does not
  change the member set up to order.
-/
import J2M.Proofs.PermN
import J2M.Proofs.InhEq
namespace J2M.Perm
open J2M

theorem nsim_of_asim' {a b : Ty} (h : ASim a b) : NSim a b := by
  by_cases hu : a.isUnion = true
  · cases a <;> simp [Ty.isUnion] at hu
    obtain ⟨bs, rfl, hs⟩ := asim_union.1 h
    exact nsim_union_union.2 hs
  · exact nsim_of_asim (by simpa using hu) h

theorem pyEq_asim {so ms g K} :
    ∀ (fuel : Nat) (a b : Ty), Ty.Good K a → Ty.Good K b →
      pyEq so ms g fuel a b = some true → ASim a b := by
  intro fuel
  induction fuel with
  | zero => intro a b _ _ h; simp [pyEq] at h
  | succ fuel ih =>
    intro a b ga gb h
    cases a <;> cases b <;> try (simp [pyEq] at h; done)
    case int.int => exact ASim.refl _
    case float.float => exact ASim.refl _
    case bool.bool => exact ASim.refl _
    case str.str => exact ASim.refl _
    case null.null => exact ASim.refl _
    case unknown.unknown => exact ASim.refl _
    case ser.ser x y =>
      have : x = y := by simpa [pyEq] using h
      subst this; exact ASim.refl _
    case lit.lit o1 v1 o2 v2 =>
      have e : v1 = v2 := by simpa [pyEq] using h
      subst e
      simp only [Ty.good_lit] at ga gb
      have : o1 = o2 := by
        cases o1 <;> cases o2 <;> simp_all
      subst this; exact ASim.refl _
    case list.list x y =>
      have h' : pyEq so ms g fuel x y = some true := by simpa [pyEq] using h
      exact asim_list_list.2 (nsim_of_asim' (ih x y (by simpa using ga) (by simpa using gb) h'))
    case dict.dict x y =>
      have h' : pyEq so ms g fuel x y = some true := by simpa [pyEq] using h
      exact asim_dict_dict.2 (nsim_of_asim' (ih x y (by simpa using ga) (by simpa using gb) h'))
    case opt.opt x y =>
      have h' : pyEq so ms g fuel x y = some true := by simpa [pyEq] using h
      exact asim_opt_opt.2 (nsim_of_asim' (ih x y (by simpa using ga) (by simpa using gb) h'))
    case union.union xs ys =>
      rw [pyEq_union_eq] at h
      obtain ⟨hl, hp⟩ := eqListF_true h
      have hm : ∀ p ∈ (sortedMembers so ms xs).zip (sortedMembers so ms ys), ASim p.1 p.2 := by
        intro p hp'
        have hm := List.of_mem_zip hp'
        exact ih p.1 p.2 (Ty.good_union.1 ga _ (mem_sortByKey.1 hm.1))
          (Ty.good_union.1 gb _ (mem_sortByKey.1 hm.2)) (hp p hp')
      apply asim_union.2 ⟨ys, rfl, ?_, ?_⟩
      · intro x hx
        obtain ⟨y, hy⟩ := exists_zip_left (sortedMembers so ms xs) (sortedMembers so ms ys) (by omega) x
          (mem_sortByKey.2 hx)
        exact ⟨y, mem_sortByKey.1 (List.of_mem_zip hy).2, hm _ hy⟩
      · intro y hy
        obtain ⟨x, hx⟩ := exists_zip_right (sortedMembers so ms xs) (sortedMembers so ms ys) (by omega) y
          (mem_sortByKey.2 hy)
        exact ⟨x, mem_sortByKey.1 (List.of_mem_zip hx).1, hm _ hx⟩
    case tuple.tuple xs ys => simp at ga
    case obj.obj fa fb =>
      rw [pyEq_obj_eq] at h
      obtain ⟨hl, hp⟩ := eqFieldsF_true h
      simp only [Ty.good_obj] at ga gb
      have h1 : ∀ kv ∈ fa, ∃ u, (kv.1, u) ∈ fb ∧ NSim kv.2 u := by
        intro kv hkv
        obtain ⟨tb, htb, he⟩ := hp kv hkv
        exact ⟨tb, Fields.mem_of_get? htb,
          nsim_of_asim' (ih kv.2 tb (ga.2 kv hkv) (gb.2 _ (Fields.mem_of_get? htb)) he)⟩
      have sub : fa.map (·.1) ⊆ fb.map (·.1) := by
        intro k hk
        obtain ⟨kv, hkv, e⟩ := List.mem_map.1 hk
        obtain ⟨u, hu, _⟩ := h1 kv hkv
        rw [← e]; exact List.mem_map.2 ⟨_, hu, rfl⟩
      have sub' := subset_of_nodup_length _ _ ga.1 sub (by simp [hl])
      refine asim_obj_obj.2 ⟨h1, ?_⟩
      intro kv hkv
      have hk : kv.1 ∈ fa.map (·.1) := sub' (List.mem_map.2 ⟨kv, hkv, rfl⟩)
      obtain ⟨kv', hkv', e⟩ := List.mem_map.1 hk
      obtain ⟨u, hu, hs⟩ := h1 kv' hkv'
      have e1 := Fields.get?_of_mem gb.1 hu
      have e2 := Fields.get?_of_mem gb.1 (show (kv.1, kv.2) ∈ fb from hkv)
      rw [e] at e1
      rw [e1] at e2
      cases e2
      exact ⟨kv'.2, by rw [← e]; exact hkv', hs⟩
    case ptr.ptr i j => simp at ga

theorem eq_asim {K} {e : EqEnv} {a b : Ty} (ga : Ty.Good K a) (gb : Ty.Good K b)
    (h : e.eq a b = .ok true) : ASim a b := by
  unfold EqEnv.eq at h
  split at h
  · rename_i r hr
    simp only [pure, Except.pure, Except.ok.injEq] at h
    subst h
    exact pyEq_asim e.fuel a b ga gb hr
  · simp at h

/-- `==` between two overflowed literals is `True` whenever it returns at all -/
theorem eq_ovlit {e : EqEnv} {b : Bool} (h : e.eq (.lit true []) (.lit true []) = .ok b) : b = true := by
  unfold EqEnv.eq at h
  split at h
  · rename_i r hr
    simp only [pure, Except.pure, Except.ok.injEq] at h
    subst h
    cases hf : e.fuel with
    | zero => rw [hf] at hr; simp [pyEq] at hr
    | succ n => rw [hf] at hr; simpa [pyEq] using hr.symm
  · simp at h

end J2M.Perm
