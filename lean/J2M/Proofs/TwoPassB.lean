/-
  C08 at the registry stage, part B: ONE `optimize_type` pass takes an `out` type ("one pass from normal") to a
  normal form (`nf`).
-/
import J2M.Proofs.TwoPassDefs
namespace J2M.TwoPass
open J2M J2M.C08P

/-! ## 1. generic helpers -/

theorem mapM_id_of {α ε} (g : α → Except ε α) (l r : List α) (h : l.mapM g = .ok r)
    (hid : ∀ x ∈ l, ∀ y, g x = .ok y → y = x) : r = l := by
  induction l generalizing r with
  | nil => exact mapM_nil_inv g r h
  | cons x l ih =>
    obtain ⟨y, r', hy, hr', rfl⟩ := mapM_cons_inv g x l r h
    rw [hid x (by simp) y hy, ih r' hr' (fun z hz => hid z (by simp [hz]))]

theorem mapM_single_inv {α β ε} (g : α → Except ε β) (a : α) (r : List β) (h : [a].mapM g = .ok r) :
    ∃ y, g a = .ok y ∧ r = [y] := by
  obtain ⟨y, r', hy, hr', rfl⟩ := mapM_cons_inv g a [] r h
  rw [mapM_nil_inv g r' hr']
  exact ⟨y, hy, rfl⟩

theorem filter_le_one_of_sublist {l l' : List Ty} (p : Ty → Bool) (hs : l'.Sublist l)
    (h : (l.filter p).length ≤ 1) : (l'.filter p).length ≤ 1 :=
  Nat.le_trans (hs.filter p).length_le h

/-- the tail of `_optimize_union` on a member list that is member-wise normal and has at most one `Unknown` -/
theorem finish_nf' {c : LitCfg} {types : List Ty} {t' : Ty} (ok : TysOK c types)
    (hunk : (types.filter Ty.isUnknown).length ≤ 1) (h : finishOpt c types = .ok t') : nf t' = true := by
  match types, h with
  | [], h => simp [finishOpt] at h
  | [t], h =>
    simp only [finishOpt, pure, Except.pure, Except.ok.injEq] at h
    subst h; exact ok.nf _ (by simp)
  | a :: b :: rest, h =>
    rw [finishOpt_ge2 _ _ (by simp)] at h
    simp only [Except.ok.injEq] at h
    have hsub1 := dropUnknown_sublist (a :: b :: rest)
    have hsub2 : ((dropUnknown (a :: b :: rest)).filter (fun t => !t.isNull)).Sublist (a :: b :: rest) :=
      (List.filter_sublist).trans hsub1
    have ok' := ok.sublist hsub2
    have hnu : ∀ t ∈ (dropUnknown (a :: b :: rest)).filter (fun t => !t.isNull),
        t.isNull = false ∧ t.isUnknown = false := by
      intro t ht
      rw [List.mem_filter] at ht
      exact ⟨by simpa using ht.2, dropUnknown_none _ hunk t ht.1⟩
    obtain ⟨h1, h2⟩ := union_nf ok' hnu
    subst h
    split
    · simp only [nf, Bool.and_eq_true, Bool.not_eq_true']; exact ⟨h2, h1⟩
    · exact h1

/-! ## 2. the expanded member list of an `out` union (possibly with the `Null` of an unwrapped `Optional`) -/

/-- hypotheses of the one-pass step on an (expanded) member list -/
structure OutE (cfg : GenCfg) (E : List Ty) : Prop where
  flat : ∀ t ∈ E, t.isUnion = false
  noOpt : ∀ t ∈ E, t.isOpt = false
  mem : ∀ t ∈ E, out cfg t = true
  oneInt : (E.filter Ty.isInt).length ≤ 1
  oneUnknown : (E.filter Ty.isUnknown).length ≤ 1
  oneList : (E.filter Ty.isList).length ≤ 1
  oneDict : (E.filter Ty.isDict).length ≤ 1
  oneLit : (E.filter Ty.isLit).length ≤ 1

theorem OutE.plain {cfg : GenCfg} {E : List Ty} (h : OutE cfg E) : Plain cfg E := by
  refine ⟨h.noOpt, ?_, ?_⟩
  · intro t ht
    have := h.mem t ht
    cases t <;> simp_all [Ty.isObj, TwoPass.out]
  · intro t ht k hk
    have := h.mem t ht
    subst hk
    simpa [TwoPass.out] using this

theorem OutE.of_union {cfg : GenCfg} {ms : List Ty} (h : out cfg (.union ms) = true) : OutE cfg ms := by
  obtain ⟨u, hm⟩ := out_union h
  exact ⟨u.flat, u.noOpt, hm, u.oneInt, u.oneUnknown, u.oneList, u.oneDict, u.oneLit⟩

/-- adding the `Null` of an unwrapped `Optional` in front -/
theorem OutE.cons_null {cfg : GenCfg} {E : List Ty} (h : OutE cfg E) : OutE cfg (.null :: E) := by
  refine ⟨?_, ?_, ?_, ?_, ?_, ?_, ?_, ?_⟩
  · intro t ht; rcases List.mem_cons.mp ht with rfl | ht
    · rfl
    · exact h.flat t ht
  · intro t ht; rcases List.mem_cons.mp ht with rfl | ht
    · rfl
    · exact h.noOpt t ht
  · intro t ht; rcases List.mem_cons.mp ht with rfl | ht
    · rfl
    · exact h.mem t ht
  · simpa [List.filter_cons, Ty.isInt] using h.oneInt
  · simpa [List.filter_cons, Ty.isUnknown] using h.oneUnknown
  · simpa [List.filter_cons, Ty.isList] using h.oneList
  · simpa [List.filter_cons, Ty.isDict] using h.oneDict
  · simpa [List.filter_cons, Ty.isLit] using h.oneLit

theorem OutE.single {cfg : GenCfg} {x : Ty} (hu : x.isUnion = false) (ho : x.isOpt = false)
    (hx : out cfg x = true) : OutE cfg [x] := by
  refine ⟨by simpa using hu, by simpa using ho, by simpa using hx, ?_, ?_, ?_, ?_, ?_⟩ <;>
    exact Nat.le_trans (List.length_filter_le _ _) (by simp)

/-- `DUnion(*X)` of such a list is such a list -/
theorem OutE.mkUM {cfg : GenCfg} {X : List Ty} (h : OutE cfg X) : OutE cfg (mkUnionMembers cfg.lit X) := by
  have o := mkUnionMembers_out cfg.lit X
  have hfl := flattenUnion_of_flat X h.flat
  have hmem : ∀ m ∈ mkUnionMembers cfg.lit X, (m ∈ X ∧ m.isLit = false) ∨ m = .str ∨
      ∃ vs, m = .lit false vs ∧ vs ≠ [] ∧ mkLit cfg.lit vs = .lit false vs := by
    intro m hm
    rcases mem_mkUM hm with ⟨h1, h2⟩ | h1 | h1
    · rw [hfl] at h1; exact Or.inl ⟨h1, h2⟩
    · exact Or.inr (Or.inl h1)
    · exact Or.inr (Or.inr h1)
  have hcount : ∀ (p : Ty → Bool), (∀ t, p t = true → t.isLit = false ∧ t.isStr = false) →
      (X.filter p).length ≤ 1 → ((mkUnionMembers cfg.lit X).filter p).length ≤ 1 := by
    intro p hp h1
    have := mkUM_filter_le cfg.lit X p hp
    rw [hfl] at this
    omega
  refine ⟨o.flat, ?_, ?_, hcount _ isInt_nls h.oneInt, hcount _ ?_ h.oneUnknown, hcount _ isList_nls h.oneList,
    hcount _ isDict_nls h.oneDict, o.oneLit⟩
  · intro m hm
    rcases hmem m hm with ⟨h1, _⟩ | rfl | ⟨vs, rfl, _⟩
    · exact h.noOpt m h1
    · rfl
    · rfl
  · intro m hm
    rcases hmem m hm with ⟨h1, _⟩ | rfl | ⟨vs, rfl, hne, hmk⟩
    · exact h.mem m h1
    · rfl
    · exact out_lit_of hne (mkLit_goodLits hmk)
  · intro t ht; cases t <;> simp_all [Ty.isUnknown, Ty.isLit, Ty.isStr]

/-! ## 3. the "other" prefix and the assembled member list -/

/-- facts about the "other" prefix (as `C08P.OPre`, with model pointers) -/
structure OPre' (c : LitCfg) (O : List Ty) : Prop where
  kind : ∀ t ∈ O, t.kindN = 0 ∨ t.kindN = 1 ∨ t.kindN = 2 ∨ t.kindN = 4 ∨ t.kindN = 5 ∨ t.kindN = 7 ∨ t.kindN = 14
  nf : ∀ t ∈ O, nf t = true
  intFloat : ¬ (O.any Ty.isInt = true ∧ O.any Ty.isFloat = true)
  oneLit : (O.filter Ty.isLit).length ≤ 1
  goodLit : ∀ o vs, Ty.lit o vs ∈ O → o = false ∧ goodLits c vs
  oneUnknown : (O.filter Ty.isUnknown).length ≤ 1

theorem tysOK_assemble' {c : LitCfg} {O Tl Td Ts : List Ty} (hO : OPre' c O)
    (hl : Seg 8 8 Tl) (hd : Seg 9 9 Td) (hs : Seg 3 6 Ts) :
    TysOK c (O ++ Tl ++ Td ++ Ts) ∧ ((O ++ Tl ++ Td ++ Ts).filter Ty.isUnknown).length ≤ 1 := by
  have kinds : ∀ t ∈ O ++ Tl ++ Td ++ Ts,
      (t ∈ O ∧ (t.kindN = 0 ∨ t.kindN = 1 ∨ t.kindN = 2 ∨ t.kindN = 4 ∨ t.kindN = 5 ∨ t.kindN = 7 ∨ t.kindN = 14)) ∨
      (t.kindN = 8 ∨ t.kindN = 9 ∨ t.kindN = 3 ∨ t.kindN = 6) := by
    intro t ht
    simp only [List.mem_append] at ht
    rcases ht with ((h | h) | h) | h
    · exact Or.inl ⟨h, hO.kind t h⟩
    · have := hl.kind t h; right; omega
    · have := hd.kind t h; right; omega
    · have := hs.kind t h; right; omega
  have fO : ∀ (q : Ty → Bool) (kq : Nat), (∀ t, q t = (t.kindN == kq)) →
      kq ≠ 0 → kq ≠ 1 → kq ≠ 2 → kq ≠ 4 → kq ≠ 5 → kq ≠ 7 → kq ≠ 14 → O.filter q = [] := by
    intro q kq hq _ _ _ _ _ _ _
    apply filter_nil_of_kind; intro t ht; rw [hq]; have := hO.kind t ht; simp; omega
  have fS : ∀ {k k' : Nat} {seg : List Ty} (_ : Seg k k' seg) (q : Ty → Bool) (kq : Nat),
      (∀ t, q t = (t.kindN == kq)) → kq ≠ k → kq ≠ k' → seg.filter q = [] := by
    intro k k' seg hseg q kq hq _ _
    apply filter_nil_of_kind; intro t ht; rw [hq]; have := hseg.kind t ht; simp; omega
  have lenS : ∀ {k k' : Nat} {seg : List Ty} (_ : Seg k k' seg) (q : Ty → Bool), (seg.filter q).length ≤ 1 :=
    fun hseg q => Nat.le_trans (List.length_filter_le _ _) hseg.len
  refine ⟨⟨?_, ?_, ?_, ?_, ?_, ?_, ?_, ?_, ?_, ?_⟩, ?_⟩
  · intro t ht
    simp only [List.mem_append] at ht
    rcases ht with ((h | h) | h) | h
    · exact hO.nf t h
    · exact hl.nf t h
    · exact hd.nf t h
    · exact hs.nf t h
  · intro t ht; rw [isUnion_kind]; rcases kinds t ht with ⟨_, h⟩ | h <;> simp <;> omega
  · intro t ht; rw [isOpt_kind]; rcases kinds t ht with ⟨_, h⟩ | h <;> simp <;> omega
  · intro ⟨h1, h2⟩
    apply hO.intFloat
    rw [List.any_eq_true] at h1 h2 ⊢
    obtain ⟨a, ha, ha'⟩ := h1
    obtain ⟨b, hb, hb'⟩ := h2
    rw [isInt_kind] at ha'; rw [isFloat_kind] at hb'
    simp only [beq_iff_eq] at ha' hb'
    constructor
    · rcases kinds a ha with ⟨h, _⟩ | h
      · exact ⟨a, h, by rw [isInt_kind]; simp [ha']⟩
      · omega
    · rw [List.any_eq_true]
      rcases kinds b hb with ⟨h, _⟩ | h
      · exact ⟨b, h, by rw [isFloat_kind]; simp [hb']⟩
      · omega
  · simp only [List.filter_append]
    rw [fO _ 8 isList_kind (by omega) (by omega) (by omega) (by omega) (by omega) (by omega) (by omega),
      fS hd _ 8 isList_kind (by omega) (by omega), fS hs _ 8 isList_kind (by omega) (by omega)]
    simpa using lenS hl _
  · simp only [List.filter_append]
    rw [fO _ 9 isDict_kind (by omega) (by omega) (by omega) (by omega) (by omega) (by omega) (by omega),
      fS hl _ 9 isDict_kind (by omega) (by omega), fS hs _ 9 isDict_kind (by omega) (by omega)]
    simpa using lenS hd _
  · simp only [List.filter_append]
    rw [fO _ 13 isObj_kind (by omega) (by omega) (by omega) (by omega) (by omega) (by omega) (by omega),
      fS hl _ 13 isObj_kind (by omega) (by omega), fS hd _ 13 isObj_kind (by omega) (by omega),
      fS hs _ 13 isObj_kind (by omega) (by omega)]
    simp
  · simp only [List.filter_append]
    rw [fS hl _ 7 isLit_kind (by omega) (by omega),
      fS hd _ 7 isLit_kind (by omega) (by omega), fS hs _ 7 isLit_kind (by omega) (by omega)]
    simpa using hO.oneLit
  · intro o vs hm
    rcases kinds _ hm with ⟨h, _⟩ | h
    · exact hO.goodLit o vs h
    · simp [Ty.kindN] at h
  · simp only [List.filter_append]
    have e1 : O.filter (fun t => t.isStr || t.isSer) = [] := by
      apply filter_nil_of_kind; intro t ht; rw [isStr_kind, isSer_kind]
      have := hO.kind t ht; simp; omega
    have e2 : ∀ {k : Nat} {seg : List Ty} (_ : Seg k k seg), k ≠ 3 → k ≠ 6 →
        seg.filter (fun t => t.isStr || t.isSer) = [] := by
      intro k seg hseg _ _
      apply filter_nil_of_kind; intro t ht; rw [isStr_kind, isSer_kind]
      have := hseg.kind t ht; simp; omega
    rw [e1, e2 hl (by omega) (by omega), e2 hd (by omega) (by omega)]
    simpa using lenS hs _
  · simp only [List.filter_append]
    rw [fS hl _ 5 isUnknown_kind (by omega) (by omega), fS hd _ 5 isUnknown_kind (by omega) (by omega),
      fS hs _ 5 isUnknown_kind (by omega) (by omega)]
    simpa using hO.oneUnknown


/-! ## 4. the step on an expanded member list -/

theorem listEs_length (E : List Ty) : (listEs E).length = (E.filter Ty.isList).length := by
  induction E with
  | nil => rfl
  | cons t E ih => cases t <;> simp_all [listEs, Ty.isList, List.filter_cons]

theorem dictEs_length (E : List Ty) : (dictEs E).length = (E.filter Ty.isDict).length := by
  induction E with
  | nil => rfl
  | cons t E ih => cases t <;> simp_all [dictEs, Ty.isDict, List.filter_cons]

theorem length_le_one_cases {α} (l : List α) (h : l.length ≤ 1) : l = [] ∨ ∃ x, l = [x] := by
  match l, h with
  | [], _ => exact Or.inl rfl
  | [x], _ => exact Or.inr ⟨x, rfl⟩

/-- the claim for the element type of a rebuilt list/dict, at fuel `f` -/
def InnerAt (cfg : GenCfg) (e : EqEnv) (f : Nat) : Prop :=
  ∀ x y, out cfg x = true → optimize cfg e f (mkUnion cfg.lit [x]) = .ok y → nf y = true

/-- the claim for an expanded member list, at fuel `f` -/
def BodyAt (cfg : GenCfg) (e : EqEnv) (f : Nat) : Prop :=
  ∀ E t', OutE cfg E → unionBody cfg e f (E.foldl (splitStep cfg.reg) {}) = .ok t' → nf t' = true

/-- the claim for a type, at fuel `f` -/
def TypeAt (cfg : GenCfg) (e : EqEnv) (f : Nat) : Prop :=
  ∀ t t', out cfg t = true → optimize cfg e f t = .ok t' → nf t' = true

theorem out_not_tuple {cfg : GenCfg} {t : Ty} (h : out cfg t = true) : t.isTuple = false := by
  cases t <;> simp_all [Ty.isTuple, out]

theorem body_step {cfg : GenCfg} {e : EqEnv} {f : Nat} (ihC : ∀ f', f' < f → InnerAt cfg e f') :
    BodyAt cfg e f := by
  intro E t' hE h
  obtain ⟨Sx, To, Tl, Td, Ts, hSx, hTo, hTl, hTd, hTs, hfin⟩ := body_inv hE.plain h
  have hsubO : (stageInt (E.filter isOtherCls)).Sublist E := (stageInt_sublist _).trans List.filter_sublist
  have hcls : ∀ m ∈ stageInt (E.filter isOtherCls), isOtherCls m = true :=
    fun m hm => (List.mem_filter.mp ((stageInt_sublist _).subset hm)).2
  have hToO : To = stageInt (E.filter isOtherCls) := by
    apply mapM_id_of _ _ _ hTo
    intro m hm y hy
    have hmE := hsubO.subset hm
    have hout := hE.mem m hmE
    rcases optimize_other (hcls m hm) (hE.noOpt m hmE) (hE.flat m hmE) (out_not_tuple hout) hy with ⟨h1, _⟩ | ⟨_, hb⟩
    · exact h1
    · exfalso
      cases m <;> simp [Ty.isBadLit] at hb
      rename_i o vs
      obtain ⟨rfl, hne, _⟩ := out_lit hout
      rcases hb with hb | hb
      · cases hb
      · exact hne hb
  subst hToO
  have hO : OPre' cfg.lit (stageInt (E.filter isOtherCls)) := by
    refine ⟨?_, ?_, ?_, ?_, ?_, ?_⟩
    · intro m hm
      have hmE := hsubO.subset hm
      have h1 := hcls m hm
      have h2 := hE.noOpt m hmE
      have h3 := hE.flat m hmE
      have h4 := out_not_tuple (hE.mem m hmE)
      have h5 := hE.mem m hmE
      cases m <;> simp_all [isOtherCls, Ty.cls, Ty.kindN, Ty.isOpt, Ty.isUnion, Ty.isTuple, out]
    · intro m hm
      have hmE := hsubO.subset hm
      have h1 := hcls m hm
      have h2 := hE.noOpt m hmE
      have h3 := hE.flat m hmE
      have h5 := hE.mem m hmE
      cases m with
      | lit o vs =>
        obtain ⟨rfl, hne, _⟩ := out_lit h5
        simp [nf, hne]
      | int | float | bool | str | null | unknown | ser _ | ptr _ => simp [nf]
      | list _ | dict _ | obj _ => simp [isOtherCls, Ty.cls] at h1
      | opt _ => simp [Ty.isOpt] at h2
      | union _ => simp [Ty.isUnion] at h3
      | tuple _ => simp [out] at h5
    · exact stageInt_not_both _ (filter_le_one_of_sublist _ List.filter_sublist hE.oneInt)
    · exact filter_le_one_of_sublist _ hsubO hE.oneLit
    · intro o vs hm
      obtain ⟨h1, _, h3⟩ := out_lit (hE.mem _ (hsubO.subset hm))
      exact ⟨h1, h3⟩
    · exact filter_le_one_of_sublist _ hsubO hE.oneUnknown
  have hkk : ∀ k : Nat, k = 8 ∨ k = 9 → (k = 13 ∨ k = 8 ∨ k = 9 ∨ k = 3 ∨ k = 6) := by intro k hk; omega
  have segL : Seg 8 8 Tl := by
    apply seg_mapM (by omega) (by omega) _ _ hTl
    · split <;> simp
    · intro x hx
      split at hx
      · cases hx
      · simp at hx; subst hx
        refine ⟨by simp [Ty.kindN], fun b hb => ?_⟩
        have hlen : (listEs E).length ≤ 1 := by rw [listEs_length]; exact hE.oneList
        rcases length_le_one_cases _ hlen with h0 | ⟨x, h1⟩
        · rename_i hne; rw [h0] at hne; simp at hne
        · rw [h1] at hb
          have hxE : Ty.list x ∈ E := mem_listEs (by rw [h1]; simp)
          have hxo : out cfg x = true := by simpa [out] using hE.mem _ hxE
          cases f with
          | zero => simp [optimize] at hb
          | succ f1 =>
            rw [optimize] at hb
            simp only [bind, Except.bind] at hb
            split at hb
            · cases hb
            · rename_i z hz
              simp only [pure, Except.pure, Except.ok.injEq] at hb; subst hb
              simp only [nf]
              exact ihC f1 (by omega) x z hxo hz
  have segD : Seg 9 9 Td := by
    apply seg_mapM (by omega) (by omega) _ _ hTd
    · split <;> simp
    · intro x hx
      split at hx
      · cases hx
      · simp at hx; subst hx
        refine ⟨by simp [Ty.kindN], fun b hb => ?_⟩
        have hlen : (dictEs E).length ≤ 1 := by rw [dictEs_length]; exact hE.oneDict
        rcases length_le_one_cases _ hlen with h0 | ⟨x, h1⟩
        · rename_i hne; rw [h0] at hne; simp at hne
        · rw [h1] at hb
          have hxE : Ty.dict x ∈ E := mem_dictEs (by rw [h1]; simp)
          have hxo : out cfg x = true := by simpa [out] using hE.mem _ hxE
          cases f with
          | zero => simp [optimize] at hb
          | succ f1 =>
            rw [optimize] at hb
            simp only [bind, Except.bind] at hb
            split at hb
            · cases hb
            · rename_i z hz
              simp only [pure, Except.pure, Except.ok.injEq] at hb; subst hb
              simp only [nf]
              exact ihC f1 (by omega) x z hxo hz
  have segS : Seg 3 6 Ts := by
    apply seg_mapM (by omega) (by omega) _ _ hTs
    · rcases hSx with rfl | rfl | ⟨k, rfl, _⟩ <;> simp
    · intro x hx
      rcases hSx with rfl | rfl | ⟨k, rfl, _⟩
      · cases hx
      · simp at hx; subst hx
        refine ⟨by simp [Ty.kindN], fun b hb => ?_⟩
        cases f with
        | zero => simp [optimize] at hb
        | succ f1 => simp [optimize, pure, Except.pure] at hb; subst hb; simp [nf]
      · simp at hx; subst hx
        refine ⟨by simp [Ty.kindN], fun b hb => ?_⟩
        cases f with
        | zero => simp [optimize] at hb
        | succ f1 => simp [optimize, pure, Except.pure] at hb; subst hb; simp [nf]
  obtain ⟨ok, hunk⟩ := tysOK_assemble' hO segL segD segS
  exact finish_nf' ok hunk hfin


/-! ## 5. the element type of a rebuilt list/dict -/

theorem mkUM_single_plain (c : LitCfg) (x : Ty) (hl : x.isLit = false) (hu : x.isUnion = false) :
    mkUnionMembers c [x] = [x] := by
  have := mkUM_canon c [x] [] [] (by simpa using ⟨hl, hu⟩) (by simp) (Or.inl rfl)
  simpa using this

theorem mkUM_unionMembers (c : LitCfg) (x : Ty) : mkUnionMembers c [x] = mkUnionMembers c x.unionMembers := by
  cases x <;> first | rfl | exact mkUM_singleton_union c _

theorem fold_cons_null (reg : StrRegistry) (zs : List Ty) :
    zs.foldl (splitStep reg) { other := [Ty.null] } = (Ty.null :: zs).foldl (splitStep reg) {} := rfl

theorem inner_step {cfg : GenCfg} {e : EqEnv} {f : Nat} (ihB : ∀ f', f' < f → BodyAt cfg e f') :
    InnerAt cfg e f := by
  intro x y hx h
  cases f with
  | zero => simp [optimize] at h
  | succ f1 =>
  unfold mkUnion at h
  rw [optimize] at h
  cases f1 with
  | zero => simp [optimizeUnion] at h
  | succ f2 =>
  by_cases hopt : x.isOpt = true
  · -- the element type is `Optional[z]`
    cases x <;> simp [Ty.isOpt] at hopt
    rename_i z
    have hz : z.isOpt = false ∧ out cfg z = true := by
      simpa [out] using hx
    rw [mkUM_single_plain _ _ rfl rfl] at h
    by_cases hzu : z.isUnion = true
    · cases z <;> simp [Ty.isUnion] at hzu
      rename_i zs
      obtain ⟨u, _⟩ := out_union hz.2
      rw [optimizeUnion_split, splitMembers_opt_union _ _
        (fun t ht => hidden_false_of (u.flat t ht) (u.noOpt t ht)), fold_cons_null] at h
      exact ihB f2 (by omega) _ _ (OutE.of_union hz.2).cons_null h
    · have hzu' : z.isUnion = false := by simpa using hzu
      rw [optimizeUnion_body _ _ _ _ (by
        intro t ht; simp at ht; subst ht; exact hidden_false_opt hzu')] at h
      rw [List.foldl_cons, List.foldl_nil, splitStep_opt _ _ _ hz.1] at h
      have : splitStep cfg.reg { other := ({} : Split).other ++ [Ty.null] } z =
          [Ty.null, z].foldl (splitStep cfg.reg) {} := rfl
      rw [this] at h
      exact ihB f2 (by omega) _ _ (OutE.single hzu' hz.1 hz.2).cons_null h
  · have hopt' : x.isOpt = false := by simpa using hopt
    rw [mkUM_unionMembers] at h
    have hX : OutE cfg x.unionMembers := by
      by_cases hxu : x.isUnion = true
      · cases x <;> simp [Ty.isUnion] at hxu
        exact OutE.of_union hx
      · have hxu' : x.isUnion = false := by simpa using hxu
        have : x.unionMembers = [x] := by cases x <;> simp_all [Ty.unionMembers, Ty.isUnion]
        rw [this]
        exact OutE.single hxu' hopt' hx
    have hU := hX.mkUM
    rw [optimizeUnion_body _ _ _ _ (fun t ht => hidden_false_of (hU.flat t ht) (hU.noOpt t ht))] at h
    exact ihB f2 (by omega) _ _ hU h

/-! ## 6. a type -/

theorem type_step {cfg : GenCfg} {e : EqEnv} {f : Nat} (ihA : ∀ f', f' < f → TypeAt cfg e f')
    (ihB : ∀ f', f' < f → BodyAt cfg e f') : TypeAt cfg e f := by
  intro t t' ht h
  cases f with
  | zero => simp [optimize] at h
  | succ f1 =>
  cases t with
  | int | float | bool | str | null | unknown | ser _ | ptr _ =>
    simp [optimize, pure, Except.pure] at h; subst h; simp [nf]
  | tuple _ | obj _ => simp [out] at ht
  | lit ov vs =>
    obtain ⟨rfl, hne, _⟩ := out_lit ht
    rw [optimize] at h
    simp only [Bool.false_or, List.isEmpty_iff, hne, ↓reduceIte, pure, Except.pure,
      Except.ok.injEq] at h
    subst h; simp [nf, hne]
  | list x =>
    rw [optimize] at h
    simp only [bind, Except.bind] at h
    split at h
    · cases h
    · rename_i y hy
      simp only [pure, Except.pure, Except.ok.injEq] at h; subst h
      simp only [nf]
      exact ihA f1 (by omega) x y (by simpa [out] using ht) hy
  | dict x =>
    rw [optimize] at h
    simp only [bind, Except.bind] at h
    split at h
    · cases h
    · rename_i y hy
      simp only [pure, Except.pure, Except.ok.injEq] at h; subst h
      simp only [nf]
      exact ihA f1 (by omega) x y (by simpa [out] using ht) hy
  | opt x =>
    rw [optimize] at h
    simp only [bind, Except.bind] at h
    split at h
    · cases h
    · rename_i y hy
      have hxo : out cfg x = true := by
        have : x.isOpt = false ∧ out cfg x = true := by simpa [out] using ht
        exact this.2
      have hy' := ihA f1 (by omega) x y hxo hy
      split at h
      · simp only [pure, Except.pure, Except.ok.injEq] at h; subst h; exact hy'
      · rename_i hno
        simp only [pure, Except.pure, Except.ok.injEq] at h; subst h
        simp only [nf, Bool.and_eq_true, Bool.not_eq_true']
        refine ⟨?_, hy'⟩
        cases y <;> first | rfl | exact absurd rfl (hno _)
  | union ms =>
    rw [optimize] at h
    cases f1 with
    | zero => simp [optimizeUnion] at h
    | succ f2 =>
      obtain ⟨u, _⟩ := out_union ht
      rw [optimizeUnion_body _ _ _ _ (fun t ht' => hidden_false_of (u.flat t ht') (u.noOpt t ht'))] at h
      exact ihB f2 (by omega) _ _ (OutE.of_union ht) h

/-! ## 7. the induction on fuel -/

theorem out_all (cfg : GenCfg) (e : EqEnv) : ∀ f, TypeAt cfg e f ∧ BodyAt cfg e f ∧ InnerAt cfg e f := by
  intro f
  induction f using Nat.strongRecOn with
  | ind f ih =>
    have hB : BodyAt cfg e f := body_step (fun f' hf' => (ih f' hf').2.2)
    exact ⟨type_step (fun f' hf' => (ih f' hf').1) (fun f' hf' => (ih f' hf').2.1), hB,
      inner_step (fun f' hf' => (ih f' hf').2.1)⟩

/-- **one pass from `out` reaches the normal form**: whatever the fuel and the comparison environment, if
    `optimize_type` returns on an `out` type, the result is in normal form -/
theorem optimize_out_nf (cfg : GenCfg) (e : EqEnv) (f : Nat) (t t' : Ty) (ht : out cfg t = true)
    (h : optimize cfg e f t = .ok t') : nf t' = true :=
  (out_all cfg e f).1 t t' ht h

end J2M.TwoPass
