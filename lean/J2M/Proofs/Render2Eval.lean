/-
  An evaluable form of the renderer and of the nested layout, for the concrete examples: `String.splitOn` (in
  `indentBlock`) and the mutual recursion `buildNode`/`buildNodes` are compiled by well-founded recursion and do not
  reduce in the kernel.  `generateCodeI indentBlockL` and `composeNestedE` are equal to the model functions and reduce.
-/
import J2M.Proofs.Render2Twice
import J2M.Proofs.Render2Split
namespace J2M.Rend2

/-- `genClass` with an explicit indentation function -/
def genClassI (ind : String → String) (c : RenderCfg) (o : RenderOracles) (e : RefEnv) (m : Model) (nested : List String) :
    Except PyErr (List Imp × String) :=
  (classParts c o e m).map (fun p => (p.1, p.2.1 ++ nestedPartI ind nested ++ p.2.2))

def renderGensI (ind : String → String) (c : RenderCfg) (o : RenderOracles) (g : Graph) (inj : List (String × String))
    (names : NameMap) (gens : List (String × List String)) : Except PyErr (List (List Imp × String)) :=
  gens.mapM (fun (p : String × List String) => genClassI ind c o ⟨names, inj⟩ (modelAt g names p.1) p.2)

def renderLevelI (ind : String → String) (c : RenderCfg) (o : RenderOracles) (g : Graph) (inj : List (String × String)) :
    Nat → NameMap → List Node → Except PyErr (NameMap × List Imp × List (String × List String))
  | 0, _, _ => .error .outOfFuel
  | _, names, [] => pure (names, [], [])
  | fuel + 1, names, .mk idx nested :: rest => do
    let r1 ← renderLevelI ind c o g inj fuel names nested
    let rs ← renderGensI ind c o g inj r1.1 r1.2.2
    let names2 ← convertNameAt c o r1.1 idx
    let r3 ← renderLevelI ind c o g inj fuel names2 rest
    pure (r3.1, r1.2.1 ++ rs.flatMap (·.1) ++ r3.2.1, (idx, rs.map (·.2)) :: r3.2.2)

def generateCodeI (ind : String → String) (c : RenderCfg) (o : RenderOracles) (g : Graph) (roots : List Node)
    (inj : List (String × String)) (pre : Option String) : Except PyErr (String × NameMap) := do
  let N0 ← prepareNames c o (names0 g) roots
  let r ← renderLevelI ind c o g inj (g.models.length + 2) N0 roots
  let rs ← renderGensI ind c o g inj r.1 r.2.2
  pure (finishText pre r.2.1 rs, r.1)

theorem genClassI_eq (c : RenderCfg) (o : RenderOracles) (e : RefEnv) (m : Model) (nested : List String) :
    genClassI indentBlock c o e m nested = genClass c o e m nested := by
  rw [genClass_parts]; rfl

theorem renderGensI_eq (c : RenderCfg) (o : RenderOracles) (g : Graph) (inj : List (String × String))
    (names : NameMap) (gens : List (String × List String)) :
    renderGensI indentBlock c o g inj names gens = renderGens c o g inj names gens := by
  unfold renderGensI renderGens
  simp only [genClassI_eq]

theorem renderLevelI_eq (c : RenderCfg) (o : RenderOracles) (g : Graph) (inj : List (String × String)) :
    ∀ (fuel : Nat) (names : NameMap) (nodes : List Node),
      renderLevelI indentBlock c o g inj fuel names nodes = renderLevel c o g inj fuel names nodes := by
  intro fuel
  induction fuel with
  | zero => intro names nodes; simp [renderLevel, renderLevelI]
  | succ fuel ih =>
    intro names nodes
    cases nodes with
    | nil => simp [renderLevel, renderLevelI]
    | cons n rest =>
      obtain ⟨idx, nested⟩ := n
      rw [renderLevel_cons]
      simp only [renderLevelI, ih, renderGensI_eq]

/-- **generateCode_evaluable** -/
theorem generateCode_evaluable (c : RenderCfg) (o : RenderOracles) (g : Graph) (roots : List Node)
    (inj : List (String × String)) (pre : Option String) :
    generateCode c o g roots inj pre = generateCodeI indentBlockL c o g roots inj pre := by
  rw [generateCode_eq, ← indentBlock_eq]
  unfold generateCodeI
  simp only [renderLevelI_eq, renderGensI_eq]

theorem ok_of_toOption {α : Type} {x : Except PyErr α} {a : α} (h : x.toOption = some a) : x = .ok a := by
  cases x with
  | error e => simp [Except.toOption] at h
  | ok b => simp [Except.toOption] at h; rw [h]

/-- a checkable certificate for the value of `generateCode` -/
theorem generateCode_of_eval {c : RenderCfg} {o : RenderOracles} {g : Graph} {roots : List Node}
    {inj : List (String × String)} {pre : Option String} {r : String × NameMap}
    (h : (generateCodeI indentBlockL c o g roots inj pre).toOption = some r) :
    generateCode c o g roots inj pre = .ok r := by
  rw [generateCode_evaluable]; exact ok_of_toOption h

/-! ### configuration and oracles of the examples -/

/-- oracles that are the identity on the names involved (word characters only, ASCII) -/
def exOracles : RenderOracles where
  label := { unidecode := some, stripW := some, underscore := some, lowerAz := fun _ => some false }
  isPrintable := fun _ => true

def exCfg (fw : Framework) : RenderCfg where
  fw := fw
  maxLiterals := 10
  postInit := false
  convertUnicode := true
  withMeta := false
  decoKwargs := []
  literalModule := "typing"
  blacklist := ["class", "List"]
  serInfo := []
  metadataFieldName := "J2M_ORIGINAL_FIELD"

/-! ### the nested layout -/

/-- `buildNode` by structural recursion on the fuel -/
def buildNodeE (s : NestState) : Nat → String → Node
  | 0, k => .mk k []
  | fuel + 1, k => .mk k ((s.children k).map (buildNodeE s fuel))

theorem buildNodes_eq (s : NestState) : ∀ (fuel : Nat),
    (∀ k, buildNode s fuel k = buildNodeE s fuel k) ∧ ∀ ks, buildNodes s fuel ks = ks.map (buildNodeE s fuel) := by
  intro fuel
  induction fuel with
  | zero =>
    have h1 : ∀ k, buildNode s 0 k = buildNodeE s 0 k := fun k => by simp [buildNode, buildNodeE]
    refine ⟨h1, ?_⟩
    intro ks
    induction ks with
    | nil => simp [buildNodes]
    | cons k ks ih => simp [buildNodes, ih, h1]
  | succ fuel ih =>
    have h1 : ∀ k, buildNode s (fuel + 1) k = buildNodeE s (fuel + 1) k := fun k => by
      simp [buildNode, buildNodeE, ih.2]
    refine ⟨h1, ?_⟩
    intro ks
    induction ks with
    | nil => simp [buildNodes]
    | cons k ks ih2 => simp [buildNodes, ih2, h1]

def composeNestedE (g : Graph) : Except PyErr (List Node × List (String × String)) :=
  (composeNestedState g).map (fun s => (s.roots.map (buildNodeE s (g.models.length + 1)), s.pathInj))

theorem composeNested_evaluable (g : Graph) : composeNested g = composeNestedE g := by
  unfold composeNested composeNestedE
  cases composeNestedState g with
  | error e => rfl
  | ok s => simp [bind, Except.bind, Except.map, pure, Except.pure, (buildNodes_eq s _).2]

/-! ### comparing layout trees (`Node` has no `DecidableEq`) -/

mutual
def nodeBeq : Node → Node → Bool
  | .mk i ns, .mk j ms => i == j && nodesBeq ns ms
def nodesBeq : List Node → List Node → Bool
  | [], [] => true
  | a :: as, b :: bs => nodeBeq a b && nodesBeq as bs
  | _, _ => false
end

mutual
theorem nodeBeq_sound : ∀ (a b : Node), nodeBeq a b = true → a = b
  | .mk i ns, .mk j ms, h => by
    simp only [nodeBeq, Bool.and_eq_true, beq_iff_eq] at h
    rw [h.1, nodesBeq_sound ns ms h.2]
theorem nodesBeq_sound : ∀ (a b : List Node), nodesBeq a b = true → a = b
  | [], [], _ => rfl
  | a :: as, b :: bs, h => by
    simp only [nodesBeq, Bool.and_eq_true] at h
    rw [nodeBeq_sound a b h.1, nodesBeq_sound as bs h.2]
  | [], _ :: _, h => by simp [nodesBeq] at h
  | _ :: _, [], h => by simp [nodesBeq] at h
end

/-- a checkable certificate for the value of `composeNested` -/
def nestedCheck (g : Graph) (roots : List Node) (inj : List (String × String)) : Bool :=
  match composeNestedE g with
  | .ok r => nodesBeq r.1 roots && r.2 == inj
  | .error _ => false

theorem composeNested_of_check {g : Graph} {roots : List Node} {inj : List (String × String)}
    (h : nestedCheck g roots inj = true) : composeNested g = .ok (roots, inj) := by
  rw [composeNested_evaluable]
  unfold nestedCheck at h
  cases hc : composeNestedE g with
  | error e => rw [hc] at h; cases h
  | ok r =>
    rw [hc] at h
    simp only [Bool.and_eq_true, beq_iff_eq] at h
    obtain ⟨r1, r2⟩ := r
    have e1 : r1 = roots := nodesBeq_sound _ _ h.1
    have e2 : r2 = inj := h.2
    rw [e1, e2]

end J2M.Rend2
