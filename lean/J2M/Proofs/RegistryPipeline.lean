/-
  Registry-level development, part 7 (C01): `generate` → `process_meta_data` (`buildGraph`) → `merge_models`.
-/
import J2M.Proofs.RegistryProcess
import J2M.Props.C01
import J2M.Pipeline
namespace J2M.Reg
open J2M

mutual
theorem good_noPtr {K : String → Prop} : ∀ t : Ty, Ty.Good K t → ptrsOf t = []
  | .obj fs, h => by simp only [Ty.Good] at h; simpa [ptrsOf] using goodFields_noPtr fs h.2
  | .list t, h | .dict t, h | .opt t, h => by simp only [Ty.Good] at h; simpa [ptrsOf] using good_noPtr t h
  | .union ts, h => by simp only [Ty.Good] at h; simpa [ptrsOf] using goodList_noPtr ts h
  | .tuple _, h | .ptr _, h => by simp at h
  | .int, _ | .float, _ | .bool, _ | .str, _ | .null, _ | .unknown, _ | .ser _, _ | .lit _ _, _ => by simp [ptrsOf]
theorem goodList_noPtr {K : String → Prop} : ∀ ts : List Ty, Ty.GoodList K ts → ptrsOfList ts = []
  | [], _ => by simp [ptrsOfList]
  | t :: ts, h => by
    simp only [Ty.GoodList] at h
    simp [ptrsOfList, good_noPtr t h.1, goodList_noPtr ts h.2]
theorem goodFields_noPtr {K : String → Prop} : ∀ fs : List (String × Ty), Ty.GoodFields K fs → ptrsOfFields fs = []
  | [], _ => by simp [ptrsOfFields]
  | (k, t) :: fs, h => by
    simp only [Ty.GoodFields] at h
    simp [ptrsOfFields, good_noPtr t h.1, goodFields_noPtr fs h.2]
end

/-- one iteration of the `for name, data in models` loop of the CLI -/
def bgStep (cfg : GenCfg) (o : GenOracles) (g : Graph) (inp : String × List Json) : Except PyErr Graph := do
  match ← generate cfg o inp.2 with
  | .obj fs => pure (processMetaData g fs (some inp.1)).1
  | _ => throw PyErr.typeError

theorem buildGraph_eq (cfg : GenCfg) (o : GenOracles) (inputs : List (String × List Json)) :
    buildGraph cfg o inputs = inputs.foldlM (bgStep cfg o) {} := rfl

theorem bgStep_ok {cfg : GenCfg} {o : GenOracles} {g g' : Graph} {inp : String × List Json}
    (h : bgStep cfg o g inp = .ok g') :
    ∃ fs, generate cfg o inp.2 = .ok (.obj fs) ∧ g' = (processMetaData g fs (some inp.1)).1 := by
  unfold bgStep at h
  simp only [bind, Except.bind] at h
  split at h
  · simp at h
  · rename_i t ht
    split at h
    · simp only [pure, Except.pure, Except.ok.injEq] at h
      exact ⟨_, ht, h.symm⟩
    · simp [throw, throwThe, MonadExceptOf.throw] at h

/-- the pseudo-type kinds of a configuration -/
abbrev KOf (cfg : GenCfg) : String → Prop := fun k => k ∈ cfg.reg.types

theorem buildGraph_fold {cfg : GenCfg} {o : GenOracles}
    (hnames : ∀ k ∈ cfg.reg.types, wfSerName k = true)
    (hrep : ReplacesSound o.accepts cfg.reg) (hrank : ReplacesRanked cfg.reg) :
    ∀ (inputs : List (String × List Json)) (g0 g : Graph),
      (∀ inp ∈ inputs, ∀ s ∈ inp.2, Json.WF s) → WF g0 → GraphGood (KOf cfg) g0 →
      inputs.foldlM (bgStep cfg o) g0 = .ok g →
      WF g ∧ GraphGood (KOf cfg) g ∧ (∀ t v, Inh o.accepts g0.look t v → Inh o.accepts g.look t v) ∧
      ∀ inp ∈ inputs, ∃ root, ∀ s ∈ inp.2, Inh o.accepts g.look (.ptr root) s
  | [], g0, g, _, wf, gg, h => by
    simp only [List.foldlM_nil, pure, Except.pure, Except.ok.injEq] at h
    subst h; exact ⟨wf, gg, fun _ _ h => h, by simp⟩
  | inp :: inputs, g0, g, hwf, wf, gg, h => by
    rw [List.foldlM_cons] at h
    simp only [bind, Except.bind] at h
    split at h
    · simp at h
    · rename_i g1 hg1
      obtain ⟨fs, hgen, rfl⟩ := bgStep_ok hg1
      have hwf0 := hwf inp (by simp)
      obtain ⟨hgood, _⟩ := C01.generate_good hwf0 hnames hrep hrank hgen
      have hnp : ptrsOfFields fs = [] := by simpa [ptrsOf] using good_noPtr _ hgood
      have wf1 : WF (processMetaData g0 fs (some inp.1)).1 :=
        processMetaData_WF wf (by rw [hnp]; simp)
      obtain ⟨gg1, hroot, hmono⟩ := processMetaData_sound (acc := o.accepts) (L₀ := fun _ => none)
        (name := some inp.1) wf gg hgood
      obtain ⟨wf', gg', hmono', hrest⟩ := buildGraph_fold hnames hrep hrank inputs _ g
        (fun i hi => hwf i (List.mem_cons_of_mem _ hi)) wf1 gg1 h
      refine ⟨wf', gg', fun t v hv => hmono' t v (hmono t v hv), ?_⟩
      intro i hi
      rcases List.mem_cons.1 hi with rfl | hi
      · refine ⟨(processMetaData g0 fs (some i.1)).2, fun s hs => ?_⟩
        exact hmono' _ _ (hroot s (C01.generate_sound_names hwf0 hnames hrep hrank hgen hs))
      · exact hrest i hi

/-- **buildGraph_WF / buildGraph_sound**: the registry the CLI builds from the named sample lists is well-formed,
    holds registry-stage field dicts only, and for every input there is a root model that accepts every sample
    of that input. -/
theorem buildGraph_sound {cfg : GenCfg} {o : GenOracles} {inputs : List (String × List Json)} {g : Graph}
    (hwf : ∀ inp ∈ inputs, ∀ s ∈ inp.2, Json.WF s)
    (hnames : ∀ k ∈ cfg.reg.types, wfSerName k = true)
    (hrep : ReplacesSound o.accepts cfg.reg) (hrank : ReplacesRanked cfg.reg)
    (h : buildGraph cfg o inputs = .ok g) :
    WF g ∧ GraphGood (KOf cfg) g ∧
    ∀ inp ∈ inputs, ∃ root, ∀ s ∈ inp.2, Inh o.accepts g.look (.ptr root) s := by
  rw [buildGraph_eq] at h
  obtain ⟨a, b, _, d⟩ := buildGraph_fold hnames hrep hrank inputs {} g hwf wf_empty (by intro m hm; simp at hm) h
  exact ⟨a, b, d⟩

/-- **C01 through the registry.**  Under the hypotheses of `generate_sound_names` (well-formed samples,
    well-formed pseudo-type class names, sound and acyclic `replaces`): after `generate` +
    `process_meta_data` for every input and `merge_models`, every input still has a root model that accepts
    every one of its samples. -/
theorem pipeline_merge_sound {cfg : GenCfg} {o : GenOracles} {cmps : List Cmp} {inputs : List (String × List Json)}
    {g0 g1 : Graph} {repl : List (String × List String)}
    (hwf : ∀ inp ∈ inputs, ∀ s ∈ inp.2, Json.WF s)
    (hnames : ∀ k ∈ cfg.reg.types, wfSerName k = true)
    (hrep : ReplacesSound o.accepts cfg.reg) (hrank : ReplacesRanked cfg.reg)
    (h0 : buildGraph cfg o inputs = .ok g0) (h1 : mergeModels cfg o.str cmps g0 = .ok (g1, repl)) :
    WF g1 ∧ ∀ inp ∈ inputs, ∃ root, ∀ s ∈ inp.2, Inh o.accepts g1.look (.ptr root) s := by
  obtain ⟨wf0, gg0, hroots⟩ := buildGraph_sound hwf hnames hrep hrank h0
  have hK : ∀ k, KOf cfg k → wfSerName k = true := hnames
  obtain ⟨_, hs⟩ := mergeModels_sound_core (acc := o.accepts) (mergeSoundPS hK isIdx_alnum)
    (optSoundP_weak hK isIdx_alnum hrep hrank) wf0 gg0 h1
  refine ⟨(mergeModels_struct wf0 h1).choose_spec.choose_spec.2.2.2.2.2.2.1, ?_⟩
  intro inp hinp
  obtain ⟨root, hr⟩ := hroots inp hinp
  exact ⟨σFold repl root, fun s hs' => by simpa [substTy] using hs _ s (hr s hs')⟩


/-! ## `generate` never produces a pointer (no hypothesis) -/

def NoPtr (t : Ty) : Prop := ptrsOf t = []

theorem noPtr_union {ts : List Ty} : NoPtr (.union ts) ↔ ∀ t ∈ ts, NoPtr t := by
  unfold NoPtr
  simp only [ptrsOf]
  constructor
  · intro h t ht
    cases hp : ptrsOf t with
    | nil => rfl
    | cons i is =>
      have : i ∈ ptrsOfList ts := mem_ptrsOfList.2 ⟨t, ht, by rw [hp]; simp⟩
      rw [h] at this; cases this
  · intro h
    cases hp : ptrsOfList ts with
    | nil => rfl
    | cons i is =>
      obtain ⟨t, ht, hi⟩ := mem_ptrsOfList.1 (show i ∈ ptrsOfList ts by rw [hp]; simp)
      rw [h t ht] at hi; cases hi

theorem noPtr_mkUnionMembers {c : LitCfg} {ts : List Ty} (h : ∀ t ∈ ts, NoPtr t) :
    ∀ u ∈ mkUnionMembers c ts, NoPtr u :=
  mkUnionMembers_forall (flattenUnion_forall (P := NoPtr) (fun _ h => noPtr_union.1 h) h)
    (by simp [NoPtr, ptrsOf]) (by simp [NoPtr, ptrsOf])

theorem noPtr_wrapElems {c : LitCfg} {wrap : Ty → Ty} (hw : ∀ x, NoPtr x → NoPtr (wrap x)) {ts : List Ty}
    (h : ∀ t ∈ ts, NoPtr t) : NoPtr (wrapElems c wrap ts) := by
  unfold wrapElems
  split
  · exact hw _ (h _ (by simp))
  · split
    · rename_i u hu
      exact hw _ (noPtr_mkUnionMembers h u (by rw [hu]; simp))
    · exact hw _ (noPtr_union.2 (noPtr_mkUnionMembers h))

theorem noPtr_mkLit (c : LitCfg) (vs : List String) : NoPtr (mkLit c vs) := by
  unfold mkLit; split <;> simp [NoPtr, ptrsOf]

mutual
theorem detect_noPtr (cfg : GenCfg) (o : GenOracles) : ∀ (v : Json) (cd : Bool) (t : Ty),
    detect cfg o cd v = .ok t → NoPtr t
  | .bool _, _, t, h | .int _, _, t, h | .float _, _, t, h | .null, _, t, h => by
    simp only [detect, pure, Except.pure, Except.ok.injEq] at h; subst h; simp [NoPtr, ptrsOf]
  | .arr [], _, t, h | .obj [], _, t, h => by
    simp only [detect, pure, Except.pure, Except.ok.injEq] at h; subst h; simp [NoPtr, ptrsOf]
  | .arr (x :: xs), _, t, h => by
    simp only [detect, bind, Except.bind] at h
    split at h
    · simp at h
    · rename_i ts hts
      simp only [pure, Except.pure, Except.ok.injEq] at h; subst h
      exact noPtr_wrapElems (fun x hx => by simpa [NoPtr, ptrsOf] using hx) (detectList_noPtr cfg o (x :: xs) ts hts)
  | .obj (kv :: kvs), cd, t, h => by
    simp only [detect, bind, Except.bind] at h
    split at h
    · simp at h
    · rename_i rx _
      generalize (if rx = true then false else cd) = cd' at h
      cases cd'
      · simp only [Bool.false_eq_true, if_false] at h
        split at h
        · simp at h
        · rename_i ts hts
          simp only [pure, Except.pure, Except.ok.injEq] at h; subst h
          exact noPtr_wrapElems (fun x hx => by simpa [NoPtr, ptrsOf] using hx)
            (detectVals_noPtr cfg o (kv :: kvs) ts hts)
      · simp only [if_true] at h
        split at h
        · simp at h
        · rename_i fs hfs
          simp only [pure, Except.pure, Except.ok.injEq] at h; subst h
          have := convertFields_noPtr cfg o (kv :: kvs) fs hfs
          unfold NoPtr; simp only [ptrsOf]
          cases hp : ptrsOfFields fs with
          | nil => rfl
          | cons i is =>
            obtain ⟨f, hf, hi⟩ := mem_ptrsOfFields.1 (show i ∈ ptrsOfFields fs by rw [hp]; simp)
            rw [this f hf] at hi; cases hi
  | .str s, _, t, h => by
    simp only [detect, bind, Except.bind] at h
    split at h
    · simp at h
    · split at h
      · simp only [pure, Except.pure, Except.ok.injEq] at h; subst h; simp [NoPtr, ptrsOf]
      · simp only [pure, Except.pure, Except.ok.injEq] at h; subst h; exact noPtr_mkLit _ _
theorem detectList_noPtr (cfg : GenCfg) (o : GenOracles) : ∀ (xs : List Json) (ts : List Ty),
    detectList cfg o xs = .ok ts → ∀ t ∈ ts, NoPtr t
  | [], ts, h => by simp only [detectList, pure, Except.pure, Except.ok.injEq] at h; subst h; simp
  | x :: xs, ts, h => by
    simp only [detectList, bind, Except.bind] at h
    split at h
    · simp at h
    · rename_i t ht
      split at h
      · simp at h
      · rename_i ts' hts'
        simp only [pure, Except.pure, Except.ok.injEq] at h; subst h
        intro u hu
        rcases List.mem_cons.1 hu with rfl | hu
        · exact detect_noPtr cfg o x true _ ht
        · exact detectList_noPtr cfg o xs ts' hts' u hu
theorem detectVals_noPtr (cfg : GenCfg) (o : GenOracles) : ∀ (xs : List (String × Json)) (ts : List Ty),
    detectVals cfg o xs = .ok ts → ∀ t ∈ ts, NoPtr t
  | [], ts, h => by simp only [detectVals, pure, Except.pure, Except.ok.injEq] at h; subst h; simp
  | (_, x) :: xs, ts, h => by
    simp only [detectVals, bind, Except.bind] at h
    split at h
    · simp at h
    · rename_i t ht
      split at h
      · simp at h
      · rename_i ts' hts'
        simp only [pure, Except.pure, Except.ok.injEq] at h; subst h
        intro u hu
        rcases List.mem_cons.1 hu with rfl | hu
        · exact detect_noPtr cfg o x true _ ht
        · exact detectVals_noPtr cfg o xs ts' hts' u hu
theorem convertFields_noPtr (cfg : GenCfg) (o : GenOracles) : ∀ (xs : List (String × Json)) (fs : Fields),
    convertFields cfg o xs = .ok fs → ∀ f ∈ fs, NoPtr f.2
  | [], fs, h => by simp only [convertFields, pure, Except.pure, Except.ok.injEq] at h; subst h; simp
  | (k, x) :: xs, fs, h => by
    simp only [convertFields, bind, Except.bind] at h
    split at h
    · simp at h
    · rename_i t ht
      split at h
      · simp at h
      · rename_i fs' hfs'
        simp only [pure, Except.pure, Except.ok.injEq] at h; subst h
        intro u hu
        rcases List.mem_cons.1 hu with rfl | hu
        · exact detect_noPtr cfg o x _ _ ht
        · exact convertFields_noPtr cfg o xs fs' hfs' u hu
end

/-- **`generate` returns a pointer-free type** — for every configuration, oracle and sample list -/
theorem generate_noPtr {cfg : GenCfg} {o : GenOracles} {samples : List Json} {t : Ty}
    (h : generate cfg o samples = .ok t) : ptrsOf t = [] := by
  unfold generate at h
  simp only [bind, Except.bind] at h
  split at h
  · simp at h
  · rename_i sets hsets
    split at h
    · simp at h
    · rename_i F hF
      have hsetsNP : ∀ fs ∈ sets, ptrsOfFields fs = [] := by
        intro fs hfs
        obtain ⟨s, _, hs⟩ := (mapM_ok_memX samples sets hsets).2 fs hfs
        have : ∃ kvs, convertFields cfg o kvs = .ok fs := by
          cases s <;> simp only [convert] at hs <;> first | (cases hs; done) | exact ⟨_, hs⟩
        obtain ⟨kvs, hs⟩ := this
        have := convertFields_noPtr cfg o kvs fs hs
        cases hp : ptrsOfFields fs with
        | nil => rfl
        | cons i is =>
          obtain ⟨f, hf, hi⟩ := mem_ptrsOfFields.1 (show i ∈ ptrsOfFields fs by rw [hp]; simp)
          rw [this f hf] at hi; cases hi
      have hFNP : ptrsOfFields F = [] := by
        cases hp : ptrsOfFields F with
        | nil => rfl
        | cons i is =>
          obtain ⟨fs, hfs, hi⟩ := mergeFieldSets_ptrs_subset hF i (by rw [hp]; simp)
          rw [hsetsNP fs hfs] at hi; cases hi
      cases hp : ptrsOf t with
      | nil => rfl
      | cons i is =>
        have := optimize_ptrs_subset h i (by rw [hp]; simp)
        simp only [ptrsOf, hFNP] at this; cases this

/-- **buildGraph_WF** (no hypothesis): the registry built from any inputs is well-formed -/
theorem buildGraph_WF {cfg : GenCfg} {o : GenOracles} {inputs : List (String × List Json)} {g : Graph}
    (h : buildGraph cfg o inputs = .ok g) : WF g := by
  rw [buildGraph_eq] at h
  have key : ∀ (inputs : List (String × List Json)) (g0 g : Graph), WF g0 →
      inputs.foldlM (bgStep cfg o) g0 = .ok g → WF g := by
    intro inputs
    induction inputs with
    | nil =>
      intro g0 g wf h
      simp only [List.foldlM_nil, pure, Except.pure, Except.ok.injEq] at h
      subst h; exact wf
    | cons inp inputs ih =>
      intro g0 g wf h
      rw [List.foldlM_cons] at h
      simp only [bind, Except.bind] at h
      split at h
      · simp at h
      · rename_i g1 hg1
        obtain ⟨fs, hgen, rfl⟩ := bgStep_ok hg1
        have hnp : ptrsOfFields fs = [] := by simpa [ptrsOf] using generate_noPtr hgen
        exact ih _ g (processMetaData_WF wf (by rw [hnp]; simp)) h
  exact key inputs {} g wf_empty h

end J2M.Reg

#print axioms J2M.Reg.pipeline_merge_sound
#print axioms J2M.Reg.mergeModels_sound_core
#print axioms J2M.Reg.mergeModels_struct
#print axioms J2M.Reg.mergeModels_merge_iff
