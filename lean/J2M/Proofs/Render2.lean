/-
  Helper development for C06R / C14R / C12R: how `renderLevel` / `generateCode` depend on the graph and on the
  name map.
-/
import J2M.Render
namespace J2M.Rend2

/-! ## 1. `generateCode` reads the graph only through `g.models` -/

theorem find?_congr {g₁ g₂ : Graph} (h : g₁.models = g₂.models) (i : String) : g₁.find? i = g₂.find? i := by
  unfold Graph.find?; rw [h]

theorem renderLevel_congr_models (c : RenderCfg) (o : RenderOracles) {g₁ g₂ : Graph} (h : g₁.models = g₂.models)
    (pathInj : List (String × String)) :
    ∀ (fuel : Nat) (names : NameMap) (nodes : List Node),
      renderLevel c o g₁ pathInj fuel names nodes = renderLevel c o g₂ pathInj fuel names nodes := by
  intro fuel
  induction fuel with
  | zero => intro names nodes; simp [renderLevel]
  | succ fuel ih =>
    intro names nodes
    cases nodes with
    | nil => simp [renderLevel]
    | cons n rest =>
      cases n with
      | mk idx nested =>
        simp only [renderLevel, ih, find?_congr h]

/-- **generateCode_congr_models**: the rendered text (and the name map) depends on the graph only through its
    model table — neither the pointer records nor the index counter are read. -/
theorem generateCode_congr_models (c : RenderCfg) (o : RenderOracles) {g₁ g₂ : Graph} (h : g₁.models = g₂.models)
    (roots : List Node) (pathInj : List (String × String)) (pre : Option String) :
    generateCode c o g₁ roots pathInj pre = generateCode c o g₂ roots pathInj pre := by
  unfold generateCode
  simp only [renderLevel_congr_models c o h, find?_congr h, h]

/-- render with the flat layout: `generate_code(compose_models_flat(models_map), …)` -/
def renderFlat (c : RenderCfg) (o : RenderOracles) (g : Graph) (pre : Option String) : Except PyErr (String × NameMap) :=
  composeFlat g >>= fun l => generateCode c o g (l.map (fun i => Node.mk i [])) [] pre

/-- render with the nested layout: `generate_code(compose_models(models_map), …)` -/
def renderNested (c : RenderCfg) (o : RenderOracles) (g : Graph) (pre : Option String) : Except PyErr (String × NameMap) :=
  composeNested g >>= fun r => generateCode c o g r.1 r.2 pre

/-! ## 2. name maps -/

/-- the class name currently recorded for index `i` (`RefEnv.name?`, and the expression used by `convertNameAt` and
    `renderLevel`) -/
def lookup (names : NameMap) (i : String) : Option String := ((names.find? (·.1 == i)).map (·.2)).join

theorem name?_eq (names : NameMap) (inj : List (String × String)) (i : String) :
    RefEnv.name? ⟨names, inj⟩ i = lookup names i := rfl

@[simp] theorem lookup_nil (i : String) : lookup [] i = none := rfl

theorem lookup_cons (p : String × Option String) (names : NameMap) (i : String) :
    lookup (p :: names) i = if p.1 = i then p.2 else lookup names i := by
  unfold lookup
  by_cases h : p.1 = i <;> simp [h]

theorem set_keys (names : NameMap) (i : String) (v : Option String) :
    (NameMap.set names i v).map (·.1) = names.map (·.1) := by
  unfold NameMap.set
  rw [List.map_map]
  apply List.map_congr_left
  intro p _
  by_cases h : p.1 = i <;> simp [h]

theorem lookup_set_ne (names : NameMap) {i j : String} (v : Option String) (h : j ≠ i) :
    lookup (NameMap.set names i v) j = lookup names j := by
  induction names with
  | nil => rfl
  | cons p rest ih =>
    have e : NameMap.set (p :: rest) i v = (if p.1 == i then (i, v) else p) :: NameMap.set rest i v := rfl
    rw [e, lookup_cons, lookup_cons, ih]
    by_cases hp : p.1 = i
    · subst hp
      have : ¬ p.1 = j := fun e => h e.symm
      simp [this]
    · simp [hp]

theorem lookup_set_self (names : NameMap) (i : String) (v : Option String) :
    lookup (NameMap.set names i v) i = if names.any (·.1 == i) then v else none := by
  induction names with
  | nil => rfl
  | cons p rest ih =>
    have e : NameMap.set (p :: rest) i v = (if p.1 == i then (i, v) else p) :: NameMap.set rest i v := rfl
    rw [e, lookup_cons, ih]
    by_cases hp : p.1 = i
    · simp [hp]
    · have hb : (p.1 == i) = false := by simpa using hp
      simp only [hb, List.any_cons, Bool.false_or, Bool.false_eq_true, if_false, hp]

theorem any_of_lookup {names : NameMap} {i n : String} (h : lookup names i = some n) :
    names.any (·.1 == i) = true := by
  induction names with
  | nil => simp at h
  | cons p rest ih =>
    rw [lookup_cons] at h
    by_cases hp : p.1 = i
    · simp [hp]
    · simp only [hp, if_false] at h
      simp [ih h]

theorem mem_of_lookup {names : NameMap} {i n : String} (h : lookup names i = some n) : (i, some n) ∈ names := by
  induction names with
  | nil => simp at h
  | cons p rest ih =>
    rw [lookup_cons] at h
    by_cases hp : p.1 = i
    · simp only [hp, if_true] at h
      have : p = (i, some n) := by rw [← hp, ← h]
      simp [this]
    · simp only [hp, if_false] at h
      exact List.mem_cons_of_mem _ (ih h)

/-- with pairwise distinct keys an entry is what `lookup` finds -/
theorem lookup_of_mem {names : NameMap} (hnd : (names.map (·.1)).Nodup) {p : String × Option String}
    (hp : p ∈ names) : lookup names p.1 = p.2 := by
  induction names with
  | nil => simp at hp
  | cons q rest ih =>
    rw [lookup_cons]
    simp only [List.map_cons, List.nodup_cons] at hnd
    rcases List.mem_cons.mp hp with rfl | hm
    · simp
    · have : ¬ q.1 = p.1 := fun e => hnd.1 (e ▸ List.mem_map_of_mem hm)
      simp [this, ih hnd.2 hm]

/-- writing back the value that is already there changes nothing (distinct keys) -/
theorem set_same {names : NameMap} (hnd : (names.map (·.1)).Nodup) {i n : String} (h : lookup names i = some n) :
    NameMap.set names i (some n) = names := by
  unfold NameMap.set
  conv => rhs; rw [← List.map_id names]
  apply List.map_congr_left
  intro p hp
  by_cases hpi : p.1 = i
  · have h2 := lookup_of_mem hnd hp
    rw [hpi, h] at h2
    have : p = (i, some n) := by rw [← hpi, h2]
    rw [this]; simp
  · have hb : (p.1 == i) = false := by simpa using hpi
    simp [hb]

/-- `convertNameAt` succeeds exactly by converting the recorded name -/
theorem convertNameAt_ok {c : RenderCfg} {o : RenderOracles} {names N2 : NameMap} {i : String}
    (h : convertNameAt c o names i = .ok N2) :
    ∃ n n', lookup names i = some n ∧ convertClassName c o n = .ok n' ∧ N2 = NameMap.set names i (some n') := by
  unfold convertNameAt at h
  change (match lookup names i with
    | none => Except.error PyErr.typeError
    | some n => do pure (names.set i (some (← convertClassName c o n)))) = _ at h
  cases hl : lookup names i with
  | none => rw [hl] at h; cases h
  | some n =>
    rw [hl] at h
    cases hc : convertClassName c o n with
    | error e => simp [hc, bind, Except.bind] at h
    | ok n' =>
      simp only [hc, bind, Except.bind, pure, Except.pure] at h
      injection h with h
      exact ⟨n, n', rfl, hc, h.symm⟩

theorem convertNameAt_eq {c : RenderCfg} {o : RenderOracles} {names : NameMap} {i n n' : String}
    (hl : lookup names i = some n) (hc : convertClassName c o n = .ok n') :
    convertNameAt c o names i = .ok (NameMap.set names i (some n')) := by
  unfold convertNameAt
  change (match lookup names i with
    | none => Except.error PyErr.typeError
    | some n => do pure (names.set i (some (← convertClassName c o n)))) = _
  rw [hl]
  simp [hc, bind, Except.bind, pure, Except.pure]

end J2M.Rend2
