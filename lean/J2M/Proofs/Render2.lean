/-
  Helper development for C06R / C14R / C12R: how `renderLevel` / `generateCode` depend on the graph and on the
  name map.
-/
import J2M.Render
namespace J2M.Rend2

/-! ## 1. `generateCode` reads the graph only through `g.models` -/

theorem find?_congr {g₁ g₂ : Graph} (h : g₁.models = g₂.models) (i : String) : g₁.find? i = g₂.find? i := by
  unfold Graph.find?; rw [h]

theorem renderLevel_congr_models (c : RenderCfg) (o : RenderOracles) {g₁ g₂ : Graph} (h : g₁.models = g₂.models)
    (pathInj : List (String × String)) :
    ∀ (fuel : Nat) (names : NameMap) (nodes : List Node),
      renderLevel c o g₁ pathInj fuel names nodes = renderLevel c o g₂ pathInj fuel names nodes := by
  intro fuel
  induction fuel with
  | zero => intro names nodes; simp [renderLevel]
  | succ fuel ih =>
    intro names nodes
    cases nodes with
    | nil => simp [renderLevel]
    | cons n rest =>
      cases n with
      | mk idx nested =>
        simp only [renderLevel, ih, find?_congr h]

/-- **generateCode_congr_models**: the rendered text (and the name map) depends on the graph only through its
    model table — neither the pointer records nor the index counter are read. -/
theorem generateCode_congr_models (c : RenderCfg) (o : RenderOracles) {g₁ g₂ : Graph} (h : g₁.models = g₂.models)
    (roots : List Node) (pathInj : List (String × String)) (pre : Option String) :
    generateCode c o g₁ roots pathInj pre = generateCode c o g₂ roots pathInj pre := by
  unfold generateCode
  simp only [renderLevel_congr_models c o h, find?_congr h, h]

end J2M.Rend2
