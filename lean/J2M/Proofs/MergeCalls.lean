/-
  Which field sets reach `merge_field_sets` during `generate` (the generator stage):
  only sets without any `DOptional` — so the order-dependent branches of `mergeOne`
  (C02 witnesses A/B/C, C07 `order_witness`) are not exercised there.
-/
import J2M.Proofs.MergeAtoms
namespace J2M

/-- the member list `_optimize_union` hands to the recursive `optimize_type` calls -/
def unionOther (cfg : GenCfg) (e : EqEnv) (members : List Ty) : Except PyErr (List Ty) := do
    let s := splitMembers cfg.reg members
    let other := s.other
    let other := if other.any Ty.isInt && other.any Ty.isFloat then removeFirst Ty.isInt other else other
    let other ← (if s.toMerge.isEmpty then pure other else do
      let m ← mergeFieldSets cfg.lit e s.toMerge
      pure (other ++ [.obj m]))
    let other := if s.lists.isEmpty then other else other ++ [.list (mkUnion cfg.lit s.lists)]
    let other := if s.dicts.isEmpty then other else other ++ [.dict (mkUnion cfg.lit s.dicts)]
    (if s.strTypes.any Ty.isStr then pure (other ++ [.str])
      else if s.strTypes.isEmpty then pure other
      else do
        let kinds := s.strTypes.filterMap (fun t => match t with | .ser k => some k | _ => none)
        let r ← resolve cfg.reg kinds (kinds.length + 2)
        match r with
        | [k] => pure (other ++ [.ser k])
        | [] => .error .stopIteration
        | _ => pure (other ++ [.str]))

def unionFinish (cfg : GenCfg) (types : List Ty) : Except PyErr Ty :=
    match types with
    | [] => .error .indexError
    | [t] => pure t
    | types =>
      let types := if types.any Ty.isUnknown then removeFirst Ty.isUnknown types else types
      let optional := types.any Ty.isNull
      let types := types.filter (fun t => !t.isNull)
      let mt := match mkUnionMembers cfg.lit types with
        | [] => .unknown
        | [t] => t
        | us => .union us
      pure (if optional then .opt mt else mt)

theorem optimizeUnion_eq (cfg : GenCfg) (e : EqEnv) (n : Nat) (members : List Ty) :
    optimizeUnion cfg e (n + 1) members = (do
      let other ← unionOther cfg e members
      let types ← other.mapM (optimize cfg e n)
      unionFinish cfg types) := by
  rw [optimizeUnion]
  simp only [unionOther, unionFinish, bind_assoc]
  rfl
/--
  "`optimize cfg e fuel t` (transitively) calls `mergeFieldSets cfg.lit e sets`" — follows the recursion
  of `optimize` / `optimizeUnion` literally (see `optimizeUnion_eq` for the union case).
-/
inductive MergeCalls (cfg : GenCfg) (e : EqEnv) : Nat → Ty → List Fields → Prop
  | obj {n fs kv sets} : kv ∈ fs → MergeCalls cfg e n kv.2 sets → MergeCalls cfg e (n + 1) (.obj fs) sets
  | opt {n x sets} : MergeCalls cfg e n x sets → MergeCalls cfg e (n + 1) (.opt x) sets
  | list {n x sets} : MergeCalls cfg e n x sets → MergeCalls cfg e (n + 1) (.list x) sets
  | dict {n x sets} : MergeCalls cfg e n x sets → MergeCalls cfg e (n + 1) (.dict x) sets
  | tuple {n ts x sets} : x ∈ ts → MergeCalls cfg e n x sets → MergeCalls cfg e (n + 1) (.tuple ts) sets
  | unionHere {n ts} : (splitMembers cfg.reg ts).toMerge.isEmpty = false →
      MergeCalls cfg e (n + 2) (.union ts) (splitMembers cfg.reg ts).toMerge
  | unionRec {n ts other x sets} : unionOther cfg e ts = .ok other → x ∈ other →
      MergeCalls cfg e n x sets → MergeCalls cfg e (n + 2) (.union ts) sets

/-! ### `noOpt` through the building blocks -/

theorem noOpt_union {ts : List Ty} : (Ty.union ts).noOpt = true ↔ ∀ t ∈ ts, t.noOpt = true := by
  simp [Ty.noOpt, noOptList_iff]

theorem noOpt_obj {fs : Fields} : (Ty.obj fs).noOpt = true ↔ ∀ kv ∈ fs, kv.2.noOpt = true := by
  simp only [Ty.noOpt, noOptFields_iff]

theorem noOpt_flatten {ts : List Ty} (h : ∀ t ∈ ts, t.noOpt = true) :
    ∀ t ∈ flattenUnion ts, t.noOpt = true := by
  induction ts using flattenUnion.induct with
  | case1 => simp [flattenUnion]
  | case2 ms rest ih1 ih2 =>
    intro t ht
    rw [flattenUnion] at ht
    rcases List.mem_append.1 ht with h1 | h1
    · exact ih1 (noOpt_union.1 (h _ (List.mem_cons_self ..))) t h1
    · exact ih2 (fun t ht => h t (List.mem_cons_of_mem _ ht)) t h1
  | case3 t0 rest hnu ih =>
    intro t ht
    rw [flattenUnion.eq_3 _ _ hnu] at ht
    rcases List.mem_cons.1 ht with h1 | h1
    · subst h1; exact h _ (List.mem_cons_self ..)
    · exact ih (fun t ht => h t (List.mem_cons_of_mem _ ht)) t h1

theorem noOpt_mkUnionMembers {c : LitCfg} {ts : List Ty} (h : ∀ t ∈ ts, t.noOpt = true) :
    ∀ u ∈ mkUnionMembers c ts, u.noOpt = true := by
  intro u hu
  rcases mkUnion_members_subset c ts u hu with ⟨h1, _⟩ | ⟨vs, h1, _⟩ | ⟨h1, _⟩
  · exact noOpt_flatten h u h1
  · subst h1; rfl
  · subst h1; rfl

theorem noOpt_unionMembers {t : Ty} (h : t.noOpt = true) : ∀ m ∈ t.unionMembers, m.noOpt = true := by
  cases t <;> try (intro m hm; simp [Ty.unionMembers] at hm; subst hm; exact h)
  exact noOpt_union.1 h

theorem noOpt_collapse {us : List Ty} (h : ∀ u ∈ us, u.noOpt = true) : (collapse us).noOpt = true := by
  unfold collapse
  split
  · exact h _ (List.mem_cons_self ..)
  · exact noOpt_union.2 h

theorem noOpt_collapse_merge {c : LitCfg} {a b : Ty} (ha : a.noOpt = true) (hb : b.noOpt = true) :
    (collapse (mkUnionMembers c (a.unionMembers ++ b.unionMembers))).noOpt = true := by
  apply noOpt_collapse
  apply noOpt_mkUnionMembers
  intro t ht
  rcases List.mem_append.1 ht with h | h
  · exact noOpt_unionMembers ha t h
  · exact noOpt_unionMembers hb t h

/-- no optional, except possibly one at the very top -/
def Ty.noOptBelowTop (t : Ty) : Prop := t.noOpt = true ∨ ∃ x, t = .opt x ∧ x.noOpt = true

theorem noOptBelowTop_nonopt {t : Ty} (h : t.noOptBelowTop) (hn : t.isOpt = false) : t.noOpt = true := by
  rcases h with h | ⟨x, rfl, _⟩
  · exact h
  · simp [Ty.isOpt] at hn

/-- all field types are opt-free below their top -/
def FieldsNOBT (fs : Fields) : Prop := ∀ kv ∈ fs, kv.2.noOptBelowTop

theorem FieldsNOBT.set {fs : Fields} {k : String} {v : Ty}
    (h : FieldsNOBT fs) (hv : v.noOptBelowTop) : FieldsNOBT (fs.set k v) := by
  intro kv hkv
  rcases Fields.mem_set hkv with h1 | h1
  · subst h1; exact hv
  · exact h kv h1

theorem mergeOne_nobt {c e first fs fs' name field}
    (h : mergeOne c e first fs name field = .ok fs') (hfs : FieldsNOBT fs) (hf : field.noOpt = true) :
    FieldsNOBT fs' := by
  rcases mergeOne_cases h with ⟨_, h2⟩ | ⟨orig, hg, h2 | ⟨oi, ho, h2⟩ | ⟨hno, h2⟩ | ⟨_, _, h2⟩⟩
  rotate_left 4
  · subst h2; exact hfs.set (.inl hf)
  · subst h2
    apply hfs.set
    split
    · exact .inl hf
    · exact .inr ⟨field, rfl, hf⟩
  · subst h2; exact hfs
  · subst h2
    apply hfs.set
    have horig := hfs _ (Fields.get?_mem hg)
    rw [ho] at horig
    have hoi : oi.noOpt = true := by
      rcases horig with h1 | ⟨x, h1, h2⟩
      · simp [Ty.noOpt] at h1
      · cases h1; exact h2
    exact .inr ⟨_, rfl, noOpt_collapse_merge hf hoi⟩
  · subst h2
    apply hfs.set
    exact .inl (noOpt_collapse_merge hf (noOptBelowTop_nonopt (hfs _ (Fields.get?_mem hg)) hno))

theorem mergeItems_nobt {c e first fs m r}
    (h : mergeItems c e first fs m = .ok r) (hfs : FieldsNOBT fs) (hm : ∀ kv ∈ m, kv.2.noOpt = true) :
    FieldsNOBT r := by
  induction m generalizing fs with
  | nil => rw [mergeItems_nil, Except.ok.injEq] at h; subst h; exact hfs
  | cons kv m ih =>
    obtain ⟨fs', h1, h2⟩ := mergeItems_cons.1 h
    exact ih h2 (mergeOne_nobt h1 hfs (hm kv (List.mem_cons_self ..)))
      (fun kv' h' => hm kv' (List.mem_cons_of_mem _ h'))

theorem mergeStep_nobt {c e first fields m r}
    (h : mergeStep c e first fields m = .ok r) (hfs : FieldsNOBT fields)
    (hm : ∀ kv ∈ m, kv.2.noOpt = true) : FieldsNOBT r := by
  obtain ⟨fs1, h1, h2⟩ := mergeStep_eq.1 h
  subst h2
  intro kv hkv
  obtain ⟨kv0, h0, rfl⟩ := List.mem_map.1 hkv
  have := mergeItems_nobt h1 hfs hm kv0 h0
  unfold wrapMissing
  split
  · rename_i hc
    have hno : kv0.2.isOpt = false := by
      cases hh : kv0.2.isOpt
      · rfl
      · simp [hh] at hc
    exact .inr ⟨_, rfl, noOptBelowTop_nonopt this hno⟩
  · exact this

/-- all field types of all sets are opt-free -/
def SetsNoOpt (sets : List Fields) : Prop := ∀ fs ∈ sets, ∀ kv ∈ fs, kv.2.noOpt = true

theorem go_nobt {c e first fields sets r}
    (h : mergeFieldSets.go c e first fields sets = .ok r) (hfs : FieldsNOBT fields)
    (hs : SetsNoOpt sets) : FieldsNOBT r := by
  induction sets generalizing first fields with
  | nil => simp [mergeFieldSets.go, pure, Except.pure] at h; subst h; exact hfs
  | cons m ms ih =>
    rw [mergeFieldSets.go, Except.bind_ok_iff] at h
    obtain ⟨f1, h1, h2⟩ := h
    exact ih h2 (mergeStep_nobt h1 hfs (hs m (List.mem_cons_self ..)))
      (fun m' h' => hs m' (List.mem_cons_of_mem _ h'))

/-- merging opt-free sets yields fields that are opt-free below their top -/
theorem mergeFieldSets_nobt {c e sets r} (h : mergeFieldSets c e sets = .ok r) (hs : SetsNoOpt sets) :
    FieldsNOBT r := by
  unfold mergeFieldSets at h
  exact go_nobt h (by intro kv hkv; simp at hkv) hs

theorem noOpt_not_hasOptMember {t : Ty} (h : t.noOpt = true) : ¬ HasOptMember t := by
  rintro ⟨m, hm, ho⟩
  have := noOpt_flatten (noOpt_unionMembers h) m hm
  cases m <;> simp [Ty.isOpt] at ho
  simp [Ty.noOpt] at this

theorem SetsNoOpt.optFree {sets : List Fields} (h : SetsNoOpt sets) : OptFree sets :=
  fun fs hfs kv hkv => noOpt_not_hasOptMember (h fs hfs kv hkv)

/-! ### the category split on opt-free members -/

structure SplitNO (s : Split) : Prop where
  strTypes : ∀ t ∈ s.strTypes, t.noOpt = true
  toMerge : SetsNoOpt s.toMerge
  lists : ∀ t ∈ s.lists, t.noOpt = true
  dicts : ∀ t ∈ s.dicts, t.noOpt = true
  other : ∀ t ∈ s.other, t.noOpt = true

theorem splitPlain_no {reg : StrRegistry} {s : Split} {item : Ty}
    (hs : SplitNO s) (hi : item.noOpt = true) : SplitNO (splitPlain reg s item) := by
  cases item with
  | obj fs =>
    exact { hs with toMerge := forall_mem_append_singleton hs.toMerge (noOpt_obj.1 hi) }
  | str =>
    exact { hs with strTypes := forall_mem_append_singleton hs.strTypes hi }
  | ser k =>
    show SplitNO (if reg.types.contains k then _ else _)
    split
    · exact { hs with strTypes := forall_mem_append_singleton hs.strTypes hi }
    · exact { hs with other := forall_mem_append_singleton hs.other hi }
  | list x =>
    exact { hs with lists := forall_mem_append_singleton hs.lists (by simpa [Ty.noOpt] using hi) }
  | dict x =>
    exact { hs with dicts := forall_mem_append_singleton hs.dicts (by simpa [Ty.noOpt] using hi) }
  | opt x => simp [Ty.noOpt] at hi
  | _ => exact { hs with other := forall_mem_append_singleton hs.other hi }

theorem splitStep_no {reg : StrRegistry} {s : Split} {item : Ty}
    (hs : SplitNO s) (hi : item.noOpt = true) : SplitNO (splitStep reg s item) := by
  rw [splitStep_eq]
  split
  · simp [Ty.noOpt] at hi
  · exact splitPlain_no hs hi

theorem splitMembers_no {reg : StrRegistry} {ts : List Ty}
    (h : ∀ t ∈ ts, t.noOpt = true) : SplitNO (splitMembers reg ts) := by
  have h0 : SplitNO ({} : Split) :=
    ⟨by simp, by intro fs hfs; simp at hfs, by simp, by simp, by simp⟩
  exact splitMembers_invariant (R := fun t => t.noOpt = true) h0 (fun _ _ hs hi => splitStep_no hs hi) rfl
    (fun _ hm => noOpt_union.1 hm) (fun _ hm => by simp [Ty.noOpt] at hm) h

/-- what `optimize_type` is applied to during `generate` -/
def Ty.genGood (t : Ty) : Prop :=
  t.noOpt = true ∨ (∃ x, t = .opt x ∧ x.noOpt = true) ∨ (∃ fs, t = .obj fs ∧ FieldsNOBT fs)

theorem genGood_of_nobt {t : Ty} (h : t.noOptBelowTop) : t.genGood := by
  rcases h with h | h
  · exact .inl h
  · exact .inr (.inl h)

theorem noOpt_mkUnion {c : LitCfg} {ts : List Ty} (h : ∀ t ∈ ts, t.noOpt = true) :
    (mkUnion c ts).noOpt = true :=
  noOpt_union.2 (noOpt_mkUnionMembers h)

/-- the members handed to the recursive calls of `_optimize_union` on an opt-free union -/
theorem unionOther_good {cfg : GenCfg} {e : EqEnv} {ts other : List Ty}
    (hm : ∀ m ∈ ts, m.noOpt = true) (h : unionOther cfg e ts = .ok other) :
    ∀ x ∈ other, x.genGood := by
  unfold unionOther at h
  have hs := splitMembers_no (reg := cfg.reg) hm
  dsimp only at h
  generalize splitMembers cfg.reg ts = s at h hs
  rw [Except.bind_ok_iff] at h
  obtain ⟨other1, h1, h⟩ := h
  have ho0 : ∀ t ∈ (if (s.other.any Ty.isInt && s.other.any Ty.isFloat) = true then
      removeFirst Ty.isInt s.other else s.other), t.genGood := by
    split
    · exact fun t ht => .inl (hs.other t (removeFirst_subset t ht))
    · exact fun t ht => .inl (hs.other t ht)
  have ho1 : ∀ t ∈ other1, t.genGood := by
    split at h1
    · rw [Except.pure_ok_iff] at h1; subst h1; exact ho0
    · rw [Except.bind_ok_iff] at h1
      obtain ⟨m, hm1, h1⟩ := h1
      rw [Except.pure_ok_iff] at h1; subst h1
      exact forall_mem_append_singleton ho0
        (.inr (.inr ⟨m, rfl, mergeFieldSets_nobt hm1 hs.toMerge⟩))
  have ho2 : ∀ t ∈ (if s.lists.isEmpty = true then other1
      else other1 ++ [(mkUnion cfg.lit s.lists).list]), t.genGood := by
    split
    · exact ho1
    · exact forall_mem_append_singleton ho1 (.inl (by simpa [Ty.noOpt] using noOpt_mkUnion hs.lists))
  generalize (if s.lists.isEmpty = true then other1
      else other1 ++ [(mkUnion cfg.lit s.lists).list]) = other2 at h ho2
  have ho3 : ∀ t ∈ (if s.dicts.isEmpty = true then other2
      else other2 ++ [(mkUnion cfg.lit s.dicts).dict]), t.genGood := by
    split
    · exact ho2
    · exact forall_mem_append_singleton ho2 (.inl (by simpa [Ty.noOpt] using noOpt_mkUnion hs.dicts))
  generalize (if s.dicts.isEmpty = true then other2
      else other2 ++ [(mkUnion cfg.lit s.dicts).dict]) = other3 at h ho3
  split at h
  · rw [Except.pure_ok_iff] at h; subst h
    exact forall_mem_append_singleton ho3 (.inl rfl)
  · split at h
    · rw [Except.pure_ok_iff] at h; subst h; exact ho3
    · rw [Except.bind_ok_iff] at h
      obtain ⟨r, _, h⟩ := h
      split at h
      · rw [Except.pure_ok_iff] at h; subst h
        exact forall_mem_append_singleton ho3 (.inl rfl)
      · cases h
      · rw [Except.pure_ok_iff] at h; subst h
        exact forall_mem_append_singleton ho3 (.inl rfl)

/--
  **Every `merge_field_sets` call made while optimising a generator-stage type receives only
  opt-free field sets.**
-/
theorem mergeCalls_noOpt {cfg : GenCfg} {e : EqEnv} {n : Nat} {t : Ty} {sets : List Fields}
    (h : MergeCalls cfg e n t sets) (hg : t.genGood) : SetsNoOpt sets := by
  induction h with
  | obj hkv _ ih =>
    apply ih
    rcases hg with h1 | ⟨x, h1, _⟩ | ⟨fs', h1, h2⟩
    · exact .inl (noOpt_obj.1 h1 _ hkv)
    · cases h1
    · cases h1; exact genGood_of_nobt (h2 _ hkv)
  | opt _ ih =>
    apply ih
    rcases hg with h1 | ⟨x, h1, h2⟩ | ⟨fs', h1, _⟩
    · simp [Ty.noOpt] at h1
    · cases h1; exact .inl h2
    · cases h1
  | list _ ih =>
    apply ih
    rcases hg with h1 | ⟨x, h1, _⟩ | ⟨fs', h1, _⟩
    · exact .inl (by simpa [Ty.noOpt] using h1)
    · cases h1
    · cases h1
  | dict _ ih =>
    apply ih
    rcases hg with h1 | ⟨x, h1, _⟩ | ⟨fs', h1, _⟩
    · exact .inl (by simpa [Ty.noOpt] using h1)
    · cases h1
    · cases h1
  | tuple hx _ ih =>
    apply ih
    rcases hg with h1 | ⟨x, h1, _⟩ | ⟨fs', h1, _⟩
    · exact .inl (noOptList_iff.1 (by simpa [Ty.noOpt] using h1) _ hx)
    · cases h1
    · cases h1
  | unionHere _ =>
    rcases hg with h1 | ⟨x, h1, _⟩ | ⟨fs', h1, _⟩
    · exact (splitMembers_no (noOpt_union.1 h1)).toMerge
    · cases h1
    · cases h1
  | unionRec ho hx _ ih =>
    apply ih
    rcases hg with h1 | ⟨x, h1, _⟩ | ⟨fs', h1, _⟩
    · exact unionOther_good (noOpt_union.1 h1) ho _ hx
    · cases h1
    · cases h1

/-- … in particular during `generate`: the top-level merge and every merge inside `optimize_type` -/
theorem generate_mergeCalls_noOpt {cfg : GenCfg} {o : GenOracles} {samples : List Json}
    {sets : List Fields} {fields : Fields}
    (h1 : samples.mapM (convert cfg o) = .ok sets)
    (h2 : mergeFieldSets cfg.lit (genEnv o) sets = .ok fields) :
    SetsNoOpt sets ∧
    ∀ sets', MergeCalls cfg (genEnv o) (Ty.fuelFor (.obj fields)) (.obj fields) sets' → SetsNoOpt sets' := by
  have hs : SetsNoOpt sets := by
    intro fs hfs kv hkv
    obtain ⟨v, _, hv⟩ := mapM_ok_mem h1 hfs
    obtain ⟨kvs, _, hc⟩ := convert_ok hv
    exact (convertFields_raw hc kv hkv).2
  exact ⟨hs, fun sets' hc => mergeCalls_noOpt hc (.inr (.inr ⟨fields, rfl, mergeFieldSets_nobt h2 hs⟩))⟩

end J2M
