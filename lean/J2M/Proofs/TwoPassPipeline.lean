/-
  C08 at the registry stage, part D: `merge_models`.  If every field of every registered model is `out`
  (e.g. a normal form within the literal limits — true after `process_meta_data` of `generate`d metadata), then after
  `merge_models` every field of every registered model is in normal form (`nf`) and still `out`.
-/
import J2M.Proofs.TwoPassMerge
import J2M.Proofs.RegistryModels
namespace J2M.TwoPass
open J2M J2M.Reg

/-! ## 1. `out` / `adm` do not look at pointer targets -/

theorem substTy_shape (σ : String → String) (t : Ty) :
    (substTy σ t).isUnion = t.isUnion ∧ (substTy σ t).isOpt = t.isOpt ∧ (substTy σ t).isNull = t.isNull ∧
    (substTy σ t).isInt = t.isInt ∧ (substTy σ t).isUnknown = t.isUnknown ∧ (substTy σ t).isList = t.isList ∧
    (substTy σ t).isDict = t.isDict ∧ (substTy σ t).isLit = t.isLit := by
  cases t <;> simp [substTy, Ty.isUnion, Ty.isOpt, Ty.isNull, Ty.isInt, Ty.isUnknown, Ty.isList, Ty.isDict, Ty.isLit]

theorem filter_map_length {α} (g : α → α) (p : α → Bool) (hp : ∀ t, p (g t) = p t) (ts : List α) :
    ((ts.map g).filter p).length = (ts.filter p).length := by
  induction ts with
  | nil => rfl
  | cons t ts ih => simp only [List.map_cons, List.filter_cons, hp]; split <;> simp [ih]

theorem outU_subst (σ : String → String) (ts : List Ty) : outU (substList σ ts) = outU ts := by
  rw [substList_eq_map]
  unfold outU
  have hs := substTy_shape σ
  rw [filter_map_length _ _ (fun t => (hs t).2.2.2.1), filter_map_length _ _ (fun t => (hs t).2.2.2.2.1),
    filter_map_length _ _ (fun t => (hs t).2.2.2.2.2.1), filter_map_length _ _ (fun t => (hs t).2.2.2.2.2.2.1),
    filter_map_length _ _ (fun t => (hs t).2.2.2.2.2.2.2)]
  congr 6
  · simp
  · rw [List.all_map]
    apply List.all_congr rfl
    intro t
    simp [(hs t).1, (hs t).2.1, (hs t).2.2.1]

mutual
theorem out_subst (cfg : GenCfg) (σ : String → String) : ∀ t, out cfg (substTy σ t) = out cfg t
  | .int | .float | .bool | .str | .null | .unknown | .ser _ | .lit _ _ | .ptr _ => by simp [substTy, out]
  | .list t | .dict t => by simp only [substTy, out]; exact out_subst cfg σ t
  | .opt t => by simp only [substTy, out, (substTy_shape σ t).2.1, out_subst cfg σ t]
  | .union ts => by simp only [substTy, out, outU_subst, outList_subst cfg σ ts]
  | .tuple _ | .obj _ => by simp [substTy, out]
theorem outList_subst (cfg : GenCfg) (σ : String → String) : ∀ ts, outList cfg (substList σ ts) = outList cfg ts
  | [] => rfl
  | t :: ts => by simp only [substList, outList, out_subst cfg σ t, outList_subst cfg σ ts]
end

mutual
theorem adm_subst (cfg : GenCfg) (σ : String → String) : ∀ t, adm cfg (substTy σ t) = adm cfg t
  | .int | .float | .bool | .str | .null | .unknown | .ser _ | .lit _ _ | .ptr _ => by simp [substTy, adm]
  | .list t | .dict t => by simp only [substTy, adm]; exact adm_subst cfg σ t
  | .opt t => by simp only [substTy, adm, (substTy_shape σ t).2.1, adm_subst cfg σ t]
  | .union ts => by simp only [substTy, adm, admList_subst cfg σ ts]
  | .tuple _ | .obj _ => by simp [substTy, adm]
theorem admList_subst (cfg : GenCfg) (σ : String → String) : ∀ ts, admList cfg (substList σ ts) = admList cfg ts
  | [] => rfl
  | t :: ts => by simp only [substList, admList, adm_subst cfg σ t, admList_subst cfg σ ts]
end

/-! ## 2. the invariant and one `optimize_type(model_meta)` -/

/-- every field of every registered model is `out` -/
def AllOut (cfg : GenCfg) (g : Graph) : Prop := ∀ m ∈ g.models, ∀ kv ∈ m.fields, out cfg kv.2 = true

/-- `optimize_type` on a field dict with admissible field types: every resulting field type is `out`;
    if the field types were `out`, it is a normal form as well -/
theorem optimize_obj_fields {cfg : GenCfg} {e : EqEnv} {fuel : Nat} {fs fs' : Fields}
    (h : optimize cfg e fuel (.obj fs) = .ok (.obj fs')) :
    ((∀ kv ∈ fs, adm cfg kv.2 = true) → ∀ kv ∈ fs', out cfg kv.2 = true) ∧
    ((∀ kv ∈ fs, out cfg kv.2 = true) → ∀ kv ∈ fs', nf kv.2 = true) := by
  cases fuel with
  | zero => simp [optimize] at h
  | succ f =>
    rw [optimize] at h
    simp only [bind, Except.bind] at h
    split at h
    · cases h
    · rename_i r hr
      simp only [pure, Except.pure, Except.ok.injEq, Ty.obj.injEq] at h
      subst h
      have key : ∀ kv' ∈ r, ∃ kv ∈ fs, optimize cfg e f kv.2 = .ok kv'.2 := by
        intro kv' hkv'
        obtain ⟨kv, hkv, hopt⟩ := C08P.mapM_mem_inv _ _ _ hr kv' hkv'
        split at hopt
        · cases hopt
        · rename_i v hv
          simp only [pure, Except.pure, Except.ok.injEq] at hopt
          subst hopt
          exact ⟨kv, hkv, hv⟩
      constructor
      · intro ha kv' hkv'
        obtain ⟨kv, hkv, hv⟩ := key kv' hkv'
        exact optimize_adm_out cfg e f _ _ (ha kv hkv) hv
      · intro ho kv' hkv'
        obtain ⟨kv, hkv, hv⟩ := key kv' hkv'
        exact optimize_out_nf cfg e f _ _ (ho kv hkv) hv

/-- `optimize_type(model_meta)` on a registry whose fields are `out`: still `out`, and the models with that index
    now have normal-form fields -/
theorem optimizeModel_out {cfg : GenCfg} {so : StrOracle} {g g' : Graph} {i : String} (hg : AllOut cfg g)
    (h : optimizeModel cfg so g i = .ok g') :
    AllOut cfg g' ∧ idxs g' = idxs g ∧
    (∀ m ∈ g'.models, m.idx = i → ∀ kv ∈ m.fields, nf kv.2 = true) ∧
    (∀ m ∈ g'.models, m.idx ≠ i → m ∈ g.models) := by
  rcases optimizeModel_eq h with ⟨hnone, rfl⟩ | ⟨m, fs', hfind, hopt, _, rfl⟩
  · refine ⟨hg, rfl, ?_, fun m hm _ => hm⟩
    intro m hm hi
    exfalso
    rw [find?_eq_none_iff] at hnone
    exact hnone (hi ▸ List.mem_map_of_mem hm)
  · obtain ⟨hm, _⟩ := find?_eq_some hfind
    obtain ⟨h1, h2⟩ := optimize_obj_fields hopt
    have ho := h1 (fun kv hkv => out_adm cfg _ (hg m hm kv hkv))
    have hn := h2 (hg m hm)
    refine ⟨?_, idxs_setFields g i fs', ?_, ?_⟩
    · intro m' hm'
      rw [setFields_models] at hm'
      rcases mem_setF hm' with ⟨hm0, _⟩ | ⟨m0, _, _, rfl⟩
      · exact hg m' hm0
      · exact ho
    · intro m' hm' hi
      rw [setFields_models] at hm'
      rcases mem_setF hm' with ⟨_, hne⟩ | ⟨m0, _, _, rfl⟩
      · exact absurd hi hne
      · exact hn
    · intro m' hm' hi
      rw [setFields_models] at hm'
      rcases mem_setF hm' with ⟨hm0, _⟩ | ⟨m0, _, h0, rfl⟩
      · exact hm0
      · exact absurd h0 hi

/-! ## 3. one group: `_merge` + `optimize_type(model_meta)` -/

theorem groupStepM_out {cfg : GenCfg} {so : StrOracle} {st st' : Graph × List (String × List String)}
    {members : List String} (hg : AllOut cfg st.1) (h : groupStepM cfg so st members = .ok st') :
    AllOut cfg st'.1 := by
  obtain ⟨g1, idx, h1, h2, _⟩ := groupStepM_ok h
  obtain ⟨F, nm, ng, hF, _, rfl⟩ := mergeGroup_eq h1
  -- the merged dict is admissible
  have hFadm : ∀ kv ∈ F, adm cfg kv.2 = true := by
    apply mergeFieldSets_adm _ hF
    intro fs hfs kv hkv
    obtain ⟨m, hm, rfl⟩ := List.mem_map.1 hfs
    exact hg m (memberModels_sub m hm).1 kv hkv
  -- after `_merge`: old models keep `out` fields, the merged model has admissible fields
  have hold : ∀ m ∈ (st.1.models.filter (fun m => !members.contains m.idx)).map (substModel (σOf members idx)),
      ∀ kv ∈ m.fields, out cfg kv.2 = true := by
    intro m hm kv hkv
    obtain ⟨m0, hm0, rfl⟩ := List.mem_map.1 hm
    simp only [substModel, substFields_eq_map, List.mem_map] at hkv
    obtain ⟨kv0, hkv0, rfl⟩ := hkv
    simp only [out_subst]
    exact hg m0 (List.mem_filter.1 hm0).1 kv0 hkv0
  have hnew : ∀ kv ∈ substFields (σOf members idx) F, adm cfg kv.2 = true := by
    intro kv hkv
    simp only [substFields_eq_map, List.mem_map] at hkv
    obtain ⟨kv0, hkv0, rfl⟩ := hkv
    simp only [adm_subst]
    exact hFadm kv0 hkv0
  rcases optimizeModel_eq h2 with ⟨hnone, _⟩ | ⟨m, fs', hfind, hopt, _, hg'⟩
  · exfalso
    rw [find?_eq_none_iff] at hnone
    apply hnone
    simp [idxs, mergedGraph]
  · obtain ⟨hm, _⟩ := find?_eq_some hfind
    have hmadm : ∀ kv ∈ m.fields, adm cfg kv.2 = true := by
      simp only [mergedGraph, List.mem_append, List.mem_singleton] at hm
      rcases hm with hm | rfl
      · exact fun kv hkv => out_adm cfg _ (hold m hm kv hkv)
      · exact hnew
    have ho := (optimize_obj_fields hopt).1 hmadm
    rw [hg']
    intro m' hm'
    rw [setFields_models] at hm'
    rcases mem_setF hm' with ⟨hm0, hne⟩ | ⟨m0, _, _, rfl⟩
    · simp only [mergedGraph, List.mem_append, List.mem_singleton] at hm0
      rcases hm0 with hm0 | rfl
      · exact hold m' hm0
      · exact absurd rfl hne
    · exact ho

theorem groupsFold_out {cfg : GenCfg} {so : StrOracle} : ∀ (Ms : List (List String))
    (st st' : Graph × List (String × List String)), AllOut cfg st.1 →
    Ms.foldlM (groupStepM cfg so) st = .ok st' → AllOut cfg st'.1
  | [], st, st', hg, h => by
    simp only [List.foldlM_nil, pure, Except.pure, Except.ok.injEq] at h
    subst h; exact hg
  | M :: Ms, st, st', hg, h => by
    rw [List.foldlM_cons] at h
    simp only [bind, Except.bind] at h
    split at h
    · cases h
    · rename_i st1 h1
      exact groupsFold_out Ms st1 st' (groupStepM_out hg h1) h

/-! ## 4. the final pass -/

theorem finalPass_nf {cfg : GenCfg} {so : StrOracle} : ∀ (is : List String) (g g' : Graph) (done : List String),
    AllOut cfg g → (∀ m ∈ g.models, m.idx ∈ done → ∀ kv ∈ m.fields, nf kv.2 = true) →
    is.foldlM (fun g i => optimizeModel cfg so g i) g = .ok g' →
    AllOut cfg g' ∧ idxs g' = idxs g ∧
      ∀ m ∈ g'.models, m.idx ∈ done ++ is → ∀ kv ∈ m.fields, nf kv.2 = true
  | [], g, g', done, hg, hd, h => by
    simp only [List.foldlM_nil, pure, Except.pure, Except.ok.injEq] at h
    subst h
    exact ⟨hg, rfl, by simpa using hd⟩
  | i :: is, g, g', done, hg, hd, h => by
    rw [List.foldlM_cons] at h
    simp only [bind, Except.bind] at h
    split at h
    · cases h
    · rename_i g1 h1
      obtain ⟨ho1, hi1, hn1, hk1⟩ := optimizeModel_out hg h1
      have hd1 : ∀ m ∈ g1.models, m.idx ∈ done ++ [i] → ∀ kv ∈ m.fields, nf kv.2 = true := by
        intro m hm hmi
        by_cases hi : m.idx = i
        · exact hn1 m hm hi
        · have : m.idx ∈ done := by
            rcases List.mem_append.1 hmi with h' | h'
            · exact h'
            · simp at h'; exact absurd h' hi
          exact hd m (hk1 m hm hi) this
      obtain ⟨h2, h3, h4⟩ := finalPass_nf is g1 g' (done ++ [i]) ho1 hd1 h
      refine ⟨h2, h3.trans hi1, ?_⟩
      intro m hm hmi
      exact h4 m hm (by simpa using hmi)

/-! ## 5. `merge_models` -/

/-- **`merge_models` ends with normal-form fields**: if every field of every registered model is `out`, then after
    `merge_models` (any comparators, any `==`) every field of every registered model is in normal form, and `out` -/
theorem mergeModels_out_nf {cfg : GenCfg} {so : StrOracle} {cmps : List Cmp} {g g' : Graph}
    {repl : List (String × List String)} (hg : AllOut cfg g)
    (h : mergeModels cfg so cmps g = .ok (g', repl)) :
    (∀ m ∈ g'.models, ∀ kv ∈ m.fields, nf kv.2 = true) ∧ AllOut cfg g' := by
  obtain ⟨tbl, groups, gm, _, _, hfold, hfinal⟩ := mergeModels_eq h
  rw [groupStep_eq, ← List.foldlM_map] at hfold
  have hgm : AllOut cfg gm := groupsFold_out _ (g, []) (gm, repl) hg hfold
  obtain ⟨h1, h2, h3⟩ := finalPass_nf (idxs gm) gm g' [] hgm (by simp) hfinal
  refine ⟨?_, h1⟩
  intro m hm
  apply h3 m hm
  rw [List.nil_append, ← h2]
  exact List.mem_map_of_mem hm

end J2M.TwoPass
