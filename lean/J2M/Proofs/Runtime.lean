/-
  Helper lemmas for C14 / C15: the thread-indexed context store behaves like a map, `exec` restores
  every slot, and what a body observes is a function of its own thread's slot at its start.
-/
import J2M.Runtime
namespace J2M.Runtime

/-! ## `CtxState` is a map `ThreadId → Ctx` (observed through `get`) -/

@[simp] theorem CtxState.get_empty (t : ThreadId) : ({} : CtxState).get t = none := rfl

@[simp] theorem CtxState.get_set_same (s : CtxState) (t : ThreadId) (c : Ctx) :
    (s.set t c).get t = c := by
  simp [CtxState.get, CtxState.set]

theorem CtxState.get_set_other (s : CtxState) {t t' : ThreadId} (c : Ctx) (h : t' ≠ t) :
    (s.set t c).get t' = s.get t' := by
  have h1 : (t == t') = false := by simpa using fun e => h e.symm
  have h2 : (fun a : ThreadId × Ctx => decide ((a.1 != t) = true ∧ (a.1 == t') = true))
      = (fun a : ThreadId × Ctx => a.1 == t') := by
    funext a
    by_cases ha : a.1 = t' <;> simp [ha, h]
  simp only [CtxState.get, CtxState.set, List.find?_cons, h1, List.find?_filter, h2]

theorem CtxState.get_set (s : CtxState) (t t' : ThreadId) (c : Ctx) :
    (s.set t c).get t' = if t' = t then c else s.get t' := by
  by_cases h : t' = t
  · subst h; simp
  · simp [h, CtxState.get_set_other]

/-! ## `exec` restores every slot -/

/-- every slot (the running thread's and everybody else's) reads the same after `exec` as before,
    whether the body completed or raised -/
theorem exec_get (t : ThreadId) (body : Body) (s : CtxState) (t' : ThreadId) :
    (exec t body s).1.get t' = s.get t' := by
  induction body generalizing s with
  | read => simp [exec]
  | raise => simp [exec]
  | seq a b iha ihb =>
    simp only [exec]
    split
    · rw [ihb, iha]
    · exact iha s
  | inject p body ih =>
    simp only [exec]
    rw [CtxState.get_set, ih, CtxState.get_set]
    split <;> simp_all

/-! ## What a body observes depends only on its thread's slot at its start -/

/-- the state-free reading of a body: completion flag and observed contexts, given the context `c`
    in force when the body starts -/
def observe (c : Ctx) : Body → Bool × List Ctx
  | .read => (true, [c])
  | .raise => (false, [])
  | .seq a b =>
    let (ok1, r1) := observe c a
    if ok1 then
      let (ok2, r2) := observe c b
      (ok2, r1 ++ r2)
    else (false, r1)
  | .inject p body => observe (some p) body

theorem exec_snd (t : ThreadId) (body : Body) (s : CtxState) :
    (exec t body s).2 = observe (s.get t) body := by
  induction body generalizing s with
  | read => simp [exec, observe]
  | raise => simp [exec, observe]
  | seq a b iha ihb =>
    have h1 := iha s
    have h2 := ihb (exec t a s).1
    rw [exec_get] at h2
    simp only [exec, observe]
    rw [← h1, ← h2]
    split <;> rfl
  | inject p body ih =>
    have := ih (s.set t (some p))
    simp only [exec, observe]
    rw [CtxState.get_set_same] at this
    rw [← this]

/-- running a history of bodies (in any threads) leaves every slot as it was -/
theorem history_get (hist : List (ThreadId × Body)) (s : CtxState) (t : ThreadId) :
    (hist.foldl (fun s x => (exec x.1 x.2 s).1) s).get t = s.get t := by
  induction hist generalizing s with
  | nil => rfl
  | cons x xs ih => simp only [List.foldl_cons]; rw [ih, exec_get]

/-! ## Schedules -/

theorem applyStep_get (s : CtxState) (st : Step) (t : ThreadId) :
    (applyStep s st).get t = if t = st.thread then (st.write.getD (s.get t)) else s.get t := by
  unfold applyStep
  cases hw : st.write with
  | none => simp
  | some c => simp [CtxState.get_set]

/-- projection lemma, generalised over two start states that agree on `t` -/
theorem runSchedule_get_filter (steps : List Step) (t : ThreadId) (s s' : CtxState)
    (h : s.get t = s'.get t) :
    (runSchedule s steps).get t = (runSchedule s' (steps.filter (·.thread == t))).get t := by
  induction steps generalizing s s' with
  | nil => simpa [runSchedule] using h
  | cons st rest ih =>
    by_cases ht : st.thread = t
    · have : (st.thread == t) = true := by simp [ht]
      simp only [runSchedule, List.foldl_cons, List.filter_cons, this, if_true] at *
      apply ih
      simp [applyStep_get, ht, h]
    · have : (st.thread == t) = false := by simp [ht]
      simp only [runSchedule, List.foldl_cons, List.filter_cons, this] at *
      apply ih
      have ht' : ¬ t = st.thread := fun e => ht e.symm
      simp [applyStep_get, ht', h]

/-- a closed form: a thread's slot after a schedule is its own last write, or its initial slot -/
theorem runSchedule_get (steps : List Step) (t : ThreadId) (s : CtxState) :
    (runSchedule s steps).get t
      = (((steps.filter (·.thread == t)).filterMap (·.write)).getLast?).getD (s.get t) := by
  induction steps generalizing s with
  | nil => simp [runSchedule]
  | cons st rest ih =>
    simp only [runSchedule, List.foldl_cons] at *
    rw [ih, applyStep_get]
    by_cases ht : st.thread = t
    · have hb : (st.thread == t) = true := by simp [ht]
      rw [List.filter_cons, hb, if_pos rfl, if_pos ht.symm]
      cases hw : st.write with
      | none => rw [List.filterMap_cons_none hw]; rfl
      | some c => rw [List.filterMap_cons_some hw, List.getLast?_cons]; rfl
    · have hb : (st.thread == t) = false := by simp [ht]
      rw [List.filter_cons, hb, if_neg (fun e => ht e.symm)]
      rfl

end J2M.Runtime
