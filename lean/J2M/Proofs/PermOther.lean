/-
  C07 (generator level), part 9: the member list `_optimize_union` hands to the recursive
  `optimize_type` calls (`unionOther`), described piece by piece, and its dependence on the members
  only up to order.
-/
import J2M.Proofs.PermSplit
import J2M.Proofs.PermDetect
import J2M.Proofs.StringsReg
namespace J2M.Perm
open J2M

/-! ## list helpers -/

theorem removeFirst_eq_filter {α} {p : α → Bool} {l : List α} (h : l.countP p ≤ 1) :
    removeFirst p l = l.filter (fun x => !p x) := by
  induction l with
  | nil => rfl
  | cons x xs ih =>
    unfold removeFirst
    by_cases hp : p x = true
    · simp only [hp, if_true]
      rw [List.countP_cons_of_pos hp] at h
      have h0 : xs.countP p = 0 := by omega
      rw [List.countP_eq_zero] at h0
      rw [List.filter_cons_of_neg (by simp [hp])]
      symm
      rw [List.filter_eq_self]
      intro a ha; simpa using h0 a ha
    · simp only [hp]
      rw [List.countP_cons_of_neg hp] at h
      rw [List.filter_cons_of_pos (by simpa using hp), ih h]
      simp

theorem countP_le_one_of_nodup {α} {p : α → Bool} {l : List α} {a : α} (nd : l.Nodup)
    (h : ∀ x ∈ l, p x = true → x = a) : l.countP p ≤ 1 := by
  induction l with
  | nil => simp
  | cons x xs ih =>
    have nd' := List.nodup_cons.1 nd
    by_cases hp : p x = true
    · rw [List.countP_cons_of_pos hp]
      have hx : x = a := h x (List.mem_cons_self ..) hp
      have h0 : xs.countP p = 0 := by
        rw [List.countP_eq_zero]
        intro y hy hpy
        have : y = a := h y (List.mem_cons_of_mem _ hy) hpy
        exact nd'.1 (by rw [hx, ← this]; exact hy)
      omega
    · rw [List.countP_cons_of_neg hp]
      exact ih nd'.2 (fun y hy => h y (List.mem_cons_of_mem _ hy))

/-! ## the pieces -/

/-- the "other" category after the `int`-under-`float` rule -/
def baseOther (reg : StrRegistry) (ms : List Ty) : List Ty :=
  if (ms.filter (isOth reg)).any Ty.isInt && (ms.filter (isOth reg)).any Ty.isFloat
  then removeFirst Ty.isInt (ms.filter (isOth reg)) else ms.filter (isOth reg)

def kindsOf (S : List Ty) : List String := S.filterMap (fun t => match t with | .ser k => some k | _ => none)

/-- the merged object appended for the inline-object members -/
def ExObj (cfg : GenCfg) (e : EqEnv) (ms : List Ty) (eo : List Ty) : Prop :=
  (ms.filterMap objF = [] ∧ eo = []) ∨
  (ms.filterMap objF ≠ [] ∧ ∃ m, mergeFieldSets cfg.lit e (ms.filterMap objF) = .ok m ∧ eo = [.obj m])

def exList (c : LitCfg) (ms : List Ty) : List Ty :=
  if (ms.filterMap listE).isEmpty then [] else [.list (mkUnion c (ms.filterMap listE))]
def exDict (c : LitCfg) (ms : List Ty) : List Ty :=
  if (ms.filterMap dictE).isEmpty then [] else [.dict (mkUnion c (ms.filterMap dictE))]

/-- the `str` / resolved pseudo-type appended for the string category -/
def ExStr (reg : StrRegistry) (ms : List Ty) (es : List Ty) : Prop :=
  ((ms.filter (isStrT reg)).any Ty.isStr = true ∧ es = [.str]) ∨
  ((ms.filter (isStrT reg)).any Ty.isStr = false ∧ ms.filter (isStrT reg) = [] ∧ es = []) ∨
  ((ms.filter (isStrT reg)).any Ty.isStr = false ∧ ms.filter (isStrT reg) ≠ [] ∧
    ∃ r, r = Strings.survivors reg (dedupStr (kindsOf (ms.filter (isStrT reg)))) ∧
      ((∃ k, r = [k] ∧ es = [.ser k]) ∨ (r.length ≥ 2 ∧ es = [.str])))

theorem unionOther_spec {cfg : GenCfg} {e : EqEnv} {ms other : List Ty}
    (hno : ∀ m ∈ ms, m.isOpt = false) (hnu : ∀ m ∈ ms, m.isUnion = false)
    (h : unionOther cfg e ms = .ok other) :
    ∃ eo es, other = baseOther cfg.reg ms ++ eo ++ exList cfg.lit ms ++ exDict cfg.lit ms ++ es ∧
      ExObj cfg e ms eo ∧ ExStr cfg.reg ms es := by
  unfold unionOther at h
  rw [splitMembers_spec cfg.reg ms hno hnu] at h
  dsimp only at h
  rw [Except.bind_ok_iff] at h
  obtain ⟨other1, h1, h⟩ := h
  have ho1 : ∃ eo, other1 = baseOther cfg.reg ms ++ eo ∧ ExObj cfg e ms eo := by
    split at h1
    · rename_i he
      rw [Except.pure_ok_iff] at h1
      exact ⟨[], by rw [← h1]; simp [baseOther], .inl ⟨by simpa using he, rfl⟩⟩
    · rename_i he
      rw [Except.bind_ok_iff] at h1
      obtain ⟨m, hm1, h1⟩ := h1
      rw [Except.pure_ok_iff] at h1
      exact ⟨[.obj m], by rw [← h1]; simp [baseOther], .inr ⟨by simpa using he, m, hm1, rfl⟩⟩
  obtain ⟨eo, ho1, hexo⟩ := ho1
  subst ho1
  have hl : (if (ms.filterMap listE).isEmpty = true then baseOther cfg.reg ms ++ eo
      else baseOther cfg.reg ms ++ eo ++ [(mkUnion cfg.lit (ms.filterMap listE)).list]) =
      baseOther cfg.reg ms ++ eo ++ exList cfg.lit ms := by
    unfold exList; split <;> simp
  rw [hl] at h
  have hd : (if (ms.filterMap dictE).isEmpty = true then baseOther cfg.reg ms ++ eo ++ exList cfg.lit ms
      else baseOther cfg.reg ms ++ eo ++ exList cfg.lit ms ++ [(mkUnion cfg.lit (ms.filterMap dictE)).dict]) =
      baseOther cfg.reg ms ++ eo ++ exList cfg.lit ms ++ exDict cfg.lit ms := by
    unfold exDict; split <;> simp
  rw [hd] at h
  refine ⟨eo, ?_⟩
  generalize baseOther cfg.reg ms ++ eo ++ exList cfg.lit ms ++ exDict cfg.lit ms = o3 at h ⊢
  split at h
  · rename_i hs
    rw [Except.pure_ok_iff] at h
    exact ⟨[.str], h.symm, hexo, .inl ⟨hs, rfl⟩⟩
  · rename_i hs
    have hs' : (ms.filter (isStrT cfg.reg)).any Ty.isStr = false := by simpa using hs
    split at h
    · rename_i he
      rw [Except.pure_ok_iff] at h
      exact ⟨[], by rw [← h]; simp, hexo, .inr (.inl ⟨hs', by simpa using he, rfl⟩)⟩
    · rename_i he
      rw [Except.bind_ok_iff] at h
      obtain ⟨r, hr, h⟩ := h
      have hr' := Strings.resolve_ok hr
      split at h
      · rename_i k
        rw [Except.pure_ok_iff] at h
        exact ⟨[.ser k], h.symm, hexo, .inr (.inr ⟨hs', by simpa using he, _, hr',
          .inl ⟨k, rfl, rfl⟩⟩)⟩
      · cases h
      · rename_i hn1 hn0
        rw [Except.pure_ok_iff] at h
        refine ⟨[.str], h.symm, hexo, .inr (.inr ⟨hs', by simpa using he, _, hr', .inr ⟨?_, rfl⟩⟩)⟩
        match r, hn1, hn0 with
        | [], _, hn0 => exact absurd rfl hn0
        | [k], hn1, _ => exact absurd rfl (hn1 k)
        | _ :: _ :: _, _, _ => simp


/-! ## what `optimize_type` is applied to during `generate` -/

/-- a field of a merged dict: a raw type or `Optional[raw type]` -/
def FT (c : LitCfg) (t : Ty) : Prop := RawN c t ∨ ∃ x, t = .opt x ∧ RawN c x
/-- an argument of `optimize_type`: a field type, or a merged dict -/
def GIn (c : LitCfg) (t : Ty) : Prop :=
  FT c t ∨ ∃ fs : Fields, t = .obj fs ∧ fs.keys.Nodup ∧ ∀ kv ∈ fs, FT c kv.2

theorem GIn.of_raw {c : LitCfg} {t : Ty} (h : RawN c t) : GIn c t := .inl (.inl h)

/-- a merged dict: distinct keys, every field a raw type or `Optional[raw type]` -/
def MObj (c : LitCfg) (fs : Fields) : Prop := fs.keys.Nodup ∧ ∀ kv ∈ fs, FT c kv.2

/-- two arguments of the same kind -/
def GPair (c : LitCfg) (x y : Ty) : Prop :=
  (RawN c x ∧ RawN c y) ∨ (∃ a b, x = .opt a ∧ y = .opt b ∧ RawN c a ∧ RawN c b) ∨
  (∃ fs gs, x = .obj fs ∧ y = .obj gs ∧ MObj c fs ∧ MObj c gs)

theorem GPair.left {c : LitCfg} {x y : Ty} (h : GPair c x y) : GIn c x := by
  rcases h with ⟨h, _⟩ | ⟨a, b, rfl, rfl, ha, _⟩ | ⟨fs, gs, rfl, rfl, hf, _⟩
  · exact .of_raw h
  · exact .inl (.inr ⟨a, rfl, ha⟩)
  · exact .inr ⟨fs, rfl, hf.1, hf.2⟩

theorem GPair.right {c : LitCfg} {x y : Ty} (h : GPair c x y) : GIn c y := by
  rcases h with ⟨_, h⟩ | ⟨a, b, rfl, rfl, _, hb⟩ | ⟨fs, gs, rfl, rfl, _, hg⟩
  · exact .of_raw h
  · exact .inl (.inr ⟨b, rfl, hb⟩)
  · exact .inr ⟨gs, rfl, hg.1, hg.2⟩

/-- two corresponding arguments of the recursive calls -/
structure XRel (c : LitCfg) (x y : Ty) : Prop where
  pair : GPair c x y
  sim : NSim x y
  ux : x.isUnion = false
  uy : y.isUnion = false
  ox : x.isOpt = false
  oy : y.isOpt = false

structure PieceRel (c : LitCfg) (o₁ o₂ : List Ty) : Prop where
  len : o₁.length = o₂.length
  fwd : ∀ x ∈ o₁, ∃ y ∈ o₂, XRel c x y
  bwd : ∀ y ∈ o₂, ∃ x ∈ o₁, XRel c x y

theorem PieceRel.nil (c : LitCfg) : PieceRel c [] [] := ⟨rfl, by simp, by simp⟩

theorem PieceRel.single {c : LitCfg} {x y : Ty} (h : XRel c x y) : PieceRel c [x] [y] :=
  ⟨rfl, by simpa using h, by simpa using h⟩

theorem PieceRel.append {c : LitCfg} {a b a' b' : List Ty} (h : PieceRel c a b) (h' : PieceRel c a' b') :
    PieceRel c (a ++ a') (b ++ b') := by
  refine ⟨by simp [h.len, h'.len], ?_, ?_⟩
  · intro x hx
    rcases List.mem_append.1 hx with hx | hx
    · obtain ⟨y, hy, r⟩ := h.fwd x hx; exact ⟨y, List.mem_append_left _ hy, r⟩
    · obtain ⟨y, hy, r⟩ := h'.fwd x hx; exact ⟨y, List.mem_append_right _ hy, r⟩
  · intro y hy
    rcases List.mem_append.1 hy with hy | hy
    · obtain ⟨x, hx, r⟩ := h.bwd y hy; exact ⟨x, List.mem_append_left _ hx, r⟩
    · obtain ⟨x, hx, r⟩ := h'.bwd y hy; exact ⟨x, List.mem_append_right _ hx, r⟩

theorem PieceRel.of_perm {c : LitCfg} {a b : List Ty} (h : a.Perm b)
    (hx : ∀ x ∈ a, RawN c x ∧ x.isUnion = false) : PieceRel c a b := by
  have hr : ∀ x ∈ a, XRel c x x := fun x hxa =>
    ⟨.inl ⟨(hx x hxa).1, (hx x hxa).1⟩, NSim.refl _, (hx x hxa).2, (hx x hxa).2,
      (hx x hxa).1.not_opt, (hx x hxa).1.not_opt⟩
  exact ⟨h.length_eq, fun x hxa => ⟨x, h.mem_iff.1 hxa, hr x hxa⟩,
    fun y hy => ⟨y, h.mem_iff.2 hy, hr y (h.mem_iff.2 hy)⟩⟩

/-! ## members of a raw union -/

structure MemOK (c : LitCfg) (ms : List Ty) : Prop where
  raw : ∀ m ∈ ms, RawN c m
  flat : ∀ m ∈ ms, m.isUnion = false
  noov : ∀ m ∈ ms, m.isOvLit = false
  nd : ms.Nodup

theorem memOK_of_raw {c : LitCfg} {ms : List Ty} (h : RawN c (.union ms)) : MemOK c ms :=
  ⟨fun m hm => ((rawN_union.1 h).1 m hm).1, fun m hm => ((rawN_union.1 h).1 m hm).2.1,
   fun m hm => ((rawN_union.1 h).1 m hm).2.2, (rawN_union.1 h).2.1⟩

theorem MemOK.noopt {c : LitCfg} {ms : List Ty} (h : MemOK c ms) : ∀ m ∈ ms, m.isOpt = false :=
  fun m hm => (h.raw m hm).not_opt

theorem isOth_leaf {c : LitCfg} {reg : StrRegistry} {m : Ty} (hr : RawN c m) (hu : m.isUnion = false)
    (h : isOth reg m = true) : Ty.isLeaf m = true := by
  cases m <;> simp_all [isOth, Ty.isLeaf, Ty.isUnion]

theorem isStrT_leaf {reg : StrRegistry} {m : Ty} (h : isStrT reg m = true) : Ty.isLeaf m = true := by
  cases m <;> simp_all [isStrT, Ty.isLeaf]

/-- filters by a predicate on leaves pick the same members on both sides -/
theorem filter_leaf_mem {ms₁ ms₂ : List Ty} {p : Ty → Bool} (hs : SetA ms₁ ms₂)
    (hp : ∀ m ∈ ms₁, p m = true → Ty.isLeaf m = true) {x : Ty} (hx : x ∈ ms₁.filter p) : x ∈ ms₂.filter p := by
  obtain ⟨h1, h2⟩ := List.mem_filter.1 hx
  obtain ⟨y, hy, hxy⟩ := hs.1 x h1
  have : y = x := (asim_leaf (hp x h1 h2)).1 hxy
  subst this
  exact List.mem_filter.2 ⟨hy, h2⟩

theorem any_eq_of_mem_iff {l₁ l₂ : List Ty} (h : ∀ x, x ∈ l₁ ↔ x ∈ l₂) (p : Ty → Bool) : l₁.any p = l₂.any p := by
  rw [Bool.eq_iff_iff, List.any_eq_true, List.any_eq_true]
  exact ⟨fun ⟨x, hx, hp⟩ => ⟨x, (h x).1 hx, hp⟩, fun ⟨x, hx, hp⟩ => ⟨x, (h x).2 hx, hp⟩⟩

theorem base_rel {c : LitCfg} {reg : StrRegistry} {ms₁ ms₂ : List Ty} (h₁ : MemOK c ms₁) (h₂ : MemOK c ms₂)
    (hs : SetA ms₁ ms₂) :
    PieceRel c (baseOther reg ms₁) (baseOther reg ms₂) ∧
    (baseOther reg ms₁).countP Ty.isUnknown ≤ 1 ∧ (baseOther reg ms₂).countP Ty.isUnknown ≤ 1 := by
  have hmem : ∀ x, x ∈ ms₁.filter (isOth reg) ↔ x ∈ ms₂.filter (isOth reg) := fun x =>
    ⟨filter_leaf_mem hs (fun m hm hp => isOth_leaf (h₁.raw m hm) (h₁.flat m hm) hp),
     filter_leaf_mem hs.symm (fun m hm hp => isOth_leaf (h₂.raw m hm) (h₂.flat m hm) hp)⟩
  have nd₁ : (ms₁.filter (isOth reg)).Nodup := h₁.nd.sublist List.filter_sublist
  have nd₂ : (ms₂.filter (isOth reg)).Nodup := h₂.nd.sublist List.filter_sublist
  have hperm : (ms₁.filter (isOth reg)).Perm (ms₂.filter (isOth reg)) :=
    (List.perm_ext_iff_of_nodup nd₁ nd₂).2 hmem
  have hint : ∀ {l : List Ty}, l.Nodup → l.countP Ty.isInt ≤ 1 := fun nd =>
    countP_le_one_of_nodup (a := .int) nd (fun x _ hp => by cases x <;> simp [Ty.isInt] at hp; rfl)
  have hunk : ∀ {l : List Ty}, l.Nodup → l.countP Ty.isUnknown ≤ 1 := fun nd =>
    countP_le_one_of_nodup (a := .unknown) nd (fun x _ hp => by cases x <;> simp [Ty.isUnknown] at hp; rfl)
  have hbperm : (baseOther reg ms₁).Perm (baseOther reg ms₂) := by
    unfold baseOther
    rw [any_eq_of_mem_iff hmem Ty.isInt, any_eq_of_mem_iff hmem Ty.isFloat]
    split
    · rw [removeFirst_eq_filter (hint nd₁), removeFirst_eq_filter (hint nd₂)]
      exact hperm.filter _
    · exact hperm
  have hsub : ∀ ms : List Ty, (baseOther reg ms).Sublist (ms.filter (isOth reg)) := by
    intro ms
    unfold baseOther
    split
    · by_cases hc : (ms.filter (isOth reg)).countP Ty.isInt ≤ 1
      · rw [removeFirst_eq_filter hc]; exact List.filter_sublist
      · -- general: removeFirst is a sublist
        have : ∀ l : List Ty, (removeFirst Ty.isInt l).Sublist l := by
          intro l
          induction l with
          | nil => exact List.Sublist.refl _
          | cons x xs ih =>
            unfold removeFirst
            split
            · exact List.sublist_cons_self x xs
            · exact ih.cons_cons x
        exact this _
    · exact List.Sublist.refl _
  refine ⟨PieceRel.of_perm hbperm ?_, hunk (nd₁.sublist (hsub ms₁)), hunk (nd₂.sublist (hsub ms₂))⟩
  intro x hx
  have hx' := (List.mem_filter.1 ((hsub ms₁).subset hx)).1
  exact ⟨h₁.raw x hx', h₁.flat x hx'⟩

/-! ## the merged object -/

theorem obj_rel {cfg : GenCfg} {e : EqEnv} {ms₁ ms₂ eo₁ eo₂ : List Ty}
    (h₁ : MemOK cfg.lit ms₁) (h₂ : MemOK cfg.lit ms₂) (hs : SetA ms₁ ms₂)
    (x₁ : ExObj cfg e ms₁ eo₁) (x₂ : ExObj cfg e ms₂ eo₂) : PieceRel cfg.lit eo₁ eo₂ := by
  have hsets : SetsN (ms₁.filterMap objF) (ms₂.filterMap objF) := by
    constructor
    · intro fs hfs
      obtain ⟨y, hy, hxy⟩ := hs.1 _ (mem_filterMap_objF.1 hfs)
      obtain ⟨gs, rfl, hfg⟩ := asim_obj.1 hxy
      exact ⟨gs, mem_filterMap_objF.2 hy, hfg⟩
    · intro gs hgs
      obtain ⟨x, hx, hxy⟩ := hs.2 _ (mem_filterMap_objF.1 hgs)
      obtain ⟨fs, rfl, hfg⟩ := asim_obj.1 hxy.symm
      exact ⟨fs, mem_filterMap_objF.2 hx, hfg.symm⟩
  have hraw : ∀ {ms : List Ty}, MemOK cfg.lit ms → RawSets cfg.lit (ms.filterMap objF) := by
    intro ms h fs hfs kv hkv
    exact (rawN_obj.1 (h.raw _ (mem_filterMap_objF.1 hfs))).2 kv hkv
  have hgin : ∀ {ms : List Ty} {m : Fields}, MemOK cfg.lit ms →
      mergeFieldSets cfg.lit e (ms.filterMap objF) = .ok m → MObj cfg.lit m := by
    intro ms m h hm
    exact mergeFieldSets_rawT (hraw h) hm
  rcases x₁ with ⟨e1, rfl⟩ | ⟨n1, m₁, hm₁, rfl⟩ <;> rcases x₂ with ⟨e2, rfl⟩ | ⟨n2, m₂, hm₂, rfl⟩
  · exact PieceRel.nil _
  · exfalso
    obtain ⟨gs, hgs⟩ := List.exists_mem_of_ne_nil _ n2
    obtain ⟨fs, hfs, _⟩ := hsets.2 gs hgs
    rw [e1] at hfs; simp at hfs
  · exfalso
    obtain ⟨fs, hfs⟩ := List.exists_mem_of_ne_nil _ n1
    obtain ⟨gs, hgs, _⟩ := hsets.1 fs hfs
    rw [e2] at hgs; simp at hgs
  · apply PieceRel.single
    have hN := mergeFieldSets_congr (hraw h₁) (hraw h₂) hsets hm₁ hm₂
    exact ⟨.inr (.inr ⟨m₁, m₂, rfl, rfl, hgin h₁ hm₁, hgin h₂ hm₂⟩), nsim_of_asim' (asim_obj_obj.2 hN),
      rfl, rfl, rfl, rfl⟩

/-! ## the merged list / dict element types -/

theorem mkUM_flatten (c : LitCfg) (L : List Ty) : mkUnionMembers c (flattenUnion L) = mkUnionMembers c L := by
  unfold mkUnionMembers
  rw [flattenUnion_id (flattenUnion_nonunion L)]

theorem flatten_eq_flatMap {c : LitCfg} {L : List Ty} (h : ∀ a ∈ L, RawN c a) :
    flattenUnion L = L.flatMap Ty.unionMembers := by
  induction L with
  | nil => simp [flattenUnion]
  | cons a L ih =>
    have iha := ih (fun b hb => h b (List.mem_cons_of_mem _ hb))
    have ha := h a (List.mem_cons_self ..)
    by_cases hu : a.isUnion = true
    · cases a <;> simp [Ty.isUnion] at hu
      rename_i as
      rw [flattenUnion, iha, flattenUnion_id (fun m hm => ((rawN_union.1 ha).1 m hm).2.1)]
      simp [Ty.unionMembers]
    · have hu' : a.isUnion = false := by simpa using hu
      have hnu : ∀ ms, a = .union ms → False := by
        intro ms e; subst e; simp [Ty.isUnion] at hu'
      rw [flattenUnion.eq_3 _ _ hnu, iha, List.flatMap_cons, unionMembers_of_nonunion hu']
      simp

theorem elems_rel {c : LitCfg} {L₁ L₂ : List Ty} (r₁ : ∀ a ∈ L₁, RawN c a) (r₂ : ∀ a ∈ L₂, RawN c a)
    (f : ∀ a ∈ L₁, ∃ b ∈ L₂, NSim a b) (b : ∀ b ∈ L₂, ∃ a ∈ L₁, NSim a b) :
    RawN c (mkUnion c L₁) ∧ RawN c (mkUnion c L₂) ∧ NSim (mkUnion c L₁) (mkUnion c L₂) := by
  have hmem : ∀ {L : List Ty}, (∀ a ∈ L, RawN c a) →
      ∀ t ∈ L.flatMap Ty.unionMembers, RawN c t ∧ t.isUnion = false := by
    intro L hL t ht
    obtain ⟨a, ha, hta⟩ := List.mem_flatMap.1 ht
    exact (hL a ha).members t hta
  have hraw : ∀ {L : List Ty}, (∀ a ∈ L, RawN c a) → RawN c (mkUnion c L) := by
    intro L hL
    unfold mkUnion
    rw [← mkUM_flatten, flatten_eq_flatMap hL]
    exact rawN_union.2 ⟨rawN_mkUM (hmem hL), nodup_mkUM _ _,
      mstable_mkUM ⟨fun t ht => (hmem hL t ht).2, fun t ht => (hmem hL t ht).1.wf⟩⟩
  refine ⟨hraw r₁, hraw r₂, ?_⟩
  unfold mkUnion
  rw [nsim_union_union, ← mkUM_flatten, ← mkUM_flatten c L₂, flatten_eq_flatMap r₁, flatten_eq_flatMap r₂]
  have fw : ∀ {L : List Ty}, (∀ a ∈ L, RawN c a) → FlatWF (L.flatMap Ty.unionMembers) := fun hL =>
    ⟨fun t ht => (hmem hL t ht).2, fun t ht => (hmem hL t ht).1.wf⟩
  apply mkUM_congr_set leafEq_asim (fw r₁) (fw r₂)
  constructor
  · intro x hx
    obtain ⟨a, ha, hxa⟩ := List.mem_flatMap.1 hx
    obtain ⟨b', hb', hab⟩ := f a ha
    obtain ⟨y, hy, hxy⟩ := (nsim_iff.1 hab).1 x hxa
    exact ⟨y, List.mem_flatMap.2 ⟨b', hb', hy⟩, hxy⟩
  · intro y hy
    obtain ⟨b', hb', hyb⟩ := List.mem_flatMap.1 hy
    obtain ⟨a, ha, hab⟩ := b b' hb'
    obtain ⟨x, hx, hxy⟩ := (nsim_iff.1 hab).2 y hyb
    exact ⟨x, List.mem_flatMap.2 ⟨a, ha, hx⟩, hxy⟩

theorem list_rel {c : LitCfg} {ms₁ ms₂ : List Ty} (h₁ : MemOK c ms₁) (h₂ : MemOK c ms₂) (hs : SetA ms₁ ms₂) :
    PieceRel c (exList c ms₁) (exList c ms₂) := by
  have f : ∀ a ∈ ms₁.filterMap listE, ∃ b ∈ ms₂.filterMap listE, NSim a b := by
    intro a ha
    obtain ⟨y, hy, hxy⟩ := hs.1 _ (mem_filterMap_listE.1 ha)
    obtain ⟨b, rfl, hab⟩ := asim_list.1 hxy
    exact ⟨b, mem_filterMap_listE.2 hy, hab⟩
  have b : ∀ b ∈ ms₂.filterMap listE, ∃ a ∈ ms₁.filterMap listE, NSim a b := by
    intro b hb
    obtain ⟨x, hx, hxy⟩ := hs.2 _ (mem_filterMap_listE.1 hb)
    obtain ⟨a, rfl, hab⟩ := asim_list.1 hxy.symm
    exact ⟨a, mem_filterMap_listE.2 hx, hab.symm⟩
  have r₁ : ∀ a ∈ ms₁.filterMap listE, RawN c a := fun a ha => by
    simpa using h₁.raw _ (mem_filterMap_listE.1 ha)
  have r₂ : ∀ a ∈ ms₂.filterMap listE, RawN c a := fun a ha => by
    simpa using h₂.raw _ (mem_filterMap_listE.1 ha)
  unfold exList
  by_cases e1 : ms₁.filterMap listE = []
  · have e2 : ms₂.filterMap listE = [] := by
      cases h : ms₂.filterMap listE with
      | nil => rfl
      | cons x xs =>
        obtain ⟨a, ha, _⟩ := b x (by rw [h]; simp)
        rw [e1] at ha; simp at ha
    simp only [e1, e2, List.isEmpty_nil, if_true]
    exact PieceRel.nil _
  · have e2 : ms₂.filterMap listE ≠ [] := by
      intro e2
      obtain ⟨a, ha⟩ := List.exists_mem_of_ne_nil _ e1
      obtain ⟨b', hb', _⟩ := f a ha
      rw [e2] at hb'; simp at hb'
    simp only [List.isEmpty_iff, e1, e2, if_false]
    obtain ⟨g₁, g₂, hn⟩ := elems_rel r₁ r₂ f b
    exact PieceRel.single ⟨.inl ⟨by simpa using g₁, by simpa using g₂⟩,
      nsim_of_asim' (asim_list_list.2 hn), rfl, rfl, rfl, rfl⟩

theorem dict_rel {c : LitCfg} {ms₁ ms₂ : List Ty} (h₁ : MemOK c ms₁) (h₂ : MemOK c ms₂) (hs : SetA ms₁ ms₂) :
    PieceRel c (exDict c ms₁) (exDict c ms₂) := by
  have f : ∀ a ∈ ms₁.filterMap dictE, ∃ b ∈ ms₂.filterMap dictE, NSim a b := by
    intro a ha
    obtain ⟨y, hy, hxy⟩ := hs.1 _ (mem_filterMap_dictE.1 ha)
    obtain ⟨b, rfl, hab⟩ := asim_dict.1 hxy
    exact ⟨b, mem_filterMap_dictE.2 hy, hab⟩
  have b : ∀ b ∈ ms₂.filterMap dictE, ∃ a ∈ ms₁.filterMap dictE, NSim a b := by
    intro b hb
    obtain ⟨x, hx, hxy⟩ := hs.2 _ (mem_filterMap_dictE.1 hb)
    obtain ⟨a, rfl, hab⟩ := asim_dict.1 hxy.symm
    exact ⟨a, mem_filterMap_dictE.2 hx, hab.symm⟩
  have r₁ : ∀ a ∈ ms₁.filterMap dictE, RawN c a := fun a ha => by
    simpa using h₁.raw _ (mem_filterMap_dictE.1 ha)
  have r₂ : ∀ a ∈ ms₂.filterMap dictE, RawN c a := fun a ha => by
    simpa using h₂.raw _ (mem_filterMap_dictE.1 ha)
  unfold exDict
  by_cases e1 : ms₁.filterMap dictE = []
  · have e2 : ms₂.filterMap dictE = [] := by
      cases h : ms₂.filterMap dictE with
      | nil => rfl
      | cons x xs =>
        obtain ⟨a, ha, _⟩ := b x (by rw [h]; simp)
        rw [e1] at ha; simp at ha
    simp only [e1, e2, List.isEmpty_nil, if_true]
    exact PieceRel.nil _
  · have e2 : ms₂.filterMap dictE ≠ [] := by
      intro e2
      obtain ⟨a, ha⟩ := List.exists_mem_of_ne_nil _ e1
      obtain ⟨b', hb', _⟩ := f a ha
      rw [e2] at hb'; simp at hb'
    simp only [List.isEmpty_iff, e1, e2, if_false]
    obtain ⟨g₁, g₂, hn⟩ := elems_rel r₁ r₂ f b
    exact PieceRel.single ⟨.inl ⟨by simpa using g₁, by simpa using g₂⟩,
      nsim_of_asim' (asim_dict_dict.2 hn), rfl, rfl, rfl, rfl⟩

/-! ## the string category -/

theorem mem_kindsOf {S : List Ty} {k : String} : k ∈ kindsOf S ↔ Ty.ser k ∈ S := by
  simp only [kindsOf, List.mem_filterMap]
  constructor
  · rintro ⟨a, ha, h⟩; cases a <;> simp at h; subst h; exact ha
  · intro h; exact ⟨_, h, rfl⟩

theorem xrel_leaf {c : LitCfg} {x : Ty} (h : RawN c x) (hu : x.isUnion = false) : XRel c x x :=
  ⟨.inl ⟨h, h⟩, NSim.refl _, hu, hu, h.not_opt, h.not_opt⟩

theorem str_rel {c : LitCfg} {reg : StrRegistry} {ms₁ ms₂ es₁ es₂ : List Ty}
    (h₁ : MemOK c ms₁) (hs : SetA ms₁ ms₂)
    (x₁ : ExStr reg ms₁ es₁) (x₂ : ExStr reg ms₂ es₂) : PieceRel c es₁ es₂ := by
  have hmem : ∀ x, x ∈ ms₁.filter (isStrT reg) ↔ x ∈ ms₂.filter (isStrT reg) := fun x =>
    ⟨filter_leaf_mem hs (fun _ _ hp => isStrT_leaf hp), filter_leaf_mem hs.symm (fun _ _ hp => isStrT_leaf hp)⟩
  have hany := any_eq_of_mem_iff hmem Ty.isStr
  have hnil : ms₁.filter (isStrT reg) = [] ↔ ms₂.filter (isStrT reg) = [] := by
    constructor
    · intro e
      cases h : ms₂.filter (isStrT reg) with
      | nil => rfl
      | cons x xs => have := (hmem x).2 (by rw [h]; simp); rw [e] at this; simp at this
    · intro e
      cases h : ms₁.filter (isStrT reg) with
      | nil => rfl
      | cons x xs => have := (hmem x).1 (by rw [h]; simp); rw [e] at this; simp at this
  have hstr : XRel c .str .str := xrel_leaf (by simp) rfl
  have hD : ∀ k, k ∈ dedupStr (kindsOf (ms₁.filter (isStrT reg))) ↔
      k ∈ dedupStr (kindsOf (ms₂.filter (isStrT reg))) := by
    intro k; rw [mem_dedupStr, mem_dedupStr, mem_kindsOf, mem_kindsOf, hmem]
  have hperm : (Strings.survivors reg (dedupStr (kindsOf (ms₁.filter (isStrT reg))))).Perm
      (Strings.survivors reg (dedupStr (kindsOf (ms₂.filter (isStrT reg))))) := by
    apply (List.perm_ext_iff_of_nodup (Strings.nodup_survivors (nodup_dedupStr _))
      (Strings.nodup_survivors (nodup_dedupStr _))).2
    intro k
    rw [Strings.mem_survivors, Strings.mem_survivors, hD]
    constructor
    · rintro ⟨h1, h2⟩; exact ⟨h1, fun t2 ht2 => h2 t2 ((hD t2).2 ht2)⟩
    · rintro ⟨h1, h2⟩; exact ⟨h1, fun t2 ht2 => h2 t2 ((hD t2).1 ht2)⟩
  rcases x₁ with ⟨a1, rfl⟩ | ⟨a1, n1, rfl⟩ | ⟨a1, n1, r₁, hr₁, c1⟩ <;>
    rcases x₂ with ⟨a2, rfl⟩ | ⟨a2, n2, rfl⟩ | ⟨a2, n2, r₂, hr₂, c2⟩
  · exact PieceRel.single hstr
  · rw [hany, a2] at a1; cases a1
  · rw [hany, a2] at a1; cases a1
  · rw [hany, a2] at a1; cases a1
  · exact PieceRel.nil _
  · exact absurd (hnil.1 n1) n2
  · rw [hany, a2] at a1; cases a1
  · exact absurd (hnil.2 n2) n1
  · subst hr₁ hr₂
    rcases c1 with ⟨k, e1, rfl⟩ | ⟨l1, rfl⟩ <;> rcases c2 with ⟨k', e2, rfl⟩ | ⟨l2, rfl⟩
    · rw [e1, e2] at hperm
      have : k = k' := by simpa using hperm
      subst this
      have hk : k ∈ Strings.survivors reg (dedupStr (kindsOf (ms₁.filter (isStrT reg)))) := by rw [e1]; simp
      have := (Strings.mem_survivors.1 hk).1
      rw [mem_dedupStr, mem_kindsOf] at this
      exact PieceRel.single (xrel_leaf (h₁.raw _ (List.mem_filter.1 this).1) rfl)
    · have := hperm.length_eq; rw [e1] at this; simp at this; omega
    · have := hperm.length_eq; rw [e2] at this; simp at this; omega
    · exact PieceRel.single hstr

/-! ## assembled -/

/-- the two member lists handed to the recursive calls correspond -/
structure OtherRel (c : LitCfg) (o₁ o₂ : List Ty) : Prop where
  rel : PieceRel c o₁ o₂
  unk₁ : o₁.countP Ty.isUnknown ≤ 1
  unk₂ : o₂.countP Ty.isUnknown ≤ 1

theorem countP_unknown_single_nonleaf {x : Ty} (h : x.isUnknown = false) : [x].countP Ty.isUnknown = 0 := by
  simp [h]

theorem pieceRel_no_unknown_obj {cfg : GenCfg} {e : EqEnv} {ms eo : List Ty} (x : ExObj cfg e ms eo) :
    eo.countP Ty.isUnknown = 0 := by
  rcases x with ⟨_, rfl⟩ | ⟨_, m, _, rfl⟩ <;> simp [Ty.isUnknown]

theorem exList_no_unknown (c : LitCfg) (ms : List Ty) : (exList c ms).countP Ty.isUnknown = 0 := by
  unfold exList; split <;> simp [Ty.isUnknown]
theorem exDict_no_unknown (c : LitCfg) (ms : List Ty) : (exDict c ms).countP Ty.isUnknown = 0 := by
  unfold exDict; split <;> simp [Ty.isUnknown]
theorem exStr_no_unknown {reg : StrRegistry} {ms es : List Ty} (x : ExStr reg ms es) :
    es.countP Ty.isUnknown = 0 := by
  rcases x with ⟨_, rfl⟩ | ⟨_, _, rfl⟩ | ⟨_, _, r, _, ⟨k, _, rfl⟩ | ⟨_, rfl⟩⟩ <;> simp [Ty.isUnknown]

/-- **`unionOther` depends on the members only up to order** -/
theorem other_rel {cfg : GenCfg} {e : EqEnv} {ms₁ ms₂ o₁ o₂ : List Ty}
    (r₁ : RawN cfg.lit (.union ms₁)) (r₂ : RawN cfg.lit (.union ms₂)) (hs : SetA ms₁ ms₂)
    (h₁ : unionOther cfg e ms₁ = .ok o₁) (h₂ : unionOther cfg e ms₂ = .ok o₂) : OtherRel cfg.lit o₁ o₂ := by
  have m₁ := memOK_of_raw r₁
  have m₂ := memOK_of_raw r₂
  obtain ⟨eo₁, es₁, rfl, xo₁, xs₁⟩ := unionOther_spec m₁.noopt m₁.flat h₁
  obtain ⟨eo₂, es₂, rfl, xo₂, xs₂⟩ := unionOther_spec m₂.noopt m₂.flat h₂
  obtain ⟨hb, u₁, u₂⟩ := base_rel (reg := cfg.reg) m₁ m₂ hs
  refine ⟨(((hb.append (obj_rel m₁ m₂ hs xo₁ xo₂)).append (list_rel m₁ m₂ hs)).append
    (dict_rel m₁ m₂ hs)).append (str_rel m₁ hs xs₁ xs₂), ?_, ?_⟩
  · simp only [List.countP_append, pieceRel_no_unknown_obj xo₁, exList_no_unknown, exDict_no_unknown,
      exStr_no_unknown xs₁]
    omega
  · simp only [List.countP_append, pieceRel_no_unknown_obj xo₂, exList_no_unknown, exDict_no_unknown,
      exStr_no_unknown xs₂]
    omega

end J2M.Perm
