/-
  C02 tightness, part 1: `DUnion(*ts)` and `_detect_type` produce witnessed types.
    * `mkUnion_witM` / `mkUnion_wit` — every member of `DUnion(*ts)` is witnessed when every argument is
      (literal folding keeps only observed strings; overflow / `str` is witnessed by any observed string);
    * `detect_wit` — a value witnesses its own detected type.
-/
import J2M.Proofs.TightDef
import J2M.Proofs.Merge
import J2M.Proofs.OptimizeNF
namespace J2M.Tight
open J2M J2M.C02T

/-- a union member in the making: witnessed, or `Unknown` under the licence `u` (the element type of an
    empty list, which `_optimize_union` drops as soon as another member exists) -/
def WitM (acc : Accepts) (u : Prop) (m : Ty) (vs : List Json) : Prop :=
  (m = .unknown ∧ u) ∨ Wit acc False False m vs

theorem WitM.of_wit {acc : Accepts} {u : Prop} {m : Ty} {vs : List Json} (h : Wit acc False False m vs) :
    WitM acc u m vs := .inr h

theorem WitM.mono {acc : Accepts} {u u' : Prop} {m : Ty} {vs vs' : List Json} (hu : u → u')
    (hs : ∀ v ∈ vs, v ∈ vs') (h : WitM acc u m vs) : WitM acc u' m vs' := by
  rcases h with ⟨h1, h2⟩ | h
  · exact .inl ⟨h1, hu h2⟩
  · exact .inr (Wit.mono m id id hs h)

/-- a witnessed-or-licensed member, read at a position with licence `u` -/
theorem WitM.toWit {acc : Accepts} {u : Prop} {m : Ty} {vs : List Json} (h : WitM acc u m vs) :
    Wit acc False u m vs := by
  rcases h with ⟨rfl, h2⟩ | h
  · simpa [Wit] using h2
  · exact Wit.mono m id (fun h => h.elim) (fun _ h => h) h

theorem WitM.of_flags {acc : Accepts} {a u : Prop} {m : Ty} {vs : List Json} (h : Wit acc a u m vs)
    (ho : m.isOpt = false) : WitM acc u m vs := h.drop_flags ho

/-! ### `DUnion.__init__` -/

theorem flatten_witM {acc : Accepts} {u : Prop} {vs : List Json} {ts : List Ty}
    (h : ∀ t ∈ ts, WitM acc u t vs) : ∀ m ∈ flattenUnion ts, WitM acc u m vs := by
  induction ts using flattenUnion.induct with
  | case1 => simp [flattenUnion]
  | case2 ms rest ih1 ih2 =>
    intro t ht
    rw [flattenUnion] at ht
    rcases List.mem_append.1 ht with h1 | h1
    · refine ih1 ?_ t h1
      rcases h _ (List.mem_cons_self ..) with ⟨h0, _⟩ | h0
      · cases h0
      · exact fun m hm => .inr ((wit_union.1 h0).2 m hm)
    · exact ih2 (fun t ht => h t (List.mem_cons_of_mem _ ht)) t h1
  | case3 t0 rest hnu ih =>
    intro t ht
    rw [flattenUnion.eq_3 _ _ hnu] at ht
    rcases List.mem_cons.1 ht with h1 | h1
    · subst h1; exact h _ (List.mem_cons_self ..)
    · exact ih (fun t ht => h t (List.mem_cons_of_mem _ ht)) t h1

theorem flatten_ne_nil_of_witM {acc : Accepts} {u : Prop} {vs : List Json} {ts : List Ty}
    (hne : ts ≠ []) (h : ∀ t ∈ ts, WitM acc u t vs) : flattenUnion ts ≠ [] := by
  induction ts using flattenUnion.induct with
  | case1 => exact absurd rfl hne
  | case2 ms rest ih1 _ =>
    rw [flattenUnion]
    rcases h _ (List.mem_cons_self ..) with ⟨h0, _⟩ | h0
    · cases h0
    · have := ih1 (wit_union.1 h0).1 (fun m hm => .inr ((wit_union.1 h0).2 m hm))
      intro e
      exact this (List.append_eq_nil_iff.1 e).1
  | case3 t0 rest hnu _ =>
    rw [flattenUnion.eq_3 _ _ hnu]; simp

/-- **`mkUnion_wit`**, general form: when every argument of `DUnion(*ts)` is witnessed by `vs` (or is a licensed
    `Unknown`), so is every member of the result: a kept member is a flattened argument; the folded literal
    lists only strings of literal arguments, each of them observed; `str` (a `str` argument, an overflowed
    literal argument or an overflowing fold) is witnessed by some observed string. -/
theorem mkUnion_witM {acc : Accepts} {u : Prop} {c : LitCfg} {ts : List Ty} {vs : List Json}
    (h : ∀ t ∈ ts, WitM acc u t vs) : ∀ m ∈ mkUnionMembers c ts, WitM acc u m vs := by
  have hfl := flatten_witM h
  have hlit : ∀ ov ws, Ty.lit ov ws ∈ flattenUnion ts → Wit acc False False (.lit ov ws) vs := by
    intro ov ws hm
    rcases hfl _ hm with ⟨h0, _⟩ | h0
    · cases h0
    · exact h0
  intro m hm
  rcases J2M.mkUnion_members_subset c ts m hm with ⟨h1, _⟩ | ⟨ws, rfl, hne, hfold, _, _⟩ | ⟨rfl, hc⟩
  · exact hfl m h1
  · refine .inr ?_
    simp only [Wit]
    refine ⟨hne, fun w hw => ?_⟩
    obtain ⟨ws', hmem, hw'⟩ := (hfold w).1 hw
    have := hlit _ _ hmem
    simp only [Wit] at this
    exact this.2 w hw'
  · refine .inr ?_
    simp only [Wit]
    rcases hc with h1 | ⟨ws, h1⟩ | ⟨_, ws, hfold, hov⟩
    · rcases hfl _ h1 with ⟨h0, _⟩ | h0
      · cases h0
      · simpa [Wit] using h0
    · have := hlit _ _ h1
      simpa [Wit] using this
    · have hne := litOverflows_ne_nil hov
      obtain ⟨w, hw⟩ := List.exists_mem_of_ne_nil _ hne
      obtain ⟨ws', hmem, hw'⟩ := (hfold w).1 hw
      have := hlit _ _ hmem
      simp only [Wit] at this
      exact ⟨w, this.2 w hw'⟩

theorem mkUnion_ne_nil_of_witM {acc : Accepts} {u : Prop} {c : LitCfg} {ts : List Ty} {vs : List Json}
    (hne : ts ≠ []) (h : ∀ t ∈ ts, WitM acc u t vs) : mkUnionMembers c ts ≠ [] := by
  apply C08P.mkUM_ne_nil c ts (flatten_ne_nil_of_witM hne h)
  intro t ht ws
  by_cases e : t = .lit false ws
  · right
    subst e
    rcases flatten_witM h _ ht with ⟨h0, _⟩ | h0
    · cases h0
    · simp only [Wit] at h0; exact h0.1
  · exact .inl e

/-- **`mkUnion_wit`**: union of witnessed members (over any value list) is member-wise witnessed and non-empty -/
theorem mkUnion_wit {acc : Accepts} {c : LitCfg} {ts : List Ty} {vs : List Json}
    (hne : ts ≠ []) (h : ∀ t ∈ ts, Wit acc False False t vs) :
    mkUnionMembers c ts ≠ [] ∧ ∀ m ∈ mkUnionMembers c ts, Wit acc False False m vs := by
  have h' : ∀ t ∈ ts, WitM acc False t vs := fun t ht => .inr (h t ht)
  refine ⟨mkUnion_ne_nil_of_witM hne h', fun m hm => ?_⟩
  rcases mkUnion_witM h' m hm with ⟨_, h0⟩ | h0
  · exact h0.elim
  · exact h0

/-- `[x] => x | us => Union us` of a non-empty member-wise witnessed list -/
theorem collapse_wit {acc : Accepts} {us : List Ty} {vs : List Json}
    (hne : us ≠ []) (h : ∀ m ∈ us, Wit acc False False m vs) : Wit acc False False (J2M.collapse us) vs := by
  unfold J2M.collapse
  split
  · exact h _ (by simp)
  · exact wit_union.2 ⟨hne, h⟩

/-- values appended on both sides: `DUnion(a-members, b-members)` -/
theorem mkUnion_wit_append {acc : Accepts} {c : LitCfg} {as bs : List Ty} {vs ws : List Json}
    (hne : as ++ bs ≠ []) (ha : ∀ t ∈ as, Wit acc False False t vs) (hb : ∀ t ∈ bs, Wit acc False False t ws) :
    Wit acc False False (J2M.collapse (mkUnionMembers c (as ++ bs))) (vs ++ ws) := by
  have h : ∀ t ∈ as ++ bs, Wit acc False False t (vs ++ ws) := by
    intro t ht
    rcases List.mem_append.1 ht with h | h
    · exact (ha t h).append_right ws
    · exact (hb t h).append_left vs
  obtain ⟨h1, h2⟩ := mkUnion_wit (c := c) hne h
  exact collapse_wit h1 h2

/-! ### `_detect_type` -/

theorem elemsOf_single_arr (xs : List Json) : elemsOf [Json.arr xs] = xs := by simp [elemsOf]
theorem valsOf_single_obj (kvs : List (String × Json)) : valsOf [Json.obj kvs] = kvs.map (·.2) := by
  simp [valsOf]
theorem fieldVals_single_obj (k : String) (kvs : List (String × Json)) :
    fieldVals k [Json.obj kvs] = (kvs.filter (fun kv => kv.1 == k)).map (·.2) := by simp [fieldVals]

/-- the element type chosen by `wrapElems` is witnessed by the elements -/
theorem wrapElems_wit {acc : Accepts} {c : LitCfg} (wrap : Ty → Ty) {ts : List Ty} {es : List Json}
    (hne : ts ≠ []) (h : ∀ t ∈ ts, Wit acc False False t es) :
    ∃ T, wrapElems c wrap ts = wrap T ∧ Wit acc False False T es := by
  unfold wrapElems
  split
  · exact ⟨_, rfl, h _ (by simp)⟩
  · obtain ⟨h1, h2⟩ := mkUnion_wit (c := c) hne h
    split
    · rename_i u hu
      exact ⟨u, rfl, h2 u (by rw [hu]; simp)⟩
    · exact ⟨_, rfl, wit_union.2 ⟨h1, h2⟩⟩

theorem detectStr_go_accepts (acc : Accepts) (s : String) (ks : List String) (k : String)
    (h : detectStr.go acc s ks = .ok (some k)) : acc k s = some true := by
  induction ks with
  | nil => simp [detectStr.go] at h
  | cons k' ks ih =>
    simp only [detectStr.go] at h
    split at h
    · cases h
    · rename_i hacc
      simp only [Except.ok.injEq, Option.some.injEq] at h; subst h; exact hacc
    · exact ih h

theorem detectStr_accepts {reg : StrRegistry} {acc : Accepts} {s k : String}
    (h : detectStr reg acc s = .ok (some k)) : acc k s = some true :=
  detectStr_go_accepts acc s reg.types k h

mutual
/-- **`detect_wit`**: a value witnesses its own detected type -/
theorem detect_wit (cfg : GenCfg) (o : GenOracles) :
    ∀ (cd : Bool) (v : Json) (t : Ty), detect cfg o cd v = .ok t → Wit o.accepts False False t [v]
  | cd, .bool _, t, h | cd, .int _, t, h | cd, .float _, t, h | cd, .null, t, h => by
    simp only [detect, pure, Except.pure, Except.ok.injEq] at h; subst h; simp [Wit]
  | cd, .arr [], t, h => by
    simp only [detect, pure, Except.pure, Except.ok.injEq] at h; subst h; simp [Wit]
  | cd, .arr (x :: xs), t, h => by
    simp only [detect, bind, Except.bind] at h
    split at h
    · cases h
    · rename_i ts hts
      simp only [pure, Except.pure, Except.ok.injEq] at h; subst h
      obtain ⟨hne, hall⟩ := detectList_wit cfg o (x :: xs) ts hts
      obtain ⟨T, hT, hw⟩ := wrapElems_wit (c := cfg.lit) .list (hne (by simp)) hall
      rw [hT]
      simp only [Wit, elemsOf_single_arr]
      exact Wit.mono T id (fun h => h.elim) (fun _ h => h) hw
  | cd, .obj [], t, h => by
    simp only [detect, pure, Except.pure, Except.ok.injEq] at h; subst h; simp [Wit]
  | cd, .obj (kv :: kvs), t, h => by
    simp only [detect, bind, Except.bind] at h
    split at h
    · cases h
    · rename_i rx hrx
      generalize (if rx = true then false else cd) = cd' at h
      cases cd'
      · simp only [Bool.false_eq_true, ↓reduceIte] at h
        split at h
        · cases h
        · rename_i ts hts
          simp only [pure, Except.pure, Except.ok.injEq] at h; subst h
          obtain ⟨hne, hall⟩ := detectVals_wit cfg o (kv :: kvs) ts hts
          obtain ⟨T, hT, hw⟩ := wrapElems_wit (c := cfg.lit) .dict (hne (by simp)) hall
          rw [hT]
          simp only [Wit, valsOf_single_obj]
          exact Wit.mono T id (fun h => h.elim) (fun _ h => h) hw
      · simp only [↓reduceIte] at h
        split at h
        · cases h
        · rename_i fs hfs
          simp only [pure, Except.pure, Except.ok.injEq] at h; subst h
          rw [wit_obj]
          obtain ⟨hk, hall⟩ := convertFields_wit cfg o (kv :: kvs) fs hfs
          refine ⟨⟨kv :: kvs, by simp, fun k hk' => by rw [hk]; exact hk'⟩, ?_⟩
          intro f hf
          rw [fieldVals_single_obj]
          exact Wit.mono f.2 (fun h => h.elim) id (fun _ h => h) (hall f hf)
  | cd, .str s, t, h => by
    simp only [detect, bind, Except.bind] at h
    split at h
    · cases h
    · rename_i r hr
      split at h
      · rename_i k
        simp only [pure, Except.pure, Except.ok.injEq] at h; subst h
        simp only [Wit]
        exact ⟨s, by simp, detectStr_accepts hr⟩
      · simp only [pure, Except.pure, Except.ok.injEq] at h; subst h
        unfold mkLit
        split <;> simp [Wit]
theorem detectList_wit (cfg : GenCfg) (o : GenOracles) :
    ∀ (xs : List Json) (ts : List Ty), detectList cfg o xs = .ok ts →
      (xs ≠ [] → ts ≠ []) ∧ ∀ t ∈ ts, Wit o.accepts False False t xs
  | [], ts, h => by
    simp only [detectList, pure, Except.pure, Except.ok.injEq] at h; subst h; simp
  | x :: xs, ts, h => by
    simp only [detectList, bind, Except.bind] at h
    split at h
    · cases h
    · rename_i t ht
      split at h
      · cases h
      · rename_i ts' hts'
        simp only [pure, Except.pure, Except.ok.injEq] at h; subst h
        refine ⟨by simp, ?_⟩
        intro u hu
        rcases List.mem_cons.mp hu with rfl | hu
        · exact Wit.mono _ id id (by simp) (detect_wit cfg o true x _ ht)
        · exact Wit.mono _ id id (fun v hv => List.mem_cons_of_mem _ hv)
            ((detectList_wit cfg o xs ts' hts').2 u hu)
theorem detectVals_wit (cfg : GenCfg) (o : GenOracles) :
    ∀ (xs : List (String × Json)) (ts : List Ty), detectVals cfg o xs = .ok ts →
      (xs ≠ [] → ts ≠ []) ∧ ∀ t ∈ ts, Wit o.accepts False False t (xs.map (·.2))
  | [], ts, h => by
    simp only [detectVals, pure, Except.pure, Except.ok.injEq] at h; subst h; simp
  | (_, x) :: xs, ts, h => by
    simp only [detectVals, bind, Except.bind] at h
    split at h
    · cases h
    · rename_i t ht
      split at h
      · cases h
      · rename_i ts' hts'
        simp only [pure, Except.pure, Except.ok.injEq] at h; subst h
        refine ⟨by simp, ?_⟩
        intro u hu
        rcases List.mem_cons.mp hu with rfl | hu
        · exact Wit.mono _ id id (by simp) (detect_wit cfg o true x _ ht)
        · exact Wit.mono _ id id (fun v hv => by simp only [List.map_cons]; exact List.mem_cons_of_mem _ hv)
            ((detectVals_wit cfg o xs ts' hts').2 u hu)
theorem convertFields_wit (cfg : GenCfg) (o : GenOracles) :
    ∀ (xs : List (String × Json)) (fs : Fields), convertFields cfg o xs = .ok fs →
      fs.map (·.1) = xs.map (·.1) ∧
      ∀ f ∈ fs, Wit o.accepts False False f.2 ((xs.filter (fun kv => kv.1 == f.1)).map (·.2))
  | [], fs, h => by
    simp only [convertFields, pure, Except.pure, Except.ok.injEq] at h; subst h; simp
  | (k, x) :: xs, fs, h => by
    simp only [convertFields, bind, Except.bind] at h
    split at h
    · cases h
    · rename_i t ht
      split at h
      · cases h
      · rename_i fs' hfs'
        simp only [pure, Except.pure, Except.ok.injEq] at h; subst h
        obtain ⟨ih1, ih2⟩ := convertFields_wit cfg o xs fs' hfs'
        refine ⟨by simp [ih1], ?_⟩
        intro u hu
        rcases List.mem_cons.mp hu with rfl | hu
        · exact Wit.mono _ id id (by simp) (detect_wit cfg o _ x _ ht)
        · refine Wit.mono _ id id ?_ (ih2 u hu)
          intro v hv
          simp only [List.mem_map, List.mem_filter] at hv ⊢
          obtain ⟨a, ⟨ha1, ha2⟩, ha3⟩ := hv
          exact ⟨a, ⟨List.mem_cons_of_mem _ ha1, ha2⟩, ha3⟩
end

end J2M.Tight
