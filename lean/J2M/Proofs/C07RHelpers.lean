/-
  C07, registry stage — helper development, part 2: `merge_models` on two registries that hold the same models in
  a different order.  The partition into merged groups is characterised on model INDICES (not positions) from
  `C05R.C05_merge_iff` / `C05.closure_components`; that description does not mention the registry order.
-/
import J2M.Props.C05R
import J2M.Props.C07
namespace J2M.C07RH
open J2M J2M.Reg

/-! ## the same registry in another order -/

/-- `g'` holds the same models (same index, fields, name) and pointer records as `g`, possibly in another order;
    the `Index` counter is the same -/
structure SameModels (g g' : Graph) : Prop where
  models : g.models.Perm g'.models
  ptrs : g.ptrs.Perm g'.ptrs
  counter : g'.counter = g.counter

theorem SameModels.refl (g : Graph) : SameModels g g := ⟨.refl _, .refl _, rfl⟩
theorem SameModels.symm {g g' : Graph} (h : SameModels g g') : SameModels g' g :=
  ⟨h.models.symm, h.ptrs.symm, h.counter.symm⟩

theorem SameModels.idxs_perm {g g' : Graph} (h : SameModels g g') : (idxs g).Perm (idxs g') := h.models.map _

theorem SameModels.mem_idxs {g g' : Graph} (h : SameModels g g') (i : String) : i ∈ idxs g' ↔ i ∈ idxs g :=
  h.idxs_perm.mem_iff.symm

theorem SameModels.wf {g g' : Graph} (h : SameModels g g') (wf : WF g) : WF g' := by
  have hm : ∀ m, m ∈ g'.models ↔ m ∈ g.models := fun m => h.models.mem_iff.symm
  refine ⟨h.idxs_perm.nodup_iff.1 wf.nodup, ?_, ?_, ?_⟩
  · intro m hm'; rw [h.counter]; exact wf.bound m ((hm m).1 hm')
  · intro m hm' i hi'; exact (h.mem_idxs i).2 (wf.fields m ((hm m).1 hm') i hi')
  · intro p hp
    have := wf.ptrs p (h.ptrs.mem_iff.2 hp)
    exact ⟨(h.mem_idxs _).2 this.1, fun q hq => (h.mem_idxs q).2 (this.2 q hq)⟩

/-- looking a model up by index does not see the order -/
theorem SameModels.find? {g g' : Graph} (h : SameModels g g') (wf : WF g) (i : String) :
    g'.find? i = g.find? i := by
  cases hf : g.find? i with
  | none =>
    rw [find?_eq_none_iff] at hf ⊢
    exact fun c => hf ((h.mem_idxs i).1 c)
  | some m =>
    obtain ⟨hm, rfl⟩ := find?_eq_some hf
    exact find?_of_mem (h.wf wf).nodup (h.models.mem_iff.1 hm)

theorem SameModels.look {g g' : Graph} (h : SameModels g g') (wf : WF g) (i : String) : g'.look i = g.look i := by
  unfold Graph.look; rw [h.find? wf]

theorem SameModels.keysOf {g g' : Graph} (h : SameModels g g') (wf : WF g) (i : String) :
    keysOf g' i = keysOf g i := by
  unfold Reg.keysOf; rw [h.look wf]

/-- the comparison environment `_merge` uses (`==` of model pointers looks models up by index) is the same -/
theorem SameModels.eqEnv {g g' : Graph} (h : SameModels g g') (wf : WF g) (so : StrOracle) :
    g'.eqEnv so = g.eqEnv so := by
  unfold Graph.eqEnv
  have e1 : g'.modelStr = g.modelStr := by
    funext i; unfold Graph.modelStr; rw [h.find? wf]
  have e2 : g'.look = g.look := funext (h.look wf)
  rw [e1, e2]

/-! ## positions and indices -/

theorem idx_getD (g : Graph) {a : Nat} (ha : a < g.models.length) : (idxs g).getD a "" = (g.models[a]).idx := by
  have : a < (idxs g).length := by simpa [idxs] using ha
  rw [getD_eq_getElem this]; simp [idxs]

theorem keysAt_eq (g : Graph) {a : Nat} (ha : a < g.models.length) : keysAt g a = (g.models[a]).fields.keys := by
  unfold keysAt
  have : a < (g.models.map (fun m => m.fields.keys)).length := by simpa using ha
  simp [List.getD, List.getElem?_eq_getElem this]

theorem keysOf_pos {g : Graph} (wf : WF g) {a : Nat} (ha : a < g.models.length) :
    keysOf g ((idxs g).getD a "") = some (keysAt g a) := by
  rw [idx_getD g ha, keysAt_eq g ha]
  unfold Reg.keysOf
  rw [look_of_mem wf.nodup (List.getElem_mem ha)]; rfl

theorem pos_of_mem {g : Graph} {i : String} (hi : i ∈ idxs g) :
    ∃ a, a < g.models.length ∧ (idxs g).getD a "" = i := by
  obtain ⟨a, ha, e⟩ := List.getElem_of_mem hi
  have : a < g.models.length := by simpa [idxs] using ha
  exact ⟨a, this, by rw [getD_eq_getElem ha]; exact e⟩

theorem getD_mem_idxs {g : Graph} {a : Nat} (ha : a < g.models.length) : (idxs g).getD a "" ∈ idxs g :=
  getD_mem (by simpa [idxs] using ha)

theorem getD_idxs_inj {g : Graph} (wf : WF g) {a b : Nat} (ha : a < g.models.length) (hb : b < g.models.length)
    (e : (idxs g).getD a "" = (idxs g).getD b "") : a = b :=
  getD_inj wf.nodup (by simpa [idxs] using ha) (by simpa [idxs] using hb) e

/-! ## the similarity graph on indices -/

/-- the key list of a registered model, `[]` for an unregistered index -/
def keysI (g : Graph) (i : String) : List String := (keysOf g i).getD []

/-- the C05 pair relation on model INDICES: two different registered models on whose (original) key lists
    `_models_cmp_fn` says `True` -/
def IEdge (cmps : List Cmp) (g : Graph) (i j : String) : Prop :=
  i ∈ idxs g ∧ j ∈ idxs g ∧ i ≠ j ∧ modelsCmp cmps (keysI g i) (keysI g j) = .ok true

/-- chains of similar pairs, on indices -/
inductive IChain (cmps : List Cmp) (g : Graph) : String → String → Prop
  | refl (i : String) : IChain cmps g i i
  | step {i j k : String} : IChain cmps g i j → IEdge cmps g j k → IChain cmps g i k

/-- "`i` and `j` belong to one similarity component that contains an edge" — what `merge_models` merges -/
def Linked (cmps : List Cmp) (g : Graph) (i j : String) : Prop :=
  (i = j ∧ ∃ k, IEdge cmps g i k) ∨ (i ≠ j ∧ i ∈ idxs g ∧ j ∈ idxs g ∧ IChain cmps g i j)

theorem keysI_pos {g : Graph} (wf : WF g) {a : Nat} (ha : a < g.models.length) :
    keysI g ((idxs g).getD a "") = keysAt g a := by
  unfold keysI; rw [keysOf_pos wf ha]; rfl

theorem simEdge_iff_iEdge {cmps : List Cmp} {g : Graph} (wf : WF g) {a b : Nat} (ha : a < g.models.length)
    (hb : b < g.models.length) :
    SimEdge cmps g a b ↔ IEdge cmps g ((idxs g).getD a "") ((idxs g).getD b "") := by
  unfold SimEdge IEdge
  rw [keysI_pos wf ha, keysI_pos wf hb]
  constructor
  · rintro ⟨_, _, hab, hc⟩
    exact ⟨getD_mem_idxs ha, getD_mem_idxs hb, fun e => hab (getD_idxs_inj wf ha hb e), hc⟩
  · rintro ⟨_, _, hab, hc⟩
    exact ⟨ha, hb, fun e => hab (e ▸ rfl), hc⟩

theorem chain_to_iChain {cmps : List Cmp} {g : Graph} (wf : WF g) {a b : Nat}
    (h : Chain cmps g a b) : IChain cmps g ((idxs g).getD a "") ((idxs g).getD b "") := by
  induction h with
  | refl => exact .refl _
  | step hc e ih =>
    rename_i b c
    by_cases hb : b < g.models.length
    · exact .step ih ((simEdge_iff_iEdge wf hb e.2.1).1 e)
    · exact absurd e.1 hb

theorem iChain_to_chain {cmps : List Cmp} {g : Graph} (wf : WF g) {a : Nat} (ha : a < g.models.length)
    {i j : String} (h : IChain cmps g i j) (hi : (idxs g).getD a "" = i) :
    ∀ b, b < g.models.length → (idxs g).getD b "" = j → Chain cmps g a b := by
  induction h with
  | refl =>
    intro b hb e
    rw [getD_idxs_inj wf ha hb (hi.trans e.symm)]
    exact .refl _
  | step _ e ih =>
    intro b hb eb
    obtain ⟨c, hc, ec⟩ := pos_of_mem e.1
    have hcc := ih c hc ec
    rw [← ec, ← eb] at e
    exact .step hcc ((simEdge_iff_iEdge wf hc hb).2 e)

theorem chain_iff_iChain {cmps : List Cmp} {g : Graph} (wf : WF g) {a b : Nat} (ha : a < g.models.length)
    (hb : b < g.models.length) :
    Chain cmps g a b ↔ IChain cmps g ((idxs g).getD a "") ((idxs g).getD b "") :=
  ⟨chain_to_iChain wf, fun h => iChain_to_chain wf ha h rfl b hb rfl⟩

theorem hasSimEdge_iff {cmps : List Cmp} {g : Graph} (wf : WF g) {a : Nat} (ha : a < g.models.length) :
    (∃ b, SimEdge cmps g a b) ↔ ∃ k, IEdge cmps g ((idxs g).getD a "") k := by
  constructor
  · rintro ⟨b, e⟩; exact ⟨_, (simEdge_iff_iEdge wf ha e.2.1).1 e⟩
  · rintro ⟨k, e⟩
    obtain ⟨b, hb, eb⟩ := pos_of_mem e.2.1
    rw [← eb] at e
    exact ⟨b, (simEdge_iff_iEdge wf ha hb).2 e⟩

/-! ### … does not see the registry order -/

theorem SameModels.keysI {g g' : Graph} (h : SameModels g g') (wf : WF g) (i : String) : keysI g' i = keysI g i := by
  unfold C07RH.keysI; rw [h.keysOf wf]

theorem SameModels.iEdge {g g' : Graph} (h : SameModels g g') (wf : WF g) {cmps : List Cmp} {i j : String} :
    IEdge cmps g' i j ↔ IEdge cmps g i j := by
  unfold IEdge; rw [h.keysI wf, h.keysI wf, h.mem_idxs, h.mem_idxs]

theorem SameModels.iChain {g g' : Graph} (h : SameModels g g') (wf : WF g) {cmps : List Cmp} {i j : String} :
    IChain cmps g' i j ↔ IChain cmps g i j := by
  constructor
  · intro c
    induction c with
    | refl => exact .refl _
    | step _ e ih => exact .step ih ((h.iEdge wf).1 e)
  · intro c
    induction c with
    | refl => exact .refl _
    | step _ e ih => exact .step ih ((h.iEdge wf).2 e)

theorem SameModels.linked {g g' : Graph} (h : SameModels g g') (wf : WF g) {cmps : List Cmp} {i j : String} :
    Linked cmps g' i j ↔ Linked cmps g i j := by
  unfold Linked
  rw [h.iChain wf, h.mem_idxs, h.mem_idxs]
  have : (∃ k, IEdge cmps g' i k) ↔ ∃ k, IEdge cmps g i k :=
    ⟨fun ⟨k, e⟩ => ⟨k, (h.iEdge wf).1 e⟩, fun ⟨k, e⟩ => ⟨k, (h.iEdge wf).2 e⟩⟩
  rw [this]

/-! ## the partition `merge_models` computes -/

/-- `i` and `j` are members of one replacement entry: they end in the same merged model -/
def Merged (repl : List (String × List String)) (i j : String) : Prop := ∃ p ∈ repl, i ∈ p.2 ∧ j ∈ p.2

/-- the replacement entries are the member lists of the groups -/
theorem repl_entries {cfg : GenCfg} {so : StrOracle} {cmps : List Cmp} {g g' : Graph}
    {repl : List (String × List String)} (wf : WF g) (h : mergeModels cfg so cmps g = .ok (g', repl)) :
    ∃ tbl groups, simTable cmps g = .ok tbl ∧
      Closure.mergeGroups (simOfTbl tbl) g.models.length = some groups ∧
      (∀ p ∈ repl, ∃ k, ∃ hk : k < groups.length, p = (newIdx g k, memsOf (idxs g) groups[k])) ∧
      (∀ k (hk : k < groups.length), (newIdx g k, memsOf (idxs g) groups[k]) ∈ repl) := by
  obtain ⟨tbl, groups, htbl, hgroups, hrepl, _⟩ := mergeModels_struct wf h
  refine ⟨tbl, groups, htbl, hgroups, ?_, ?_⟩
  · intro p hp
    rw [hrepl] at hp
    obtain ⟨Mk, hMk, rfl⟩ := List.mem_map.1 hp
    have := List.mem_zipIdx_iff_getElem?.1 hMk
    obtain ⟨hk, e⟩ := List.getElem?_eq_some_iff.1 this
    simp only [List.length_map] at hk
    refine ⟨Mk.2, hk, ?_⟩
    simp only [List.getElem_map] at e
    rw [e]
  · intro k hk
    rw [hrepl, List.mem_map]
    refine ⟨(memsOf (idxs g) groups[k], k), ?_, rfl⟩
    rw [List.mem_zipIdx_iff_getElem?]
    simp [hk]

/-- members of a replacement entry are registered models of `g`; every entry has at least two members;
    a model is a member of at most one entry -/
theorem repl_facts {cfg : GenCfg} {so : StrOracle} {cmps : List Cmp} {g g' : Graph}
    {repl : List (String × List String)} (wf : WF g) (h : mergeModels cfg so cmps g = .ok (g', repl)) :
    (∀ p ∈ repl, ∀ i ∈ p.2, i ∈ idxs g) ∧ (∀ p ∈ repl, 2 ≤ p.2.length) ∧
    (∀ p ∈ repl, ∀ q ∈ repl, ∀ i, i ∈ p.2 → i ∈ q.2 → p = q) := by
  obtain ⟨tbl, groups, _, hgroups, hent, _⟩ := repl_entries wf h
  obtain ⟨hno, hok, _, _⟩ := C05.closure_components (simOfTbl_symm tbl) hgroups
  have hlen : (idxs g).length = g.models.length := by simp [idxs]
  have hlt : ∀ grp ∈ groups, ∀ x ∈ grp, x < (idxs g).length :=
    fun grp hgrp x hx => by rw [hlen]; exact (hok grp hgrp).2.1 x hx
  refine ⟨?_, ?_, ?_⟩
  · intro p hp i hi
    obtain ⟨k, hk, rfl⟩ := hent p hp
    exact memsOf_sub (hlt _ (List.getElem_mem hk)) i hi
  · intro p hp
    obtain ⟨k, hk, rfl⟩ := hent p hp
    simp only [memsOf, List.length_map]
    exact (hok _ (List.getElem_mem hk)).1
  · intro p hp q hq i hip hiq
    obtain ⟨k, hk, rfl⟩ := hent p hp
    obtain ⟨l, hl, rfl⟩ := hent q hq
    by_cases e : k = l
    · subst e; rfl
    · have := memsOf_disjoint wf.nodup (hlt _ (List.getElem_mem hk)) (hlt _ (List.getElem_mem hl))
        (hno k l hk hl e) i hiq
      simp only at hip
      exact absurd hip (by simpa using this)

/-- a model is a member of some entry iff it has a similar partner (positions) -/
theorem member_iff_hasEdge {cfg : GenCfg} {so : StrOracle} {cmps : List Cmp} {g g' : Graph}
    {repl : List (String × List String)} (wf : WF g) (h : mergeModels cfg so cmps g = .ok (g', repl))
    {a : Nat} (ha : a < g.models.length) :
    (∃ p ∈ repl, (idxs g).getD a "" ∈ p.2) ↔ ∃ b, SimEdge cmps g a b := by
  obtain ⟨tbl, groups, htbl, hgroups, hent, hent'⟩ := repl_entries wf h
  obtain ⟨_, hok, _, hedge⟩ := C05.closure_components (simOfTbl_symm tbl) hgroups
  have hlen : (idxs g).length = g.models.length := by simp [idxs]
  have hlt : ∀ grp ∈ groups, ∀ x ∈ grp, x < (idxs g).length :=
    fun grp hgrp x hx => by rw [hlen]; exact (hok grp hgrp).2.1 x hx
  have e1 : (∃ b, SimEdge cmps g a b) ↔ ∃ b, Closure.Edge (simOfTbl tbl) g.models.length a b :=
    ⟨fun ⟨b, e⟩ => ⟨b, (edge_iff_simEdge htbl).2 e⟩, fun ⟨b, e⟩ => ⟨b, (edge_iff_simEdge htbl).1 e⟩⟩
  rw [e1, ← hedge a]
  constructor
  · rintro ⟨p, hp, hm⟩
    obtain ⟨k, hk, rfl⟩ := hent p hp
    exact ⟨groups[k], List.getElem_mem hk,
      (mem_memsOf wf.nodup (hlt _ (List.getElem_mem hk)) (by rw [hlen]; exact ha)).1 hm⟩
  · rintro ⟨grp, hgrp, hm⟩
    obtain ⟨k, hk, rfl⟩ := List.getElem_of_mem hgrp
    exact ⟨_, hent' k hk, (mem_memsOf wf.nodup (hlt _ hgrp) (by rw [hlen]; exact ha)).2 hm⟩

/-- **which models merge, on indices**: two registered models end in the same merged model iff they are linked in
    the similarity graph of the original key sets (`i = j`: iff the model has a similar partner at all) -/
theorem merged_iff_linked {cfg : GenCfg} {so : StrOracle} {cmps : List Cmp} {g g' : Graph}
    {repl : List (String × List String)} (wf : WF g) (h : mergeModels cfg so cmps g = .ok (g', repl))
    (i j : String) : Merged repl i j ↔ Linked cmps g i j := by
  obtain ⟨hreg, _, _⟩ := repl_facts wf h
  unfold Merged Linked
  by_cases e : i = j
  · subst e
    constructor
    · rintro ⟨p, hp, hi, _⟩
      obtain ⟨a, ha, rfl⟩ := pos_of_mem (hreg p hp i hi)
      exact .inl ⟨rfl, (hasSimEdge_iff wf ha).1 ((member_iff_hasEdge wf h ha).1 ⟨p, hp, hi⟩)⟩
    · rintro (⟨_, k, e⟩ | ⟨ne, _⟩)
      · obtain ⟨a, ha, rfl⟩ := pos_of_mem e.1
        obtain ⟨p, hp, hi⟩ := (member_iff_hasEdge wf h ha).2 ((hasSimEdge_iff wf ha).2 ⟨k, e⟩)
        exact ⟨p, hp, hi, hi⟩
      · exact absurd rfl ne
  · constructor
    · rintro ⟨p, hp, hi, hj⟩
      obtain ⟨a, ha, rfl⟩ := pos_of_mem (hreg p hp i hi)
      obtain ⟨b, hb, rfl⟩ := pos_of_mem (hreg p hp j hj)
      have hab : a ≠ b := fun c => e (c ▸ rfl)
      exact .inr ⟨e, getD_mem_idxs ha, getD_mem_idxs hb,
        (chain_iff_iChain wf ha hb).1 ((C05R.C05_merge_iff wf h ha hb hab).1 ⟨p, hp, hi, hj⟩)⟩
    · rintro (⟨c, _⟩ | ⟨_, hi, hj, hc⟩)
      · exact absurd c e
      · obtain ⟨a, ha, rfl⟩ := pos_of_mem hi
        obtain ⟨b, hb, rfl⟩ := pos_of_mem hj
        have hab : a ≠ b := fun c => e (c ▸ rfl)
        exact (C05R.C05_merge_iff wf h ha hb hab).2 ((chain_iff_iChain wf ha hb).2 hc)

/-! ## the comparator stage (`simTable`) succeeds or raises independently of the order -/

theorem mapM_ok_of_forall {α β ε} {f : α → Except ε β} :
    ∀ (xs : List α), (∀ x ∈ xs, ∃ y, f x = .ok y) → ∃ l, xs.mapM f = .ok l
  | [], _ => ⟨[], rfl⟩
  | x :: xs, hx => by
    obtain ⟨y, hy⟩ := hx x (by simp)
    obtain ⟨l, hl⟩ := mapM_ok_of_forall xs (fun z hz => hx z (List.mem_cons_of_mem _ hz))
    exact ⟨y :: l, by rw [List.mapM_cons, hy, hl]; rfl⟩

theorem mapM_error_mem {α β ε} {f : α → Except ε β} {e : ε} :
    ∀ (xs : List α), xs.mapM f = .error e → ∃ x ∈ xs, f x = .error e
  | [], h => by simp [pure, Except.pure] at h
  | x :: xs, h => by
    rw [List.mapM_cons] at h
    simp only [bind, Except.bind] at h
    split at h
    · rename_i e' he'
      simp only [Except.error.injEq] at h
      subst h
      exact ⟨x, by simp, he'⟩
    · split at h
      · rename_i e' he'
        simp only [Except.error.injEq] at h
        subst h
        obtain ⟨z, hz, hfz⟩ := mapM_error_mem xs he'
        exact ⟨z, List.mem_cons_of_mem _ hz, hfz⟩
      · simp [pure, Except.pure] at h

/-- the table can be built iff no pair of different registered models makes `_models_cmp_fn` raise -/
theorem simTable_ok_iff {cmps : List Cmp} {g : Graph} (wf : WF g) :
    (∃ tbl, simTable cmps g = .ok tbl) ↔
      ∀ i ∈ idxs g, ∀ j ∈ idxs g, i ≠ j → ∃ v, modelsCmp cmps (keysI g i) (keysI g j) = .ok v := by
  constructor
  · rintro ⟨tbl, h⟩ i hi j hj hij
    obtain ⟨a, ha, rfl⟩ := pos_of_mem hi
    obtain ⟨b, hb, rfl⟩ := pos_of_mem hj
    rw [keysI_pos wf ha, keysI_pos wf hb]
    exact simTable_total h ha hb (fun c => hij (c ▸ rfl))
  · intro hall
    unfold simTable
    apply mapM_ok_of_forall
    intro a ha
    apply mapM_ok_of_forall
    intro b hb
    simp only [List.length_map, List.mem_range] at ha hb
    by_cases hab : a < b
    · simp only [hab, if_true]
      have := hall _ (getD_mem_idxs ha) _ (getD_mem_idxs hb)
        (fun c => Nat.ne_of_lt hab (getD_idxs_inj wf ha hb c))
      rw [keysI_pos wf ha, keysI_pos wf hb] at this
      exact this
    · simp only [hab, if_false]; exact ⟨false, rfl⟩

/-- the only exception the comparator stage raises is the `ZeroDivisionError` of `ModelFieldsPercentMatch` -/
theorem simTable_error {cmps : List Cmp} {g : Graph} {e : PyErr} (h : simTable cmps g = .error e) :
    e = .zeroDivision := by
  unfold simTable at h
  obtain ⟨a, _, h1⟩ := mapM_error_mem _ h
  obtain ⟨b, _, h2⟩ := mapM_error_mem _ h1
  split at h2
  · obtain ⟨_, c, _, _, _, hc⟩ := cmp_any_error.1 h2
    exact (holds_error_iff.1 hc).2.2.2
  · simp [pure, Except.pure] at h2

theorem SameModels.simTable_ok {g g' : Graph} (hs : SameModels g g') (wf : WF g) {cmps : List Cmp} :
    (∃ tbl, simTable cmps g' = .ok tbl) ↔ ∃ tbl, simTable cmps g = .ok tbl := by
  rw [simTable_ok_iff wf, simTable_ok_iff (hs.wf wf)]
  constructor
  · intro h i hi j hj hij
    have := h i ((hs.mem_idxs i).2 hi) j ((hs.mem_idxs j).2 hj) hij
    rwa [hs.keysI wf, hs.keysI wf] at this
  · intro h i hi j hj hij
    rw [hs.keysI wf, hs.keysI wf]
    exact h i ((hs.mem_idxs i).1 hi) j ((hs.mem_idxs j).1 hj) hij

theorem SameModels.simTable_error {g g' : Graph} (hs : SameModels g g') (wf : WF g) {cmps : List Cmp} (e : PyErr) :
    simTable cmps g' = .error e ↔ simTable cmps g = .error e := by
  have key : ∀ {g₁ g₂ : Graph}, ((∃ tbl, simTable cmps g₁ = .ok tbl) ↔ ∃ tbl, simTable cmps g₂ = .ok tbl) →
      simTable cmps g₁ = .error e → simTable cmps g₂ = .error e := by
    intro g₁ g₂ hiff h1
    cases h2 : simTable cmps g₂ with
    | error e2 => rw [C07RH.simTable_error h1, C07RH.simTable_error h2]
    | ok tbl =>
      obtain ⟨t, ht⟩ := hiff.2 ⟨tbl, h2⟩
      rw [ht] at h1; cases h1
  exact ⟨key (hs.simTable_ok wf), key (hs.simTable_ok wf).symm⟩

/-- when the comparator stage raises, `merge_models` raises the same exception -/
theorem mergeModels_of_simTable_error {cfg : GenCfg} {so : StrOracle} {cmps : List Cmp} {g : Graph} {e : PyErr}
    (h : simTable cmps g = .error e) : mergeModels cfg so cmps g = .error e := by
  unfold mergeModels
  simp only [bind, Except.bind, h]

end J2M.C07RH
