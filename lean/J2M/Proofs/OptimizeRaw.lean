/-
  `Raw`: what `detect` / `merge_field_sets` can produce (input side of C08's `optimize_nf`),
  and supporting lemmas about `DUnion` on such inputs.
-/
import J2M.Proofs.Optimize
namespace J2M.C08P

/-! ### the predicate -/

/-- a `StringLiteral` as `StringLiteral.__init__` builds it: overflowed and emptied, or non-empty within limits -/
def litRawOk (c : LitCfg) (ov : Bool) (vs : List String) : Bool :=
  if ov then vs.isEmpty
  else !vs.isEmpty && !(decide (vs.length > c.maxLiterals) || vs.any (fun s => decide (s.length ≥ c.maxStrLen)))

/-- overflowed or empty literal: `optimize_type` turns it into `str` -/
def _root_.J2M.Ty.isBadLit : Ty → Bool | .lit ov vs => ov || vs.isEmpty | _ => false

/-- the shape `DUnion.__init__` guarantees: non-empty, flat, no overflowed/empty literal,
    pairwise distinct hash strings, at most one literal -/
def unionShape (ts : List Ty) : Bool :=
  !ts.isEmpty && ts.all (fun t => !t.isUnion && !t.isBadLit) && nodupStr (ts.map hashStr) &&
  decide ((ts.filter Ty.isLit).length ≤ 1)

mutual
/-- detect-level metadata (`_detect_type` results and `DUnion`s of them): no `Optional`, no tuple, no pointer;
    pseudo-types registered; literals as built by `StringLiteral(...)`; unions of `unionShape`.
    `unknown` is accepted everywhere (more liberal than `detect`, which only puts it under list/dict). -/
def rawD (cfg : GenCfg) : Ty → Bool
  | .int | .float | .bool | .str | .null | .unknown => true
  | .ser k => cfg.reg.types.contains k
  | .lit ov vs => litRawOk cfg.lit ov vs
  | .list t | .dict t => rawD cfg t
  | .union ts => unionShape ts && rawDList cfg ts
  | .obj fs => rawDFields cfg fs
  | .opt _ | .tuple _ | .ptr _ => false
def rawDList (cfg : GenCfg) : List Ty → Bool
  | [] => true
  | t :: ts => rawD cfg t && rawDList cfg ts
def rawDFields (cfg : GenCfg) : List (String × Ty) → Bool
  | [] => true
  | (_, t) :: fs => rawD cfg t && rawDFields cfg fs
end

/-- a field of a merged model: detect-level, possibly wrapped in one `Optional` -/
def rawF (cfg : GenCfg) : Ty → Bool
  | .opt x => rawD cfg x
  | x => rawD cfg x

/-- what `optimize_type` is applied to by `generate`: a merged field dict, or a field type -/
def Raw (cfg : GenCfg) : Ty → Bool
  | .obj fs => fs.all (fun kv => rawF cfg kv.2)
  | t => rawF cfg t

theorem rawDList_iff (cfg : GenCfg) (ts : List Ty) : rawDList cfg ts = true ↔ ∀ t ∈ ts, rawD cfg t = true := by
  induction ts <;> simp_all [rawDList]

theorem rawDFields_iff (cfg : GenCfg) (fs : List (String × Ty)) :
    rawDFields cfg fs = true ↔ ∀ kv ∈ fs, rawD cfg kv.2 = true := by
  induction fs with
  | nil => simp [rawDFields]
  | cons kv fs ih => obtain ⟨k, t⟩ := kv; simp_all [rawDFields]

theorem rawD_rawF {cfg : GenCfg} {t : Ty} (h : rawD cfg t = true) : rawF cfg t = true := by
  cases t <;> simp_all [rawF, rawD]

theorem rawD_not_opt {cfg : GenCfg} {t : Ty} (h : rawD cfg t = true) : t.isOpt = false := by
  cases t <;> simp_all [rawD, Ty.isOpt]

theorem rawD_Raw {cfg : GenCfg} {t : Ty} (h : rawD cfg t = true) : Raw cfg t = true := by
  cases t <;> simp_all [Raw, rawF, rawD]
  rename_i fs
  intro k v hkv
  exact rawD_rawF ((rawDFields_iff cfg fs).mp h (k, v) hkv)

structure UShape (ts : List Ty) : Prop where
  ne : ts ≠ []
  flat : ∀ t ∈ ts, t.isUnion = false
  good : ∀ t ∈ ts, t.isBadLit = false
  nodup : (ts.map hashStr).Nodup
  oneLit : (ts.filter Ty.isLit).length ≤ 1

/-- a raw union has no hidden unions among its members: the worklist split is the category fold -/
theorem raw_hidden {cfg : GenCfg} {ms : List Ty} (sh : UShape ms) (hm : ∀ t ∈ ms, rawD cfg t = true) :
    ∀ t ∈ ms, hidden t = false :=
  fun t ht => hidden_false_of (sh.flat t ht) (rawD_not_opt (hm t ht))

theorem unionShape_iff (ts : List Ty) : unionShape ts = true ↔ UShape ts := by
  unfold unionShape
  simp only [Bool.and_eq_true, Bool.not_eq_true', List.isEmpty_eq_false_iff, List.all_eq_true,
    decide_eq_true_eq, nodupStr_iff]
  constructor
  · intro ⟨⟨⟨h1, h2⟩, h3⟩, h4⟩
    exact ⟨h1, fun t ht => (h2 t ht).1, fun t ht => (h2 t ht).2, h3, h4⟩
  · intro h
    exact ⟨⟨⟨h.ne, fun t ht => ⟨h.flat t ht, h.good t ht⟩⟩, h.nodup⟩, h.oneLit⟩

theorem rawD_union {cfg : GenCfg} {ts : List Ty} (h : rawD cfg (.union ts) = true) :
    UShape ts ∧ ∀ t ∈ ts, rawD cfg t = true := by
  simp only [rawD, Bool.and_eq_true] at h
  exact ⟨(unionShape_iff ts).mp h.1, (rawDList_iff cfg ts).mp h.2⟩

/-! ### literal limits through `DUnion` -/

/-- within the limits of `StringLiteral` -/
def goodLits (c : LitCfg) (l : List String) : Prop :=
  l.length ≤ c.maxLiterals ∧ ∀ s ∈ l, s.length < c.maxStrLen

theorem goodLits_mkLit {c : LitCfg} {l : List String} (h : goodLits c l) : mkLit c l = .lit false l := by
  unfold mkLit
  have h1 : ¬ (l.length > c.maxLiterals) := by have := h.1; omega
  have h2 : l.any (fun s => decide (s.length ≥ c.maxStrLen)) = false := by
    rw [List.any_eq_false]; intro s hs; have := h.2 s hs; simp; omega
  simp [h1, h2]

theorem mkLit_goodLits {c : LitCfg} {l : List String} (h : mkLit c l = .lit false l) : goodLits c l := by
  unfold mkLit at h
  split at h
  · cases h
  · rename_i hc
    simp only [gt_iff_lt, ge_iff_le, Bool.or_eq_true, decide_eq_true_eq, List.any_eq_true, not_or,
      Nat.not_lt, not_exists, not_and, Nat.not_le] at hc
    exact ⟨hc.1, hc.2⟩

theorem litRawOk_good {c : LitCfg} {vs : List String} (h : litRawOk c false vs = true) :
    vs ≠ [] ∧ goodLits c vs := by
  unfold litRawOk at h
  simp only [Bool.false_eq_true, ↓reduceIte, gt_iff_lt, ge_iff_le, Bool.and_eq_true, Bool.not_eq_true',
    List.isEmpty_eq_false_iff, Bool.or_eq_false_iff, decide_eq_false_iff_not, Nat.not_lt,
    List.any_eq_false, decide_eq_true_eq, Nat.not_le] at h
  exact ⟨h.1, h.2.1, h.2.2⟩

theorem insertUniq_length (x : String) (acc : List String) : (insertUniq x acc).length ≤ acc.length + 1 := by
  induction acc with
  | nil => simp [insertUniq]
  | cons y ys ih =>
    simp only [insertUniq]
    split
    · simp
    · split
      · simp
      · simp only [List.length_cons]; omega

theorem insertUniq_mem (x : String) (acc : List String) : ∀ y ∈ insertUniq x acc, y = x ∨ y ∈ acc := by
  induction acc with
  | nil => simp [insertUniq]
  | cons z zs ih =>
    intro y hy
    simp only [insertUniq] at hy
    split at hy
    · simp at hy; rcases hy with h | h | h <;> simp [h]
    · split at hy
      · exact Or.inr hy
      · rcases List.mem_cons.mp hy with h | h
        · simp [h]
        · rcases ih y h with h' | h' <;> simp [h']

theorem fold_insertUniq_bound (vs acc : List String) :
    (vs.foldl (fun acc x => insertUniq x acc) acc).length ≤ acc.length + vs.length ∧
    ∀ y ∈ vs.foldl (fun acc x => insertUniq x acc) acc, y ∈ acc ∨ y ∈ vs := by
  induction vs generalizing acc with
  | nil => simp
  | cons x vs ih =>
    rw [List.foldl_cons]
    obtain ⟨h1, h2⟩ := ih (insertUniq x acc)
    have := insertUniq_length x acc
    refine ⟨by simp only [List.length_cons]; omega, ?_⟩
    intro y hy
    rcases h2 y hy with h | h
    · rcases insertUniq_mem x acc y h with h' | h' <;> simp [h']
    · simp [h]

theorem goodLits_fold {c : LitCfg} {vs : List String} (h : goodLits c vs) :
    goodLits c (vs.foldl (fun acc x => insertUniq x acc) []) := by
  obtain ⟨h1, h2⟩ := fold_insertUniq_bound vs []
  refine ⟨by have := h.1; simp at h1; omega, ?_⟩
  intro s hs
  rcases h2 s hs with h' | h'
  · cases h'
  · exact h.2 s h'

/-- Lemma B: with no `str`, no overflowed literal and at most one literal among the inputs, the loop ends with
    `use_literals` still set and a literal set within the limits -/
theorem fold_lits_good (c : LitCfg) (ts : List Ty) (st : UState) (hu : st.useLit = true)
    (hts : ∀ t ∈ ts, t.isStr = false ∧ ∀ o vs, t = .lit o vs → o = false ∧ goodLits c vs)
    (hl : (st.lits = [] ∧ (ts.filter Ty.isLit).length ≤ 1) ∨ (goodLits c st.lits ∧ ts.filter Ty.isLit = [])) :
    (ts.foldl handleType st).useLit = true ∧
      ((ts.foldl handleType st).lits = [] ∨ goodLits c (ts.foldl handleType st).lits) := by
  induction ts generalizing st with
  | nil =>
    simp only [List.foldl_nil]
    refine ⟨hu, ?_⟩
    rcases hl with ⟨h, _⟩ | ⟨h, _⟩
    · exact Or.inl h
    · exact Or.inr h
  | cons t ts ih =>
    rw [List.foldl_cons]
    have ht := hts t (by simp)
    have hts' : ∀ u ∈ ts, u.isStr = false ∧ ∀ o vs, u = .lit o vs → o = false ∧ goodLits c vs :=
      fun u hu' => hts u (by simp [hu'])
    by_cases hlit : t.isLit = true
    · cases t <;> simp [Ty.isLit] at hlit
      rename_i o vs
      obtain ⟨rfl, hg⟩ := ht.2 o vs rfl
      rw [handleType_lit_ok st vs hu]
      simp only [List.filter_cons, Ty.isLit, ↓reduceIte, List.length_cons] at hl
      rcases hl with ⟨h1, h2⟩ | ⟨_, h2⟩
      · refine ih _ ?_ hts' ?_
        · exact hu
        · right
          simp only [h1]
          exact ⟨goodLits_fold hg, by apply List.eq_nil_of_length_eq_zero; omega⟩
      · cases h2
    · have hlit' : t.isLit = false := by simpa using hlit
      have e1 : (handleType st t).useLit = true := by
        rw [handleType_nonlit st t hlit']; simp [ht.1, hu]
      have e2 : (handleType st t).lits = st.lits := handleType_lits_nonlit st t hlit'
      refine ih _ e1 hts' ?_
      rw [e2]
      simpa [List.filter_cons, hlit'] using hl

/-- `DUnion` does not introduce `str` when the (flat) inputs contain no `str`, no overflowed literal and at
    most one literal, itself within limits -/
theorem mkUM_no_new_str (c : LitCfg) (ts : List Ty) (hflat : ∀ t ∈ ts, t.isUnion = false)
    (hts : ∀ t ∈ ts, t.isStr = false ∧ ∀ o vs, t = .lit o vs → o = false ∧ goodLits c vs)
    (hone : (ts.filter Ty.isLit).length ≤ 1) : Ty.str ∉ mkUnionMembers c ts := by
  intro hmem
  rw [mkUnionMembers_eq] at hmem
  have hfl := flattenUnion_of_flat ts hflat
  have hfold := fold_lits_good c ts ⟨[], [], true, []⟩ rfl hts (Or.inl ⟨rfl, hone⟩)
  have hsub := fold_unique_sublist ⟨[], [], true, []⟩ ts
  have hst : foldSt ts = ts.foldl handleType ⟨[], [], true, []⟩ := by unfold foldSt; rw [hfl]
  rw [← hst] at hfold hsub
  have hU : Ty.str ∉ (foldSt ts).unique.reverse := by
    intro h
    have := hsub.subset h
    simp only [List.reverse_nil, List.nil_append, List.mem_filter] at this
    have := (hts _ this.1).1
    simp [Ty.isStr] at this
  rcases finishU_cases c (foldSt ts) with ⟨_, _, _, heq⟩ | ⟨heq, _⟩ | ⟨_, _, h3⟩
  · rw [heq, List.mem_append] at hmem
    rcases hmem with h | h
    · exact hU h
    · simp at h
  · rw [heq] at hmem; exact hU hmem
  · rcases h3 with h3 | h3
    · rw [hfold.1] at h3; cases h3
    · rcases hfold.2 with h | h
      · rw [h] at h3; simp [mkLit] at h3
      · rw [goodLits_mkLit h] at h3; cases h3

/-! ### `rawD` is closed under `DUnion` -/

theorem flatten_rawD {cfg : GenCfg} (ts : List Ty) (h : ∀ t ∈ ts, rawD cfg t = true) :
    ∀ t ∈ flattenUnion ts, rawD cfg t = true := by
  fun_induction flattenUnion ts with
  | case1 => simp
  | case2 us rest ih1 ih2 =>
    intro t ht
    rw [List.mem_append] at ht
    rcases ht with ht | ht
    · exact ih1 (rawD_union (h _ (by simp))).2 t ht
    · exact ih2 (fun u hu => h u (by simp [hu])) t ht
  | case3 rest u hne ih =>
    intro t ht
    rcases List.mem_cons.mp ht with rfl | ht
    · exact h _ (by simp)
    · exact ih (fun u hu => h u (by simp [hu])) t ht

theorem flatten_ne_nil {cfg : GenCfg} (ts : List Ty) (hne : ts ≠ []) (h : ∀ t ∈ ts, rawD cfg t = true) :
    flattenUnion ts ≠ [] := by
  cases ts with
  | nil => exact absurd rfl hne
  | cons t rest =>
    by_cases hu : t.isUnion = true
    · cases t <;> simp [Ty.isUnion] at hu
      rename_i us
      obtain ⟨sh, _⟩ := rawD_union (h (.union us) (by simp))
      simp only [flattenUnion]
      rw [flattenUnion_of_flat us sh.flat]
      intro e
      exact sh.ne (List.append_eq_nil_iff.mp e).1
    · cases t <;> simp_all [flattenUnion, Ty.isUnion]

theorem rawD_lit_ok {cfg : GenCfg} {t : Ty} (h : rawD cfg t = true) : ∀ vs, t ≠ .lit false vs ∨ vs ≠ [] := by
  intro vs
  by_cases e : t = .lit false vs
  · right; subst e
    simp only [rawD] at h
    exact (litRawOk_good h).1
  · exact Or.inl e

theorem mkUM_rawD {cfg : GenCfg} (ts : List Ty) (h : ∀ t ∈ ts, rawD cfg t = true) :
    ∀ m ∈ mkUnionMembers cfg.lit ts, rawD cfg m = true ∧ m.isBadLit = false := by
  intro m hm
  rcases mem_mkUM hm with ⟨h1, h2⟩ | rfl | ⟨vs, rfl, hne, hmk⟩
  · refine ⟨flatten_rawD ts h m h1, ?_⟩
    cases m <;> simp_all [Ty.isBadLit, Ty.isLit]
  · simp [rawD, Ty.isBadLit]
  · have hg := mkLit_goodLits hmk
    constructor
    · simp only [rawD, litRawOk, Bool.false_eq_true, ↓reduceIte, gt_iff_lt, ge_iff_le,
        Bool.and_eq_true, Bool.not_eq_true', List.isEmpty_eq_false_iff, Bool.or_eq_false_iff,
        decide_eq_false_iff_not, Nat.not_lt, List.any_eq_false, decide_eq_true_eq, Nat.not_le]
      exact ⟨hne, hg.1, hg.2⟩
    · simp only [Ty.isBadLit, Bool.false_or, List.isEmpty_eq_false_iff]; exact hne

theorem mkUM_shape {cfg : GenCfg} (ts : List Ty) (hne : ts ≠ []) (h : ∀ t ∈ ts, rawD cfg t = true) :
    UShape (mkUnionMembers cfg.lit ts) := by
  have out := mkUnionMembers_out cfg.lit ts
  refine ⟨?_, out.flat, fun t ht => (mkUM_rawD ts h t ht).2, out.nodup, out.oneLit⟩
  exact mkUM_ne_nil cfg.lit ts (flatten_ne_nil ts hne h)
    (fun t ht => rawD_lit_ok (flatten_rawD ts h t ht))

/-- `DUnion(*ts)` collapsed when it has one member -/
def collapse1 : List Ty → Ty
  | [x] => x
  | us => .union us

theorem collapse1_rawD {cfg : GenCfg} (ts : List Ty) (hne : ts ≠ []) (h : ∀ t ∈ ts, rawD cfg t = true) :
    rawD cfg (collapse1 (mkUnionMembers cfg.lit ts)) = true := by
  have sh := mkUM_shape ts hne h
  have hm := mkUM_rawD ts h
  generalize mkUnionMembers cfg.lit ts = us at sh hm
  unfold collapse1
  split
  · exact (hm _ (by simp)).1
  · simp only [rawD, Bool.and_eq_true]
    exact ⟨(unionShape_iff us).mpr sh, (rawDList_iff cfg us).mpr (fun t ht => (hm t ht).1)⟩

theorem mkUnion_rawD {cfg : GenCfg} (ts : List Ty) (hne : ts ≠ []) (h : ∀ t ∈ ts, rawD cfg t = true) :
    rawD cfg (mkUnion cfg.lit ts) = true := by
  have sh := mkUM_shape ts hne h
  have hm := mkUM_rawD ts h
  simp only [mkUnion, rawD, Bool.and_eq_true]
  exact ⟨(unionShape_iff _).mpr sh, (rawDList_iff cfg _).mpr (fun t ht => (hm t ht).1)⟩

theorem unionMembers_rawD {cfg : GenCfg} {t : Ty} (h : rawD cfg t = true) :
    t.unionMembers ≠ [] ∧ ∀ u ∈ t.unionMembers, rawD cfg u = true := by
  by_cases hu : t.isUnion = true
  · cases t <;> simp [Ty.isUnion] at hu
    obtain ⟨sh, hm⟩ := rawD_union h
    exact ⟨sh.ne, hm⟩
  · cases t <;> simp_all [Ty.unionMembers, Ty.isUnion]

/-! ### `merge_field_sets` keeps fields raw -/

theorem Fields.mem_set {fs : Fields} {k : String} {v : Ty} {kv : String × Ty}
    (h : kv ∈ Fields.set fs k v) : kv ∈ fs ∨ kv = (k, v) := by
  induction fs with
  | nil => simp [Fields.set] at h; exact Or.inr h
  | cons kv' fs ih =>
    obtain ⟨k', v'⟩ := kv'
    simp only [Fields.set] at h
    split at h
    · rcases List.mem_cons.mp h with h | h
      · exact Or.inr h
      · exact Or.inl (List.mem_cons_of_mem _ h)
    · rcases List.mem_cons.mp h with h | h
      · exact Or.inl (by simp [h])
      · rcases ih h with h | h
        · exact Or.inl (List.mem_cons_of_mem _ h)
        · exact Or.inr h

theorem Fields.get?_mem {fs : Fields} {k : String} {v : Ty} (h : Fields.get? fs k = some v) :
    ∃ k', (k', v) ∈ fs := by
  unfold Fields.get? at h
  simp only [Option.map_eq_some_iff] at h
  obtain ⟨kv, h1, rfl⟩ := h
  exact ⟨kv.1, List.mem_of_find?_eq_some h1⟩

def AllRawF (cfg : GenCfg) (fs : Fields) : Prop := ∀ kv ∈ fs, rawF cfg kv.2 = true

theorem AllRawF.set {cfg : GenCfg} {fs : Fields} (h : AllRawF cfg fs) (k : String) {v : Ty}
    (hv : rawF cfg v = true) : AllRawF cfg (Fields.set fs k v) := by
  intro kv hkv
  rcases Fields.mem_set hkv with h' | rfl
  · exact h kv h'
  · exact hv

theorem rawF_opt_of {cfg : GenCfg} {x : Ty} (h : rawF cfg x = true) (ho : x.isOpt = false) :
    rawF cfg (.opt x) = true := by
  cases x <;> simp_all [rawF, Ty.isOpt]

theorem merged_rawD {cfg : GenCfg} {a b : Ty} (ha : rawD cfg a = true) (hb : rawD cfg b = true) :
    rawD cfg (collapse1 (mkUnionMembers cfg.lit (a.unionMembers ++ b.unionMembers))) = true := by
  obtain ⟨ha1, ha2⟩ := unionMembers_rawD ha
  obtain ⟨_, hb2⟩ := unionMembers_rawD hb
  apply collapse1_rawD
  · intro e; exact ha1 (List.append_eq_nil_iff.mp e).1
  · intro t ht
    rcases List.mem_append.mp ht with h | h
    · exact ha2 t h
    · exact hb2 t h

theorem mergeOne_rawF {cfg : GenCfg} {e : EqEnv} {first : Bool} {fields fields' : Fields} {name : String}
    {field : Ty} (hf : AllRawF cfg fields) (hd : rawD cfg field = true)
    (h : mergeOne cfg.lit e first fields name field = .ok fields') : AllRawF cfg fields' := by
  unfold mergeOne at h
  split at h
  · -- new field
    simp only [pure, Except.pure, Except.ok.injEq] at h
    subst h
    apply hf.set
    split
    · exact rawD_rawF hd
    · exact rawF_opt_of (rawD_rawF hd) (rawD_not_opt hd)
  · rename_i orig hget
    obtain ⟨k', hmem⟩ := Fields.get?_mem hget
    have horig : rawF cfg orig = true := hf _ hmem
    split at h
    · -- existing optional
      rename_i origInner
      have hin : rawD cfg origInner = true := by simpa [rawF] using horig
      simp only [bind, Except.bind] at h
      split at h
      · cases h
      · split at h
        · simp only [pure, Except.pure, Except.ok.injEq] at h; subst h; exact hf
        · split at h
          · cases h
          · split at h
            · simp only [pure, Except.pure, Except.ok.injEq] at h; subst h; exact hf
            · simp only [pure, Except.pure, Except.ok.injEq] at h; subst h
              apply hf.set
              exact merged_rawD hd hin
    · rename_i hnopt
      have hor : rawD cfg orig = true := by
        cases orig <;> simp_all [rawF]
      simp only [bind, Except.bind] at h
      split at h
      · cases h
      · split at h
        · simp only [pure, Except.pure, Except.ok.injEq] at h; subst h; exact hf
        · split at h
          · cases h
          · split at h
            · simp only [pure, Except.pure, Except.ok.injEq] at h; subst h
              apply hf.set
              exact rawD_rawF hd
            · simp only [pure, Except.pure, Except.ok.injEq] at h; subst h
              apply hf.set
              exact rawD_rawF (merged_rawD hd hor)

theorem foldlM_mergeOne_rawF {cfg : GenCfg} {e : EqEnv} {first : Bool} (model : Fields)
    (hmodel : ∀ kv ∈ model, rawD cfg kv.2 = true) :
    ∀ (fields fields' : Fields), AllRawF cfg fields →
      model.foldlM (fun fs (kv : String × Ty) => mergeOne cfg.lit e first fs kv.1 kv.2) fields = .ok fields' →
      AllRawF cfg fields' := by
  induction model with
  | nil =>
    intro fields fields' hf h
    simp only [List.foldlM_nil, pure, Except.pure, Except.ok.injEq] at h
    subst h; exact hf
  | cons kv model ih =>
    intro fields fields' hf h
    rw [List.foldlM_cons] at h
    simp only [bind, Except.bind] at h
    split at h
    · cases h
    · rename_i f1 h1
      exact ih (fun kv' h' => hmodel kv' (by simp [h'])) f1 fields'
        (mergeOne_rawF hf (hmodel kv (by simp)) h1) h

theorem mergeStep_rawF {cfg : GenCfg} {e : EqEnv} {first : Bool} {fields fields' model : Fields}
    (hf : AllRawF cfg fields) (hmodel : ∀ kv ∈ model, rawD cfg kv.2 = true)
    (h : mergeStep cfg.lit e first fields model = .ok fields') : AllRawF cfg fields' := by
  unfold mergeStep at h
  simp only [bind, Except.bind] at h
  split at h
  · cases h
  · rename_i f1 h1
    have hf1 := foldlM_mergeOne_rawF model hmodel fields f1 hf h1
    simp only [pure, Except.pure, Except.ok.injEq] at h
    subst h
    intro kv hkv
    simp only [List.mem_map] at hkv
    obtain ⟨kv0, hkv0, rfl⟩ := hkv
    split
    · rename_i hc
      simp only [Bool.and_eq_true, Bool.not_eq_true'] at hc
      exact rawF_opt_of (hf1 kv0 hkv0) hc.2
    · exact hf1 kv0 hkv0

theorem mergeGo_rawF {cfg : GenCfg} {e : EqEnv} (sets : List Fields)
    (hsets : ∀ m ∈ sets, ∀ kv ∈ m, rawD cfg kv.2 = true) :
    ∀ (first : Bool) (fields fields' : Fields), AllRawF cfg fields →
      mergeFieldSets.go cfg.lit e first fields sets = .ok fields' → AllRawF cfg fields' := by
  induction sets with
  | nil =>
    intro first fields fields' hf h
    simp only [mergeFieldSets.go, pure, Except.pure, Except.ok.injEq] at h
    subst h; exact hf
  | cons m ms ih =>
    intro first fields fields' hf h
    simp only [mergeFieldSets.go, bind, Except.bind] at h
    split at h
    · cases h
    · rename_i f1 h1
      exact ih (fun m' hm' => hsets m' (by simp [hm'])) false f1 fields'
        (mergeStep_rawF hf (hsets m (by simp)) h1) h

theorem mergeFieldSets_rawF {cfg : GenCfg} {e : EqEnv} {sets : List Fields} {fields' : Fields}
    (hsets : ∀ m ∈ sets, ∀ kv ∈ m, rawD cfg kv.2 = true)
    (h : mergeFieldSets cfg.lit e sets = .ok fields') : AllRawF cfg fields' :=
  mergeGo_rawF sets hsets true [] fields' (fun _ h => by cases h) h

theorem AllRawF.Raw {cfg : GenCfg} {fs : Fields} (h : AllRawF cfg fs) : Raw cfg (.obj fs) = true := by
  simp only [C08P.Raw, List.all_eq_true]
  exact fun kv hkv => h kv hkv

/-! ### `detect` produces raw metadata -/

theorem detectStr_go_mem (acc : Accepts) (s : String) (ks : List String) (k : String)
    (h : detectStr.go acc s ks = .ok (some k)) : k ∈ ks := by
  induction ks with
  | nil => simp [detectStr.go] at h
  | cons k' ks ih =>
    simp only [detectStr.go] at h
    split at h
    · cases h
    · simp only [Except.ok.injEq, Option.some.injEq] at h; subst h; simp
    · exact List.mem_cons_of_mem _ (ih h)

theorem detectStr_mem {reg : StrRegistry} {acc : Accepts} {s k : String}
    (h : detectStr reg acc s = .ok (some k)) : k ∈ reg.types :=
  detectStr_go_mem acc s reg.types k h

theorem mkLit_single_rawD (cfg : GenCfg) (s : String) : rawD cfg (mkLit cfg.lit [s]) = true := by
  rcases mkLit_cases cfg.lit [s] with h | h
  · rw [h]; simp [rawD, litRawOk]
  · rw [h]
    have hg := mkLit_goodLits h
    simp only [rawD, litRawOk, Bool.false_eq_true, ↓reduceIte, gt_iff_lt, ge_iff_le,
      Bool.and_eq_true, Bool.not_eq_true', List.isEmpty_eq_false_iff, Bool.or_eq_false_iff,
      decide_eq_false_iff_not, Nat.not_lt, List.any_eq_false, decide_eq_true_eq, Nat.not_le]
    exact ⟨by simp, hg.1, hg.2⟩

theorem wrapElems_eq (c : LitCfg) (wrap : Ty → Ty) (ts : List Ty) :
    wrapElems c wrap ts = match ts with
      | [t] => wrap t
      | ts => wrap (collapse1 (mkUnionMembers c ts)) := by
  unfold wrapElems collapse1
  split
  · rfl
  · split <;> simp_all

theorem wrapElems_rawD {cfg : GenCfg} (wrap : Ty → Ty) (hw : ∀ t, rawD cfg t = true → rawD cfg (wrap t) = true)
    (ts : List Ty) (hne : ts ≠ []) (h : ∀ t ∈ ts, rawD cfg t = true) :
    rawD cfg (wrapElems cfg.lit wrap ts) = true := by
  rw [wrapElems_eq]
  split
  · exact hw _ (h _ (by simp))
  · exact hw _ (collapse1_rawD ts hne h)

mutual
theorem detect_rawD (cfg : GenCfg) (o : GenOracles) :
    ∀ (cd : Bool) (v : Json) (t : Ty), detect cfg o cd v = .ok t → rawD cfg t = true
  | cd, .bool _, t, h | cd, .int _, t, h | cd, .float _, t, h | cd, .null, t, h => by
    simp only [detect, pure, Except.pure, Except.ok.injEq] at h; subst h; simp [rawD]
  | cd, .arr [], t, h => by
    simp only [detect, pure, Except.pure, Except.ok.injEq] at h; subst h; simp [rawD]
  | cd, .arr (x :: xs), t, h => by
    simp only [detect, bind, Except.bind] at h
    split at h
    · cases h
    · rename_i ts hts
      simp only [pure, Except.pure, Except.ok.injEq] at h; subst h
      obtain ⟨hne, hall⟩ := detectList_rawD cfg o (x :: xs) ts hts
      exact wrapElems_rawD .list (fun t ht => by simpa [rawD] using ht) ts (hne (by simp)) hall
  | cd, .obj [], t, h => by
    simp only [detect, pure, Except.pure, Except.ok.injEq] at h; subst h; simp [rawD]
  | cd, .obj (kv :: kvs), t, h => by
    simp only [detect, bind, Except.bind] at h
    split at h
    · cases h
    · rename_i rx hrx
      generalize (if rx = true then false else cd) = cd' at h
      cases cd'
      · simp only [Bool.false_eq_true, ↓reduceIte] at h
        split at h
        · cases h
        · rename_i ts hts
          simp only [pure, Except.pure, Except.ok.injEq] at h; subst h
          obtain ⟨hne, hall⟩ := detectVals_rawD cfg o (kv :: kvs) ts hts
          exact wrapElems_rawD .dict (fun t ht => by simpa [rawD] using ht) ts (hne (by simp)) hall
      · simp only [↓reduceIte] at h
        split at h
        · cases h
        · rename_i fs hfs
          simp only [pure, Except.pure, Except.ok.injEq] at h; subst h
          simp only [rawD]
          exact (rawDFields_iff cfg fs).mpr (convertFields_rawD cfg o (kv :: kvs) fs hfs)
  | cd, .str s, t, h => by
    simp only [detect, bind, Except.bind] at h
    split at h
    · cases h
    · rename_i r hr
      split at h
      · rename_i k
        simp only [pure, Except.pure, Except.ok.injEq] at h; subst h
        simp only [rawD, List.contains_eq_mem, decide_eq_true_eq]
        exact detectStr_mem hr
      · simp only [pure, Except.pure, Except.ok.injEq] at h; subst h
        exact mkLit_single_rawD cfg s
theorem detectList_rawD (cfg : GenCfg) (o : GenOracles) :
    ∀ (xs : List Json) (ts : List Ty), detectList cfg o xs = .ok ts →
      (xs ≠ [] → ts ≠ []) ∧ ∀ t ∈ ts, rawD cfg t = true
  | [], ts, h => by
    simp only [detectList, pure, Except.pure, Except.ok.injEq] at h; subst h; simp
  | x :: xs, ts, h => by
    simp only [detectList, bind, Except.bind] at h
    split at h
    · cases h
    · rename_i t ht
      split at h
      · cases h
      · rename_i ts' hts'
        simp only [pure, Except.pure, Except.ok.injEq] at h; subst h
        refine ⟨by simp, ?_⟩
        intro u hu
        rcases List.mem_cons.mp hu with rfl | hu
        · exact detect_rawD cfg o true x _ ht
        · exact (detectList_rawD cfg o xs ts' hts').2 u hu
theorem detectVals_rawD (cfg : GenCfg) (o : GenOracles) :
    ∀ (xs : List (String × Json)) (ts : List Ty), detectVals cfg o xs = .ok ts →
      (xs ≠ [] → ts ≠ []) ∧ ∀ t ∈ ts, rawD cfg t = true
  | [], ts, h => by
    simp only [detectVals, pure, Except.pure, Except.ok.injEq] at h; subst h; simp
  | (_, x) :: xs, ts, h => by
    simp only [detectVals, bind, Except.bind] at h
    split at h
    · cases h
    · rename_i t ht
      split at h
      · cases h
      · rename_i ts' hts'
        simp only [pure, Except.pure, Except.ok.injEq] at h; subst h
        refine ⟨by simp, ?_⟩
        intro u hu
        rcases List.mem_cons.mp hu with rfl | hu
        · exact detect_rawD cfg o true x _ ht
        · exact (detectVals_rawD cfg o xs ts' hts').2 u hu
theorem convertFields_rawD (cfg : GenCfg) (o : GenOracles) :
    ∀ (xs : List (String × Json)) (fs : Fields), convertFields cfg o xs = .ok fs →
      ∀ kv ∈ fs, rawD cfg kv.2 = true
  | [], fs, h => by
    simp only [convertFields, pure, Except.pure, Except.ok.injEq] at h; subst h; simp
  | (k, x) :: xs, fs, h => by
    simp only [convertFields, bind, Except.bind] at h
    split at h
    · cases h
    · rename_i t ht
      split at h
      · cases h
      · rename_i fs' hfs'
        simp only [pure, Except.pure, Except.ok.injEq] at h; subst h
        intro u hu
        rcases List.mem_cons.mp hu with rfl | hu
        · exact detect_rawD cfg o _ x _ ht
        · exact convertFields_rawD cfg o xs fs' hfs' u hu
end

end J2M.C08P
