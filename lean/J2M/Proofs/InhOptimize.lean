/-
  C01 helpers, part 7: `optimize_type` / `_optimize_union` keep every inhabitant, and return a type
  without overflowed literals.
-/
import J2M.Proofs.InhMerge
import J2M.Proofs.InhResolve
namespace J2M

/-! ## small list facts -/

theorem mem_removeFirst_of_not {α} {p : α → Bool} {x : α} :
    ∀ {l : List α}, x ∈ l → p x = false → x ∈ removeFirst p l := by
  intro l
  induction l with
  | nil => simp
  | cons a l ih =>
    intro hx hp
    unfold removeFirst
    split
    · rename_i hpa
      rcases List.mem_cons.1 hx with e | hx
      · subst e; rw [hp] at hpa; simp at hpa
      · exact hx
    · rcases List.mem_cons.1 hx with e | hx
      · simp [e]
      · exact List.mem_cons_of_mem _ (ih hx hp)

theorem mem_of_mem_removeFirst {α} {p : α → Bool} {x : α} :
    ∀ {l : List α}, x ∈ removeFirst p l → x ∈ l := by
  intro l
  induction l with
  | nil => simp [removeFirst]
  | cons a l ih =>
    intro hx
    unfold removeFirst at hx
    split at hx
    · exact List.mem_cons_of_mem _ hx
    · rcases List.mem_cons.1 hx with e | hx
      · simp [e]
      · exact List.mem_cons_of_mem _ (ih hx)

theorem mapM_ok_mem {ε α β} {f : α → Except ε β} :
    ∀ (l : List α) (l' : List β), l.mapM f = .ok l' →
      (∀ a ∈ l, ∃ b ∈ l', f a = .ok b) ∧ (∀ b ∈ l', ∃ a ∈ l, f a = .ok b) := by
  intro l
  induction l with
  | nil => intro l' h; simp [pure, Except.pure] at h; subst h; simp
  | cons a l ih =>
    intro l' h
    rw [List.mapM_cons, Except.bind_eq_ok] at h
    obtain ⟨b, hb, h⟩ := h
    rw [Except.bind_eq_ok] at h
    obtain ⟨bs, hbs, h⟩ := h
    rw [Except.pure_eq_ok] at h; subst h
    obtain ⟨h1, h2⟩ := ih bs hbs
    constructor
    · intro x hx
      rcases List.mem_cons.1 hx with e | hx
      · subst e; exact ⟨b, List.mem_cons_self, hb⟩
      · obtain ⟨y, hy, hf⟩ := h1 x hx; exact ⟨y, List.mem_cons_of_mem _ hy, hf⟩
    · intro y hy
      rcases List.mem_cons.1 hy with e | hy
      · subst e; exact ⟨a, List.mem_cons_self, hb⟩
      · obtain ⟨x, hx, hf⟩ := h2 y hy; exact ⟨x, List.mem_cons_of_mem _ hx, hf⟩

/-- `{k: f(v) for k, v in d.items()}` -/
theorem mapM_fields_ok {ε} {f : Ty → Except ε Ty} :
    ∀ (fs fs' : Fields), fs.mapM (fun (kv : String × Ty) => do let v ← f kv.2; pure (kv.1, v)) = .ok fs' →
      fs'.map (·.1) = fs.map (·.1) ∧
      (∀ k t, Fields.get? fs k = some t → ∃ t', Fields.get? fs' k = some t' ∧ f t = .ok t') ∧
      (∀ k t', Fields.get? fs' k = some t' → ∃ t, Fields.get? fs k = some t ∧ f t = .ok t') := by
  intro fs
  induction fs with
  | nil => intro fs' h; simp [pure, Except.pure] at h; subst h; simp
  | cons kv fs ih =>
    obtain ⟨k0, t0⟩ := kv
    intro fs' h
    rw [List.mapM_cons, Except.bind_eq_ok] at h
    obtain ⟨b, hb, h⟩ := h
    rw [Except.bind_eq_ok] at hb
    obtain ⟨v, hv, hb⟩ := hb
    rw [Except.pure_eq_ok] at hb; subst hb
    rw [Except.bind_eq_ok] at h
    obtain ⟨bs, hbs, h⟩ := h
    rw [Except.pure_eq_ok] at h; subst h
    obtain ⟨h0, h1, h2⟩ := ih bs hbs
    refine ⟨by simp [h0], ?_, ?_⟩
    · intro k t hk
      rw [Fields.get?_cons] at hk ⊢
      by_cases e : k0 = k
      · rw [if_pos e] at hk ⊢; cases hk; exact ⟨v, rfl, hv⟩
      · rw [if_neg e] at hk ⊢; exact h1 k t hk
    · intro k t' hk
      rw [Fields.get?_cons] at hk ⊢
      by_cases e : k0 = k
      · rw [if_pos e] at hk ⊢; cases hk; exact ⟨t0, rfl, hv⟩
      · rw [if_neg e] at hk ⊢; exact h2 k t' hk

/-! ## the category split of `_optimize_union` -/

def classify (reg : StrRegistry) (item : Ty) (s : Split) : Split :=
  match item with
  | .obj fs => { s with toMerge := s.toMerge ++ [fs] }
  | .str => { s with strTypes := s.strTypes ++ [item] }
  | .ser k => if reg.types.contains k then { s with strTypes := s.strTypes ++ [item] }
              else { s with other := s.other ++ [item] }
  | .list x => { s with lists := s.lists ++ [x] }
  | .dict x => { s with dicts := s.dicts ++ [x] }
  | x => { s with other := s.other ++ [x] }

def splitStep (reg : StrRegistry) (s : Split) (item : Ty) : Split :=
  match item with
  | .opt x => classify reg x { s with other := s.other ++ [Ty.null] }
  | x => classify reg x s

theorem splitMembers_eq (reg : StrRegistry) (ts : List Ty) :
    splitMembers reg ts = ts.foldl (splitStep reg) {} := by
  unfold splitMembers
  congr 1
  funext s item
  cases item <;> first | rfl | (rename_i x; cases x <;> rfl)

/-- "some category of the split holds `v`" -/
def SCov (ov : Bool) (acc : Accepts) (g : ModelLookup) (s : Split) (v : Json) : Prop :=
  (∃ o ∈ s.other, InhX ov acc g o v) ∨ (∃ fs ∈ s.toMerge, InhX ov acc g (.obj fs) v) ∨
  (∃ x ∈ s.lists, InhX ov acc g (.list x) v) ∨ (∃ x ∈ s.dicts, InhX ov acc g (.dict x) v) ∨
  (∃ st ∈ s.strTypes, InhX ov acc g st v)

def SLe (s s' : Split) : Prop :=
  (∀ o ∈ s.other, o ∈ s'.other) ∧ (∀ o ∈ s.toMerge, o ∈ s'.toMerge) ∧ (∀ o ∈ s.lists, o ∈ s'.lists) ∧
  (∀ o ∈ s.dicts, o ∈ s'.dicts) ∧ (∀ o ∈ s.strTypes, o ∈ s'.strTypes)

theorem SLe.trans {a b c : Split} (h1 : SLe a b) (h2 : SLe b c) : SLe a c :=
  ⟨fun o h => h2.1 o (h1.1 o h), fun o h => h2.2.1 o (h1.2.1 o h), fun o h => h2.2.2.1 o (h1.2.2.1 o h),
   fun o h => h2.2.2.2.1 o (h1.2.2.2.1 o h), fun o h => h2.2.2.2.2 o (h1.2.2.2.2 o h)⟩

theorem SCov.mono {ov acc g s s' v} (hle : SLe s s') (h : SCov ov acc g s v) : SCov ov acc g s' v := by
  rcases h with ⟨o, ho, hi⟩ | ⟨o, ho, hi⟩ | ⟨o, ho, hi⟩ | ⟨o, ho, hi⟩ | ⟨o, ho, hi⟩
  · exact Or.inl ⟨o, hle.1 o ho, hi⟩
  · exact Or.inr (Or.inl ⟨o, hle.2.1 o ho, hi⟩)
  · exact Or.inr (Or.inr (Or.inl ⟨o, hle.2.2.1 o ho, hi⟩))
  · exact Or.inr (Or.inr (Or.inr (Or.inl ⟨o, hle.2.2.2.1 o ho, hi⟩)))
  · exact Or.inr (Or.inr (Or.inr (Or.inr ⟨o, hle.2.2.2.2 o ho, hi⟩)))

/-- provenance of the categories: everything comes from a member satisfying `Q` -/
def SProv (Q : Ty → Prop) (_reg : StrRegistry) (s : Split) : Prop :=
  (∀ o ∈ s.other, Q o) ∧ (∀ fs ∈ s.toMerge, Q (.obj fs)) ∧ (∀ x ∈ s.lists, Q (.list x)) ∧
  (∀ x ∈ s.dicts, Q (.dict x)) ∧
  (∀ st ∈ s.strTypes, st = .str ∨ ∃ k, st = .ser k ∧ Q st)

theorem classify_le (reg : StrRegistry) (x : Ty) (s : Split) : SLe s (classify reg x s) := by
  cases x <;> simp only [classify, SLe] <;> (try split) <;> simp_all

theorem classify_cov {ov acc g} (reg : StrRegistry) (x : Ty) (s : Split) {v : Json}
    (h : InhX ov acc g x v) : SCov ov acc g (classify reg x s) v := by
  cases x <;> simp only [classify, SCov]
  case obj fs => exact Or.inr (Or.inl ⟨fs, by simp, h⟩)
  case list x => exact Or.inr (Or.inr (Or.inl ⟨x, by simp, h⟩))
  case dict x => exact Or.inr (Or.inr (Or.inr (Or.inl ⟨x, by simp, h⟩)))
  case str => exact Or.inr (Or.inr (Or.inr (Or.inr ⟨_, by simp, h⟩)))
  case ser k =>
    split
    · exact Or.inr (Or.inr (Or.inr (Or.inr ⟨_, by simp, h⟩)))
    · exact Or.inl ⟨_, by simp, h⟩
  all_goals exact Or.inl ⟨_, by simp, h⟩

theorem classify_prov {Q : Ty → Prop} (reg : StrRegistry) (x : Ty) (s : Split)
    (hx : Q x) (hp : SProv Q reg s) : SProv Q reg (classify reg x s) := by
  obtain ⟨p1, p2, p3, p4, p5⟩ := hp
  have e1 : ∀ (l : List Ty) (a : Ty) (R : Ty → Prop), (∀ o ∈ l, R o) → R a → ∀ o ∈ l ++ [a], R o := by
    intro l a R hl ha o ho
    rcases List.mem_append.1 ho with h | h
    · exact hl o h
    · simp at h; rw [h]; exact ha
  cases x <;> simp only [classify]
  case obj fs =>
    refine ⟨p1, ?_, p3, p4, p5⟩
    intro o ho
    rcases List.mem_append.1 ho with h | h
    · exact p2 o h
    · simp at h; rw [h]; exact hx
  case list x => exact ⟨p1, p2, e1 _ _ (fun x => Q (.list x)) p3 hx, p4, p5⟩
  case dict x => exact ⟨p1, p2, p3, e1 _ _ (fun x => Q (.dict x)) p4 hx, p5⟩
  case str => exact ⟨p1, p2, p3, p4, e1 _ _ _ p5 (Or.inl rfl)⟩
  case ser k =>
    split
    · exact ⟨p1, p2, p3, p4, e1 _ _ _ p5 (Or.inr ⟨k, rfl, hx⟩)⟩
    · exact ⟨e1 _ _ _ p1 hx, p2, p3, p4, p5⟩
  all_goals exact ⟨e1 _ _ _ p1 hx, p2, p3, p4, p5⟩

theorem splitStep_spec {ov acc g} {Q : Ty → Prop} (hnull : Q .null) (hopt : ∀ x, Q (.opt x) → Q x)
    (reg : StrRegistry) (s : Split) (m : Ty) (hm : Q m) (hp : SProv Q reg s) :
    SLe s (splitStep reg s m) ∧ SProv Q reg (splitStep reg s m) ∧
    ∀ v, InhX ov acc g m v → SCov ov acc g (splitStep reg s m) v := by
  have hgen : ∀ x, (∀ y, x ≠ .opt y) → Q x →
      SLe s (classify reg x s) ∧ SProv Q reg (classify reg x s) ∧
      ∀ v, InhX ov acc g x v → SCov ov acc g (classify reg x s) v :=
    fun x _ hx => ⟨classify_le reg x s, classify_prov reg x s hx hp, fun v h => classify_cov reg x s h⟩
  cases m
  case opt x =>
    simp only [splitStep]
    have hle0 : SLe s { s with other := s.other ++ [Ty.null] } :=
      ⟨fun o h => by simp [h], fun _ h => h, fun _ h => h, fun _ h => h, fun _ h => h⟩
    have hp0 : SProv Q reg { s with other := s.other ++ [Ty.null] } := by
      obtain ⟨p1, p2, p3, p4, p5⟩ := hp
      refine ⟨?_, p2, p3, p4, p5⟩
      intro o ho
      rcases List.mem_append.1 ho with h | h
      · exact p1 o h
      · simp at h; rw [h]; exact hnull
    refine ⟨hle0.trans (classify_le reg x _), classify_prov reg x _ (hopt x hm) hp0, ?_⟩
    intro v hv
    rcases inh_opt_iff.1 hv with rfl | hv
    · exact SCov.mono (classify_le reg x _) (Or.inl ⟨.null, by simp, InhX.null⟩)
    · exact classify_cov reg x _ hv
  all_goals exact hgen _ (by intro y; simp) hm

theorem splitFold_spec {ov acc g} {Q : Ty → Prop} (hnull : Q .null) (hopt : ∀ x, Q (.opt x) → Q x)
    (reg : StrRegistry) :
    ∀ (ms : List Ty) (s : Split), (∀ m ∈ ms, Q m) → SProv Q reg s →
      SLe s (ms.foldl (splitStep reg) s) ∧ SProv Q reg (ms.foldl (splitStep reg) s) ∧
      ∀ m ∈ ms, ∀ v, InhX ov acc g m v → SCov ov acc g (ms.foldl (splitStep reg) s) v := by
  intro ms
  induction ms with
  | nil =>
    intro s _ hp
    exact ⟨⟨fun _ h => h, fun _ h => h, fun _ h => h, fun _ h => h, fun _ h => h⟩, hp, by simp⟩
  | cons m ms ih =>
    intro s hms hp
    obtain ⟨hle, hp', hcov⟩ := splitStep_spec (ov := ov) (acc := acc) (g := g) hnull hopt reg s m
      (hms m List.mem_cons_self) hp
    obtain ⟨hle2, hp2, hcov2⟩ := ih (splitStep reg s m) (fun x hx => hms x (List.mem_cons_of_mem _ hx)) hp'
    refine ⟨hle.trans hle2, hp2, ?_⟩
    intro x hx v hv
    rcases List.mem_cons.1 hx with e | hx
    · subst e; exact SCov.mono hle2 (hcov v hv)
    · exact hcov2 x hx v hv

theorem splitMembers_spec {ov acc g} {Q : Ty → Prop} (hnull : Q .null) (hopt : ∀ x, Q (.opt x) → Q x)
    (reg : StrRegistry) (ms : List Ty) (hms : ∀ m ∈ ms, Q m) :
    SProv Q reg (splitMembers reg ms) ∧
    ∀ m ∈ ms, ∀ v, InhX ov acc g m v → SCov ov acc g (splitMembers reg ms) v := by
  rw [splitMembers_eq]
  have := splitFold_spec (ov := ov) (acc := acc) (g := g) hnull hopt reg ms {} hms
    ⟨by simp, by simp, by simp, by simp, by simp⟩
  exact ⟨this.2.1, this.2.2⟩

/-! ## the stages of `_optimize_union` after the split -/

/-- `[] => .unknown | [t] => t | us => .union us` -/
def collapse0 (us : List Ty) : Ty := match us with | [] => .unknown | [t] => t | us => .union us

theorem inh_collapse0 {ov acc g} {us : List Ty} {v} (h : InhX ov acc g (.union us) v) :
    InhX ov acc g (collapse0 us) v := by
  unfold collapse0
  split
  · obtain ⟨t, ht, _⟩ := inh_union_iff.1 h; simp at ht
  · exact inh_singleton_union.1 h
  · exact h

theorem forall_collapse0 {P : Ty → Prop} (hunk : P .unknown) (hun : ∀ us, (∀ u ∈ us, P u) → P (.union us))
    {us : List Ty} (h : ∀ u ∈ us, P u) : P (collapse0 us) := by
  unfold collapse0
  split
  · exact hunk
  · exact h _ (by simp)
  · exact hun _ h

section
variable {ov : Bool} {acc : Accepts} {g : ModelLookup} {K : String → Prop}

/-- what `optimize` receives: a generator-stage type whose union members have no optional fields -/
abbrev OptIn (K : String → Prop) (t : Ty) : Prop := Ty.Good K t ∧ Ty.MergeSafe false t
/-- what `optimize` returns: a generator-stage type without overflowed literals -/
abbrev OptOut (K : String → Prop) (t : Ty) : Prop := Ty.Good K t ∧ Ty.NoOv t
/-- union members -/
abbrev Mem (K : String → Prop) (t : Ty) : Prop := Ty.Good K t ∧ Ty.MergeSafe true t

theorem Ty.mergeSafe_weaken {t : Ty} : Ty.MergeSafe true t → Ty.MergeSafe false t := by
  have key : ∀ n (t : Ty), t.size ≤ n → Ty.MergeSafe true t → Ty.MergeSafe false t := by
    intro n
    induction n with
    | zero => intro t ht; cases t <;> simp [Ty.size] at ht
    | succ n ih =>
      intro t ht h
      cases t <;> try (simp; done)
      case list x => simp only [Ty.mergeSafe_list] at h ⊢; exact ih x (by simp [Ty.size] at ht; omega) h
      case dict x => simp only [Ty.mergeSafe_dict] at h ⊢; exact ih x (by simp [Ty.size] at ht; omega) h
      case opt x => simp only [Ty.mergeSafe_opt] at h ⊢; exact ih x (by simp [Ty.size] at ht; omega) h
      case union ts => simpa using h
      case obj fs =>
        simp only [Ty.mergeSafe_obj] at h ⊢
        refine ⟨by simp, ?_⟩
        intro f hf
        have hsz : ∀ (fs : List (String × Ty)) (f : String × Ty), f ∈ fs → f.2.size ≤ Ty.sizeFields fs := by
          intro fs
          induction fs with
          | nil => simp
          | cons a fs ih' =>
            intro f hf
            obtain ⟨ka, ta⟩ := a
            rcases List.mem_cons.1 hf with e | hf
            · subst e; simp [Ty.sizeFields]
            · have := ih' f hf; simp [Ty.sizeFields]; omega
        have := hsz fs f hf
        exact ih f.2 (by simp [Ty.size] at ht; omega) (h.2 f hf)
  exact key t.size t (Nat.le_refl _)

theorem stage_int (other : List Ty) :
    let other1 := if (other.any Ty.isInt && other.any Ty.isFloat) = true then removeFirst Ty.isInt other else other
    (∀ o ∈ other1, o ∈ other) ∧
    ∀ v, (∃ o ∈ other, InhX ov acc g o v) → ∃ o ∈ other1, InhX ov acc g o v := by
  intro other1
  by_cases hc : (other.any Ty.isInt && other.any Ty.isFloat) = true
  · have e : other1 = removeFirst Ty.isInt other := by simp only [other1, hc, if_true]
    rw [e]
    refine ⟨fun o ho => mem_of_mem_removeFirst ho, ?_⟩
    rintro v ⟨o, ho, hi⟩
    by_cases hint : o.isInt = true
    · -- an int is a float
      simp only [Bool.and_eq_true, List.any_eq_true] at hc
      obtain ⟨f, hf, hff⟩ := hc.2
      have hfe : f = .float := by cases f <;> simp [Ty.isFloat] at hff; rfl
      subst hfe
      have hoe : o = .int := by cases o <;> simp [Ty.isInt] at hint; rfl
      subst hoe
      refine ⟨.float, mem_removeFirst_of_not hf (by simp [Ty.isInt]), ?_⟩
      cases hi; exact InhX.floatI
    · exact ⟨o, mem_removeFirst_of_not ho (by simpa using hint), hi⟩
  · have e : other1 = other := by simp only [other1, hc]; rfl
    rw [e]
    exact ⟨fun _ h => h, fun _ h => h⟩

theorem hashSound_of_mem (hs : HashSoundOn ov acc g (Ty.Good K)) {ts : List Ty}
    (h : ∀ t ∈ ts, Ty.Good K t) : HashSound ov acc g ts := hashSound_of_good hs h

/-- `DList(DUnion(*element types))` -/
theorem stage_list (hs : HashSoundOn ov acc g (Ty.Good K)) (c : LitCfg) {lists : List Ty}
    (hl : ∀ x ∈ lists, Mem K x) :
    OptIn K (.list (mkUnion c lists)) ∧
    ∀ x ∈ lists, ∀ v, InhX ov acc g (.list x) v → InhX ov acc g (.list (mkUnion c lists)) v := by
  have hg : ∀ x ∈ lists, Ty.Good K x := fun x hx => (hl x hx).1
  have hm : ∀ x ∈ lists, Ty.MergeSafe true x := fun x hx => (hl x hx).2
  refine ⟨⟨?_, ?_⟩, ?_⟩
  · simp only [mkUnion, Ty.good_list, Ty.good_union]; exact good_mkUnionMembers hg
  · simp only [mkUnion, Ty.mergeSafe_list, Ty.mergeSafe_union]; exact mergeSafe_mkUnionMembers hm
  · intro x hx v hv
    obtain ⟨xs, rfl, hxs⟩ := inh_list_iff.1 hv
    exact InhX.list (fun y hy => mkUnion_sound' (hashSound_of_mem hs hg) hx (hxs y hy))

theorem stage_dict (hs : HashSoundOn ov acc g (Ty.Good K)) (c : LitCfg) {dicts : List Ty}
    (hl : ∀ x ∈ dicts, Mem K x) :
    OptIn K (.dict (mkUnion c dicts)) ∧
    ∀ x ∈ dicts, ∀ v, InhX ov acc g (.dict x) v → InhX ov acc g (.dict (mkUnion c dicts)) v := by
  have hg : ∀ x ∈ dicts, Ty.Good K x := fun x hx => (hl x hx).1
  have hm : ∀ x ∈ dicts, Ty.MergeSafe true x := fun x hx => (hl x hx).2
  refine ⟨⟨?_, ?_⟩, ?_⟩
  · simp only [mkUnion, Ty.good_dict, Ty.good_union]; exact good_mkUnionMembers hg
  · simp only [mkUnion, Ty.mergeSafe_dict, Ty.mergeSafe_union]; exact mergeSafe_mkUnionMembers hm
  · intro x hx v hv
    obtain ⟨xs, rfl, hxs⟩ := inh_dict_iff.1 hv
    exact InhX.dict (fun y hy => mkUnion_sound' (hashSound_of_mem hs hg) hx (hxs y hy))

/-- the merged inline object -/
theorem stage_merge (hs : HashSoundOn ov acc g (Ty.Good K)) {e : EqEnv}
    (he : EqSoundOn ov acc g e (Ty.Good K)) (c : LitCfg) {sets : List Fields} {m : Fields}
    (hsets : ∀ fs ∈ sets, Mem K (.obj fs)) (h : mergeFieldSets c e sets = .ok m) :
    OptIn K (.obj m) ∧ ∀ fs ∈ sets, ∀ v, InhX ov acc g (.obj fs) v → InhX ov acc g (.obj m) v := by
  have hsets' : ∀ fs ∈ sets, ∀ f ∈ fs, (Ty.Good K f.2 ∧ Ty.MergeSafe true f.2) ∧ f.2.isOpt = false := by
    intro fs hfs f hf
    obtain ⟨hg, hm⟩ := hsets fs hfs
    simp only [Ty.good_obj] at hg
    simp only [Ty.mergeSafe_obj] at hm
    exact ⟨⟨hg.2 f hf, hm.2 f hf⟩, hm.1 trivial f hf⟩
  obtain ⟨nd, hP, hcov⟩ := mergeFieldSets_spec mergeClosed_goodSafe hs he hsets' h
  refine ⟨⟨Ty.good_obj.2 ⟨nd, fun f hf => (hP f hf).1⟩, Ty.mergeSafe_obj.2 ⟨by simp, ?_⟩⟩, ?_⟩
  · intro f hf; exact Ty.mergeSafe_weaken (hP f hf).2
  · intro fs hfs v hv
    obtain ⟨kvs, rfl, hi⟩ := inh_obj_iff'.1 hv
    exact inh_obj_iff'.2 ⟨kvs, rfl, hcov fs hfs kvs hi⟩

/-- pseudo-types: `str` if present, else the resolved kind, else `str` -/
theorem stage_str {reg : StrRegistry} (hrep : ReplacesSound acc reg) (hrank : ReplacesRanked reg)
    {strTypes other other' : List Ty}
    (hst : ∀ st ∈ strTypes, st = .str ∨ ∃ k, st = .ser k ∧ Mem K st)
    (h : (if strTypes.any Ty.isStr = true then pure (other ++ [Ty.str])
          else if strTypes.isEmpty = true then pure other
          else
            let kinds := strTypes.filterMap (fun t => match t with | .ser k => some k | _ => none)
            do
              let r ← resolve reg kinds (kinds.length + 2)
              match r with
              | [k] => pure (other ++ [Ty.ser k])
              | [] => Except.error PyErr.stopIteration
              | _ => pure (other ++ [Ty.str]) : Except PyErr (List Ty)) = .ok other') :
    (∀ o ∈ other, o ∈ other') ∧ (∀ o ∈ other', o ∈ other ∨ OptIn K o) ∧
    ∀ st ∈ strTypes, ∀ v, InhX ov acc g st v → ∃ o ∈ other', InhX ov acc g o v := by
  have hstr : ∀ st ∈ strTypes, ∀ v, InhX ov acc g st v → InhX ov acc g .str v := by
    intro st hst' v hv
    rcases hst st hst' with rfl | ⟨k, rfl, _⟩
    · exact hv
    · cases hv; exact InhX.str
  split at h
  · rw [Except.pure_eq_ok] at h; subst h
    refine ⟨fun o ho => by simp [ho], ?_, ?_⟩
    · intro o ho
      rcases List.mem_append.1 ho with h | h
      · exact Or.inl h
      · simp at h; subst h; exact Or.inr ⟨by simp, by simp⟩
    · intro st hst' v hv
      exact ⟨.str, by simp, hstr st hst' v hv⟩
  · rename_i hnostr
    split at h
    · rename_i hempty
      rw [Except.pure_eq_ok] at h; subst h
      have : strTypes = [] := by simpa using hempty
      subst this
      exact ⟨fun _ h => h, fun _ h => Or.inl h, by simp⟩
    · simp only at h
      rw [Except.bind_eq_ok] at h
      obtain ⟨r, hr, h⟩ := h
      have hkinds : ∀ st ∈ strTypes, ∃ k, st = .ser k ∧
          k ∈ strTypes.filterMap (fun t => match t with | .ser k => some k | _ => none) := by
        intro st hst'
        rcases hst st hst' with rfl | ⟨k, rfl, _⟩
        · exfalso; apply hnostr; simp only [List.any_eq_true]; exact ⟨.str, hst', rfl⟩
        · exact ⟨k, rfl, List.mem_filterMap.2 ⟨.ser k, hst', rfl⟩⟩
      have hsub : ∀ k ∈ r, Mem K (.ser k) := by
        intro k hk
        have := resolve_subset _ _ _ hr k hk
        obtain ⟨st, hst', hm⟩ := List.mem_filterMap.1 this
        rcases hst st hst' with rfl | ⟨k', rfl, hmem⟩
        · simp at hm
        · simp at hm; subst hm; exact hmem
      have hcovr : ∀ st ∈ strTypes, ∀ v, InhX ov acc g st v → ∃ k' ∈ r, InhX ov acc g (.ser k') v := by
        intro st hst' v hv
        obtain ⟨k, rfl, hk⟩ := hkinds st hst'
        obtain ⟨k', hk', hstar⟩ := resolve_covers hrank _ _ _ hr k hk
        cases hv with
        | ser ha => exact ⟨k', hk', InhX.ser (hstar.accepts hrep ha)⟩
      match r, h, hsub, hcovr with
      | [k], h, hsub, hcovr =>
        simp only [Except.pure_eq_ok] at h; subst h
        refine ⟨fun o ho => by simp [ho], ?_, ?_⟩
        · intro o ho
          rcases List.mem_append.1 ho with h | h
          · exact Or.inl h
          · simp at h; subst h
            have := hsub k (by simp)
            exact Or.inr ⟨this.1, by simp⟩
        · intro st hst' v hv
          obtain ⟨k', hk', hi⟩ := hcovr st hst' v hv
          simp at hk'; subst hk'
          exact ⟨.ser k', by simp, hi⟩
      | [], h, _, _ => simp at h
      | _ :: _ :: _, h, _, _ =>
        simp only [Except.pure_eq_ok] at h; subst h
        refine ⟨fun o ho => by simp [ho], ?_, ?_⟩
        · intro o ho
          rcases List.mem_append.1 ho with h | h
          · exact Or.inl h
          · simp at h; subst h; exact Or.inr ⟨by simp, by simp⟩
        · intro st hst' v hv
          exact ⟨.str, by simp, hstr st hst' v hv⟩

/-- the end of `_optimize_union`: drop `Unknown`, fold `Null` into `DOptional`, rebuild the union -/
theorem stage_final (hs : HashSoundOn ov acc g (Ty.Good K)) (c : LitCfg) {types : List Ty} {t' : Ty}
    (h : (match types with
          | [] => Except.error PyErr.indexError
          | [t] => pure t
          | types =>
            let types := if types.any Ty.isUnknown = true then removeFirst Ty.isUnknown types else types
            let optional := types.any Ty.isNull
            let types := types.filter (fun t => !t.isNull)
            let mt := match mkUnionMembers c types with
              | [] => Ty.unknown
              | [t] => t
              | us => Ty.union us
            pure (if optional = true then mt.opt else mt) : Except PyErr Ty) = .ok t')
    (hty : ∀ t ∈ types, OptOut K t) :
    OptOut K t' ∧ ∀ t ∈ types, ∀ v, InhX ov acc g t v → InhX ov acc g t' v := by
  match types, hty, h with
  | [], _, h => simp at h
  | [t], hty, h =>
    simp only [Except.pure_eq_ok] at h; subst h
    exact ⟨hty t (by simp), by simp⟩
  | t1 :: t2 :: rest, hty, h =>
    simp only [Except.pure_eq_ok] at h
    generalize hL : t1 :: t2 :: rest = L at h hty
    generalize hT1 : (if L.any Ty.isUnknown = true then removeFirst Ty.isUnknown L else L) = T1 at h
    have hT1sub : ∀ t ∈ T1, t ∈ L := by
      intro t ht; rw [← hT1] at ht
      split at ht
      · exact mem_of_mem_removeFirst ht
      · exact ht
    have hT1keep : ∀ t ∈ L, t.isUnknown = false → t ∈ T1 := by
      intro t ht hu; rw [← hT1]
      split
      · exact mem_removeFirst_of_not ht hu
      · exact ht
    have hT2 : ∀ t ∈ T1.filter (fun t => !t.isNull), OptOut K t := by
      intro t ht; exact hty t (hT1sub t (List.mem_filter.1 ht).1)
    have hmt : (match mkUnionMembers c (T1.filter (fun t => !t.isNull)) with
              | [] => Ty.unknown
              | [t] => t
              | us => Ty.union us) = collapse0 (mkUnionMembers c (T1.filter (fun t => !t.isNull))) := rfl
    rw [hmt] at h
    have hgood : ∀ u ∈ mkUnionMembers c (T1.filter (fun t => !t.isNull)), OptOut K u := by
      intro u hu
      exact ⟨good_mkUnionMembers (fun t ht => (hT2 t ht).1) u hu,
        mkUnionMembers_forall (P := Ty.NoOv)
          (flattenUnion_forall (P := Ty.NoOv) (fun _ h => Ty.noOv_union.1 h) (fun t ht => (hT2 t ht).2))
          (by simp) (by simp) u hu⟩
    have hmtout : OptOut K (collapse0 (mkUnionMembers c (T1.filter (fun t => !t.isNull)))) :=
      ⟨forall_collapse0 (P := Ty.Good K) (by simp) (fun _ h => Ty.good_union.2 h) (fun u hu => (hgood u hu).1),
       forall_collapse0 (P := Ty.NoOv) (by simp) (fun _ h => Ty.noOv_union.2 h) (fun u hu => (hgood u hu).2)⟩
    have hcov : ∀ t ∈ L, ∀ v, InhX ov acc g t v → t.isNull = false →
        InhX ov acc g (collapse0 (mkUnionMembers c (T1.filter (fun t => !t.isNull)))) v := by
      intro t ht v hv hn
      have hu : t.isUnknown = false := by
        cases t <;> simp [Ty.isUnknown]
        exact not_inh_unknown hv
      have hmem : t ∈ T1.filter (fun t => !t.isNull) := List.mem_filter.2 ⟨hT1keep t ht hu, by simp [hn]⟩
      exact inh_collapse0 (mkUnion_sound' (hashSound_of_mem hs (fun t ht => (hT2 t ht).1)) hmem hv)
    subst h
    refine ⟨?_, ?_⟩
    · split
      · exact ⟨by simpa using hmtout.1, by simpa using hmtout.2⟩
      · exact hmtout
    · intro t ht v hv
      by_cases hn : t.isNull = true
      · have hte : t = .null := by cases t <;> simp [Ty.isNull] at hn; rfl
        subst hte
        have hu : Ty.null.isUnknown = false := rfl
        have hopt : T1.any Ty.isNull = true := by
          simp only [List.any_eq_true]; exact ⟨.null, hT1keep _ ht hu, rfl⟩
        rw [hopt]; simp only [if_true]
        cases hv; exact InhX.optNull
      · have := hcov t ht v hv (by simpa using hn)
        split
        · exact InhX.optSome this
        · exact this

end

/-! ## the main induction on fuel -/

section
variable (cfg : GenCfg) (e : EqEnv) (ov : Bool) (acc : Accepts) (g : ModelLookup) (K : String → Prop)

def OptSpec (fuel : Nat) : Prop :=
  ∀ t t', OptIn K t → optimize cfg e fuel t = .ok t' →
    OptOut K t' ∧ (t.isOpt = true → t'.isOpt = true) ∧ Covers ov acc g t t'

def OptUSpec (fuel : Nat) : Prop :=
  ∀ ms t', (∀ m ∈ ms, Mem K m) → optimizeUnion cfg e fuel ms = .ok t' →
    OptOut K t' ∧ Covers ov acc g (.union ms) t'

variable {cfg e ov acc g K}

theorem optimizeUnion_step (hs : HashSoundOn ov acc g (Ty.Good K)) (he : EqSoundOn ov acc g e (Ty.Good K))
    (hrep : ReplacesSound acc cfg.reg) (hrank : ReplacesRanked cfg.reg)
    (fuel : Nat) (ih : OptSpec cfg e ov acc g K fuel) : OptUSpec cfg e ov acc g K (fuel + 1) := by
  intro ms t' hms h
  rw [optimizeUnion.eq_2] at h
  obtain ⟨hprov, hcov⟩ := splitMembers_spec (ov := ov) (acc := acc) (g := g) (Q := Mem K)
    ⟨by simp, by simp⟩ (fun x h => by simpa [Mem] using h) cfg.reg ms hms
  generalize splitMembers cfg.reg ms = s at h hprov hcov
  obtain ⟨p1, p2, p3, p4, p5⟩ := hprov
  rw [Except.bind_eq_ok] at h
  obtain ⟨other2, ho2, h⟩ := h
  simp only at h
  rw [Except.bind_eq_ok] at h
  obtain ⟨other5, ho5, h⟩ := h
  rw [Except.bind_eq_ok] at h
  obtain ⟨types, hty, h⟩ := h
  -- stage 1/2: int absorbed by float, inline objects merged
  obtain ⟨hi1, hi2⟩ := stage_int (ov := ov) (acc := acc) (g := g) s.other
  have h2 : (∀ o ∈ other2, OptIn K o) ∧
      (∀ v, (∃ o ∈ s.other, InhX ov acc g o v) → ∃ o ∈ other2, InhX ov acc g o v) ∧
      (∀ v, (∃ fs ∈ s.toMerge, InhX ov acc g (.obj fs) v) → ∃ o ∈ other2, InhX ov acc g o v) := by
    have hin1 : ∀ o ∈ (if (s.other.any Ty.isInt && s.other.any Ty.isFloat) = true
        then removeFirst Ty.isInt s.other else s.other), OptIn K o := by
      intro o ho
      have := p1 o (hi1 o ho)
      exact ⟨this.1, Ty.mergeSafe_weaken this.2⟩
    split at ho2
    · rename_i hempty
      rw [Except.pure_eq_ok] at ho2; subst ho2
      refine ⟨hin1, hi2, ?_⟩
      rintro v ⟨fs, hfs, _⟩
      have : s.toMerge = [] := by simpa using hempty
      rw [this] at hfs; simp at hfs
    · rw [Except.bind_eq_ok] at ho2
      obtain ⟨m, hm, ho2⟩ := ho2
      rw [Except.pure_eq_ok] at ho2; subst ho2
      obtain ⟨hmin, hmcov⟩ := stage_merge hs he cfg.lit p2 hm
      refine ⟨?_, ?_, ?_⟩
      · intro o ho
        rcases List.mem_append.1 ho with h | h
        · exact hin1 o h
        · simp at h; subst h; exact hmin
      · intro v hv
        obtain ⟨o, ho, hi⟩ := hi2 v hv
        exact ⟨o, List.mem_append_left _ ho, hi⟩
      · rintro v ⟨fs, hfs, hv⟩
        exact ⟨.obj m, by simp, hmcov fs hfs v hv⟩
  obtain ⟨h2in, h2cov, h2mer⟩ := h2
  -- stage 3: lists
  have h3 : (∀ o ∈ (if s.lists.isEmpty = true then other2 else other2 ++ [(mkUnion cfg.lit s.lists).list]),
        OptIn K o) ∧
      (∀ o ∈ other2, o ∈ (if s.lists.isEmpty = true then other2
        else other2 ++ [(mkUnion cfg.lit s.lists).list])) ∧
      (∀ v, (∃ x ∈ s.lists, InhX ov acc g (.list x) v) →
        ∃ o ∈ (if s.lists.isEmpty = true then other2 else other2 ++ [(mkUnion cfg.lit s.lists).list]),
          InhX ov acc g o v) := by
    obtain ⟨hlin, hlcov⟩ := stage_list hs cfg.lit (lists := s.lists) (fun x hx => by simpa [Mem] using p3 x hx)
    split
    · rename_i hempty
      have : s.lists = [] := by simpa using hempty
      refine ⟨h2in, fun _ h => h, ?_⟩
      rintro v ⟨x, hx, _⟩; rw [this] at hx; simp at hx
    · refine ⟨?_, fun o ho => List.mem_append_left _ ho, ?_⟩
      · intro o ho
        rcases List.mem_append.1 ho with h | h
        · exact h2in o h
        · simp at h; subst h; exact hlin
      · rintro v ⟨x, hx, hv⟩
        exact ⟨_, by simp, hlcov x hx v hv⟩
  generalize (if s.lists.isEmpty = true then other2 else other2 ++ [(mkUnion cfg.lit s.lists).list]) = other3
    at h3 ho5
  obtain ⟨h3in, h3sub, h3cov⟩ := h3
  -- stage 4: dicts
  have h4 : (∀ o ∈ (if s.dicts.isEmpty = true then other3 else other3 ++ [(mkUnion cfg.lit s.dicts).dict]),
        OptIn K o) ∧
      (∀ o ∈ other3, o ∈ (if s.dicts.isEmpty = true then other3
        else other3 ++ [(mkUnion cfg.lit s.dicts).dict])) ∧
      (∀ v, (∃ x ∈ s.dicts, InhX ov acc g (.dict x) v) →
        ∃ o ∈ (if s.dicts.isEmpty = true then other3 else other3 ++ [(mkUnion cfg.lit s.dicts).dict]),
          InhX ov acc g o v) := by
    obtain ⟨hlin, hlcov⟩ := stage_dict hs cfg.lit (dicts := s.dicts) (fun x hx => by simpa [Mem] using p4 x hx)
    split
    · rename_i hempty
      have : s.dicts = [] := by simpa using hempty
      refine ⟨h3in, fun _ h => h, ?_⟩
      rintro v ⟨x, hx, _⟩; rw [this] at hx; simp at hx
    · refine ⟨?_, fun o ho => List.mem_append_left _ ho, ?_⟩
      · intro o ho
        rcases List.mem_append.1 ho with h | h
        · exact h3in o h
        · simp at h; subst h; exact hlin
      · rintro v ⟨x, hx, hv⟩
        exact ⟨_, by simp, hlcov x hx v hv⟩
  generalize (if s.dicts.isEmpty = true then other3 else other3 ++ [(mkUnion cfg.lit s.dicts).dict]) = other4
    at h4 ho5
  obtain ⟨h4in, h4sub, h4cov⟩ := h4
  -- stage 5: pseudo-types
  obtain ⟨h5sub, h5in, h5cov⟩ := stage_str (ov := ov) (g := g) (K := K) hrep hrank p5 ho5
  have h5in' : ∀ o ∈ other5, OptIn K o := by
    intro o ho
    rcases h5in o ho with h | h
    · exact h4in o h
    · exact h
  have hcov5 : ∀ v, SCov ov acc g s v → ∃ o ∈ other5, InhX ov acc g o v := by
    intro v hv
    have lift2 : (∃ o ∈ other2, InhX ov acc g o v) → ∃ o ∈ other5, InhX ov acc g o v := by
      rintro ⟨o, ho, hi⟩; exact ⟨o, h5sub o (h4sub o (h3sub o ho)), hi⟩
    have lift3 : (∃ o ∈ other3, InhX ov acc g o v) → ∃ o ∈ other5, InhX ov acc g o v := by
      rintro ⟨o, ho, hi⟩; exact ⟨o, h5sub o (h4sub o ho), hi⟩
    have lift4 : (∃ o ∈ other4, InhX ov acc g o v) → ∃ o ∈ other5, InhX ov acc g o v := by
      rintro ⟨o, ho, hi⟩; exact ⟨o, h5sub o ho, hi⟩
    rcases hv with h | h | h | h | h
    · exact lift2 (h2cov v h)
    · exact lift2 (h2mer v h)
    · exact lift3 (h3cov v h)
    · exact lift4 (h4cov v h)
    · obtain ⟨st, hst, hi⟩ := h; exact h5cov st hst v hi
  -- stage 6: members optimised recursively
  obtain ⟨hm1, hm2⟩ := mapM_ok_mem other5 types hty
  have htypes : ∀ t ∈ types, OptOut K t := by
    intro t ht
    obtain ⟨o, ho, hf⟩ := hm2 t ht
    exact (ih o t (h5in' o ho) hf).1
  have hcov6 : ∀ v, SCov ov acc g s v → ∃ t ∈ types, InhX ov acc g t v := by
    intro v hv
    obtain ⟨o, ho, hi⟩ := hcov5 v hv
    obtain ⟨t, ht, hf⟩ := hm1 o ho
    exact ⟨t, ht, (ih o t (h5in' o ho) hf).2.2 v hi⟩
  -- stage 7
  obtain ⟨hout, hfin⟩ := stage_final hs cfg.lit h htypes
  refine ⟨hout, ?_⟩
  intro v hv
  obtain ⟨m, hm, hi⟩ := inh_union_iff.1 hv
  obtain ⟨t, ht, hi'⟩ := hcov6 v (hcov m hm v hi)
  exact hfin t ht v hi'

theorem optimize_step (fuel : Nat) (ih : OptSpec cfg e ov acc g K fuel) (ihU : OptUSpec cfg e ov acc g K fuel) :
    OptSpec cfg e ov acc g K (fuel + 1) := by
  intro t t' hin h
  obtain ⟨hg, hm⟩ := hin
  cases t
  case obj fs =>
    rw [optimize.eq_2, Except.bind_eq_ok] at h
    obtain ⟨fs', hfs', h⟩ := h
    rw [Except.pure_eq_ok] at h; subst h
    obtain ⟨hkeys, hfw, hbw⟩ := mapM_fields_ok fs fs' hfs'
    simp only [Ty.good_obj] at hg
    simp only [Ty.mergeSafe_obj] at hm
    have nd' : (fs'.map (·.1)).Nodup := by rw [hkeys]; exact hg.1
    have hfield : ∀ k t, Fields.get? fs k = some t → OptIn K t :=
      fun k t hk => ⟨hg.2 _ (Fields.mem_of_get? hk), hm.2 _ (Fields.mem_of_get? hk)⟩
    have hout : ∀ f ∈ fs', OptOut K f.2 := by
      intro f hf
      obtain ⟨t, ht, hopt⟩ := hbw f.1 f.2 (Fields.get?_of_mem nd' hf)
      exact (ih t f.2 (hfield _ _ ht) hopt).1
    refine ⟨⟨Ty.good_obj.2 ⟨nd', fun f hf => (hout f hf).1⟩, Ty.noOv_obj.2 (fun f hf => (hout f hf).2)⟩,
      by simp [Ty.isOpt], ?_⟩
    intro v hv
    obtain ⟨kvs, rfl, hi⟩ := inh_obj_iff'.1 hv
    refine inh_obj_iff'.2 ⟨kvs, rfl, InhF.toInhFields nd' ⟨?_, ?_⟩⟩
    · intro kv hkv
      obtain ⟨t, ht, hti⟩ := hi.toInhF.1 kv hkv
      obtain ⟨t2, ht2, hopt⟩ := hfw _ _ ht
      exact ⟨t2, ht2, (ih t t2 (hfield _ _ ht) hopt).2.2 _ hti⟩
    · intro k t2 hk hno
      obtain ⟨t, ht, hopt⟩ := hbw k t2 hk
      have := (ih t t2 (hfield _ _ ht) hopt).2.1
      have hno' : t.isOpt = false := by
        cases ho : t.isOpt with
        | false => rfl
        | true => rw [this ho] at hno; simp at hno
      exact hi.toInhF.2 k t ht hno'
  case union ts =>
    rw [optimize.eq_3] at h
    obtain ⟨hout, hcov⟩ := ihU ts t'
      (fun m hm' => ⟨Ty.good_union.1 hg m hm', Ty.mergeSafe_union.1 hm m hm'⟩) h
    exact ⟨hout, by simp [Ty.isOpt], hcov⟩
  case opt x =>
    rw [optimize.eq_4, Except.bind_eq_ok] at h
    obtain ⟨y, hy, h⟩ := h
    obtain ⟨hout, _, hcov⟩ := ih x y ⟨by simpa using hg, by simpa using hm⟩ hy
    have key : ∀ r, (match y with | .opt z => (pure (Ty.opt z) : Except PyErr Ty) | z => pure (Ty.opt z)) = .ok r →
        OptOut K r ∧ r.isOpt = true ∧ ∀ v, InhX ov acc g y v → InhX ov acc g r v := by
      intro r hr
      cases y <;> simp only [Except.pure_eq_ok] at hr <;> subst hr
      case opt z =>
        exact ⟨hout, rfl, fun v h => h⟩
      all_goals exact ⟨⟨by simp [hout.1], by simp [hout.2]⟩, rfl, fun v h => InhX.optSome h⟩
    obtain ⟨ho, hopt, hc⟩ := key t' h
    refine ⟨ho, fun _ => hopt, ?_⟩
    intro v hv
    rcases inh_opt_iff.1 hv with rfl | hv
    · cases t' <;> simp [Ty.isOpt] at hopt
      exact InhX.optNull
    · exact hc v (hcov v hv)
  case list x =>
    simp only [optimize] at h
    rw [Except.bind_eq_ok] at h
    obtain ⟨y, hy, h⟩ := h
    rw [Except.pure_eq_ok] at h; subst h
    obtain ⟨hout, _, hcov⟩ := ih x y ⟨by simpa using hg, by simpa using hm⟩ hy
    refine ⟨⟨by simpa using hout.1, by simpa using hout.2⟩, by simp [Ty.isOpt], ?_⟩
    intro v hv
    obtain ⟨xs, rfl, hxs⟩ := inh_list_iff.1 hv
    exact InhX.list (fun z hz => hcov z (hxs z hz))
  case dict x =>
    simp only [optimize] at h
    rw [Except.bind_eq_ok] at h
    obtain ⟨y, hy, h⟩ := h
    rw [Except.pure_eq_ok] at h; subst h
    obtain ⟨hout, _, hcov⟩ := ih x y ⟨by simpa using hg, by simpa using hm⟩ hy
    refine ⟨⟨by simpa using hout.1, by simpa using hout.2⟩, by simp [Ty.isOpt], ?_⟩
    intro v hv
    obtain ⟨xs, rfl, hxs⟩ := inh_dict_iff.1 hv
    exact InhX.dict (fun z hz => hcov z.2 (hxs z hz))
  case tuple ts => simp at hg
  case ptr i => simp at hg
  case lit o vs =>
    rw [optimize.eq_8] at h
    split at h
    · rw [Except.pure_eq_ok] at h; subst h
      refine ⟨⟨by simp, by simp⟩, by simp [Ty.isOpt], ?_⟩
      intro v hv
      cases hv <;> exact InhX.str
    · rename_i hc
      rw [Except.pure_eq_ok] at h; subst h
      have : o = false := by
        cases o <;> simp at hc ⊢
      subst this
      exact ⟨⟨hg, by simp⟩, fun h => h, fun v h => h⟩
  all_goals
    simp only [optimize, Except.pure_eq_ok] at h
    subst h
    exact ⟨⟨hg, by simp⟩, fun h => h, fun v h => h⟩

theorem optimize_spec_all (hs : HashSoundOn ov acc g (Ty.Good K)) (he : EqSoundOn ov acc g e (Ty.Good K))
    (hrep : ReplacesSound acc cfg.reg) (hrank : ReplacesRanked cfg.reg) :
    ∀ fuel, OptSpec cfg e ov acc g K fuel ∧ OptUSpec cfg e ov acc g K fuel := by
  intro fuel
  induction fuel with
  | zero =>
    exact ⟨fun t t' _ h => by simp [optimize] at h, fun ms t' _ h => by simp [optimizeUnion] at h⟩
  | succ fuel ih =>
    exact ⟨optimize_step fuel ih.1 ih.2, optimizeUnion_step hs he hrep hrank fuel ih.1⟩

end

end J2M
