/-
  C01 helpers, part 7: `optimize_type` / `_optimize_union` keep every inhabitant, and return a type
  without overflowed literals.
-/
import J2M.Proofs.InhMerge
import J2M.Proofs.MergeRho
import J2M.Proofs.InhResolve
import J2M.Proofs.SplitWorklist
namespace J2M

/-! ## small list facts -/

theorem mem_removeFirst_of_not {α} {p : α → Bool} {x : α} :
    ∀ {l : List α}, x ∈ l → p x = false → x ∈ removeFirst p l := by
  intro l
  induction l with
  | nil => simp
  | cons a l ih =>
    intro hx hp
    unfold removeFirst
    split
    · rename_i hpa
      rcases List.mem_cons.1 hx with e | hx
      · subst e; rw [hp] at hpa; simp at hpa
      · exact hx
    · rcases List.mem_cons.1 hx with e | hx
      · simp [e]
      · exact List.mem_cons_of_mem _ (ih hx hp)

theorem mem_of_mem_removeFirst {α} {p : α → Bool} {x : α} :
    ∀ {l : List α}, x ∈ removeFirst p l → x ∈ l := by
  intro l
  induction l with
  | nil => simp [removeFirst]
  | cons a l ih =>
    intro hx
    unfold removeFirst at hx
    split at hx
    · exact List.mem_cons_of_mem _ hx
    · rcases List.mem_cons.1 hx with e | hx
      · simp [e]
      · exact List.mem_cons_of_mem _ (ih hx)

theorem mapM_ok_memX {ε α β} {f : α → Except ε β} :
    ∀ (l : List α) (l' : List β), l.mapM f = .ok l' →
      (∀ a ∈ l, ∃ b ∈ l', f a = .ok b) ∧ (∀ b ∈ l', ∃ a ∈ l, f a = .ok b) := by
  intro l
  induction l with
  | nil => intro l' h; simp [pure, Except.pure] at h; subst h; simp
  | cons a l ih =>
    intro l' h
    rw [List.mapM_cons, Except.bind_eq_ok] at h
    obtain ⟨b, hb, h⟩ := h
    rw [Except.bind_eq_ok] at h
    obtain ⟨bs, hbs, h⟩ := h
    rw [Except.pure_eq_ok] at h; subst h
    obtain ⟨h1, h2⟩ := ih bs hbs
    constructor
    · intro x hx
      rcases List.mem_cons.1 hx with e | hx
      · subst e; exact ⟨b, List.mem_cons_self, hb⟩
      · obtain ⟨y, hy, hf⟩ := h1 x hx; exact ⟨y, List.mem_cons_of_mem _ hy, hf⟩
    · intro y hy
      rcases List.mem_cons.1 hy with e | hy
      · subst e; exact ⟨a, List.mem_cons_self, hb⟩
      · obtain ⟨x, hx, hf⟩ := h2 y hy; exact ⟨x, List.mem_cons_of_mem _ hx, hf⟩

/-- `{k: f(v) for k, v in d.items()}` -/
theorem mapM_fields_ok {ε} {f : Ty → Except ε Ty} :
    ∀ (fs fs' : Fields), fs.mapM (fun (kv : String × Ty) => do let v ← f kv.2; pure (kv.1, v)) = .ok fs' →
      fs'.map (·.1) = fs.map (·.1) ∧
      (∀ k t, Fields.get? fs k = some t → ∃ t', Fields.get? fs' k = some t' ∧ f t = .ok t') ∧
      (∀ k t', Fields.get? fs' k = some t' → ∃ t, Fields.get? fs k = some t ∧ f t = .ok t') := by
  intro fs
  induction fs with
  | nil => intro fs' h; simp [pure, Except.pure] at h; subst h; simp
  | cons kv fs ih =>
    obtain ⟨k0, t0⟩ := kv
    intro fs' h
    rw [List.mapM_cons, Except.bind_eq_ok] at h
    obtain ⟨b, hb, h⟩ := h
    rw [Except.bind_eq_ok] at hb
    obtain ⟨v, hv, hb⟩ := hb
    rw [Except.pure_eq_ok] at hb; subst hb
    rw [Except.bind_eq_ok] at h
    obtain ⟨bs, hbs, h⟩ := h
    rw [Except.pure_eq_ok] at h; subst h
    obtain ⟨h0, h1, h2⟩ := ih bs hbs
    refine ⟨by simp [h0], ?_, ?_⟩
    · intro k t hk
      rw [Fields.get?_consI] at hk ⊢
      by_cases e : k0 = k
      · rw [if_pos e] at hk ⊢; cases hk; exact ⟨v, rfl, hv⟩
      · rw [if_neg e] at hk ⊢; exact h1 k t hk
    · intro k t' hk
      rw [Fields.get?_consI] at hk ⊢
      by_cases e : k0 = k
      · rw [if_pos e] at hk ⊢; cases hk; exact ⟨t0, rfl, hv⟩
      · rw [if_neg e] at hk ⊢; exact h2 k t' hk

/-! ## the category split of `_optimize_union` -/

def classify (reg : StrRegistry) (item : Ty) (s : Split) : Split :=
  match item with
  | .obj fs => { s with toMerge := s.toMerge ++ [fs] }
  | .str => { s with strTypes := s.strTypes ++ [item] }
  | .ser k => if reg.types.contains k then { s with strTypes := s.strTypes ++ [item] }
              else { s with other := s.other ++ [item] }
  | .list x => { s with lists := s.lists ++ [x] }
  | .dict x => { s with dicts := s.dicts ++ [x] }
  | x => { s with other := s.other ++ [x] }

def splitStepX (reg : StrRegistry) (s : Split) (item : Ty) : Split :=
  match item with
  | .opt x => classify reg x { s with other := s.other ++ [Ty.null] }
  | x => classify reg x s

theorem splitStepX_eq (reg : StrRegistry) (s : Split) (item : Ty) :
    SplitW.splitStep reg s item = splitStepX reg s item := by
  cases item <;> first | rfl | (rename_i x; cases x <;> rfl)

/-- the worklist split is the old fold over the flattened member list (`SplitW.flatL`: the members of the unions
    hidden under `Optional` members, and of directly nested unions, are spliced in) -/
theorem splitMembers_eqX (reg : StrRegistry) (ts : List Ty) :
    splitMembers reg ts = (SplitW.flatL ts).foldl (splitStepX reg) {} := by
  rw [SplitW.splitMembers_eq_flat_foldl]
  congr 1
  funext s item
  exact splitStepX_eq reg s item

/-- splicing is semantically the identity: a value lies in a member iff it lies in one of the members it is
    flattened to (`Union[Optional[Union[A, B]], C]` holds `null` and what `A`, `B`, `C` hold) -/
theorem inh_flatT {ov acc g} {v : Json} : ∀ (t : Ty), (∃ x ∈ SplitW.flatT t, InhX ov acc g x v) ↔ InhX ov acc g t v := by
  intro t
  induction t using SplitW.flat_induct with
  | hu ms ih =>
    rw [SplitW.flatT_union, inh_union_iff]
    constructor
    · rintro ⟨x, hx, hi⟩
      obtain ⟨m, hm, hx⟩ := SplitW.mem_flatL.1 hx
      exact ⟨m, hm, (ih m hm).1 ⟨x, hx, hi⟩⟩
    · rintro ⟨m, hm, hi⟩
      obtain ⟨x, hx, hi⟩ := (ih m hm).2 hi
      exact ⟨x, SplitW.mem_flatL.2 ⟨m, hm, hx⟩, hi⟩
  | hou ms ih =>
    rw [SplitW.flatT_opt_union, inh_opt_iff, inh_union_iff]
    constructor
    · rintro ⟨x, hx, hi⟩
      rcases List.mem_cons.1 hx with rfl | hx
      · cases hi; exact Or.inl rfl
      · obtain ⟨m, hm, hx⟩ := SplitW.mem_flatL.1 hx
        exact Or.inr ⟨m, hm, (ih m hm).1 ⟨x, hx, hi⟩⟩
    · rintro (rfl | ⟨m, hm, hi⟩)
      · exact ⟨.null, by simp, InhX.null⟩
      · obtain ⟨x, hx, hi⟩ := (ih m hm).2 hi
        exact ⟨x, List.mem_cons_of_mem _ (SplitW.mem_flatL.2 ⟨m, hm, hx⟩), hi⟩
  | hp t h => simp [SplitW.flatT_plain h]

theorem inh_flatL {ov acc g} {v : Json} {ts : List Ty} :
    (∃ x ∈ SplitW.flatL ts, InhX ov acc g x v) ↔ ∃ t ∈ ts, InhX ov acc g t v := by
  constructor
  · rintro ⟨x, hx, hi⟩
    obtain ⟨t, ht, hx⟩ := SplitW.mem_flatL.1 hx
    exact ⟨t, ht, (inh_flatT t).1 ⟨x, hx, hi⟩⟩
  · rintro ⟨t, ht, hi⟩
    obtain ⟨x, hx, hi⟩ := (inh_flatT t).2 hi
    exact ⟨x, SplitW.mem_flatL.2 ⟨t, ht, hx⟩, hi⟩

/-- "some category of the split holds `v`" -/
def SCov (ov : Bool) (acc : Accepts) (g : ModelLookup) (s : Split) (v : Json) : Prop :=
  (∃ o ∈ s.other, InhX ov acc g o v) ∨ (∃ fs ∈ s.toMerge, InhX ov acc g (.obj fs) v) ∨
  (∃ x ∈ s.lists, InhX ov acc g (.list x) v) ∨ (∃ x ∈ s.dicts, InhX ov acc g (.dict x) v) ∨
  (∃ st ∈ s.strTypes, InhX ov acc g st v)

def SLe (s s' : Split) : Prop :=
  (∀ o ∈ s.other, o ∈ s'.other) ∧ (∀ o ∈ s.toMerge, o ∈ s'.toMerge) ∧ (∀ o ∈ s.lists, o ∈ s'.lists) ∧
  (∀ o ∈ s.dicts, o ∈ s'.dicts) ∧ (∀ o ∈ s.strTypes, o ∈ s'.strTypes)

theorem SLe.trans {a b c : Split} (h1 : SLe a b) (h2 : SLe b c) : SLe a c :=
  ⟨fun o h => h2.1 o (h1.1 o h), fun o h => h2.2.1 o (h1.2.1 o h), fun o h => h2.2.2.1 o (h1.2.2.1 o h),
   fun o h => h2.2.2.2.1 o (h1.2.2.2.1 o h), fun o h => h2.2.2.2.2 o (h1.2.2.2.2 o h)⟩

theorem SCov.mono {ov acc g s s' v} (hle : SLe s s') (h : SCov ov acc g s v) : SCov ov acc g s' v := by
  rcases h with ⟨o, ho, hi⟩ | ⟨o, ho, hi⟩ | ⟨o, ho, hi⟩ | ⟨o, ho, hi⟩ | ⟨o, ho, hi⟩
  · exact Or.inl ⟨o, hle.1 o ho, hi⟩
  · exact Or.inr (Or.inl ⟨o, hle.2.1 o ho, hi⟩)
  · exact Or.inr (Or.inr (Or.inl ⟨o, hle.2.2.1 o ho, hi⟩))
  · exact Or.inr (Or.inr (Or.inr (Or.inl ⟨o, hle.2.2.2.1 o ho, hi⟩)))
  · exact Or.inr (Or.inr (Or.inr (Or.inr ⟨o, hle.2.2.2.2 o ho, hi⟩)))

/-- provenance of the categories: everything comes from a member satisfying `Q` -/
def SProv (Q : Ty → Prop) (_reg : StrRegistry) (s : Split) : Prop :=
  (∀ o ∈ s.other, Q o) ∧ (∀ fs ∈ s.toMerge, Q (.obj fs)) ∧ (∀ x ∈ s.lists, Q (.list x)) ∧
  (∀ x ∈ s.dicts, Q (.dict x)) ∧
  (∀ st ∈ s.strTypes, st = .str ∨ ∃ k, st = .ser k ∧ Q st)

theorem classify_le (reg : StrRegistry) (x : Ty) (s : Split) : SLe s (classify reg x s) := by
  cases x <;> simp only [classify, SLe] <;> (try split) <;> simp_all

theorem classify_cov {ov acc g} (reg : StrRegistry) (x : Ty) (s : Split) {v : Json}
    (h : InhX ov acc g x v) : SCov ov acc g (classify reg x s) v := by
  cases x <;> simp only [classify, SCov]
  case obj fs => exact Or.inr (Or.inl ⟨fs, by simp, h⟩)
  case list x => exact Or.inr (Or.inr (Or.inl ⟨x, by simp, h⟩))
  case dict x => exact Or.inr (Or.inr (Or.inr (Or.inl ⟨x, by simp, h⟩)))
  case str => exact Or.inr (Or.inr (Or.inr (Or.inr ⟨_, by simp, h⟩)))
  case ser k =>
    split
    · exact Or.inr (Or.inr (Or.inr (Or.inr ⟨_, by simp, h⟩)))
    · exact Or.inl ⟨_, by simp, h⟩
  all_goals exact Or.inl ⟨_, by simp, h⟩

theorem classify_prov {Q : Ty → Prop} (reg : StrRegistry) (x : Ty) (s : Split)
    (hx : Q x) (hp : SProv Q reg s) : SProv Q reg (classify reg x s) := by
  obtain ⟨p1, p2, p3, p4, p5⟩ := hp
  have e1 : ∀ (l : List Ty) (a : Ty) (R : Ty → Prop), (∀ o ∈ l, R o) → R a → ∀ o ∈ l ++ [a], R o := by
    intro l a R hl ha o ho
    rcases List.mem_append.1 ho with h | h
    · exact hl o h
    · simp at h; rw [h]; exact ha
  cases x <;> simp only [classify]
  case obj fs =>
    refine ⟨p1, ?_, p3, p4, p5⟩
    intro o ho
    rcases List.mem_append.1 ho with h | h
    · exact p2 o h
    · simp at h; rw [h]; exact hx
  case list x => exact ⟨p1, p2, e1 _ _ (fun x => Q (.list x)) p3 hx, p4, p5⟩
  case dict x => exact ⟨p1, p2, p3, e1 _ _ (fun x => Q (.dict x)) p4 hx, p5⟩
  case str => exact ⟨p1, p2, p3, p4, e1 _ _ _ p5 (Or.inl rfl)⟩
  case ser k =>
    split
    · exact ⟨p1, p2, p3, p4, e1 _ _ _ p5 (Or.inr ⟨k, rfl, hx⟩)⟩
    · exact ⟨e1 _ _ _ p1 hx, p2, p3, p4, p5⟩
  all_goals exact ⟨e1 _ _ _ p1 hx, p2, p3, p4, p5⟩

theorem splitStep_spec {ov acc g} {Q : Ty → Prop} (hnull : Q .null) (hopt : ∀ x, Q (.opt x) → Q x)
    (reg : StrRegistry) (s : Split) (m : Ty) (hm : Q m) (hp : SProv Q reg s) :
    SLe s (splitStepX reg s m) ∧ SProv Q reg (splitStepX reg s m) ∧
    ∀ v, InhX ov acc g m v → SCov ov acc g (splitStepX reg s m) v := by
  have hgen : ∀ x, (∀ y, x ≠ .opt y) → Q x →
      SLe s (classify reg x s) ∧ SProv Q reg (classify reg x s) ∧
      ∀ v, InhX ov acc g x v → SCov ov acc g (classify reg x s) v :=
    fun x _ hx => ⟨classify_le reg x s, classify_prov reg x s hx hp, fun v h => classify_cov reg x s h⟩
  cases m
  case opt x =>
    simp only [splitStepX]
    have hle0 : SLe s { s with other := s.other ++ [Ty.null] } :=
      ⟨fun o h => by simp [h], fun _ h => h, fun _ h => h, fun _ h => h, fun _ h => h⟩
    have hp0 : SProv Q reg { s with other := s.other ++ [Ty.null] } := by
      obtain ⟨p1, p2, p3, p4, p5⟩ := hp
      refine ⟨?_, p2, p3, p4, p5⟩
      intro o ho
      rcases List.mem_append.1 ho with h | h
      · exact p1 o h
      · simp at h; rw [h]; exact hnull
    refine ⟨hle0.trans (classify_le reg x _), classify_prov reg x _ (hopt x hm) hp0, ?_⟩
    intro v hv
    rcases inh_opt_iff.1 hv with rfl | hv
    · exact SCov.mono (classify_le reg x _) (Or.inl ⟨.null, by simp, InhX.null⟩)
    · exact classify_cov reg x _ hv
  all_goals exact hgen _ (by intro y; simp) hm

theorem splitFold_spec {ov acc g} {Q : Ty → Prop} (hnull : Q .null) (hopt : ∀ x, Q (.opt x) → Q x)
    (reg : StrRegistry) :
    ∀ (ms : List Ty) (s : Split), (∀ m ∈ ms, Q m) → SProv Q reg s →
      SLe s (ms.foldl (splitStepX reg) s) ∧ SProv Q reg (ms.foldl (splitStepX reg) s) ∧
      ∀ m ∈ ms, ∀ v, InhX ov acc g m v → SCov ov acc g (ms.foldl (splitStepX reg) s) v := by
  intro ms
  induction ms with
  | nil =>
    intro s _ hp
    exact ⟨⟨fun _ h => h, fun _ h => h, fun _ h => h, fun _ h => h, fun _ h => h⟩, hp, by simp⟩
  | cons m ms ih =>
    intro s hms hp
    obtain ⟨hle, hp', hcov⟩ := splitStep_spec (ov := ov) (acc := acc) (g := g) hnull hopt reg s m
      (hms m List.mem_cons_self) hp
    obtain ⟨hle2, hp2, hcov2⟩ := ih (splitStepX reg s m) (fun x hx => hms x (List.mem_cons_of_mem _ hx)) hp'
    refine ⟨hle.trans hle2, hp2, ?_⟩
    intro x hx v hv
    rcases List.mem_cons.1 hx with e | hx
    · subst e; exact SCov.mono hle2 (hcov v hv)
    · exact hcov2 x hx v hv

theorem splitMembers_spec {ov acc g} {Q : Ty → Prop} (hnull : Q .null) (hopt : ∀ x, Q (.opt x) → Q x)
    (hun : ∀ us, Q (.union us) → ∀ u ∈ us, Q u)
    (reg : StrRegistry) (ms : List Ty) (hms : ∀ m ∈ ms, Q m) :
    SProv Q reg (splitMembers reg ms) ∧
    ∀ m ∈ ms, ∀ v, InhX ov acc g m v → SCov ov acc g (splitMembers reg ms) v := by
  rw [splitMembers_eqX]
  have := splitFold_spec (ov := ov) (acc := acc) (g := g) hnull hopt reg (SplitW.flatL ms) {}
    (SplitW.forall_flatL' hnull hopt hun hms) ⟨by simp, by simp, by simp, by simp, by simp⟩
  refine ⟨this.2.1, ?_⟩
  intro m hm v hv
  obtain ⟨x, hx, hi⟩ := inh_flatL.2 ⟨m, hm, hv⟩
  exact this.2.2 x hx v hi

/-! ## the stages of `_optimize_union` after the split -/

/-- `[] => .unknown | [t] => t | us => .union us` -/
def collapse0 (us : List Ty) : Ty := match us with | [] => .unknown | [t] => t | us => .union us

theorem inh_collapse0 {ov acc g} {us : List Ty} {v} (h : InhX ov acc g (.union us) v) :
    InhX ov acc g (collapse0 us) v := by
  unfold collapse0
  split
  · obtain ⟨t, ht, _⟩ := inh_union_iff.1 h; simp at ht
  · exact inh_singleton_union.1 h
  · exact h

theorem forall_collapse0 {P : Ty → Prop} (hunk : P .unknown) (hun : ∀ us, (∀ u ∈ us, P u) → P (.union us))
    {us : List Ty} (h : ∀ u ∈ us, P u) : P (collapse0 us) := by
  unfold collapse0
  split
  · exact hunk
  · exact h _ (by simp)
  · exact hun _ h

section
variable {ov : Bool} {acc : Accepts} {g : ModelLookup} {K : String → Prop}

/-- what `optimize` receives: a generator-stage type (inline objects may have `DOptional` fields: since the
    repair of `merge_field_sets` no `Ty.MergeSafe` restriction is needed) -/
abbrev OptInT (K : String → Prop) (t : Ty) : Prop := Ty.Good K t
/-- what `optimize` returns: a generator-stage type without overflowed literals -/
abbrev OptOut (K : String → Prop) (t : Ty) : Prop := Ty.Good K t ∧ Ty.NoOv t
/-- union members -/
abbrev Mem (K : String → Prop) (t : Ty) : Prop := Ty.Good K t

/-- inhabitation with the *lax* reading of required fields at the top of an inline object (`Ty.optLikeS` fields
    may be absent): what `merge_field_sets` guarantees for the object it builds inside `_optimize_union`;
    `optimize_type` of that object then restores the strict reading. -/
def InhLT (ov : Bool) (acc : Accepts) (g : ModelLookup) (t : Ty) (v : Json) : Prop :=
  match t with
  | .obj fs => ∃ kvs, v = .obj kvs ∧ InhFieldsLXS ov acc g fs kvs
  | t => InhX ov acc g t v

theorem InhX.toLT {t : Ty} {v : Json} (h : InhX ov acc g t v) : InhLT ov acc g t v := by
  cases t
  case obj fs =>
    obtain ⟨kvs, rfl, hi⟩ := inh_obj_iff'.1 h
    exact ⟨kvs, rfl, hi.toLaxS⟩
  all_goals exact h

/-- every lax inhabitant of `a` is a (strict) inhabitant of `b` -/
def CoversL (ov : Bool) (acc : Accepts) (g : ModelLookup) (a b : Ty) : Prop :=
  ∀ v, InhLT ov acc g a v → InhX ov acc g b v

theorem CoversL.covers {a b : Ty} (h : CoversL ov acc g a b) : Covers ov acc g a b :=
  fun v hv => h v hv.toLT

theorem Ty.mergeSafe_weaken {t : Ty} : Ty.MergeSafe true t → Ty.MergeSafe false t := by
  have key : ∀ n (t : Ty), t.size ≤ n → Ty.MergeSafe true t → Ty.MergeSafe false t := by
    intro n
    induction n with
    | zero => intro t ht; cases t <;> simp [Ty.size] at ht
    | succ n ih =>
      intro t ht h
      cases t <;> try (simp; done)
      case list x => simp only [Ty.mergeSafe_list] at h ⊢; exact ih x (by simp [Ty.size] at ht; omega) h
      case dict x => simp only [Ty.mergeSafe_dict] at h ⊢; exact ih x (by simp [Ty.size] at ht; omega) h
      case opt x => simp only [Ty.mergeSafe_opt] at h ⊢; exact ih x (by simp [Ty.size] at ht; omega) h
      case union ts => simpa using h
      case obj fs =>
        simp only [Ty.mergeSafe_obj] at h ⊢
        refine ⟨by simp, ?_⟩
        intro f hf
        have hsz : ∀ (fs : List (String × Ty)) (f : String × Ty), f ∈ fs → f.2.size ≤ Ty.sizeFields fs := by
          intro fs
          induction fs with
          | nil => simp
          | cons a fs ih' =>
            intro f hf
            obtain ⟨ka, ta⟩ := a
            rcases List.mem_cons.1 hf with e | hf
            · subst e; simp [Ty.sizeFields]
            · have := ih' f hf; simp [Ty.sizeFields]; omega
        have := hsz fs f hf
        exact ih f.2 (by simp [Ty.size] at ht; omega) (h.2 f hf)
  exact key t.size t (Nat.le_refl _)

theorem stage_int (other : List Ty) :
    let other1 := if (other.any Ty.isInt && other.any Ty.isFloat) = true then removeFirst Ty.isInt other else other
    (∀ o ∈ other1, o ∈ other) ∧
    ∀ v, (∃ o ∈ other, InhX ov acc g o v) → ∃ o ∈ other1, InhX ov acc g o v := by
  intro other1
  by_cases hc : (other.any Ty.isInt && other.any Ty.isFloat) = true
  · have e : other1 = removeFirst Ty.isInt other := by simp only [other1, hc, if_true]
    rw [e]
    refine ⟨fun o ho => mem_of_mem_removeFirst ho, ?_⟩
    rintro v ⟨o, ho, hi⟩
    by_cases hint : o.isInt = true
    · -- an int is a float
      simp only [Bool.and_eq_true, List.any_eq_true] at hc
      obtain ⟨f, hf, hff⟩ := hc.2
      have hfe : f = .float := by cases f <;> simp [Ty.isFloat] at hff; rfl
      subst hfe
      have hoe : o = .int := by cases o <;> simp [Ty.isInt] at hint; rfl
      subst hoe
      refine ⟨.float, mem_removeFirst_of_not hf (by simp [Ty.isInt]), ?_⟩
      cases hi; exact InhX.floatI
    · exact ⟨o, mem_removeFirst_of_not ho (by simpa using hint), hi⟩
  · have e : other1 = other := by simp only [other1, hc]; rfl
    rw [e]
    exact ⟨fun _ h => h, fun _ h => h⟩

theorem hashSound_of_mem (hs : HashSoundOn ov acc g (Ty.Good K)) {ts : List Ty}
    (h : ∀ t ∈ ts, Ty.Good K t) : HashSoundX ov acc g ts := hashSound_of_good hs h

/-- `DList(DUnion(*element types))` -/
theorem stage_list (hs : HashSoundOn ov acc g (Ty.Good K)) (c : LitCfg) {lists : List Ty}
    (hl : ∀ x ∈ lists, Mem K x) :
    OptInT K (.list (mkUnion c lists)) ∧
    ∀ x ∈ lists, ∀ v, InhX ov acc g (.list x) v → InhX ov acc g (.list (mkUnion c lists)) v := by
  have hg : ∀ x ∈ lists, Ty.Good K x := hl
  refine ⟨?_, ?_⟩
  · simp only [OptInT, mkUnion, Ty.good_list, Ty.good_union]; exact good_mkUnionMembers hg
  · intro x hx v hv
    obtain ⟨xs, rfl, hxs⟩ := inh_list_iff.1 hv
    exact InhX.list (fun y hy => mkUnion_sound' (hashSound_of_mem hs hg) hx (hxs y hy))

theorem stage_dict (hs : HashSoundOn ov acc g (Ty.Good K)) (c : LitCfg) {dicts : List Ty}
    (hl : ∀ x ∈ dicts, Mem K x) :
    OptInT K (.dict (mkUnion c dicts)) ∧
    ∀ x ∈ dicts, ∀ v, InhX ov acc g (.dict x) v → InhX ov acc g (.dict (mkUnion c dicts)) v := by
  have hg : ∀ x ∈ dicts, Ty.Good K x := hl
  refine ⟨?_, ?_⟩
  · simp only [OptInT, mkUnion, Ty.good_dict, Ty.good_union]; exact good_mkUnionMembers hg
  · intro x hx v hv
    obtain ⟨xs, rfl, hxs⟩ := inh_dict_iff.1 hv
    exact InhX.dict (fun y hy => mkUnion_sound' (hashSound_of_mem hs hg) hx (hxs y hy))

/-- the merged inline object: every object of a member lies in it, under the lax reading of required fields -/
theorem stage_merge (hs : HashSoundOn ov acc g (Ty.Good K)) {e : EqEnv}
    (he : EqSoundOn ov acc g e (Ty.Good K)) (c : LitCfg) {sets : List Fields} {m : Fields}
    (hsets : ∀ fs ∈ sets, Mem K (.obj fs)) (h : mergeFieldSets c e sets = .ok m) :
    OptInT K (.obj m) ∧ ∀ fs ∈ sets, ∀ v, InhLT ov acc g (.obj fs) v → InhLT ov acc g (.obj m) v := by
  have hsets' : ∀ fs ∈ sets, ∀ f ∈ fs, Ty.Good K f.2 := by
    intro fs hfs f hf
    have hg := hsets fs hfs
    simp only [Mem, Ty.good_obj] at hg
    exact hg.2 f hf
  obtain ⟨nd, hP, hcov⟩ := mergeFieldSets_spec_laxS mergeClosed_good hs he hsets' h
  refine ⟨Ty.good_obj.2 ⟨nd, hP⟩, ?_⟩
  rintro fs hfs v ⟨kvs, rfl, hi⟩
  exact ⟨kvs, rfl, hcov fs hfs kvs hi⟩

/-- pseudo-types: `str` if present, else the resolved kind, else `str` -/
theorem stage_str {reg : StrRegistry} (hrep : ReplacesSound acc reg) (hrank : ReplacesRanked reg)
    {strTypes other other' : List Ty}
    (hst : ∀ st ∈ strTypes, st = .str ∨ ∃ k, st = .ser k ∧ Mem K st)
    (h : (if strTypes.any Ty.isStr = true then pure (other ++ [Ty.str])
          else if strTypes.isEmpty = true then pure other
          else
            let kinds := strTypes.filterMap (fun t => match t with | .ser k => some k | _ => none)
            do
              let r ← resolve reg kinds (kinds.length + 2)
              match r with
              | [k] => pure (other ++ [Ty.ser k])
              | [] => Except.error PyErr.stopIteration
              | _ => pure (other ++ [Ty.str]) : Except PyErr (List Ty)) = .ok other') :
    (∀ o ∈ other, o ∈ other') ∧ (∀ o ∈ other', o ∈ other ∨ OptInT K o) ∧
    ∀ st ∈ strTypes, ∀ v, InhX ov acc g st v → ∃ o ∈ other', InhX ov acc g o v := by
  have hstr : ∀ st ∈ strTypes, ∀ v, InhX ov acc g st v → InhX ov acc g .str v := by
    intro st hst' v hv
    rcases hst st hst' with rfl | ⟨k, rfl, _⟩
    · exact hv
    · cases hv; exact InhX.str
  split at h
  · rw [Except.pure_eq_ok] at h; subst h
    refine ⟨fun o ho => by simp [ho], ?_, ?_⟩
    · intro o ho
      rcases List.mem_append.1 ho with h | h
      · exact Or.inl h
      · simp at h; subst h; exact Or.inr (by simp [OptInT])
    · intro st hst' v hv
      exact ⟨.str, by simp, hstr st hst' v hv⟩
  · rename_i hnostr
    split at h
    · rename_i hempty
      rw [Except.pure_eq_ok] at h; subst h
      have : strTypes = [] := by simpa using hempty
      subst this
      exact ⟨fun _ h => h, fun _ h => Or.inl h, by simp⟩
    · simp only at h
      rw [Except.bind_eq_ok] at h
      obtain ⟨r, hr, h⟩ := h
      have hkinds : ∀ st ∈ strTypes, ∃ k, st = .ser k ∧
          k ∈ strTypes.filterMap (fun t => match t with | .ser k => some k | _ => none) := by
        intro st hst'
        rcases hst st hst' with rfl | ⟨k, rfl, _⟩
        · exfalso; apply hnostr; simp only [List.any_eq_true]; exact ⟨.str, hst', rfl⟩
        · exact ⟨k, rfl, List.mem_filterMap.2 ⟨.ser k, hst', rfl⟩⟩
      have hsub : ∀ k ∈ r, Mem K (.ser k) := by
        intro k hk
        have := resolve_subsetX _ _ _ hr k hk
        obtain ⟨st, hst', hm⟩ := List.mem_filterMap.1 this
        rcases hst st hst' with rfl | ⟨k', rfl, hmem⟩
        · simp at hm
        · simp at hm; subst hm; exact hmem
      have hcovr : ∀ st ∈ strTypes, ∀ v, InhX ov acc g st v → ∃ k' ∈ r, InhX ov acc g (.ser k') v := by
        intro st hst' v hv
        obtain ⟨k, rfl, hk⟩ := hkinds st hst'
        obtain ⟨k', hk', hstar⟩ := resolve_covers hrank _ _ _ hr k hk
        cases hv with
        | ser ha => exact ⟨k', hk', InhX.ser (hstar.accepts hrep ha)⟩
      match r, h, hsub, hcovr with
      | [k], h, hsub, hcovr =>
        simp only [Except.pure_eq_ok] at h; subst h
        refine ⟨fun o ho => by simp [ho], ?_, ?_⟩
        · intro o ho
          rcases List.mem_append.1 ho with h | h
          · exact Or.inl h
          · simp at h; subst h
            exact Or.inr (hsub k (by simp))
        · intro st hst' v hv
          obtain ⟨k', hk', hi⟩ := hcovr st hst' v hv
          simp at hk'; subst hk'
          exact ⟨.ser k', by simp, hi⟩
      | [], h, _, _ => simp at h
      | _ :: _ :: _, h, _, _ =>
        simp only [Except.pure_eq_ok] at h; subst h
        refine ⟨fun o ho => by simp [ho], ?_, ?_⟩
        · intro o ho
          rcases List.mem_append.1 ho with h | h
          · exact Or.inl h
          · simp at h; subst h; exact Or.inr (by simp [OptInT])
        · intro st hst' v hv
          exact ⟨.str, by simp, hstr st hst' v hv⟩

/-- the end of `_optimize_union`: drop `Unknown`, fold `Null` into `DOptional`, rebuild the union -/
theorem stage_final (hs : HashSoundOn ov acc g (Ty.Good K)) (c : LitCfg) {types : List Ty} {t' : Ty}
    (h : (match types with
          | [] => Except.error PyErr.indexError
          | [t] => pure t
          | types =>
            let types := if types.any Ty.isUnknown = true then removeFirst Ty.isUnknown types else types
            let optional := types.any Ty.isNull
            let types := types.filter (fun t => !t.isNull)
            let mt := match mkUnionMembers c types with
              | [] => Ty.unknown
              | [t] => t
              | us => Ty.union us
            pure (if optional = true then mt.opt else mt) : Except PyErr Ty) = .ok t')
    (hty : ∀ t ∈ types, OptOut K t) :
    OptOut K t' ∧ ∀ t ∈ types, ∀ v, InhX ov acc g t v → InhX ov acc g t' v := by
  match types, hty, h with
  | [], _, h => simp at h
  | [t], hty, h =>
    simp only [Except.pure_eq_ok] at h; subst h
    exact ⟨hty t (by simp), by simp⟩
  | t1 :: t2 :: rest, hty, h =>
    simp only [Except.pure_eq_ok] at h
    generalize hL : t1 :: t2 :: rest = L at h hty
    generalize hT1 : (if L.any Ty.isUnknown = true then removeFirst Ty.isUnknown L else L) = T1 at h
    have hT1sub : ∀ t ∈ T1, t ∈ L := by
      intro t ht; rw [← hT1] at ht
      split at ht
      · exact mem_of_mem_removeFirst ht
      · exact ht
    have hT1keep : ∀ t ∈ L, t.isUnknown = false → t ∈ T1 := by
      intro t ht hu; rw [← hT1]
      split
      · exact mem_removeFirst_of_not ht hu
      · exact ht
    have hT2 : ∀ t ∈ T1.filter (fun t => !t.isNull), OptOut K t := by
      intro t ht; exact hty t (hT1sub t (List.mem_filter.1 ht).1)
    have hmt : (match mkUnionMembers c (T1.filter (fun t => !t.isNull)) with
              | [] => Ty.unknown
              | [t] => t
              | us => Ty.union us) = collapse0 (mkUnionMembers c (T1.filter (fun t => !t.isNull))) := rfl
    rw [hmt] at h
    have hgood : ∀ u ∈ mkUnionMembers c (T1.filter (fun t => !t.isNull)), OptOut K u := by
      intro u hu
      exact ⟨good_mkUnionMembers (fun t ht => (hT2 t ht).1) u hu,
        mkUnionMembers_forall (P := Ty.NoOv)
          (flattenUnion_forall (P := Ty.NoOv) (fun _ h => Ty.noOv_union.1 h) (fun t ht => (hT2 t ht).2))
          (by simp) (by simp) u hu⟩
    have hmtout : OptOut K (collapse0 (mkUnionMembers c (T1.filter (fun t => !t.isNull)))) :=
      ⟨forall_collapse0 (P := Ty.Good K) (by simp) (fun _ h => Ty.good_union.2 h) (fun u hu => (hgood u hu).1),
       forall_collapse0 (P := Ty.NoOv) (by simp) (fun _ h => Ty.noOv_union.2 h) (fun u hu => (hgood u hu).2)⟩
    have hcov : ∀ t ∈ L, ∀ v, InhX ov acc g t v → t.isNull = false →
        InhX ov acc g (collapse0 (mkUnionMembers c (T1.filter (fun t => !t.isNull)))) v := by
      intro t ht v hv hn
      have hu : t.isUnknown = false := by
        cases t <;> simp [Ty.isUnknown]
        exact not_inh_unknown hv
      have hmem : t ∈ T1.filter (fun t => !t.isNull) := List.mem_filter.2 ⟨hT1keep t ht hu, by simp [hn]⟩
      exact inh_collapse0 (mkUnion_sound' (hashSound_of_mem hs (fun t ht => (hT2 t ht).1)) hmem hv)
    subst h
    refine ⟨?_, ?_⟩
    · split
      · exact ⟨by simpa using hmtout.1, by simpa using hmtout.2⟩
      · exact hmtout
    · intro t ht v hv
      by_cases hn : t.isNull = true
      · have hte : t = .null := by cases t <;> simp [Ty.isNull] at hn; rfl
        subst hte
        have hu : Ty.null.isUnknown = false := rfl
        have hopt : T1.any Ty.isNull = true := by
          simp only [List.any_eq_true]; exact ⟨.null, hT1keep _ ht hu, rfl⟩
        rw [hopt]; simp only [if_true]
        cases hv; exact InhX.optNull
      · have := hcov t ht v hv (by simpa using hn)
        split
        · exact InhX.optSome this
        · exact this

end

/-! ## a `DOptional` member makes `_optimize_union` return a `DOptional` -/

/-- the split has seen a `DOptional` member: `Null` is among `other`, and there is a second entry -/
def SBig (s : Split) : Prop :=
  Ty.null ∈ s.other ∧
  (2 ≤ s.other.length ∨ s.toMerge ≠ [] ∨ s.lists ≠ [] ∨ s.dicts ≠ [] ∨ s.strTypes ≠ [])

theorem classify_big (reg : StrRegistry) (x : Ty) (s : Split) (h : SBig s) : SBig (classify reg x s) := by
  obtain ⟨h1, h2⟩ := h
  cases x <;> simp only [classify] <;> (try split) <;>
    (refine ⟨by simp [h1], ?_⟩; rcases h2 with h | h | h | h | h <;> simp [h] <;> omega)

theorem classify_big_of_null (reg : StrRegistry) (x : Ty) (s : Split) (h : Ty.null ∈ s.other) :
    SBig (classify reg x s) := by
  have hl : 1 ≤ s.other.length := List.length_pos_of_mem h
  cases x <;> simp only [classify] <;> (try split) <;>
    (refine ⟨by simp [h], ?_⟩; simp <;> omega)

theorem splitStep_big (reg : StrRegistry) (s : Split) (m : Ty) (h : SBig s) : SBig (splitStepX reg s m) := by
  cases m
  case opt x =>
    simp only [splitStepX]
    apply classify_big
    obtain ⟨h1, h2⟩ := h
    refine ⟨by simp [h1], ?_⟩
    rcases h2 with h | h | h | h | h <;> simp [h] <;> omega
  all_goals exact classify_big reg _ s h

theorem splitStep_big_of_opt (reg : StrRegistry) (s : Split) (m : Ty) (h : m.isOpt = true) :
    SBig (splitStepX reg s m) := by
  cases m <;> simp [Ty.isOpt] at h
  simp only [splitStepX]
  exact classify_big_of_null reg _ _ (by simp)

theorem splitFold_big (reg : StrRegistry) : ∀ (ms : List Ty) (s : Split),
    (SBig s ∨ ∃ m ∈ ms, m.isOpt = true) → SBig (ms.foldl (splitStepX reg) s) := by
  intro ms
  induction ms with
  | nil => intro s h; rcases h with h | ⟨m, hm, _⟩
           · exact h
           · cases hm
  | cons m ms ih =>
    intro s h
    rw [List.foldl_cons]
    apply ih
    rcases h with h | ⟨m', hm', ho⟩
    · exact Or.inl (splitStep_big reg s m h)
    · rcases List.mem_cons.1 hm' with e | hm'
      · subst e; exact Or.inl (splitStep_big_of_opt reg s m' ho)
      · exact Or.inr ⟨m', hm', ho⟩

/-- number of entries of the split -/
def Split.cnt (s : Split) : Nat :=
  s.other.length + s.toMerge.length + s.lists.length + s.dicts.length + s.strTypes.length

theorem classify_cnt (reg : StrRegistry) (x : Ty) (s : Split) : (classify reg x s).cnt = s.cnt + 1 := by
  cases x <;> simp only [classify, Split.cnt] <;> (try split) <;> simp <;> omega

theorem splitStepX_cnt (reg : StrRegistry) (s : Split) (m : Ty) : s.cnt + 1 ≤ (splitStepX reg s m).cnt := by
  cases m
  case opt x =>
    simp only [splitStepX]
    rw [classify_cnt]
    simp [Split.cnt]
  all_goals (simp only [splitStepX]; rw [classify_cnt]; omega)

theorem splitFold_cnt (reg : StrRegistry) : ∀ (ms : List Ty) (s : Split),
    s.cnt + ms.length ≤ (ms.foldl (splitStepX reg) s).cnt
  | [], s => by simp
  | m :: ms, s => by
    have h1 := splitStepX_cnt reg s m
    have h2 := splitFold_cnt reg ms (splitStepX reg s m)
    simp only [List.foldl_cons, List.length_cons]; omega

theorem sBig_of_cnt {s : Split} (h1 : Ty.null ∈ s.other) (h2 : 2 ≤ s.cnt) : SBig s := by
  refine ⟨h1, ?_⟩
  have e : ∀ {α : Type} (l : List α), l ≠ [] ∨ l.length = 0 := by intro α l; cases l <;> simp
  rcases e s.toMerge with h | ha
  · exact Or.inr (Or.inl h)
  rcases e s.lists with h | hb
  · exact Or.inr (Or.inr (Or.inl h))
  rcases e s.dicts with h | hc
  · exact Or.inr (Or.inr (Or.inr (Or.inl h)))
  rcases e s.strTypes with h | hd
  · exact Or.inr (Or.inr (Or.inr (Or.inr h)))
  exact Or.inl (by unfold Split.cnt at h2; omega)

/-- a member that is not itself a `DUnion` leaves at least one entry in the flattened member list -/
theorem flatT_length_pos {m : Ty} (h : m.isUnion = false) : 1 ≤ (SplitW.flatT m).length := by
  by_cases hh : SplitW.hidden m = true
  · cases m with
    | union ms => simp [Ty.isUnion] at h
    | opt y => cases y <;> first | (simp [SplitW.hidden] at hh; done) | simp
    | _ => simp [SplitW.hidden] at hh
  · simp [SplitW.flatT_plain (by simpa using hh : SplitW.hidden m = false)]

theorem flatL_length_ge : ∀ {ms : List Ty}, (∀ m ∈ ms, m.isUnion = false) → ms.length ≤ (SplitW.flatL ms).length
  | [], _ => by simp
  | m :: ms, h => by
    have h1 := flatT_length_pos (h m (by simp))
    have h2 := flatL_length_ge (ms := ms) (fun x hx => h x (by simp [hx]))
    simp only [SplitW.flatL_cons, List.length_append, List.length_cons]; omega

/-- a `DOptional` member, a second member, and no `DUnion` member (what `Ty.optLikeS` asks of a `DUnion`): `Null`
    is among `other` and there is a second entry.
    (Without the side conditions the second entry can be missing: `Union[Optional[Union[]]]` is split to
    `other = [Null]` alone, and so is `Union[Optional[Union[]], Union[]]`.) -/
theorem splitMembers_big (reg : StrRegistry) (ms : List Ty) (h : ∃ m ∈ ms, m.isOpt = true)
    (hlen : 2 ≤ ms.length) (hflat : ∀ m ∈ ms, m.isUnion = false) :
    SBig (splitMembers reg ms) := by
  refine sBig_of_cnt (SplitW.other_null_of_opt h) ?_
  rw [splitMembers_eqX]
  have h1 := splitFold_cnt reg (SplitW.flatL ms) {}
  have h2 := flatL_length_ge hflat
  omega

theorem mapM_ok_length {ε α β} {f : α → Except ε β} :
    ∀ (l : List α) (l' : List β), l.mapM f = .ok l' → l'.length = l.length := by
  intro l
  induction l with
  | nil => intro l' h; simp [pure, Except.pure] at h; subst h; rfl
  | cons a l ih =>
    intro l' h
    rw [List.mapM_cons, Except.bind_eq_ok] at h
    obtain ⟨b, _, h⟩ := h
    rw [Except.bind_eq_ok] at h
    obtain ⟨bs, hbs, h⟩ := h
    rw [Except.pure_eq_ok] at h; subst h
    simp [ih bs hbs]

theorem two_le_length_of_ne {α} {l : List α} {a b : α} (ha : a ∈ l) (hb : b ∈ l) (hne : a ≠ b) :
    2 ≤ l.length := by
  match l, ha, hb with
  | [x], ha, hb => simp at ha hb; exact absurd (ha.trans hb.symm) hne
  | _ :: _ :: _, _, _ => simp

theorem stage_str_len {reg : StrRegistry} {strTypes other other' : List Ty}
    (h : (if strTypes.any Ty.isStr = true then pure (other ++ [Ty.str])
          else if strTypes.isEmpty = true then pure other
          else
            let kinds := strTypes.filterMap (fun t => match t with | .ser k => some k | _ => none)
            do
              let r ← resolve reg kinds (kinds.length + 2)
              match r with
              | [k] => pure (other ++ [Ty.ser k])
              | [] => Except.error PyErr.stopIteration
              | _ => pure (other ++ [Ty.str]) : Except PyErr (List Ty)) = .ok other') :
    (∀ o ∈ other, o ∈ other') ∧ other.length ≤ other'.length ∧
    (strTypes ≠ [] → other.length < other'.length) := by
  split at h
  · rw [Except.pure_eq_ok] at h; subst h
    exact ⟨fun o ho => by simp [ho], by simp, fun _ => by simp⟩
  · split at h
    · rename_i hempty
      rw [Except.pure_eq_ok] at h; subst h
      have : strTypes = [] := by simpa using hempty
      exact ⟨fun _ h => h, Nat.le_refl _, fun hne => absurd this hne⟩
    · simp only at h
      rw [Except.bind_eq_ok] at h
      obtain ⟨r, _, h⟩ := h
      match r, h with
      | [k], h =>
        simp only [Except.pure_eq_ok] at h; subst h
        exact ⟨fun o ho => by simp [ho], by simp, fun _ => by simp⟩
      | [], h => simp at h
      | _ :: _ :: _, h =>
        simp only [Except.pure_eq_ok] at h; subst h
        exact ⟨fun o ho => by simp [ho], by simp, fun _ => by simp⟩

theorem optimize_null {cfg : GenCfg} {e : EqEnv} {fuel : Nat} {t : Ty}
    (h : optimize cfg e fuel .null = .ok t) : t = .null := by
  cases fuel with
  | zero => simp [optimize] at h
  | succ n => simp only [optimize, Except.pure_eq_ok] at h; exact h.symm

/-- `_optimize_union` returns a `DOptional` whenever the split has `Null` and a second entry -/
theorem optimizeUnion_isOpt_of_big {cfg : GenCfg} {e : EqEnv} {fuel : Nat} {ms : List Ty} {t' : Ty}
    (hbig : SBig (splitMembers cfg.reg ms))
    (h : optimizeUnion cfg e fuel ms = .ok t') : t'.isOpt = true := by
  cases fuel with
  | zero => simp [optimizeUnion] at h
  | succ fuel =>
  rw [optimizeUnion.eq_2] at h
  generalize splitMembers cfg.reg ms = s at h hbig
  obtain ⟨hnull, hdisj⟩ := hbig
  rw [Except.bind_eq_ok] at h
  obtain ⟨other2, ho2, h⟩ := h
  simp only at h
  rw [Except.bind_eq_ok] at h
  obtain ⟨other5, ho5, h⟩ := h
  rw [Except.bind_eq_ok] at h
  obtain ⟨types, hty, h⟩ := h
  -- stage 1: int absorbed by float
  have h1 : Ty.null ∈ (if (s.other.any Ty.isInt && s.other.any Ty.isFloat) = true
        then removeFirst Ty.isInt s.other else s.other) ∧
      (2 ≤ (if (s.other.any Ty.isInt && s.other.any Ty.isFloat) = true
        then removeFirst Ty.isInt s.other else s.other).length ∨
        s.toMerge ≠ [] ∨ s.lists ≠ [] ∨ s.dicts ≠ [] ∨ s.strTypes ≠ []) := by
    split
    · rename_i hc
      have hn : Ty.null ∈ removeFirst Ty.isInt s.other := mem_removeFirst_of_not hnull rfl
      refine ⟨hn, ?_⟩
      simp only [Bool.and_eq_true, List.any_eq_true] at hc
      obtain ⟨f, hf, hff⟩ := hc.2
      have hfe : f = .float := by cases f <;> simp [Ty.isFloat] at hff; rfl
      subst hfe
      exact Or.inl (two_le_length_of_ne hn (mem_removeFirst_of_not hf rfl) (by simp))
    · exact ⟨hnull, hdisj⟩
  generalize (if (s.other.any Ty.isInt && s.other.any Ty.isFloat) = true
        then removeFirst Ty.isInt s.other else s.other) = other1 at h1 ho2
  -- stage 2: merged inline objects
  have h2 : Ty.null ∈ other2 ∧ (2 ≤ other2.length ∨ s.lists ≠ [] ∨ s.dicts ≠ [] ∨ s.strTypes ≠ []) := by
    split at ho2
    · rename_i hempty
      rw [Except.pure_eq_ok] at ho2; subst ho2
      have : s.toMerge = [] := by simpa using hempty
      refine ⟨h1.1, ?_⟩
      rcases h1.2 with h | h | h
      · exact Or.inl h
      · exact absurd this h
      · exact Or.inr h
    · rw [Except.bind_eq_ok] at ho2
      obtain ⟨m, _, ho2⟩ := ho2
      rw [Except.pure_eq_ok] at ho2; subst ho2
      have := List.length_pos_of_mem h1.1
      exact ⟨by simp [h1.1], Or.inl (by simp; omega)⟩
  -- stage 3: lists
  have h3 : Ty.null ∈ (if s.lists.isEmpty = true then other2 else other2 ++ [(mkUnion cfg.lit s.lists).list]) ∧
      (2 ≤ (if s.lists.isEmpty = true then other2 else other2 ++ [(mkUnion cfg.lit s.lists).list]).length ∨
        s.dicts ≠ [] ∨ s.strTypes ≠ []) := by
    split
    · rename_i hempty
      have : s.lists = [] := by simpa using hempty
      refine ⟨h2.1, ?_⟩
      rcases h2.2 with h | h | h
      · exact Or.inl h
      · exact absurd this h
      · exact Or.inr h
    · have := List.length_pos_of_mem h2.1
      exact ⟨by simp [h2.1], Or.inl (by simp; omega)⟩
  generalize (if s.lists.isEmpty = true then other2 else other2 ++ [(mkUnion cfg.lit s.lists).list]) = other3
    at h3 ho5
  -- stage 4: dicts
  have h4 : Ty.null ∈ (if s.dicts.isEmpty = true then other3 else other3 ++ [(mkUnion cfg.lit s.dicts).dict]) ∧
      (2 ≤ (if s.dicts.isEmpty = true then other3 else other3 ++ [(mkUnion cfg.lit s.dicts).dict]).length ∨
        s.strTypes ≠ []) := by
    split
    · rename_i hempty
      have : s.dicts = [] := by simpa using hempty
      refine ⟨h3.1, ?_⟩
      rcases h3.2 with h | h | h
      · exact Or.inl h
      · exact absurd this h
      · exact Or.inr h
    · have := List.length_pos_of_mem h3.1
      exact ⟨by simp [h3.1], Or.inl (by simp; omega)⟩
  generalize (if s.dicts.isEmpty = true then other3 else other3 ++ [(mkUnion cfg.lit s.dicts).dict]) = other4
    at h4 ho5
  -- stage 5: pseudo-types
  obtain ⟨h5sub, h5le, h5lt⟩ := stage_str_len ho5
  have h5 : Ty.null ∈ other5 ∧ 2 ≤ other5.length := by
    refine ⟨h5sub _ h4.1, ?_⟩
    rcases h4.2 with h | h
    · omega
    · have := h5lt h
      have := List.length_pos_of_mem h4.1
      omega
  -- stage 6: the members are optimised
  have h6 : Ty.null ∈ types ∧ 2 ≤ types.length := by
    obtain ⟨hm1, _⟩ := mapM_ok_memX other5 types hty
    obtain ⟨t, ht, hf⟩ := hm1 _ h5.1
    rw [optimize_null hf] at ht
    exact ⟨ht, by rw [mapM_ok_length other5 types hty]; exact h5.2⟩
  -- stage 7
  match types, h6, h with
  | [], h6, _ => simp at h6
  | [_], h6, _ => simp at h6
  | t1 :: t2 :: rest, h6, h =>
    simp only [Except.pure_eq_ok] at h
    generalize hL : t1 :: t2 :: rest = L at h h6
    have hT1 : Ty.null ∈ (if L.any Ty.isUnknown = true then removeFirst Ty.isUnknown L else L) := by
      split
      · exact mem_removeFirst_of_not h6.1 rfl
      · exact h6.1
    have hany : (if L.any Ty.isUnknown = true then removeFirst Ty.isUnknown L else L).any Ty.isNull = true := by
      exact List.any_eq_true.2 ⟨.null, hT1, rfl⟩
    rw [hany] at h
    simp only [if_true] at h
    rw [← h]; rfl

/-- `_optimize_union` on a member list with a `DOptional` member, a second member and no `DUnion` member returns a
    `DOptional` (the member's `Null` is moved outwards; there is a second entry next to it).
    Without the two side conditions this is false: `optimizeUnion_isOpt_witness`. -/
theorem optimizeUnion_isOpt {cfg : GenCfg} {e : EqEnv} {fuel : Nat} {ms : List Ty} {t' : Ty}
    (hopt : ∃ m ∈ ms, m.isOpt = true) (hlen : 2 ≤ ms.length) (hflat : ∀ m ∈ ms, m.isUnion = false)
    (h : optimizeUnion cfg e fuel ms = .ok t') : t'.isOpt = true :=
  optimizeUnion_isOpt_of_big (splitMembers_big cfg.reg ms hopt hlen hflat) h

/-- the side conditions of `optimizeUnion_isOpt` are needed: `Union[Optional[Union[]]]` has a `DOptional` member
    and is optimised to `Null` (the spliced empty union leaves `Null` as the only entry, which is returned as is) -/
theorem optimizeUnion_isOpt_witness (cfg : GenCfg) (e : EqEnv) :
    optimize cfg e 3 (.union [.opt (.union [])]) = .ok .null ∧
    optimize cfg e 3 (.union [.opt (.union []), .union []]) = .ok .null := by
  constructor <;>
  simp [optimize, optimizeUnion, splitMembers, splitMembersAux, Ty.size, Ty.sizeList, Ty.isInt, Ty.isFloat,
    bind, Except.bind, pure, Except.pure]

/-! ## the main induction on fuel -/

section
variable (cfg : GenCfg) (e : EqEnv) (ov : Bool) (acc : Accepts) (g : ModelLookup) (K : String → Prop)

/-- `optimize_type`: the result is a generator-stage type without overflowed literal; an optional-like type
    becomes a `DOptional`; every (lax-at-the-top) inhabitant is kept, strictly -/
def OptSpec (fuel : Nat) : Prop :=
  ∀ t t', OptInT K t → optimize cfg e fuel t = .ok t' →
    OptOut K t' ∧ (t.optLikeS = true → t'.isOpt = true) ∧ CoversL ov acc g t t'

def OptUSpec (fuel : Nat) : Prop :=
  ∀ ms t', (∀ m ∈ ms, Mem K m) → optimizeUnion cfg e fuel ms = .ok t' →
    OptOut K t' ∧ Covers ov acc g (.union ms) t'

variable {cfg e ov acc g K}

theorem optimizeUnion_step (hs : HashSoundOn ov acc g (Ty.Good K)) (he : EqSoundOn ov acc g e (Ty.Good K))
    (hrep : ReplacesSound acc cfg.reg) (hrank : ReplacesRanked cfg.reg)
    (fuel : Nat) (ih : OptSpec cfg e ov acc g K fuel) : OptUSpec cfg e ov acc g K (fuel + 1) := by
  intro ms t' hms h
  rw [optimizeUnion.eq_2] at h
  obtain ⟨hprov, hcov⟩ := splitMembers_spec (ov := ov) (acc := acc) (g := g) (Q := Mem K)
    (by simp [Mem]) (fun x h => by simpa [Mem] using h) (fun us h => Ty.good_union.1 h) cfg.reg ms hms
  generalize splitMembers cfg.reg ms = s at h hprov hcov
  obtain ⟨p1, p2, p3, p4, p5⟩ := hprov
  rw [Except.bind_eq_ok] at h
  obtain ⟨other2, ho2, h⟩ := h
  simp only at h
  rw [Except.bind_eq_ok] at h
  obtain ⟨other5, ho5, h⟩ := h
  rw [Except.bind_eq_ok] at h
  obtain ⟨types, hty, h⟩ := h
  -- stage 1/2: int absorbed by float, inline objects merged
  obtain ⟨hi1, hi2⟩ := stage_int (ov := ov) (acc := acc) (g := g) s.other
  have h2 : (∀ o ∈ other2, OptInT K o) ∧
      (∀ v, (∃ o ∈ s.other, InhX ov acc g o v) → ∃ o ∈ other2, InhLT ov acc g o v) ∧
      (∀ v, (∃ fs ∈ s.toMerge, InhX ov acc g (.obj fs) v) → ∃ o ∈ other2, InhLT ov acc g o v) := by
    have hin1 : ∀ o ∈ (if (s.other.any Ty.isInt && s.other.any Ty.isFloat) = true
        then removeFirst Ty.isInt s.other else s.other), OptInT K o := by
      intro o ho
      exact p1 o (hi1 o ho)
    split at ho2
    · rename_i hempty
      rw [Except.pure_eq_ok] at ho2; subst ho2
      refine ⟨hin1, ?_, ?_⟩
      · intro v hv
        obtain ⟨o, ho, hi⟩ := hi2 v hv
        exact ⟨o, ho, hi.toLT⟩
      · rintro v ⟨fs, hfs, _⟩
        have : s.toMerge = [] := by simpa using hempty
        rw [this] at hfs; simp at hfs
    · rw [Except.bind_eq_ok] at ho2
      obtain ⟨m, hm, ho2⟩ := ho2
      rw [Except.pure_eq_ok] at ho2; subst ho2
      obtain ⟨hmin, hmcov⟩ := stage_merge (ov := ov) (acc := acc) (g := g) hs he cfg.lit p2 hm
      refine ⟨?_, ?_, ?_⟩
      · intro o ho
        rcases List.mem_append.1 ho with h | h
        · exact hin1 o h
        · simp at h; subst h; exact hmin
      · intro v hv
        obtain ⟨o, ho, hi⟩ := hi2 v hv
        exact ⟨o, List.mem_append_left _ ho, hi.toLT⟩
      · rintro v ⟨fs, hfs, hv⟩
        exact ⟨.obj m, by simp, hmcov fs hfs v hv.toLT⟩
  obtain ⟨h2in, h2cov, h2mer⟩ := h2
  -- stage 3: lists
  have h3 : (∀ o ∈ (if s.lists.isEmpty = true then other2 else other2 ++ [(mkUnion cfg.lit s.lists).list]),
        OptInT K o) ∧
      (∀ o ∈ other2, o ∈ (if s.lists.isEmpty = true then other2
        else other2 ++ [(mkUnion cfg.lit s.lists).list])) ∧
      (∀ v, (∃ x ∈ s.lists, InhX ov acc g (.list x) v) →
        ∃ o ∈ (if s.lists.isEmpty = true then other2 else other2 ++ [(mkUnion cfg.lit s.lists).list]),
          InhX ov acc g o v) := by
    obtain ⟨hlin, hlcov⟩ := stage_list hs cfg.lit (lists := s.lists) (fun x hx => by simpa [Mem] using p3 x hx)
    split
    · rename_i hempty
      have : s.lists = [] := by simpa using hempty
      refine ⟨h2in, fun _ h => h, ?_⟩
      rintro v ⟨x, hx, _⟩; rw [this] at hx; simp at hx
    · refine ⟨?_, fun o ho => List.mem_append_left _ ho, ?_⟩
      · intro o ho
        rcases List.mem_append.1 ho with h | h
        · exact h2in o h
        · simp at h; subst h; exact hlin
      · rintro v ⟨x, hx, hv⟩
        exact ⟨_, by simp, hlcov x hx v hv⟩
  generalize (if s.lists.isEmpty = true then other2 else other2 ++ [(mkUnion cfg.lit s.lists).list]) = other3
    at h3 ho5
  obtain ⟨h3in, h3sub, h3cov⟩ := h3
  -- stage 4: dicts
  have h4 : (∀ o ∈ (if s.dicts.isEmpty = true then other3 else other3 ++ [(mkUnion cfg.lit s.dicts).dict]),
        OptInT K o) ∧
      (∀ o ∈ other3, o ∈ (if s.dicts.isEmpty = true then other3
        else other3 ++ [(mkUnion cfg.lit s.dicts).dict])) ∧
      (∀ v, (∃ x ∈ s.dicts, InhX ov acc g (.dict x) v) →
        ∃ o ∈ (if s.dicts.isEmpty = true then other3 else other3 ++ [(mkUnion cfg.lit s.dicts).dict]),
          InhX ov acc g o v) := by
    obtain ⟨hlin, hlcov⟩ := stage_dict hs cfg.lit (dicts := s.dicts) (fun x hx => by simpa [Mem] using p4 x hx)
    split
    · rename_i hempty
      have : s.dicts = [] := by simpa using hempty
      refine ⟨h3in, fun _ h => h, ?_⟩
      rintro v ⟨x, hx, _⟩; rw [this] at hx; simp at hx
    · refine ⟨?_, fun o ho => List.mem_append_left _ ho, ?_⟩
      · intro o ho
        rcases List.mem_append.1 ho with h | h
        · exact h3in o h
        · simp at h; subst h; exact hlin
      · rintro v ⟨x, hx, hv⟩
        exact ⟨_, by simp, hlcov x hx v hv⟩
  generalize (if s.dicts.isEmpty = true then other3 else other3 ++ [(mkUnion cfg.lit s.dicts).dict]) = other4
    at h4 ho5
  obtain ⟨h4in, h4sub, h4cov⟩ := h4
  -- stage 5: pseudo-types
  obtain ⟨h5sub, h5in, h5cov⟩ := stage_str (ov := ov) (g := g) (K := K) hrep hrank p5 ho5
  have h5in' : ∀ o ∈ other5, OptInT K o := by
    intro o ho
    rcases h5in o ho with h | h
    · exact h4in o h
    · exact h
  have hcov5 : ∀ v, SCov ov acc g s v → ∃ o ∈ other5, InhLT ov acc g o v := by
    intro v hv
    have lift2 : (∃ o ∈ other2, InhLT ov acc g o v) → ∃ o ∈ other5, InhLT ov acc g o v := by
      rintro ⟨o, ho, hi⟩; exact ⟨o, h5sub o (h4sub o (h3sub o ho)), hi⟩
    have lift3 : (∃ o ∈ other3, InhX ov acc g o v) → ∃ o ∈ other5, InhLT ov acc g o v := by
      rintro ⟨o, ho, hi⟩; exact ⟨o, h5sub o (h4sub o ho), hi.toLT⟩
    have lift4 : (∃ o ∈ other4, InhX ov acc g o v) → ∃ o ∈ other5, InhLT ov acc g o v := by
      rintro ⟨o, ho, hi⟩; exact ⟨o, h5sub o ho, hi.toLT⟩
    rcases hv with h | h | h | h | h
    · exact lift2 (h2cov v h)
    · exact lift2 (h2mer v h)
    · exact lift3 (h3cov v h)
    · exact lift4 (h4cov v h)
    · obtain ⟨st, hst, hi⟩ := h
      obtain ⟨o, ho, hio⟩ := h5cov st hst v hi
      exact ⟨o, ho, hio.toLT⟩
  -- stage 6: members optimised recursively
  obtain ⟨hm1, hm2⟩ := mapM_ok_memX other5 types hty
  have htypes : ∀ t ∈ types, OptOut K t := by
    intro t ht
    obtain ⟨o, ho, hf⟩ := hm2 t ht
    exact (ih o t (h5in' o ho) hf).1
  have hcov6 : ∀ v, SCov ov acc g s v → ∃ t ∈ types, InhX ov acc g t v := by
    intro v hv
    obtain ⟨o, ho, hi⟩ := hcov5 v hv
    obtain ⟨t, ht, hf⟩ := hm1 o ho
    exact ⟨t, ht, (ih o t (h5in' o ho) hf).2.2 v hi⟩
  -- stage 7
  obtain ⟨hout, hfin⟩ := stage_final hs cfg.lit h htypes
  refine ⟨hout, ?_⟩
  intro v hv
  obtain ⟨m, hm, hi⟩ := inh_union_iff.1 hv
  obtain ⟨t, ht, hi'⟩ := hcov6 v (hcov m hm v hi)
  exact hfin t ht v hi'

theorem optimize_step (fuel : Nat) (ih : OptSpec cfg e ov acc g K fuel) (ihU : OptUSpec cfg e ov acc g K fuel) :
    OptSpec cfg e ov acc g K (fuel + 1) := by
  intro t t' hin h
  have hg : Ty.Good K t := hin
  have hnl : ∀ {x : Ty}, x.isUnion = false → x.isOpt = false → x.optLikeS = true → t'.isOpt = true := by
    intro x hu ho hl
    rw [Ty.optLikeS_eq_isOpt hu, ho] at hl; cases hl
  cases t
  case obj fs =>
    rw [optimize.eq_2, Except.bind_eq_ok] at h
    obtain ⟨fs', hfs', h⟩ := h
    rw [Except.pure_eq_ok] at h; subst h
    obtain ⟨hkeys, hfw, hbw⟩ := mapM_fields_ok fs fs' hfs'
    simp only [Ty.good_obj] at hg
    have nd' : (fs'.map (·.1)).Nodup := by rw [hkeys]; exact hg.1
    have hfield : ∀ k t, Fields.get? fs k = some t → OptInT K t :=
      fun k t hk => hg.2 _ (Fields.mem_of_get? hk)
    have hout : ∀ f ∈ fs', OptOut K f.2 := by
      intro f hf
      obtain ⟨t, ht, hopt⟩ := hbw f.1 f.2 (Fields.get?_of_mem nd' hf)
      exact (ih t f.2 (hfield _ _ ht) hopt).1
    refine ⟨⟨Ty.good_obj.2 ⟨nd', fun f hf => (hout f hf).1⟩, Ty.noOv_obj.2 (fun f hf => (hout f hf).2)⟩,
      hnl rfl rfl, ?_⟩
    rintro v ⟨kvs, rfl, hi⟩
    refine inh_obj_iff'.2 ⟨kvs, rfl, InhF.toInhFields nd' ⟨?_, ?_⟩⟩
    · intro kv hkv
      obtain ⟨t, ht, hti⟩ := hi.toInhFLS.1 kv hkv
      obtain ⟨t2, ht2, hopt⟩ := hfw _ _ ht
      exact ⟨t2, ht2, (ih t t2 (hfield _ _ ht) hopt).2.2 _ hti.toLT⟩
    · intro k t2 hk hno
      obtain ⟨t, ht, hopt⟩ := hbw k t2 hk
      have := (ih t t2 (hfield _ _ ht) hopt).2.1
      have hno' : t.optLikeS = false := by
        cases ho : t.optLikeS with
        | false => rfl
        | true => rw [this ho] at hno; simp at hno
      exact hi.toInhFLS.2 k t ht hno'
  case union ts =>
    rw [optimize.eq_3] at h
    obtain ⟨hout, hcov⟩ := ihU ts t' (fun m hm' => Ty.good_union.1 hg m hm') h
    exact ⟨hout, fun hl => optimizeUnion_isOpt (Ty.optLikeS_union.1 hl).1 (Ty.optLikeS_union.1 hl).2.1
      (Ty.optLikeS_union.1 hl).2.2 h, fun v hv => hcov v hv⟩
  case opt x =>
    rw [optimize.eq_4, Except.bind_eq_ok] at h
    obtain ⟨y, hy, h⟩ := h
    obtain ⟨hout, _, hcov⟩ := ih x y (by simpa [OptInT] using hg) hy
    have key : ∀ r, (match y with | .opt z => (pure (Ty.opt z) : Except PyErr Ty) | z => pure (Ty.opt z)) = .ok r →
        OptOut K r ∧ r.isOpt = true ∧ ∀ v, InhX ov acc g y v → InhX ov acc g r v := by
      intro r hr
      cases y <;> simp only [Except.pure_eq_ok] at hr <;> subst hr
      case opt z =>
        exact ⟨hout, rfl, fun v h => h⟩
      all_goals exact ⟨⟨by simp [hout.1], by simp [hout.2]⟩, rfl, fun v h => InhX.optSome h⟩
    obtain ⟨ho, hopt, hc⟩ := key t' h
    refine ⟨ho, fun _ => hopt, ?_⟩
    intro v hv
    rcases inh_opt_iff.1 hv with rfl | hv
    · cases t' <;> simp [Ty.isOpt] at hopt
      exact InhX.optNull
    · exact hc v (hcov v hv.toLT)
  case list x =>
    simp only [optimize] at h
    rw [Except.bind_eq_ok] at h
    obtain ⟨y, hy, h⟩ := h
    rw [Except.pure_eq_ok] at h; subst h
    obtain ⟨hout, _, hcov⟩ := ih x y (by simpa [OptInT] using hg) hy
    refine ⟨⟨by simpa using hout.1, by simpa using hout.2⟩, hnl rfl rfl, ?_⟩
    intro v hv
    obtain ⟨xs, rfl, hxs⟩ := inh_list_iff.1 hv
    exact InhX.list (fun z hz => hcov z (hxs z hz).toLT)
  case dict x =>
    simp only [optimize] at h
    rw [Except.bind_eq_ok] at h
    obtain ⟨y, hy, h⟩ := h
    rw [Except.pure_eq_ok] at h; subst h
    obtain ⟨hout, _, hcov⟩ := ih x y (by simpa [OptInT] using hg) hy
    refine ⟨⟨by simpa using hout.1, by simpa using hout.2⟩, hnl rfl rfl, ?_⟩
    intro v hv
    obtain ⟨xs, rfl, hxs⟩ := inh_dict_iff.1 hv
    exact InhX.dict (fun z hz => hcov z.2 (hxs z hz).toLT)
  case tuple ts => simp at hg
  case ptr i => simp at hg
  case lit o vs =>
    rw [optimize.eq_8] at h
    split at h
    · rw [Except.pure_eq_ok] at h; subst h
      refine ⟨⟨by simp, by simp⟩, hnl rfl rfl, ?_⟩
      intro v hv
      cases hv <;> exact InhX.str
    · rename_i hc
      rw [Except.pure_eq_ok] at h; subst h
      have : o = false := by
        cases o <;> simp at hc ⊢
      subst this
      exact ⟨⟨hg, by simp⟩, hnl rfl rfl, fun v h => h⟩
  all_goals
    simp only [optimize, Except.pure_eq_ok] at h
    subst h
    exact ⟨⟨hg, by simp⟩, hnl rfl rfl, fun v h => h⟩

theorem optimize_spec_all (hs : HashSoundOn ov acc g (Ty.Good K)) (he : EqSoundOn ov acc g e (Ty.Good K))
    (hrep : ReplacesSound acc cfg.reg) (hrank : ReplacesRanked cfg.reg) :
    ∀ fuel, OptSpec cfg e ov acc g K fuel ∧ OptUSpec cfg e ov acc g K fuel := by
  intro fuel
  induction fuel with
  | zero =>
    exact ⟨fun t t' _ h => by simp [optimize] at h, fun ms t' _ h => by simp [optimizeUnion] at h⟩
  | succ fuel ih =>
    exact ⟨optimize_step fuel ih.1 ih.2, optimizeUnion_step hs he hrep hrank fuel ih.1⟩

end

end J2M
