/-
  The layout step does not read the class names: `compose_models[_flat]` of the registry left behind by a rendering
  is the layout of the original registry.
-/
import J2M.Proofs.Render2Twice
import J2M.Proofs.LayoutRoot
namespace J2M.Rend2
open J2M.LayoutP

theorem flatStep_idx (g : Graph) (st : FlatState) {m m' : Model} (h : m'.idx = m.idx) :
    flatStep g st m' = flatStep g st m := by
  unfold flatStep; simp only [h]

theorem nestStep_idx (g : Graph) (s : NestState) {m m' : Model} (h : m'.idx = m.idx) :
    nestStep g s m' = nestStep g s m := by
  unfold nestStep; simp only [h]

theorem foldlM_map_idx {σ : Type} (step : σ → Model → Except PyErr σ) (f : Model → Model)
    (h : ∀ st m, step st (f m) = step st m) : ∀ (ms : List Model) (st : σ),
    (ms.map f).foldlM step st = ms.foldlM step st
  | [], _ => rfl
  | m :: ms, st => by
    simp only [List.map_cons, List.foldlM_cons, h]
    congr 1; funext st'; exact foldlM_map_idx step f h ms st'

/-- **composeFlat_withNames** -/
theorem composeFlat_withNames (g : Graph) (F : NameMap) : composeFlat (withNames g F) = composeFlat g := by
  rw [composeFlat_eq, composeFlat_eq]
  have e : flatStep (withNames g F) = flatStep g := by
    funext st m
    exact flatStep_ptrs_perm (g₁ := withNames g F) (g₂ := g) (List.Perm.refl _) st m
  rw [e]
  show ((g.models.map (fun m => ({ m with name := lookup F m.idx } : Model))).foldlM (flatStep g) _).map _ = _
  rw [foldlM_map_idx (flatStep g) (fun m => { m with name := lookup F m.idx }) (fun st m => flatStep_idx g st rfl)]

theorem composeNestedState_withNames (g : Graph) (F : NameMap) :
    composeNestedState (withNames g F) = composeNestedState g := by
  rw [composeNestedState_eq, composeNestedState_eq]
  have e : nestStep (withNames g F) = nestStep g := by
    funext st m
    exact nestStep_ptrs_perm (g₁ := withNames g F) (g₂ := g) (List.Perm.refl _) st m
  rw [e]
  show (g.models.map (fun m => ({ m with name := lookup F m.idx } : Model))).foldlM (nestStep g) _ = _
  rw [foldlM_map_idx (nestStep g) (fun m => { m with name := lookup F m.idx }) (fun st m => nestStep_idx g st rfl)]

/-- **composeNested_withNames** -/
theorem composeNested_withNames (g : Graph) (F : NameMap) : composeNested (withNames g F) = composeNested g := by
  unfold composeNested
  rw [composeNestedState_withNames]
  simp [withNames]

end J2M.Rend2
