/-
  C02 tightness, part 3: `optimize_type` / `_optimize_union` keep a witnessed type witnessed.
  Every rewrite is one of the documented ones:
    * `int` next to `float` is dropped (the `float` member keeps its own `float` witness);
    * a `Null` member becomes the enclosing `DOptional` (needs the observed `null` that witnessed the member);
    * `Unknown` (element type of an observed empty list/dict) is dropped as soon as another member exists, and
      survives (as `Unknown` / `Optional[Unknown]`) only under the licence it came with;
    * inline objects are merged (`mergeFieldSets_wit`), list/dict members are merged into one (element values
      concatenate, `mkUnion_witM`);
    * pseudo-types: `resolve` returns one of the given kinds (witnessed by its own string) or `str`.
  Input side: `Raw` metadata (what `_detect_type` / `merge_field_sets` build), as in C08's `optimize_nf`.
-/
import J2M.Proofs.TightMerge
import J2M.Proofs.MergeAtoms
namespace J2M.Tight
open J2M J2M.C02T

/-! ### inversion of the stages, with provenance -/

theorem stageMerge_inv' {c : LitCfg} {e : EqEnv} {X o1 : List Ty} {tm : List Fields}
    (h : C08P.stageMerge c e X tm = .ok o1) :
    (tm = [] ∧ o1 = X) ∨ (tm ≠ [] ∧ ∃ m, mergeFieldSets c e tm = .ok m ∧ o1 = X ++ [.obj m]) := by
  unfold C08P.stageMerge at h
  split at h
  · rename_i he
    simp only [pure, Except.pure, Except.ok.injEq] at h
    exact Or.inl ⟨by simpa using he, h.symm⟩
  · rename_i he
    simp only [bind, Except.bind] at h
    split at h
    · cases h
    · rename_i m hm
      simp only [pure, Except.pure, Except.ok.injEq] at h
      exact Or.inr ⟨by simpa using he, m, hm, h.symm⟩

theorem stageStr_inv' {reg : StrRegistry} {X o S : List Ty} (h : C08P.stageStr reg X S = .ok o) :
    o = X ∨ (o = X ++ [.str] ∧ S ≠ []) ∨ ∃ k, o = X ++ [.ser k] ∧ Ty.ser k ∈ S := by
  unfold C08P.stageStr at h
  split at h
  · rename_i hs
    simp only [pure, Except.pure, Except.ok.injEq] at h
    refine Or.inr (Or.inl ⟨h.symm, ?_⟩)
    rintro rfl; simp at hs
  · split at h
    · simp only [pure, Except.pure, Except.ok.injEq] at h; exact Or.inl h.symm
    · rename_i hne
      simp only [bind, Except.bind] at h
      split at h
      · cases h
      · rename_i r hr
        split at h
        · rename_i k
          simp only [pure, Except.pure, Except.ok.injEq] at h
          refine Or.inr (Or.inr ⟨k, h.symm, ?_⟩)
          have := J2M.resolve_subset hr k (by simp)
          obtain ⟨t, ht, hm⟩ := List.mem_filterMap.1 this
          cases t <;> simp at hm
          subst hm; exact ht
        · cases h
        · simp only [pure, Except.pure, Except.ok.injEq] at h
          exact Or.inr (Or.inl ⟨h.symm, by simpa using hne⟩)

/-! ### the tail of `_optimize_union` -/

theorem filter_nil_of_forall {α} {p : α → Bool} {l : List α} (h : ∀ x ∈ l, p x = false) : l.filter p = [] := by
  rw [List.filter_eq_nil_iff]; intro x hx; simp [h x hx]

/-- drop `Unknown`, fold `Null` into `DOptional`, rebuild the union: witnessed, `Unknown` only under its licence -/
theorem finish_wit {acc : Accepts} {c : LitCfg} {u : Prop} {vs : List Json} {O R : List Ty} {t' : Ty}
    (hO : ∀ t ∈ O, WitM acc u t vs)
    (hOnu : (O.filter Ty.isUnknown).length ≤ 1) (hOnn : (O.filter Ty.isNull).length ≤ 1)
    (hR : ∀ t ∈ R, Wit acc False False t vs ∧ t.isNull = false ∧ t.isUnknown = false)
    (h : C08P.finishOpt c (O ++ R) = .ok t') : Wit acc False u t' vs := by
  have hall : ∀ t ∈ O ++ R, WitM acc u t vs := by
    intro t ht
    rcases List.mem_append.1 ht with h1 | h1
    · exact hO t h1
    · exact .inr (hR t h1).1
  have hunk : ((O ++ R).filter Ty.isUnknown).length ≤ 1 := by
    rw [List.filter_append, filter_nil_of_forall (fun t ht => (hR t ht).2.2)]; simpa using hOnu
  have hnull : ((O ++ R).filter Ty.isNull).length ≤ 1 := by
    rw [List.filter_append, filter_nil_of_forall (fun t ht => (hR t ht).2.1)]; simpa using hOnn
  generalize O ++ R = types at h hall hunk hnull
  match types, h, hall, hunk, hnull with
  | [], h, _, _, _ => simp [C08P.finishOpt] at h
  | [t], h, hall, _, _ =>
    simp only [C08P.finishOpt, pure, Except.pure, Except.ok.injEq] at h; subst h
    exact (hall t (by simp)).toWit
  | a :: b :: rest, h, hall, hunk, hnull =>
    rw [C08P.finishOpt_ge2 _ _ (by simp)] at h
    simp only [Except.ok.injEq] at h
    generalize hT : a :: b :: rest = types at h hall hunk hnull
    have hlen : 2 ≤ types.length := by rw [← hT]; simp
    have hDnone := C08P.dropUnknown_none types hunk
    have hDsub : ∀ t ∈ C08P.dropUnknown types, t ∈ types := (C08P.dropUnknown_sublist types).subset
    have hN : ∀ t ∈ (C08P.dropUnknown types).filter (fun t => !t.isNull), Wit acc False False t vs := by
      intro t ht
      have htD := (List.mem_filter.1 ht).1
      rcases hall t (hDsub t htD) with ⟨h0, _⟩ | h0
      · subst h0; have := hDnone _ htD; simp [Ty.isUnknown] at this
      · exact h0
    have hnullvs : (C08P.dropUnknown types).any Ty.isNull = true → Json.null ∈ vs := by
      intro hany
      obtain ⟨t, ht, hn⟩ := List.any_eq_true.1 hany
      have : t = .null := by cases t <;> simp [Ty.isNull] at hn; rfl
      subst this
      rcases hall _ (hDsub _ ht) with ⟨h0, _⟩ | h0
      · cases h0
      · simpa [Wit] using h0
    by_cases hNe : (C08P.dropUnknown types).filter (fun t => !t.isNull) = []
    · -- nothing but `Null` (and one `Unknown`) was there
      rw [hNe, C08P.mkUM_nil] at h
      have hu : u := by
        by_cases hany : types.any Ty.isUnknown = true
        · obtain ⟨t, ht, hn⟩ := List.any_eq_true.1 hany
          have : t = .unknown := by cases t <;> simp [Ty.isUnknown] at hn; rfl
          subst this
          rcases hall _ ht with ⟨_, h0⟩ | h0
          · exact h0
          · simp [Wit] at h0
        · exfalso
          have hD : C08P.dropUnknown types = types := by
            unfold C08P.dropUnknown; simp [hany]
          rw [hD, List.filter_eq_nil_iff] at hNe
          have : types.filter Ty.isNull = types := by
            rw [List.filter_eq_self]
            intro t ht
            simpa using hNe t ht
          rw [this] at hnull
          omega
      subst h
      split
      · rename_i hopt
        simp only [C08P.collapse, Wit]
        exact ⟨.inr (hnullvs hopt), hu⟩
      · simp only [C08P.collapse, Wit]; exact hu
    · obtain ⟨h1, h2⟩ := mkUnion_wit (c := c) hNe hN
      have hX : Wit acc False False
          (C08P.collapse (mkUnionMembers c ((C08P.dropUnknown types).filter (fun t => !t.isNull)))) vs := by
        unfold C08P.collapse
        split
        · rename_i heq; exact absurd heq h1
        · rename_i t heq; exact h2 t (by rw [heq]; simp)
        · exact wit_union.2 ⟨h1, h2⟩
      subst h
      split
      · rename_i hopt
        simp only [Wit]
        exact ⟨.inr (hnullvs hopt), Wit.mono _ id False.elim (fun _ h => h) hX⟩
      · exact Wit.mono _ id False.elim (fun _ h => h) hX

/-! ### `_optimize_union` on a raw union, given the claims for the recursive `optimize_type` calls -/

theorem optimizeUnion_wit_step {cfg : GenCfg} {e : EqEnv} {acc : Accepts} {f : Nat}
    (ihO : ∀ (a u : Prop) t t' vs, C08P.Raw cfg t = true → Wit acc a u t vs →
        optimize cfg e f t = .ok t' → Wit acc a u t' vs)
    (ihL : ∀ ms t' vs, C08P.rawD cfg (.union ms) = true →
        (∀ m ∈ ms, WitM acc (Json.arr [] ∈ vs) m (elemsOf vs)) →
        optimize cfg e f (.list (.union ms)) = .ok t' → Wit acc False False t' vs)
    (ihD : ∀ ms t' vs, C08P.rawD cfg (.union ms) = true →
        (∀ m ∈ ms, WitM acc (Json.obj [] ∈ vs) m (valsOf vs)) →
        optimize cfg e f (.dict (.union ms)) = .ok t' → Wit acc False False t' vs)
    {u : Prop} {ms : List Ty} {t' : Ty} {vs : List Json}
    (hr : C08P.rawD cfg (.union ms) = true) (hw : ∀ m ∈ ms, WitM acc u m vs)
    (h : optimizeUnion cfg e (f + 1) ms = .ok t') : Wit acc False u t' vs := by
  obtain ⟨sh, hm⟩ := C08P.rawD_union hr
  rw [C08P.optimizeUnion_body _ _ _ _ (C08P.raw_hidden sh hm), C08P.split_optFree cfg.reg ms {} (fun t ht => ⟨C08P.rawD_not_opt (hm t ht), fun k hk => by
    have := hm t ht; rw [hk] at this; simpa [C08P.rawD] using this⟩)] at h
  unfold C08P.unionBody at h
  simp only [List.nil_append, bind, Except.bind] at h
  split at h
  · cases h
  · rename_i o1 hmerge
    split at h
    · cases h
    · rename_i o4 hstr
      split at h
      · cases h
      · rename_i types hmap
        rw [C08P.stageList_eq, C08P.stageDict_eq] at hstr
        -- a member that is not `Unknown` is witnessed
        have hwit : ∀ m ∈ ms, m.isUnknown = false → Wit acc False False m vs := by
          intro m hmem hnu
          rcases hw m hmem with ⟨h0, _⟩ | h0
          · subst h0; simp [Ty.isUnknown] at hnu
          · exact h0
        -- the merged inline object
        obtain ⟨Jx, ho1, hJx⟩ : ∃ Jx, o1 = C08P.stageInt (ms.filter C08P.isOtherCls) ++ Jx ∧
            (Jx = [] ∨ ∃ m, Jx = [.obj m] ∧ C08P.AllRawF cfg m ∧ Wit acc False False (.obj m) vs) := by
          rcases stageMerge_inv' hmerge with ⟨_, h1⟩ | ⟨hne, m, hm', h1⟩
          · exact ⟨[], by simpa using h1, Or.inl rfl⟩
          · refine ⟨[.obj m], h1, Or.inr ⟨m, rfl, ?_, ?_⟩⟩
            · apply C08P.mergeFieldSets_rawF _ hm'
              intro fs hfs kv hkv
              have := hm _ (C08P.mem_objFs hfs)
              simp only [C08P.rawD] at this
              exact (C08P.rawDFields_iff cfg fs).mp this kv hkv
            · apply mergeFieldSets_wit hm' hne
              intro fs hfs
              have hmem := C08P.mem_objFs hfs
              refine setOK_of_wit (hwit _ hmem rfl) ?_
              intro kv hkv
              have := hm _ hmem
              simp only [C08P.rawD] at this
              exact C08P.rawD_not_opt ((C08P.rawDFields_iff cfg fs).mp this kv hkv)
        -- the pseudo-type / `str` entry
        obtain ⟨Sx, ho4, hSx⟩ : ∃ Sx, o4 = o1 ++
              (if (C08P.listEs ms).isEmpty then [] else [.list (mkUnion cfg.lit (C08P.listEs ms))])
            ++ (if (C08P.dictEs ms).isEmpty then [] else [.dict (mkUnion cfg.lit (C08P.dictEs ms))]) ++ Sx ∧
            (Sx = [] ∨ (Sx = [.str] ∧ ∃ s, Json.str s ∈ vs) ∨
              ∃ k, Sx = [.ser k] ∧ Wit acc False False (.ser k) vs) := by
          rcases stageStr_inv' hstr with h1 | ⟨h1, hne⟩ | ⟨k, h1, hk⟩
          · exact ⟨[], by simpa using h1, Or.inl rfl⟩
          · refine ⟨[.str], h1, Or.inr (Or.inl ⟨rfl, ?_⟩)⟩
            obtain ⟨st, hst⟩ := List.exists_mem_of_ne_nil _ hne
            obtain ⟨hst1, hst2⟩ := List.mem_filter.1 hst
            cases st <;> simp [C08P.isStrCls, Ty.cls] at hst2
            · simpa [Wit] using hwit _ hst1 rfl
            · have := hwit _ hst1 rfl
              simp only [Wit] at this
              obtain ⟨s, hs, _⟩ := this
              exact ⟨s, hs⟩
          · exact ⟨[.ser k], h1, Or.inr (Or.inr ⟨k, rfl, hwit _ (List.mem_filter.1 hk).1 rfl⟩)⟩
        subst ho1
        generalize hLx : (if (C08P.listEs ms).isEmpty then []
          else [Ty.list (mkUnion cfg.lit (C08P.listEs ms))]) = Lx at ho4
        generalize hDx : (if (C08P.dictEs ms).isEmpty then []
          else [Ty.dict (mkUnion cfg.lit (C08P.dictEs ms))]) = Dx at ho4
        subst ho4
        -- split the mapM
        obtain ⟨T4, Ts, hT4, hTs, rfl⟩ := C08P.mapM_append_inv _ _ _ _ hmap
        obtain ⟨T3, Td, hT3, hTd, rfl⟩ := C08P.mapM_append_inv _ _ _ _ hT4
        obtain ⟨T2, Tl, hT2, hTl, rfl⟩ := C08P.mapM_append_inv _ _ _ _ hT3
        obtain ⟨To, Tj, hTo, hTj, rfl⟩ := C08P.mapM_append_inv _ _ _ _ hT2
        obtain ⟨_, hOopt⟩ := C08P.oPre_of_raw sh hm
        cases f with
        | zero =>
          exfalso
          have hnil : ∀ (X T : List Ty), X.mapM (optimize cfg e 0) = .ok T → T = [] := by
            intro X T hX
            cases T with
            | nil => rfl
            | cons y T =>
              obtain ⟨x, _, hx⟩ := C08P.mapM_mem_inv _ _ _ hX y (by simp)
              simp [optimize] at hx
          rw [hnil _ _ hTo, hnil _ _ hTj, hnil _ _ hTl, hnil _ _ hTd, hnil _ _ hTs] at h
          simp [C08P.finishOpt] at h
        | succ f' =>
          have hTo' : To = C08P.stageInt (ms.filter C08P.isOtherCls) := by
            have := C08P.mapM_ok_id (optimize cfg e (f' + 1)) _ (fun t ht => hOopt t ht e f')
            rw [this] at hTo; cases hTo; rfl
          subst hTo'
          have hsub : (C08P.stageInt (ms.filter C08P.isOtherCls)).Sublist ms :=
            (C08P.stageInt_sublist _).trans List.filter_sublist
          -- a result of `optimize` on an object/list/dict/str/pseudo-type keeps its constructor
          have hkind : ∀ (X T : List Ty), X.mapM (optimize cfg e (f' + 1)) = .ok T →
              (∀ x ∈ X, x.kindN = 13 ∨ x.kindN = 8 ∨ x.kindN = 9 ∨ x.kindN = 3 ∨ x.kindN = 6) →
              ∀ y ∈ T, y.isNull = false ∧ y.isUnknown = false := by
            intro X T hX hk y hy
            obtain ⟨x, hx, hxy⟩ := C08P.mapM_mem_inv _ _ _ hX y hy
            have := C08P.optimize_kind hxy (hk x hx)
            have hk' := hk x hx
            rw [← this] at hk'
            cases y <;> simp [Ty.kindN] at hk' <;> simp [Ty.isNull, Ty.isUnknown]
          have hRj : ∀ t ∈ Tj, Wit acc False False t vs ∧ t.isNull = false ∧ t.isUnknown = false := by
            intro t ht
            refine ⟨?_, hkind _ _ hTj ?_ t ht⟩
            · obtain ⟨x, hx, hxy⟩ := C08P.mapM_mem_inv _ _ _ hTj t ht
              rcases hJx with rfl | ⟨m, rfl, hmr, hmw⟩
              · cases hx
              · simp at hx; subst hx
                exact ihO _ _ _ _ _ hmr.Raw hmw hxy
            · rcases hJx with rfl | ⟨m, rfl, _, _⟩ <;> simp [Ty.kindN]
          have hRl : ∀ t ∈ Tl, Wit acc False False t vs ∧ t.isNull = false ∧ t.isUnknown = false := by
            intro t ht
            refine ⟨?_, hkind _ _ hTl ?_ t ht⟩
            · obtain ⟨x, hx, hxy⟩ := C08P.mapM_mem_inv _ _ _ hTl t ht
              rw [← hLx] at hx
              split at hx
              · cases hx
              · rename_i hne
                simp at hx; subst hx
                have hraw : ∀ t ∈ C08P.listEs ms, C08P.rawD cfg t = true := by
                  intro t ht
                  have := hm _ (C08P.mem_listEs ht)
                  simpa [C08P.rawD] using this
                refine ihL _ _ _ (C08P.mkUnion_rawD _ (by simpa using hne) hraw) ?_ hxy
                apply mkUnion_witM
                intro x hx
                have hmem := C08P.mem_listEs hx
                have := hwit _ hmem rfl
                simp only [Wit] at this
                exact WitM.of_flags this (C08P.rawD_not_opt (hraw x hx))
            · rw [← hLx]; split <;> simp [Ty.kindN]
          have hRd : ∀ t ∈ Td, Wit acc False False t vs ∧ t.isNull = false ∧ t.isUnknown = false := by
            intro t ht
            refine ⟨?_, hkind _ _ hTd ?_ t ht⟩
            · obtain ⟨x, hx, hxy⟩ := C08P.mapM_mem_inv _ _ _ hTd t ht
              rw [← hDx] at hx
              split at hx
              · cases hx
              · rename_i hne
                simp at hx; subst hx
                have hraw : ∀ t ∈ C08P.dictEs ms, C08P.rawD cfg t = true := by
                  intro t ht
                  have := hm _ (C08P.mem_dictEs ht)
                  simpa [C08P.rawD] using this
                refine ihD _ _ _ (C08P.mkUnion_rawD _ (by simpa using hne) hraw) ?_ hxy
                apply mkUnion_witM
                intro x hx
                have hmem := C08P.mem_dictEs hx
                have := hwit _ hmem rfl
                simp only [Wit] at this
                exact WitM.of_flags this (C08P.rawD_not_opt (hraw x hx))
            · rw [← hDx]; split <;> simp [Ty.kindN]
          have hRs : ∀ t ∈ Ts, Wit acc False False t vs ∧ t.isNull = false ∧ t.isUnknown = false := by
            intro t ht
            refine ⟨?_, hkind _ _ hTs ?_ t ht⟩
            · obtain ⟨x, hx, hxy⟩ := C08P.mapM_mem_inv _ _ _ hTs t ht
              rcases hSx with rfl | ⟨rfl, hs⟩ | ⟨k, rfl, hk⟩
              · cases hx
              · simp at hx; subst hx
                simp [optimize, pure, Except.pure] at hxy; subst hxy
                simpa [Wit] using hs
              · simp at hx; subst hx
                simp [optimize, pure, Except.pure] at hxy; subst hxy
                exact hk
            · rcases hSx with rfl | ⟨rfl, _⟩ | ⟨k, rfl, _⟩ <;> simp [Ty.kindN]
          have hcnt : ∀ (t0 : Ty) (p : Ty → Bool), (∀ t, p t = true → t = t0) →
              ((C08P.stageInt (ms.filter C08P.isOtherCls)).filter p).length ≤ 1 := fun t0 p hp =>
            C08P.nodup_hash_count _ t0 p hp ((hsub.map hashStr).nodup sh.nodup)
          rw [List.append_assoc, List.append_assoc, List.append_assoc] at h
          refine finish_wit (fun t ht => hw t (hsub.subset ht))
            (hcnt .unknown Ty.isUnknown (by intro t ht; cases t <;> simp [Ty.isUnknown] at ht; rfl))
            (hcnt .null Ty.isNull (by intro t ht; cases t <;> simp [Ty.isNull] at ht; rfl)) ?_ h
          intro t ht
          simp only [List.mem_append] at ht
          rcases ht with ht | ht | ht | ht
          · exact hRj t ht
          · exact hRl t ht
          · exact hRd t ht
          · exact hRs t ht

end J2M.Tight
