/-
  `optimize` maps raw metadata (`Raw`) to normal forms (`nf`), and the only possible failures.
-/
import J2M.Proofs.OptimizeRaw
import J2M.Proofs.OptimizeIdem
namespace J2M.C08P

def isOtherCls (t : Ty) : Bool := t.cls == 0 || t.cls == 5
def isStrCls (t : Ty) : Bool := t.cls == 4

theorem split_optFree (reg : StrRegistry) (ms : List Ty) (s : Split)
    (h : ∀ t ∈ ms, t.isOpt = false ∧ ∀ k, t = .ser k → reg.types.contains k = true) :
    ms.foldl (splitStep reg) s =
      { strTypes := s.strTypes ++ ms.filter isStrCls, toMerge := s.toMerge ++ objFs ms,
        lists := s.lists ++ listEs ms, dicts := s.dicts ++ dictEs ms,
        other := s.other ++ ms.filter isOtherCls } := by
  induction ms generalizing s with
  | nil => simp [objFs, listEs, dictEs]
  | cons t ms ih =>
    rw [List.foldl_cons, ih _ (fun u hu => h u (by simp [hu]))]
    have ht := h t (by simp)
    cases t with
    | opt x => simp [Ty.isOpt] at ht
    | ser k =>
      have : k ∈ reg.types := by simpa using ht.2 k rfl
      simp [splitStep, this, isStrCls, isOtherCls, Ty.cls, objFs, listEs, dictEs]
    | _ => simp [splitStep, isStrCls, isOtherCls, Ty.cls, objFs, listEs, dictEs]

theorem mkUM_filter_le (c : LitCfg) (ts : List Ty) (p : Ty → Bool)
    (hp : ∀ t, p t = true → t.isLit = false ∧ t.isStr = false) :
    ((mkUnionMembers c ts).filter p).length ≤ ((flattenUnion ts).filter p).length := by
  have hsub := fold_unique_sublist ⟨[], [], true, []⟩ (flattenUnion ts)
  simp only [List.reverse_nil, List.nil_append] at hsub
  have h1 : (((foldSt ts).unique.reverse).filter p).length ≤ ((flattenUnion ts).filter p).length := by
    have := (hsub.filter p).length_le
    refine Nat.le_trans this ?_
    exact ((List.filter_sublist (l := flattenUnion ts) (p := fun t => !t.isLit)).filter p).length_le
  rw [mkUnionMembers_eq]
  rcases finishU_cases c (foldSt ts) with ⟨_, _, _, heq⟩ | ⟨heq, _⟩ | ⟨heq, _⟩
  · rw [heq, List.filter_append]
    have : [Ty.lit false (foldSt ts).lits].filter p = [] := by
      rw [List.filter_eq_nil_iff]; intro t ht; simp at ht; subst ht
      intro hpt; have := (hp _ hpt).1; simp [Ty.isLit] at this
    rw [this]; simpa using h1
  · rw [heq]; exact h1
  · rw [heq, List.filter_append]
    have : [Ty.str].filter p = [] := by
      rw [List.filter_eq_nil_iff]; intro t ht; simp at ht; subst ht
      intro hpt; have := (hp _ hpt).2; simp [Ty.isStr] at this
    rw [this]; simpa using h1

theorem filter_two_le {α} (l : List α) (p : α → Bool) (a b : α) (ha : a ∈ l) (hb : b ∈ l) (hab : a ≠ b)
    (hpa : p a = true) (hpb : p b = true) : 2 ≤ (l.filter p).length := by
  induction l with
  | nil => cases ha
  | cons x l ih =>
    rw [List.filter_cons]
    rcases List.mem_cons.mp ha with rfl | ha' <;> rcases List.mem_cons.mp hb with rfl | hb'
    · exact absurd rfl hab
    · simp only [hpa, ↓reduceIte, List.length_cons]
      have : 0 < (l.filter p).length := List.length_pos_of_mem (List.mem_filter.mpr ⟨hb', hpb⟩)
      omega
    · simp only [hpb, ↓reduceIte, List.length_cons]
      have : 0 < (l.filter p).length := List.length_pos_of_mem (List.mem_filter.mpr ⟨ha', hpa⟩)
      omega
    · have := ih ha' hb'
      by_cases hx : p x = true
      · simp only [hx, ↓reduceIte, List.length_cons]; omega
      · simp only [hx, Bool.false_eq_true, ↓reduceIte]; exact this

/-! ### the final `DUnion(*types)` yields a normal form -/

/-- what is known about the member list handed to the final `DUnion(*types)` of `_optimize_union` -/
structure TysOK (c : LitCfg) (tys : List Ty) : Prop where
  nf : ∀ t ∈ tys, nf t = true
  flat : ∀ t ∈ tys, t.isUnion = false
  noOpt : ∀ t ∈ tys, t.isOpt = false
  intFloat : ¬ (tys.any Ty.isInt = true ∧ tys.any Ty.isFloat = true)
  oneList : (tys.filter Ty.isList).length ≤ 1
  oneDict : (tys.filter Ty.isDict).length ≤ 1
  oneObj : (tys.filter Ty.isObj).length ≤ 1
  oneLit : (tys.filter Ty.isLit).length ≤ 1
  goodLit : ∀ o vs, Ty.lit o vs ∈ tys → o = false ∧ goodLits c vs
  oneStr : (tys.filter (fun t => t.isStr || t.isSer)).length ≤ 1

theorem TysOK.sublist {c : LitCfg} {l l' : List Ty} (h : TysOK c l) (hs : l'.Sublist l) : TysOK c l' := by
  have sub := hs.subset
  refine ⟨fun t ht => h.nf t (sub ht), fun t ht => h.flat t (sub ht), fun t ht => h.noOpt t (sub ht), ?_,
    Nat.le_trans (hs.filter _).length_le h.oneList, Nat.le_trans (hs.filter _).length_le h.oneDict,
    Nat.le_trans (hs.filter _).length_le h.oneObj, Nat.le_trans (hs.filter _).length_le h.oneLit,
    fun o vs hm => h.goodLit o vs (sub hm), Nat.le_trans (hs.filter _).length_le h.oneStr⟩
  intro ⟨h1, h2⟩
  apply h.intFloat
  rw [List.any_eq_true] at h1 h2 ⊢
  obtain ⟨a, ha, ha'⟩ := h1
  obtain ⟨b, hb, hb'⟩ := h2
  exact ⟨⟨a, sub ha, ha'⟩, by rw [List.any_eq_true]; exact ⟨b, sub hb, hb'⟩⟩

theorem nfList_iff (ts : List Ty) : nfList ts = true ↔ ∀ t ∈ ts, nf t = true := by
  induction ts <;> simp_all [nfList]

theorem isInt_nls (t : Ty) : t.isInt = true → t.isLit = false ∧ t.isStr = false := by
  cases t <;> simp [Ty.isInt, Ty.isLit, Ty.isStr]
theorem isFloat_nls (t : Ty) : t.isFloat = true → t.isLit = false ∧ t.isStr = false := by
  cases t <;> simp [Ty.isFloat, Ty.isLit, Ty.isStr]
theorem isSer_nls (t : Ty) : t.isSer = true → t.isLit = false ∧ t.isStr = false := by
  cases t <;> simp [Ty.isSer, Ty.isLit, Ty.isStr]
theorem isList_nls (t : Ty) : t.isList = true → t.isLit = false ∧ t.isStr = false := by
  cases t <;> simp [Ty.isList, Ty.isLit, Ty.isStr]
theorem isDict_nls (t : Ty) : t.isDict = true → t.isLit = false ∧ t.isStr = false := by
  cases t <;> simp [Ty.isDict, Ty.isLit, Ty.isStr]
theorem isObj_nls (t : Ty) : t.isObj = true → t.isLit = false ∧ t.isStr = false := by
  cases t <;> simp [Ty.isObj, Ty.isLit, Ty.isStr]
theorem ser_ne_str {x t : Ty} (hx : x.isSer = true) (ht : t.isStr = true) : x ≠ t := by
  intro e; subst e; cases x <;> simp [Ty.isSer, Ty.isStr] at hx ht

theorem union_nf {c : LitCfg} {tys : List Ty} (ok : TysOK c tys)
    (hnu : ∀ t ∈ tys, t.isNull = false ∧ t.isUnknown = false) :
    nf (collapse (mkUnionMembers c tys)) = true ∧ (collapse (mkUnionMembers c tys)).isOpt = false := by
  have out := mkUnionMembers_out c tys
  have hfl := flattenUnion_of_flat tys ok.flat
  -- every member: from `tys` (non-literal), `str`, or a good literal
  have hmem : ∀ m ∈ mkUnionMembers c tys,
      (m ∈ tys ∧ m.isLit = false) ∨ m = .str ∨ ∃ vs, m = .lit false vs ∧ vs ≠ [] := by
    intro m hm
    rcases mem_mkUM hm with ⟨h1, h2⟩ | h | ⟨vs, h1, h2, _⟩
    · rw [hfl] at h1; exact Or.inl ⟨h1, h2⟩
    · exact Or.inr (Or.inl h)
    · exact Or.inr (Or.inr ⟨vs, h1, h2⟩)
  have hnfm : ∀ m ∈ mkUnionMembers c tys, nf m = true ∧ m.isOpt = false ∧ m.isNull = false ∧
      m.isUnknown = false := by
    intro m hm
    rcases hmem m hm with ⟨h1, _⟩ | rfl | ⟨vs, rfl, hne⟩
    · exact ⟨ok.nf m h1, ok.noOpt m h1, (hnu m h1).1, (hnu m h1).2⟩
    · simp [nf, Ty.isOpt, Ty.isNull, Ty.isUnknown]
    · simp [nf, Ty.isOpt, Ty.isNull, Ty.isUnknown, hne]
  have hfrom : ∀ (p : Ty → Bool), (∀ t, p t = true → t.isLit = false ∧ t.isStr = false) →
      ∀ m ∈ mkUnionMembers c tys, p m = true → m ∈ tys := by
    intro p hp m hm hpm
    rcases hmem m hm with ⟨h1, _⟩ | rfl | ⟨vs, rfl, _⟩
    · exact h1
    · have := (hp _ hpm).2; simp [Ty.isStr] at this
    · have := (hp _ hpm).1; simp [Ty.isLit] at this
  have hcount : ∀ (p : Ty → Bool), (∀ t, p t = true → t.isLit = false ∧ t.isStr = false) →
      ((mkUnionMembers c tys).filter p).length ≤ (tys.filter p).length := by
    intro p hp
    have := mkUM_filter_le c tys p hp
    rwa [hfl] at this
  generalize hM : mkUnionMembers c tys = M at *
  match M, hM with
  | [], _ => simp [collapse, nf, Ty.isOpt]
  | [x], _ =>
    have := hnfm x (by simp)
    exact ⟨this.1, this.2.1⟩
  | a :: b :: rest, hM =>
    refine ⟨?_, rfl⟩
    show nf (.union (a :: b :: rest)) = true
    simp only [nf, Bool.and_eq_true]
    refine ⟨?_, (nfList_iff _).mpr (fun t ht => (hnfm t ht).1)⟩
    unfold nfUnionMembers
    simp only [Bool.and_eq_true, decide_eq_true_eq, List.all_eq_true, Bool.not_eq_true']
    refine ⟨⟨⟨⟨⟨⟨⟨⟨by simp, ?_⟩, ?_⟩, ?_⟩, ?_⟩, out.oneLit⟩, ?_⟩, ?_⟩, ?_⟩
    · intro t ht
      have := hnfm t ht
      simp [out.flat t ht, this.2.1, this.2.2.1, this.2.2.2]
    · exact (nodupStr_iff _).mpr out.nodup
    · -- int / float
      rw [Bool.and_eq_false_iff]
      by_cases hi : (a :: b :: rest).any Ty.isInt = true
      · right
        cases hf : (a :: b :: rest).any Ty.isFloat with
        | false => rfl
        | true =>
          exfalso; apply ok.intFloat
          rw [List.any_eq_true] at hi hf ⊢
          obtain ⟨x, hx, hx'⟩ := hi
          obtain ⟨y, hy, hy'⟩ := hf
          refine ⟨⟨x, hfrom Ty.isInt isInt_nls x hx hx', hx'⟩, ?_⟩
          rw [List.any_eq_true]
          exact ⟨y, hfrom Ty.isFloat isFloat_nls y hy hy', hy'⟩
      · left; simpa using hi
    · -- str with literal / pseudo-type
      rw [Bool.and_eq_false_iff]
      by_cases hs : (a :: b :: rest).any Ty.isStr = true
      · right
        rw [Bool.or_eq_false_iff]
        constructor
        · cases hl : (a :: b :: rest).any Ty.isLit with
          | false => rfl
          | true => exact absurd ⟨hs, hl⟩ out.strLit
        · cases hser : (a :: b :: rest).any Ty.isSer with
          | false => rfl
          | true =>
            exfalso
            rw [List.any_eq_true] at hser hs
            obtain ⟨x, hx, hx'⟩ := hser
            have hxt : x ∈ tys := hfrom Ty.isSer isSer_nls x hx hx'
            -- then `tys` has no `str`, hence none is added
            have hnostr : ∀ t ∈ tys, t.isStr = false := by
              intro t ht
              cases hst : t.isStr with
              | false => rfl
              | true =>
                exfalso
                have hne : x ≠ t := ser_ne_str hx' hst
                have := filter_two_le tys (fun t => t.isStr || t.isSer) x t hxt ht hne
                  (by simp [hx']) (by simp [hst])
                have := ok.oneStr
                omega
            have hno := mkUM_no_new_str c tys ok.flat
              (fun t ht => ⟨hnostr t ht, fun o vs e => ok.goodLit o vs (e ▸ ht)⟩) ok.oneLit
            obtain ⟨y, hy, hy'⟩ := hs
            cases y <;> simp [Ty.isStr] at hy'
            rw [hM] at hno
            exact hno hy
      · left; simpa using hs
    · exact Nat.le_trans (hcount Ty.isList isList_nls) ok.oneList
    · exact Nat.le_trans (hcount Ty.isDict isDict_nls) ok.oneDict
    · exact Nat.le_trans (hcount Ty.isObj isObj_nls) ok.oneObj

/-! ### the member list before the final `DUnion` -/

/-- constructor index -/
def _root_.J2M.Ty.kindN : Ty → Nat
  | .int => 0 | .float => 1 | .bool => 2 | .str => 3 | .null => 4 | .unknown => 5 | .ser _ => 6
  | .lit _ _ => 7 | .list _ => 8 | .dict _ => 9 | .opt _ => 10 | .union _ => 11 | .tuple _ => 12
  | .obj _ => 13 | .ptr _ => 14

theorem isInt_kind (t : Ty) : t.isInt = (t.kindN == 0) := by cases t <;> rfl
theorem isFloat_kind (t : Ty) : t.isFloat = (t.kindN == 1) := by cases t <;> rfl
theorem isStr_kind (t : Ty) : t.isStr = (t.kindN == 3) := by cases t <;> rfl
theorem isNull_kind (t : Ty) : t.isNull = (t.kindN == 4) := by cases t <;> rfl
theorem isUnknown_kind (t : Ty) : t.isUnknown = (t.kindN == 5) := by cases t <;> rfl
theorem isSer_kind (t : Ty) : t.isSer = (t.kindN == 6) := by cases t <;> rfl
theorem isLit_kind (t : Ty) : t.isLit = (t.kindN == 7) := by cases t <;> rfl
theorem isList_kind (t : Ty) : t.isList = (t.kindN == 8) := by cases t <;> rfl
theorem isDict_kind (t : Ty) : t.isDict = (t.kindN == 9) := by cases t <;> rfl
theorem isOpt_kind (t : Ty) : t.isOpt = (t.kindN == 10) := by cases t <;> rfl
theorem isUnion_kind (t : Ty) : t.isUnion = (t.kindN == 11) := by cases t <;> rfl
theorem isObj_kind (t : Ty) : t.isObj = (t.kindN == 13) := by cases t <;> rfl

/-- a member of the "other" category of a raw union is a leaf that `optimize_type` leaves alone -/
theorem leafO {cfg : GenCfg} {t : Ty} (hr : rawD cfg t = true) (hu : t.isUnion = false)
    (hb : t.isBadLit = false) (hc : isOtherCls t = true) :
    (∀ e f, optimize cfg e (f + 1) t = .ok t) ∧ nf t = true ∧
    (t.kindN = 0 ∨ t.kindN = 1 ∨ t.kindN = 2 ∨ t.kindN = 4 ∨ t.kindN = 5 ∨ t.kindN = 7) ∧
    (∀ o vs, t = .lit o vs → o = false ∧ goodLits cfg.lit vs) := by
  cases t with
  | int | float | bool | null | unknown =>
    refine ⟨fun e f => by simp [optimize] <;> rfl, by simp [nf], by simp [Ty.kindN], by simp⟩
  | lit o vs =>
    simp only [Ty.isBadLit, Bool.or_eq_false_iff] at hb
    obtain ⟨rfl, hne⟩ := hb
    simp only [rawD] at hr
    have hg := litRawOk_good hr
    refine ⟨fun e f => ?_, by simp [nf, hne], by simp [Ty.kindN], ?_⟩
    · rw [optimize]; simp [hne]; rfl
    · intro o' vs' e; cases e; exact ⟨rfl, hg.2⟩
  | str | ser _ | list _ | dict _ | obj _ => simp [isOtherCls, Ty.cls] at hc
  | opt _ | tuple _ | ptr _ => simp [rawD] at hr
  | union _ => simp [Ty.isUnion] at hu

theorem nodup_hash_count (ms : List Ty) (t0 : Ty) (p : Ty → Bool) (hp : ∀ t, p t = true → t = t0)
    (hn : (ms.map hashStr).Nodup) : (ms.filter p).length ≤ 1 := by
  induction ms with
  | nil => simp
  | cons t rest ih =>
    rw [List.map_cons, List.nodup_cons] at hn
    rw [List.filter_cons]
    split
    · rename_i hpt
      have : rest.filter p = [] := by
        rw [List.filter_eq_nil_iff]
        intro u hu hpu
        apply hn.1
        rw [hp t hpt, ← hp u hpu]
        exact List.mem_map_of_mem hu
      simp [this]
    · exact ih hn.2

theorem removeFirst_sublist {α} (p : α → Bool) (l : List α) : (removeFirst p l).Sublist l := by
  induction l with
  | nil => simp [removeFirst]
  | cons x l ih =>
    simp only [removeFirst]
    split
    · exact List.sublist_cons_self x l
    · exact ih.cons_cons x

theorem removeFirst_filter {α} (p : α → Bool) (l : List α) (h : (l.filter p).length ≤ 1) :
    (removeFirst p l).filter p = [] := by
  induction l with
  | nil => simp [removeFirst]
  | cons x l ih =>
    simp only [removeFirst]
    rw [List.filter_cons] at h
    split
    · rename_i hpx
      simp only [hpx, ↓reduceIte, List.length_cons] at h
      apply List.eq_nil_of_length_eq_zero; omega
    · rename_i hpx
      simp only [hpx, Bool.false_eq_true, ↓reduceIte] at h
      rw [List.filter_cons]; simp only [hpx, Bool.false_eq_true, ↓reduceIte]
      exact ih h

theorem stageInt_sublist (l : List Ty) : (stageInt l).Sublist l := by
  unfold stageInt; split
  · exact removeFirst_sublist _ _
  · exact List.Sublist.refl _

theorem stageInt_not_both (l : List Ty) (h : (l.filter Ty.isInt).length ≤ 1) :
    ¬ ((stageInt l).any Ty.isInt = true ∧ (stageInt l).any Ty.isFloat = true) := by
  unfold stageInt
  split
  · intro ⟨h1, _⟩
    rw [List.any_eq_true] at h1
    obtain ⟨x, hx, hx'⟩ := h1
    have := removeFirst_filter Ty.isInt l h
    rw [List.filter_eq_nil_iff] at this
    exact this x hx hx'
  · rename_i hc
    simpa using hc

/-- a re-assembled category: at most one element, of constructor `k` (or `k'`), in normal form -/
structure Seg (k k' : Nat) (seg : List Ty) : Prop where
  len : seg.length ≤ 1
  kind : ∀ t ∈ seg, t.kindN = k ∨ t.kindN = k'
  nf : ∀ t ∈ seg, nf t = true

theorem Seg.nil (k k' : Nat) : Seg k k' [] := ⟨by simp, by simp, by simp⟩

theorem filter_nil_of_kind (seg : List Ty) (q : Ty → Bool) (h : ∀ t ∈ seg, q t = false) :
    seg.filter q = [] := by
  rw [List.filter_eq_nil_iff]; intro t ht; simp [h t ht]

/-- facts about the "other" prefix -/
structure OPre (c : LitCfg) (O : List Ty) : Prop where
  kind : ∀ t ∈ O, t.kindN = 0 ∨ t.kindN = 1 ∨ t.kindN = 2 ∨ t.kindN = 4 ∨ t.kindN = 5 ∨ t.kindN = 7
  nf : ∀ t ∈ O, nf t = true
  intFloat : ¬ (O.any Ty.isInt = true ∧ O.any Ty.isFloat = true)
  oneLit : (O.filter Ty.isLit).length ≤ 1
  goodLit : ∀ o vs, Ty.lit o vs ∈ O → o = false ∧ goodLits c vs
  oneUnknown : (O.filter Ty.isUnknown).length ≤ 1

theorem tysOK_assemble {c : LitCfg} {O Tj Tl Td Ts : List Ty} (hO : OPre c O)
    (hj : Seg 13 13 Tj) (hl : Seg 8 8 Tl) (hd : Seg 9 9 Td) (hs : Seg 3 6 Ts) :
    TysOK c (O ++ Tj ++ Tl ++ Td ++ Ts) := by
  have kinds : ∀ t ∈ O ++ Tj ++ Tl ++ Td ++ Ts,
      (t ∈ O ∧ (t.kindN = 0 ∨ t.kindN = 1 ∨ t.kindN = 2 ∨ t.kindN = 4 ∨ t.kindN = 5 ∨ t.kindN = 7)) ∨
      (t.kindN = 13 ∨ t.kindN = 8 ∨ t.kindN = 9 ∨ t.kindN = 3 ∨ t.kindN = 6) := by
    intro t ht
    simp only [List.mem_append] at ht
    rcases ht with (((h | h) | h) | h) | h
    · exact Or.inl ⟨h, hO.kind t h⟩
    · have := hj.kind t h; right; omega
    · have := hl.kind t h; right; omega
    · have := hd.kind t h; right; omega
    · have := hs.kind t h; right; omega
  have fO : ∀ (q : Ty → Bool) (kq : Nat), (∀ t, q t = (t.kindN == kq)) →
      kq ≠ 0 → kq ≠ 1 → kq ≠ 2 → kq ≠ 4 → kq ≠ 5 → kq ≠ 7 → O.filter q = [] := by
    intro q kq hq _ _ _ _ _ _
    apply filter_nil_of_kind; intro t ht; rw [hq]; have := hO.kind t ht; simp; omega
  have fS : ∀ {k k' : Nat} {seg : List Ty} (_ : Seg k k' seg) (q : Ty → Bool) (kq : Nat),
      (∀ t, q t = (t.kindN == kq)) → kq ≠ k → kq ≠ k' → seg.filter q = [] := by
    intro k k' seg hseg q kq hq _ _
    apply filter_nil_of_kind; intro t ht; rw [hq]; have := hseg.kind t ht; simp; omega
  have lenS : ∀ {k k' : Nat} {seg : List Ty} (_ : Seg k k' seg) (q : Ty → Bool), (seg.filter q).length ≤ 1 :=
    fun hseg q => Nat.le_trans (List.length_filter_le _ _) hseg.len
  constructor
  · intro t ht
    simp only [List.mem_append] at ht
    rcases ht with (((h | h) | h) | h) | h
    · exact hO.nf t h
    · exact hj.nf t h
    · exact hl.nf t h
    · exact hd.nf t h
    · exact hs.nf t h
  · intro t ht; rw [isUnion_kind]; rcases kinds t ht with ⟨_, h⟩ | h <;> simp <;> omega
  · intro t ht; rw [isOpt_kind]; rcases kinds t ht with ⟨_, h⟩ | h <;> simp <;> omega
  · intro ⟨h1, h2⟩
    apply hO.intFloat
    rw [List.any_eq_true] at h1 h2 ⊢
    obtain ⟨a, ha, ha'⟩ := h1
    obtain ⟨b, hb, hb'⟩ := h2
    rw [isInt_kind] at ha'; rw [isFloat_kind] at hb'
    simp only [beq_iff_eq] at ha' hb'
    constructor
    · rcases kinds a ha with ⟨h, _⟩ | h
      · exact ⟨a, h, by rw [isInt_kind]; simp [ha']⟩
      · omega
    · rw [List.any_eq_true]
      rcases kinds b hb with ⟨h, _⟩ | h
      · exact ⟨b, h, by rw [isFloat_kind]; simp [hb']⟩
      · omega
  · simp only [List.filter_append]
    rw [fO _ 8 isList_kind (by omega) (by omega) (by omega) (by omega) (by omega) (by omega),
      fS hj _ 8 isList_kind (by omega) (by omega), fS hd _ 8 isList_kind (by omega) (by omega),
      fS hs _ 8 isList_kind (by omega) (by omega)]
    simpa using lenS hl _
  · simp only [List.filter_append]
    rw [fO _ 9 isDict_kind (by omega) (by omega) (by omega) (by omega) (by omega) (by omega),
      fS hj _ 9 isDict_kind (by omega) (by omega), fS hl _ 9 isDict_kind (by omega) (by omega),
      fS hs _ 9 isDict_kind (by omega) (by omega)]
    simpa using lenS hd _
  · simp only [List.filter_append]
    rw [fO _ 13 isObj_kind (by omega) (by omega) (by omega) (by omega) (by omega) (by omega),
      fS hl _ 13 isObj_kind (by omega) (by omega), fS hd _ 13 isObj_kind (by omega) (by omega),
      fS hs _ 13 isObj_kind (by omega) (by omega)]
    simpa using lenS hj _
  · simp only [List.filter_append]
    rw [fS hj _ 7 isLit_kind (by omega) (by omega), fS hl _ 7 isLit_kind (by omega) (by omega),
      fS hd _ 7 isLit_kind (by omega) (by omega), fS hs _ 7 isLit_kind (by omega) (by omega)]
    simpa using hO.oneLit
  · intro o vs hm
    rcases kinds _ hm with ⟨h, _⟩ | h
    · exact hO.goodLit o vs h
    · simp [Ty.kindN] at h
  · simp only [List.filter_append]
    have e1 : O.filter (fun t => t.isStr || t.isSer) = [] := by
      apply filter_nil_of_kind; intro t ht; rw [isStr_kind, isSer_kind]
      have := hO.kind t ht; simp; omega
    have e2 : ∀ {k : Nat} {seg : List Ty} (_ : Seg k k seg), k ≠ 3 → k ≠ 6 →
        seg.filter (fun t => t.isStr || t.isSer) = [] := by
      intro k seg hseg _ _
      apply filter_nil_of_kind; intro t ht; rw [isStr_kind, isSer_kind]
      have := hseg.kind t ht; simp; omega
    rw [e1, e2 hj (by omega) (by omega), e2 hl (by omega) (by omega), e2 hd (by omega) (by omega)]
    simpa using lenS hs _

theorem dropUnknown_sublist (l : List Ty) : (dropUnknown l).Sublist l := by
  unfold dropUnknown; split
  · exact removeFirst_sublist _ _
  · exact List.Sublist.refl _

theorem dropUnknown_none (l : List Ty) (h : (l.filter Ty.isUnknown).length ≤ 1) :
    ∀ t ∈ dropUnknown l, t.isUnknown = false := by
  unfold dropUnknown
  split
  · intro t ht
    have := removeFirst_filter Ty.isUnknown l h
    rw [List.filter_eq_nil_iff] at this
    simpa using this t ht
  · rename_i hc
    intro t ht
    simp only [List.any_eq_true, not_exists, not_and, Bool.not_eq_true] at hc
    exact hc t ht

theorem finish_nf {c : LitCfg} {O Tj Tl Td Ts : List Ty} {t' : Ty} (hO : OPre c O)
    (hj : Seg 13 13 Tj) (hl : Seg 8 8 Tl) (hd : Seg 9 9 Td) (hs : Seg 3 6 Ts)
    (h : finishOpt c (O ++ Tj ++ Tl ++ Td ++ Ts) = .ok t') : nf t' = true := by
  have ok := tysOK_assemble hO hj hl hd hs
  generalize htys : O ++ Tj ++ Tl ++ Td ++ Ts = types at h ok
  have hunk : (types.filter Ty.isUnknown).length ≤ 1 := by
    rw [← htys]
    simp only [List.filter_append]
    have e : ∀ {k k' : Nat} {seg : List Ty} (_ : Seg k k' seg), k ≠ 5 → k' ≠ 5 →
        seg.filter Ty.isUnknown = [] := by
      intro k k' seg hseg _ _
      apply filter_nil_of_kind; intro t ht; rw [isUnknown_kind]
      have := hseg.kind t ht; simp; omega
    rw [e hj (by omega) (by omega), e hl (by omega) (by omega), e hd (by omega) (by omega),
      e hs (by omega) (by omega)]
    simpa using hO.oneUnknown
  match types, h with
  | [], h => simp [finishOpt] at h
  | [t], h =>
    simp only [finishOpt, pure, Except.pure, Except.ok.injEq] at h
    subst h; exact ok.nf _ (by simp)
  | a :: b :: rest, h =>
    rw [finishOpt_ge2 _ _ (by simp)] at h
    simp only [Except.ok.injEq] at h
    have hsub1 := dropUnknown_sublist (a :: b :: rest)
    have hsub2 : ((dropUnknown (a :: b :: rest)).filter (fun t => !t.isNull)).Sublist (a :: b :: rest) :=
      (List.filter_sublist).trans hsub1
    have ok' := ok.sublist hsub2
    have hnu : ∀ t ∈ (dropUnknown (a :: b :: rest)).filter (fun t => !t.isNull),
        t.isNull = false ∧ t.isUnknown = false := by
      intro t ht
      rw [List.mem_filter] at ht
      exact ⟨by simpa using ht.2, dropUnknown_none _ hunk t ht.1⟩
    obtain ⟨h1, h2⟩ := union_nf ok' hnu
    subst h
    split
    · simp only [nf, Bool.and_eq_true, Bool.not_eq_true']; exact ⟨h2, h1⟩
    · exact h1

/-! ### inversion lemmas -/

theorem mapM_nil_inv {α β ε} (f : α → Except ε β) (r : List β) (h : ([] : List α).mapM f = .ok r) : r = [] := by
  simp only [List.mapM_nil, pure, Except.pure, Except.ok.injEq] at h; exact h.symm

theorem mapM_cons_inv {α β ε} (f : α → Except ε β) (x : α) (l : List α) (r : List β)
    (h : (x :: l).mapM f = .ok r) : ∃ y r', f x = .ok y ∧ l.mapM f = .ok r' ∧ r = y :: r' := by
  rw [List.mapM_cons] at h
  simp only [bind, Except.bind] at h
  split at h
  · cases h
  · rename_i y hy
    split at h
    · cases h
    · rename_i r' hr'
      simp only [pure, Except.pure, Except.ok.injEq] at h
      exact ⟨y, r', hy, hr', h.symm⟩

theorem mapM_append_inv {α β ε} (f : α → Except ε β) (A B : List α) (r : List β)
    (h : (A ++ B).mapM f = .ok r) : ∃ a b, A.mapM f = .ok a ∧ B.mapM f = .ok b ∧ r = a ++ b := by
  induction A generalizing r with
  | nil => exact ⟨[], r, rfl, by simpa using h, rfl⟩
  | cons x A ih =>
    rw [List.cons_append] at h
    obtain ⟨y, r', hy, hr', rfl⟩ := mapM_cons_inv f x _ r h
    obtain ⟨a, b, ha, hb, rfl⟩ := ih r' hr'
    refine ⟨y :: a, b, ?_, hb, rfl⟩
    rw [List.mapM_cons, hy, ha]; rfl

theorem mapM_mem_inv {α β ε} (f : α → Except ε β) (l : List α) (r : List β) (h : l.mapM f = .ok r) :
    ∀ y ∈ r, ∃ x ∈ l, f x = .ok y := by
  induction l generalizing r with
  | nil => rw [mapM_nil_inv f r h]; simp
  | cons x l ih =>
    obtain ⟨y, r', hy, hr', rfl⟩ := mapM_cons_inv f x l r h
    intro z hz
    rcases List.mem_cons.mp hz with rfl | hz
    · exact ⟨x, by simp, hy⟩
    · obtain ⟨x', hx', h'⟩ := ih r' hr' z hz
      exact ⟨x', by simp [hx'], h'⟩

theorem stageMerge_inv {c : LitCfg} {e : EqEnv} {X o1 : List Ty} {tm : List Fields}
    (h : stageMerge c e X tm = .ok o1) :
    (tm = [] ∧ o1 = X) ∨ (∃ m, mergeFieldSets c e tm = .ok m ∧ o1 = X ++ [.obj m]) := by
  unfold stageMerge at h
  split at h
  · rename_i he
    simp only [pure, Except.pure, Except.ok.injEq] at h
    exact Or.inl ⟨by simpa using he, h.symm⟩
  · simp only [bind, Except.bind] at h
    split at h
    · cases h
    · rename_i m hm
      simp only [pure, Except.pure, Except.ok.injEq] at h
      exact Or.inr ⟨m, hm, h.symm⟩

theorem stageStr_inv {reg : StrRegistry} {X o : List Ty} {S : List Ty} (h : stageStr reg X S = .ok o) :
    o = X ∨ o = X ++ [.str] ∨ ∃ k, o = X ++ [.ser k] := by
  unfold stageStr at h
  split at h
  · simp only [pure, Except.pure, Except.ok.injEq] at h; exact Or.inr (Or.inl h.symm)
  · split at h
    · simp only [pure, Except.pure, Except.ok.injEq] at h; exact Or.inl h.symm
    · simp only [bind, Except.bind] at h
      split at h
      · cases h
      · split at h
        · simp only [pure, Except.pure, Except.ok.injEq] at h; exact Or.inr (Or.inr ⟨_, h.symm⟩)
        · cases h
        · simp only [pure, Except.pure, Except.ok.injEq] at h; exact Or.inr (Or.inl h.symm)

theorem optimize_kind {cfg : GenCfg} {e : EqEnv} {F : Nat} {a b : Ty} (h : optimize cfg e F a = .ok b)
    (hk : a.kindN = 13 ∨ a.kindN = 8 ∨ a.kindN = 9 ∨ a.kindN = 3 ∨ a.kindN = 6) : b.kindN = a.kindN := by
  cases F with
  | zero => simp [optimize] at h
  | succ f =>
    cases a with
    | obj fs =>
      rw [optimize] at h
      simp only [bind, Except.bind] at h
      split at h
      · cases h
      · simp only [pure, Except.pure, Except.ok.injEq] at h; subst h; rfl
    | list x =>
      rw [optimize] at h
      simp only [bind, Except.bind] at h
      split at h
      · cases h
      · simp only [pure, Except.pure, Except.ok.injEq] at h; subst h; rfl
    | dict x =>
      rw [optimize] at h
      simp only [bind, Except.bind] at h
      split at h
      · cases h
      · simp only [pure, Except.pure, Except.ok.injEq] at h; subst h; rfl
    | str =>
      simp [optimize, pure, Except.pure] at h; subst h; rfl
    | ser k =>
      simp [optimize, pure, Except.pure] at h; subst h; rfl
    | _ => simp [Ty.kindN] at hk

theorem mapM_length {α β ε} (f : α → Except ε β) (l : List α) (r : List β) (h : l.mapM f = .ok r) :
    r.length = l.length := by
  induction l generalizing r with
  | nil => rw [mapM_nil_inv f r h]; rfl
  | cons x l ih =>
    obtain ⟨y, r', _, hr', rfl⟩ := mapM_cons_inv f x l r h
    simp [ih r' hr']

theorem seg_mapM {cfg : GenCfg} {e : EqEnv} {f : Nat} {k k' : Nat} {X T : List Ty}
    (hk : k = 13 ∨ k = 8 ∨ k = 9 ∨ k = 3 ∨ k = 6) (hk' : k' = 13 ∨ k' = 8 ∨ k' = 9 ∨ k' = 3 ∨ k' = 6)
    (hlen : X.length ≤ 1)
    (hX : ∀ x ∈ X, (x.kindN = k ∨ x.kindN = k') ∧ ∀ b, optimize cfg e f x = .ok b → nf b = true)
    (h : X.mapM (optimize cfg e f) = .ok T) : Seg k k' T := by
  refine ⟨by rw [mapM_length _ _ _ h]; exact hlen, ?_, ?_⟩
  · intro y hy
    obtain ⟨x, hx, hxy⟩ := mapM_mem_inv _ _ _ h y hy
    have hkx := (hX x hx).1
    rw [optimize_kind hxy (by omega)]; exact hkx
  · intro y hy
    obtain ⟨x, hx, hxy⟩ := mapM_mem_inv _ _ _ h y hy
    exact (hX x hx).2 y hxy

theorem stageList_eq (c : LitCfg) (X L : List Ty) :
    stageList c X L = X ++ (if L.isEmpty then [] else [.list (mkUnion c L)]) := by
  unfold stageList; split <;> simp

theorem stageDict_eq (c : LitCfg) (X L : List Ty) :
    stageDict c X L = X ++ (if L.isEmpty then [] else [.dict (mkUnion c L)]) := by
  unfold stageDict; split <;> simp

theorem mem_objFs {ms : List Ty} {fs : Fields} (h : fs ∈ objFs ms) : Ty.obj fs ∈ ms := by
  unfold objFs at h
  rw [List.mem_filterMap] at h
  obtain ⟨t, ht, hm⟩ := h
  cases t <;> simp at hm
  subst hm; exact ht

theorem mem_listEs {ms : List Ty} {x : Ty} (h : x ∈ listEs ms) : Ty.list x ∈ ms := by
  unfold listEs at h
  rw [List.mem_filterMap] at h
  obtain ⟨t, ht, hm⟩ := h
  cases t <;> simp at hm
  subst hm; exact ht

theorem mem_dictEs {ms : List Ty} {x : Ty} (h : x ∈ dictEs ms) : Ty.dict x ∈ ms := by
  unfold dictEs at h
  rw [List.mem_filterMap] at h
  obtain ⟨t, ht, hm⟩ := h
  cases t <;> simp at hm
  subst hm; exact ht

theorem rawF_Raw {cfg : GenCfg} {t : Ty} (h : rawF cfg t = true) : Raw cfg t = true := by
  cases t with
  | obj fs => exact rawD_Raw (by simpa [rawF] using h)
  | _ => simpa [Raw] using h

/-- the "other" prefix of a raw union -/
theorem oPre_of_raw {cfg : GenCfg} {ms : List Ty} (sh : UShape ms) (hm : ∀ t ∈ ms, rawD cfg t = true) :
    OPre cfg.lit (stageInt (ms.filter isOtherCls)) ∧
    ∀ t ∈ stageInt (ms.filter isOtherCls), ∀ e f, optimize cfg e (f + 1) t = .ok t := by
  have hsub0 : (ms.filter isOtherCls).Sublist ms := List.filter_sublist
  have hsub : (stageInt (ms.filter isOtherCls)).Sublist ms := (stageInt_sublist _).trans hsub0
  have hleaf : ∀ t ∈ stageInt (ms.filter isOtherCls), _ := fun t ht =>
    leafO (hm t (hsub.subset ht)) (sh.flat t (hsub.subset ht)) (sh.good t (hsub.subset ht))
      (List.mem_filter.mp ((stageInt_sublist _).subset ht)).2
  refine ⟨⟨fun t ht => (hleaf t ht).2.2.1, fun t ht => (hleaf t ht).2.1, ?_, ?_, ?_, ?_⟩,
    fun t ht => (hleaf t ht).1⟩
  · apply stageInt_not_both
    exact nodup_hash_count _ .int Ty.isInt (by intro t ht; cases t <;> simp [Ty.isInt] at ht; rfl)
      ((hsub0.map hashStr).nodup sh.nodup)
  · exact Nat.le_trans (hsub.filter _).length_le sh.oneLit
  · intro o vs hmem; exact (hleaf _ hmem).2.2.2 o vs rfl
  · exact nodup_hash_count _ .unknown Ty.isUnknown
      (by intro t ht; cases t <;> simp [Ty.isUnknown] at ht; rfl) ((hsub.map hashStr).nodup sh.nodup)

/-! ### `_optimize_union` on a raw union -/

theorem optimizeUnion_nf_step {cfg : GenCfg} {e : EqEnv} {f : Nat}
    (ih : ∀ t t', Raw cfg t = true → optimize cfg e f t = .ok t' → nf t' = true)
    {ms : List Ty} {t' : Ty} (hr : rawD cfg (.union ms) = true)
    (h : optimizeUnion cfg e (f + 1) ms = .ok t') : nf t' = true := by
  obtain ⟨sh, hm⟩ := rawD_union hr
  rw [optimizeUnion_body _ _ _ _ (raw_hidden sh hm), split_optFree cfg.reg ms {} (fun t ht => ⟨rawD_not_opt (hm t ht), fun k hk => by
    have := hm t ht; rw [hk] at this; simpa [rawD] using this⟩)] at h
  unfold unionBody at h
  simp only [List.nil_append, bind, Except.bind] at h
  split at h
  · cases h
  · rename_i o1 hmerge
    split at h
    · cases h
    · rename_i o4 hstr
      split at h
      · cases h
      · rename_i types hmap
        rw [stageList_eq, stageDict_eq] at hstr
        -- shapes of the re-assembled categories
        obtain ⟨Jx, ho1, hJx⟩ : ∃ Jx, o1 = stageInt (ms.filter isOtherCls) ++ Jx ∧
            (Jx = [] ∨ ∃ m, Jx = [.obj m] ∧ AllRawF cfg m) := by
          rcases stageMerge_inv hmerge with ⟨_, h1⟩ | ⟨m, hm', h1⟩
          · exact ⟨[], by simpa using h1, Or.inl rfl⟩
          · refine ⟨[.obj m], h1, Or.inr ⟨m, rfl, ?_⟩⟩
            apply mergeFieldSets_rawF _ hm'
            intro fs hfs kv hkv
            have := hm _ (mem_objFs hfs)
            simp only [rawD] at this
            exact (rawDFields_iff cfg fs).mp this kv hkv
        obtain ⟨Sx, ho4, hSx⟩ : ∃ Sx, o4 = o1 ++ (if (listEs ms).isEmpty then [] else [.list (mkUnion cfg.lit (listEs ms))])
            ++ (if (dictEs ms).isEmpty then [] else [.dict (mkUnion cfg.lit (dictEs ms))]) ++ Sx ∧
            (Sx = [] ∨ Sx = [.str] ∨ ∃ k, Sx = [.ser k]) := by
          rcases stageStr_inv hstr with h1 | h1 | ⟨k, h1⟩
          · exact ⟨[], by simpa using h1, Or.inl rfl⟩
          · exact ⟨[.str], h1, Or.inr (Or.inl rfl)⟩
          · exact ⟨[.ser k], h1, Or.inr (Or.inr ⟨k, rfl⟩)⟩
        subst ho1
        generalize hLx : (if (listEs ms).isEmpty then [] else [Ty.list (mkUnion cfg.lit (listEs ms))]) = Lx at ho4
        generalize hDx : (if (dictEs ms).isEmpty then [] else [Ty.dict (mkUnion cfg.lit (dictEs ms))]) = Dx at ho4
        subst ho4
        -- split the mapM
        obtain ⟨T4, Ts, hT4, hTs, rfl⟩ := mapM_append_inv _ _ _ _ hmap
        obtain ⟨T3, Td, hT3, hTd, rfl⟩ := mapM_append_inv _ _ _ _ hT4
        obtain ⟨T2, Tl, hT2, hTl, rfl⟩ := mapM_append_inv _ _ _ _ hT3
        obtain ⟨To, Tj, hTo, hTj, rfl⟩ := mapM_append_inv _ _ _ _ hT2
        obtain ⟨hOPre, hOopt⟩ := oPre_of_raw sh hm
        cases f with
        | zero =>
          -- no fuel: every element fails, so `types = []` and `finishOpt` fails
          exfalso
          have hnil : ∀ (X T : List Ty), X.mapM (optimize cfg e 0) = .ok T → T = [] := by
            intro X T hX
            cases T with
            | nil => rfl
            | cons y T =>
              obtain ⟨x, _, hx⟩ := mapM_mem_inv _ _ _ hX y (by simp)
              simp [optimize] at hx
          rw [hnil _ _ hTo, hnil _ _ hTj, hnil _ _ hTl, hnil _ _ hTd, hnil _ _ hTs] at h
          simp [finishOpt] at h
        | succ f' =>
          have hTo' : To = stageInt (ms.filter isOtherCls) := by
            have := mapM_ok_id (optimize cfg e (f' + 1)) _ (fun t ht => hOopt t ht e f')
            rw [this] at hTo; cases hTo; rfl
          subst hTo'
          have segJ : Seg 13 13 Tj := by
            apply seg_mapM (by omega) (by omega) _ _ hTj
            · rcases hJx with rfl | ⟨m, rfl, _⟩ <;> simp
            · intro x hx
              rcases hJx with rfl | ⟨m, rfl, hmr⟩
              · cases hx
              · simp at hx; subst hx
                exact ⟨by simp [Ty.kindN], fun b hb => ih _ b hmr.Raw hb⟩
          have segL : Seg 8 8 Tl := by
            apply seg_mapM (by omega) (by omega) _ _ hTl
            · rw [← hLx]; split <;> simp
            · intro x hx
              rw [← hLx] at hx
              split at hx
              · cases hx
              · rename_i hne
                simp at hx; subst hx
                refine ⟨by simp [Ty.kindN], fun b hb => ih _ b (rawD_Raw ?_) hb⟩
                simp only [rawD]
                apply mkUnion_rawD
                · simpa using hne
                · intro t ht
                  have := hm _ (mem_listEs ht)
                  simpa [rawD] using this
          have segD : Seg 9 9 Td := by
            apply seg_mapM (by omega) (by omega) _ _ hTd
            · rw [← hDx]; split <;> simp
            · intro x hx
              rw [← hDx] at hx
              split at hx
              · cases hx
              · rename_i hne
                simp at hx; subst hx
                refine ⟨by simp [Ty.kindN], fun b hb => ih _ b (rawD_Raw ?_) hb⟩
                simp only [rawD]
                apply mkUnion_rawD
                · simpa using hne
                · intro t ht
                  have := hm _ (mem_dictEs ht)
                  simpa [rawD] using this
          have segS : Seg 3 6 Ts := by
            apply seg_mapM (by omega) (by omega) _ _ hTs
            · rcases hSx with rfl | rfl | ⟨k, rfl⟩ <;> simp
            · intro x hx
              rcases hSx with rfl | rfl | ⟨k, rfl⟩
              · cases hx
              · simp at hx; subst hx
                refine ⟨by simp [Ty.kindN], fun b hb => ?_⟩
                simp [optimize, pure, Except.pure] at hb; subst hb; simp [nf]
              · simp at hx; subst hx
                refine ⟨by simp [Ty.kindN], fun b hb => ?_⟩
                simp [optimize, pure, Except.pure] at hb; subst hb; simp [nf]
          exact finish_nf hOPre segJ segL segD segS h

/-! ### the main induction on fuel -/

theorem nfFields_iff (fs : List (String × Ty)) : nfFields fs = true ↔ ∀ kv ∈ fs, nf kv.2 = true := by
  induction fs with
  | nil => simp [nfFields]
  | cons kv fs ih => obtain ⟨k, t⟩ := kv; simp_all [nfFields]

/-- one level of `optimize_type` on a field-level raw type, given the claim for less fuel -/
theorem optimize_nf_rawF {cfg : GenCfg} {e : EqEnv} {f : Nat}
    (ih : ∀ t t', Raw cfg t = true → optimize cfg e f t = .ok t' → nf t' = true)
    (ihU : ∀ ms t', rawD cfg (.union ms) = true → optimizeUnion cfg e f ms = .ok t' → nf t' = true)
    {t t' : Ty} (hr : rawF cfg t = true) (h : optimize cfg e (f + 1) t = .ok t') : nf t' = true := by
  cases t with
  | int | float | bool | str | null | unknown | ser _ =>
    simp [optimize, pure, Except.pure] at h; subst h; simp [nf]
  | ptr _ | tuple _ => simp [rawF, rawD] at hr
  | lit ov vs =>
    rw [optimize] at h
    split at h
    · simp only [pure, Except.pure, Except.ok.injEq] at h; subst h; simp [nf]
    · rename_i hc
      simp only [pure, Except.pure, Except.ok.injEq] at h; subst h
      simp only [Bool.or_eq_true, not_or, Bool.not_eq_true] at hc
      simp [nf, hc.1, hc.2]
  | list x =>
    rw [optimize] at h
    simp only [bind, Except.bind] at h
    split at h
    · cases h
    · rename_i y hy
      simp only [pure, Except.pure, Except.ok.injEq] at h; subst h
      simp only [nf]
      exact ih x y (rawD_Raw (by simpa [rawF, rawD] using hr)) hy
  | dict x =>
    rw [optimize] at h
    simp only [bind, Except.bind] at h
    split at h
    · cases h
    · rename_i y hy
      simp only [pure, Except.pure, Except.ok.injEq] at h; subst h
      simp only [nf]
      exact ih x y (rawD_Raw (by simpa [rawF, rawD] using hr)) hy
  | opt x =>
    rw [optimize] at h
    simp only [bind, Except.bind] at h
    split at h
    · cases h
    · rename_i y hy
      have hy' := ih x y (rawD_Raw (by simpa [rawF] using hr)) hy
      split at h
      · simp only [pure, Except.pure, Except.ok.injEq] at h; subst h; exact hy'
      · rename_i hno
        simp only [pure, Except.pure, Except.ok.injEq] at h; subst h
        simp only [nf, Bool.and_eq_true, Bool.not_eq_true']
        refine ⟨?_, hy'⟩
        cases y <;> first | rfl | exact absurd rfl (hno _)
  | union ms =>
    rw [optimize] at h
    exact ihU ms t' (by simpa [rawF] using hr) h
  | obj fs =>
    have hfs : ∀ kv ∈ fs, rawD cfg kv.2 = true := by
      have : rawD cfg (.obj fs) = true := by simpa [rawF] using hr
      simp only [rawD] at this
      exact (rawDFields_iff cfg fs).mp this
    rw [optimize] at h
    simp only [bind, Except.bind] at h
    split at h
    · cases h
    · rename_i fs' hfs'
      simp only [pure, Except.pure, Except.ok.injEq] at h; subst h
      simp only [nf]
      rw [nfFields_iff]
      intro kv' hkv'
      obtain ⟨kv, hkv, hopt⟩ := mapM_mem_inv _ _ _ hfs' kv' hkv'
      split at hopt
      · cases hopt
      · rename_i v hv
        simp only [pure, Except.pure, Except.ok.injEq] at hopt; subst hopt
        exact ih kv.2 v (rawD_Raw (hfs kv hkv)) hv

theorem optimize_nf_all (cfg : GenCfg) (e : EqEnv) : ∀ fuel,
    (∀ t t', Raw cfg t = true → optimize cfg e fuel t = .ok t' → nf t' = true) ∧
    (∀ ms t', rawD cfg (.union ms) = true → optimizeUnion cfg e fuel ms = .ok t' → nf t' = true) := by
  intro fuel
  induction fuel with
  | zero =>
    constructor
    · intro t t' _ h; simp [optimize] at h
    · intro ms t' _ h; simp [optimizeUnion] at h
  | succ f ih =>
    refine ⟨?_, fun ms t' hr h => optimizeUnion_nf_step ih.1 hr h⟩
    intro t t' hr h
    cases t with
    | obj fs =>
      -- merged model: fields are `rawF`
      simp only [Raw, List.all_eq_true] at hr
      rw [optimize] at h
      simp only [bind, Except.bind] at h
      split at h
      · cases h
      · rename_i fs' hfs'
        simp only [pure, Except.pure, Except.ok.injEq] at h; subst h
        simp only [nf]
        rw [nfFields_iff]
        intro kv' hkv'
        obtain ⟨kv, hkv, hopt⟩ := mapM_mem_inv _ _ _ hfs' kv' hkv'
        split at hopt
        · cases hopt
        · rename_i v hv
          simp only [pure, Except.pure, Except.ok.injEq] at hopt; subst hopt
          exact ih.1 kv.2 v (rawF_Raw (hr kv hkv)) hv
    | _ => exact optimize_nf_rawF ih.1 ih.2 (by simpa [Raw] using hr) h

theorem generate_nf_aux {cfg : GenCfg} {o : GenOracles} {samples : List Json} {t : Ty}
    (h : generate cfg o samples = .ok t) : nf t = true := by
  unfold generate at h
  simp only [bind, Except.bind] at h
  split at h
  · cases h
  · rename_i sets hsets
    split at h
    · cases h
    · rename_i fields hfields
      have hraw : AllRawF cfg fields := by
        apply mergeFieldSets_rawF _ hfields
        intro m hm
        obtain ⟨v, _, hv⟩ := mapM_mem_inv _ _ _ hsets m hm
        cases v <;> simp [convert] at hv
        exact convertFields_rawD cfg o _ m hv
      exact (optimize_nf_all cfg _ _).1 _ t hraw.Raw h

end J2M.C08P
