/-
  `optimize` maps raw metadata (`Raw`) to normal forms (`nf`), and the only possible failures.
-/
import J2M.Proofs.OptimizeRaw
import J2M.Proofs.OptimizeIdem
namespace J2M

def isOtherCls (t : Ty) : Bool := t.cls == 0 || t.cls == 5
def isStrCls (t : Ty) : Bool := t.cls == 4

theorem split_optFree (reg : StrRegistry) (ms : List Ty) (s : Split)
    (h : ∀ t ∈ ms, t.isOpt = false ∧ ∀ k, t = .ser k → reg.types.contains k = true) :
    ms.foldl (splitStep reg) s =
      { strTypes := s.strTypes ++ ms.filter isStrCls, toMerge := s.toMerge ++ objFs ms,
        lists := s.lists ++ listEs ms, dicts := s.dicts ++ dictEs ms,
        other := s.other ++ ms.filter isOtherCls } := by
  induction ms generalizing s with
  | nil => simp [objFs, listEs, dictEs]
  | cons t ms ih =>
    rw [List.foldl_cons, ih _ (fun u hu => h u (by simp [hu]))]
    have ht := h t (by simp)
    cases t with
    | opt x => simp [Ty.isOpt] at ht
    | ser k =>
      have : k ∈ reg.types := by simpa using ht.2 k rfl
      simp [splitStep, this, isStrCls, isOtherCls, Ty.cls, objFs, listEs, dictEs]
    | _ => simp [splitStep, isStrCls, isOtherCls, Ty.cls, objFs, listEs, dictEs]

theorem mkUM_filter_le (c : LitCfg) (ts : List Ty) (p : Ty → Bool)
    (hp : ∀ t, p t = true → t.isLit = false ∧ t.isStr = false) :
    ((mkUnionMembers c ts).filter p).length ≤ ((flattenUnion ts).filter p).length := by
  have hsub := fold_unique_sublist ⟨[], [], true, []⟩ (flattenUnion ts)
  simp only [List.reverse_nil, List.nil_append] at hsub
  have h1 : (((foldSt ts).unique.reverse).filter p).length ≤ ((flattenUnion ts).filter p).length := by
    have := (hsub.filter p).length_le
    refine Nat.le_trans this ?_
    exact ((List.filter_sublist (l := flattenUnion ts) (p := fun t => !t.isLit)).filter p).length_le
  rw [mkUnionMembers_eq]
  rcases finishU_cases c (foldSt ts) with ⟨_, _, _, heq⟩ | ⟨heq, _⟩ | ⟨heq, _⟩
  · rw [heq, List.filter_append]
    have : [Ty.lit false (foldSt ts).lits].filter p = [] := by
      rw [List.filter_eq_nil_iff]; intro t ht; simp at ht; subst ht
      intro hpt; have := (hp _ hpt).1; simp [Ty.isLit] at this
    rw [this]; simpa using h1
  · rw [heq]; exact h1
  · rw [heq, List.filter_append]
    have : [Ty.str].filter p = [] := by
      rw [List.filter_eq_nil_iff]; intro t ht; simp at ht; subst ht
      intro hpt; have := (hp _ hpt).2; simp [Ty.isStr] at this
    rw [this]; simpa using h1

theorem filter_two_le {α} (l : List α) (p : α → Bool) (a b : α) (ha : a ∈ l) (hb : b ∈ l) (hab : a ≠ b)
    (hpa : p a = true) (hpb : p b = true) : 2 ≤ (l.filter p).length := by
  induction l with
  | nil => cases ha
  | cons x l ih =>
    rw [List.filter_cons]
    rcases List.mem_cons.mp ha with rfl | ha' <;> rcases List.mem_cons.mp hb with rfl | hb'
    · exact absurd rfl hab
    · simp only [hpa, ↓reduceIte, List.length_cons]
      have : 0 < (l.filter p).length := List.length_pos_of_mem (List.mem_filter.mpr ⟨hb', hpb⟩)
      omega
    · simp only [hpb, ↓reduceIte, List.length_cons]
      have : 0 < (l.filter p).length := List.length_pos_of_mem (List.mem_filter.mpr ⟨ha', hpa⟩)
      omega
    · have := ih ha' hb'
      by_cases hx : p x = true
      · simp only [hx, ↓reduceIte, List.length_cons]; omega
      · simp only [hx, Bool.false_eq_true, ↓reduceIte]; exact this

end J2M
