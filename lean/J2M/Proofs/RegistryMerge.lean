/-
  Registry-level development, part 2: `_merge` (`mergeGroup`) and `optimize_type` on a registered model
  (`optimizeModel`) — structure of the resulting graph, well-formedness.
-/
import J2M.Proofs.Registry
import J2M.Props.C02
import J2M.Proofs.InhOptimize
namespace J2M.Reg
open J2M

/-! ## pointer substitution: basic facts -/

mutual
theorem ptrsOf_subst (σ : String → String) : ∀ t : Ty, ptrsOf (substTy σ t) = (ptrsOf t).map σ
  | .ptr i => by simp [substTy, ptrsOf]
  | .list t | .dict t | .opt t => by simp [substTy, ptrsOf, ptrsOf_subst σ t]
  | .union ts | .tuple ts => by simp [substTy, ptrsOf, ptrsOfList_subst σ ts]
  | .obj fs => by simp [substTy, ptrsOf, ptrsOfFields_subst σ fs]
  | .int | .float | .bool | .str | .null | .unknown | .ser _ | .lit _ _ => by simp [substTy, ptrsOf]
theorem ptrsOfList_subst (σ : String → String) : ∀ ts : List Ty, ptrsOfList (substList σ ts) = (ptrsOfList ts).map σ
  | [] => by simp [substList, ptrsOfList]
  | t :: ts => by simp [substList, ptrsOfList, ptrsOf_subst σ t, ptrsOfList_subst σ ts]
theorem ptrsOfFields_subst (σ : String → String) :
    ∀ fs : List (String × Ty), ptrsOfFields (substFields σ fs) = (ptrsOfFields fs).map σ
  | [] => by simp [substFields, ptrsOfFields]
  | (k, t) :: fs => by simp [substFields, ptrsOfFields, ptrsOf_subst σ t, ptrsOfFields_subst σ fs]
end

mutual
theorem subst_comp (σ τ : String → String) : ∀ t : Ty, substTy τ (substTy σ t) = substTy (τ ∘ σ) t
  | .ptr i => by simp [substTy]
  | .list t | .dict t | .opt t => by simp [substTy, subst_comp σ τ t]
  | .union ts | .tuple ts => by simp [substTy, substList_comp σ τ ts]
  | .obj fs => by simp [substTy, substFields_comp σ τ fs]
  | .int | .float | .bool | .str | .null | .unknown | .ser _ | .lit _ _ => by simp [substTy]
theorem substList_comp (σ τ : String → String) : ∀ ts : List Ty, substList τ (substList σ ts) = substList (τ ∘ σ) ts
  | [] => by simp [substList]
  | t :: ts => by simp [substList, subst_comp σ τ t, substList_comp σ τ ts]
theorem substFields_comp (σ τ : String → String) :
    ∀ fs : List (String × Ty), substFields τ (substFields σ fs) = substFields (τ ∘ σ) fs
  | [] => by simp [substFields]
  | (k, t) :: fs => by simp [substFields, subst_comp σ τ t, substFields_comp σ τ fs]
end

mutual
theorem subst_id : ∀ t : Ty, substTy id t = t
  | .ptr i => by simp [substTy]
  | .list t | .dict t | .opt t => by simp [substTy, subst_id t]
  | .union ts | .tuple ts => by simp [substTy, substList_id ts]
  | .obj fs => by simp [substTy, substFields_id fs]
  | .int | .float | .bool | .str | .null | .unknown | .ser _ | .lit _ _ => by simp [substTy]
theorem substList_id : ∀ ts : List Ty, substList id ts = ts
  | [] => by simp [substList]
  | t :: ts => by simp [substList, subst_id t, substList_id ts]
theorem substFields_id : ∀ fs : List (String × Ty), substFields id fs = fs
  | [] => by simp [substFields]
  | (k, t) :: fs => by simp [substFields, subst_id t, substFields_id fs]
end

/-- the substitution of one `ModelPtr.replace` -/
def σ1 (old new : String) : String → String := fun i => if i == old then new else i

mutual
theorem retarget_eq_subst (old new : String) : ∀ t : Ty, retarget old new t = substTy (σ1 old new) t
  | .ptr i => by simp only [retarget, substTy, σ1]; split <;> rfl
  | .list t | .dict t | .opt t => by simp [retarget, substTy, retarget_eq_subst old new t]
  | .union ts | .tuple ts => by simp [retarget, substTy, retargetList_eq_subst old new ts]
  | .obj fs => by simp [retarget, substTy, retargetFields_eq_subst old new fs]
  | .int | .float | .bool | .str | .null | .unknown | .ser _ | .lit _ _ => by simp [retarget, substTy]
theorem retargetList_eq_subst (old new : String) : ∀ ts : List Ty, retargetList old new ts = substList (σ1 old new) ts
  | [] => by simp [retargetList, substList]
  | t :: ts => by simp [retargetList, substList, retarget_eq_subst old new t, retargetList_eq_subst old new ts]
theorem retargetFields_eq_subst (old new : String) :
    ∀ fs : List (String × Ty), retargetFields old new fs = substFields (σ1 old new) fs
  | [] => by simp [retargetFields, substFields]
  | (k, t) :: fs => by
    simp [retargetFields, substFields, retarget_eq_subst old new t, retargetFields_eq_subst old new fs]
end

theorem substFields_keys (σ : String → String) (fs : Fields) : (substFields σ fs).map (·.1) = fs.map (·.1) := by
  rw [substFields_eq_map]; simp [List.map_map, Function.comp_def]

theorem substFields_get? (σ : String → String) (fs : Fields) (k : String) :
    Fields.get? (substFields σ fs) k = (Fields.get? fs k).map (substTy σ) := by
  rw [substFields_eq_map, Fields.get?_map (f := fun kv => (kv.1, substTy σ kv.2)) (fun _ => rfl)]

theorem subst_isOpt (σ : String → String) (t : Ty) : (substTy σ t).isOpt = t.isOpt := by
  cases t <;> simp [substTy, Ty.isOpt]

/-! ## substitution on a graph -/

/-- the index map of one `_merge`: every member goes to the merged model -/
def σOf (members : List String) (idx : String) : String → String := fun i => if members.contains i then idx else i

def substModel (σ : String → String) (m : Model) : Model := { m with fields := substFields σ m.fields }
def substPtr (σ : String → String) (p : PtrRec) : PtrRec := { p with target := σ p.target, parent := p.parent.map σ }

def substG (σ : String → String) (g : Graph) : Graph :=
  { g with models := g.models.map (substModel σ), ptrs := g.ptrs.map (substPtr σ) }

theorem retarget_eq_substG (g : Graph) (old new : String) (extra : Fields) :
    g.retarget old new extra = (substG (σ1 old new) g, substFields (σ1 old new) extra) := by
  unfold Graph.retarget substG
  congr 1
  · congr 1
    · apply List.map_congr_left; intro m _; simp [substModel, retargetFields_eq_subst]
    · apply List.map_congr_left; intro p _
      simp only [substPtr, σ1]
      congr 1
      cases p.parent with
      | none => simp
      | some q => by_cases h : q = old <;> simp [h, σ1]
  · exact retargetFields_eq_subst old new extra

theorem substG_comp (σ τ : String → String) (g : Graph) : substG τ (substG σ g) = substG (τ ∘ σ) g := by
  unfold substG
  simp only [List.map_map]
  congr 1
  · apply List.map_congr_left; intro m _; simp [substModel, substFields_comp]
  · apply List.map_congr_left; intro p _
    simp only [Function.comp, substPtr]
    cases p.parent <;> simp

theorem substG_id (g : Graph) : substG id g = g := by
  have h1 : g.models.map (substModel id) = g.models := by
    conv => rhs; rw [← List.map_id g.models]
    apply List.map_congr_left; intro m _; simp [substModel, substFields_id]
  have h2 : g.ptrs.map (substPtr id) = g.ptrs := by
    conv => rhs; rw [← List.map_id g.ptrs]
    apply List.map_congr_left; intro p _; simp [substPtr]
  unfold substG; rw [h1, h2]

theorem σOf_cons (m : String) (rest : List String) (idx : String) :
    σOf rest idx ∘ σ1 m idx = σOf (m :: rest) idx := by
  funext i
  simp only [Function.comp, σ1, σOf, List.contains_cons]
  by_cases h : i = m
  · subst h; simp
  · have : (i == m) = false := by simpa using h
    simp [this]

/-- the `for model in models: … ptr.replace(model_meta) … ptr.replace_parent(model_meta)` loop of `_merge` -/
theorem retarget_fold (idx : String) : ∀ (members : List String) (g : Graph) (F : Fields),
    members.foldl (fun (st : Graph × Fields) old => st.1.retarget old idx st.2) (g, F) =
      (substG (σOf members idx) g, substFields (σOf members idx) F)
  | [], g, F => by
    have : σOf [] idx = id := by funext i; simp [σOf]
    rw [List.foldl_nil, this, substFields_id, substG_id]
  | m :: rest, g, F => by
    rw [List.foldl_cons, retarget_eq_substG, retarget_fold idx rest, substG_comp, substFields_comp, σOf_cons]


/-! ## `_merge` -/

/-- the member models, in the order the group is iterated -/
def memberModels (g : Graph) (members : List String) : List Model := members.filterMap g.find?

/-- the graph `_merge` builds from the merged field dict `F` -/
def mergedGraph (g : Graph) (members : List String) (idx : String) (F : Fields) (nm : Option String)
    (ng : Option Bool) : Graph :=
  { models := (g.models.filter (fun m => !members.contains m.idx)).map (substModel (σOf members idx)) ++
      [{ idx := idx, fields := substFields (σOf members idx) F, name := nm, nameGen := ng }],
    ptrs := g.ptrs.map (substPtr (σOf members idx)),
    counter := g.counter + 1 }

/-- **the graph `_merge` builds** (no hypothesis): the merged field dict `F` is `merge_field_sets` of the member
    dicts; the new index is the next `Index` value; the non-member models stay, in their order, with the pointers
    to members redirected (`σOf members idx`); the merged model is appended; every `ModelPtr` record is
    redirected (target and parent). -/
theorem mergeGroup_eq {cfg : GenCfg} {so : StrOracle} {g g' : Graph} {members : List String} {idx : String}
    (h : mergeGroup cfg so g members = .ok (g', idx)) :
    ∃ F nm ng, mergeFieldSets cfg.lit (g.eqEnv so) ((memberModels g members).map (·.fields)) = .ok F ∧
      idx = indexOf g.counter ∧ g' = mergedGraph g members idx F nm ng := by
  unfold mergeGroup at h
  simp only [bind, Except.bind] at h
  split at h
  · simp at h
  · rename_i F hF
    simp only [pure, Except.pure, Except.ok.injEq, Prod.mk.injEq] at h
    obtain ⟨h1, h2⟩ := h
    subst h2
    rw [retarget_fold] at h1
    exact ⟨F, _, _, hF, rfl, h1.symm⟩

/-! ### pointers and atoms -/

mutual
theorem mem_ptrsOf_iff_atom (i : String) : ∀ t : Ty, i ∈ ptrsOf t ↔ Atom.ptr i ∈ t.atoms
  | .ptr j => by simp [ptrsOf, Ty.atoms]
  | .list t | .dict t | .opt t => by simp [ptrsOf, Ty.atoms, mem_ptrsOf_iff_atom i t]
  | .union ts | .tuple ts => by simp [ptrsOf, Ty.atoms, mem_ptrsOfList_iff_atom i ts]
  | .obj fs => by simp [ptrsOf, Ty.atoms, mem_ptrsOfFields_iff_atom i fs]
  | .int | .float | .bool | .str | .null | .unknown | .ser _ | .lit _ _ => by simp [ptrsOf, Ty.atoms]
theorem mem_ptrsOfList_iff_atom (i : String) : ∀ ts : List Ty, i ∈ ptrsOfList ts ↔ Atom.ptr i ∈ Ty.atomsList ts
  | [] => by simp [ptrsOfList, Ty.atomsList]
  | t :: ts => by simp [ptrsOfList, Ty.atomsList, mem_ptrsOf_iff_atom i t, mem_ptrsOfList_iff_atom i ts]
theorem mem_ptrsOfFields_iff_atom (i : String) :
    ∀ fs : List (String × Ty), i ∈ ptrsOfFields fs ↔ Atom.ptr i ∈ Ty.atomsFields fs
  | [] => by simp [ptrsOfFields, Ty.atomsFields]
  | (k, t) :: fs => by
    simp [ptrsOfFields, Ty.atomsFields, mem_ptrsOf_iff_atom i t, mem_ptrsOfFields_iff_atom i fs]
end

/-- **optimize_ptrs_subset**: `optimize_type` never creates or retargets a pointer -/
theorem optimize_ptrs_subset {cfg : GenCfg} {e : EqEnv} {fuel : Nat} {t t' : Ty}
    (h : optimize cfg e fuel t = .ok t') : ∀ i ∈ ptrsOf t', i ∈ ptrsOf t := by
  intro i hi
  rw [mem_ptrsOf_iff_atom] at hi ⊢
  exact C02.optimize_no_new_atoms' h hi (by simp)

/-- `merge_field_sets` never creates a pointer -/
theorem mergeFieldSets_ptrs_subset {c : LitCfg} {e : EqEnv} {sets : List Fields} {F : Fields}
    (h : mergeFieldSets c e sets = .ok F) : ∀ i ∈ ptrsOfFields F, ∃ fs ∈ sets, i ∈ ptrsOfFields fs := by
  intro i hi
  obtain ⟨kv, hkv, hi⟩ := mem_ptrsOfFields.1 hi
  rw [mem_ptrsOf_iff_atom] at hi
  rcases C02.merge_no_new_atoms h kv hkv _ hi with ⟨fs, hfs, kv', hkv', ha⟩ | ⟨hstr, _⟩
  · exact ⟨fs, hfs, mem_ptrsOfFields.2 ⟨kv', hkv', (mem_ptrsOf_iff_atom i _).2 ha⟩⟩
  · simp at hstr


/-! ### the merged graph -/

theorem memberModels_sub {g : Graph} {members : List String} :
    ∀ m ∈ memberModels g members, m ∈ g.models ∧ m.idx ∈ members := by
  intro m hm
  obtain ⟨i, hi, hf⟩ := List.mem_filterMap.1 hm
  obtain ⟨h1, h2⟩ := find?_eq_some hf
  exact ⟨h1, h2 ▸ hi⟩

theorem idxs_mergedGraph (g : Graph) (members : List String) (idx : String) (F : Fields) (nm : Option String)
    (ng : Option Bool) :
    idxs (mergedGraph g members idx F nm ng) = (idxs g).filter (fun i => !members.contains i) ++ [idx] := by
  simp [idxs, mergedGraph, List.map_map, Function.comp_def, substModel, List.filter_map]

theorem σOf_mem_idxs {g : Graph} {members : List String} {idx : String} {F : Fields} {nm : Option String}
    {ng : Option Bool} {i : String} (hi : i ∈ idxs g) :
    σOf members idx i ∈ idxs (mergedGraph g members idx F nm ng) := by
  rw [idxs_mergedGraph]
  unfold σOf
  by_cases h : members.contains i = true
  · rw [if_pos h]; simp
  · rw [if_neg h]
    exact List.mem_append_left _ (List.mem_filter.2 ⟨hi, by simpa using h⟩)

/-- **`_merge` keeps the registry well-formed** (the new index is fresh, no reference dangles) -/
theorem mergedGraph_WF {g : Graph} {members : List String} {F : Fields} {nm : Option String} {ng : Option Bool}
    (wf : WF g) (hF : ∀ i ∈ ptrsOfFields F, i ∈ idxs g) :
    WF (mergedGraph g members (indexOf g.counter) F nm ng) := by
  refine ⟨?_, ?_, ?_, ?_⟩
  · rw [idxs_mergedGraph, List.nodup_append]
    refine ⟨wf.nodup.sublist List.filter_sublist, by simp, ?_⟩
    intro a ha b hb hab
    simp only [List.mem_singleton] at hb
    subst hb; subst hab
    exact wf.bound.fresh (Nat.le_refl _) (List.mem_filter.1 ha).1
  · intro m hm
    simp only [mergedGraph, List.mem_append, List.mem_map, List.mem_filter, List.mem_singleton] at hm
    rcases hm with ⟨m0, ⟨hm0, _⟩, e⟩ | e
    · obtain ⟨k, hk, e'⟩ := wf.bound m0 hm0
      exact ⟨k, by simp [mergedGraph]; omega, by rw [← e]; exact e'⟩
    · exact ⟨g.counter, by simp [mergedGraph], by rw [e]⟩
  · intro m hm i hi
    simp only [mergedGraph, List.mem_append, List.mem_map, List.mem_filter, List.mem_singleton] at hm
    rcases hm with ⟨m0, ⟨hm0, _⟩, e⟩ | e
    · rw [← e] at hi
      simp only [substModel, ptrsOfFields_subst, List.mem_map] at hi
      obtain ⟨j, hj, rfl⟩ := hi
      exact σOf_mem_idxs (wf.fields m0 hm0 j hj)
    · rw [e] at hi
      simp only [ptrsOfFields_subst, List.mem_map] at hi
      obtain ⟨j, hj, rfl⟩ := hi
      exact σOf_mem_idxs (hF j hj)
  · intro p hp
    simp only [mergedGraph, List.mem_map] at hp
    obtain ⟨p0, hp0, rfl⟩ := hp
    refine ⟨σOf_mem_idxs (wf.ptrs p0 hp0).1, fun q hq => ?_⟩
    simp only [substPtr, Option.map_eq_some_iff] at hq
    obtain ⟨q0, hq0, rfl⟩ := hq
    exact σOf_mem_idxs ((wf.ptrs p0 hp0).2 q0 hq0)

/-- the pointers of the merged field dict are pointers of members, hence registered -/
theorem merged_ptrs_registered {cfg : GenCfg} {so : StrOracle} {g : Graph} {members : List String} {F : Fields}
    (wf : WF g) (hF : mergeFieldSets cfg.lit (g.eqEnv so) ((memberModels g members).map (·.fields)) = .ok F) :
    ∀ i ∈ ptrsOfFields F, i ∈ idxs g := by
  intro i hi
  obtain ⟨fs, hfs, hi⟩ := mergeFieldSets_ptrs_subset hF i hi
  obtain ⟨m, hm, rfl⟩ := List.mem_map.1 hfs
  exact wf.fields m (memberModels_sub m hm).1 i hi


/-! ### lookups in the merged graph -/

theorem find?_filter_nonmember (ms : List Model) (members : List String) (j : String)
    (hj : members.contains j = false) :
    (ms.filter (fun m => !members.contains m.idx)).find? (·.idx == j) = ms.find? (·.idx == j) := by
  induction ms with
  | nil => rfl
  | cons a ms ih =>
    by_cases ha : a.idx = j
    · have : (!members.contains a.idx) = true := by rw [ha, hj]; rfl
      rw [List.filter_cons, if_pos this, List.find?_cons, List.find?_cons]
      simp [ha]
    · have hb : (a.idx == j) = false := by simpa using ha
      rw [List.find?_cons, hb, List.filter_cons]
      split
      · rw [List.find?_cons, hb]; exact ih
      · exact ih

theorem find?_filter_member (ms : List Model) (members : List String) (j : String)
    (hj : members.contains j = true) :
    (ms.filter (fun m => !members.contains m.idx)).find? (·.idx == j) = none := by
  rw [List.find?_eq_none]
  intro m hm
  obtain ⟨_, h2⟩ := List.mem_filter.1 hm
  intro e
  have : m.idx = j := by simpa using e
  rw [this, hj] at h2
  simp at h2

theorem find?_map_substModel (σ : String → String) (ms : List Model) (j : String) :
    (ms.map (substModel σ)).find? (·.idx == j) = (ms.find? (·.idx == j)).map (substModel σ) := by
  rw [List.find?_map]; rfl

/-- a non-member keeps its (redirected) field dict -/
theorem look_merged_nonmember {g : Graph} {members : List String} {idx : String} {F : Fields}
    {nm : Option String} {ng : Option Bool} {j : String} (hj : members.contains j = false) (hji : j ∈ idxs g) :
    (mergedGraph g members idx F nm ng).look j = (g.look j).map (substFields (σOf members idx)) := by
  have : (g.find? j).isSome = true := find?_isSome_iff.2 hji
  unfold Graph.look Graph.find? at *
  simp only [mergedGraph, List.find?_append, find?_map_substModel, find?_filter_nonmember _ _ _ hj]
  cases hf : List.find? (fun x => x.idx == j) g.models with
  | none => simp [hf] at this
  | some m => simp [substModel]

theorem find?_merged (g : Graph) (members : List String) (idx : String) (F : Fields) (nm : Option String)
    (ng : Option Bool) (j : String) :
    (mergedGraph g members idx F nm ng).find? j =
      (((g.models.filter (fun m => !members.contains m.idx)).find? (·.idx == j)).map
          (substModel (σOf members idx))).or
        (if idx == j then some { idx := idx, fields := substFields (σOf members idx) F, name := nm, nameGen := ng }
         else none) := by
  unfold Graph.find? mergedGraph
  rw [List.find?_append, find?_map_substModel]
  congr 1
  rw [List.find?_cons]
  cases idx == j <;> rfl

/-- the merged model's field dict -/
theorem look_merged_idx {g : Graph} {members : List String} {F : Fields} {nm : Option String} {ng : Option Bool}
    (hb : Bounded g) :
    (mergedGraph g members (indexOf g.counter) F nm ng).look (indexOf g.counter) =
      some (substFields (σOf members (indexOf g.counter)) F) := by
  have hfresh := hb.fresh (Nat.le_refl g.counter)
  have hnone : List.find? (fun x => x.idx == indexOf g.counter)
      (List.filter (fun m => !members.contains m.idx) g.models) = none := by
    rw [List.find?_eq_none]
    intro m hm e
    exact hfresh (List.mem_map.2 ⟨m, (List.mem_filter.1 hm).1, by simpa using e⟩)
  unfold Graph.look
  rw [find?_merged, hnone]
  simp

/-- a member is unregistered -/
theorem look_merged_member {g : Graph} {members : List String} {idx : String} {F : Fields}
    {nm : Option String} {ng : Option Bool} {j : String} (hj : members.contains j = true) (hne : j ≠ idx) :
    (mergedGraph g members idx F nm ng).look j = none := by
  unfold Graph.look
  have : (idx == j) = false := by simpa using fun e : idx = j => hne e.symm
  rw [find?_merged, find?_filter_member _ _ _ hj, this]
  simp

/-! ## `optimize_type` on a registered model -/

/-- **optimize_obj_keys**: `optimize_type` of a field dict is a field dict with the same keys in the same order -/
theorem optimize_obj_keys {cfg : GenCfg} {e : EqEnv} {fuel : Nat} {fs : Fields} {t' : Ty}
    (h : optimize cfg e fuel (.obj fs) = .ok t') : ∃ fs', t' = .obj fs' ∧ fs'.map (·.1) = fs.map (·.1) := by
  cases fuel with
  | zero => simp [optimize] at h
  | succ fuel =>
    rw [optimize] at h
    simp only [bind, Except.bind] at h
    split at h
    · simp at h
    · rename_i fs' hfs'
      simp only [pure, Except.pure, Except.ok.injEq] at h
      exact ⟨fs', h.symm, (mapM_fields_ok fs fs' hfs').1⟩

theorem optimizeModel_eq {cfg : GenCfg} {so : StrOracle} {g g' : Graph} {i : String}
    (h : optimizeModel cfg so g i = .ok g') :
    (g.find? i = none ∧ g' = g) ∨
    ∃ m fs', g.find? i = some m ∧
      optimize cfg (g.eqEnv so) (Ty.fuelFor (.obj m.fields)) (.obj m.fields) = .ok (.obj fs') ∧
      fs'.map (·.1) = m.fields.map (·.1) ∧ g' = g.setFields i fs' := by
  unfold optimizeModel at h
  simp only [bind, Except.bind] at h
  split at h
  · left; simp only [pure, Except.pure, Except.ok.injEq] at h; exact ⟨by assumption, h.symm⟩
  · rename_i m hm
    right
    split at h
    · simp at h
    · rename_i t' ht'
      obtain ⟨fs', e, hk⟩ := optimize_obj_keys ht'
      subst e
      simp only [pure, Except.pure, Except.ok.injEq] at h
      exact ⟨m, fs', hm, ht', hk, h.symm⟩

theorem WF.setFields {g : Graph} (wf : WF g) {i : String} {fs : Fields}
    (hfs : ∀ j ∈ ptrsOfFields fs, j ∈ idxs g) : WF (g.setFields i fs) := by
  refine ⟨by simpa using wf.nodup, ?_, ?_, by simpa using wf.ptrs⟩
  · intro m hm
    rw [setFields_models] at hm
    rcases mem_setF hm with ⟨hm, _⟩ | ⟨m0, hm0, _, rfl⟩
    · simpa using wf.bound m hm
    · simpa using wf.bound m0 hm0
  · intro m hm j hj
    rw [setFields_models] at hm
    rw [idxs_setFields]
    rcases mem_setF hm with ⟨hm, _⟩ | ⟨m0, hm0, _, rfl⟩
    · exact wf.fields m hm j hj
    · exact hfs j hj

/-- **`optimize_type(model_meta)` keeps the registry well-formed**; indices and counter are unchanged -/
theorem optimizeModel_WF {cfg : GenCfg} {so : StrOracle} {g g' : Graph} {i : String} (wf : WF g)
    (h : optimizeModel cfg so g i = .ok g') : WF g' ∧ idxs g' = idxs g ∧ g'.counter = g.counter := by
  rcases optimizeModel_eq h with ⟨_, rfl⟩ | ⟨m, fs', hm, ho, _, rfl⟩
  · exact ⟨wf, rfl, rfl⟩
  · refine ⟨wf.setFields (fun j hj => ?_), by simp, by simp⟩
    have := optimize_ptrs_subset ho j (by simpa [ptrsOf] using hj)
    exact wf.fields m (find?_eq_some hm).1 j (by simpa [ptrsOf] using this)

theorem look_setFields (g : Graph) (i : String) (fs : Fields) (j : String) :
    (g.setFields i fs).look j = if j = i then (g.look j).map (fun _ => fs) else g.look j := by
  unfold Graph.look Graph.find?
  rw [setFields_models, setF, List.find?_map]
  have : ((fun x : Model => x.idx == j) ∘ fun m => if (m.idx == i) = true then { m with fields := fs } else m)
      = fun x => x.idx == j := by
    funext m; simp only [Function.comp]; split <;> rfl
  rw [this]
  cases hf : List.find? (fun x => x.idx == j) g.models with
  | none => simp
  | some m =>
    have : m.idx = j := by simpa using List.find?_some hf
    by_cases hji : j = i
    · have h2 : m.idx = i := by rw [this]; exact hji
      simp [hji, h2]
    · have : ¬ m.idx = i := by rw [this]; exact hji
      simp [hji, this]

/-- the key list of a registered model -/
def keysOf (g : Graph) (i : String) : Option (List String) := (g.look i).map Fields.keys

/-- **`optimize_type(model_meta)` changes no key set** -/
theorem optimizeModel_keys {cfg : GenCfg} {so : StrOracle} {g g' : Graph} {i : String}
    (h : optimizeModel cfg so g i = .ok g') (j : String) : keysOf g' j = keysOf g j := by
  rcases optimizeModel_eq h with ⟨_, rfl⟩ | ⟨m, fs', hm, _, hk, rfl⟩
  · rfl
  · unfold keysOf
    rw [look_setFields]
    split
    · rename_i e
      subst e
      unfold Graph.look
      rw [hm]
      simp [Fields.keys, hk]
    · rfl


theorem keysOf_isSome_iff {g : Graph} {i : String} : (keysOf g i).isSome = true ↔ i ∈ idxs g := by
  unfold keysOf; rw [Option.isSome_map, look_isSome_iff]

/-! ## one step of the `for group in groups` loop: `_merge` then `optimize_type(model_meta)` -/

/-- the key lists of the member models, concatenated in iteration order -/
def memberKeys (g : Graph) (members : List String) : List String :=
  (memberModels g members).flatMap (fun m => m.fields.keys)

/-- **mergeGroup_spec** (with the `optimize_type` call that follows it in `merge_models`).
    For a well-formed registry:
    * the new index is `indexOf g.counter` — fresh;
    * the registered indices afterwards are the non-members in their old order, then the new index;
    * a non-member keeps its key list (its pointers to members are redirected, nothing else changes — see
      `mergeGroup_eq`/`look_merged_nonmember`);
    * the merged model's key list is the first-occurrence union of the members' key lists;
    * the registry stays well-formed (no dangling reference). -/
theorem mergeStep_spec {cfg : GenCfg} {so : StrOracle} {g g1 g2 : Graph} {members : List String} {idx : String}
    (wf : WF g) (h1 : mergeGroup cfg so g members = .ok (g1, idx)) (h2 : optimizeModel cfg so g1 idx = .ok g2) :
    WF g2 ∧ idx = indexOf g.counter ∧ idx ∉ idxs g ∧ g2.counter = g.counter + 1 ∧
    idxs g2 = (idxs g).filter (fun i => !members.contains i) ++ [idx] ∧
    (∀ j ∈ idxs g, members.contains j = false → keysOf g2 j = keysOf g j) ∧
    keysOf g2 idx = some (dedupStr (memberKeys g members)) := by
  obtain ⟨F, nm, ng, hF, hidx, rfl⟩ := mergeGroup_eq h1
  subst hidx
  have wf1 := mergedGraph_WF (members := members) (nm := nm) (ng := ng) wf (merged_ptrs_registered wf hF)
  obtain ⟨wf2, hi2, hc2⟩ := optimizeModel_WF wf1 h2
  have hk := optimizeModel_keys h2
  refine ⟨wf2, rfl, wf.bound.fresh (Nat.le_refl _), by rw [hc2]; rfl, by rw [hi2, idxs_mergedGraph], ?_, ?_⟩
  · intro j hj hm
    rw [hk j]
    unfold keysOf
    rw [look_merged_nonmember hm hj]
    cases g.look j with
    | none => rfl
    | some fs => simp [Fields.keys, substFields_keys]
  · rw [hk]
    unfold keysOf
    rw [look_merged_idx wf.bound]
    have := (C02.merge_keys hF).1
    simp only [Option.map_some, Fields.keys, substFields_keys] at this ⊢
    rw [this]
    simp [memberKeys, List.flatMap_map, Fields.keys]

end J2M.Reg
