/-
  C01 helpers, part 3: `_detect_type` / `_convert` produce a type that holds the value (raw relation),
  and that type is a generator-stage type without optional fields.
-/
import J2M.Proofs.InhUnion
namespace J2M

theorem Except.bind_eq_ok {ε α β} {x : Except ε α} {f : α → Except ε β} {b : β} :
    (x >>= f) = .ok b ↔ ∃ a, x = .ok a ∧ f a = .ok b := by
  cases x <;> simp [bind, Except.bind]

theorem Except.pure_eq_ok {ε α} {a b : α} : (pure a : Except ε α) = .ok b ↔ a = b := by
  simp [pure, Except.pure]

/-- what `detect` returns: a generator-stage type with no `DOptional` anywhere a merge could see it,
    itself neither `DOptional` nor `DUnion` -/
def Ty.Raw (K : String → Prop) (t : Ty) : Prop :=
  Ty.Good K t ∧ Ty.MergeSafe true t ∧ t.isOpt = false ∧ t.isUnion = false

theorem detectStr_go_some {acc : Accepts} {s : String} {ks : List String} {k : String}
    (h : detectStr.go acc s ks = .ok (some k)) : k ∈ ks ∧ acc k s = some true := by
  induction ks with
  | nil => simp [detectStr.go] at h
  | cons k0 ks ih =>
    unfold detectStr.go at h
    split at h
    · simp at h
    · rename_i hk; simp at h; subst h; exact ⟨List.mem_cons_self, hk⟩
    · have := ih h; exact ⟨List.mem_cons_of_mem _ this.1, this.2⟩

theorem good_flatten {K} {ts : List Ty} (h : ∀ t ∈ ts, Ty.Good K t) : ∀ t ∈ flattenUnion ts, Ty.Good K t :=
  flattenUnion_forall (P := Ty.Good K) (fun _ hu => Ty.good_union.1 hu) h

theorem mergeSafe_flatten {ts : List Ty} (h : ∀ t ∈ ts, Ty.MergeSafe true t) :
    ∀ t ∈ flattenUnion ts, Ty.MergeSafe true t :=
  flattenUnion_forall (P := Ty.MergeSafe true) (fun _ hu => Ty.mergeSafe_union.1 hu) h

theorem good_mkUnionMembers {K c} {ts : List Ty} (h : ∀ t ∈ ts, Ty.Good K t) :
    ∀ u ∈ mkUnionMembers c ts, Ty.Good K u :=
  mkUnionMembers_forall (good_flatten h) (by simp) (by simp)

theorem mergeSafe_mkUnionMembers {c} {ts : List Ty} (h : ∀ t ∈ ts, Ty.MergeSafe true t) :
    ∀ u ∈ mkUnionMembers c ts, Ty.MergeSafe true u :=
  mkUnionMembers_forall (mergeSafe_flatten h) (by simp) (by simp)

theorem hashSound_of_good {ov acc g K} (hs : HashSoundOn ov acc g (Ty.Good K)) {ts : List Ty}
    (h : ∀ t ∈ ts, Ty.Good K t) : HashSoundX ov acc g ts :=
  HashSoundX.of_on hs (by simp) (good_flatten h)

theorem wrapElems_spec {ov acc g K} {c : LitCfg} (hs : HashSoundOn ov acc g (Ty.Good K)) {ts : List Ty}
    (hts : ∀ t ∈ ts, Ty.Good K t ∧ Ty.MergeSafe true t) (wrap : Ty → Ty) :
    ∃ m, wrapElems c wrap ts = wrap m ∧ Ty.Good K m ∧ Ty.MergeSafe true m ∧
      ∀ t ∈ ts, ∀ v, InhX ov acc g t v → InhX ov acc g m v := by
  have hg : ∀ t ∈ ts, Ty.Good K t := fun t ht => (hts t ht).1
  have hm : ∀ t ∈ ts, Ty.MergeSafe true t := fun t ht => (hts t ht).2
  have hsound : ∀ t ∈ ts, ∀ v, InhX ov acc g t v → InhX ov acc g (.union (mkUnionMembers c ts)) v :=
    fun t ht v hi => mkUnion_sound' (hashSound_of_good hs hg) ht hi
  unfold wrapElems
  split
  · rename_i t
    exact ⟨t, rfl, hg t (by simp), hm t (by simp), by simp⟩
  · split
    · rename_i u hu
      have hmem : u ∈ mkUnionMembers c ts := by rw [hu]; simp
      refine ⟨u, rfl, good_mkUnionMembers hg u hmem, mergeSafe_mkUnionMembers hm u hmem, ?_⟩
      intro t ht v hi
      have := hsound t ht v hi
      rw [hu] at this
      exact inh_singleton_union.1 this
    · exact ⟨_, rfl, Ty.good_union.2 (good_mkUnionMembers hg), Ty.mergeSafe_union.2 (mergeSafe_mkUnionMembers hm),
        hsound⟩

theorem raw_mkLit {K c s} : Ty.Raw K (mkLit c [s]) := by
  rcases mkLit_cases c [s] with h | h <;> rw [h] <;> simp [Ty.Raw, Ty.isOpt, Ty.isUnion]

theorem inhR_mkLit {acc g c s} : InhR acc g (mkLit c [s]) (.str s) := by
  rcases mkLit_cases c [s] with h | h <;> rw [h]
  · exact InhX.litOv rfl
  · exact InhX.lit (by simp)

section
variable (cfg : GenCfg) (o : GenOracles) (g : ModelLookup) (K : String → Prop)

/-- the four statements proved together by `detect.induct` -/
theorem detect_spec_all (hK : ∀ k ∈ cfg.reg.types, K k)
    (hs : HashSoundOn true o.accepts g (Ty.Good K)) :
    (∀ (cd : Bool) (v : Json), ∀ t, Json.WF v → detect cfg o cd v = .ok t →
      InhR o.accepts g t v ∧ Ty.Raw K t) := by
  intro cd v
  induction cd, v using detect.induct (cfg := cfg)
    (motive_2 := fun kvs => ∀ ts, Json.WFKvs kvs → detectVals cfg o kvs = .ok ts →
      (∀ kv ∈ kvs, ∃ t ∈ ts, InhR o.accepts g t kv.2) ∧ (∀ t ∈ ts, Ty.Raw K t))
    (motive_3 := fun kvs => ∀ fs, Json.WFKvs kvs → convertFields cfg o kvs = .ok fs →
      fs.map (·.1) = kvs.map (·.1) ∧ (∀ kv ∈ kvs, ∃ t, (kv.1, t) ∈ fs ∧ InhR o.accepts g t kv.2) ∧
      (∀ f ∈ fs, Ty.Raw K f.2))
    (motive_4 := fun xs => ∀ ts, Json.WFList xs → detectList cfg o xs = .ok ts →
      (∀ x ∈ xs, ∃ t ∈ ts, InhR o.accepts g t x) ∧ (∀ t ∈ ts, Ty.Raw K t)) with
  | case1 cd b =>
    intro t _ h; simp [detect, Except.pure_eq_ok] at h; subst h
    exact ⟨InhX.bool, by simp [Ty.Raw, Ty.isOpt, Ty.isUnion]⟩
  | case2 cd i =>
    intro t _ h; simp [detect, Except.pure_eq_ok] at h; subst h
    exact ⟨InhX.int, by simp [Ty.Raw, Ty.isOpt, Ty.isUnion]⟩
  | case3 cd x =>
    intro t _ h; simp [detect, Except.pure_eq_ok] at h; subst h
    exact ⟨InhX.floatF, by simp [Ty.Raw, Ty.isOpt, Ty.isUnion]⟩
  | case4 cd =>
    intro t _ h; simp [detect, Except.pure_eq_ok] at h; subst h
    exact ⟨InhX.null, by simp [Ty.Raw, Ty.isOpt, Ty.isUnion]⟩
  | case5 cd =>
    intro t _ h; simp [detect, Except.pure_eq_ok] at h; subst h
    exact ⟨InhX.list (by simp), by simp [Ty.Raw, Ty.isOpt, Ty.isUnion]⟩
  | case6 cd x xs ih =>
    intro t wf h
    rw [detect.eq_6, Except.bind_eq_ok] at h
    obtain ⟨ts, hts, h⟩ := h
    rw [Except.pure_eq_ok] at h; subst h
    obtain ⟨hin, hraw⟩ := ih ts (by simpa [Json.WF] using wf) hts
    obtain ⟨m, hm, hg, hms, hcov⟩ := wrapElems_spec (c := cfg.lit) hs
      (fun t ht => ⟨(hraw t ht).1, (hraw t ht).2.1⟩) Ty.list
    rw [hm]
    refine ⟨InhX.list ?_, by simpa [Ty.Raw, Ty.isOpt, Ty.isUnion] using ⟨hg, hms⟩⟩
    intro y hy
    obtain ⟨t, ht, hi⟩ := hin y hy
    exact hcov t ht y hi
  | case7 cd =>
    intro t _ h; simp [detect, Except.pure_eq_ok] at h; subst h
    exact ⟨InhX.dict (by simp), by simp [Ty.Raw, Ty.isOpt, Ty.isUnion]⟩
  | case8 cd kv kvs ih3 ih2 =>
    intro t wf h
    rw [detect.eq_8, Except.bind_eq_ok] at h
    obtain ⟨rx, _, h⟩ := h
    have wf' : ((kv :: kvs).map (·.1)).Nodup ∧ Json.WFKvs (kv :: kvs) := by simpa [Json.WF] using wf
    simp only at h
    generalize (if rx = true then false else cd) = cd' at h
    cases cd'
    case true =>
      simp only [if_true] at h
      rw [Except.bind_eq_ok] at h
      obtain ⟨fs, hfs, h⟩ := h
      rw [Except.pure_eq_ok] at h; subst h
      obtain ⟨hkeys, hin, hraw⟩ := ih3 fs wf'.2 hfs
      have nd : (fs.map (·.1)).Nodup := by rw [hkeys]; exact wf'.1
      refine ⟨InhX.obj ?_ ?_ ?_, ?_⟩
      · intro kv' hkv'
        rw [Fields.get?_isSome_iff, hkeys]
        exact List.mem_map_of_mem hkv'
      · intro kv' hkv' t ht
        obtain ⟨t', hm', hi⟩ := hin kv' hkv'
        rw [Fields.get?_of_mem nd hm'] at ht
        cases ht; exact hi
      · intro ft hft _
        have : ft.1 ∈ (kv :: kvs).map (·.1) := by rw [← hkeys]; exact List.mem_map_of_mem hft
        obtain ⟨kv', hkv', e⟩ := List.mem_map.1 this
        exact ⟨kv', hkv', e⟩
      · refine ⟨Ty.good_obj.2 ⟨nd, fun f hf => (hraw f hf).1⟩, Ty.mergeSafe_obj.2 ⟨?_, ?_⟩, rfl, rfl⟩
        · intro _ f hf; exact (hraw f hf).2.2.1
        · intro f hf; exact (hraw f hf).2.1
    case false =>
      simp only [Bool.false_eq_true, if_false] at h
      rw [Except.bind_eq_ok] at h
      obtain ⟨ts, hts, h⟩ := h
      rw [Except.pure_eq_ok] at h; subst h
      obtain ⟨hin, hraw⟩ := ih2 ts wf'.2 hts
      obtain ⟨m, hm, hg, hms, hcov⟩ := wrapElems_spec (c := cfg.lit) hs
        (fun t ht => ⟨(hraw t ht).1, (hraw t ht).2.1⟩) Ty.dict
      rw [hm]
      refine ⟨InhX.dict ?_, by simpa [Ty.Raw, Ty.isOpt, Ty.isUnion] using ⟨hg, hms⟩⟩
      intro y hy
      obtain ⟨t, ht, hi⟩ := hin y hy
      exact hcov t ht y.2 hi
  | case9 cd s =>
    intro t _ h
    rw [detect.eq_9, Except.bind_eq_ok] at h
    obtain ⟨r, hr, h⟩ := h
    cases r with
    | some k =>
      simp only [Except.pure_eq_ok] at h; subst h
      obtain ⟨hk, ha⟩ := detectStr_go_some (by simpa [detectStr] using hr)
      exact ⟨InhX.ser ha, by simpa [Ty.Raw, Ty.isOpt, Ty.isUnion] using hK k hk⟩
    | none =>
      simp only [Except.pure_eq_ok] at h; subst h
      exact ⟨inhR_mkLit, raw_mkLit⟩
  | case10 =>
    rename_i ts _ h; simp [detectList, Except.pure_eq_ok] at h; subst h; simp
  | case11 x xs ih1 ih4 =>
    rename_i ts wf h
    rw [detectList, Except.bind_eq_ok] at h
    obtain ⟨t, ht, h⟩ := h
    rw [Except.bind_eq_ok] at h
    obtain ⟨ts', hts', h⟩ := h
    rw [Except.pure_eq_ok] at h; subst h
    simp only [Json.WFList] at wf
    obtain ⟨h1, h1r⟩ := ih1 t wf.1 ht
    obtain ⟨h4, h4r⟩ := ih4 ts' wf.2 hts'
    refine ⟨?_, ?_⟩
    · intro y hy
      rcases List.mem_cons.1 hy with e | hy
      · subst e; exact ⟨t, List.mem_cons_self, h1⟩
      · obtain ⟨t', ht', hi⟩ := h4 y hy
        exact ⟨t', List.mem_cons_of_mem _ ht', hi⟩
    · intro t' ht'
      rcases List.mem_cons.1 ht' with e | ht'
      · subst e; exact h1r
      · exact h4r t' ht'
  | case12 =>
    rename_i ts _ h; simp [detectVals, Except.pure_eq_ok] at h; subst h; simp
  | case13 k x xs ih1 ih2 =>
    rename_i ts wf h
    rw [detectVals, Except.bind_eq_ok] at h
    obtain ⟨t, ht, h⟩ := h
    rw [Except.bind_eq_ok] at h
    obtain ⟨ts', hts', h⟩ := h
    rw [Except.pure_eq_ok] at h; subst h
    simp only [Json.WFKvs] at wf
    obtain ⟨h1, h1r⟩ := ih1 t wf.1 ht
    obtain ⟨h4, h4r⟩ := ih2 ts' wf.2 hts'
    refine ⟨?_, ?_⟩
    · intro y hy
      rcases List.mem_cons.1 hy with e | hy
      · subst e; exact ⟨t, List.mem_cons_self, h1⟩
      · obtain ⟨t', ht', hi⟩ := h4 y hy
        exact ⟨t', List.mem_cons_of_mem _ ht', hi⟩
    · intro t' ht'
      rcases List.mem_cons.1 ht' with e | ht'
      · subst e; exact h1r
      · exact h4r t' ht'
  | case14 =>
    rename_i fs _ h; simp [convertFields, Except.pure_eq_ok] at h; subst h; simp
  | case15 k x xs ih1 ih3 =>
    rename_i fs wf h
    rw [convertFields, Except.bind_eq_ok] at h
    obtain ⟨t, ht, h⟩ := h
    rw [Except.bind_eq_ok] at h
    obtain ⟨fs', hfs', h⟩ := h
    rw [Except.pure_eq_ok] at h; subst h
    simp only [Json.WFKvs] at wf
    obtain ⟨h1, h1r⟩ := ih1 t wf.1 ht
    obtain ⟨hk, h3, h3r⟩ := ih3 fs' wf.2 hfs'
    refine ⟨by simp [hk], ?_, ?_⟩
    · intro y hy
      rcases List.mem_cons.1 hy with e | hy
      · subst e; exact ⟨t, List.mem_cons_self, h1⟩
      · obtain ⟨t', ht', hi⟩ := h3 y hy
        exact ⟨t', List.mem_cons_of_mem _ ht', hi⟩
    · intro f hf
      rcases List.mem_cons.1 hf with e | hf
      · subst e; exact h1r
      · exact h3r f hf

theorem convertFields_spec (hK : ∀ k ∈ cfg.reg.types, K k)
    (hs : HashSoundOn true o.accepts g (Ty.Good K)) :
    ∀ (kvs : List (String × Json)) (fs : Fields), Json.WFKvs kvs → convertFields cfg o kvs = .ok fs →
      fs.map (·.1) = kvs.map (·.1) ∧ (∀ kv ∈ kvs, ∃ t, (kv.1, t) ∈ fs ∧ InhR o.accepts g t kv.2) ∧
      (∀ f ∈ fs, Ty.Raw K f.2) := by
  intro kvs
  induction kvs with
  | nil => intro fs _ h; simp [convertFields, Except.pure_eq_ok] at h; subst h; simp
  | cons kv xs ih =>
    obtain ⟨k, x⟩ := kv
    intro fs wf h
    rw [convertFields, Except.bind_eq_ok] at h
    obtain ⟨t, ht, h⟩ := h
    rw [Except.bind_eq_ok] at h
    obtain ⟨fs', hfs', h⟩ := h
    rw [Except.pure_eq_ok] at h; subst h
    simp only [Json.WFKvs] at wf
    obtain ⟨h1, h1r⟩ := detect_spec_all cfg o g K hK hs _ x t wf.1 ht
    obtain ⟨hk, h3, h3r⟩ := ih fs' wf.2 hfs'
    refine ⟨by simp [hk], ?_, ?_⟩
    · intro y hy
      rcases List.mem_cons.1 hy with e | hy
      · subst e; exact ⟨t, List.mem_cons_self, h1⟩
      · obtain ⟨t', ht', hi⟩ := h3 y hy
        exact ⟨t', List.mem_cons_of_mem _ ht', hi⟩
    · intro f hf
      rcases List.mem_cons.1 hf with e | hf
      · subst e; exact h1r
      · exact h3r f hf

/-- `_convert(sample)`: the sample lies in its own field dict -/
theorem convert_spec (hK : ∀ k ∈ cfg.reg.types, K k)
    (hs : HashSoundOn true o.accepts g (Ty.Good K)) {s : Json} {fs : Fields}
    (wf : Json.WF s) (h : convert cfg o s = .ok fs) :
    ∃ kvs, s = .obj kvs ∧ InhFieldsX true o.accepts g fs kvs ∧ Ty.Good K (.obj fs) ∧
      Ty.MergeSafe true (.obj fs) := by
  cases s <;> simp [convert] at h
  rename_i kvs
  have wf' : (kvs.map (·.1)).Nodup ∧ Json.WFKvs kvs := by simpa [Json.WF] using wf
  obtain ⟨hkeys, hin, hraw⟩ := convertFields_spec cfg o g K hK hs kvs fs wf'.2 h
  have nd : (fs.map (·.1)).Nodup := by rw [hkeys]; exact wf'.1
  refine ⟨kvs, rfl, ⟨?_, ?_, ?_⟩, Ty.good_obj.2 ⟨nd, fun f hf => (hraw f hf).1⟩,
    Ty.mergeSafe_obj.2 ⟨fun _ f hf => (hraw f hf).2.2.1, fun f hf => (hraw f hf).2.1⟩⟩
  · intro kv' hkv'
    rw [Fields.get?_isSome_iff, hkeys]
    exact List.mem_map_of_mem hkv'
  · intro kv' hkv' t ht
    obtain ⟨t', hm', hi⟩ := hin kv' hkv'
    rw [Fields.get?_of_mem nd hm'] at ht
    cases ht; exact hi
  · intro ft hft _
    have : ft.1 ∈ kvs.map (·.1) := by rw [← hkeys]; exact List.mem_map_of_mem hft
    obtain ⟨kv', hkv', e⟩ := List.mem_map.1 this
    exact ⟨kv', hkv', e⟩

end

end J2M
