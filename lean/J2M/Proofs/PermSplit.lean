/-
  C07 (generator level), part 8: the category split of `_optimize_union` on opt-free members, as filters.
-/
import J2M.Proofs.PermMerge
import J2M.Proofs.MergeCalls
namespace J2M.Perm
open J2M

def isStrT (reg : StrRegistry) : Ty → Bool
  | .str => true
  | .ser k => reg.types.contains k
  | _ => false
def objF : Ty → Option Fields | .obj fs => some fs | _ => none
def listE : Ty → Option Ty | .list x => some x | _ => none
def dictE : Ty → Option Ty | .dict x => some x | _ => none
def isOth (reg : StrRegistry) : Ty → Bool
  | .obj _ | .str | .list _ | .dict _ => false
  | .ser k => !reg.types.contains k
  | _ => true

theorem splitPlain_spec (reg : StrRegistry) (s : Split) (item : Ty) :
    splitPlain reg s item =
      { strTypes := s.strTypes ++ (if isStrT reg item then [item] else []),
        toMerge := s.toMerge ++ (objF item).toList,
        lists := s.lists ++ (listE item).toList,
        dicts := s.dicts ++ (dictE item).toList,
        other := s.other ++ (if isOth reg item then [item] else []) } := by
  cases item <;> try (simp [splitPlain, isStrT, objF, listE, dictE, isOth]; done)
  rename_i k
  simp only [splitPlain, isStrT, objF, listE, dictE, isOth]
  by_cases h : k ∈ reg.types <;> simp [h]

theorem splitFold_spec (reg : StrRegistry) (ms : List Ty) (hno : ∀ m ∈ ms, m.isOpt = false) :
    ∀ s : Split, ms.foldl (splitStep reg) s =
      { strTypes := s.strTypes ++ ms.filter (isStrT reg),
        toMerge := s.toMerge ++ ms.filterMap objF,
        lists := s.lists ++ ms.filterMap listE,
        dicts := s.dicts ++ ms.filterMap dictE,
        other := s.other ++ ms.filter (isOth reg) } := by
  induction ms with
  | nil => intro s; simp
  | cons m ms ih =>
    intro s
    have hm : m.isOpt = false := hno m (List.mem_cons_self ..)
    have hstep : splitStep reg s m = splitPlain reg s m := by
      rw [splitStep_eq]; cases m <;> first | rfl | simp [Ty.isOpt] at hm
    rw [List.foldl_cons, hstep, ih (fun m' h' => hno m' (List.mem_cons_of_mem _ h')), splitPlain_spec]
    cases h1 : isStrT reg m <;> cases h2 : isOth reg m <;>
      cases m <;> simp_all [isStrT, isOth, objF, listE, dictE, List.filter_cons, List.filterMap_cons]

/-- the category split of opt-free members that are not unions themselves (a member `.union _` is spliced by the
    worklist, so the filters would then have to run over the flattened list) -/
theorem splitMembers_spec (reg : StrRegistry) (ms : List Ty) (hno : ∀ m ∈ ms, m.isOpt = false)
    (hnu : ∀ m ∈ ms, m.isUnion = false) :
    splitMembers reg ms =
      { strTypes := ms.filter (isStrT reg), toMerge := ms.filterMap objF, lists := ms.filterMap listE,
        dicts := ms.filterMap dictE, other := ms.filter (isOth reg) } := by
  rw [splitMembers_plain reg (fun m hm => not_hidden_of_flags (hno m hm) (hnu m hm)), splitFold_spec reg ms hno]
  simp

/-- the general form: the filters run over the flattened member list (`SplitW.flatL`), after the `Null`s left by
    optional members are accounted for; here for lists without optional members at all -/
theorem splitMembers_spec_flat (reg : StrRegistry) (ms : List Ty) (hno : ∀ m ∈ SplitW.flatL ms, m.isOpt = false) :
    splitMembers reg ms =
      { strTypes := (SplitW.flatL ms).filter (isStrT reg), toMerge := (SplitW.flatL ms).filterMap objF,
        lists := (SplitW.flatL ms).filterMap listE, dicts := (SplitW.flatL ms).filterMap dictE,
        other := (SplitW.flatL ms).filter (isOth reg) } := by
  rw [splitMembers_flat, splitFold_spec reg _ hno]
  simp

theorem mem_filterMap_objF {ms : List Ty} {fs : Fields} : fs ∈ ms.filterMap objF ↔ Ty.obj fs ∈ ms := by
  simp only [List.mem_filterMap]
  constructor
  · rintro ⟨a, ha, h⟩; cases a <;> simp [objF] at h; subst h; exact ha
  · intro h; exact ⟨_, h, rfl⟩
theorem mem_filterMap_listE {ms : List Ty} {x : Ty} : x ∈ ms.filterMap listE ↔ Ty.list x ∈ ms := by
  simp only [List.mem_filterMap]
  constructor
  · rintro ⟨a, ha, h⟩; cases a <;> simp [listE] at h; subst h; exact ha
  · intro h; exact ⟨_, h, rfl⟩
theorem mem_filterMap_dictE {ms : List Ty} {x : Ty} : x ∈ ms.filterMap dictE ↔ Ty.dict x ∈ ms := by
  simp only [List.mem_filterMap]
  constructor
  · rintro ⟨a, ha, h⟩; cases a <;> simp [dictE] at h; subst h; exact ha
  · intro h; exact ⟨_, h, rfl⟩

end J2M.Perm
