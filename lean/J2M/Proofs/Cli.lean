/-
  Helper lemmas for C16 / C17: `writeFile` as a map update, `dictLookup` as key-by-key descent,
  `assemble` in closed form.
-/
import J2M.Cli
import Batteries.Data.String.Lemmas   -- `get_of_valid`/`next_of_valid`/`extract_of_valid`, for `String.splitOn` only

/-! ## The legacy `String.splitOn` with a one-character separator splits the character list
    (core and Batteries have no lemma about `String.splitOn`; Batteries marks it TODO) -/
namespace String
set_option linter.deprecated false in
theorem splitOnAux_char (c : Char) (l m r : List Char) (acc : List String) :
    splitOnAux (ofList (l ++ m ++ r)) (singleton c) ⟨utf8Len l⟩ ⟨utf8Len l + utf8Len m⟩ 0 acc =
      acc.reverse ++ (List.splitOnPPrepend (· == c) r m.reverse).map ofList := by
  unfold splitOnAux
  simp only [List.append_assoc, atEnd_iff, rawEndPos_ofList, utf8Len_append, Pos.Raw.mk_le_mk,
    Nat.add_le_add_iff_left, (by omega : utf8Len m + utf8Len r ≤ utf8Len m ↔ utf8Len r = 0),
    utf8Len_eq_zero, List.reverse_cons]
  split
  · subst r
    simpa using extract_of_valid l m []
  · obtain ⟨x, r, rfl⟩ := r.exists_cons_of_ne_nil ‹_›
    have hg : Pos.Raw.get (ofList (l ++ (m ++ x :: r))) ⟨utf8Len l + utf8Len m⟩ = x := by
      simpa using get_of_valid (l ++ m) (x :: r)
    have hn : Pos.Raw.next (ofList (l ++ (m ++ x :: r))) ⟨utf8Len l + utf8Len m⟩
        = ⟨utf8Len l + utf8Len m + x.utf8Size⟩ := by
      simpa using next_of_valid (l ++ m) x r
    have hgc : Pos.Raw.get (singleton c) 0 = c := by
      rw [singleton_eq_ofList]; simpa using get_of_valid [] [c]
    have hnc : Pos.Raw.next (singleton c) 0 = ⟨c.utf8Size⟩ := by
      rw [singleton_eq_ofList]; simpa using next_of_valid [] c []
    have hec : (singleton c).rawEndPos = ⟨c.utf8Size⟩ := by
      rw [singleton_eq_ofList, rawEndPos_ofList]; simp [utf8Len]
    have hu0 : (⟨utf8Len l + utf8Len m⟩ : Pos.Raw).unoffsetBy 0 = ⟨utf8Len l + utf8Len m⟩ := by
      simp [Pos.Raw.unoffsetBy]
    rw [hg, hn, hgc, hnc, hec, hu0, hn]
    by_cases hx : x = c
    · subst hx
      have hu : (⟨utf8Len l + utf8Len m + x.utf8Size⟩ : Pos.Raw).unoffsetBy ⟨x.utf8Size⟩
          = ⟨utf8Len l + utf8Len m⟩ := by
        simp [Pos.Raw.unoffsetBy]
      have he : Pos.Raw.extract (ofList (l ++ (m ++ x :: r))) ⟨utf8Len l⟩ ⟨utf8Len l + utf8Len m⟩ = ofList m := by
        simpa using extract_of_valid l m (x :: r)
      simp only [beq_self_eq_true, if_true, Pos.Raw.le_refl, hu, he]
      have := splitOnAux_char x (l ++ m ++ [x]) [] r (ofList m :: acc)
      simpa [Nat.add_assoc, List.splitOnPPrepend_cons_eq_if] using this
    · have hb : (x == c) = false := by simpa using hx
      simp only [hb, Bool.false_eq_true, if_false]
      have := splitOnAux_char c l (m ++ [x]) r acc
      simpa [Nat.add_assoc, List.splitOnPPrepend_cons_eq_if, hb] using this
termination_by r.length

theorem splitOn_char (s : String) (c : Char) :
    s.splitOn (singleton c) = (s.toList.splitOn c).map ofList := by
  have h : ((singleton c) == "") = false := by
    rw [singleton_eq_ofList]
    simp [← String.toList_inj]
  unfold splitOn
  simp only [h, Bool.false_eq_true, if_false]
  have := splitOnAux_char c [] [] s.toList []
  simpa [List.splitOn_eq_splitOnP] using this
end String

namespace J2M.Cli

/-! ## `writeFile` is a map update (observed through `find?`) -/

theorem writeFile_find_same (files : List (String × String)) (p t : String) :
    (writeFile files p t).find? (·.1 == p) = some (p, t) := by
  simp [writeFile]

theorem writeFile_find_other (files : List (String × String)) {p q : String} (t : String) (h : q ≠ p) :
    (writeFile files p t).find? (·.1 == q) = files.find? (·.1 == q) := by
  have h1 : (p == q) = false := by simpa using fun e => h e.symm
  have h2 : (fun a : String × String => decide ((a.1 != p) = true ∧ (a.1 == q) = true))
      = (fun a : String × String => a.1 == q) := by
    funext a
    by_cases ha : a.1 = q <;> simp [ha, h]
  simp only [writeFile, List.find?_cons, h1, List.find?_filter, h2]

/-! ## A general fact about `foldlM` in `Except`: it fails iff some step fails (the first one) -/

theorem foldlM_error_iff {α β ε : Type} (f : β → α → Except ε β) (l : List α) (b : β) (e : ε) :
    l.foldlM f b = .error e ↔
      ∃ pre k post b', l = pre ++ k :: post ∧ pre.foldlM f b = .ok b' ∧ f b' k = .error e := by
  induction l generalizing b with
  | nil => simp [pure, Except.pure]
  | cons x xs ih =>
    rw [List.foldlM_cons]
    cases hx : f b x with
    | error e' =>
      simp only [bind, Except.bind]
      constructor
      · intro h
        refine ⟨[], x, xs, b, rfl, rfl, ?_⟩
        rw [hx]; exact h
      · rintro ⟨pre, k, post, b', hl, hpre, hk⟩
        cases pre with
        | nil =>
          simp only [List.nil_append, List.cons.injEq] at hl
          obtain ⟨rfl, rfl⟩ := hl
          simp only [List.foldlM_nil, pure, Except.pure, Except.ok.injEq] at hpre
          subst hpre
          rw [hx] at hk; exact hk
        | cons y ys =>
          simp only [List.cons_append, List.cons.injEq] at hl
          obtain ⟨rfl, rfl⟩ := hl
          rw [List.foldlM_cons, hx] at hpre
          simp [bind, Except.bind] at hpre
    | ok b1 =>
      simp only [bind, Except.bind]
      rw [ih b1]
      constructor
      · rintro ⟨pre, k, post, b', rfl, hpre, hk⟩
        refine ⟨x :: pre, k, post, b', rfl, ?_, hk⟩
        rw [List.foldlM_cons, hx]; exact hpre
      · rintro ⟨pre, k, post, b', hl, hpre, hk⟩
        cases pre with
        | nil =>
          simp only [List.nil_append, List.cons.injEq] at hl
          obtain ⟨rfl, rfl⟩ := hl
          simp only [List.foldlM_nil, pure, Except.pure, Except.ok.injEq] at hpre
          subst hpre
          rw [hx] at hk; cases hk
        | cons y ys =>
          simp only [List.cons_append, List.cons.injEq] at hl
          obtain ⟨rfl, rfl⟩ := hl
          rw [List.foldlM_cons, hx] at hpre
          exact ⟨ys, k, post, b', rfl, hpre, hk⟩

/-! ## `splitDot1` -/

theorem span_loop_all {α : Type} (p : α → Bool) (k acc : List α) (h : ∀ a ∈ k, p a = true) :
    List.span.loop p k acc = (acc.reverse ++ k, []) := by
  induction k generalizing acc with
  | nil => simp [List.span.loop]
  | cons a k ih =>
    have ha : p a = true := h a (by simp)
    simp only [List.span.loop, ha]
    rw [ih _ (fun b hb => h b (by simp [hb]))]
    simp

theorem span_loop_stop {α : Type} (p : α → Bool) (k acc : List α) (c : α) (rest : List α)
    (h : ∀ a ∈ k, p a = true) (hc : p c = false) :
    List.span.loop p (k ++ c :: rest) acc = (acc.reverse ++ k, c :: rest) := by
  induction k generalizing acc with
  | nil => simp [List.span.loop, hc]
  | cons a k ih =>
    have ha : p a = true := h a (by simp)
    simp only [List.cons_append, List.span.loop, ha]
    rw [ih _ (fun b hb => h b (by simp [hb]))]
    simp

theorem splitDot1_nodot (k : List Char) (h : '.' ∉ k) : splitDot1 k = (k, none) := by
  unfold splitDot1 List.span
  rw [span_loop_all _ _ _ (fun a ha => by simp; rintro rfl; exact h ha)]
  simp

theorem splitDot1_dot (k rest : List Char) (h : '.' ∉ k) : splitDot1 (k ++ '.' :: rest) = (k, some rest) := by
  unfold splitDot1 List.span
  rw [span_loop_stop _ _ _ _ _ (fun a ha => by simp; rintro rfl; exact h ha) (by simp)]
  simp

/-! ## `dictLookup` descends key by key -/

/-- `d[k₁][k₂]…[kₙ]` -/
def descend (d : Json) (ks : List String) : Except PyErr Json := ks.foldlM subscript d

/-- the keys actually subscripted: a trailing `""` or `"-"` segment stops the loop of `dict_lookup` -/
def effKeysC (ks : List (List Char)) : List (List Char) :=
  if ks.getLast? = some [] ∨ ks.getLast? = some ['-'] then ks.dropLast else ks

def effKeys (ks : List String) : List String :=
  if ks.getLast? = some "" ∨ ks.getLast? = some "-" then ks.dropLast else ks

theorem effKeysC_cons_cons (k k' : List Char) (rest : List (List Char)) :
    effKeysC (k :: k' :: rest) = k :: effKeysC (k' :: rest) := by
  simp only [effKeysC, List.getLast?_cons_cons, List.dropLast_cons_cons]
  split <;> rfl

theorem dictLookupAux_root (fuel : Nat) (d : Json) (l : List Char)
    (h : (l.isEmpty || l == ['-']) = true) : dictLookupAux fuel d l = .ok d := by
  cases fuel with
  | zero => rfl
  | succ f => simp only [dictLookupAux, h, if_true]; rfl

theorem dictLookupAux_join (ks : List (List Char)) (hne : ks ≠ []) (hdot : ∀ k ∈ ks, '.' ∉ k)
    (d : Json) (fuel : Nat) (hf : (['.'].intercalate ks).length < fuel) :
    dictLookupAux fuel d (['.'].intercalate ks)
      = (effKeysC ks).foldlM (fun d k => subscript d (String.ofList k)) d := by
  induction ks generalizing d fuel with
  | nil => exact absurd rfl hne
  | cons k rest ih =>
    cases fuel with
    | zero => omega
    | succ f =>
    cases rest with
    | nil =>
      rw [List.intercalate_singleton] at hf ⊢
      have hk : '.' ∉ k := hdot k (by simp)
      by_cases hroot : (k.isEmpty || k == ['-']) = true
      · rw [dictLookupAux_root _ _ _ hroot]
        have : effKeysC [k] = [] := by
          simp only [effKeysC, List.getLast?_singleton, Option.some.injEq]
          rw [if_pos]
          · rfl
          · simp only [Bool.or_eq_true, List.isEmpty_iff, beq_iff_eq] at hroot; exact hroot
        rw [this]; rfl
      · have hroot' : (k.isEmpty || k == ['-']) = false := by simpa using hroot
        have : effKeysC [k] = [k] := by
          simp only [effKeysC, List.getLast?_singleton, Option.some.injEq]
          rw [if_neg]
          simp only [Bool.or_eq_false_iff, List.isEmpty_eq_false_iff, beq_eq_false_iff_ne] at hroot'
          rintro (h | h)
          · exact hroot'.1 h
          · exact hroot'.2 h
        rw [this]
        simp only [dictLookupAux, hroot', splitDot1_nodot k hk, List.foldlM_cons, List.foldlM_nil]
        cases subscript d (String.ofList k) <;> rfl
    | cons k' rest' =>
      have hk : '.' ∉ k := hdot k (by simp)
      have hint : ['.'].intercalate (k :: k' :: rest') = k ++ '.' :: ['.'].intercalate (k' :: rest') := by
        rw [List.intercalate_cons_cons]; simp
      rw [hint] at hf ⊢
      have hroot' : ((k ++ '.' :: ['.'].intercalate (k' :: rest')).isEmpty
          || (k ++ '.' :: ['.'].intercalate (k' :: rest')) == ['-']) = false := by
        cases k with
        | nil => simp
        | cons c cs => simp
      simp only [dictLookupAux, hroot', splitDot1_dot k _ hk, effKeysC_cons_cons, List.foldlM_cons]
      have hlen : (['.'].intercalate (k' :: rest')).length < f := by
        simp only [List.length_append, List.length_cons] at hf; omega
      cases hs : subscript d (String.ofList k) with
      | error e => rfl
      | ok d' =>
        simp only [bind, Except.bind]
        exact ih (by simp) (fun x hx => hdot x (by simp [hx])) d' f hlen


theorem effKeysC_map (ks : List String) : effKeysC (ks.map String.toList) = (effKeys ks).map String.toList := by
  have h1 : ∀ k : String, (k.toList = [] ↔ k = "") := fun k => String.toList_eq_nil_iff
  have h2 : ∀ k : String, (k.toList = ['-'] ↔ k = "-") := fun k => by
    rw [show (['-'] : List Char) = "-".toList from rfl, String.toList_inj]
  simp only [effKeysC, effKeys, List.getLast?_map]
  cases hl : ks.getLast? with
  | none => simp
  | some k =>
    simp only [Option.map_some, Option.some.injEq, h1, h2]
    split <;> simp [List.map_dropLast]

/-- `dict_lookup(d, "k₁.k₂.….kₙ")` for dot-free segments: the fuel in `dictLookup` suffices and the
    result is key-by-key descent along the effective keys -/
theorem dictLookup_intercalate (d : Json) (ks : List String) (hne : ks ≠ [])
    (hdot : ∀ k ∈ ks, '.' ∉ k.toList) :
    dictLookup d (".".intercalate ks) = descend d (effKeys ks) := by
  unfold dictLookup descend
  have hl : (".".intercalate ks).toList = ['.'].intercalate (ks.map String.toList) := by
    rw [String.toList_intercalate]; rfl
  rw [hl, dictLookupAux_join _ (by simpa using hne) (by simpa using hdot) d _
    (by rw [← hl, String.length_toList]; omega), effKeysC_map, List.foldlM_map]
  simp only [String.ofList_toList]

theorem dictLookup_dash (d : Json) : dictLookup d "-" = .ok d := rfl
theorem dictLookup_empty (d : Json) : dictLookup d "" = .ok d := rfl

/-- every lookup string is the dot-join of its dot-free segments -/
theorem splitOn_no_sep (c : Char) (xs : List Char) : ∀ l ∈ xs.splitOn c, c ∉ l := by
  induction xs with
  | nil => simp [List.splitOn_nil]
  | cons x xs ih =>
    rw [List.splitOn_cons_eq_if_modifyHead]
    split
    · intro l hl
      simp only [List.mem_cons] at hl
      rcases hl with rfl | hl
      · simp
      · exact ih l hl
    · rename_i hx
      intro l hl
      cases hs : xs.splitOn c with
      | nil => exact absurd hs (List.splitOn_ne_nil c xs)
      | cons y ys =>
        rw [hs] at hl ih
        simp only [List.modifyHead_cons, List.mem_cons] at hl
        rcases hl with rfl | hl
        · have := ih y (by simp)
          simp only [List.mem_cons, not_or]
          exact ⟨fun e => hx (by simp [e]), this⟩
        · exact ih l (by simp [hl])

/-- the dot-free segments of a lookup string -/
def segments (lookup : String) : List String := (lookup.toList.splitOn '.').map String.ofList

theorem segments_ne_nil (lookup : String) : segments lookup ≠ [] := by
  simp [segments, List.splitOn_ne_nil]

theorem segments_nodot (lookup : String) : ∀ k ∈ segments lookup, '.' ∉ k.toList := by
  intro k hk
  simp only [segments, List.mem_map] at hk
  obtain ⟨l, hl, rfl⟩ := hk
  rw [String.toList_ofList]
  exact splitOn_no_sep '.' _ l hl

theorem intercalate_segments (lookup : String) : ".".intercalate (segments lookup) = lookup := by
  rw [← String.toList_inj, String.toList_intercalate]
  simp only [segments, List.map_map]
  have : (String.toList ∘ String.ofList) = (id : List Char → List Char) := by
    funext l; simp
  rw [this, List.map_id]
  exact List.intercalate_splitOn '.'

/-- `dict_lookup` on an arbitrary lookup string, no side conditions -/
theorem dictLookup_eq_descend (d : Json) (lookup : String) :
    dictLookup d lookup = descend d (effKeys (segments lookup)) := by
  have := dictLookup_intercalate d (segments lookup) (segments_ne_nil lookup) (segments_nodot lookup)
  rwa [intercalate_segments] at this


/-! ## `iterJsonFile` on the shapes used by the CLI -/

/-- the lookup is `""` or `"-"`: the document root is taken -/
def isRootLookup (lookup : String) : Bool := lookup.toList.isEmpty || lookup.toList == ['-']

theorem dictLookup_root (d : Json) (lookup : String) (h : isRootLookup lookup = true) :
    dictLookup d lookup = .ok d :=
  dictLookupAux_root _ _ _ h

theorem dictLookup_arr_nonroot (xs : List Json) (lookup : String) (h : isRootLookup lookup = false) :
    dictLookup (.arr xs) lookup = .error .typeError := by
  unfold dictLookup
  simp only [dictLookupAux]
  unfold isRootLookup at h
  rw [h]
  simp only [Bool.false_eq_true, if_false]
  split <;> rfl

/-- a top-level list yields its elements at the root lookup and a `TypeError` under any key lookup -/
theorem iterJsonFile_arr (xs : List Json) (lookup : String) :
    iterJsonFile (.arr xs) lookup = if isRootLookup lookup then .ok xs else .error .typeError := by
  unfold iterJsonFile
  cases h : isRootLookup lookup with
  | true => rw [dictLookup_root _ _ h]; rfl
  | false => rw [dictLookup_arr_nonroot _ _ h]; rfl

theorem iterJsonFile_obj_root (kvs : List (String × Json)) (lookup : String) (h : isRootLookup lookup = true) :
    iterJsonFile (.obj kvs) lookup = .ok [.obj kvs] := by
  unfold iterJsonFile
  rw [dictLookup_root _ _ h]; rfl

/-- a usable single key: no dot, not empty, not `"-"` -/
def PlainKey (k : String) : Prop := '.' ∉ k.toList ∧ k ≠ "" ∧ k ≠ "-"

theorem dictLookup_plainKey (d : Json) (k : String) (hk : PlainKey k) :
    dictLookup d k = subscript d k := by
  have := dictLookup_intercalate d [k] (by simp) (by simpa using hk.1)
  rw [show ".".intercalate [k] = k by
    rw [← String.toList_inj, String.toList_intercalate]; simp [List.intercalate_singleton]] at this
  rw [this]
  have : effKeys [k] = [k] := by
    simp only [effKeys, List.getLast?_singleton, Option.some.injEq]
    rw [if_neg]
    rintro (h | h)
    · exact hk.2.1 h
    · exact hk.2.2 h
  rw [this, descend, List.foldlM_cons]
  cases subscript d k <;> rfl

theorem iterJsonFile_wrapped (k : String) (hk : PlainKey k) (xs : List Json) :
    iterJsonFile (.obj [(k, .arr xs)]) k = .ok xs := by
  unfold iterJsonFile
  rw [dictLookup_plainKey _ _ hk]
  simp [subscript, pure, Except.pure, bind, Except.bind]

/-! ## `extend` as a map with insertion order -/

/-- the list stored under a name (`[]` when absent) -/
def getD (acc : List (String × List Json)) (n : String) : List Json :=
  ((acc.find? (·.1 == n)).map (·.2)).getD []

def keys (acc : List (String × List Json)) : List String := acc.map (·.1)

theorem extend_extend (acc : List (String × List Json)) (n : String) (xs ys : List Json) :
    extend (extend acc n xs) n ys = extend acc n (xs ++ ys) := by
  induction acc with
  | nil => simp [extend]
  | cons h t ih =>
    obtain ⟨n', zs⟩ := h
    by_cases hn : n' = n
    · simp [extend, hn]
    · simp [extend, hn, ih]

theorem find_extend (acc : List (String × List Json)) (n m : String) (xs : List Json) :
    (extend acc n xs).find? (·.1 == m)
      = if n = m then some (n, getD acc n ++ xs) else acc.find? (·.1 == m) := by
  induction acc with
  | nil =>
    by_cases h : n = m <;> simp [extend, getD, h]
  | cons hd t ih =>
    obtain ⟨n', zs⟩ := hd
    by_cases hn : n' = n
    · subst hn
      by_cases hm : n' = m
      · simp [extend, getD, hm]
      · simp [extend, hm]
    · by_cases hm : n' = m
      · subst hm
        have : ¬ n = n' := fun e => hn e.symm
        simp [extend, hn, this]
      · have hb : (n' == m) = false := by simpa using hm
        have hb' : (n' == n) = false := by simpa using hn
        simp only [extend, hb', Bool.false_eq_true, if_false, List.find?_cons, hb, ih, getD]

theorem getD_extend (acc : List (String × List Json)) (n m : String) (xs : List Json) :
    getD (extend acc n xs) m = if n = m then getD acc m ++ xs else getD acc m := by
  unfold getD
  rw [find_extend]
  by_cases h : n = m
  · subst h; simp [getD]
  · simp [h]

/-- append at the end unless already present -/
def insertEnd (ks : List String) (n : String) : List String := if n ∈ ks then ks else ks ++ [n]

theorem keys_extend (acc : List (String × List Json)) (n : String) (xs : List Json) :
    keys (extend acc n xs) = insertEnd (keys acc) n := by
  induction acc with
  | nil => simp [extend, keys, insertEnd]
  | cons hd t ih =>
    obtain ⟨n', zs⟩ := hd
    by_cases hn : n' = n
    · subst hn; simp [extend, keys, insertEnd]
    · have hn' : ¬ n = n' := fun e => hn e.symm
      simp only [keys, insertEnd] at ih
      simp only [extend, beq_iff_eq, hn, if_false, keys, List.map_cons, insertEnd, List.mem_cons, hn',
        false_or, ih]
      split <;> simp_all

theorem foldl_insertEnd (ks ns : List String) :
    ns.foldl insertEnd ks = ks ++ (ns.filter (fun n => !ks.contains n)).eraseDups := by
  induction ns generalizing ks with
  | nil => simp
  | cons n ns ih =>
    rw [List.foldl_cons, ih]
    by_cases h : n ∈ ks
    · simp [insertEnd, h]
    · have hc : ks.contains n = false := by simpa using h
      simp only [insertEnd, h, if_false, List.filter_cons, hc, Bool.not_false, if_true,
        List.eraseDups_cons, List.append_assoc, List.singleton_append, List.filter_filter]
      congr 3
      apply List.filter_congr
      intro x _
      by_cases hx : x = n
      · subst hx; simp
      · simp [hx]

theorem nodup_foldl_insertEnd (ks ns : List String) (h : ks.Nodup) : (ns.foldl insertEnd ks).Nodup := by
  induction ns generalizing ks with
  | nil => simpa
  | cons n ns ih =>
    rw [List.foldl_cons]
    apply ih
    unfold insertEnd
    split
    · exact h
    · rename_i hn
      rw [List.nodup_append]
      refine ⟨h, by simp, ?_⟩
      intro a ha b hb
      simp only [List.mem_singleton] at hb
      subst hb
      rintro rfl
      exact hn ha

/-- an association list with distinct keys is determined by its key order and its lookups -/
theorem eq_map_keys_getD (acc : List (String × List Json)) (h : (keys acc).Nodup) :
    acc = (keys acc).map (fun n => (n, getD acc n)) := by
  induction acc with
  | nil => rfl
  | cons hd t ih =>
    obtain ⟨n, xs⟩ := hd
    simp only [keys, List.map_cons, List.nodup_cons] at h
    have ih' := ih h.2
    simp only [keys, List.map_cons, getD, List.find?_cons, beq_self_eq_true, Option.map_some,
      Option.getD_some, List.cons.injEq, true_and]
    conv => lhs; rw [ih']
    simp only [keys, List.map_map]
    apply List.map_congr_left
    intro a ha
    have hb : (n == a.1) = false := by
      simp only [beq_eq_false_iff_ne, ne_eq]
      rintro rfl
      exact h.1 (List.mem_map_of_mem ha)
    simp [getD, hb]


/-! ## `assemble` as one left-to-right pass over the (name, document) pairs -/

abbrev Job := String × Except PyErr (List Json)

/-- the work list of `setup_models_data`: every document of every argument, in order, with the result of
    `iter_json_file` on it -/
def jobs (args : List Arg) : List Job :=
  args.flatMap (fun a => a.docs.map (fun d => (a.name, iterJsonFile d a.lookup)))

def stepJob (acc : List (String × List Json)) (j : Job) : Except PyErr (List (String × List Json)) := do
  let items ← j.2
  pure (extend acc j.1 items)

def Job.val (j : Job) : List Json := match j.2 with | .ok xs => xs | .error _ => []
def Job.err (j : Job) : Option PyErr := match j.2 with | .ok _ => none | .error e => some e

theorem docs_foldlM_eq (a : Arg) (acc : List (String × List Json)) :
    a.docs.foldlM (fun acc d => do
        let items ← iterJsonFile d a.lookup
        pure (extend acc a.name items)) acc
      = (a.docs.map (fun d => (a.name, iterJsonFile d a.lookup))).foldlM stepJob acc := by
  rw [List.foldlM_map]
  rfl

theorem assemble_eq_jobs (args : List Arg) : assemble args = (jobs args).foldlM stepJob [] := by
  unfold assemble jobs
  generalize ([] : List (String × List Json)) = acc
  induction args generalizing acc with
  | nil => rfl
  | cons a as ih =>
    rw [List.foldlM_cons, List.flatMap_cons, List.foldlM_append, docs_foldlM_eq]
    cases (a.docs.map (fun d => (a.name, iterJsonFile d a.lookup))).foldlM stepJob acc with
    | error e => rfl
    | ok acc' => exact ih acc'

theorem foldlM_stepJob (js : List Job) (acc : List (String × List Json)) :
    js.foldlM stepJob acc = match (js.filterMap Job.err).head? with
      | none => .ok (js.foldl (fun acc j => extend acc j.1 j.val) acc)
      | some e => .error e := by
  induction js generalizing acc with
  | nil => rfl
  | cons j js ih =>
    obtain ⟨n, r⟩ := j
    cases r with
    | error e => simp [stepJob, Job.err, bind, Except.bind]
    | ok xs =>
      simp only [List.foldlM_cons, stepJob, bind, Except.bind, pure, Except.pure, List.foldl_cons,
        Job.val, Job.err, List.filterMap_cons]
      exact ih _

theorem getD_foldl_extend (js : List Job) (acc : List (String × List Json)) (n : String) :
    getD (js.foldl (fun acc j => extend acc j.1 j.val) acc) n
      = getD acc n ++ (js.filter (·.1 == n)).flatMap Job.val := by
  induction js generalizing acc with
  | nil => simp
  | cons j js ih =>
    rw [List.foldl_cons, ih, getD_extend]
    by_cases h : j.1 = n
    · simp [h]
    · simp [h]

theorem keys_foldl_extend (js : List Job) (acc : List (String × List Json)) :
    keys (js.foldl (fun acc j => extend acc j.1 j.val) acc) = (js.map (·.1)).foldl insertEnd (keys acc) := by
  induction js generalizing acc with
  | nil => rfl
  | cons j js ih => rw [List.foldl_cons, ih, keys_extend]; rfl

/-! ### the closed form in terms of the arguments -/

def itemsOf (lookup : String) (d : Json) : List Json :=
  match iterJsonFile d lookup with | .ok xs => xs | .error _ => []

def errOf (lookup : String) (d : Json) : Option PyErr :=
  match iterJsonFile d lookup with | .ok _ => none | .error e => some e

/-- the errors of `iter_json_file` over all documents, in processing order -/
def errors (args : List Arg) : List PyErr := args.flatMap (fun a => a.docs.filterMap (errOf a.lookup))

/-- the samples of one model name: the items of every document of every argument with that name, in order -/
def samples (args : List Arg) (n : String) : List Json :=
  (args.filter (·.name == n)).flatMap (fun a => a.docs.flatMap (itemsOf a.lookup))

/-- model names in order of first occurrence among the arguments that have at least one document -/
def names (args : List Arg) : List String :=
  ((args.filter (fun a => !a.docs.isEmpty)).map (·.name)).eraseDups

/-- what `setup_models_data` leaves in `models_dict` when nothing raises -/
def assembled (args : List Arg) : List (String × List Json) :=
  (names args).map (fun n => (n, samples args n))

theorem jobs_cons (a : Arg) (as : List Arg) :
    jobs (a :: as) = a.docs.map (fun d => (a.name, iterJsonFile d a.lookup)) ++ jobs as := by
  simp [jobs]

theorem jobs_errors (args : List Arg) : (jobs args).filterMap Job.err = errors args := by
  induction args with
  | nil => rfl
  | cons a as ih =>
    have he : errors (a :: as) = a.docs.filterMap (errOf a.lookup) ++ errors as := by
      simp [errors]
    rw [jobs_cons, List.filterMap_append, ih, he, List.filterMap_map]
    rfl

theorem jobs_samples (args : List Arg) (n : String) :
    ((jobs args).filter (·.1 == n)).flatMap Job.val = samples args n := by
  induction args with
  | nil => rfl
  | cons a as ih =>
    have hs : samples (a :: as) n
        = (if (a.name == n) = true then a.docs.flatMap (itemsOf a.lookup) else []) ++ samples as n := by
      simp only [samples, List.filter_cons]
      split <;> simp
    rw [jobs_cons, List.filter_append, List.flatMap_append, ih, hs]
    by_cases h : a.name = n
    · have : (a.name == n) = true := by simpa using h
      rw [this, if_pos rfl]
      congr 1
      rw [List.filter_map, List.flatMap_map]
      have : (List.filter ((fun x : Job => x.1 == n) ∘ fun d => (a.name, iterJsonFile d a.lookup)) a.docs) = a.docs := by
        apply List.filter_eq_self.2
        intro d _; simpa using h
      rw [this]
      rfl
    · have hb : (a.name == n) = false := by simpa using h
      rw [hb]
      simp only [Bool.false_eq_true, if_false]
      have : List.filter (fun x : Job => x.1 == n) (a.docs.map (fun d => (a.name, iterJsonFile d a.lookup))) = [] := by
        apply List.filter_eq_nil_iff.2
        intro x hx
        simp only [List.mem_map] at hx
        obtain ⟨d, _, rfl⟩ := hx
        simpa using h
      rw [this]; rfl

theorem insertEnd_idem (ks : List String) (n : String) : insertEnd (insertEnd ks n) n = insertEnd ks n := by
  unfold insertEnd
  by_cases h : n ∈ ks <;> simp [h]

theorem foldl_insertEnd_const {α : Type} (ds : List α) (ks : List String) (n : String) :
    (ds.map (fun _ => n)).foldl insertEnd ks = if ds.isEmpty then ks else insertEnd ks n := by
  induction ds generalizing ks with
  | nil => rfl
  | cons d ds ih =>
    rw [List.map_cons, List.foldl_cons, ih]
    cases ds <;> simp [insertEnd_idem]

theorem jobs_keys (args : List Arg) (ks : List String) :
    ((jobs args).map (·.1)).foldl insertEnd ks
      = ((args.filter (fun a => !a.docs.isEmpty)).map (·.name)).foldl insertEnd ks := by
  induction args generalizing ks with
  | nil => rfl
  | cons a as ih =>
    rw [jobs_cons, List.map_append, List.foldl_append, ih, List.map_map]
    have : ((fun x : Job => x.1) ∘ fun d => (a.name, iterJsonFile d a.lookup)) = (fun _ => a.name) := rfl
    rw [this, foldl_insertEnd_const, List.filter_cons]
    cases h : a.docs.isEmpty <;> simp

theorem assembled_keys (args : List Arg) :
    keys ((jobs args).foldl (fun acc j => extend acc j.1 j.val) []) = names args := by
  rw [keys_foldl_extend, jobs_keys, foldl_insertEnd]
  simp only [keys, names, List.map_nil, List.nil_append, List.contains_nil, Bool.not_false]
  rw [List.filter_eq_self.2 (fun _ _ => rfl)]

theorem assembled_nodup (args : List Arg) : (names args).Nodup := by
  rw [← assembled_keys, keys_foldl_extend]
  exact nodup_foldl_insertEnd _ _ (by simp [keys])

theorem foldl_jobs_eq_assembled (args : List Arg) :
    (jobs args).foldl (fun acc j => extend acc j.1 j.val) [] = assembled args := by
  have hk := assembled_keys args
  have hn : (keys ((jobs args).foldl (fun acc j => extend acc j.1 j.val) [])).Nodup := by
    rw [hk]; exact assembled_nodup args
  rw [eq_map_keys_getD _ hn, hk, assembled]
  apply List.map_congr_left
  intro n _
  rw [getD_foldl_extend, jobs_samples]
  simp [getD]

/-- **closed form of `assemble`**: the first error in processing order, else names in first-occurrence
    order each with the concatenation of its samples -/
theorem assemble_eq (args : List Arg) :
    assemble args = match (errors args).head? with
      | none => .ok (assembled args)
      | some e => .error e := by
  rw [assemble_eq_jobs, foldlM_stepJob, jobs_errors, foldl_jobs_eq_assembled]


/-! ## Splitting / regrouping the input leaves `assemble` unchanged -/

theorem foldlM_congr_mid {α β ε : Type} (f : β → α → Except ε β) (A M M' B : List α)
    (h : ∀ acc, M.foldlM f acc = M'.foldlM f acc) (acc : β) :
    (A ++ M ++ B).foldlM f acc = (A ++ M' ++ B).foldlM f acc := by
  simp only [List.foldlM_append]
  cases A.foldlM f acc with
  | error e => rfl
  | ok acc' => simp only [bind, Except.bind]; rw [h]

theorem jobs_append (xs ys : List Arg) : jobs (xs ++ ys) = jobs xs ++ jobs ys := by
  simp [jobs]

theorem jobs_mid (pre post : List Arg) (a : Arg) :
    jobs (pre ++ a :: post)
      = jobs pre ++ a.docs.map (fun d => (a.name, iterJsonFile d a.lookup)) ++ jobs post := by
  rw [jobs_append, jobs_cons, List.append_assoc]

/-- one list document split into two adjacent list documents (any lookup) -/
theorem stepJob_split_arr (n l : String) (xs ys : List Json) (acc : List (String × List Json)) :
    [((n, iterJsonFile (.arr (xs ++ ys)) l) : Job)].foldlM stepJob acc
      = [((n, iterJsonFile (.arr xs) l) : Job), (n, iterJsonFile (.arr ys) l)].foldlM stepJob acc := by
  simp only [iterJsonFile_arr]
  cases isRootLookup l with
  | true =>
    simp [stepJob, bind, Except.bind, pure, Except.pure, extend_extend]
  | false =>
    simp [stepJob, bind, Except.bind]

theorem assemble_split_doc (pre post : List Arg) (n l : String) (ds₁ ds₂ : List Json) (xs ys : List Json) :
    assemble (pre ++ ⟨n, l, ds₁ ++ .arr (xs ++ ys) :: ds₂⟩ :: post)
      = assemble (pre ++ ⟨n, l, ds₁ ++ .arr xs :: .arr ys :: ds₂⟩ :: post) := by
  rw [assemble_eq_jobs, assemble_eq_jobs, jobs_mid, jobs_mid]
  simp only [List.map_append, List.map_cons]
  have e1 : ∀ (J₁ J₂ P Q : List Job) (j : Job), P ++ (J₁ ++ j :: J₂) ++ Q = (P ++ J₁) ++ [j] ++ (J₂ ++ Q) := by
    intros; simp
  have e2 : ∀ (J₁ J₂ P Q : List Job) (j j' : Job),
      P ++ (J₁ ++ j :: j' :: J₂) ++ Q = (P ++ J₁) ++ [j, j'] ++ (J₂ ++ Q) := by
    intros; simp
  rw [e1, e2]
  exact foldlM_congr_mid _ _ _ _ _ (stepJob_split_arr n l xs ys) _

/-- one argument with documents `d₁ ++ d₂` split into two adjacent arguments (same name and lookup) -/
theorem assemble_split_arg (pre post : List Arg) (n l : String) (d₁ d₂ : List Json) :
    assemble (pre ++ ⟨n, l, d₁ ++ d₂⟩ :: post) = assemble (pre ++ ⟨n, l, d₁⟩ :: ⟨n, l, d₂⟩ :: post) := by
  rw [assemble_eq_jobs, assemble_eq_jobs]
  congr 1
  simp [jobs]

/-- top-level lists under the root lookup vs the same lists wrapped as `{"k": list}` under lookup `k` -/
theorem assemble_wrap (pre post : List Arg) (n k r : String) (hk : PlainKey k) (hr : isRootLookup r = true)
    (xss : List (List Json)) :
    assemble (pre ++ ⟨n, r, xss.map .arr⟩ :: post)
      = assemble (pre ++ ⟨n, k, xss.map (fun xs => .obj [(k, .arr xs)])⟩ :: post) := by
  rw [assemble_eq_jobs, assemble_eq_jobs, jobs_mid, jobs_mid]
  congr 3
  simp only [List.map_map]
  apply List.map_congr_left
  intro xs _
  simp [iterJsonFile_arr, hr, iterJsonFile_wrapped k hk]

/-! ## `parseMerge` -/

/-- `m.split("_") if "_" in m else m` (a bare string is a one-element list here) -/
def mergeParts (m : String) : List String := if m.contains '_' then splitUnderscore m else [m]

theorem mergeParts_of_no_underscore (m : String) (h : '_' ∉ m.toList) : mergeParts m = [m] := by
  simp [mergeParts, String.contains_char_eq, h]

theorem mergeParts_of_underscore (m : String) (h : '_' ∈ m.toList) : mergeParts m = splitUnderscore m := by
  simp [mergeParts, String.contains_char_eq, h]

/-- `mergeParts` is the list of underscore-separated segments, for every string -/
theorem mergeParts_eq (m : String) : mergeParts m = (m.toList.splitOn '_').map String.ofList := by
  by_cases h : '_' ∈ m.toList
  · rw [mergeParts_of_underscore m h, splitUnderscore, show "_" = String.singleton '_' from rfl,
      String.splitOn_char]
  · rw [mergeParts_of_no_underscore m h, List.splitOn_eq_singleton h]
    simp

/-- joining underscore-free parts with `_` and splitting again gives the parts back -/
theorem mergeParts_intercalate (parts : List String) (hne : parts ≠ [])
    (h : ∀ p ∈ parts, '_' ∉ p.toList) : mergeParts ("_".intercalate parts) = parts := by
  rw [mergeParts_eq, String.toList_intercalate, show "_".toList = ['_'] from rfl,
    List.splitOn_intercalate '_' (by simpa using h) (by simpa using hne), List.map_map]
  simp [Function.comp_def]

theorem mergeParts_name_arg (name a : String) (hn : '_' ∉ name.toList) (ha : '_' ∉ a.toList) :
    mergeParts (name ++ "_" ++ a) = [name, a] := by
  have := mergeParts_intercalate [name, a] (by simp) (by simp [hn, ha])
  rwa [show "_".intercalate [name, a] = name ++ "_" ++ a by
    rw [← String.toList_inj, String.toList_intercalate]; simp [List.intercalate_cons_cons]] at this

/-- `parseMerge` is a function of `mergeParts m` -/
def parseParts (po : PercentOracle) (io : IntOracle) (defaultPercent : Nat × Nat) (defaultNumber : Nat) :
    List String → Except PyErr Cmp
  | ["percent"] => pure (.percent defaultPercent.1 defaultPercent.2)
  | ["percent", a] => match po a with
    | none => .error (.oracleMiss ("percent " ++ a))
    | some none => .error .valueError
    | some (some (n, d)) => pure (.percent n d)
  | ["number"] => pure (.number defaultNumber)
  | ["number", a] => match io a with
    | none => .error (.oracleMiss ("int " ++ a))
    | some none => .error .valueError
    | some (some i) => pure (.number i.toNat)
  | ["exact"] => pure .exact
  | "percent" :: a :: _ :: _ => match po a with        -- the argument converter runs before the constructor's arity check
    | none => .error (.oracleMiss ("percent " ++ a))
    | some none => .error .valueError
    | some (some _) => .error .typeError
  | "number" :: a :: _ :: _ => match io a with
    | none => .error (.oracleMiss ("int " ++ a))
    | some none => .error .valueError
    | some (some _) => .error .typeError
  | name :: _ => if name == "percent" || name == "number" || name == "exact" then .error .typeError
                 else .error .valueError
  | [] => .error .valueError

theorem parseMerge_eq (po : PercentOracle) (io : IntOracle) (dp : Nat × Nat) (dn : Nat) (m : String) :
    parseMerge po io dp dn m = parseParts po io dp dn (mergeParts m) := rfl

theorem parseParts_unknown (po : PercentOracle) (io : IntOracle) (dp : Nat × Nat) (dn : Nat)
    (name : String) (rest : List String)
    (h1 : name ≠ "percent") (h2 : name ≠ "number") (h3 : name ≠ "exact") :
    parseParts po io dp dn (name :: rest) = .error .valueError := by
  unfold parseParts
  split <;> simp_all

theorem parseParts_too_many (po : PercentOracle) (io : IntOracle) (dp : Nat × Nat) (dn : Nat)
    (name a b : String) (rest : List String)
    (h : (name = "percent" ∧ ∃ v, po a = some (some v)) ∨ (name = "number" ∧ ∃ i, io a = some (some i)) ∨ name = "exact") :
    parseParts po io dp dn (name :: a :: b :: rest) = .error .typeError := by
  rcases h with ⟨h, v, hv⟩ | ⟨h, i, hi⟩ | h
  · subst h; simp [parseParts, hv]
  · subst h; simp [parseParts, hi]
  · subst h; simp [parseParts]

/-- the argument converter runs first: an unparsable first argument is a `ValueError` whatever follows it -/
theorem parseParts_bad_first (po : PercentOracle) (io : IntOracle) (dp : Nat × Nat) (dn : Nat)
    (a b : String) (rest : List String) :
    (po a = some none → parseParts po io dp dn ("percent" :: a :: b :: rest) = .error .valueError) ∧
    (io a = some none → parseParts po io dp dn ("number" :: a :: b :: rest) = .error .valueError) := by
  constructor <;> intro h <;> simp [parseParts, h]

theorem parseParts_exact_arg (po : PercentOracle) (io : IntOracle) (dp : Nat × Nat) (dn : Nat) (a : String) :
    parseParts po io dp dn ["exact", a] = .error .typeError := by
  simp [parseParts]


/-! ## Reading the closed form -/

theorem subscript_error_iff (d : Json) (k : String) (e : PyErr) :
    subscript d k = .error e ↔
      (∃ kvs, d = .obj kvs ∧ kvs.find? (·.1 == k) = none ∧ e = .keyError) ∨
      ((∀ kvs, d ≠ .obj kvs) ∧ e = .typeError) := by
  cases d with
  | obj kvs =>
    simp only [subscript]
    cases h : kvs.find? (·.1 == k) with
    | none => simp [h, eq_comm]
    | some kv =>
      constructor
      · intro h'; cases h'
      · rintro (⟨kvs', hk, hf, _⟩ | ⟨hno, _⟩)
        · cases hk; rw [h] at hf; cases hf
        · exact absurd rfl (hno kvs)
  | _ => simp [subscript, eq_comm]

theorem subscript_ok_iff (d : Json) (k : String) (v : Json) :
    subscript d k = .ok v ↔ ∃ kvs k', d = .obj kvs ∧ kvs.find? (·.1 == k) = some (k', v) := by
  cases d with
  | obj kvs =>
    simp only [subscript]
    cases h : kvs.find? (·.1 == k) with
    | none => simp [h]
    | some kv => obtain ⟨k', v'⟩ := kv; simp [h, pure, Except.pure]
  | _ => simp [subscript]

/-- the first `some` of a `filterMap` comes from the first element mapped to `some` -/
theorem head?_filterMap_eq_some {α β : Type} (f : α → Option β) (l : List α) (b : β) :
    (l.filterMap f).head? = some b ↔
      ∃ pre x post, l = pre ++ x :: post ∧ (∀ y ∈ pre, f y = none) ∧ f x = some b := by
  induction l with
  | nil => simp
  | cons a l ih =>
    cases ha : f a with
    | none =>
      rw [List.filterMap_cons_none ha, ih]
      constructor
      · rintro ⟨pre, x, post, rfl, hpre, hx⟩
        refine ⟨a :: pre, x, post, rfl, ?_, hx⟩
        intro y hy
        simp only [List.mem_cons] at hy
        rcases hy with rfl | hy
        · exact ha
        · exact hpre y hy
      · rintro ⟨pre, x, post, hl, hpre, hx⟩
        cases pre with
        | nil =>
          simp only [List.nil_append, List.cons.injEq] at hl
          obtain ⟨rfl, rfl⟩ := hl
          rw [ha] at hx; cases hx
        | cons p ps =>
          simp only [List.cons_append, List.cons.injEq] at hl
          obtain ⟨rfl, rfl⟩ := hl
          exact ⟨ps, x, post, rfl, fun y hy => hpre y (by simp [hy]), hx⟩
    | some b' =>
      rw [List.filterMap_cons_some ha]
      simp only [List.head?_cons, Option.some.injEq]
      constructor
      · rintro rfl
        exact ⟨[], a, l, rfl, by simp, ha⟩
      · rintro ⟨pre, x, post, hl, hpre, hx⟩
        cases pre with
        | nil =>
          simp only [List.nil_append, List.cons.injEq] at hl
          obtain ⟨rfl, rfl⟩ := hl
          rw [ha] at hx; cases hx; rfl
        | cons p ps =>
          simp only [List.cons_append, List.cons.injEq] at hl
          obtain ⟨rfl, rfl⟩ := hl
          have := hpre a (by simp)
          rw [ha] at this; cases this

/-- all (document, lookup) pairs in processing order: arguments in order, documents in order -/
def docsInOrder (args : List Arg) : List (Json × String) :=
  args.flatMap (fun a => a.docs.map (fun d => (d, a.lookup)))

theorem errors_eq_docsInOrder (args : List Arg) :
    errors args = (docsInOrder args).filterMap (fun x => errOf x.2 x.1) := by
  induction args with
  | nil => rfl
  | cons a as ih =>
    have he : errors (a :: as) = a.docs.filterMap (errOf a.lookup) ++ errors as := by simp [errors]
    have hd : docsInOrder (a :: as) = a.docs.map (fun d => (d, a.lookup)) ++ docsInOrder as := by
      simp [docsInOrder]
    rw [he, hd, List.filterMap_append, ← ih, List.filterMap_map]
    rfl

theorem errOf_eq_none_iff (l : String) (d : Json) : errOf l d = none ↔ ∃ xs, iterJsonFile d l = .ok xs := by
  unfold errOf; cases iterJsonFile d l <;> simp

theorem errOf_eq_some_iff (l : String) (d : Json) (e : PyErr) :
    errOf l d = some e ↔ iterJsonFile d l = .error e := by
  unfold errOf; cases iterJsonFile d l <;> simp

theorem itemsOf_of_ok {l : String} {d : Json} {xs : List Json} (h : iterJsonFile d l = .ok xs) :
    itemsOf l d = xs := by
  unfold itemsOf; rw [h]

theorem errors_eq_nil_iff (args : List Arg) :
    errors args = [] ↔ ∀ a ∈ args, ∀ d ∈ a.docs, ∃ xs, iterJsonFile d a.lookup = .ok xs := by
  simp only [errors, List.flatMap_eq_nil_iff, List.filterMap_eq_nil_iff, errOf_eq_none_iff]

theorem mem_names (args : List Arg) (n : String) :
    n ∈ names args ↔ ∃ a ∈ args, a.name = n ∧ a.docs ≠ [] := by
  simp only [names, List.mem_eraseDups, List.mem_map, List.mem_filter, Bool.not_eq_true',
    List.isEmpty_eq_false_iff]
  constructor
  · rintro ⟨a, ⟨ha, hd⟩, rfl⟩; exact ⟨a, ha, rfl, hd⟩
  · rintro ⟨a, ha, rfl, hd⟩; exact ⟨a, ⟨ha, hd⟩, rfl⟩

theorem find_assembled (args : List Arg) (n : String) :
    (assembled args).find? (·.1 == n) = if n ∈ names args then some (n, samples args n) else none := by
  unfold assembled
  generalize names args = ns
  induction ns with
  | nil => simp
  | cons m ms ih =>
    rw [List.map_cons, List.find?_cons]
    by_cases h : m = n
    · subst h; simp
    · have hb : (m == n) = false := by simpa using h
      have : ¬ n = m := fun e => h e.symm
      simp only [hb, ih, List.mem_cons, this, false_or]

end J2M.Cli
