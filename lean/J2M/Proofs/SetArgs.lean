/-
  Helper lemmas for `J2M/Props/C16S.lean`: `pyStrip` (Python `str.strip()` on `List Char`) and the unfolding of
  `CliArgs.setArgs` (cli.py:236-254).
-/
import J2M.CliArgs
namespace J2M.SetArgsP
open J2M.CliArgs

/-! ## generic `dropWhile` facts -/

theorem head_dropWhile_not {α} (p : α → Bool) (l : List α) (c : α) (h : (l.dropWhile p).head? = some c) :
    p c = false := by
  have := List.head?_dropWhile_not p l
  rw [h] at this
  exact this

theorem dropWhile_eq_self_of_head {α} (p : α → Bool) (l : List α) (h : ∀ c, l.head? = some c → p c = false) :
    l.dropWhile p = l := by
  cases l with
  | nil => rfl
  | cons a as =>
    have := h a rfl
    simp [this]

theorem dropWhile_eq_nil_of_all {α} (p : α → Bool) (l : List α) (h : l.all p = true) : l.dropWhile p = [] := by
  induction l with
  | nil => rfl
  | cons a as ih =>
    simp only [List.all_cons, Bool.and_eq_true] at h
    simp [h.1, ih h.2]

theorem dropWhile_append_all {α} (p : α → Bool) (a l : List α) (h : a.all p = true) :
    (a ++ l).dropWhile p = l.dropWhile p := by
  apply List.dropWhile_append_of_pos
  simpa using h

/-- right strip: `(l.reverse.dropWhile p).reverse` -/
def rstrip {α} (p : α → Bool) (l : List α) : List α := (l.reverse.dropWhile p).reverse

theorem rstrip_split {α} (p : α → Bool) (l : List α) :
    l = rstrip p l ++ (l.reverse.takeWhile p).reverse := by
  have h := (List.takeWhile_append_dropWhile (p := p) (l := l.reverse))
  have h2 := congrArg List.reverse h
  simp only [List.reverse_append, List.reverse_reverse] at h2
  exact h2.symm

theorem rstrip_getLast {α} (p : α → Bool) (l : List α) (c : α) (h : (rstrip p l).getLast? = some c) :
    p c = false := by
  unfold rstrip at h
  rw [List.getLast?_reverse] at h
  exact head_dropWhile_not p _ c h

theorem rstrip_eq_self {α} (p : α → Bool) (l : List α) (h : ∀ c, l.getLast? = some c → p c = false) :
    rstrip p l = l := by
  unfold rstrip
  rw [dropWhile_eq_self_of_head, List.reverse_reverse]
  intro c hc
  rw [List.head?_reverse] at hc
  exact h c hc

theorem rstrip_append_all {α} (p : α → Bool) (l b : List α) (h : b.all p = true) :
    rstrip p (l ++ b) = rstrip p l := by
  unfold rstrip
  rw [List.reverse_append, dropWhile_append_all]
  simpa using h

/-- `rstrip` gives a prefix, so a non-empty result has the same head -/
theorem rstrip_head {α} (p : α → Bool) (l : List α) (c : α) (h : (rstrip p l).head? = some c) :
    l.head? = some c := by
  have hs := rstrip_split p l
  rw [hs]
  cases hr : rstrip p l with
  | nil => rw [hr] at h; simp at h
  | cons a as => rw [hr] at h; simpa using h

/-! ## `pyStrip` -/

theorem pyStrip_eq (s : List Char) : pyStrip s = rstrip pyIsSpace (s.dropWhile pyIsSpace) := rfl

theorem pyStrip_head (s : List Char) (c : Char) (h : (pyStrip s).head? = some c) : pyIsSpace c = false := by
  rw [pyStrip_eq] at h
  exact head_dropWhile_not _ _ c (rstrip_head _ _ c h)

theorem pyStrip_last (s : List Char) (c : Char) (h : (pyStrip s).getLast? = some c) : pyIsSpace c = false := by
  rw [pyStrip_eq] at h
  exact rstrip_getLast _ _ c h

/-- the decomposition: leading spaces, the result, trailing spaces -/
theorem pyStrip_split (s : List Char) :
    s = s.takeWhile pyIsSpace ++ pyStrip s ++ ((s.dropWhile pyIsSpace).reverse.takeWhile pyIsSpace).reverse := by
  have h1 := (List.takeWhile_append_dropWhile (p := pyIsSpace) (l := s)).symm
  have h2 := rstrip_split pyIsSpace (s.dropWhile pyIsSpace)
  rw [pyStrip_eq, List.append_assoc, ← h2]
  exact h1

/-- a string without outer spaces is left alone -/
theorem pyStrip_eq_self (t : List Char) (hh : ∀ c, t.head? = some c → pyIsSpace c = false)
    (hl : ∀ c, t.getLast? = some c → pyIsSpace c = false) : pyStrip t = t := by
  rw [pyStrip_eq, dropWhile_eq_self_of_head _ _ hh, rstrip_eq_self _ _ hl]

theorem pyStrip_of_all (s : List Char) (h : s.all pyIsSpace = true) : pyStrip s = [] := by
  rw [pyStrip_eq, dropWhile_eq_nil_of_all _ _ h]; rfl

/-- uniqueness: any decomposition into spaces / a block without outer spaces / spaces is the one `strip` finds -/
theorem pyStrip_unique (a t b : List Char) (ha : a.all pyIsSpace = true) (hb : b.all pyIsSpace = true)
    (hh : ∀ c, t.head? = some c → pyIsSpace c = false)
    (hl : ∀ c, t.getLast? = some c → pyIsSpace c = false) : pyStrip (a ++ t ++ b) = t := by
  rw [pyStrip_eq, List.append_assoc, dropWhile_append_all _ _ _ ha]
  cases t with
  | nil =>
    rw [List.nil_append, dropWhile_eq_nil_of_all _ _ hb]; rfl
  | cons x t' =>
    have hx := hh x rfl
    rw [dropWhile_eq_self_of_head pyIsSpace ((x :: t') ++ b) (by intro c hc; simp at hc; subst hc; exact hx)]
    rw [rstrip_append_all _ _ _ hb, rstrip_eq_self _ _ hl]

/-! ## `cliPreamble pyStrip` and `setArgs` -/

theorem pyStrip_nil : pyStrip [] = [] := rfl

theorem cliPreamble_pyStrip (o : Option (List Char)) :
    Header.cliPreamble pyStrip o =
      match o with
      | none => none
      | some p => if pyStrip p = [] then none else some (pyStrip p) := by
  cases o with
  | none => rfl
  | some p =>
    cases p with
    | nil => simp [Header.cliPreamble, pyStrip_nil]
    | cons c p' =>
      simp only [Header.cliPreamble]
      cases h : pyStrip (c :: p') with
      | nil => simp
      | cons d q => simp

/-- `setArgs` is `parseKwargs` followed by a total record construction -/
theorem setArgs_ok_iff (kw dkr dkf : List String) (dis : Bool) (pre : Option String) (r : SetArgs) :
    setArgs kw dkr dkf dis pre = .ok r ↔
      ∃ k, parseKwargs kw = .ok k ∧
        r = { dictKeysRegex := dkr.map (fun e => "^" ++ e ++ "$"),
              dictKeysFields := dkf,
              preamble := (Header.cliPreamble pyStrip (pre.map String.toList)).map String.ofList,
              convertUnicode := !dis,
              kwargs := k } := by
  unfold setArgs
  cases h : parseKwargs kw with
  | error e => simp [bind, Except.bind]
  | ok k =>
    simp only [bind, Except.bind, pure, Except.pure, Except.ok.injEq]
    constructor
    · intro hr; exact ⟨k, rfl, hr.symm⟩
    · rintro ⟨k', hk, hr⟩; cases hk; exact hr.symm

theorem setArgs_error_iff (kw dkr dkf : List String) (dis : Bool) (pre : Option String) (e : PyErr) :
    setArgs kw dkr dkf dis pre = .error e ↔ parseKwargs kw = .error e := by
  unfold setArgs
  cases h : parseKwargs kw with
  | error e' => simp [bind, Except.bind]
  | ok k => simp [bind, Except.bind, pure, Except.pure]

end J2M.SetArgsP
