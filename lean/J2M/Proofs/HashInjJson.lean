/-
  Unique decoding of `json.dumps(str, ensure_ascii=True)` tokens on `List Char`:
  `jsonEscChar true` is a prefix-free code, hence a quoted token is self-delimiting.
-/
import J2M.PyStr
namespace J2M.HashInj

/-! ### generic list lemmas -/

/-- `r` is empty or starts with a character outside `p` -/
def Stops (p : Char → Bool) (r : List Char) : Prop := ∀ c ∈ r.head?, p c = false

theorem stops_nil (p : Char → Bool) : Stops p [] := by simp [Stops]
theorem stops_cons {p : Char → Bool} {c : Char} {r : List Char} (h : p c = false) : Stops p (c :: r) := by
  simp [Stops, h]

/-- a maximal run of `p`-characters is determined by the text -/
theorem span_unique (p : Char → Bool) :
    ∀ (xs ys r₁ r₂ : List Char), (∀ c ∈ xs, p c = true) → (∀ c ∈ ys, p c = true) →
      Stops p r₁ → Stops p r₂ → xs ++ r₁ = ys ++ r₂ → xs = ys ∧ r₁ = r₂
  | [], [], r₁, r₂, _, _, _, _, h => by simpa using h
  | [], y :: ys, r₁, r₂, _, hy, s₁, _, h => by
      simp at h; subst h
      have := s₁ y (by simp); have := hy y (by simp); simp_all
  | x :: xs, [], r₁, r₂, hx, _, _, s₂, h => by
      simp at h; subst h
      have := s₂ x (by simp); have := hx x (by simp); simp_all
  | x :: xs, y :: ys, r₁, r₂, hx, hy, s₁, s₂, h => by
      simp at h
      obtain ⟨rfl, h⟩ := h
      have := span_unique p xs ys r₁ r₂ (fun c hc => hx c (by simp [hc])) (fun c hc => hy c (by simp [hc])) s₁ s₂ h
      simp [this.1, this.2]

/-! ### hex digits -/

def hv (c : Char) : Nat := if c.toNat < 58 then c.toNat - 48 else c.toNat - 87
def hv4 (a b c d : Char) : Nat := ((hv a * 16 + hv b) * 16 + hv c) * 16 + hv d

theorem hv_hexDigit_fin : ∀ d : Fin 16, hv (hexDigit d.val) = d.val := by decide

theorem hv_hexDigit {d : Nat} (h : d < 16) : hv (hexDigit d) = d := hv_hexDigit_fin ⟨d, h⟩

theorem hexPad4 (n : Nat) :
    hexPad 4 n = [hexDigit (n / 16 / 16 / 16 % 16), hexDigit (n / 16 / 16 % 16), hexDigit (n / 16 % 16), hexDigit (n % 16)] := by
  simp [hexPad, hexPad.go]

theorem hv4_hexPad4 {n : Nat} (h : n < 65536) :
    hv4 (hexDigit (n / 16 / 16 / 16 % 16)) (hexDigit (n / 16 / 16 % 16)) (hexDigit (n / 16 % 16)) (hexDigit (n % 16)) = n := by
  simp only [hv4]
  rw [hv_hexDigit (Nat.mod_lt _ (by decide)), hv_hexDigit (Nat.mod_lt _ (by decide)),
    hv_hexDigit (Nat.mod_lt _ (by decide)), hv_hexDigit (Nat.mod_lt _ (by decide))]
  omega

theorem hexDigit_ne_quote (d : Nat) (h : d < 16) : hexDigit d ≠ '"' := by
  have : ∀ d : Fin 16, hexDigit d.val ≠ '"' := by decide
  exact this ⟨d, h⟩

/-! ### one-step decoder for `jsonEscChar true` -/

/-- code point of the first escaped character of a `json.dumps` body -/
def dec1 : List Char → Nat
  | [] => 0
  | c :: rest =>
    if c ≠ '\\' then c.toNat else
    match rest with
    | [] => 0
    | x :: rest2 =>
      if x = '"' then 34 else if x = '\\' then 92 else if x = 'n' then 10 else if x = 'r' then 13
      else if x = 't' then 9 else if x = 'b' then 8 else if x = 'f' then 12 else
      match rest2 with
      | h1 :: h2 :: h3 :: h4 :: rest3 =>
        let v := hv4 h1 h2 h3 h4
        if 0xd800 ≤ v ∧ v < 0xdc00 then
          match rest3 with
          | _ :: _ :: l1 :: l2 :: l3 :: l4 :: _ => 0x10000 + (v - 0xd800) * 1024 + (hv4 l1 l2 l3 l4 - 0xdc00)
          | _ => 0
        else v
      | _ => 0

theorem char_range (c : Char) : c.toNat < 0xd800 ∨ (0xdfff < c.toNat ∧ c.toNat < 0x110000) := by
  have := c.valid
  unfold UInt32.isValidChar Nat.isValidChar at this
  exact this

/-- decoding a single `\uXXXX` unit outside the high-surrogate range -/
theorem dec1_u4_low {n : Nat} (h : n < 65536) (hs : ¬ (0xd800 ≤ n ∧ n < 0xdc00)) (R : List Char) :
    dec1 (u4 n ++ R) = n := by
  simp only [u4, hexPad4, dec1, List.cons_append, List.nil_append]
  simp [hv4_hexPad4 h, hs]

/-- decoding a surrogate pair `\uD8xx\uDCxx` -/
theorem dec1_u4_pair {hi lo : Nat} (h1 : 0xd800 ≤ hi) (h2 : hi < 0xdc00) (h3 : lo < 65536) (R : List Char) :
    dec1 (u4 hi ++ u4 lo ++ R) = 0x10000 + (hi - 0xd800) * 1024 + (lo - 0xdc00) := by
  have hh : hi < 65536 := by omega
  simp only [u4, hexPad4, dec1, List.cons_append, List.nil_append]
  simp [hv4_hexPad4 hh, hv4_hexPad4 h3, h1, h2]

/-- every escape produced by `jsonEscChar true` decodes to the character it came from -/
theorem dec1_esc (c : Char) (R : List Char) : dec1 (jsonEscChar true c ++ R) = c.toNat := by
  have hr := char_range c
  unfold jsonEscChar
  split
  · subst_vars; simp [dec1]
  split
  · subst_vars; simp [dec1]
  split
  · subst_vars; simp [dec1]
  split
  · subst_vars; simp [dec1]
  split
  · subst_vars; simp [dec1]
  split
  · rename_i h; simp [dec1, h]
  split
  · rename_i h; simp [dec1, h]
  split
  · exact dec1_u4_low (by omega) (by omega) R
  split
  · rename_i h1 h2 _ _ _ _ _ _ _
    simp [dec1, h2]
  split
  · rename_i h; simp at h
  split
  · rename_i h; exact dec1_u4_low h (by omega) R
  · simp only []
    rw [dec1_u4_pair (by omega) (by omega) (by omega)]
    omega

/-- `jsonEscChar true` is a prefix-free code -/
theorem esc_prefix_free {c d : Char} {R₁ R₂ : List Char}
    (h : jsonEscChar true c ++ R₁ = jsonEscChar true d ++ R₂) : c = d ∧ R₁ = R₂ := by
  have h1 := dec1_esc c R₁
  have h2 := dec1_esc d R₂
  rw [h, h2] at h1
  have hcd : c = d := (Char.toNat_inj.mp h1).symm
  subst hcd
  exact ⟨rfl, List.append_cancel_left h⟩

/-- an escape is never empty and never starts with the closing quote -/
theorem esc_not_quote {c : Char} {R R' : List Char} (h : jsonEscChar true c ++ R = '"' :: R') : False := by
  have h1 := dec1_esc c R
  rw [h] at h1
  have hc : c = '"' := (Char.toNat_inj.mp (by rw [← h1]; simp [dec1])).symm
  subst hc
  simp [jsonEscChar] at h

/-- body of a quoted token followed by the closing quote is uniquely decodable -/
theorem escBody_unique : ∀ (s₁ s₂ r₁ r₂ : List Char),
    s₁.flatMap (jsonEscChar true) ++ '"' :: r₁ = s₂.flatMap (jsonEscChar true) ++ '"' :: r₂ →
    s₁ = s₂ ∧ r₁ = r₂
  | [], [], r₁, r₂, h => by simpa using h
  | [], d :: ds, r₁, r₂, h => by
      simp only [List.flatMap_nil, List.nil_append, List.flatMap_cons, List.append_assoc] at h
      exact (esc_not_quote h.symm).elim
  | c :: cs, [], r₁, r₂, h => by
      simp only [List.flatMap_nil, List.nil_append, List.flatMap_cons, List.append_assoc] at h
      exact (esc_not_quote h).elim
  | c :: cs, d :: ds, r₁, r₂, h => by
      simp only [List.flatMap_cons, List.append_assoc] at h
      obtain ⟨rfl, h'⟩ := esc_prefix_free h
      obtain ⟨rfl, rfl⟩ := escBody_unique cs ds r₁ r₂ h'
      exact ⟨rfl, rfl⟩

/-- **JSON string tokens are self-delimiting** -/
theorem jsonDumpsChars_unique {s₁ s₂ r₁ r₂ : List Char}
    (h : jsonDumpsChars true s₁ ++ r₁ = jsonDumpsChars true s₂ ++ r₂) : s₁ = s₂ ∧ r₁ = r₂ := by
  simp only [jsonDumpsChars, List.cons_append, List.append_assoc, List.nil_append, List.cons.injEq, true_and] at h
  exact escBody_unique s₁ s₂ r₁ r₂ h

theorem jsonDumpsChars_inj {s₁ s₂ : List Char}
    (h : jsonDumpsChars true s₁ = jsonDumpsChars true s₂) : s₁ = s₂ :=
  (jsonDumpsChars_unique (r₁ := []) (r₂ := []) (by simpa using h)).1

theorem toList_jsonDumps (s : String) : (jsonDumps true s).toList = jsonDumpsChars true s.toList := by
  simp [jsonDumps]

/-- sub-lemma (i) on `String` -/
theorem jsonDumps_inj {s₁ s₂ : String} (h : jsonDumps true s₁ = jsonDumps true s₂) : s₁ = s₂ := by
  apply String.toList_inj.mp
  apply jsonDumpsChars_inj
  rw [← toList_jsonDumps, ← toList_jsonDumps, h]

/-- a token followed by anything, on `String` arguments -/
theorem jsonDumps_unique {s₁ s₂ : String} {r₁ r₂ : List Char}
    (h : (jsonDumps true s₁).toList ++ r₁ = (jsonDumps true s₂).toList ++ r₂) : s₁ = s₂ ∧ r₁ = r₂ := by
  rw [toList_jsonDumps, toList_jsonDumps] at h
  have := jsonDumpsChars_unique h
  exact ⟨String.toList_inj.mp this.1, this.2⟩

theorem jsonDumps_head (s : String) : ∃ rest, (jsonDumps true s).toList = '"' :: rest := by
  rw [toList_jsonDumps]; exact ⟨_, rfl⟩

/-! ### `json.dumps(list_of_str)` -/

/-- tail of a JSON list: `, "x"` repeated -/
def jtl : List String → List Char
  | [] => []
  | v :: vs => ',' :: ' ' :: (jsonDumps true v).toList ++ jtl vs

def jl : List String → List Char
  | [] => []
  | v :: vs => (jsonDumps true v).toList ++ jtl vs

theorem intercalate_jtl (v : String) (vs : List String) :
    List.intercalate [',', ' '] ((v :: vs).map (fun s => (jsonDumps true s).toList)) =
      (jsonDumps true v).toList ++ jtl vs := by
  induction vs generalizing v with
  | nil => simp [jtl]
  | cons w ws ih =>
    simp only [List.map_cons] at ih ⊢
    rw [List.intercalate_cons_cons, ih w]
    simp [jtl]

theorem toList_jsonDumpsList (vs : List String) :
    (jsonDumpsList true vs).toList = '[' :: jl vs ++ [']'] := by
  unfold jsonDumpsList
  cases vs with
  | nil => simp [jl]
  | cons v vs =>
    have := intercalate_jtl v vs
    simp only [List.map_cons] at this
    simp [String.toList_intercalate, jl, List.map_map, Function.comp_def, this]

theorem jtl_unique : ∀ (vs ws : List String) (r₁ r₂ : List Char),
    jtl vs ++ ']' :: r₁ = jtl ws ++ ']' :: r₂ → vs = ws ∧ r₁ = r₂
  | [], [], r₁, r₂, h => by simpa [jtl] using h
  | [], w :: ws, r₁, r₂, h => by simp [jtl] at h
  | v :: vs, [], r₁, r₂, h => by simp [jtl] at h
  | v :: vs, w :: ws, r₁, r₂, h => by
      simp only [jtl, List.cons_append, List.append_assoc, List.cons.injEq, true_and] at h
      obtain ⟨rfl, h'⟩ := jsonDumps_unique h
      obtain ⟨rfl, rfl⟩ := jtl_unique vs ws r₁ r₂ h'
      exact ⟨rfl, rfl⟩

theorem jl_unique (vs ws : List String) (r₁ r₂ : List Char)
    (h : jl vs ++ ']' :: r₁ = jl ws ++ ']' :: r₂) : vs = ws ∧ r₁ = r₂ := by
  cases vs with
  | nil =>
    cases ws with
    | nil => simpa [jl] using h
    | cons w ws =>
      obtain ⟨rest, hr⟩ := jsonDumps_head w
      simp [jl, hr] at h
  | cons v vs =>
    cases ws with
    | nil =>
      obtain ⟨rest, hr⟩ := jsonDumps_head v
      simp [jl, hr] at h
    | cons w ws =>
      simp only [jl, List.append_assoc] at h
      obtain ⟨rfl, h'⟩ := jsonDumps_unique h
      obtain ⟨rfl, rfl⟩ := jtl_unique vs ws r₁ r₂ h'
      exact ⟨rfl, rfl⟩

/-- `json.dumps(list_of_str)` is self-delimiting -/
theorem jsonDumpsList_unique {vs ws : List String} {r₁ r₂ : List Char}
    (h : (jsonDumpsList true vs).toList ++ r₁ = (jsonDumpsList true ws).toList ++ r₂) :
    vs = ws ∧ r₁ = r₂ := by
  rw [toList_jsonDumpsList, toList_jsonDumpsList] at h
  simp only [List.cons_append, List.append_assoc, List.nil_append, List.cons.injEq, true_and] at h
  exact jl_unique vs ws r₁ r₂ h

end J2M.HashInj
