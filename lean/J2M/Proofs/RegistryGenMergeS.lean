/-
  `merge_field_sets` on registry-stage field dicts, with the *refined* lax reading of required fields
  (`InhFieldsLXS`, Proofs/MergeRho.lean: a field may be absent when its type is `Ty.optLikeS`).

  `MergeSoundP` (Proofs/RegistryDefs.lean) reads required fields with `Ty.optLike`; it stays true
  (`mergeSoundP`), but `optimize_type` no longer honours that test (`Union[Optional[Union[]]]` is optimised to
  `Null` since `_optimize_union` splices hidden unions).  The registry pipeline therefore composes
  `MergeSoundPS` (here) with `OptSoundPWeak` (Proofs/RegistryGenOpt.lean), both with `Ty.optLikeS`.
-/
import J2M.Proofs.RegistryGenMerge
import J2M.Proofs.MergeRho
namespace J2M.Reg
open J2M

/-- `MergeSoundP` with the refined lax reading -/
def MergeSoundPS (ov : Bool) (acc : Accepts) (K I : String → Prop) : Prop :=
  ∀ (L : ModelLookup) (e : EqEnv) (c : LitCfg) (sets : List Fields) (F : Fields),
    e.look = L → LookGood K I L → (∀ m ∈ sets, GoodPF K I m) →
    mergeFieldSets c e sets = .ok F →
    GoodPF K I F ∧
    ∀ fs ∈ sets, ∀ kvs, InhFieldsLXS ov acc L fs kvs → InhFieldsLXS ov acc L F kvs

section
variable {ov : Bool} {acc : Accepts} {g : ModelLookup} {P : Ty → Prop}

theorem mergeFieldSets_spec_laxSP (cl : MergeClosedP P) (hs : HashSoundOn ov acc g P)
    {e : EqEnv} (he : EqSoundOn ov acc g e P) {c : LitCfg} {sets : List Fields} {F : Fields}
    (hsets : ∀ m ∈ sets, ∀ f ∈ m, P f.2)
    (h : mergeFieldSets c e sets = .ok F) :
    (F.map (·.1)).Nodup ∧ (∀ f ∈ F, P f.2) ∧
    ∀ m ∈ sets, ∀ kvs, InhFieldsLXS ov acc g m kvs → InhFieldsLXS ov acc g F kvs := by
  obtain ⟨nd, hP, _⟩ := mergeFieldSets_spec_laxP cl hs he hsets h
  refine ⟨nd, hP, ?_⟩
  intro m hm kvs hin
  refine InhFLS.toInhFieldsLXS nd (mergeFieldSets_rho (ov := ov) (acc := acc) (g := g) rhoOK_optLikeS
    (P := P) (e := e) (c := c) ?_ ?_ hsets h m hm kvs hin.toInhFLS)
  · intro first F m F2 inv hm h
    exact (mergeStep_specP cl hs he inv hm h).1
  · intro first F m F1 inv hm h
    obtain ⟨_, a, b, c', d⟩ := mergeFold_specP cl hs he m F F1 inv hm h
    exact ⟨a, fun k orig ho => by obtain ⟨t1, x, y, _⟩ := b k orig ho; exact ⟨t1, x, y⟩, c',
      fun k t0 h0 => by obtain ⟨t1, x, y, _⟩ := d k t0 h0; exact ⟨t1, x, y⟩⟩

end

/-- **`mergeSoundPS`**: `merge_field_sets` on registry-stage field dicts, with `==` evaluated through the
    (registry-stage) lookup itself: the merge is a registry-stage field dict and holds, under the refined lax
    reading, every object of every input dict. -/
theorem mergeSoundPS {ov : Bool} {acc : Accepts} {K I : String → Prop}
    (hK : ∀ k, K k → wfSerName k = true) (hI : IdxAlnum I) : MergeSoundPS ov acc K I := by
  intro L e c sets F heL hL hsets h
  obtain ⟨nd, hP, hin⟩ :=
    mergeFieldSets_spec_laxSP (ov := ov) (acc := acc) (g := L) (P := GoodP K I) mergeClosedP_goodP
      (hashSoundOn_goodP hK hI) (pyEq_soundP e heL hL) (c := c) (sets := sets) (F := F)
      (fun m hm f hf => (hsets m hm).2 f hf) h
  exact ⟨⟨nd, hP⟩, hin⟩

/-- all hypotheses of `mergeSoundPS` / `MergeSoundPS` hold for the instance `Ex` of Proofs/RegistryGenMerge.lean -/
example {ov acc} : GoodPF Ex.K Ex.I [("x", .ptr "1"), ("y", .opt (.ptr "3"))] ∧
    ∀ fs ∈ Ex.sets, ∀ kvs, InhFieldsLXS ov acc Ex.L fs kvs →
      InhFieldsLXS ov acc Ex.L [("x", .ptr "1"), ("y", .opt (.ptr "3"))] kvs :=
  mergeSoundPS Ex.hK Ex.hI Ex.L Ex.E ⟨10, 20⟩ Ex.sets _ rfl Ex.lookGood Ex.setsGood Ex.merge_eq

end J2M.Reg
