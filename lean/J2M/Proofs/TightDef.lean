/-
  C02 "inferred types are tight" — the witness relation `Wit` (specification side) and its basic algebra
  (unfolding lemmas, monotonicity).  The clause-by-clause reading against the property text is repeated as
  theorems in `J2M/Props/C02T.lean` (`wit_*`).

  `Wit acc a u t vs` : "the multiset of JSON values `vs` routed to one position of the inferred metadata
  justifies the type `t` found there — nothing in `t` is admitted that no value in `vs` exhibited, up to the
  documented widenings".  The two flags are *licences* handed down by the enclosing constructor:
    * `a` — "some object of the model lacked this key": licenses a `DOptional` without an observed `null`;
    * `u` — "the enclosing list/dict was observed empty at this position": licenses `Unknown` (`Any`).
  At the root and below every union both flags are `False`.
-/
import J2M.Generator
namespace J2M.C02T
open J2M

/-- the elements of the arrays among `vs` (the values routed to the element position of a `DList`) -/
def elemsOf (vs : List Json) : List Json :=
  vs.flatMap (fun v => match v with | .arr xs => xs | _ => [])

/-- the values of the objects among `vs` (the values routed to the value position of a `DDict`) -/
def valsOf (vs : List Json) : List Json :=
  vs.flatMap (fun v => match v with | .obj kvs => kvs.map (·.2) | _ => [])

/-- the values bound to key `k` in the objects among `vs` (for a Python dict: `o[k]` for the objects having `k`) -/
def fieldVals (k : String) (vs : List Json) : List Json :=
  vs.flatMap (fun v => match v with | .obj kvs => (kvs.filter (fun kv => kv.1 == k)).map (·.2) | _ => [])

/-- some object among `vs` has no key `k` -/
def LacksKey (k : String) (vs : List Json) : Prop :=
  ∃ kvs, Json.obj kvs ∈ vs ∧ k ∉ kvs.map (·.1)

/-- some object among `vs` has all its keys among `keys` -/
def HasObjWithin (keys : List String) (vs : List Json) : Prop :=
  ∃ kvs, Json.obj kvs ∈ vs ∧ ∀ k ∈ kvs.map (·.1), k ∈ keys

mutual
/-- the witness relation (see the file header; clause-by-clause comments in `Props/C02T.lean`) -/
def Wit (acc : Accepts) (a u : Prop) : Ty → List Json → Prop
  | .int, vs => ∃ i, Json.int i ∈ vs
  | .float, vs => ∃ x, Json.float x ∈ vs
  | .bool, vs => ∃ b, Json.bool b ∈ vs
  | .null, vs => Json.null ∈ vs
  | .str, vs => ∃ s, Json.str s ∈ vs
  | .unknown, _ => u
  | .ser k, vs => ∃ s, Json.str s ∈ vs ∧ acc k s = some true
  | .lit true _, vs => ∃ s, Json.str s ∈ vs
  | .lit false ws, vs => ws ≠ [] ∧ ∀ w ∈ ws, Json.str w ∈ vs
  | .opt t, vs => (a ∨ Json.null ∈ vs) ∧ Wit acc a u t vs
  | .union ts, vs => ts ≠ [] ∧ WitAll acc ts vs
  | .list t, vs => Wit acc False (Json.arr [] ∈ vs) t (elemsOf vs)
  | .dict t, vs => Wit acc False (Json.obj [] ∈ vs) t (valsOf vs)
  | .obj fs, vs => HasObjWithin (fs.map (·.1)) vs ∧ WitFields acc fs vs
  | .tuple _, _ => False
  | .ptr _, _ => False
/-- every union member is witnessed, with no licence -/
def WitAll (acc : Accepts) : List Ty → List Json → Prop
  | [], _ => True
  | t :: ts, vs => Wit acc False False t vs ∧ WitAll acc ts vs
/-- every field type is witnessed by the values at its key; `Optional` is licensed by a missing key -/
def WitFields (acc : Accepts) : List (String × Ty) → List Json → Prop
  | [], _ => True
  | (k, t) :: fs, vs => Wit acc (LacksKey k vs) False t (fieldVals k vs) ∧ WitFields acc fs vs
end

/-! ### unfolding -/

theorem witAll_iff {acc : Accepts} {ts : List Ty} {vs : List Json} :
    WitAll acc ts vs ↔ ∀ t ∈ ts, Wit acc False False t vs := by
  induction ts with
  | nil => simp [WitAll]
  | cons t ts ih => simp [WitAll, ih]

theorem witFields_iff {acc : Accepts} {fs : List (String × Ty)} {vs : List Json} :
    WitFields acc fs vs ↔ ∀ kv ∈ fs, Wit acc (LacksKey kv.1 vs) False kv.2 (fieldVals kv.1 vs) := by
  induction fs with
  | nil => simp [WitFields]
  | cons kv fs ih => obtain ⟨k, t⟩ := kv; simp [WitFields, ih]

theorem wit_union {acc : Accepts} {a u : Prop} {ts : List Ty} {vs : List Json} :
    Wit acc a u (.union ts) vs ↔ ts ≠ [] ∧ ∀ t ∈ ts, Wit acc False False t vs := by
  rw [Wit, witAll_iff]

theorem wit_obj {acc : Accepts} {a u : Prop} {fs : List (String × Ty)} {vs : List Json} :
    Wit acc a u (.obj fs) vs ↔ HasObjWithin (fs.map (·.1)) vs ∧
      ∀ kv ∈ fs, Wit acc (LacksKey kv.1 vs) False kv.2 (fieldVals kv.1 vs) := by
  rw [Wit, witFields_iff]

/-! ### the routing functions are monotone -/

theorem elemsOf_mono {vs vs' : List Json} (h : ∀ v ∈ vs, v ∈ vs') : ∀ x ∈ elemsOf vs, x ∈ elemsOf vs' := by
  intro x hx
  simp only [elemsOf, List.mem_flatMap] at hx ⊢
  obtain ⟨v, hv, hx⟩ := hx
  exact ⟨v, h v hv, hx⟩

theorem valsOf_mono {vs vs' : List Json} (h : ∀ v ∈ vs, v ∈ vs') : ∀ x ∈ valsOf vs, x ∈ valsOf vs' := by
  intro x hx
  simp only [valsOf, List.mem_flatMap] at hx ⊢
  obtain ⟨v, hv, hx⟩ := hx
  exact ⟨v, h v hv, hx⟩

theorem fieldVals_mono {k : String} {vs vs' : List Json} (h : ∀ v ∈ vs, v ∈ vs') :
    ∀ x ∈ fieldVals k vs, x ∈ fieldVals k vs' := by
  intro x hx
  simp only [fieldVals, List.mem_flatMap] at hx ⊢
  obtain ⟨v, hv, hx⟩ := hx
  exact ⟨v, h v hv, hx⟩

theorem LacksKey.mono {k : String} {vs vs' : List Json} (h : ∀ v ∈ vs, v ∈ vs') :
    LacksKey k vs → LacksKey k vs' := by
  rintro ⟨kvs, hm, hk⟩; exact ⟨kvs, h _ hm, hk⟩

theorem HasObjWithin.mono {ks ks' : List String} {vs vs' : List Json} (h : ∀ v ∈ vs, v ∈ vs')
    (hk : ∀ k ∈ ks, k ∈ ks') : HasObjWithin ks vs → HasObjWithin ks' vs' := by
  rintro ⟨kvs, hm, hsub⟩; exact ⟨kvs, h _ hm, fun k hk' => hk k (hsub k hk')⟩

theorem mem_elemsOf {x : Json} {vs : List Json} : x ∈ elemsOf vs ↔ ∃ xs, Json.arr xs ∈ vs ∧ x ∈ xs := by
  simp only [elemsOf, List.mem_flatMap]
  constructor
  · rintro ⟨v, hv, hx⟩
    cases v <;> simp at hx
    exact ⟨_, hv, hx⟩
  · rintro ⟨xs, hv, hx⟩; exact ⟨_, hv, hx⟩

theorem mem_valsOf {x : Json} {vs : List Json} :
    x ∈ valsOf vs ↔ ∃ kvs, Json.obj kvs ∈ vs ∧ ∃ kv ∈ kvs, kv.2 = x := by
  simp only [valsOf, List.mem_flatMap]
  constructor
  · rintro ⟨v, hv, hx⟩
    cases v <;> simp at hx
    obtain ⟨k, hk⟩ := hx
    exact ⟨_, hv, (k, x), hk, rfl⟩
  · rintro ⟨kvs, hv, kv, hkv, rfl⟩; exact ⟨_, hv, by simp; exact ⟨kv.1, hkv⟩⟩

theorem mem_fieldVals {k : String} {x : Json} {vs : List Json} :
    x ∈ fieldVals k vs ↔ ∃ kvs, Json.obj kvs ∈ vs ∧ (k, x) ∈ kvs := by
  simp only [fieldVals, List.mem_flatMap]
  constructor
  · rintro ⟨v, hv, hx⟩
    cases v with
    | obj kvs =>
      simp only [List.mem_map, List.mem_filter, beq_iff_eq] at hx
      obtain ⟨⟨k', x'⟩, ⟨hm, hk⟩, hx⟩ := hx
      simp only at hk hx; subst hk; subst hx
      exact ⟨_, hv, hm⟩
    | _ => simp at hx
  · rintro ⟨kvs, hv, hkv⟩
    refine ⟨_, hv, ?_⟩
    simp only [List.mem_map, List.mem_filter, beq_iff_eq]
    exact ⟨(k, x), ⟨hkv, rfl⟩, rfl⟩

/-! ### monotonicity of `Wit`: more values, weaker licences -/

mutual
theorem Wit.mono {acc : Accepts} : ∀ (t : Ty) {a a' u u' : Prop} {vs vs' : List Json},
    (a → a') → (u → u') → (∀ v ∈ vs, v ∈ vs') → Wit acc a u t vs → Wit acc a' u' t vs'
  | .int, _, _, _, _, _, _, _, _, hs, h => by
    simp only [Wit] at h ⊢; obtain ⟨i, hi⟩ := h; exact ⟨i, hs _ hi⟩
  | .float, _, _, _, _, _, _, _, _, hs, h => by
    simp only [Wit] at h ⊢; obtain ⟨i, hi⟩ := h; exact ⟨i, hs _ hi⟩
  | .bool, _, _, _, _, _, _, _, _, hs, h => by
    simp only [Wit] at h ⊢; obtain ⟨i, hi⟩ := h; exact ⟨i, hs _ hi⟩
  | .null, _, _, _, _, _, _, _, _, hs, h => by
    simp only [Wit] at h ⊢; exact hs _ h
  | .str, _, _, _, _, _, _, _, _, hs, h => by
    simp only [Wit] at h ⊢; obtain ⟨i, hi⟩ := h; exact ⟨i, hs _ hi⟩
  | .unknown, _, _, _, _, _, _, _, hu, _, h => by
    simp only [Wit] at h ⊢; exact hu h
  | .ser k, _, _, _, _, _, _, _, _, hs, h => by
    simp only [Wit] at h ⊢; obtain ⟨s, hi, ha⟩ := h; exact ⟨s, hs _ hi, ha⟩
  | .lit true _, _, _, _, _, _, _, _, _, hs, h => by
    simp only [Wit] at h ⊢; obtain ⟨i, hi⟩ := h; exact ⟨i, hs _ hi⟩
  | .lit false ws, _, _, _, _, _, _, _, _, hs, h => by
    simp only [Wit] at h ⊢; exact ⟨h.1, fun w hw => hs _ (h.2 w hw)⟩
  | .opt t, _, _, _, _, _, _, ha, hu, hs, h => by
    simp only [Wit] at h ⊢
    exact ⟨h.1.elim (fun x => .inl (ha x)) (fun x => .inr (hs _ x)), Wit.mono t ha hu hs h.2⟩
  | .union ts, _, _, _, _, _, _, _, _, hs, h => by
    simp only [Wit] at h ⊢
    exact ⟨h.1, WitAll.mono ts hs h.2⟩
  | .list t, _, _, _, _, _, _, _, _, hs, h => by
    simp only [Wit] at h ⊢
    exact Wit.mono t id (hs _) (elemsOf_mono hs) h
  | .dict t, _, _, _, _, _, _, _, _, hs, h => by
    simp only [Wit] at h ⊢
    exact Wit.mono t id (hs _) (valsOf_mono hs) h
  | .obj fs, _, _, _, _, _, _, _, _, hs, h => by
    simp only [Wit] at h ⊢
    exact ⟨h.1.mono hs (fun _ hk => hk), WitFields.mono fs hs h.2⟩
  | .tuple _, _, _, _, _, _, _, _, _, _, h => by simp only [Wit] at h
  | .ptr _, _, _, _, _, _, _, _, _, _, h => by simp only [Wit] at h
theorem WitAll.mono {acc : Accepts} : ∀ (ts : List Ty) {vs vs' : List Json},
    (∀ v ∈ vs, v ∈ vs') → WitAll acc ts vs → WitAll acc ts vs'
  | [], _, _, _, _ => by simp only [WitAll]
  | t :: ts, _, _, hs, h => by
    simp only [WitAll] at h ⊢
    exact ⟨Wit.mono t id id hs h.1, WitAll.mono ts hs h.2⟩
theorem WitFields.mono {acc : Accepts} : ∀ (fs : List (String × Ty)) {vs vs' : List Json},
    (∀ v ∈ vs, v ∈ vs') → WitFields acc fs vs → WitFields acc fs vs'
  | [], _, _, _, _ => by simp only [WitFields]
  | (k, t) :: fs, _, _, hs, h => by
    simp only [WitFields] at h ⊢
    exact ⟨Wit.mono t (LacksKey.mono hs) id (fieldVals_mono hs) h.1, WitFields.mono fs hs h.2⟩
end

/-- appending values keeps a witness -/
theorem Wit.append_right {acc : Accepts} {a u : Prop} {t : Ty} {vs : List Json} (ws : List Json)
    (h : Wit acc a u t vs) : Wit acc a u t (vs ++ ws) :=
  Wit.mono t id id (fun _ hv => List.mem_append_left _ hv) h

theorem Wit.append_left {acc : Accepts} {a u : Prop} {t : Ty} {vs : List Json} (ws : List Json)
    (h : Wit acc a u t vs) : Wit acc a u t (ws ++ vs) :=
  Wit.mono t id id (fun _ hv => List.mem_append_right _ hv) h

/-- the licences only matter for `Unknown` and `DOptional` at the top -/
theorem Wit.drop_flags {acc : Accepts} {a u : Prop} {t : Ty} {vs : List Json} (h : Wit acc a u t vs)
    (ho : t.isOpt = false) : (t = .unknown ∧ u) ∨ Wit acc False False t vs := by
  cases t with
  | unknown => exact .inl ⟨rfl, by simp only [Wit] at h; exact h⟩
  | opt t => simp [Ty.isOpt] at ho
  | lit ov ws => cases ov <;> exact .inr (by simp only [Wit] at h ⊢; exact h)
  | tuple _ => simp only [Wit] at h
  | ptr _ => simp only [Wit] at h
  | _ => exact .inr (by simp only [Wit] at h ⊢; exact h)

theorem Wit.drop_flags' {acc : Accepts} {a : Prop} {t : Ty} {vs : List Json} (h : Wit acc a False t vs)
    (ho : t.isOpt = false) : Wit acc False False t vs := by
  rcases h.drop_flags ho with ⟨_, h⟩ | h
  · exact h.elim
  · exact h

end J2M.C02T
