/-
  C07 (generator level), part 2: the relation between the *raw* (not yet optimised) types of two runs.

  During `merge_field_sets` an incoming type that is Python-`==` to the current one is skipped, so one
  run may keep a single member `x` where another keeps `Union[y, y']` with `x`, `y`, `y'` equal up to
  order.  `NSim t u` compares the *member sets* of `t` and `u` (a non-union counts as its own single
  member), recursively in every type position.  It is defined through `Sim false` on a normalised copy
  (`W t`: every type position becomes a union of its members), so it is an equivalence for free.
-/
import J2M.Proofs.Perm
namespace J2M.Perm
open J2M

mutual
/-- a type position: the union of its (normalised) members -/
def W : Ty → Ty
  | .union as => .union (UL as)
  | .list x => .union [.list (W x)]
  | .dict x => .union [.dict (W x)]
  | .opt x => .union [.opt (W x)]
  | .obj fs => .union [.obj (WFs fs)]
  | a => .union [a]
/-- a member -/
def Um : Ty → Ty
  | .union as => .union (UL as)
  | .list x => .list (W x)
  | .dict x => .dict (W x)
  | .opt x => .opt (W x)
  | .obj fs => .obj (WFs fs)
  | a => a
def UL : List Ty → List Ty
  | [] => []
  | a :: as => Um a :: UL as
def WFs : List (String × Ty) → List (String × Ty)
  | [] => []
  | (k, t) :: fs => (k, W t) :: WFs fs
end

theorem UL_eq_map (as : List Ty) : UL as = as.map Um := by
  induction as with
  | nil => rfl
  | cons a as ih => simp [UL, ih]

theorem WFs_eq_map (fs : List (String × Ty)) : WFs fs = fs.map (fun kv => (kv.1, W kv.2)) := by
  induction fs with
  | nil => rfl
  | cons f fs ih => obtain ⟨k, t⟩ := f; simp [WFs, ih]

theorem W_eq (t : Ty) : W t = .union (UL t.unionMembers) := by
  cases t <;> simp [W, Ty.unionMembers, UL, Um]

/-- member sets equal up to order, in every type position -/
def NSim (t u : Ty) : Prop := Sim false (W t) (W u)
/-- two members equal up to order -/
def ASim (a b : Ty) : Prop := Sim false (Um a) (Um b)

theorem NSim.refl (t : Ty) : NSim t t := Sim.refl _ _
theorem NSim.symm {t u : Ty} (h : NSim t u) : NSim u t := Sim.symm h
theorem NSim.trans {t u v : Ty} (h1 : NSim t u) (h2 : NSim u v) : NSim t v := Sim.trans h1 h2
theorem ASim.refl (t : Ty) : ASim t t := Sim.refl _ _
theorem ASim.symm {t u : Ty} (h : ASim t u) : ASim u t := Sim.symm h
theorem ASim.trans {t u v : Ty} (h1 : ASim t u) (h2 : ASim u v) : ASim t v := Sim.trans h1 h2

/-- `as` and `bs` have the same members up to `ASim` -/
def SetA (as bs : List Ty) : Prop :=
  (∀ a ∈ as, ∃ b ∈ bs, ASim a b) ∧ (∀ b ∈ bs, ∃ a ∈ as, ASim a b)

theorem SetA.refl (as : List Ty) : SetA as as :=
  ⟨fun a ha => ⟨a, ha, ASim.refl a⟩, fun a ha => ⟨a, ha, ASim.refl a⟩⟩
theorem SetA.symm {as bs} (h : SetA as bs) : SetA bs as :=
  ⟨fun b hb => by obtain ⟨a, ha, h'⟩ := h.2 b hb; exact ⟨a, ha, h'.symm⟩,
   fun a ha => by obtain ⟨b, hb, h'⟩ := h.1 a ha; exact ⟨b, hb, h'.symm⟩⟩
theorem SetA.trans {as bs cs} (h1 : SetA as bs) (h2 : SetA bs cs) : SetA as cs :=
  ⟨fun a ha => by
    obtain ⟨b, hb, h'⟩ := h1.1 a ha
    obtain ⟨c, hc, h''⟩ := h2.1 b hb
    exact ⟨c, hc, h'.trans h''⟩,
   fun c hc => by
    obtain ⟨b, hb, h'⟩ := h2.2 c hc
    obtain ⟨a, ha, h''⟩ := h1.2 b hb
    exact ⟨a, ha, h''.trans h'⟩⟩
theorem SetA.of_mem_iff {as bs : List Ty} (h : ∀ t, t ∈ as ↔ t ∈ bs) : SetA as bs :=
  ⟨fun a ha => ⟨a, (h a).1 ha, ASim.refl _⟩, fun b hb => ⟨b, (h b).2 hb, ASim.refl _⟩⟩
theorem SetA.append {as bs as' bs'} (h1 : SetA as bs) (h2 : SetA as' bs') : SetA (as ++ as') (bs ++ bs') := by
  constructor
  · intro a ha
    rcases List.mem_append.1 ha with ha | ha
    · obtain ⟨b, hb, h⟩ := h1.1 a ha; exact ⟨b, List.mem_append_left _ hb, h⟩
    · obtain ⟨b, hb, h⟩ := h2.1 a ha; exact ⟨b, List.mem_append_right _ hb, h⟩
  · intro b hb
    rcases List.mem_append.1 hb with hb | hb
    · obtain ⟨a, ha, h⟩ := h1.2 b hb; exact ⟨a, List.mem_append_left _ ha, h⟩
    · obtain ⟨a, ha, h⟩ := h2.2 b hb; exact ⟨a, List.mem_append_right _ ha, h⟩

theorem setSim_UL {as bs : List Ty} : SetSim false (UL as) (UL bs) ↔ SetA as bs := by
  simp only [SetSim, UL_eq_map, List.mem_map, SetA, ASim]
  constructor
  · rintro ⟨h1, h2⟩
    refine ⟨fun a ha => ?_, fun b hb => ?_⟩
    · obtain ⟨_, ⟨b, hb, rfl⟩, h⟩ := h1 _ ⟨a, ha, rfl⟩; exact ⟨b, hb, h⟩
    · obtain ⟨_, ⟨a, ha, rfl⟩, h⟩ := h2 _ ⟨b, hb, rfl⟩; exact ⟨a, ha, h⟩
  · rintro ⟨h1, h2⟩
    refine ⟨?_, ?_⟩
    · rintro _ ⟨a, ha, rfl⟩
      obtain ⟨b, hb, h⟩ := h1 a ha; exact ⟨_, ⟨b, hb, rfl⟩, h⟩
    · rintro _ ⟨b, hb, rfl⟩
      obtain ⟨a, ha, h⟩ := h2 b hb; exact ⟨_, ⟨a, ha, rfl⟩, h⟩

/-- **`NSim` is "same member set up to `ASim`"** -/
theorem nsim_iff {t u : Ty} : NSim t u ↔ SetA t.unionMembers u.unionMembers := by
  unfold NSim
  rw [W_eq, W_eq, sim_union_union, setSim_UL]
  simp

theorem nsim_union_union {as bs : List Ty} : NSim (.union as) (.union bs) ↔ SetA as bs := nsim_iff

/-- field dicts that agree key by key up to `NSim` -/
def FieldsN (fs gs : Fields) : Prop :=
  (∀ kv ∈ fs, ∃ u, (kv.1, u) ∈ gs ∧ NSim kv.2 u) ∧ (∀ kv ∈ gs, ∃ t, (kv.1, t) ∈ fs ∧ NSim t kv.2)

theorem fieldsSim_WFs {fs gs : Fields} : FieldsSim false (WFs fs) (WFs gs) ↔ FieldsN fs gs := by
  simp only [FieldsSim, WFs_eq_map, List.mem_map, FieldsN, NSim]
  constructor
  · rintro ⟨h1, h2⟩
    refine ⟨fun kv hkv => ?_, fun kv hkv => ?_⟩
    · obtain ⟨u, ⟨kv', hkv', e⟩, h⟩ := h1 _ ⟨kv, hkv, rfl⟩
      simp only [Prod.mk.injEq] at e
      obtain ⟨e1, rfl⟩ := e
      exact ⟨kv'.2, by rw [← e1]; exact hkv', h⟩
    · obtain ⟨t, ⟨kv', hkv', e⟩, h⟩ := h2 _ ⟨kv, hkv, rfl⟩
      simp only [Prod.mk.injEq] at e
      obtain ⟨e1, rfl⟩ := e
      exact ⟨kv'.2, by rw [← e1]; exact hkv', h⟩
  · rintro ⟨h1, h2⟩
    refine ⟨?_, ?_⟩
    · rintro _ ⟨kv, hkv, rfl⟩
      obtain ⟨u, hu, h⟩ := h1 kv hkv
      exact ⟨W u, ⟨(kv.1, u), hu, rfl⟩, h⟩
    · rintro _ ⟨kv, hkv, rfl⟩
      obtain ⟨t, ht, h⟩ := h2 kv hkv
      exact ⟨W t, ⟨(kv.1, t), ht, rfl⟩, h⟩

/-! ## `ASim` constructor by constructor -/

theorem asim_list {x b} : ASim (.list x) b ↔ ∃ y, b = .list y ∧ NSim x y := by
  unfold ASim NSim
  rw [Um, sim_list]
  constructor
  · rintro ⟨z, hz, h⟩
    cases b <;> simp [Um] at hz
    subst hz; exact ⟨_, rfl, h⟩
  · rintro ⟨y, rfl, h⟩; exact ⟨_, by rw [Um], h⟩

theorem asim_dict {x b} : ASim (.dict x) b ↔ ∃ y, b = .dict y ∧ NSim x y := by
  unfold ASim NSim
  rw [Um, sim_dict]
  constructor
  · rintro ⟨z, hz, h⟩
    cases b <;> simp [Um] at hz
    subst hz; exact ⟨_, rfl, h⟩
  · rintro ⟨y, rfl, h⟩; exact ⟨_, by rw [Um], h⟩

theorem asim_opt {x b} : ASim (.opt x) b ↔ ∃ y, b = .opt y ∧ NSim x y := by
  unfold ASim NSim
  rw [Um, sim_opt]
  constructor
  · rintro ⟨z, hz, h⟩
    cases b <;> simp [Um] at hz
    subst hz; exact ⟨_, rfl, h⟩
  · rintro ⟨y, rfl, h⟩; exact ⟨_, by rw [Um], h⟩

theorem asim_obj {fs b} : ASim (.obj fs) b ↔ ∃ gs, b = .obj gs ∧ FieldsN fs gs := by
  unfold ASim
  rw [Um, sim_obj]
  constructor
  · rintro ⟨z, hz, h⟩
    cases b <;> simp [Um] at hz
    subst hz; exact ⟨_, rfl, fieldsSim_WFs.1 h⟩
  · rintro ⟨gs, rfl, h⟩; exact ⟨_, by rw [Um], fieldsSim_WFs.2 h⟩

theorem asim_union {as b} : ASim (.union as) b ↔ ∃ bs, b = .union bs ∧ SetA as bs := by
  unfold ASim
  rw [Um, sim_union]
  constructor
  · rintro ⟨z, hz, h, _⟩
    cases b <;> simp [Um] at hz
    subst hz; exact ⟨_, rfl, setSim_UL.1 h⟩
  · rintro ⟨bs, rfl, h⟩; exact ⟨_, by rw [Um], setSim_UL.2 h, by simp⟩

theorem Um_leaf {a : Ty} (h : Ty.isLeaf a = true) : Um a = a := by
  cases a <;> simp [Ty.isLeaf] at h <;> rw [Um] <;> (intro _ hh; cases hh)

theorem isLeaf_Um (b : Ty) : Ty.isLeaf (Um b) = Ty.isLeaf b := by
  cases b <;> simp [Um, Ty.isLeaf]

theorem asim_leaf {a b} (h : Ty.isLeaf a = true) : ASim a b ↔ b = a := by
  unfold ASim
  rw [Um_leaf h, sim_leaf h]
  constructor
  · intro hb
    have hl : Ty.isLeaf b = true := by rw [← isLeaf_Um, hb]; exact h
    rw [Um_leaf hl] at hb; exact hb
  · rintro rfl; exact Um_leaf h

theorem asim_leaf_right {a b} (h : Ty.isLeaf b = true) : ASim a b ↔ a = b :=
  ⟨fun hs => (asim_leaf h).1 hs.symm, fun e => e ▸ ASim.refl _⟩

@[simp] theorem asim_list_list {x y} : ASim (.list x) (.list y) ↔ NSim x y := by rw [asim_list]; simp
@[simp] theorem asim_dict_dict {x y} : ASim (.dict x) (.dict y) ↔ NSim x y := by rw [asim_dict]; simp
@[simp] theorem asim_opt_opt {x y} : ASim (.opt x) (.opt y) ↔ NSim x y := by rw [asim_opt]; simp
theorem asim_obj_obj {fs gs} : ASim (.obj fs) (.obj gs) ↔ FieldsN fs gs := by rw [asim_obj]; simp

theorem asim_isLit {a b} (h : ASim a b) : a.isLit = b.isLit := by
  have := sim_isLit h
  cases a <;> cases b <;> simp_all [Um, Ty.isLit]
theorem asim_isUnion {a b} (h : ASim a b) : a.isUnion = b.isUnion := by
  have := sim_isUnion h
  cases a <;> cases b <;> simp_all [Um, Ty.isUnion]
theorem asim_isOpt {a b} (h : ASim a b) : a.isOpt = b.isOpt := by
  have := sim_isOpt h
  cases a <;> cases b <;> simp_all [Um, Ty.isOpt]

theorem asim_lit_left {o vs b} (h : ASim (.lit o vs) b) : b = .lit o vs := (asim_leaf rfl).1 h
theorem asim_lit_right {o vs a} (h : ASim a (.lit o vs)) : a = .lit o vs := asim_lit_left h.symm
theorem asim_str_left {b} (h : ASim .str b) : b = .str := (asim_leaf rfl).1 h
theorem asim_str_right {a} (h : ASim a .str) : a = .str := asim_str_left h.symm

/-- for non-unions `NSim` is `ASim` -/
theorem nsim_of_asim {a b : Ty} (ha : a.isUnion = false) (h : ASim a b) : NSim a b := by
  have hb : b.isUnion = false := by rw [← asim_isUnion h]; exact ha
  rw [nsim_iff, unionMembers_of_nonunion ha, unionMembers_of_nonunion hb]
  exact ⟨by simpa using h, by simpa using h⟩
where
  unionMembers_of_nonunion {t : Ty} (h : t.isUnion = false) : t.unionMembers = [t] := by
    cases t <;> simp [Ty.isUnion] at h <;> rfl

theorem asim_of_nsim {a b : Ty} (ha : a.isUnion = false) (hb : b.isUnion = false) (h : NSim a b) : ASim a b := by
  rw [nsim_iff, nsim_of_asim.unionMembers_of_nonunion ha, nsim_of_asim.unionMembers_of_nonunion hb] at h
  simpa using h.1

theorem FieldsN.refl (fs : Fields) : FieldsN fs fs :=
  ⟨fun kv hkv => ⟨kv.2, hkv, NSim.refl _⟩, fun kv hkv => ⟨kv.2, hkv, NSim.refl _⟩⟩
theorem FieldsN.symm {fs gs} (h : FieldsN fs gs) : FieldsN gs fs :=
  asim_obj_obj.1 (ASim.symm (asim_obj_obj.2 h))
theorem FieldsN.trans {fs gs hs} (h1 : FieldsN fs gs) (h2 : FieldsN gs hs) : FieldsN fs hs :=
  asim_obj_obj.1 (ASim.trans (asim_obj_obj.2 h1) (asim_obj_obj.2 h2))

end J2M.Perm
