/-
  Helper lemmas about `detect` / `convertFields` / `anyRegexMatches` / `wrapElems` / `generate`
  (decision logic used by C13 and C02.3).
-/
import J2M.Sem
import Batteries.Data.List.Basic
import J2M.Proofs.GenEnv
namespace J2M

theorem Except.bind_ok_iff {ε α β} (x : Except ε α) (f : α → Except ε β) (b : β) :
    (x >>= f) = .ok b ↔ ∃ a, x = .ok a ∧ f a = .ok b := by
  cases x <;> simp [bind, Except.bind]

theorem Except.pure_ok_iff {ε α} (a b : α) : (pure a : Except ε α) = .ok b ↔ a = b := by
  simp [pure, Except.pure]

/-! ### regular-expression decision -/

def akmStep (o : GenOracles) (p : String) : Bool → String → Except PyErr Bool := fun acc k =>
    if !acc then pure false else
    match o.reMatch p k with
    | none => .error (.oracleMiss ("reMatch " ++ p))
    | some b => pure b

theorem allKeysMatch_eq (o : GenOracles) (p : String) (keys : List String) :
    allKeysMatch o p keys = keys.foldlM (akmStep o p) true := rfl

theorem akm_fold_ok {o : GenOracles} {p : String} {keys : List String} {a b : Bool}
    (h : keys.foldlM (akmStep o p) a = .ok b) :
    (b = true ↔ a = true ∧ ∀ k ∈ keys, o.reMatch p k = some true) := by
  induction keys generalizing a with
  | nil => simp [pure, Except.pure] at h; simp [h]
  | cons k ks ih =>
    rw [List.foldlM_cons, Except.bind_ok_iff] at h
    obtain ⟨a', h1, h2⟩ := h
    have := ih h2
    rw [this]
    cases a with
    | false => simp [akmStep, pure, Except.pure] at h1; simp [h1]
    | true =>
      simp only [akmStep, Bool.not_true, Bool.false_eq_true, if_false] at h1
      cases hk : o.reMatch p k with
      | none => simp [hk] at h1
      | some r => simp [hk, pure, Except.pure] at h1; subst h1; simp [hk]

/-- `all(map(reg.match, keys))`, when it returns at all, says exactly "every key matches". -/
theorem allKeysMatch_ok {o : GenOracles} {p : String} {keys : List String} {b : Bool}
    (h : allKeysMatch o p keys = .ok b) :
    (b = true ↔ ∀ k ∈ keys, o.reMatch p k = some true) := by
  rw [allKeysMatch_eq] at h
  simpa using akm_fold_ok h

def armStep (o : GenOracles) (keys : List String) : Bool → String → Except PyErr Bool :=
  fun acc p => if acc then pure true else allKeysMatch o p keys

theorem anyRegexMatches_eq (o : GenOracles) (ps keys : List String) :
    anyRegexMatches o ps keys = ps.foldlM (armStep o keys) false := rfl

theorem arm_fold_ok {o : GenOracles} {ps keys : List String} {a b : Bool}
    (h : ps.foldlM (armStep o keys) a = .ok b) :
    (b = true ↔ a = true ∨ ∃ p ∈ ps, ∀ k ∈ keys, o.reMatch p k = some true) := by
  induction ps generalizing a with
  | nil => simp [pure, Except.pure] at h; simp [h]
  | cons p ps ih =>
    rw [List.foldlM_cons, Except.bind_ok_iff] at h
    obtain ⟨a', h1, h2⟩ := h
    rw [ih h2]
    cases a with
    | true => simp [armStep, pure, Except.pure] at h1; simp [← h1]
    | false =>
      simp only [armStep, Bool.false_eq_true, if_false] at h1
      have := allKeysMatch_ok h1
      simp [this]

/-- the `for reg in dict_keys_regex` loop: true iff some pattern matches every key -/
theorem anyRegexMatches_ok {o : GenOracles} {ps keys : List String} {b : Bool}
    (h : anyRegexMatches o ps keys = .ok b) :
    (b = true ↔ ∃ p ∈ ps, ∀ k ∈ keys, o.reMatch p k = some true) := by
  rw [anyRegexMatches_eq] at h
  simpa using arm_fold_ok h

/-- when the oracle answers every (pattern, key) query, the loop does not fail -/
theorem allKeysMatch_total {o : GenOracles} {p : String} {keys : List String}
    (ht : ∀ k ∈ keys, (o.reMatch p k).isSome = true) : ∃ b, allKeysMatch o p keys = .ok b := by
  rw [allKeysMatch_eq]
  generalize true = a
  induction keys generalizing a with
  | nil => exact ⟨a, rfl⟩
  | cons k ks ih =>
    rw [List.foldlM_cons]
    cases a with
    | false =>
      simp only [akmStep, Bool.not_false, if_true]
      exact ih (fun k hk => ht k (List.mem_cons_of_mem _ hk)) false
    | true =>
      simp only [akmStep, Bool.not_true, Bool.false_eq_true, if_false]
      have := ht k (List.mem_cons_self ..)
      cases hk : o.reMatch p k with
      | none => simp [hk] at this
      | some r => exact ih (fun k hk => ht k (List.mem_cons_of_mem _ hk)) r

theorem anyRegexMatches_total {o : GenOracles} {ps keys : List String}
    (ht : ∀ p ∈ ps, ∀ k ∈ keys, (o.reMatch p k).isSome = true) :
    ∃ b, anyRegexMatches o ps keys = .ok b := by
  rw [anyRegexMatches_eq]
  generalize false = a
  induction ps generalizing a with
  | nil => exact ⟨a, rfl⟩
  | cons p ps ih =>
    rw [List.foldlM_cons]
    cases a with
    | true =>
      simp only [armStep, if_true]
      exact ih (fun p hp => ht p (List.mem_cons_of_mem _ hp)) true
    | false =>
      simp only [armStep, Bool.false_eq_true, if_false]
      obtain ⟨b, hb⟩ := allKeysMatch_total (ht p (List.mem_cons_self ..))
      rw [hb]
      exact ih (fun p hp => ht p (List.mem_cons_of_mem _ hp)) b

/-! ### shape of `wrapElems` -/

theorem wrapElems_cases (c : LitCfg) (wrap : Ty → Ty) (ts : List Ty) :
    ∃ T, wrapElems c wrap ts = wrap T := by
  unfold wrapElems
  split
  · exact ⟨_, rfl⟩
  · split <;> exact ⟨_, rfl⟩

/-! ### `convertFields`, `detectList`, `detectVals` as pointwise relations -/

theorem convertFields_ok {cfg o} {kvs : List (String × Json)} {fs : Fields}
    (h : convertFields cfg o kvs = .ok fs) :
    List.Forall₂ (fun kv ft => ft.1 = kv.1 ∧
      detect cfg o (!cfg.dictFields.contains kv.1) kv.2 = .ok ft.2) kvs fs := by
  induction kvs generalizing fs with
  | nil => simp [convertFields, pure, Except.pure] at h; subst h; exact .nil
  | cons kv kvs ih =>
    obtain ⟨k, x⟩ := kv
    rw [convertFields, Except.bind_ok_iff] at h
    obtain ⟨t, h1, h⟩ := h
    rw [Except.bind_ok_iff] at h
    obtain ⟨ts, h2, h⟩ := h
    rw [Except.pure_ok_iff] at h
    subst h
    exact .cons ⟨rfl, h1⟩ (ih h2)

theorem convertFields_keys {cfg o} {kvs : List (String × Json)} {fs : Fields}
    (h : convertFields cfg o kvs = .ok fs) : fs.keys = kvs.map (·.1) := by
  have := convertFields_ok h
  clear h
  unfold Fields.keys
  induction this with
  | nil => rfl
  | cons h1 _ ih => simp [h1.1, ih]

theorem detectList_ok {cfg o} {xs : List Json} {ts : List Ty}
    (h : detectList cfg o xs = .ok ts) :
    List.Forall₂ (fun x t => detect cfg o true x = .ok t) xs ts := by
  induction xs generalizing ts with
  | nil => simp [detectList, pure, Except.pure] at h; subst h; exact .nil
  | cons x xs ih =>
    rw [detectList, Except.bind_ok_iff] at h
    obtain ⟨t, h1, h⟩ := h
    rw [Except.bind_ok_iff] at h
    obtain ⟨ts', h2, h⟩ := h
    rw [Except.pure_ok_iff] at h
    subst h
    exact .cons h1 (ih h2)

theorem detectVals_ok {cfg o} {kvs : List (String × Json)} {ts : List Ty}
    (h : detectVals cfg o kvs = .ok ts) :
    List.Forall₂ (fun kv t => detect cfg o true kv.2 = .ok t) kvs ts := by
  induction kvs generalizing ts with
  | nil => simp [detectVals, pure, Except.pure] at h; subst h; exact .nil
  | cons kv kvs ih =>
    obtain ⟨k, x⟩ := kv
    rw [detectVals, Except.bind_ok_iff] at h
    obtain ⟨t, h1, h⟩ := h
    rw [Except.bind_ok_iff] at h
    obtain ⟨ts', h2, h⟩ := h
    rw [Except.pure_ok_iff] at h
    subst h
    exact .cons h1 (ih h2)

/-! ### the object branch of `detect` -/

/-- the decision made in the non-empty-object branch of `_detect_type` -/
theorem detect_obj_cons {cfg o cd kv kvs t}
    (h : detect cfg o cd (.obj (kv :: kvs)) = .ok t) :
    ∃ rx, anyRegexMatches o cfg.dictRegex ((kv :: kvs).map (·.1)) = .ok rx ∧
      ((rx = false ∧ cd = true ∧ ∃ fs, convertFields cfg o (kv :: kvs) = .ok fs ∧ t = .obj fs) ∨
       ((rx = true ∨ cd = false) ∧ ∃ ts, detectVals cfg o (kv :: kvs) = .ok ts ∧
          t = wrapElems cfg.lit .dict ts)) := by
  rw [detect, Except.bind_ok_iff] at h
  obtain ⟨rx, h1, h⟩ := h
  refine ⟨rx, h1, ?_⟩
  cases rx <;> cases cd <;> simp only [Bool.false_eq_true, if_false, if_true] at h
  · rw [Except.bind_ok_iff] at h
    obtain ⟨ts, h2, h⟩ := h
    rw [Except.pure_ok_iff] at h
    exact .inr ⟨.inr rfl, ts, h2, h.symm⟩
  · rw [Except.bind_ok_iff] at h
    obtain ⟨fs, h2, h⟩ := h
    rw [Except.pure_ok_iff] at h
    exact .inl ⟨rfl, rfl, fs, h2, h.symm⟩
  · rw [Except.bind_ok_iff] at h
    obtain ⟨ts, h2, h⟩ := h
    rw [Except.pure_ok_iff] at h
    exact .inr ⟨.inl rfl, ts, h2, h.symm⟩
  · rw [Except.bind_ok_iff] at h
    obtain ⟨ts, h2, h⟩ := h
    rw [Except.pure_ok_iff] at h
    exact .inr ⟨.inl rfl, ts, h2, h.symm⟩

theorem detect_arr_cons {cfg o cd x xs t}
    (h : detect cfg o cd (.arr (x :: xs)) = .ok t) :
    ∃ ts, detectList cfg o (x :: xs) = .ok ts ∧ t = wrapElems cfg.lit .list ts := by
  rw [detect, Except.bind_ok_iff] at h
  obtain ⟨ts, h1, h⟩ := h
  rw [Except.pure_ok_iff] at h
  exact ⟨ts, h1, h.symm⟩

/-! ### `optimize` / `generate` on objects -/

theorem mapM_fields_keys {f : Ty → Except PyErr Ty} {fs fs' : Fields}
    (h : fs.mapM (fun (kv : String × Ty) => do let v ← f kv.2; pure (kv.1, v)) = .ok fs') :
    Fields.keys fs' = Fields.keys fs ∧ List.Forall₂ (fun a b => b.1 = a.1 ∧ f a.2 = .ok b.2) fs fs' := by
  induction fs generalizing fs' with
  | nil => simp [pure, Except.pure] at h; subst h; exact ⟨rfl, .nil⟩
  | cons kv fs ih =>
    rw [List.mapM_cons, Except.bind_ok_iff] at h
    obtain ⟨kv', h1, h⟩ := h
    rw [Except.bind_ok_iff] at h
    obtain ⟨rest, h2, h⟩ := h
    rw [Except.pure_ok_iff] at h
    subst h
    rw [Except.bind_ok_iff] at h1
    obtain ⟨v, h3, h1⟩ := h1
    rw [Except.pure_ok_iff] at h1
    subst h1
    obtain ⟨ik, ir⟩ := ih h2
    refine ⟨?_, .cons ⟨rfl, h3⟩ ir⟩
    simp only [Fields.keys, List.map_cons] at ik ⊢
    rw [ik]

/-- `optimize_type` of a field dict is a field dict with the same keys, each field optimised -/
theorem optimize_obj {cfg e fuel fs t} (h : optimize cfg e fuel (.obj fs) = .ok t) :
    ∃ n fs', fuel = n + 1 ∧ t = .obj fs' ∧ Fields.keys fs' = Fields.keys fs ∧
      List.Forall₂ (fun a b => b.1 = a.1 ∧ optimize cfg e n a.2 = .ok b.2) fs fs' := by
  cases fuel with
  | zero => simp [optimize] at h
  | succ n =>
    rw [optimize] at h
    rw [Except.bind_ok_iff] at h
    obtain ⟨fs', h1, h2⟩ := h
    rw [Except.pure_ok_iff] at h2
    obtain ⟨hk, hr⟩ := mapM_fields_keys (f := optimize cfg e n) h1
    exact ⟨n, fs', rfl, h2.symm, hk, hr⟩

/-- the environment `generate` uses for `==` -/

theorem generate_ok {cfg o samples t} (h : generate cfg o samples = .ok t) :
    ∃ sets fields fs, samples.mapM (convert cfg o) = .ok sets ∧
      mergeFieldSets cfg.lit (genEnv o) sets = .ok fields ∧
      t = .obj fs ∧ Fields.keys fs = Fields.keys fields := by
  unfold generate at h
  rw [Except.bind_ok_iff] at h
  obtain ⟨sets, h1, h⟩ := h
  rw [Except.bind_ok_iff] at h
  obtain ⟨fields, h2, h⟩ := h
  obtain ⟨n, fs', _, ht, hk, _⟩ := optimize_obj h
  exact ⟨sets, fields, fs', h1, h2, ht, hk⟩

end J2M
