/-
  Helper development for C01S: the field table `tableOf` is the table of the class `genClass` actually writes.
  * `fieldLine_shape`: a field line is `name: <print of the annotation>` followed by the default part;
  * `classLines_table`: the lines of a class body correspond one to one, in order, to the entries of `tableOf`;
  * `typed_of_flat`: if the flat rendering of a registry succeeds with final names `F`, every registered model has a
    class table for `⟨F, []⟩` (the hypothesis `Typed` of `typing_widens` is a consequence of successful rendering).
-/
import J2M.Proofs.RSound
import J2M.Proofs.Render2Layouts
import J2M.Proofs.Layout
namespace J2M.RSound
open J2M J2M.Rend J2M.Reg J2M.Rend2

/-- a field line is `name: annotation` followed by the framework's default / `Field(...)` / `attr.ib(...)` part -/
theorem fieldLine_shape {c : RenderCfg} {o : RenderOracles} {e : RefEnv} {key : String} {t : Ty} {optional : Bool}
    {r : List Imp × String} (h : fieldLine c o e key t optional = .ok r) :
    ∃ a name rest, tyAnn c e t = some a ∧ convertFieldName c o key = .ok name ∧
      r.2 = name ++ ": " ++ a.print ++ rest := by
  cases hty : typingCode c e t with
  | error e1 => simp [fieldLine, hty, bind, Except.bind] at h
  | ok p =>
    obtain ⟨imps, typing⟩ := p
    obtain ⟨a, ha, hs, _⟩ := typingCode_ok c e t imps typing hty
    cases hn : convertFieldName c o key with
    | error e2 => simp [fieldLine, hty, hn, bind, Except.bind] at h
    | ok name =>
      refine ⟨a, name, ?_⟩
      subst hs
      cases hfw : c.fw
      · rw [fieldLine_base hfw hty hn] at h
        cases h
        exact ⟨"", ha, rfl, by simp⟩
      · rw [fieldLine_pyd (.inl hfw) hty hn] at h
        cases h
        exact ⟨_, ha, rfl, rfl⟩
      · rw [fieldLine_pyd (.inr hfw) hty hn] at h
        cases h
        exact ⟨_, ha, rfl, rfl⟩
      · rw [fieldLine_attrs hfw hty hn] at h
        cases h
        exact ⟨" = attr.ib(" ++ renderKwargs (attrsDefaultKw (defaultKind optional t) ++ attrsConvKw c optional t ++
          metaKw c o key name) ++ ")", ha, rfl, by simp only [String.append_assoc]⟩
      · rw [fieldLine_dc hfw hty hn] at h
        cases h
        exact ⟨_, ha, rfl, rfl⟩

/-- the lines of a list of keys against the table entries of the same keys -/
theorem lines_entries {c : RenderCfg} {o : RenderOracles} {e : RefEnv} {fs : Fields} {b : Bool} :
    ∀ {ks : List String} {lines : List (List Imp × String)},
      ks.mapM (fun k => fieldLine c o e k ((fs.get? k).getD .unknown) b) = .ok lines →
      ∃ es, annEntries c e fs (ks.map (fun k => (k, b))) = some es ∧
        List.Forall₂ (fun (ln : List Imp × String) (x : String × Ann × Bool) =>
          ∃ name rest, convertFieldName c o x.1 = .ok name ∧ ln.2 = name ++ ": " ++ x.2.1.print ++ rest) lines es
  | [], lines, h => by
    simp only [List.mapM_nil, pure, Except.pure] at h
    cases h
    exact ⟨[], rfl, .nil⟩
  | k :: ks, lines, h => by
    rw [List.mapM_cons] at h
    cases h1 : fieldLine c o e k ((fs.get? k).getD .unknown) b with
    | error err => simp [h1, bind, Except.bind] at h
    | ok r =>
      cases h2 : ks.mapM (fun k => fieldLine c o e k ((fs.get? k).getD .unknown) b) with
      | error err => simp [h1, h2, bind, Except.bind] at h
      | ok rs =>
        simp only [h1, h2, bind, Except.bind, pure, Except.pure] at h
        cases h
        obtain ⟨a, name, rest, ha, hn, hr⟩ := fieldLine_shape h1
        obtain ⟨es, hes, hf⟩ := lines_entries h2
        exact ⟨(k, a, b) :: es, by simp [annEntries, ha, hes], .cons ⟨name, rest, hn, hr⟩ hf⟩

theorem annEntries_append {c : RenderCfg} {e : RefEnv} {fs : Fields} :
    ∀ {k1 k2 : List (String × Bool)} {e1 e2 : List (String × Ann × Bool)},
      annEntries c e fs k1 = some e1 → annEntries c e fs k2 = some e2 → annEntries c e fs (k1 ++ k2) = some (e1 ++ e2)
  | [], k2, e1, e2, h1, h2 => by simp [annEntries] at h1; subst h1; simpa using h2
  | (k, b) :: k1, k2, e1, e2, h1, h2 => by
    simp only [annEntries] at h1
    split at h1
    · rename_i a es ha hes
      cases h1
      have := annEntries_append hes h2
      simp [annEntries, ha, this]
    · cases h1

theorem forall₂_append' {α β : Type} {R : α → β → Prop} :
    ∀ {l1 : List α} {l1' : List β} {l2 : List α} {l2' : List β},
      List.Forall₂ R l1 l1' → List.Forall₂ R l2 l2' → List.Forall₂ R (l1 ++ l2) (l1' ++ l2')
  | _, _, _, _, .nil, h2 => h2
  | _, _, _, _, .cons r rs, h2 => .cons r (forall₂_append' rs h2)

/-- **classLines_table**: if the field lines of a class can be written, the class table exists, and line by line, in
    the order of the class body, the `i`-th line is `name: A…` where `A` is the print of the annotation of the `i`-th
    table entry and `name` the converted key of that entry -/
theorem classLines_table {c : RenderCfg} {o : RenderOracles} {e : RefEnv} {m : Model}
    {lines : List (List Imp × String)} (h : classLines c o e m = .ok lines) :
    ∃ tab, tableOf c e m.fields = some tab ∧
      List.Forall₂ (fun (ln : List Imp × String) (x : String × Ann × Bool) =>
        ∃ name rest, convertFieldName c o x.1 = .ok name ∧ ln.2 = name ++ ": " ++ x.2.1.print ++ rest)
        lines tab.fields := by
  unfold classLines at h
  simp only [bind_eq_ok] at h
  obtain ⟨r1, h1, r2, h2, h3⟩ := h
  simp only [pure, Except.pure] at h3
  cases h3
  obtain ⟨e1, he1, f1⟩ := lines_entries h1
  obtain ⟨e2, he2, f2⟩ := lines_entries h2
  refine ⟨⟨e1 ++ e2, droppedKeys c m.fields⟩, ?_, forall₂_append' f1 f2⟩
  unfold tableOf keptKeys
  rw [annEntries_append he1 he2]
  rfl

/-- a class that `genClass` can write has a table -/
theorem table_of_genClass {c : RenderCfg} {o : RenderOracles} {e : RefEnv} {m : Model} {nested : List String}
    {r : List Imp × String} (h : genClass c o e m nested = .ok r) : (tableOf c e m.fields).isSome = true := by
  obtain ⟨p, hp, _⟩ := genClass_ok_parts h
  unfold classParts at hp
  simp only [bind_eq_ok] at hp
  obtain ⟨lines, hl, _⟩ := hp
  obtain ⟨tab, htab, _⟩ := classLines_table hl
  simp [htab]

theorem mapM_ok_mem {α β : Type} {f : α → Except PyErr β} {l : List α} {r : List β} (h : l.mapM f = .ok r)
    {a : α} (ha : a ∈ l) : ∃ b, f a = .ok b := by
  have := mapM_ok_forall₂ h
  clear h
  induction this with
  | nil => simp at ha
  | cons hr _ ih =>
    rcases List.mem_cons.1 ha with rfl | ha
    · exact ⟨_, hr⟩
    · exact ih ha

/-- **typed_of_flat**: if the flat rendering succeeds with final names `F`, every registered model has a class table
    for the environment `⟨F, []⟩` the classes were written with -/
theorem typed_of_flat {c : RenderCfg} {o : RenderOracles} {g : Graph} {l : List String} {pre : Option String}
    {text : String} {F : NameMap} (nd : (idxs g).Nodup) (hl : composeFlat g = .ok l)
    (h : generateCode c o g (l.map (fun i => Node.mk i [])) [] pre = .ok (text, F)) : Typed c ⟨F, []⟩ g := by
  obtain ⟨rs, h1, _⟩ := generateCode_text h (readyL_flat _ _ _)
  rw [nodesText_flat] at h1
  intro m hm
  have hmem : m.idx ∈ l := (LayoutP.composeFlat_perm hl).mem_iff.2 (List.mem_map_of_mem hm)
  obtain ⟨r, hr⟩ := mapM_ok_mem h1 hmem
  have := table_of_genClass hr
  have hf : (modelAt g F m.idx).fields = m.fields := by
    unfold modelAt
    rw [find?_of_mem nd hm]
    rfl
  rwa [hf] at this

end J2M.RSound
