/-
  `extract_root` (models/structure.py): the worklist loop computes exactly the set of parentless ancestors of a
  model, within the fuel the model gives it; hence the (sorted) result does not depend on the order of the pointer
  records.
-/
import J2M.Proofs.Layout
namespace J2M
namespace LayoutP
open NamesP

/-! ## specification -/

/-- `Up g t q`: some pointer says "model `t` is the type of a field of model `q`" -/
def Up (g : Graph) (t q : String) : Prop := ∃ p ∈ g.ptrs, p.target = t ∧ p.parent = some q

/-- models reachable from `i` by going to referrers (`i` included) -/
inductive ReachUp (g : Graph) (i : String) : String → Prop
  | refl : ReachUp g i i
  | step {t q : String} : ReachUp g i t → Up g t q → ReachUp g i q

/-- `q` is a proper ancestor of `i` that nobody refers to from a field (a top-level model) -/
def RootOf (g : Graph) (i q : String) : Prop := ∃ t, ReachUp g i t ∧ Up g t q ∧ filterPointers g q = []

theorem mem_filterPointers {g : Graph} {q : String} {p : PtrRec} :
    p ∈ filterPointers g q ↔ p ∈ g.ptrs ∧ p.target = q ∧ p.parent.isSome = true := by
  simp [filterPointers]

theorem up_iff {g : Graph} {t q : String} : Up g t q ↔ ∃ p ∈ filterPointers g t, p.parent = some q := by
  constructor
  · rintro ⟨p, hp, ht, hq⟩; exact ⟨p, mem_filterPointers.mpr ⟨hp, ht, by simp [hq]⟩, hq⟩
  · rintro ⟨p, hp, hq⟩
    obtain ⟨a, b, _⟩ := mem_filterPointers.mp hp
    exact ⟨p, a, b, hq⟩

/-! ## the loop -/

theorem go_nil (g : Graph) (fuel : Nat) (seen roots : List String) :
    extractRoot.go g fuel [] seen roots = roots := by
  cases fuel <;> simp [extractRoot.go]

theorem filter_unseen (g : Graph) (q : String) (seen : List String) :
    (filterPointers g q).filter (fun p => !seen.contains p.target) =
      if q ∈ seen then [] else filterPointers g q := by
  split
  · rename_i h
    apply List.filter_eq_nil_iff.mpr
    intro p hp
    rw [(mem_filterPointers.mp hp).2.1]; simp [h]
  · rename_i h
    apply List.filter_eq_self.mpr
    intro p hp
    rw [(mem_filterPointers.mp hp).2.1]; simp [h]

theorem go_snoc (g : Graph) (fuel : Nat) (rest : List PtrRec) (node : PtrRec) (q : String)
    (hq : node.parent = some q) (seen roots : List String) :
    extractRoot.go g (fuel+1) (rest ++ [node]) seen roots =
      extractRoot.go g fuel
        (rest ++ (if q ∈ insUniqStr node.target seen then [] else filterPointers g q))
        (insUniqStr node.target seen)
        (if filterPointers g q = [] then insUniqStr q roots else roots) := by
  simp only [extractRoot.go, List.reverse_append, List.reverse_cons, List.reverse_nil, List.nil_append,
    List.singleton_append, List.reverse_reverse, hq, Option.getD_some, filter_unseen, List.isEmpty_iff]

/-- pointers with a parent whose target has not been marked yet -/
def unseenCount (g : Graph) (seen : List String) : Nat :=
  g.ptrs.countP (fun p => p.parent.isSome && !seen.contains p.target)

theorem filterPointers_length (g : Graph) (t : String) :
    (filterPointers g t).length = g.ptrs.countP (fun p => p.target == t && p.parent.isSome) := by
  unfold filterPointers; rw [List.countP_eq_length_filter]

theorem countP_split {α} (A A' B : α → Bool) (h : ∀ x, (A x).toNat = (A' x).toNat + (B x).toNat) :
    ∀ l : List α, l.countP A = l.countP A' + l.countP B := by
  intro l
  induction l with
  | nil => simp
  | cons x xs ih =>
    simp only [List.countP_cons, ih]
    have := h x
    cases hA : A x <;> cases hA' : A' x <;> cases hB : B x <;> simp_all <;> omega

theorem unseenCount_insert {g : Graph} {t : String} {seen : List String} (ht : t ∉ seen) :
    unseenCount g seen = unseenCount g (insUniqStr t seen) + (filterPointers g t).length := by
  rw [filterPointers_length]
  unfold unseenCount
  apply countP_split
  intro p
  by_cases h1 : p.target = t
  · have a : (insUniqStr t seen).contains p.target = true := by
      simp [mem_insUniqStr, h1]
    have b : seen.contains p.target = false := by simp [h1, ht]
    rw [a, b]; cases p.parent.isSome <;> simp [h1]
  · have a : (insUniqStr t seen).contains p.target = seen.contains p.target := by
      rw [Bool.eq_iff_iff]; simp [mem_insUniqStr, h1]
    have c : (p.target == t) = false := by simp [h1]
    rw [a, c]; simp

theorem unseenCount_mono {g : Graph} {t : String} {seen : List String} :
    unseenCount g (insUniqStr t seen) ≤ unseenCount g seen := by
  by_cases ht : t ∈ seen
  · have : insUniqStr t seen = seen := by simp [insUniqStr, ht]
    rw [this]; exact Nat.le_refl _
  · rw [unseenCount_insert ht]; omega

/-- pointer `p` has been dealt with -/
def Handled (g : Graph) (nodes : List PtrRec) (seen roots : List String) (p : PtrRec) : Prop :=
  ∃ q, p.parent = some q ∧
    ((filterPointers g q = [] ∧ q ∈ roots) ∨
     (filterPointers g q ≠ [] ∧ (q ∈ seen ∨ ∀ p' ∈ filterPointers g q, p' ∈ nodes)))

structure RootInv (g : Graph) (i : String) (fuel : Nat) (nodes : List PtrRec) (seen roots : List String) : Prop where
  K : ∃ old top, nodes = old ++ top ∧ (∀ n ∈ old, n.target ∈ seen) ∧
        (top = [] ∨ ∃ q, q ∉ seen ∧ top = filterPointers g q) ∧ old.length + unseenCount g seen < fuel
  I1 : ∀ n ∈ nodes, (∃ q, n.parent = some q) ∧ n ∈ g.ptrs ∧ ReachUp g i n.target
  I2 : ∀ t ∈ seen, ∀ p ∈ filterPointers g t, p ∈ nodes ∨ Handled g nodes seen roots p
  I4 : ∀ n ∈ nodes, ∀ p ∈ filterPointers g n.target, p ∈ nodes ∨ Handled g nodes seen roots p
  I3 : ∀ q ∈ roots, RootOf g i q
  I5 : i ∈ seen ∨ ∀ p ∈ filterPointers g i, p ∈ nodes
  I6 : roots.Nodup


theorem handled_mono {g : Graph} {rest push : List PtrRec} {n : PtrRec} {seen roots roots' : List String}
    {p : PtrRec} (hr : ∀ x ∈ roots, x ∈ roots')
    (h : Handled g (rest ++ [n]) seen roots p) :
    Handled g (rest ++ push) (insUniqStr n.target seen) roots' p := by
  obtain ⟨q1, hq1, h⟩ := h
  refine ⟨q1, hq1, ?_⟩
  rcases h with ⟨a, b⟩ | ⟨a, b | b⟩
  · left; exact ⟨a, hr _ b⟩
  · right; exact ⟨a, Or.inl (mem_insUniqStr.mpr (Or.inr b))⟩
  · right; refine ⟨a, ?_⟩
    by_cases e : q1 = n.target
    · left; exact mem_insUniqStr.mpr (Or.inl e)
    · right; intro p' hp'
      have := b p' hp'
      rcases List.mem_append.mp this with h | h
      · exact List.mem_append_left _ h
      · simp at h; subst h
        exact absurd (mem_filterPointers.mp hp').2.1.symm e

theorem rootInv_step {g : Graph} {i : String} {fuel : Nat} {rest : List PtrRec} {n : PtrRec} {q : String}
    {seen roots : List String} (hq : n.parent = some q)
    (hI : RootInv g i (fuel+1) (rest ++ [n]) seen roots) :
    RootInv g i fuel
      (rest ++ (if q ∈ insUniqStr n.target seen then [] else filterPointers g q))
      (insUniqStr n.target seen)
      (if filterPointers g q = [] then insUniqStr q roots else roots) := by
  obtain ⟨K, I1, I2, I4, I3, I5, I6⟩ := hI
  -- abbreviations
  have hroots : ∀ x ∈ roots, x ∈ (if filterPointers g q = [] then insUniqStr q roots else roots) := by
    intro x hx; split
    · exact mem_insUniqStr.mpr (Or.inr hx)
    · exact hx
  have hn := I1 n (by simp)
  have hreachq : ReachUp g i q := ReachUp.step hn.2.2 ⟨n, hn.2.1, rfl, hq⟩
  -- the popped node is handled in the new state
  have hnew : Handled g (rest ++ (if q ∈ insUniqStr n.target seen then [] else filterPointers g q))
      (insUniqStr n.target seen) (if filterPointers g q = [] then insUniqStr q roots else roots) n := by
    refine ⟨q, hq, ?_⟩
    by_cases hF : filterPointers g q = []
    · left; exact ⟨hF, by simp [hF, mem_insUniqStr]⟩
    · right; refine ⟨hF, ?_⟩
      by_cases hs : q ∈ insUniqStr n.target seen
      · left; exact hs
      · right; intro p' hp'; simp [hs, hp']
  have carry : ∀ p, (p ∈ rest ++ [n] ∨ Handled g (rest ++ [n]) seen roots p) →
      (p ∈ rest ++ (if q ∈ insUniqStr n.target seen then [] else filterPointers g q) ∨
       Handled g (rest ++ (if q ∈ insUniqStr n.target seen then [] else filterPointers g q))
        (insUniqStr n.target seen) (if filterPointers g q = [] then insUniqStr q roots else roots) p) := by
    intro p hp
    rcases hp with hp | hp
    · rcases List.mem_append.mp hp with h | h
      · left; exact List.mem_append_left _ h
      · simp at h; subst h; right; exact hnew
    · right; exact handled_mono hroots hp
  refine ⟨?_, ?_, ?_, ?_, ?_, ?_, ?_⟩
  · -- K
    obtain ⟨old, top, hnodes, hold, htop, hm⟩ := K
    have hpush : (if q ∈ insUniqStr n.target seen then [] else filterPointers g q) = [] ∨
        ∃ q', q' ∉ insUniqStr n.target seen ∧
          (if q ∈ insUniqStr n.target seen then [] else filterPointers g q) = filterPointers g q' := by
      by_cases hs : q ∈ insUniqStr n.target seen
      · left; simp [hs]
      · right; exact ⟨q, hs, by simp [hs]⟩
    by_cases htop0 : top = []
    · -- the popped node comes from `old`
      subst htop0
      simp only [List.append_nil] at hnodes
      refine ⟨rest, _, rfl, ?_, hpush, ?_⟩
      · intro x hx
        exact mem_insUniqStr.mpr (Or.inr (hold x (hnodes ▸ List.mem_append_left _ hx)))
      · have : old.length = rest.length + 1 := by rw [← hnodes]; simp
        have := unseenCount_mono (g := g) (t := n.target) (seen := seen)
        omega
    · -- the popped node is the last one of the batch just pushed
      rcases htop with h | ⟨q0, hq0, htopq⟩
      · exact absurd h htop0
      · have hlast : top = top.dropLast ++ [n] ∧ rest = old ++ top.dropLast := by
          have h1 : top = top.dropLast ++ [top.getLast htop0] := (List.dropLast_concat_getLast htop0).symm
          rw [h1, ← List.append_assoc] at hnodes
          have := List.append_inj' hnodes (by simp)
          have hn' : n = top.getLast htop0 := by simpa using this.2
          exact ⟨by rw [hn']; exact h1, this.1⟩
        have hnt : n.target = q0 := by
          have : n ∈ filterPointers g q0 := by rw [← htopq, hlast.1]; simp
          exact (mem_filterPointers.mp this).2.1
        refine ⟨rest, _, rfl, ?_, hpush, ?_⟩
        · intro x hx
          rw [hlast.2] at hx
          rcases List.mem_append.mp hx with h | h
          · exact mem_insUniqStr.mpr (Or.inr (hold x h))
          · have : x ∈ filterPointers g q0 := by rw [← htopq]; exact List.dropLast_subset _ h
            exact mem_insUniqStr.mpr (Or.inl ((mem_filterPointers.mp this).2.1.trans hnt.symm))
        · have h1 := unseenCount_insert (g := g) (t := n.target) (seen := seen) (hnt ▸ hq0)
          have h2 : (filterPointers g n.target).length = top.length := by rw [hnt, htopq]
          have h3 : rest.length = old.length + (top.length - 1) := by rw [hlast.2]; simp
          have h4 : top.length ≥ 1 := List.length_pos_iff.mpr htop0
          omega
  · -- I1
    intro x hx
    rcases List.mem_append.mp hx with h | h
    · exact I1 x (List.mem_append_left _ h)
    · by_cases hs : q ∈ insUniqStr n.target seen
      · simp [hs] at h
      · simp only [hs, if_false] at h
        obtain ⟨a, b, c⟩ := mem_filterPointers.mp h
        refine ⟨?_, a, b ▸ hreachq⟩
        cases hp : x.parent with
        | none => simp [hp] at c
        | some v => exact ⟨v, rfl⟩
  · -- I2
    intro t ht p hp
    rcases mem_insUniqStr.mp ht with rfl | ht
    · exact carry p (I4 n (by simp) p hp)
    · exact carry p (I2 t ht p hp)
  · -- I4
    intro x hx p hp
    rcases List.mem_append.mp hx with h | h
    · exact carry p (I4 x (List.mem_append_left _ h) p hp)
    · by_cases hs : q ∈ insUniqStr n.target seen
      · simp [hs] at h
      · simp only [hs, if_false] at h ⊢
        rw [(mem_filterPointers.mp h).2.1] at hp
        left; exact List.mem_append_right _ hp
  · -- I3
    intro x hx
    split at hx
    · rename_i hF
      rcases mem_insUniqStr.mp hx with rfl | hx
      · exact ⟨n.target, hn.2.2, ⟨n, hn.2.1, rfl, hq⟩, hF⟩
      · exact I3 x hx
    · exact I3 x hx
  · -- I5
    rcases I5 with h | h
    · left; exact mem_insUniqStr.mpr (Or.inr h)
    · by_cases e : i = n.target
      · left; exact mem_insUniqStr.mpr (Or.inl e)
      · right; intro p hp
        rcases List.mem_append.mp (h p hp) with h' | h'
        · exact List.mem_append_left _ h'
        · simp at h'; subst h'
          exact absurd (mem_filterPointers.mp hp).2.1.symm e
  · split
    · exact insUniqStr_nodup I6
    · exact I6


theorem rootInv_final {g : Graph} {i : String} {fuel : Nat} {seen roots : List String}
    (hI : RootInv g i fuel [] seen roots) (q : String) : q ∈ roots ↔ RootOf g i q := by
  obtain ⟨_, _, I2, _, I3, I5, _⟩ := hI
  constructor
  · exact I3 q
  · rintro ⟨t, hreach, hup, hF⟩
    -- every reachable model that has a referrer has been marked
    have hseen : ∀ t, ReachUp g i t → (∃ q', Up g t q') → t ∈ seen := by
      intro t hr
      induction hr with
      | refl =>
        rintro ⟨q', hq'⟩
        obtain ⟨p, hp, _⟩ := up_iff.mp hq'
        rcases I5 with h | h
        · exact h
        · exact absurd (h p hp) (by simp)
      | step hr0 hup0 ih =>
        rename_i t0 t1
        rintro ⟨q', hq'⟩
        have ht0 := ih ⟨t1, hup0⟩
        obtain ⟨p0, hp0, hpar0⟩ := up_iff.mp hup0
        obtain ⟨p1, hp1, _⟩ := up_iff.mp hq'
        rcases I2 t0 ht0 p0 hp0 with h | ⟨q1, hq1, h⟩
        · exact absurd h (by simp)
        · have : q1 = t1 := by rw [hpar0] at hq1; exact (Option.some.inj hq1).symm
          subst this
          rcases h with ⟨a, _⟩ | ⟨_, b | b⟩
          · rw [a] at hp1; exact absurd hp1 (by simp)
          · exact b
          · exact absurd (b p1 hp1) (by simp)
    have ht := hseen t hreach ⟨q, hup⟩
    obtain ⟨p, hp, hpar⟩ := up_iff.mp hup
    rcases I2 t ht p hp with h | ⟨q1, hq1, h⟩
    · exact absurd h (by simp)
    · have : q1 = q := by rw [hpar] at hq1; exact (Option.some.inj hq1).symm
      subst this
      rcases h with ⟨_, b⟩ | ⟨a, _⟩
      · exact b
      · exact absurd hF a

theorem go_spec {g : Graph} {i : String} : ∀ (fuel : Nat) (nodes : List PtrRec) (seen roots : List String),
    RootInv g i fuel nodes seen roots →
    (extractRoot.go g fuel nodes seen roots).Nodup ∧
      ∀ q, q ∈ extractRoot.go g fuel nodes seen roots ↔ RootOf g i q := by
  intro fuel
  induction fuel with
  | zero =>
    intro nodes seen roots hI
    obtain ⟨_, _, _, _, _, hm⟩ := hI.K
    omega
  | succ fuel ih =>
    intro nodes seen roots hI
    rcases List.eq_nil_or_concat nodes with rfl | ⟨rest, n, rfl⟩
    · rw [go_nil]; exact ⟨hI.I6, rootInv_final hI⟩
    · rw [List.concat_eq_append] at hI ⊢
      obtain ⟨⟨q, hq⟩, _, _⟩ := hI.I1 n (by simp)
      rw [go_snoc g fuel rest n q hq]
      exact ih _ _ _ (rootInv_step hq hI)

theorem rootInv_init (g : Graph) (i : String) :
    RootInv g i ((g.ptrs.length + 1) * (g.ptrs.length + 1) + 1) (filterPointers g i) [] [] := by
  refine ⟨?_, ?_, ?_, ?_, ?_, ?_, ?_⟩
  · refine ⟨[], filterPointers g i, by simp, by simp, Or.inr ⟨i, by simp, rfl⟩, ?_⟩
    have : unseenCount g [] ≤ g.ptrs.length := List.countP_le_length
    have h2 : g.ptrs.length + 1 ≤ (g.ptrs.length + 1) * (g.ptrs.length + 1) := Nat.le_mul_self _
    simp only [List.length_nil, Nat.zero_add]
    omega
  · intro n hn
    obtain ⟨a, b, c⟩ := mem_filterPointers.mp hn
    refine ⟨?_, a, b ▸ ReachUp.refl⟩
    cases hp : n.parent with
    | none => simp [hp] at c
    | some v => exact ⟨v, rfl⟩
  · intro t ht; simp at ht
  · intro n hn p hp
    rw [(mem_filterPointers.mp hn).2.1] at hp
    left; exact hp
  · intro q hq; simp at hq
  · right; exact fun _ h => h
  · exact List.nodup_nil

/-- `extract_root(model)` is the set of top-level models (nobody refers to them from a field) from which the
    model can be reached through fields -/
theorem mem_extractRoot {g : Graph} {i q : String} : q ∈ extractRoot g i ↔ RootOf g i q := by
  unfold extractRoot
  rw [mem_sortStrings]
  exact (go_spec _ _ _ _ (rootInv_init g i)).2 q

theorem extractRoot_nodup (g : Graph) (i : String) : (extractRoot g i).Nodup := by
  unfold extractRoot
  exact (sortStrings_perm_self _).nodup_iff.mpr (go_spec _ _ _ _ (rootInv_init g i)).1

theorem filterPointers_perm {g₁ g₂ : Graph} (h : g₁.ptrs.Perm g₂.ptrs) (q : String) :
    (filterPointers g₁ q).Perm (filterPointers g₂ q) := h.filter _

theorem up_perm {g₁ g₂ : Graph} (h : g₁.ptrs.Perm g₂.ptrs) {t q : String} (hu : Up g₁ t q) : Up g₂ t q := by
  obtain ⟨p, hp, a, b⟩ := hu; exact ⟨p, h.mem_iff.mp hp, a, b⟩

theorem reachUp_perm {g₁ g₂ : Graph} (h : g₁.ptrs.Perm g₂.ptrs) {i t : String} (hr : ReachUp g₁ i t) :
    ReachUp g₂ i t := by
  induction hr with
  | refl => exact ReachUp.refl
  | step _ hu ih => exact ReachUp.step ih (up_perm h hu)

theorem rootOf_perm {g₁ g₂ : Graph} (h : g₁.ptrs.Perm g₂.ptrs) {i q : String} (hr : RootOf g₁ i q) :
    RootOf g₂ i q := by
  obtain ⟨t, a, b, c⟩ := hr
  refine ⟨t, reachUp_perm h a, up_perm h b, ?_⟩
  have := (filterPointers_perm h q).length_eq
  rw [c] at this
  exact List.length_eq_zero_iff.mp this.symm

/-- `extract_root` does not depend on the order in which pointers were created / are iterated -/
theorem extractRoot_perm {g₁ g₂ : Graph} (h : g₁.ptrs.Perm g₂.ptrs) (i : String) :
    extractRoot g₁ i = extractRoot g₂ i := by
  have hs : ∀ g j, Sorted (extractRoot g j) := fun g j => by unfold extractRoot; exact sortStrings_sorted _
  apply sorted_perm_eq (hs _ _) (hs _ _)
  apply (List.perm_ext_iff_of_nodup (extractRoot_nodup _ _) (extractRoot_nodup _ _)).mpr
  intro q; rw [mem_extractRoot, mem_extractRoot]
  exact ⟨rootOf_perm h, rootOf_perm h.symm⟩


/-! ## the layouts do not depend on the order of the pointer records -/

theorem foldl_max_spec : ∀ (ys : List Int) (a : Int),
    a ≤ ys.foldl (fun a b => if b > a then b else a) a ∧
    ∀ y ∈ ys, y ≤ ys.foldl (fun a b => if b > a then b else a) a := by
  intro ys
  induction ys with
  | nil => intro a; simp
  | cons y ys ih =>
    intro a
    simp only [List.foldl_cons]
    obtain ⟨h1, h2⟩ := ih (if y > a then y else a)
    have hc : a ≤ (if y > a then y else a) ∧ y ≤ (if y > a then y else a) := by split <;> omega
    generalize (if y > a then y else a) = c at h1 h2 hc ⊢
    refine ⟨by omega, ?_⟩
    intro z hz
    rcases List.mem_cons.mp hz with rfl | hz
    · omega
    · exact h2 z hz

theorem maxInt_ge {l : List Int} {v : Int} (h : maxInt l = some v) : ∀ x ∈ l, x ≤ v := by
  cases l with
  | nil => simp [maxInt] at h
  | cons a as =>
    simp only [maxInt, Option.some.injEq] at h
    obtain ⟨h1, h2⟩ := foldl_max_spec as a
    intro x hx
    rcases List.mem_cons.mp hx with rfl | hx
    · omega
    · have := h2 x hx; omega

theorem maxInt_perm {l₁ l₂ : List Int} (h : l₁.Perm l₂) : maxInt l₁ = maxInt l₂ := by
  cases h1 : maxInt l₁ with
  | none =>
    have : l₁ = [] := by cases l₁ with | nil => rfl | cons a as => simp [maxInt] at h1
    subst this
    rw [List.nil_perm.mp h]; rfl
  | some v =>
    cases h2 : maxInt l₂ with
    | none =>
      have : l₂ = [] := by cases l₂ with | nil => rfl | cons a as => simp [maxInt] at h2
      subst this
      rw [List.perm_nil.mp h] at h1; simp [maxInt] at h1
    | some w =>
      have a := maxInt_ge h1 w (h.mem_iff.mpr (maxInt_mem h2))
      have b := maxInt_ge h2 v (h.mem_iff.mp (maxInt_mem h1))
      congr 1; omega

theorem insUniqStr_perm {x : String} {l₁ l₂ : List String} (h : l₁.Perm l₂) :
    (insUniqStr x l₁).Perm (insUniqStr x l₂) := by
  unfold insUniqStr
  have : l₁.contains x = l₂.contains x := by
    rw [Bool.eq_iff_iff]; simp [h.mem_iff]
  rw [this]; split
  · exact h
  · exact h.append_right _

theorem flatPosMulti_perm (rootModels : List String) (positions : Positions) {p₁ p₂ : List String}
    (h : p₁.Perm p₂) : flatPosMulti rootModels positions p₁ = flatPosMulti rootModels positions p₂ := by
  unfold flatPosMulti
  simp only [NamesP.sortStrings_perm h]
  have hf := h.filterMap (fun p => positions.get? p)
  cases positions.get? ("#".intercalate (sortStrings p₂)) with
  | none => simp only; rw [maxInt_perm hf]
  | some v => simp only; rw [maxInt_perm (hf.cons v)]

theorem parentsOf_perm {p₁ p₂ : List PtrRec} (h : p₁.Perm p₂) : (parentsOf p₁).Perm (parentsOf p₂) := by
  apply (List.perm_ext_iff_of_nodup (parentsOf_nodup _) (parentsOf_nodup _)).mpr
  intro x; rw [mem_parentsOf, mem_parentsOf]
  constructor
  · rintro ⟨p, hp, e⟩; exact ⟨p, h.mem_iff.mp hp, e⟩
  · rintro ⟨p, hp, e⟩; exact ⟨p, h.mem_iff.mpr hp, e⟩

theorem flatPlace_ptrs_perm {g₁ g₂ : Graph} (h : g₁.ptrs.Perm g₂.ptrs) (key : String) (hasRoot : Bool)
    (st : FlatState) : flatPlace g₁ key hasRoot st = flatPlace g₂ key hasRoot st := by
  obtain ⟨rootModels, positions, topLevel⟩ := st
  have hp := parentsOf_perm (filterPointers_perm h key)
  have hlen := hp.length_eq
  have hsort := NamesP.sortStrings_perm hp
  have hany : (parentsOf (filterPointers g₁ key)).any (fun p => topLevel.contains p) =
      (parentsOf (filterPointers g₂ key)).any (fun p => topLevel.contains p) := by
    rw [Bool.eq_iff_iff, List.any_eq_true, List.any_eq_true]
    constructor
    · rintro ⟨x, hx, e⟩; exact ⟨x, hp.mem_iff.mp hx, e⟩
    · rintro ⟨x, hx, e⟩; exact ⟨x, hp.mem_iff.mpr hx, e⟩
  have hp' : (if (parentsOf (filterPointers g₁ key)).any (fun p => topLevel.contains p)
        then insUniqStr "root" (parentsOf (filterPointers g₁ key)) else parentsOf (filterPointers g₁ key)).Perm
      (if (parentsOf (filterPointers g₂ key)).any (fun p => topLevel.contains p)
        then insUniqStr "root" (parentsOf (filterPointers g₂ key)) else parentsOf (filterPointers g₂ key)) := by
    rw [hany]; split
    · exact insUniqStr_perm hp
    · exact hp
  unfold flatPlace
  simp only [hlen, extractRoot_perm h key, hsort, flatPosMulti_perm rootModels positions hp',
    NamesP.sortStrings_perm hp']

theorem allPointers_length_perm {g₁ g₂ : Graph} (h : g₁.ptrs.Perm g₂.ptrs) (key : String) :
    (allPointers g₁ key).length = (allPointers g₂ key).length := (h.filter _).length_eq

theorem flatStep_ptrs_perm {g₁ g₂ : Graph} (h : g₁.ptrs.Perm g₂.ptrs) (st : FlatState) (m : Model) :
    flatStep g₁ st m = flatStep g₂ st m := by
  obtain ⟨rootModels, positions, topLevel⟩ := st
  have hl := (filterPointers_perm h m.idx).length_eq
  have he : (filterPointers g₁ m.idx).isEmpty = (filterPointers g₂ m.idx).isEmpty := by
    rw [Bool.eq_iff_iff, List.isEmpty_iff, List.isEmpty_iff]
    constructor
    · intro e; rw [e] at hl; exact List.length_eq_zero_iff.mp hl.symm
    · intro e; rw [e] at hl; exact List.length_eq_zero_iff.mp hl
  unfold flatStep
  simp only [hl, he, allPointers_length_perm h m.idx, flatPlace_ptrs_perm h]

/-- `compose_models_flat` does not depend on the order of the pointer records (`id()`-hashed sets) -/
theorem composeFlat_ptrs_perm {g₁ g₂ : Graph} (hm : g₁.models = g₂.models) (h : g₁.ptrs.Perm g₂.ptrs) :
    composeFlat g₁ = composeFlat g₂ := by
  rw [composeFlat_eq, composeFlat_eq, hm]
  have : flatStep g₁ = flatStep g₂ := by funext st m; exact flatStep_ptrs_perm h st m
  rw [this]

theorem nestStep_ptrs_perm {g₁ g₂ : Graph} (h : g₁.ptrs.Perm g₂.ptrs) (s : NestState) (m : Model) :
    nestStep g₁ s m = nestStep g₂ s m := by
  have hl := (filterPointers_perm h m.idx).length_eq
  have he : (filterPointers g₁ m.idx).isEmpty = (filterPointers g₂ m.idx).isEmpty := by
    rw [Bool.eq_iff_iff, List.isEmpty_iff, List.isEmpty_iff]
    constructor
    · intro e; rw [e] at hl; exact List.length_eq_zero_iff.mp hl.symm
    · intro e; rw [e] at hl; exact List.length_eq_zero_iff.mp hl
  have hp := parentsOf_perm (filterPointers_perm h m.idx)
  unfold nestStep
  simp only [hl, he, allPointers_length_perm h m.idx, hp.length_eq, NamesP.sortStrings_perm hp,
    extractRoot_perm h m.idx]

/-- `compose_models` (nested) does not depend on the order of the pointer records -/
theorem composeNested_ptrs_perm {g₁ g₂ : Graph} (hm : g₁.models = g₂.models) (h : g₁.ptrs.Perm g₂.ptrs) :
    composeNestedState g₁ = composeNestedState g₂ := by
  rw [composeNestedState_eq, composeNestedState_eq, hm]
  have : nestStep g₁ = nestStep g₂ := by funext s m; exact nestStep_ptrs_perm h s m
  rw [this]

end LayoutP
end J2M
