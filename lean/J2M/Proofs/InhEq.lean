/-
  C01 helpers, part 4: Python `==` on pointer-free generator-stage metadata (`pyEq` with an empty model
  lookup) is sound for inhabitation: `a == b` implies `a` and `b` have the same inhabitants.
-/
import J2M.Proofs.InhUnion
namespace J2M

/-! ## list facts -/

theorem subset_of_nodup_length {α} [DecidableEq α] :
    ∀ (l1 l2 : List α), l1.Nodup → l1 ⊆ l2 → l2.length ≤ l1.length → l2 ⊆ l1 := by
  intro l1
  induction l1 with
  | nil =>
    intro l2 _ _ hl
    have : l2 = [] := by simpa using hl
    simp [this]
  | cons a l1 ih =>
    intro l2 nd sub hl
    simp only [List.nodup_cons] at nd
    have ha : a ∈ l2 := sub List.mem_cons_self
    have sub' : l1 ⊆ l2.erase a := by
      intro x hx
      have hne : x ≠ a := fun e => nd.1 (e ▸ hx)
      exact (List.mem_erase_of_ne hne).2 (sub (List.mem_cons_of_mem _ hx))
    have hl' : (l2.erase a).length ≤ l1.length := by
      rw [List.length_erase_of_mem ha]; simp at hl; omega
    have := ih (l2.erase a) nd.2 sub' hl'
    intro x hx
    by_cases e : x = a
    · simp [e]
    · exact List.mem_cons_of_mem _ (this ((List.mem_erase_of_ne e).2 hx))

theorem exists_zip_left {α β} : ∀ (xs : List α) (ys : List β), xs.length ≤ ys.length →
    ∀ x ∈ xs, ∃ y, (x, y) ∈ xs.zip ys := by
  intro xs
  induction xs with
  | nil => simp
  | cons a xs ih =>
    intro ys hl x hx
    cases ys with
    | nil => simp at hl
    | cons b ys =>
      rcases List.mem_cons.1 hx with e | hx
      · exact ⟨b, by simp [e]⟩
      · obtain ⟨y, hy⟩ := ih ys (by simpa using hl) x hx
        exact ⟨y, by simp [hy]⟩

theorem exists_zip_right {α β} : ∀ (xs : List α) (ys : List β), ys.length ≤ xs.length →
    ∀ y ∈ ys, ∃ x, (x, y) ∈ xs.zip ys := by
  intro xs
  induction xs with
  | nil => intro ys hl y hy; have : ys = [] := by simpa using hl
           simp [this] at hy
  | cons a xs ih =>
    intro ys hl y hy
    cases ys with
    | nil => simp at hy
    | cons b ys =>
      rcases List.mem_cons.1 hy with e | hy
      · exact ⟨a, by simp [e]⟩
      · obtain ⟨x, hx⟩ := ih ys (by simpa using hl) y hy
        exact ⟨x, by simp [hx]⟩

theorem mem_insertByKey {α} {key : α → String} {x a : α} {ys : List α} :
    a ∈ insertByKey key x ys ↔ a = x ∨ a ∈ ys := by
  induction ys with
  | nil => simp [insertByKey]
  | cons y ys ih =>
    unfold insertByKey
    split
    · simp
    · simp only [List.mem_cons, ih]
      constructor
      · rintro (h | h | h) <;> simp [h]
      · rintro (h | h | h) <;> simp [h]

theorem mem_sortByKey {α} {key : α → String} {a : α} {xs : List α} : a ∈ sortByKey key xs ↔ a ∈ xs := by
  have : ∀ (xs init : List α), a ∈ xs.foldl (fun acc x => insertByKey key x acc) init ↔ a ∈ init ∨ a ∈ xs := by
    intro xs
    induction xs with
    | nil => simp
    | cons x xs ih =>
      intro init
      simp only [List.foldl_cons, ih, mem_insertByKey, List.mem_cons]
      constructor
      · rintro ((h | h) | h) <;> simp [h]
      · rintro (h | h | h) <;> simp [h]
  simpa [sortByKey] using this xs []

/-! ## the two guarded folds of `pyEq` -/

/-- a fold that keeps going only while the accumulator is `some true` -/
theorem guardFold_true {α} (step : Option Bool → α → Option Bool) (f : α → Option Bool)
    (h1 : ∀ x, step (some true) x = f x) (h2 : ∀ r x, r ≠ some true → step r x = r) :
    ∀ (l : List α) (init : Option Bool), l.foldl step init = some true →
      init = some true ∧ ∀ x ∈ l, f x = some true := by
  intro l
  induction l with
  | nil => intro init h; exact ⟨by simpa using h, by simp⟩
  | cons a l ih =>
    intro init h
    rw [List.foldl_cons] at h
    obtain ⟨hs, hl⟩ := ih _ h
    by_cases hi : init = some true
    · subst hi
      rw [h1] at hs
      exact ⟨rfl, by
        intro x hx
        rcases List.mem_cons.1 hx with e | hx
        · rw [e]; exact hs
        · exact hl x hx⟩
    · rw [h2 _ _ hi] at hs
      exact absurd hs hi

def eqListF (f : Ty → Ty → Option Bool) (xs ys : List Ty) : Option Bool :=
  if xs.length != ys.length then some false else
  (xs.zip ys).foldl (fun acc (p : Ty × Ty) =>
    match acc with
    | some true => f p.1 p.2
    | r => r) (some true)

def eqFieldsF (f : Ty → Ty → Option Bool) (fa fb : Fields) : Option Bool :=
  if fa.length != fb.length then some false else
  fa.foldl (fun acc (kv : String × Ty) =>
    match acc with
    | some true =>
      match fb.get? kv.1 with
      | none => some false
      | some tb => f kv.2 tb
    | r => r) (some true)

theorem eqListF_true {f xs ys} (h : eqListF f xs ys = some true) :
    xs.length = ys.length ∧ ∀ p ∈ xs.zip ys, f p.1 p.2 = some true := by
  unfold eqListF at h
  split at h
  · simp at h
  · rename_i hl
    refine ⟨by simpa using hl, ?_⟩
    exact (guardFold_true _ (fun p : Ty × Ty => f p.1 p.2) (fun _ => rfl)
      (fun r x hr => by
        cases r with
        | none => rfl
        | some b => cases b <;> simp_all) _ _ h).2

theorem eqFieldsF_true {f fa fb} (h : eqFieldsF f fa fb = some true) :
    fa.length = fb.length ∧ ∀ kv ∈ fa, ∃ tb, Fields.get? fb kv.1 = some tb ∧ f kv.2 tb = some true := by
  unfold eqFieldsF at h
  split at h
  · simp at h
  · rename_i hl
    refine ⟨by simpa using hl, ?_⟩
    have := (guardFold_true _ (fun kv : String × Ty =>
        match fb.get? kv.1 with
        | none => some false
        | some tb => f kv.2 tb) (fun _ => rfl)
      (fun r x hr => by
        cases r with
        | none => rfl
        | some b => cases b <;> simp_all) _ _ h).2
    intro kv hkv
    have h' := this kv hkv
    cases hg : Fields.get? fb kv.1 with
    | none => simp [hg] at h'
    | some tb => simp only [hg] at h'; exact ⟨tb, rfl, h'⟩

/-! ## field dicts that agree key by key -/

/-- "same optionality and same inhabitants" -/
def TyEquiv (ov : Bool) (acc : Accepts) (g : ModelLookup) (a b : Ty) : Prop :=
  a.isOpt = b.isOpt ∧ ∀ v, InhX ov acc g a v ↔ InhX ov acc g b v

theorem TyEquiv.symm {ov acc g a b} (h : TyEquiv ov acc g a b) : TyEquiv ov acc g b a :=
  ⟨h.1.symm, fun v => (h.2 v).symm⟩

theorem inhF_of_covers {ov acc g} {fa fb : Fields} {kvs : List (String × Json)}
    (h1 : ∀ k ta, Fields.get? fa k = some ta → ∃ tb, Fields.get? fb k = some tb ∧ TyEquiv ov acc g ta tb)
    (h2 : ∀ k tb, Fields.get? fb k = some tb → ∃ ta, Fields.get? fa k = some ta ∧ TyEquiv ov acc g ta tb)
    (h : InhF ov acc g fa kvs) : InhF ov acc g fb kvs := by
  obtain ⟨ha, hb⟩ := h
  refine ⟨?_, ?_⟩
  · intro kv hkv
    obtain ⟨ta, hta, hi⟩ := ha kv hkv
    obtain ⟨tb, htb, he⟩ := h1 _ _ hta
    exact ⟨tb, htb, (he.2 _).1 hi⟩
  · intro k tb htb hno
    obtain ⟨ta, hta, he⟩ := h2 _ _ htb
    exact hb k ta hta (by rw [he.1]; exact hno)

theorem inh_obj_iff' {ov acc g fs v} :
    InhX ov acc g (.obj fs) v ↔ ∃ kvs, v = .obj kvs ∧ InhFieldsX ov acc g fs kvs := by
  constructor
  · intro h; cases h with | obj a b c => exact ⟨_, rfl, a, b, c⟩
  · rintro ⟨kvs, rfl, a, b, c⟩; exact InhX.obj a b c

theorem inh_obj_congr {ov acc g} {fa fb : Fields}
    (nda : (fa.map (·.1)).Nodup) (ndb : (fb.map (·.1)).Nodup) (hl : fa.length = fb.length)
    (h : ∀ kv ∈ fa, ∃ tb, Fields.get? fb kv.1 = some tb ∧ TyEquiv ov acc g kv.2 tb) :
    ∀ v, InhX ov acc g (.obj fa) v ↔ InhX ov acc g (.obj fb) v := by
  have h1 : ∀ k ta, Fields.get? fa k = some ta → ∃ tb, Fields.get? fb k = some tb ∧ TyEquiv ov acc g ta tb :=
    fun k ta hk => h (k, ta) (Fields.mem_of_get? hk)
  have sub : fa.map (·.1) ⊆ fb.map (·.1) := by
    intro k hk
    obtain ⟨kv, hkv, e⟩ := List.mem_map.1 hk
    obtain ⟨tb, htb, _⟩ := h kv hkv
    rw [← e, ← Fields.get?_isSome_iff, htb]; rfl
  have sub' := subset_of_nodup_length _ _ nda sub (by simp [hl])
  have h2 : ∀ k tb, Fields.get? fb k = some tb → ∃ ta, Fields.get? fa k = some ta ∧ TyEquiv ov acc g ta tb := by
    intro k tb hk
    have hk' : k ∈ fa.map (·.1) := sub' (by rw [← Fields.get?_isSome_iff, hk]; rfl)
    rw [← Fields.get?_isSome_iff] at hk'
    cases hg : Fields.get? fa k with
    | none => simp [hg] at hk'
    | some ta =>
      obtain ⟨tb', htb', he⟩ := h1 k ta hg
      rw [hk] at htb'; cases htb'
      exact ⟨ta, rfl, he⟩
  intro v
  rw [inh_obj_iff', inh_obj_iff']
  constructor
  · rintro ⟨kvs, rfl, hi⟩
    exact ⟨kvs, rfl, (inhF_of_covers h1 h2 hi.toInhF).toInhFields ndb⟩
  · rintro ⟨kvs, rfl, hi⟩
    refine ⟨kvs, rfl, (inhF_of_covers (fa := fb) (fb := fa) ?_ ?_ hi.toInhF).toInhFields nda⟩
    · intro k tb hk; obtain ⟨ta, hta, he⟩ := h2 k tb hk; exact ⟨ta, hta, he.symm⟩
    · intro k ta hk; obtain ⟨tb, htb, he⟩ := h1 k ta hk; exact ⟨tb, htb, he.symm⟩

theorem inh_union_congr {ov acc g} {xs ys xs' ys' : List Ty}
    (hx : ∀ t, t ∈ xs' ↔ t ∈ xs) (hy : ∀ t, t ∈ ys' ↔ t ∈ ys) (hl : xs'.length = ys'.length)
    (h : ∀ p ∈ xs'.zip ys', ∀ v, InhX ov acc g p.1 v ↔ InhX ov acc g p.2 v) :
    ∀ v, InhX ov acc g (.union xs) v ↔ InhX ov acc g (.union ys) v := by
  intro v
  rw [inh_union_iff, inh_union_iff]
  constructor
  · rintro ⟨t, ht, hi⟩
    obtain ⟨y, hy'⟩ := exists_zip_left xs' ys' (by omega) t ((hx t).2 ht)
    exact ⟨y, (hy y).1 (List.of_mem_zip hy').2, (h _ hy' v).1 hi⟩
  · rintro ⟨t, ht, hi⟩
    obtain ⟨x, hx'⟩ := exists_zip_right xs' ys' (by omega) t ((hy t).2 ht)
    exact ⟨x, (hx x).1 (List.of_mem_zip hx').1, (h _ hx' v).2 hi⟩

/-! ## soundness of `==` -/

theorem pyEq_union_eq {so ms g fuel xs ys} :
    pyEq so ms g (fuel + 1) (.union xs) (.union ys) =
      eqListF (pyEq so ms g fuel) (sortedMembers so ms xs) (sortedMembers so ms ys) := rfl

theorem pyEq_obj_eq {so ms g fuel fa fb} :
    pyEq so ms g (fuel + 1) (.obj fa) (.obj fb) = eqFieldsF (pyEq so ms g fuel) fa fb := rfl

theorem pyEq_sound_aux {ov acc g' so ms K} :
    ∀ (fuel : Nat) (a b : Ty), Ty.Good K a → Ty.Good K b →
      pyEq so ms (fun _ => none) fuel a b = some true → TyEquiv ov acc g' a b := by
  intro fuel
  induction fuel with
  | zero => intro a b _ _ h; simp [pyEq] at h
  | succ fuel ih =>
    intro a b ga gb h
    cases a <;> cases b <;> try (simp [pyEq] at h; done)
    case int.int => exact ⟨rfl, fun _ => Iff.rfl⟩
    case float.float => exact ⟨rfl, fun _ => Iff.rfl⟩
    case bool.bool => exact ⟨rfl, fun _ => Iff.rfl⟩
    case str.str => exact ⟨rfl, fun _ => Iff.rfl⟩
    case null.null => exact ⟨rfl, fun _ => Iff.rfl⟩
    case unknown.unknown => exact ⟨rfl, fun _ => Iff.rfl⟩
    case ser.ser x y =>
      have : x = y := by simpa [pyEq] using h
      subst this; exact ⟨rfl, fun _ => Iff.rfl⟩
    case lit.lit o1 v1 o2 v2 =>
      have e : v1 = v2 := by simpa [pyEq] using h
      subst e
      simp only [Ty.good_lit] at ga gb
      have : o1 = o2 := by
        cases o1 <;> cases o2 <;> simp_all
      subst this; exact ⟨rfl, fun _ => Iff.rfl⟩
    case list.list x y =>
      have h' : pyEq so ms (fun _ => none) fuel x y = some true := by simpa [pyEq] using h
      have := ih x y (by simpa using ga) (by simpa using gb) h'
      refine ⟨rfl, fun v => ?_⟩
      rw [inh_list_iff, inh_list_iff]
      constructor
      · rintro ⟨xs, rfl, hx⟩; exact ⟨xs, rfl, fun e he => (this.2 e).1 (hx e he)⟩
      · rintro ⟨xs, rfl, hx⟩; exact ⟨xs, rfl, fun e he => (this.2 e).2 (hx e he)⟩
    case dict.dict x y =>
      have h' : pyEq so ms (fun _ => none) fuel x y = some true := by simpa [pyEq] using h
      have := ih x y (by simpa using ga) (by simpa using gb) h'
      refine ⟨rfl, fun v => ?_⟩
      rw [inh_dict_iff, inh_dict_iff]
      constructor
      · rintro ⟨xs, rfl, hx⟩; exact ⟨xs, rfl, fun e he => (this.2 e.2).1 (hx e he)⟩
      · rintro ⟨xs, rfl, hx⟩; exact ⟨xs, rfl, fun e he => (this.2 e.2).2 (hx e he)⟩
    case opt.opt x y =>
      have h' : pyEq so ms (fun _ => none) fuel x y = some true := by simpa [pyEq] using h
      have := ih x y (by simpa using ga) (by simpa using gb) h'
      refine ⟨rfl, fun v => ?_⟩
      rw [inh_opt_iff, inh_opt_iff, this.2 v]
    case union.union xs ys =>
      rw [pyEq_union_eq] at h
      obtain ⟨hl, hp⟩ := eqListF_true h
      refine ⟨rfl, ?_⟩
      apply inh_union_congr (xs' := sortedMembers so ms xs) (ys' := sortedMembers so ms ys)
        (fun t => mem_sortByKey) (fun t => mem_sortByKey) hl
      intro p hp' v
      have hm := List.of_mem_zip hp'
      exact (ih p.1 p.2 (Ty.good_union.1 ga _ (mem_sortByKey.1 hm.1))
        (Ty.good_union.1 gb _ (mem_sortByKey.1 hm.2)) (hp p hp')).2 v
    case tuple.tuple xs ys => simp at ga
    case obj.obj fa fb =>
      rw [pyEq_obj_eq] at h
      obtain ⟨hl, hp⟩ := eqFieldsF_true h
      simp only [Ty.good_obj] at ga gb
      refine ⟨rfl, inh_obj_congr ga.1 gb.1 hl ?_⟩
      intro kv hkv
      obtain ⟨tb, htb, he⟩ := hp kv hkv
      exact ⟨tb, htb, ih kv.2 tb (ga.2 kv hkv) (gb.2 _ (Fields.mem_of_get? htb)) he⟩
    case ptr.ptr i j => simp at ga

/-- **`pyEq_sound`**: for pointer-free generator-stage types (`Ty.Good`), with the empty model lookup,
    Python `==` implies "same inhabitants" (for the strict and for the raw relation). -/
theorem pyEq_sound {ov acc g' K} (e : EqEnv) (he : e.look = fun _ => none) :
    EqSoundOn ov acc g' e (Ty.Good K) := by
  intro a b ga gb h v
  unfold EqEnv.eq at h
  rw [he] at h
  split at h
  · rename_i r hr
    simp only [pure, Except.pure, Except.ok.injEq] at h
    subst h
    exact (pyEq_sound_aux e.fuel a b ga gb hr).2 v
  · simp at h

end J2M
