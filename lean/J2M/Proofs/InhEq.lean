/-
  C01 helpers, part 4: Python `==` on pointer-free generator-stage metadata (`pyEq` with an empty model
  lookup) is sound for inhabitation: `a == b` implies `a` and `b` have the same inhabitants.
-/
import J2M.Proofs.InhUnion
import J2M.Proofs.PyEqBasic
namespace J2M

/-! ## field dicts that agree key by key -/

/-- "same optionality and same inhabitants" -/
def TyEquiv (ov : Bool) (acc : Accepts) (g : ModelLookup) (a b : Ty) : Prop :=
  a.isOpt = b.isOpt ∧ ∀ v, InhX ov acc g a v ↔ InhX ov acc g b v

theorem TyEquiv.symm {ov acc g a b} (h : TyEquiv ov acc g a b) : TyEquiv ov acc g b a :=
  ⟨h.1.symm, fun v => (h.2 v).symm⟩

theorem inhF_of_covers {ov acc g} {fa fb : Fields} {kvs : List (String × Json)}
    (h1 : ∀ k ta, Fields.get? fa k = some ta → ∃ tb, Fields.get? fb k = some tb ∧ TyEquiv ov acc g ta tb)
    (h2 : ∀ k tb, Fields.get? fb k = some tb → ∃ ta, Fields.get? fa k = some ta ∧ TyEquiv ov acc g ta tb)
    (h : InhF ov acc g fa kvs) : InhF ov acc g fb kvs := by
  obtain ⟨ha, hb⟩ := h
  refine ⟨?_, ?_⟩
  · intro kv hkv
    obtain ⟨ta, hta, hi⟩ := ha kv hkv
    obtain ⟨tb, htb, he⟩ := h1 _ _ hta
    exact ⟨tb, htb, (he.2 _).1 hi⟩
  · intro k tb htb hno
    obtain ⟨ta, hta, he⟩ := h2 _ _ htb
    exact hb k ta hta (by rw [he.1]; exact hno)

theorem inh_obj_iff' {ov acc g fs v} :
    InhX ov acc g (.obj fs) v ↔ ∃ kvs, v = .obj kvs ∧ InhFieldsX ov acc g fs kvs := by
  constructor
  · intro h; cases h with | obj a b c => exact ⟨_, rfl, a, b, c⟩
  · rintro ⟨kvs, rfl, a, b, c⟩; exact InhX.obj a b c

theorem inh_obj_congr {ov acc g} {fa fb : Fields}
    (nda : (fa.map (·.1)).Nodup) (ndb : (fb.map (·.1)).Nodup) (hl : fa.length = fb.length)
    (h : ∀ kv ∈ fa, ∃ tb, Fields.get? fb kv.1 = some tb ∧ TyEquiv ov acc g kv.2 tb) :
    ∀ v, InhX ov acc g (.obj fa) v ↔ InhX ov acc g (.obj fb) v := by
  have h1 : ∀ k ta, Fields.get? fa k = some ta → ∃ tb, Fields.get? fb k = some tb ∧ TyEquiv ov acc g ta tb :=
    fun k ta hk => h (k, ta) (Fields.mem_of_get? hk)
  have sub : fa.map (·.1) ⊆ fb.map (·.1) := by
    intro k hk
    obtain ⟨kv, hkv, e⟩ := List.mem_map.1 hk
    obtain ⟨tb, htb, _⟩ := h kv hkv
    rw [← e, ← Fields.get?_isSome_iff, htb]; rfl
  have sub' := subset_of_nodup_length _ _ nda sub (by simp [hl])
  have h2 : ∀ k tb, Fields.get? fb k = some tb → ∃ ta, Fields.get? fa k = some ta ∧ TyEquiv ov acc g ta tb := by
    intro k tb hk
    have hk' : k ∈ fa.map (·.1) := sub' (by rw [← Fields.get?_isSome_iff, hk]; rfl)
    rw [← Fields.get?_isSome_iff] at hk'
    cases hg : Fields.get? fa k with
    | none => simp [hg] at hk'
    | some ta =>
      obtain ⟨tb', htb', he⟩ := h1 k ta hg
      rw [hk] at htb'; cases htb'
      exact ⟨ta, rfl, he⟩
  intro v
  rw [inh_obj_iff', inh_obj_iff']
  constructor
  · rintro ⟨kvs, rfl, hi⟩
    exact ⟨kvs, rfl, (inhF_of_covers h1 h2 hi.toInhF).toInhFields ndb⟩
  · rintro ⟨kvs, rfl, hi⟩
    refine ⟨kvs, rfl, (inhF_of_covers (fa := fb) (fb := fa) ?_ ?_ hi.toInhF).toInhFields nda⟩
    · intro k tb hk; obtain ⟨ta, hta, he⟩ := h2 k tb hk; exact ⟨ta, hta, he.symm⟩
    · intro k ta hk; obtain ⟨tb, htb, he⟩ := h1 k ta hk; exact ⟨tb, htb, he.symm⟩

theorem inh_union_congr {ov acc g} {xs ys xs' ys' : List Ty}
    (hx : ∀ t, t ∈ xs' ↔ t ∈ xs) (hy : ∀ t, t ∈ ys' ↔ t ∈ ys) (hl : xs'.length = ys'.length)
    (h : ∀ p ∈ xs'.zip ys', ∀ v, InhX ov acc g p.1 v ↔ InhX ov acc g p.2 v) :
    ∀ v, InhX ov acc g (.union xs) v ↔ InhX ov acc g (.union ys) v := by
  intro v
  rw [inh_union_iff, inh_union_iff]
  constructor
  · rintro ⟨t, ht, hi⟩
    obtain ⟨y, hy'⟩ := exists_zip_left xs' ys' (by omega) t ((hx t).2 ht)
    exact ⟨y, (hy y).1 (List.of_mem_zip hy').2, (h _ hy' v).1 hi⟩
  · rintro ⟨t, ht, hi⟩
    obtain ⟨x, hx'⟩ := exists_zip_right xs' ys' (by omega) t ((hy t).2 ht)
    exact ⟨x, (hx x).1 (List.of_mem_zip hx').1, (h _ hx' v).2 hi⟩

/-! ## soundness of `==` -/

theorem pyEq_sound_aux {ov acc g' so ms K} :
    ∀ (fuel : Nat) (a b : Ty), Ty.Good K a → Ty.Good K b →
      pyEq so ms (fun _ => none) fuel a b = some true → TyEquiv ov acc g' a b := by
  intro fuel
  induction fuel with
  | zero => intro a b _ _ h; simp [pyEq] at h
  | succ fuel ih =>
    intro a b ga gb h
    cases a <;> cases b <;> try (simp [pyEq] at h; done)
    case int.int => exact ⟨rfl, fun _ => Iff.rfl⟩
    case float.float => exact ⟨rfl, fun _ => Iff.rfl⟩
    case bool.bool => exact ⟨rfl, fun _ => Iff.rfl⟩
    case str.str => exact ⟨rfl, fun _ => Iff.rfl⟩
    case null.null => exact ⟨rfl, fun _ => Iff.rfl⟩
    case unknown.unknown => exact ⟨rfl, fun _ => Iff.rfl⟩
    case ser.ser x y =>
      have : x = y := by simpa [pyEq] using h
      subst this; exact ⟨rfl, fun _ => Iff.rfl⟩
    case lit.lit o1 v1 o2 v2 =>
      have e : v1 = v2 := by simpa [pyEq] using h
      subst e
      simp only [Ty.good_lit] at ga gb
      have : o1 = o2 := by
        cases o1 <;> cases o2 <;> simp_all
      subst this; exact ⟨rfl, fun _ => Iff.rfl⟩
    case list.list x y =>
      have h' : pyEq so ms (fun _ => none) fuel x y = some true := by simpa [pyEq] using h
      have := ih x y (by simpa using ga) (by simpa using gb) h'
      refine ⟨rfl, fun v => ?_⟩
      rw [inh_list_iff, inh_list_iff]
      constructor
      · rintro ⟨xs, rfl, hx⟩; exact ⟨xs, rfl, fun e he => (this.2 e).1 (hx e he)⟩
      · rintro ⟨xs, rfl, hx⟩; exact ⟨xs, rfl, fun e he => (this.2 e).2 (hx e he)⟩
    case dict.dict x y =>
      have h' : pyEq so ms (fun _ => none) fuel x y = some true := by simpa [pyEq] using h
      have := ih x y (by simpa using ga) (by simpa using gb) h'
      refine ⟨rfl, fun v => ?_⟩
      rw [inh_dict_iff, inh_dict_iff]
      constructor
      · rintro ⟨xs, rfl, hx⟩; exact ⟨xs, rfl, fun e he => (this.2 e.2).1 (hx e he)⟩
      · rintro ⟨xs, rfl, hx⟩; exact ⟨xs, rfl, fun e he => (this.2 e.2).2 (hx e he)⟩
    case opt.opt x y =>
      have h' : pyEq so ms (fun _ => none) fuel x y = some true := by simpa [pyEq] using h
      have := ih x y (by simpa using ga) (by simpa using gb) h'
      refine ⟨rfl, fun v => ?_⟩
      rw [inh_opt_iff, inh_opt_iff, this.2 v]
    case union.union xs ys =>
      rw [pyEq_union_eq] at h
      obtain ⟨hl, hp⟩ := eqListF_true h
      refine ⟨rfl, ?_⟩
      apply inh_union_congr (xs' := sortedMembers so ms xs) (ys' := sortedMembers so ms ys)
        (fun t => mem_sortByKey) (fun t => mem_sortByKey) hl
      intro p hp' v
      have hm := List.of_mem_zip hp'
      exact (ih p.1 p.2 (Ty.good_union.1 ga _ (mem_sortByKey.1 hm.1))
        (Ty.good_union.1 gb _ (mem_sortByKey.1 hm.2)) (hp p hp')).2 v
    case tuple.tuple xs ys => simp at ga
    case obj.obj fa fb =>
      rw [pyEq_obj_eq] at h
      obtain ⟨hl, hp⟩ := eqFieldsF_true h
      simp only [Ty.good_obj] at ga gb
      refine ⟨rfl, inh_obj_congr ga.1 gb.1 hl ?_⟩
      intro kv hkv
      obtain ⟨tb, htb, he⟩ := hp kv hkv
      exact ⟨tb, htb, ih kv.2 tb (ga.2 kv hkv) (gb.2 _ (Fields.mem_of_get? htb)) he⟩
    case ptr.ptr i j => simp at ga

/-- **`pyEq_sound`**: for pointer-free generator-stage types (`Ty.Good`), with the empty model lookup,
    Python `==` implies "same inhabitants" (for the strict and for the raw relation). -/
theorem pyEq_sound {ov acc g' K} (e : EqEnv) (he : e.look = fun _ => none) :
    EqSoundOn ov acc g' e (Ty.Good K) := by
  intro a b ga gb h v
  unfold EqEnv.eq at h
  rw [he] at h
  split at h
  · rename_i r hr
    simp only [pure, Except.pure, Except.ok.injEq] at h
    subst h
    exact (pyEq_sound_aux e.fuel a b ga gb hr).2 v
  · simp at h

end J2M
