/-
  C08 at the registry stage: evaluation of the model on concrete inputs.
  * `Old`: the `_optimize_union` category split BEFORE the repair (a plain fold: a union hidden under an `Optional`
    member is one opaque member).  History of the defect: the merged field needs THREE passes, `merge_models`
    applies two.
  * the repaired model: the same input is normalised; what one pass can still leave behind (a second `Unknown`,
    `int` next to `float` when `int` occurs twice) and the second pass repairs.
  (`flattenUnion` is compiled by well-founded recursion, so the steps are evaluated by `simp` with the defining
  equations, as in `C02RHelpersExample.lean`.)
-/
import J2M.Sem
import J2M.Registry
import J2M.Pipeline
import J2M.Proofs.SplitWorklist
namespace J2M.TwoPass.W
open J2M

def cfgW : GenCfg := ⟨⟨15, 20⟩, ⟨[], [], []⟩, [], []⟩

set_option maxRecDepth 100000
set_option linter.unusedSimpArgs false

/-! ## 0. the old split, and `optimize_type` over it (history) -/

namespace Old
mutual
/-- `optimize_type` with the old category split (`SplitW.splitFold`: the fold over the members as they are) -/
def optimize (cfg : GenCfg) (e : EqEnv) : Nat → Ty → Except PyErr Ty
  | 0, _ => .error .outOfFuel
  | fuel + 1, t =>
    match t with
    | .obj fs => do
      let fs' ← fs.mapM (fun (kv : String × Ty) => do
        let v ← optimize cfg e fuel kv.2
        pure (kv.1, v))
      pure (.obj fs')
    | .union ts => optimizeUnion cfg e fuel ts
    | .opt x => do
      let t' ← optimize cfg e fuel x
      match t' with
      | .opt y => pure (.opt y)
      | y => pure (.opt y)
    | .list x => do pure (.list (← optimize cfg e fuel x))
    | .dict x => do pure (.dict (← optimize cfg e fuel x))
    | .tuple ts => do pure (.tuple (← ts.mapM (optimize cfg e fuel)))
    | .lit ov vs => if ov || vs.isEmpty then pure .str else pure t
    | t => pure t
def optimizeUnion (cfg : GenCfg) (e : EqEnv) : Nat → List Ty → Except PyErr Ty
  | 0, _ => .error .outOfFuel
  | fuel + 1, members => do
    let s := SplitW.splitFold cfg.reg members
    let other := s.other
    let other := if other.any Ty.isInt && other.any Ty.isFloat then removeFirst Ty.isInt other else other
    let other ← (if s.toMerge.isEmpty then pure other else do
      let m ← mergeFieldSets cfg.lit e s.toMerge
      pure (other ++ [.obj m]))
    let other := if s.lists.isEmpty then other else other ++ [.list (mkUnion cfg.lit s.lists)]
    let other := if s.dicts.isEmpty then other else other ++ [.dict (mkUnion cfg.lit s.dicts)]
    let other ← (if s.strTypes.any Ty.isStr then pure (other ++ [.str])
      else if s.strTypes.isEmpty then pure other
      else do
        let kinds := s.strTypes.filterMap (fun t => match t with | .ser k => some k | _ => none)
        let r ← resolve cfg.reg kinds (kinds.length + 2)
        match r with
        | [k] => pure (other ++ [.ser k])
        | [] => .error .stopIteration
        | _ => pure (other ++ [.str]))
    let types ← other.mapM (optimize cfg e fuel)
    match types with
    | [] => .error .indexError
    | [t] => pure t
    | types =>
      let types := if types.any Ty.isUnknown then removeFirst Ty.isUnknown types else types
      let optional := types.any Ty.isNull
      let types := types.filter (fun t => !t.isNull)
      let mt := match mkUnionMembers cfg.lit types with
        | [] => .unknown
        | [t] => t
        | us => .union us
      pure (if optional then .opt mt else mt)
end
end Old

/-- `Optional[Union[bool, List[Optional[Union[int, Literal['a']]]]]]` — a normal form -/
def fA : Ty := .opt (.union [.bool, .list (.opt (.union [.int, .lit false ["a"]]))])
/-- `List[float]` — a normal form -/
def fB : Ty := .list .float

/-- what `merge_field_sets` makes of `{f: fB}` followed by `{f: fA}`:
    `Union[Optional[Union[bool, List[Optional[Union[int, 'a']]]]], List[float]]` -/
def tW : Ty := .union [fA, fB]

/-- old code, after ONE pass: `Optional[Union[bool, List[Optional[Union[int, 'a']]], List[float]]]` (two lists) -/
def tW1 : Ty := .opt (.union [.bool, .list (.opt (.union [.int, .lit false ["a"]])), .list .float])
/-- old code, after TWO passes: `Optional[Union[bool, List[Optional[Union[int, float, 'a']]]]]` -/
def tW2 : Ty := .opt (.union [.bool, .list (.opt (.union [.int, .float, .lit false ["a"]]))])
/-- `Optional[Union[bool, List[Optional[Union[float, 'a']]]]]` — the normal form -/
def tW3 : Ty := .opt (.union [.bool, .list (.opt (.union [.float, .lit false ["a"]]))])

theorem old_pass1 (e : EqEnv) (n : Nat) : Old.optimize cfgW e (n + 16) tW = .ok tW1 := by
  simp +decide [tW, tW1, fA, fB, Old.optimize, Old.optimizeUnion, SplitW.splitFold, Ty.isInt, Ty.isFloat, Ty.isStr,
    Ty.isUnknown, Ty.isNull, bind, Except.bind, pure, Except.pure, mkUnion, mkUnionMembers, flattenUnion,
    handleType, hashStr, hashStrs, removeFirst, cfgW, insertUniq, mkLit]

theorem old_pass2 (e : EqEnv) (n : Nat) : Old.optimize cfgW e (n + 16) tW1 = .ok tW2 := by
  simp +decide [tW1, tW2, Old.optimize, Old.optimizeUnion, SplitW.splitFold, Ty.isInt, Ty.isFloat, Ty.isStr,
    Ty.isUnknown, Ty.isNull, bind, Except.bind, pure, Except.pure, mkUnion, mkUnionMembers, flattenUnion,
    handleType, hashStr, hashStrs, removeFirst, cfgW, insertUniq, mkLit]

theorem old_pass3 (e : EqEnv) (n : Nat) : Old.optimize cfgW e (n + 16) tW2 = .ok tW3 := by
  simp +decide [tW2, tW3, Old.optimize, Old.optimizeUnion, SplitW.splitFold, Ty.isInt, Ty.isFloat, Ty.isStr,
    Ty.isUnknown, Ty.isNull, bind, Except.bind, pure, Except.pure, mkUnion, mkUnionMembers, flattenUnion,
    handleType, hashStr, hashStrs, removeFirst, cfgW, insertUniq, mkLit]

theorem tW2_not_nf : nf tW2 = false := by decide
theorem tW3_nf : nf tW3 = true := by decide

/-! ## 1. the repaired model on types -/

/-- the repaired split: ONE pass normalises the merged field -/
theorem new_pass1 (e : EqEnv) (n : Nat) : optimize cfgW e (n + 16) tW = .ok tW3 := by
  simp +decide [tW, tW3, fA, fB, optimize, optimizeUnion, splitMembers, splitMembersAux, Ty.size, Ty.sizeList,
    Ty.isInt, Ty.isFloat, Ty.isStr, Ty.isUnknown, Ty.isNull, bind, Except.bind, pure, Except.pure, mkUnion,
    mkUnionMembers, flattenUnion, handleType, hashStr, hashStrs, removeFirst, cfgW, insertUniq, mkLit]

/-- `Union[List[int], List[Any], List[Optional[Any]]]`: what `merge_field_sets` makes of `List[Optional[Any]]`,
    `List[Any]`, `List[int]` -/
def tU : Ty := .union [.list .int, .list .unknown, .list (.opt .unknown)]
/-- ONE pass: `List[Optional[Union[int, Any]]]` — `types.remove(Unknown)` removes one of two `Unknown`s -/
def tU1 : Ty := .list (.opt (.union [.int, .unknown]))
def tU2 : Ty := .list (.opt .int)

theorem tU_pass1 (e : EqEnv) (n : Nat) : optimize cfgW e (n + 9) tU = .ok tU1 := by
  simp +decide [tU, tU1, optimize, optimizeUnion, splitMembers, splitMembersAux, Ty.size, Ty.sizeList,
    Ty.isInt, Ty.isFloat, Ty.isStr, Ty.isUnknown, Ty.isNull, bind, Except.bind, pure, Except.pure, mkUnion,
    mkUnionMembers, flattenUnion, handleType, hashStr, hashStrs, removeFirst, cfgW, insertUniq, mkLit]

theorem tU_pass2 (e : EqEnv) (n : Nat) : optimize cfgW e (n + 9) tU1 = .ok tU2 := by
  simp +decide [tU1, tU2, optimize, optimizeUnion, splitMembers, splitMembersAux, Ty.size, Ty.sizeList,
    Ty.isInt, Ty.isFloat, Ty.isStr, Ty.isUnknown, Ty.isNull, bind, Except.bind, pure, Except.pure, mkUnion,
    mkUnionMembers, flattenUnion, handleType, hashStr, hashStrs, removeFirst, cfgW, insertUniq, mkLit]

theorem tU1_not_nf : nf tU1 = false := by decide
theorem tU2_nf : nf tU2 = true := by decide

/-- `Union[float, Optional[Union[int, 'a']], int]`: `merge_field_sets` of `int`, `Optional[Union[int, 'a']]`, `float` -/
def tI : Ty := .union [.float, .opt (.union [.int, .lit false ["a"]]), .int]
/-- ONE pass: `Optional[Union[float, int, 'a']]` — `other_types.remove(int)` removes one of two `int`s -/
def tI1 : Ty := .opt (.union [.float, .int, .lit false ["a"]])
def tI2 : Ty := .opt (.union [.float, .lit false ["a"]])

theorem tI_pass1 (e : EqEnv) (n : Nat) : optimize cfgW e (n + 9) tI = .ok tI1 := by
  simp +decide [tI, tI1, optimize, optimizeUnion, splitMembers, splitMembersAux, Ty.size, Ty.sizeList,
    Ty.isInt, Ty.isFloat, Ty.isStr, Ty.isUnknown, Ty.isNull, bind, Except.bind, pure, Except.pure, mkUnion,
    mkUnionMembers, flattenUnion, handleType, hashStr, hashStrs, removeFirst, cfgW, insertUniq, mkLit]

theorem tI_pass2 (e : EqEnv) (n : Nat) : optimize cfgW e (n + 9) tI1 = .ok tI2 := by
  simp +decide [tI1, tI2, optimize, optimizeUnion, splitMembers, splitMembersAux, Ty.size, Ty.sizeList,
    Ty.isInt, Ty.isFloat, Ty.isStr, Ty.isUnknown, Ty.isNull, bind, Except.bind, pure, Except.pure, mkUnion,
    mkUnionMembers, flattenUnion, handleType, hashStr, hashStrs, removeFirst, cfgW, insertUniq, mkLit]

theorem tI1_not_nf : nf tI1 = false := by decide
theorem tI2_nf : nf tI2 = true := by decide

/-- at most one literal value, one registered pseudo-type `K` -/
def cfgS : GenCfg := ⟨⟨1, 20⟩, ⟨["K"], [], []⟩, [], []⟩

/-- `Union[Literal['a'], Optional[Union[K, Literal['b']]]]` under a literal limit of one value -/
def tS : Ty := .union [.lit false ["a"], .opt (.union [.ser "K", .lit false ["b"]])]
/-- ONE pass: `Optional[Union[K, str]]` — the folded literal overflows in the final `DUnion`, after the string
    types were resolved: `str` next to a pseudo-type -/
def tS1 : Ty := .opt (.union [.ser "K", .str])
def tS2 : Ty := .opt .str

theorem tS_pass1 (e : EqEnv) (n : Nat) : optimize cfgS e (n + 9) tS = .ok tS1 := by
  simp +decide [tS, tS1, optimize, optimizeUnion, splitMembers, splitMembersAux, Ty.size, Ty.sizeList,
    Ty.isInt, Ty.isFloat, Ty.isStr, Ty.isUnknown, Ty.isNull, bind, Except.bind, pure, Except.pure, mkUnion,
    mkUnionMembers, flattenUnion, handleType, hashStr, hashStrs, removeFirst, cfgS, insertUniq, mkLit, resolve,
    dedupStr, replacedIn]

theorem tS_pass2 (e : EqEnv) (n : Nat) : optimize cfgS e (n + 9) tS1 = .ok tS2 := by
  simp +decide [tS1, tS2, optimize, optimizeUnion, splitMembers, splitMembersAux, Ty.size, Ty.sizeList,
    Ty.isInt, Ty.isFloat, Ty.isStr, Ty.isUnknown, Ty.isNull, bind, Except.bind, pure, Except.pure, mkUnion,
    mkUnionMembers, flattenUnion, handleType, hashStr, hashStrs, removeFirst, cfgS, insertUniq, mkLit, resolve,
    dedupStr, replacedIn]

theorem tS1_not_nf : nf tS1 = false := by decide
theorem tS2_nf : nf tS2 = true := by decide

end J2M.TwoPass.W
