/-
  C08 at the registry stage: evaluation of the model on the types that show that the two `optimize_type`
  passes `merge_models` applies to a merged model are NOT enough.
  (`flattenUnion` is compiled by well-founded recursion, so the steps are evaluated by `simp` with the
  defining equations, as in `C02RHelpersExample.lean`.)
-/
import J2M.Sem
import J2M.Registry
namespace J2M.TwoPass.W
open J2M

def cfgW : GenCfg := ⟨⟨15, 20⟩, ⟨[], [], []⟩, [], []⟩

set_option maxRecDepth 100000
set_option linter.unusedSimpArgs false

/-- `Optional[Union[bool, List[Optional[Union[int, Literal['a']]]]]]` — a normal form (`fA_nf`) -/
def fA : Ty := .opt (.union [.bool, .list (.opt (.union [.int, .lit false ["a"]]))])
/-- `List[float]` — a normal form -/
def fB : Ty := .list .float

/-- what `merge_field_sets` makes of `{f: fB}` followed by `{f: fA}`:
    `Union[Optional[Union[bool, List[Optional[Union[int, 'a']]]]], List[float]]` -/
def tW : Ty := .union [fA, fB]

/-- after ONE pass: `Optional[Union[bool, List[Optional[Union[int, 'a']]], List[float]]]` (two lists) -/
def tW1 : Ty := .opt (.union [.bool, .list (.opt (.union [.int, .lit false ["a"]])), .list .float])
/-- after TWO passes: `Optional[Union[bool, List[Optional[Union[int, float, 'a']]]]]` (`int` next to `float`) -/
def tW2 : Ty := .opt (.union [.bool, .list (.opt (.union [.int, .float, .lit false ["a"]]))])
/-- after THREE passes: `Optional[Union[bool, List[Optional[Union[float, 'a']]]]]` -/
def tW3 : Ty := .opt (.union [.bool, .list (.opt (.union [.float, .lit false ["a"]]))])

theorem pass1 (e : EqEnv) (n : Nat) : optimize cfgW e (n + 16) tW = .ok tW1 := by
  simp +decide [tW, tW1, fA, fB, optimize, optimizeUnion, splitMembers, Ty.isInt, Ty.isFloat, Ty.isStr,
    Ty.isUnknown, Ty.isNull, bind, Except.bind, pure, Except.pure, mkUnion, mkUnionMembers, flattenUnion,
    handleType, hashStr, hashStrs, removeFirst, cfgW, insertUniq, mkLit]

theorem pass2 (e : EqEnv) (n : Nat) : optimize cfgW e (n + 16) tW1 = .ok tW2 := by
  simp +decide [tW1, tW2, optimize, optimizeUnion, splitMembers, Ty.isInt, Ty.isFloat, Ty.isStr,
    Ty.isUnknown, Ty.isNull, bind, Except.bind, pure, Except.pure, mkUnion, mkUnionMembers, flattenUnion,
    handleType, hashStr, hashStrs, removeFirst, cfgW, insertUniq, mkLit]

theorem pass3 (e : EqEnv) (n : Nat) : optimize cfgW e (n + 16) tW2 = .ok tW3 := by
  simp +decide [tW2, tW3, optimize, optimizeUnion, splitMembers, Ty.isInt, Ty.isFloat, Ty.isStr,
    Ty.isUnknown, Ty.isNull, bind, Except.bind, pure, Except.pure, mkUnion, mkUnionMembers, flattenUnion,
    handleType, hashStr, hashStrs, removeFirst, cfgW, insertUniq, mkLit]

theorem pass4 (e : EqEnv) (n : Nat) : optimize cfgW e (n + 16) tW3 = .ok tW3 := by
  simp +decide [tW3, optimize, optimizeUnion, splitMembers, Ty.isInt, Ty.isFloat, Ty.isStr,
    Ty.isUnknown, Ty.isNull, bind, Except.bind, pure, Except.pure, mkUnion, mkUnionMembers, flattenUnion,
    handleType, hashStr, hashStrs, removeFirst, cfgW, insertUniq, mkLit]


/-! ### the pipeline on one JSON document -/

def oW : GenOracles := ⟨fun _ _ => some false, fun _ _ => some false, StrOracle.default⟩

/-- `{"p": {"g": 1, "f": [1.5]}, "q": [{"g": 1, "f": [1, "a", null]}, {"g": 1, "f": true}, {"g": 1}]}` -/
def sW : Json :=
  .obj [("p", .obj [("g", .int 1), ("f", .arr [.float 0])]),
        ("q", .arr [.obj [("g", .int 1), ("f", .arr [.int 1, .str "a", .null])],
                    .obj [("g", .int 1), ("f", .bool true)],
                    .obj [("g", .int 1)]])]

def o1 : Fields := [("g", .int), ("f", .list (.union [.int, .null, .lit false ["a"]]))]
def o2 : Fields := [("g", .int), ("f", .bool)]
def o3 : Fields := [("g", .int)]
def cW : Fields := [("p", .obj [("g", .int), ("f", .list .float)]), ("q", .list (.union [.obj o1, .obj o2, .obj o3]))]

theorem convertW : convert cfgW oW sW = .ok cW := by
  simp +decide [sW, cW, o1, o2, o3, convert, detect, detectList, convertFields, anyRegexMatches, allKeysMatch,
    cfgW, oW, detectStr, detectStr.go, wrapElems, mkLit, mkUnionMembers, flattenUnion, handleType, hashStr,
    hashStrs, hashFields, insertUniq, bind, Except.bind, pure, Except.pure, List.foldlM]


/-- the comparison environment of `generate` -/
def eW : EqEnv := ⟨oW.str, fun i => "Model#" ++ i, fun _ => none, 1000000⟩
theorem eqW1 : eW.eq .int .int = .ok true := by rfl
theorem eqW2 : eW.eq (.list (.union [.int, .null, .lit false ["a"]])) .bool = .ok false := by rfl

theorem mergeTop : mergeFieldSets cfgW.lit eW [cW] = .ok cW := by
  simp +decide [cW, mergeFieldSets, mergeFieldSets.go, mergeStep, mergeOne, Fields.get?, Fields.set,
    Fields.keys, Fields.has, Ty.isOpt, bind, Except.bind, pure, Except.pure]

theorem mergeQ : mergeFieldSets cfgW.lit eW [o1, o2, o3] =
    .ok [("g", .int), ("f", .opt (.union [.bool, .list (.union [.int, .null, .lit false ["a"]])]))] := by
  simp +decide [o1, o2, o3, mergeFieldSets, mergeFieldSets.go, mergeStep, mergeOne, Fields.get?, Fields.set,
    Fields.keys, Fields.has, Ty.isOpt, eqW1, eqW2, bind, Except.bind, pure, Except.pure, Ty.unionMembers,
    mkUnionMembers, flattenUnion, handleType, hashStr, Ty.isStr, cfgW]

theorem opt_p (e : EqEnv) (n : Nat) :
    optimize cfgW e (n + 4) (.obj [("g", .int), ("f", .list .float)]) = .ok (.obj [("g", .int), ("f", .list .float)]) := by
  simp +decide [optimize, bind, Except.bind, pure, Except.pure]

theorem opt_f (e : EqEnv) (n : Nat) :
    optimize cfgW e (n + 12) (.opt (.union [.bool, .list (.union [.int, .null, .lit false ["a"]])])) = .ok fA := by
  simp +decide [fA, optimize, optimizeUnion, splitMembers, Ty.isInt, Ty.isFloat, Ty.isStr,
    Ty.isUnknown, Ty.isNull, bind, Except.bind, pure, Except.pure, mkUnion, mkUnionMembers, flattenUnion,
    handleType, hashStr, hashStrs, removeFirst, cfgW, insertUniq, mkLit]

theorem opt_obj (n : Nat) :
    optimize cfgW eW (n + 14)
      (.obj [("g", .int), ("f", .opt (.union [.bool, .list (.union [.int, .null, .lit false ["a"]])]))]) =
      .ok (.obj [("g", .int), ("f", fA)]) := by
  rw [optimize]
  simp only [List.mapM_cons, List.mapM_nil, bind, Except.bind, pure, Except.pure, opt_f eW (n + 1)]
  simp [optimize, pure, Except.pure]

theorem opt_q (n : Nat) :
    optimize cfgW eW (n + 20) (.list (.union [.obj o1, .obj o2, .obj o3])) = .ok (.list (.obj [("g", .int), ("f", fA)])) := by
  rw [optimize]
  simp only [bind, Except.bind]
  rw [optimize, optimizeUnion]
  have hs : splitMembers cfgW.reg [.obj o1, .obj o2, .obj o3] = { toMerge := [o1, o2, o3] } := by
    simp [splitMembers]
  simp only [hs, bind, Except.bind, mergeQ, pure, Except.pure]
  simp +decide only [List.isEmpty_nil, List.isEmpty_cons, List.any_nil, List.nil_append, Bool.false_and, if_true,
    if_false, Bool.false_eq_true, List.mapM_cons, List.mapM_nil, bind, Except.bind, pure, Except.pure,
    opt_obj (n + 3)]

end J2M.TwoPass.W
