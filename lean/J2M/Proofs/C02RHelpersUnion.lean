/-
  C02 at the registry stage, part 2: `DUnion(*ts)` and `merge_field_sets` keep the LAX witness `LWit`.

  This is the generalisation of `C02T.mkUnion_tight` / `C02T.mergeFieldSets_tight` that the registry needs:
  * the types may contain model pointers (atoms, witnessed by an attributed object);
  * the incoming field sets are the (already optimised) field dicts of registered models, so a field type may
    be a `DOptional` — `mergeFieldSets_tight` (`SetOK`) excludes that, and then `merge_field_sets` can put a
    `DOptional` *inside* a `DUnion` (`Union[Optional[str], int]`), which the strict relation does not
    license by a missing key; the lax relation hands the licence down.
-/
import J2M.Proofs.C02RHelpers
namespace J2M.C02RH
open J2M J2M.C02T J2M.Tight

variable {Obj : ObjRel} {acc : Accepts}

/-! ### `DUnion.__init__` -/

theorem flatten_lwit {a u : Prop} {vs : List Json} {ts : List Ty}
    (h : ∀ t ∈ ts, LWit Obj acc a u t vs) : ∀ m ∈ flattenUnion ts, LWit Obj acc a u m vs := by
  induction ts using flattenUnion.induct with
  | case1 => simp [flattenUnion]
  | case2 ms rest ih1 ih2 =>
    intro t ht
    rw [flattenUnion] at ht
    rcases List.mem_append.1 ht with h1 | h1
    · exact ih1 (fun m hm => (lwit_union.1 (h _ (List.mem_cons_self ..))).2 m hm) t h1
    · exact ih2 (fun t ht => h t (List.mem_cons_of_mem _ ht)) t h1
  | case3 t0 rest hnu ih =>
    intro t ht
    rw [flattenUnion.eq_3 _ _ hnu] at ht
    rcases List.mem_cons.1 ht with h1 | h1
    · subst h1; exact h _ (List.mem_cons_self ..)
    · exact ih (fun t ht => h t (List.mem_cons_of_mem _ ht)) t h1

theorem flatten_ne_nil_of_lwit {a u : Prop} {vs : List Json} {ts : List Ty}
    (hne : ts ≠ []) (h : ∀ t ∈ ts, LWit Obj acc a u t vs) : flattenUnion ts ≠ [] := by
  induction ts using flattenUnion.induct with
  | case1 => exact absurd rfl hne
  | case2 ms rest ih1 _ =>
    rw [flattenUnion]
    have h0 := lwit_union.1 (h _ (List.mem_cons_self ..))
    have := ih1 h0.1 h0.2
    intro e
    exact this (List.append_eq_nil_iff.1 e).1
  | case3 t0 rest hnu _ =>
    rw [flattenUnion.eq_3 _ _ hnu]; simp

/-- **`mkUnion_lwit`**: when every argument of `DUnion(*ts)` is (laxly) witnessed by `vs`, so is every member of
    the result: a kept member is a flattened argument; the folded literal lists only strings of literal
    arguments; `str` is witnessed by some observed string. -/
theorem mkUnion_lwit {a u : Prop} {c : LitCfg} {ts : List Ty} {vs : List Json}
    (h : ∀ t ∈ ts, LWit Obj acc a u t vs) : ∀ m ∈ mkUnionMembers c ts, LWit Obj acc a u m vs := by
  have hfl := flatten_lwit h
  intro m hm
  rcases J2M.mkUnion_members_subset c ts m hm with ⟨h1, _⟩ | ⟨ws, rfl, hne, hfold, _, _⟩ | ⟨rfl, hc⟩
  · exact hfl m h1
  · simp only [LWit]
    refine ⟨hne, fun w hw => ?_⟩
    obtain ⟨ws', hmem, hw'⟩ := (hfold w).1 hw
    have := hfl _ hmem
    simp only [LWit] at this
    exact this.2 w hw'
  · simp only [LWit]
    rcases hc with h1 | ⟨ws, h1⟩ | ⟨_, ws, hfold, hov⟩
    · simpa [LWit] using hfl _ h1
    · simpa [LWit] using hfl _ h1
    · have hne := litOverflows_ne_nil hov
      obtain ⟨w, hw⟩ := List.exists_mem_of_ne_nil _ hne
      obtain ⟨ws', hmem, hw'⟩ := (hfold w).1 hw
      have := hfl _ hmem
      simp only [LWit] at this
      exact ⟨w, this.2 w hw'⟩

theorem mkUnion_ne_nil_of_lwit {a u : Prop} {c : LitCfg} {ts : List Ty} {vs : List Json}
    (hne : ts ≠ []) (h : ∀ t ∈ ts, LWit Obj acc a u t vs) : mkUnionMembers c ts ≠ [] := by
  apply C08P.mkUM_ne_nil c ts (flatten_ne_nil_of_lwit hne h)
  intro t ht ws
  by_cases e : t = .lit false ws
  · right
    subst e
    have h0 := flatten_lwit h _ ht
    simp only [LWit] at h0; exact h0.1
  · exact .inl e

/-- the union type `DUnion(*ts)` itself -/
theorem mkUnion_lwit_union {a u : Prop} {c : LitCfg} {ts : List Ty} {vs : List Json}
    (hne : ts ≠ []) (h : ∀ t ∈ ts, LWit Obj acc a u t vs) : LWit Obj acc a u (mkUnion c ts) vs :=
  lwit_union.2 ⟨mkUnion_ne_nil_of_lwit hne h, mkUnion_lwit h⟩

/-- `[x] => x | us => Union us` of a non-empty member-wise witnessed list -/
theorem collapse_lwit {a u : Prop} {us : List Ty} {vs : List Json}
    (hne : us ≠ []) (h : ∀ m ∈ us, LWit Obj acc a u m vs) : LWit Obj acc a u (J2M.collapse us) vs := by
  unfold J2M.collapse
  split
  · exact h _ (by simp)
  · exact lwit_union.2 ⟨hne, h⟩

/-! ### `merge_field_sets` -/

theorem unionMembers_lwit {a u : Prop} {vs : List Json} {t : Ty} (h : LWit Obj acc a u t vs) :
    t.unionMembers ≠ [] ∧ ∀ m ∈ t.unionMembers, LWit Obj acc a u m vs := by
  cases t with
  | union ts => exact lwit_union.1 h
  | _ => simp [Ty.unionMembers]; exact h

/-- `DUnion(*new.members, *old.members)` collapsed, as `mergeOne` builds it -/
theorem merged_lwit {a u : Prop} {c : LitCfg} {vs : List Json} {x y : Ty}
    (hx : LWit Obj acc a u x vs) (hy : LWit Obj acc a u y vs) :
    LWit Obj acc a u (J2M.collapse (mkUnionMembers c (x.unionMembers ++ y.unionMembers))) vs := by
  obtain ⟨a1, a2⟩ := unionMembers_lwit hx
  obtain ⟨_, b2⟩ := unionMembers_lwit hy
  have hne : x.unionMembers ++ y.unionMembers ≠ [] := by
    intro e; exact a1 (List.append_eq_nil_iff.1 e).1
  have hall : ∀ t ∈ x.unionMembers ++ y.unionMembers, LWit Obj acc a u t vs := by
    intro t ht
    rcases List.mem_append.1 ht with h | h
    · exact a2 t h
    · exact b2 t h
  exact collapse_lwit (mkUnion_ne_nil_of_lwit (c := c) hne hall) (mkUnion_lwit hall)

/-- the invariant of one merged field: the type is (laxly) witnessed by the values at the key, a `DOptional`
    anywhere on its union/optional spine being licensed by an object lacking the key -/
def FL (Obj : ObjRel) (acc : Accepts) (vs : List Json) (k : String) (t : Ty) : Prop :=
  LWit Obj acc (LacksKey k vs) False t (fieldVals k vs)

theorem mergeOne_FL {vs : List Json} {c e first fs fs' name field}
    (h : mergeOne c e first fs name field = .ok fs')
    (hfs : ∀ kv ∈ fs, FL Obj acc vs kv.1 kv.2)
    (hf : FL Obj acc vs name field)
    (hlack : first = false → name ∉ fs.keys → LacksKey name vs) :
    ∀ kv ∈ fs', FL Obj acc vs kv.1 kv.2 := by
  have hset : ∀ v, FL Obj acc vs name v → ∀ kv ∈ fs.set name v, FL Obj acc vs kv.1 kv.2 := by
    intro v hv kv hkv
    rcases Fields.mem_set hkv with h1 | h1
    · subst h1; exact hv
    · exact hfs kv h1
  rcases mergeOne_cases h with ⟨hg, h2⟩ | ⟨orig, hg, h2 | ⟨oi, ho, h2⟩ | ⟨_, h2⟩ | ⟨_, _, h2⟩⟩
  · subst h2
    apply hset
    cases first
    · cases hopt : field.isOpt
      · simp only [Bool.or_self, Bool.false_eq_true, ↓reduceIte]
        unfold FL
        simp only [LWit]
        exact ⟨.inl (hlack rfl (Fields.get?_eq_none.1 hg)), hf⟩
      · simpa using hf
    · simpa using hf
  · subst h2; exact hfs
  · subst h2; subst ho
    apply hset
    have := hfs _ (Fields.get?_mem hg)
    unfold FL at this ⊢
    simp only [LWit] at this ⊢
    exact ⟨this.1, merged_lwit hf this.2⟩
  · subst h2
    apply hset
    exact merged_lwit hf (hfs _ (Fields.get?_mem hg))
  · subst h2
    exact hset _ hf

/-- what a field set must satisfy: some object among `vs` has only keys of the set, and every field type is
    (laxly) witnessed by the values at its key — `DOptional` field types are allowed -/
def SetL (Obj : ObjRel) (acc : Accepts) (vs : List Json) (fs : Fields) : Prop :=
  HasObjWithin fs.keys vs ∧ ∀ kv ∈ fs, FL Obj acc vs kv.1 kv.2

theorem mergeItems_FL {vs : List Json} {c e first} :
    ∀ {mdl fs r}, mergeItems c e first fs mdl = .ok r →
      (∀ kv ∈ fs, FL Obj acc vs kv.1 kv.2) →
      (∀ kv ∈ mdl, FL Obj acc vs kv.1 kv.2) →
      (first = false → ∀ name, name ∉ fs.keys → LacksKey name vs) →
      ∀ kv ∈ r, FL Obj acc vs kv.1 kv.2 := by
  intro mdl
  induction mdl with
  | nil => intro fs r h hfs _ _; rw [mergeItems_nil, Except.ok.injEq] at h; subst h; exact hfs
  | cons kv mdl ih =>
    intro fs r h hfs hm hl
    obtain ⟨fs', h1, h2⟩ := mergeItems_cons.1 h
    have hkv := hm kv (List.mem_cons_self ..)
    refine ih h2 (mergeOne_FL h1 hfs hkv (fun hf hn => hl hf _ hn))
      (fun kv' h' => hm kv' (List.mem_cons_of_mem _ h')) ?_
    intro hf name hn
    apply hl hf
    intro hmem
    apply hn
    rw [mergeOne_keys h1, mem_dstep]
    exact .inl hmem

theorem mergeStep_FL {vs : List Json} {c e first fields mdl r}
    (h : mergeStep c e first fields mdl = .ok r)
    (hfs : ∀ kv ∈ fields, FL Obj acc vs kv.1 kv.2) (hm : SetL Obj acc vs mdl)
    (hl : first = false → ∀ name, name ∉ fields.keys → LacksKey name vs) :
    (∀ kv ∈ r, FL Obj acc vs kv.1 kv.2) ∧ ∀ name, name ∉ r.keys → LacksKey name vs := by
  obtain ⟨fs1, h1, h2⟩ := mergeStep_eq.1 h
  have hk : r.keys = mdl.keys.foldl dstep fields.keys := mergeStep_keys h
  refine ⟨?_, ?_⟩
  · subst h2
    intro kv hkv
    obtain ⟨kv0, h0, rfl⟩ := List.mem_map.1 hkv
    have := mergeItems_FL h1 hfs hm.2 hl kv0 h0
    unfold wrapMissing
    split
    · rename_i hc
      simp only [Bool.and_eq_true, Bool.not_eq_true'] at hc
      unfold FL at this ⊢
      simp only [LWit]
      refine ⟨.inl (lacks_of_within hm.1 ?_), this⟩
      intro hmem
      have := Fields.has_iff.2 hmem
      rw [this] at hc; simp at hc
    · exact this
  · intro name hn
    apply lacks_of_within hm.1
    intro hmem
    apply hn
    rw [hk, mem_foldl_dstep]
    exact .inr hmem

theorem go_FL {vs : List Json} {c e} :
    ∀ {sets first fields r}, mergeFieldSets.go c e first fields sets = .ok r →
      (∀ kv ∈ fields, FL Obj acc vs kv.1 kv.2) → (∀ fs ∈ sets, SetL Obj acc vs fs) →
      (first = false → ∀ name, name ∉ fields.keys → LacksKey name vs) →
      ∀ kv ∈ r, FL Obj acc vs kv.1 kv.2 := by
  intro sets
  induction sets with
  | nil =>
    intro first fields r h hfs _ _
    simp [mergeFieldSets.go, pure, Except.pure] at h; subst h; exact hfs
  | cons mdl ms ih =>
    intro first fields r h hfs hs hl
    rw [mergeFieldSets.go, Except.bind_ok_iff] at h
    obtain ⟨f1, h1, h2⟩ := h
    obtain ⟨a1, a2⟩ := mergeStep_FL h1 hfs (hs mdl (List.mem_cons_self ..)) hl
    exact ih h2 a1 (fun m' h' => hs m' (List.mem_cons_of_mem _ h')) (fun _ => a2)

/-- **`mergeFieldSets_lwit`**: the merge of (laxly) witnessed field sets — `DOptional` fields allowed — is a
    (laxly) witnessed field dict over the same objects -/
theorem mergeFieldSets_lwit {vs : List Json} {c e sets r}
    (h : mergeFieldSets c e sets = .ok r) (hne : sets ≠ []) (hs : ∀ fs ∈ sets, SetL Obj acc vs fs) :
    LModel Obj acc r vs := by
  constructor
  · obtain ⟨fs0, rest, rfl⟩ := List.exists_cons_of_ne_nil hne
    refine (hs fs0 (List.mem_cons_self ..)).1.mono (fun _ h => h) ?_
    intro k hk
    have := mergeFieldSets_keys h
    unfold Fields.keys at this
    rw [this, mem_dedupStr, List.mem_flatMap]
    exact ⟨fs0, List.mem_cons_self .., hk⟩
  · intro kv hkv
    unfold mergeFieldSets at h
    exact go_FL h (by intro kv hkv; simp at hkv) hs (by simp) kv hkv

/-- a witnessed model over `ws` is an admissible field set over any larger object list -/
theorem LModel.setL {fs : Fields} {ws vs : List Json} (h : LModel Obj acc fs ws) (hs : ∀ v ∈ ws, v ∈ vs) :
    SetL Obj acc vs fs :=
  ⟨h.1.mono hs (fun _ hk => hk),
   fun kv hkv => LWit.mono' (LacksKey.mono hs) id (fieldVals_mono hs) (h.2 kv hkv)⟩

end J2M.C02RH
